// Check for property C01: interpreted programs behave exactly like their compiled
// counterparts. GoGen.tla (over GoCore.tla) draws random programs of the sequential
// core and computes their meaning; every program is rendered to Go source and
// evaluated by the interpreter; a disagreement is first put to the Go toolchain.
package main

import (
	"os"

	"verif/fw"
	"verif/gocore"
	"verif/gorun"
)

func init() { gorun.Register() }

func main() { fw.Main("C01", "model_checking", run) }

func run(c *fw.Ctx) error {
	if len(os.Args) >= 3 && os.Args[1] == "--reduce" {
		return gorun.Reduce(c, os.Args[2])
	}
	c.Rule = "random programs drawn by GoGen.tla (functions f with a named result, pure g, two; main with closures, loops, switches, defers); a program is handed over when its evaluation by the specification ends within the fuel and value range; non-trivial when it executes at least 10 statements; distinct by source text"
	c.Assumptions = []string{
		"the renderer from abstract syntax to Go source (harness/gocore) is faithful",
		"the Go toolchain (native build) corroborates the specification on every disagreement and, in the thorough tier, on a sample of agreeing programs",
		"programs stay inside the deterministic fragment by construction (effectful calls only as the single call of a call-carrying statement)",
	}
	var behs []gocore.Beh
	if c.Replay != "" {
		var b gocore.Beh
		if err := c.LoadReplay(&b); err != nil {
			return err
		}
		behs = []gocore.Beh{b}
	} else {
		var err error
		const invs = "FamN = 1 FamFaults = {}\nINVARIANTS StatusOK ExactlyOnce RunAfterReg LIFO Emit\n"
		// pinned witnesses of the known findings (their constructs are excluded below)
		if behs, err = gorun.Generate(c, "SPECIFICATION SpecWit\nCONSTANTS Profile = \"core\" Pinned = TRUE "+invs, false, 1, 0, 0); err != nil {
			return err
		}
		// directed families: loop variables x writers x observers, switch clause orders
		fam, err := gorun.Generate(c, "SPECIFICATION SpecLoopFam\nCONSTANTS Profile = \"core\" Pinned = TRUE "+invs, false, 1, 0, 0)
		if err != nil {
			return err
		}
		behs = append(behs, fam...)
		sim, err := gorun.Generate(c, "SPECIFICATION SpecSim\nCONSTANTS Profile = \"core\" Pinned = FALSE "+invs, true, c.Pick(6, 14), c.Pick(8, 60), 50)
		if err != nil {
			return err
		}
		behs = append(behs, sim...)
	}
	return gorun.Check(c, behs, c.Pick(0, 300))
}
