package main

// Enumeration of the cases of a tier from the table groups.

import (
	"fmt"
	"strconv"
	"strings"
)

type tables struct {
	groups  []*group
	sgroups []*sgroup // loop sites (OpSeq.tla)
}

func kname(k mkind) string {
	if k.Signed {
		return fmt.Sprintf("s%d", k.W)
	}
	return fmt.Sprintf("u%d", k.W)
}

// enumerate calls emit for every case of the tier. Order is deterministic.
func enumerate(tb *tables, sel *selector, emit func(Case)) {
	for _, g := range tb.groups {
		switch g.Fam {
		case "arith", "div", "cmp":
			enumIntBinary(g, sel, emit)
		case "shift":
			enumShift(g, sel, emit)
		case "unary":
			enumIntUnary(g, sel, emit)
		case "conv":
			enumIntConv(g, sel, emit)
		case "strconv":
			enumStrConv(g, sel, emit)
		case "str":
			enumStr(g, sel, emit)
		case "bool":
			enumBool(g, sel, emit)
		case "farith":
			enumFloat(g, sel, emit)
		case "fcon":
			enumFloatConst(g, sel, emit)
		case "fconv":
			enumFloatConv(g, sel, emit)
		case "itof":
			enumIntToFloat(g, sel, emit)
		case "carith":
			enumComplex(g, sel, emit)
		}
	}
}

func boolText(b bool) string {
	if b {
		return "true"
	}
	return "false"
}

func enumIntBinary(g *group, sel *selector, emit func(Case)) {
	a := g.limbsA()
	var ops []string
	switch g.Fam {
	case "arith":
		ops = arithOps
	case "div":
		ops = []string{"quo", "rem"}
	case "cmp":
		ops = cmpOps
	}
	for _, gk := range kindsOf(g.K) {
		at := a.text(g.K.Signed)
		for _, r := range g.Rows {
			b := rowLimbs(r, "b")
			bt := b.text(g.K.Signed)
			red := rowBool(r, "red")
			for _, op := range ops {
				base := Case{Cls: "int", Op: op, T: gk.Name, A: at, B: bt, AC: true, BC: true, RT: gk.Name,
					Row: op + " " + gk.Name + " " + at + " " + bt, BZ: b.u64() == 0, Red: red}
				if g.Fam == "cmp" {
					base.RT = "bool"
					base.Res = boolText(rowBool(r, op))
					expand(base, binForms, cmpCtx, sel, emit)
					continue
				}
				res := rowLimbs(r, op)
				if res.panics() {
					base.Res = "PANIC"
					base.Cmp = at
				} else {
					base.Res = res.text(g.K.Signed)
					base.Cmp = base.Res
				}
				expand(base, binForms, arithCtx, sel, emit)
			}
		}
	}
}

func enumShift(g *group, sel *selector, emit func(Case)) {
	a := g.limbsA()
	at := a.text(g.K.Signed)
	for _, gk := range kindsOf(g.K) {
		for _, r := range g.Rows {
			ck := rowKind(r, "ck")
			cnt := rowLimbs(r, "c")
			ct := cnt.text(ck.Signed)
			red := rowBool(r, "red")
			neg := ck.Signed && int64(cnt.u64()) < 0
			for _, gck := range kindsOf(ck) {
				// in the quick tier the complete product uses the count types int and uint
				redc := red && (gck.Name == "int" || gck.Name == "uint")
				for _, op := range []string{"shl", "shr"} {
					base := Case{Cls: "int", Op: op, T: gk.Name, T2: gck.Name, A: at, B: ct, AC: true,
						BC: !neg && cnt.u64() < 1<<15, RT: gk.Name, Red: redc,
						Row: op + " " + gk.Name + " " + at + " " + gck.Name + " " + ct}
					res := rowLimbs(r, op)
					if res.panics() {
						base.Res = "PANIC"
						base.Cmp = at
					} else {
						base.Res = res.text(g.K.Signed)
						base.Cmp = base.Res
					}
					expand(base, binForms, arithCtx, sel, emit)
				}
			}
		}
	}
}

func enumIntUnary(g *group, sel *selector, emit func(Case)) {
	a := g.limbsA()
	at := a.text(g.K.Signed)
	for _, gk := range kindsOf(g.K) {
		for _, r := range g.Rows {
			red := rowBool(r, "red")
			for _, op := range []string{"neg", "pos", "not", "inc", "dec"} {
				res := rowLimbs(r, op).text(g.K.Signed)
				base := Case{Cls: "int", Op: op, T: gk.Name, A: at, AC: true, RT: gk.Name, Res: res, Cmp: res,
					Red: red, Row: op + " " + gk.Name + " " + at}
				if op == "inc" || op == "dec" {
					expand(base, []string{"V"}, []string{"stmt"}, sel, emit)
				} else {
					expand(base, []string{"V"}, unaryCtx, sel, emit)
				}
			}
		}
	}
}

func enumIntConv(g *group, sel *selector, emit func(Case)) {
	a := g.limbsA()
	at := a.text(g.K.Signed)
	for _, gk := range kindsOf(g.K) {
		for _, r := range g.Rows {
			k2 := rowKind(r, "k2")
			res := rowLimbs(r, "v").text(k2.Signed)
			red := rowBool(r, "red")
			for _, gk2 := range kindsOf(k2) {
				base := Case{Cls: "int", Op: "conv", T: gk.Name, T2: gk2.Name, A: at, AC: true, NoAlt: true, RT: gk2.Name,
					Res: res, Cmp: res, Red: red, Row: "conv " + gk.Name + " " + gk2.Name + " " + at}
				expand(base, []string{"V"}, unaryCtx, sel, emit)
			}
		}
	}
}

var valueCtx = []string{"assign", "return", "iface", "arg"}

// string(i) for an integer variable i: the bytes are printed with %x
func enumStrConv(g *group, sel *selector, emit func(Case)) {
	a := g.limbsA()
	at := a.text(g.K.Signed)
	for _, gk := range kindsOf(g.K) {
		for _, r := range g.Rows {
			var hx strings.Builder
			for _, b := range rowLimbs(r, "s") {
				fmt.Fprintf(&hx, "%02x", b)
			}
			base := Case{Cls: "int", Op: "conv", T: gk.Name, T2: "string", A: at, RT: "string", Res: hx.String(), Hex: true,
				Red: true, Row: "conv " + gk.Name + " string " + at}
			expand(base, []string{"V"}, valueCtx, sel, emit)
		}
	}
}

func intList(l limbs) string {
	p := make([]string, len(l))
	for i, x := range l {
		p[i] = strconv.Itoa(x)
	}
	return "[" + strings.Join(p, " ") + "]"
}

func enumStr(g *group, sel *selector, emit func(Case)) {
	at := strText(g.limbsA())
	for i, r := range g.Rows {
		if i == 0 {
			// conversions string <-> []byte, []rune (the table gives the bytes and the runes)
			for _, cv := range []struct{ op, expr, rt, pt, res string }{
				{"tobytes", "[]byte(a)", "[]byte", "[]uint8", intList(rowLimbs(r, "bytes"))},
				{"torunes", "[]rune(a)", "[]rune", "[]int32", intList(rowLimbs(r, "runes"))},
				{"bytesrt", "string([]byte(a))", "string", "", at},
				{"runesrt", "string([]rune(a))", "string", "", at},
			} {
				base := Case{Cls: "string", Op: cv.op, T: "string", A: at, RT: cv.rt, PT: cv.pt, Res: cv.res, Expr: cv.expr,
					Red: true, Row: cv.op + " string " + at}
				expand(base, []string{"V"}, valueCtx, sel, emit)
			}
		}
		bt := strText(rowLimbs(r, "b"))
		red := len(at) <= 1 && len(bt) <= 1
		for _, op := range append([]string{"add"}, cmpOps...) {
			base := Case{Cls: "string", Op: op, T: "string", A: at, B: bt, AC: true, BC: true, RT: "string",
				Red: red, Row: op + " string " + at + "," + bt}
			if op == "add" {
				base.Res = strText(rowLimbs(r, "add"))
				base.Cmp = base.Res
				expand(base, binForms, arithCtx, sel, emit)
			} else {
				base.RT = "bool"
				base.Res = boolText(rowBool(r, op))
				expand(base, binForms, cmpCtx, sel, emit)
			}
		}
	}
}

func enumBool(g *group, sel *selector, emit func(Case)) {
	bt := func(l limbs) string { return boolText(len(l) == 1 && l[0] == 1) }
	at := bt(g.limbsA())
	for i, r := range g.Rows {
		b := bt(rowLimbs(r, "b"))
		for _, op := range []string{"land", "lor", "eq", "ne"} {
			base := Case{Cls: "bool", Op: op, T: "bool", A: at, B: b, AC: true, BC: true, RT: "bool",
				Res: boolText(rowBool(r, op)), Red: true, Row: op + " bool " + at + " " + b}
			expand(base, binForms, cmpCtx, sel, emit)
		}
		if i == 0 {
			base := Case{Cls: "bool", Op: "lnot", T: "bool", A: at, AC: true, RT: "bool",
				Res: boolText(rowBool(r, "not")), Red: true, Row: "lnot bool " + at}
			expand(base, []string{"V"}, cmpCtx, sel, emit)
		}
	}
}

func fCmp(v fval) string {
	if v.C == "fin" {
		return v.lit()
	}
	return ""
}

func enumFloat(g *group, sel *selector, emit func(Case)) {
	T := g.F
	x := g.FA
	at := x.varInit(T)
	first := true
	for _, r := range g.Rows {
		y := rowF(r, "b")
		bt := y.varInit(T)
		red := rowBool(r, "red")
		row := T + " " + at + " " + bt
		for _, op := range []string{"add", "sub", "mul", "quo"} {
			res := rowF(r, op)
			if !res.spec() {
				continue
			}
			base := Case{Cls: "float", Op: op, T: T, A: at, B: bt, AC: x.isConst(), BC: y.isConst(), RT: T,
				Res: res.printed(T), Cmp: fCmp(res), Red: red, Row: op + " " + row, BZ: y.C == "zero" && y.S == 0}
			base.NoAlt = x.C != "fin" // a comparand must be a finite non-zero constant
			expand(base, binForms, arithCtx, sel, emit)
		}
		for _, op := range cmpOps {
			base := Case{Cls: "float", Op: op, T: T, A: at, B: bt, AC: x.isConst(), BC: y.isConst(), RT: "bool",
				Res: boolText(rowBool(r, op)), Red: red, Row: op + " " + row}
			expand(base, binForms, cmpCtx, sel, emit)
		}
		if first {
			first = false
			redu := false // x is in the reduced set iff some row of the group is
			for _, rr := range g.Rows {
				redu = redu || rowBool(rr, "red")
			}
			for _, op := range []string{"neg", "inc", "dec"} {
				res := rowF(r, op)
				if !res.spec() {
					continue
				}
				base := Case{Cls: "float", Op: op, T: T, A: at, AC: false, NoAlt: true, RT: T, Res: res.printed(T), Cmp: fCmp(res),
					Red: redu, Row: op + " " + T + " " + at}
				if op == "neg" {
					expand(base, []string{"V"}, unaryCtx, sel, emit)
					base.Op, base.Row = "pos", "pos "+T+" "+at
					base.Res, base.Cmp = x.printed(T), fCmp(x)
					expand(base, []string{"V"}, unaryCtx, sel, emit)
				} else {
					expand(base, []string{"V"}, []string{"stmt"}, sel, emit)
				}
			}
		}
	}
}

// enumFloatConst: operand b is an untyped constant that the format cannot hold, written as an
// exact hexadecimal literal; it is rounded once where it meets the typed operand a (forms: literal,
// untyped named constant, typed named constant and variable initialised by the literal).
func enumFloatConst(g *group, sel *selector, emit func(Case)) {
	T := g.F
	x := g.FA
	at := x.varInit(T)
	for _, r := range g.Rows {
		y := rowF(r, "b")
		bt := y.lit()
		red := rowBool(r, "red")
		row := T + " " + at + " const " + bt
		for _, op := range []string{"add", "sub", "mul", "quo"} {
			res := rowF(r, op)
			if !res.spec() {
				continue
			}
			base := Case{Cls: "float", Op: op, T: T, A: at, B: bt, AC: x.isConst(), BC: true, RT: T,
				Res: res.printed(T), Cmp: fCmp(res), Red: red, Row: op + " " + row, NoAlt: true}
			expand(base, []string{"VL", "VC", "VU", "VV"}, arithCtx, sel, emit)
		}
		for _, op := range cmpOps {
			base := Case{Cls: "float", Op: op, T: T, A: at, B: bt, AC: x.isConst(), BC: true, RT: "bool",
				Res: boolText(rowBool(r, op)), Red: red, Row: op + " " + row}
			expand(base, []string{"VL", "VC", "VU", "VV"}, cmpCtx, sel, emit)
		}
	}
}

func enumFloatConv(g *group, sel *selector, emit func(Case)) {
	T := g.F
	x := g.FA
	at := x.varInit(T)
	for _, r := range g.Rows {
		k2 := rowKind(r, "k2")
		v := rowLimbs(r, "v")
		if v.panics() { // not specified by the language (NaN, Inf, out of range)
			continue
		}
		res := v.text(k2.Signed)
		red := rowBool(r, "red")
		for _, gk2 := range kindsOf(k2) {
			base := Case{Cls: "float", Op: "conv", T: T, T2: gk2.Name, A: at, RT: gk2.Name, Res: res, Cmp: res,
				Red: red, Row: "conv " + T + " " + gk2.Name + " " + at}
			expand(base, []string{"V"}, unaryCtx, sel, emit)
		}
	}
	for _, r := range g.ToF {
		T2 := rowStr(r, "F2")
		v := rowF(r, "v")
		if !v.spec() {
			continue
		}
		base := Case{Cls: "float", Op: "conv", T: T, T2: T2, A: at, RT: T2, Res: v.printed(T2), Cmp: fCmp(v),
			Red: true, Row: "conv " + T + " " + T2 + " " + at}
		expand(base, []string{"V"}, unaryCtx, sel, emit)
	}
}

func enumIntToFloat(g *group, sel *selector, emit func(Case)) {
	T2 := g.F
	a := g.limbsA()
	at := a.text(g.K.Signed)
	for _, r := range g.Rows {
		v := rowF(r, "v")
		if !v.spec() {
			continue
		}
		red := rowBool(r, "red")
		for _, gk := range kindsOf(g.K) {
			base := Case{Cls: "int", Op: "conv", T: gk.Name, T2: T2, A: at, AC: false, RT: T2, Res: v.printed(T2),
				Cmp: fCmp(v), Red: red, Row: "conv " + gk.Name + " " + T2 + " " + at}
			expand(base, []string{"V"}, unaryCtx, sel, emit)
		}
	}
}

func cCmp(v cval) string {
	if v.isConst() {
		return v.lit()
	}
	return ""
}

func enumComplex(g *group, sel *selector, emit func(Case)) {
	T := "complex128"
	if g.F == "float32" {
		T = "complex64"
	}
	x := g.CA
	at := x.lit()
	for i, r := range g.Rows {
		y := rowC(r, "b")
		bt := y.lit()
		row := T + " " + at + " " + bt
		for _, op := range []string{"add", "sub", "mul", "quo"} {
			res := rowC(r, op)
			if !res.spec() {
				continue
			}
			base := Case{Cls: "complex", Op: op, T: T, A: at, B: bt, AC: true, BC: true, RT: T, Res: res.printed(T),
				Cmp: cCmp(res), Red: true, Row: op + " " + row}
			base.NoAlt = true // complex results are compared with themselves only
			expand(base, binForms, arithCtx, sel, emit)
		}
		for _, op := range []string{"eq", "ne"} {
			base := Case{Cls: "complex", Op: op, T: T, A: at, B: bt, AC: true, BC: true, RT: "bool",
				Res: boolText(rowBool(r, op)), Red: true, Row: op + " " + row}
			expand(base, binForms, cmpCtx, sel, emit)
		}
		if i == 0 {
			res := rowC(r, "neg")
			base := Case{Cls: "complex", Op: "neg", T: T, A: at, RT: T, Res: res.printed(T), Cmp: cCmp(res), Red: true,
				Row: "neg " + T + " " + at}
			expand(base, []string{"V"}, unaryCtx, sel, emit)
			for _, c := range g.ToC {
				v := rowC(c, "v")
				if !v.spec() {
					continue
				}
				T2 := "complex128"
				if rowStr(c, "F2") == "float32" {
					T2 = "complex64"
				}
				b := Case{Cls: "complex", Op: "conv", T: T, T2: T2, A: at, RT: T2, Res: v.printed(T2), Cmp: cCmp(v), Red: true,
					Row: "conv " + T + " " + T2 + " " + at}
				expand(b, []string{"V"}, unaryCtx, sel, emit)
			}
		}
	}
}
