package main

// Expansion of table rows into cases (operand form x result context) and rendering of
// cases into Go source. A case carries the expected text, which is always a re-writing
// of a table entry.

import (
	"fmt"
	"hash/fnv"
	"sort"
	"strings"
)

// Case is the model-level description of one generated function.
type Case struct {
	Cls   string `json:"cls"`          // int float complex string bool
	Op    string `json:"op"`           // add sub mul quo rem and or xor andnot shl shr eq ne lt le gt ge land lor neg pos not lnot inc dec conv
	T     string `json:"t"`            // type of operand a
	T2    string `json:"t2,omitempty"` // type of the shift count / target type of a conversion
	A     string `json:"a"`            // operand a: literal, or initialiser expression when !AC
	B     string `json:"b,omitempty"`  // operand b
	AC    bool   `json:"ac"`           // a can be written as a constant
	BC    bool   `json:"bc"`           // b can be written as a constant
	Form  string `json:"form"`         // L literal, C typed constant, U untyped constant, V variable; one letter per operand
	Ctx   string `json:"ctx"`          // assign opassign return branch iface arg argcmp stmt
	RT    string `json:"rt"`           // static type of the expression
	Res   string `json:"res"`          // the table's result as printed by fmt ("PANIC": run-time panic)
	Cmp   string `json:"cmp,omitempty"`
	Want  string `json:"want"`         // expected text after the id
	Row   string `json:"row"`          // identity of the table row
	BZ    bool   `json:"bz,omitempty"` // b is the constant-expressible zero of its type
	Red   bool   `json:"red,omitempty"`
	NoAlt bool   `json:"noalt,omitempty"` // operand a is not usable as alternative comparand
	ID    string `json:"id,omitempty"`
	Hex   bool   `json:"hex,omitempty"`  // the value is printed with %x (strings with arbitrary bytes)
	PT    string `json:"pt,omitempty"`   // the result type as %T prints it, when it differs from RT
	Expr  string `json:"expr,omitempty"` // unary expression over a, when it is not a plain operator or conversion
	Site  *Site  `json:"site,omitempty"` // a loop site (seq.go): the case is a sequence of evaluations
}

var opSym = map[string]string{
	"add": "+", "sub": "-", "mul": "*", "quo": "/", "rem": "%", "and": "&", "or": "|", "xor": "^", "andnot": "&^",
	"shl": "<<", "shr": ">>", "eq": "==", "ne": "!=", "lt": "<", "le": "<=", "gt": ">", "ge": ">=",
	"land": "&&", "lor": "||", "neg": "-", "pos": "+", "not": "^", "lnot": "!",
}

var (
	binForms  = []string{"LV", "VL", "CV", "VC", "UV", "VU", "VV"}
	arithCtx  = []string{"assign", "opassign", "return", "branch", "iface", "ireturn", "arg", "argcmp"}
	cmpCtx    = []string{"assign", "return", "branch", "iface", "ireturn", "arg"}
	unaryCtx  = []string{"assign", "return", "branch", "iface", "ireturn", "arg", "argcmp"}
	cmpOps    = []string{"eq", "ne", "lt", "le", "gt", "ge"}
	arithOps  = []string{"add", "sub", "mul", "and", "or", "xor", "andnot"}
	isCmpOp   = map[string]bool{"eq": true, "ne": true, "lt": true, "le": true, "gt": true, "ge": true}
	isBoolOp  = map[string]bool{"land": true, "lor": true, "lnot": true}
	isShiftOp = map[string]bool{"shl": true, "shr": true}
)

// ireturnOn: the result context "the expression is returned by a function whose result type is
// interface{}" (func f(a T) interface{} { return -a }). Its first run showed a family of defects of the
// interpreter (comparisons, %, shifts panic; -a and ^a yield nil); held back until the repair is in /repo.
var ireturnOn = true

func hash64(parts ...string) uint64 {
	h := fnv.New64a()
	for _, p := range parts {
		h.Write([]byte(p))
		h.Write([]byte{0})
	}
	return h.Sum64()
}

// selector decides which (row, form, context) combinations a tier runs.
type selector struct {
	full     bool   // thorough: everything
	seed     string // quick: rows of the reduced set completely, the rest sampled
	rate     uint64 // per 10000
	siteRate uint64
}

// takeSite: loop sites whose operands are all variables always run; the sites with a constant
// operand are sampled in the quick tier.
func (s *selector) takeSite(allVar bool, row, form, ctx string) bool {
	if s.full || allVar {
		return true
	}
	return hash64(s.seed, row, form, ctx)%10000 < s.siteRate
}

func (s *selector) take(red bool, row, form, ctx string) bool {
	if s.full || red {
		return true
	}
	return hash64(s.seed, row, form, ctx)%10000 < s.rate
}

// expand emits every case of one table row.
// base has Cls, Op, T, T2, A, B, AC, BC, RT, Res, Row, BZ, Red filled in.
func expand(base Case, forms, ctxs []string, sel *selector, emit func(Case)) {
	boolRes := base.RT == "bool"
	for _, f := range forms {
		if len(f) == 2 {
			if f[0] != 'V' && !base.AC {
				continue
			}
			if f[1] != 'V' && !base.BC {
				continue
			}
			// compile-time matters (C03/C12): a constant zero integer divisor
			if base.Cls == "int" && (base.Op == "quo" || base.Op == "rem") && f[1] != 'V' && base.BZ {
				continue
			}
		}
		for _, ctx := range ctxs {
			if ctx == "opassign" && f[0] != 'V' {
				continue
			}
			if ctx == "ireturn" && !ireturnOn {
				continue
			}
			if !sel.take(base.Red, base.Row, f, ctx) {
				continue
			}
			k := base
			k.Form, k.Ctx = f, ctx
			switch ctx {
			case "iface", "ireturn":
				pt := k.RT
				if k.PT != "" {
					pt = k.PT
				}
				if k.Res == "PANIC" {
					k.Want = "PANIC"
				} else {
					k.Want = k.Res + " " + pt
				}
			case "branch", "argcmp":
				if boolRes {
					if ctx == "argcmp" {
						continue
					}
					k.Want = k.Res
					break
				}
				// comparand: the result itself (true) or operand a (true or false), both table values
				if k.Cmp == "" {
					continue // no constant-expressible comparand (NaN, Inf, -0)
				}
				if k.Res == "PANIC" {
					k.Want = "PANIC"
				} else if hash64(k.Row)&1 == 0 || !k.AC || k.NoAlt {
					k.Want = "true"
				} else {
					// both are literals of table values in one canonical notation
					if k.A == k.Cmp {
						k.Want = "true"
					} else {
						k.Want = "false"
					}
					k.Cmp = k.A
				}
			default:
				k.Want = k.Res
			}
			emit(k)
		}
	}
}

// ---------------------------------------------------------------------------------
// rendering

func quoteIfString(cls, v string) string {
	if cls == "string" {
		return fmt.Sprintf("%q", v)
	}
	return v
}

type operand struct {
	decl   string // declaration inside the function that evaluates the expression
	vdecl  string // declaration of the variable (for V operands)
	expr   string
	param  string // parameter declaration when the operand is a variable and the context is return
	isVar  bool
	consty bool
}

func mkOperand(letter byte, name, typ, val string) operand {
	switch letter {
	case 'V':
		return operand{vdecl: "\tvar " + name + " " + typ + " = " + val + "\n", expr: name, param: name + " " + typ, isVar: true}
	case 'L':
		return operand{expr: val, consty: true}
	case 'C':
		return operand{decl: "\tconst k" + name + " " + typ + " = " + val + "\n", expr: "k" + name, consty: true}
	default: // 'U'
		return operand{decl: "\tconst k" + name + " = " + val + "\n", expr: "k" + name, consty: true}
	}
}

// render writes the function(s) of one case. needsMath reports whether package math is used.
func render(w *strings.Builder, k *Case) (needsMath bool) {
	if k.Site != nil {
		renderSite(w, k)
		return false
	}
	id := k.ID
	aval, bval := quoteIfString(k.Cls, k.A), quoteIfString(k.Cls, k.B)
	if strings.Contains(aval, "math.") || strings.Contains(bval, "math.") {
		needsMath = true
	}
	var ops []operand
	var expr string
	untypedShift := false
	switch {
	case k.Expr != "":
		a := mkOperand('V', "a", k.T, aval)
		ops = []operand{a}
		expr = k.Expr
	case k.Op == "conv":
		a := mkOperand('V', "a", k.T, aval)
		ops = []operand{a}
		expr = k.T2 + "(a)"
	case k.Op == "inc" || k.Op == "dec":
		a := mkOperand('V', "a", k.T, aval)
		ops = []operand{a}
	case len(k.Form) == 1:
		a := mkOperand(k.Form[0], "a", k.T, aval)
		ops = []operand{a}
		expr = opSym[k.Op] + a.expr
	default:
		bt := k.T
		if isShiftOp[k.Op] {
			bt = k.T2
		}
		a := mkOperand(k.Form[0], "a", k.T, aval)
		b := mkOperand(k.Form[1], "b", bt, bval)
		ops = []operand{a, b}
		ae := a.expr
		if isShiftOp[k.Op] && (k.Form[0] == 'L' || k.Form[0] == 'U') {
			// the untyped constant takes its type from the context; where the context gives
			// none (interface destination) it would become int: convert explicitly unless
			// int is the kind under test
			untypedShift = true
			if k.T != "int" && (k.Ctx == "iface" || k.Ctx == "ireturn" || k.Ctx == "arg") {
				ae = k.T + "(" + ae + ")"
				untypedShift = false
			}
		}
		expr = ae + " " + opSym[k.Op] + " " + b.expr
	}
	var decls, vdecls strings.Builder
	var params, args []string
	for _, o := range ops {
		decls.WriteString(o.decl)
		vdecls.WriteString(o.vdecl)
		if o.isVar {
			params = append(params, o.param)
			args = append(args, o.expr)
		}
	}
	cmp := quoteIfString(k.Cls, k.Cmp)
	cmpDecl := ""
	if (k.Ctx == "branch" || k.Ctx == "argcmp") && k.RT != "bool" {
		if untypedShift && k.T != "int" {
			cmpDecl = "\tvar c " + k.RT + " = " + cmp + "\n"
			cmp = "c"
		}
	}
	fmt.Fprintf(w, "func %s() {\n\tdefer rec(%q)\n", id, id)
	if k.Hex {
		switch k.Ctx {
		case "assign":
			w.WriteString(decls.String() + vdecls.String())
			fmt.Fprintf(w, "\tvar r %s\n\tr = %s\n\tfmt.Printf(\"%%s %%x\\n\", %q, r)\n}\n", k.RT, expr, id)
		case "return":
			w.WriteString(vdecls.String())
			fmt.Fprintf(w, "\tfmt.Printf(\"%%s %%x\\n\", %q, f%s(%s))\n}\n", id, id, strings.Join(args, ", "))
			fmt.Fprintf(w, "func f%s(%s) %s {\n%s\treturn %s\n}\n", id, strings.Join(params, ", "), k.RT, decls.String(), expr)
		case "iface":
			w.WriteString(decls.String() + vdecls.String())
			fmt.Fprintf(w, "\tvar i interface{} = %s\n\tfmt.Printf(\"%%s %%x %%T\\n\", %q, i, i)\n}\n", expr, id)
		case "ireturn":
			w.WriteString(vdecls.String())
			fmt.Fprintf(w, "\ti := f%s(%s)\n\tfmt.Printf(\"%%s %%x %%T\\n\", %q, i, i)\n}\n", id, strings.Join(args, ", "), id)
			fmt.Fprintf(w, "func f%s(%s) interface{} {\n%s\treturn %s\n}\n", id, strings.Join(params, ", "), decls.String(), expr)
		default: // arg
			w.WriteString(decls.String() + vdecls.String())
			fmt.Fprintf(w, "\tfmt.Printf(\"%%s %%x\\n\", %q, %s)\n}\n", id, expr)
		}
		return needsMath
	}
	switch k.Ctx {
	case "assign":
		w.WriteString(decls.String() + vdecls.String())
		fmt.Fprintf(w, "\tvar r %s\n\tr = %s\n\tfmt.Println(%q, r)\n}\n", k.RT, expr, id)
	case "opassign":
		w.WriteString(decls.String() + vdecls.String())
		fmt.Fprintf(w, "\ta %s= %s\n\tfmt.Println(%q, a)\n}\n", opSym[k.Op], ops[1].expr, id)
	case "stmt":
		w.WriteString(vdecls.String())
		sym := "++"
		if k.Op == "dec" {
			sym = "--"
		}
		fmt.Fprintf(w, "\ta%s\n\tfmt.Println(%q, a)\n}\n", sym, id)
	case "return":
		w.WriteString(vdecls.String())
		fmt.Fprintf(w, "\tfmt.Println(%q, f%s(%s))\n}\n", id, id, strings.Join(args, ", "))
		fmt.Fprintf(w, "func f%s(%s) %s {\n%s\treturn %s\n}\n", id, strings.Join(params, ", "), k.RT, decls.String(), expr)
	case "branch":
		w.WriteString(decls.String() + vdecls.String() + cmpDecl)
		cond := expr
		if k.RT != "bool" {
			cond = expr + " == " + cmp
		}
		fmt.Fprintf(w, "\tif %s {\n\t\tfmt.Println(%q, true)\n\t} else {\n\t\tfmt.Println(%q, false)\n\t}\n}\n", cond, id, id)
	case "iface":
		w.WriteString(decls.String() + vdecls.String())
		fmt.Fprintf(w, "\tvar i interface{} = %s\n\tfmt.Printf(\"%%s %%v %%T\\n\", %q, i, i)\n}\n", expr, id)
	case "ireturn": // the result type of the function is interface{}: the value keeps its own type
		w.WriteString(vdecls.String())
		fmt.Fprintf(w, "\ti := f%s(%s)\n\tfmt.Printf(\"%%s %%v %%T\\n\", %q, i, i)\n}\n", id, strings.Join(args, ", "), id)
		fmt.Fprintf(w, "func f%s(%s) interface{} {\n%s\treturn %s\n}\n", id, strings.Join(params, ", "), decls.String(), expr)
	case "arg":
		w.WriteString(decls.String() + vdecls.String())
		fmt.Fprintf(w, "\tfmt.Println(%q, %s)\n}\n", id, expr)
	case "argcmp":
		w.WriteString(decls.String() + vdecls.String() + cmpDecl)
		fmt.Fprintf(w, "\tfmt.Println(%q, %s == %s)\n}\n", id, expr, cmp)
	}
	return needsMath
}

// program renders a list of cases (ids are assigned here) into one main package.
func program(cases []Case) string {
	var body strings.Builder
	needsMath := false
	decls := map[string]string{}
	var declOrder []string
	for i := range cases {
		cases[i].ID = fmt.Sprintf("c%d", i)
		if render(&body, &cases[i]) {
			needsMath = true
		}
		if st := cases[i].Site; st != nil {
			for n, d := range st.Decls {
				if _, ok := decls[n]; !ok && d != "" {
					decls[n] = d
					declOrder = append(declOrder, n)
					if strings.Contains(d, "math.") {
						needsMath = true
					}
				}
			}
		}
	}
	sort.Strings(declOrder)
	var w strings.Builder
	w.Grow(body.Len() + len(cases)*8 + 256)
	w.WriteString("package main\n\nimport (\n\t\"fmt\"\n")
	if needsMath {
		w.WriteString("\t\"math\"\n")
	}
	w.WriteString(")\n\nfunc rec(id string) {\n\tif r := recover(); r != nil {\n\t\tfmt.Println(id, \"PANIC\")\n\t}\n}\n\n")
	for _, n := range declOrder {
		w.WriteString(decls[n] + "\n")
	}
	w.WriteString(body.String())
	w.WriteString("\nfunc main() {\n")
	for i := range cases {
		fmt.Fprintf(&w, "\tc%d()\n", i)
	}
	w.WriteString("}\n")
	return w.String()
}
