package main

import "strings"

// Root-cause refinements of failure triggers and named exclusions of constructs that the
// interpreter rejects at compile time or on which it ends the evaluation silently (they
// would hide the other cases of a program). Everything here is computed from the
// model-level case.

const (
	trigFloatDivConstZero   = "float division by a constant zero divisor"
	trigUntypedShiftOperand = "non-constant shift with an untyped constant left operand, used as operand of a binary expression"
	trigIncDecUintptr       = "++/-- on a uintptr variable"
	trigNegShiftCount       = "shift by a negative run-time count"
	trigNegZeroArg          = "float -0 passed as a function argument"
	trigIfaceAssign         = "plain assignment of a %, <<, >>, unary -, ^ or ! expression to a declared interface variable"
)

// ifaceAssignBroken: operators whose result, assigned with `i = e` to an interface variable
// declared before, stops the function (F-C02-7). Found by the loop sites, whose interface
// destination is declared outside the loop.
func ifaceAssignBroken(op string) bool {
	switch op {
	case "rem", "shl", "shr", "neg", "not", "lnot", "nand", "nor":
		return true
	}
	return strings.HasSuffix(op, " nand") || strings.HasSuffix(op, " nor")
}

func negCount(k *Case) bool { return isShiftOp[k.Op] && strings.HasPrefix(k.B, "-") }

func isNegZero(v string) bool { return strings.Contains(v, "Copysign(0, -1)") }

// knownTrigger gives the root-cause trigger of a case, "" when none applies.
func knownTrigger(k *Case) string {
	if k.Site != nil {
		if k.Ctx == "iface" && ifaceAssignBroken(k.Op) {
			return trigIfaceAssign
		}
		return ""
	}
	switch {
	case k.Cls == "float" && k.Op == "quo" && len(k.Form) == 2 && k.Form[1] != 'V' && k.BZ:
		return trigFloatDivConstZero
	case isShiftOp[k.Op] && (k.Form[0] == 'L' || k.Form[0] == 'U') && (k.Ctx == "branch" || k.Ctx == "argcmp"):
		return trigUntypedShiftOperand
	case (k.Op == "inc" || k.Op == "dec") && k.T == "uintptr":
		return trigIncDecUintptr
	case negCount(k):
		return trigNegShiftCount
	case k.Cls == "float" && k.Ctx == "return" &&
		(len(k.Form) >= 1 && k.Form[0] == 'V' && isNegZero(k.A) || len(k.Form) == 2 && k.Form[1] == 'V' && isNegZero(k.B)):
		return trigNegZeroArg
	}
	return ""
}

// Excluded_F_C02_1, Excluded_F_C02_2, Excluded_F_C02_3: constructs kept out of the bulk
// programs because the interpreter rejects the whole program or stops it silently.
// A few cases of each (per kind class) are run alone as pinned witnesses, so the finding is
// still exercised and printed. "drop" removes the case altogether.
func excluded(k *Case) string {
	switch knownTrigger(k) {
	case trigFloatDivConstZero:
		return "" // F-C02-1 is repaired in /repo: back in the bulk programs
	case trigUntypedShiftOperand:
		return "" // F-C02-2a/b/c and F-C02-4 are repaired in /repo (33a1631, 5d7c256, e6d4589): back in the bulk programs
	case trigIncDecUintptr:
		return "" // F-C02-3 is repaired in /repo: back in the bulk programs
	case trigIfaceAssign:
		return "" // F-C02-7 is repaired in /repo (17f31e6): back in the bulk programs
	}
	return ""
}

var pinCount = map[string]int{}

func pinWanted(ex string, k *Case) bool {
	if ex == "drop" {
		return false
	}
	// a deterministic sample (1 in 8) of the excluded cases, at most 40 per group
	if strings.HasPrefix(ex, "F-C02-2") && hash64(k.Row, k.Form, k.Ctx)%8 != 0 {
		return false
	}
	if strings.HasPrefix(ex, "F-C02-7") && hash64(k.Row, k.Form, k.Ctx)%4 != 0 {
		return false
	}
	pinCount[ex]++
	return pinCount[ex] <= 40
}
