// Check for property C02: operators and conversions compute Go's results for every
// numeric kind. BV.tla / FloatSym.tla state the results (TLC checks algebraic identities on
// the very values it tabulates and emits the table); this harness expands every table row
// into operand forms x result contexts, packs the cases into Go programs, runs them under
// the interpreter in child processes and compares each printed line with the table.
// The same programs are valid Go: a disagreeing case is built natively before it is
// reported (native != table is a specification error, exit 2), and the thorough tier
// validates the whole table natively.
package main

import (
	"bytes"
	"encoding/json"
	"fmt"
	"math/rand"
	"os"
	"regexp"
	"runtime"
	"sort"
	"strconv"
	"strings"
	"sync"
	"time"

	"github.com/traefik/yaegi/interp"
	"github.com/traefik/yaegi/stdlib"

	"verif/fw"
)

func main() { fw.Main("C02", "model_checking", run) }

// ---------------------------------------------------------------------------------
// child: evaluate one program in a fresh interpreter

type job struct {
	Src string `json:"src"`
}

type jobRes struct {
	Out string `json:"out"`
	Err string `json:"err,omitempty"`
}

func init() {
	fw.RegisterChild("c02", func(raw json.RawMessage) any {
		var j job
		if err := json.Unmarshal(raw, &j); err != nil {
			return jobRes{Err: "bad job: " + err.Error()}
		}
		return evalProgram(j.Src)
	})
}

func evalProgram(src string) (r jobRes) {
	var out, errb bytes.Buffer
	defer func() {
		if p := recover(); p != nil {
			r.Out = out.String()
			r.Err = fmt.Sprintf("panic out of Eval: %v", p)
		}
	}()
	i := interp.New(interp.Options{Stdout: &out, Stderr: &errb})
	if err := i.Use(stdlib.Symbols); err != nil {
		return jobRes{Err: "use: " + err.Error()}
	}
	_, err := i.Eval(src)
	r.Out = out.String()
	if err != nil {
		r.Err = err.Error()
	}
	return r
}

// ---------------------------------------------------------------------------------
// running programs and comparing

type prog struct {
	cases []Case
	src   string
}

type failure struct {
	k    Case
	got  string // text after the id; "" when the case printed nothing
	err  string // evaluation error of the (single-case) program, if any
	none bool   // no output line
}

func parseOut(out string) map[string]string {
	m := map[string]string{}
	for _, line := range strings.Split(out, "\n") {
		if line == "" {
			continue
		}
		id, rest, _ := strings.Cut(line, " ")
		if _, dup := m[id]; dup {
			m[id] += "\n" + rest // a case printing twice is a disagreement
		} else {
			m[id] = rest
		}
	}
	return m
}

type runner struct {
	c        *fw.Ctx
	fails    []failure
	cases    int64
	programs int64
	bisects  int64
	mu       sync.Mutex
	rowSeen  map[uint64]struct{}
	samples  int
	byOp     map[string]int64
	seqElems int64
}

// runWave runs the programs and returns the groups of cases that produced no output.
func (r *runner) runWave(progs []*prog) [][]Case {
	jobs := make([]any, len(progs))
	for i, p := range progs {
		jobs[i] = job{Src: p.src}
	}
	res := r.c.RunChildren("c02", jobs, runtime.NumCPU(), 120*time.Second, nil)
	var missing [][]Case
	for i, p := range progs {
		var jr jobRes
		if res[i].Out != nil {
			json.Unmarshal(res[i].Out, &jr)
		} else {
			jr.Err = "harness child " + res[i].Describe()
		}
		lines := parseOut(jr.Out)
		var miss []Case
		for _, k := range p.cases {
			got, ok := lines[k.ID]
			switch {
			case !ok:
				if len(p.cases) == 1 {
					r.fails = append(r.fails, failure{k: k, none: true, err: jr.Err})
				} else {
					miss = append(miss, k)
				}
			case !matches(&k, got):
				r.fails = append(r.fails, failure{k: k, got: got})
			}
		}
		if len(miss) > 0 {
			missing = append(missing, miss)
		}
		r.programs++
	}
	return missing
}

// resolve re-runs the cases that printed nothing in smaller and smaller programs, so that
// one bad case (rejected at compile time, or ending main silently) does not hide the others.
func (r *runner) resolve(missing [][]Case) error {
	for len(missing) > 0 {
		var progs []*prog
		for _, m := range missing {
			// the first missing case is the likely culprit: run it alone, the rest in two halves
			parts := [][]Case{m[:1]}
			rest := m[1:]
			if len(rest) > 0 {
				h := (len(rest) + 1) / 2
				parts = append(parts, rest[:h])
				if h < len(rest) {
					parts = append(parts, rest[h:])
				}
			}
			for _, part := range parts {
				cs := append([]Case(nil), part...)
				progs = append(progs, &prog{cases: cs, src: program(cs)})
			}
		}
		r.bisects += int64(len(progs))
		if r.bisects > 60000 {
			return fmt.Errorf("more than 60000 bisection runs: a construct of the renderer is rejected wholesale (first: %+v)", missing[0][0])
		}
		missing = r.runWave(progs)
	}
	return nil
}

// ---------------------------------------------------------------------------------
// classification of a failing case (computed from the model-level case only)

var (
	rePos = regexp.MustCompile(`^(\S+:)?\d+:\d+: `)
	reNum = regexp.MustCompile(`[0-9]+`)
)

func normErr(e string) string {
	if i := strings.IndexByte(e, '\n'); i >= 0 {
		e = e[:i]
	}
	e = rePos.ReplaceAllString(e, "")
	e = reNum.ReplaceAllString(e, "N")
	if len(e) > 90 {
		e = e[:90]
	}
	return e
}

func kindClass(t string) string {
	switch {
	case strings.HasPrefix(t, "uint"):
		return "uint*"
	case strings.HasPrefix(t, "int"):
		return "int*"
	case strings.HasPrefix(t, "float"):
		return "float*"
	case strings.HasPrefix(t, "complex"):
		return "complex*"
	}
	return t
}

func (f *failure) mode() string {
	switch {
	case f.none && f.err != "":
		return "no output: " + normErr(f.err)
	case f.none:
		return "no output, no error (evaluation ends silently)"
	case f.k.Site != nil:
		return seqMode(&f.k, f.got)
	case f.got == "PANIC":
		return "panics where Go yields a value"
	case f.k.Want == "PANIC":
		return "yields a value where Go panics"
	case strings.Contains(f.got, "\n"):
		return "prints more than once"
	case f.k.Ctx == "iface" && f.k.Want != "PANIC":
		wv, wt, _ := strings.Cut(f.k.Want, " ")
		gv, gt, _ := strings.Cut(f.got, " ")
		if wv == gv && wt != gt {
			return "right value, wrong dynamic type " + gt
		}
		if wv != gv && wt != gt {
			return "wrong value and dynamic type " + gt
		}
	}
	return "wrong value"
}

// trigger names the construct: operator, kind class, form, context. Refinements that
// isolate a root cause come first.
func (f *failure) trigger() string {
	k := &f.k
	if t := knownTrigger(k); t != "" {
		return t
	}
	if k.Site != nil {
		return fmt.Sprintf("seq %s %s %s form=%s ctx=%s", k.Site.Fam, k.Op, kindClass(k.T), k.Form, k.Ctx)
	}
	t := k.T
	if k.Cls == "int" {
		t = kindClass(k.T)
	}
	s := fmt.Sprintf("%s %s %s form=%s ctx=%s", k.Cls, k.Op, t, k.Form, k.Ctx)
	if k.T2 != "" {
		s += " t2=" + kindClass(k.T2)
	}
	return s
}

// ---------------------------------------------------------------------------------
// triangulation: the same cases built natively

func nativeResults(c *fw.Ctx, cases []Case) (map[int]string, map[int]string) {
	const per = 300
	var srcs []string
	var chunks [][]Case
	for i := 0; i < len(cases); i += per {
		j := i + per
		if j > len(cases) {
			j = len(cases)
		}
		cs := append([]Case(nil), cases[i:j]...)
		srcs = append(srcs, program(cs))
		chunks = append(chunks, cs)
	}
	got := map[int]string{}
	errs := map[int]string{}
	res := c.NativeBatch(srcs, 60*time.Second)
	for ci, nr := range res {
		if !nr.BuildOK {
			// build the cases of the chunk one by one to attribute the error
			var single []string
			for _, k := range chunks[ci] {
				single = append(single, program([]Case{k}))
			}
			sres := c.NativeBatch(single, 60*time.Second)
			for x, sr := range sres {
				idx := ci*per + x
				if !sr.BuildOK {
					errs[idx] = "native build failed: " + firstLines(sr.BuildErr, 3)
					continue
				}
				got[idx] = parseOut(sr.Stdout)["c0"]
			}
			continue
		}
		lines := parseOut(nr.Stdout)
		for x, k := range chunks[ci] {
			v, ok := lines[k.ID]
			if !ok {
				errs[ci*per+x] = "native run printed nothing for the case: " + firstLines(nr.Stderr, 3)
				continue
			}
			got[ci*per+x] = v
		}
	}
	return got, errs
}

func firstLines(s string, n int) string {
	l := strings.SplitN(s, "\n", n+1)
	if len(l) > n {
		l = l[:n]
	}
	return strings.Join(l, " | ")
}

// report triangulates every failure and records violations / known findings / spec errors.
func (r *runner) report() {
	c := r.c
	if len(r.fails) == 0 {
		return
	}
	// at most a few hundred per signature are triangulated; the rest share the verdict of
	// their signature only if that verdict is "known finding"
	bySig := map[string][]int{}
	var order []string
	for i := range r.fails {
		s := r.fails[i].trigger() + " / " + r.fails[i].mode()
		if _, ok := bySig[s]; !ok {
			order = append(order, s)
		}
		bySig[s] = append(bySig[s], i)
	}
	sort.Strings(order)
	var pick []int
	for _, s := range order {
		l := bySig[s]
		if len(l) > 40 {
			l = l[:40]
		}
		pick = append(pick, l...)
	}
	cases := make([]Case, len(pick))
	for i, p := range pick {
		cases[i] = r.fails[p].k
	}
	nat, nerr := nativeResults(c, cases)
	r.c.Extra["failing_cases"] = len(r.fails)
	r.c.Extra["failing_signatures"] = len(order)
	for i, p := range pick {
		f := &r.fails[p]
		single := []Case{f.k}
		src := program(single)
		rep := map[string]any{"cases": single, "source": src, "expected": f.k.Want, "yaegi": f.got, "yaegi_error": f.err}
		if e, bad := nerr[i]; bad {
			c.SpecError("renderer produced a program the toolchain rejects or that prints nothing: %s\ncase %s", e, descr(&f.k, ""))
			continue
		}
		rep["native"] = nat[i]
		if f.k.Site != nil {
			rep["difference"] = seqDetail(&f.k, f.got)
		}
		if !matches(&f.k, nat[i]) {
			c.SpecError("table says %q, compiled Go prints %q for %s", short(f.k.Want), short(nat[i]), descr(&f.k, nat[i]))
			continue
		}
		c.DisagreeChk++
		c.Fail(f.trigger(), f.mode(), rep)
	}
}

// ---------------------------------------------------------------------------------

const perProgram = 400

func run(c *fw.Ctx) error {
	if strconv.IntSize != 64 {
		return fmt.Errorf("int/uint/uintptr are specified at 64 bits; this platform has %d", strconv.IntSize)
	}
	c.Rule = "one evaluation = one generated function (table row x operand form x result context) run under the interpreter and compared with the table; distinct counts table rows (operator, Go type, operands); a row is non-trivial when an operand is not 0 or 1 or the result is a panic"
	c.Assumptions = []string{
		"the renderer (limbs -> decimal literals, symbolic floats -> exact literals and fmt's shortest formatting) is trusted; it is validated with the table by native builds",
		"float rounding is not specified: float/complex rows whose exact result is not representable are not emitted",
		"int, uint, uintptr are checked at 64 bits",
		"constant op constant, constant zero integer divisors and negative constant shift counts are compile-time matters (C03/C12) and are not generated",
		"the installed Go toolchain is the reference that validates the specification (all table rows in the thorough tier, every disagreement in both tiers)",
	}
	if c.Replay != "" {
		return replay(c)
	}
	tb, err := buildTables(c)
	if err != nil {
		return err
	}
	sel := &selector{full: !c.Quick(), seed: strconv.FormatInt(c.Seed, 10), rate: 200, siteRate: 1000}
	r := &runner{c: c, rowSeen: map[uint64]struct{}{}}

	// producer: enumerate -> programs -> waves
	waves := make(chan []*prog, 2)
	pinned := []Case{}
	exclCount := map[string]int{}
	go func() {
		defer close(waves)
		var cur []Case
		var wave []*prog
		flush := func() {
			if len(cur) == 0 {
				return
			}
			cs := cur
			cur = nil
			wave = append(wave, &prog{cases: cs, src: program(cs)})
			if len(wave) >= 16*runtime.NumCPU() {
				waves <- wave
				wave = nil
			}
		}
		enumerate(tb, sel, func(k Case) {
			if ex := excluded(&k); ex != "" {
				exclCount[strings.Fields(ex)[0]]++
				if pinWanted(ex, &k) {
					pinned = append(pinned, k)
				}
				return
			}
			cur = append(cur, k)
			if len(cur) >= perProgram {
				flush()
			}
		})
		flush()
		// loop sites: their own programs (sites of one group share the operand tables)
		elems := 0
		enumerateSites(tb.sgroups, sel, func(k Case) {
			if ex := excluded(&k); ex != "" {
				exclCount[strings.Fields(ex)[0]]++
				if pinWanted(ex, &k) {
					pinned = append(pinned, k)
				}
				return
			}
			cur = append(cur, k)
			elems += len(k.Site.Tup)
			if len(cur) >= 150 || elems >= 25000 {
				flush()
				elems = 0
			}
		})
		flush()
		if len(wave) > 0 {
			waves <- wave
		}
	}()
	rng := rand.New(rand.NewSource(c.Seed))
	var natSample []*prog
	tRun := time.Now()
	var tWave time.Duration
	// development aid: only TLC, enumeration and the native validation (the replay of the
	// thorough tier does not depend on the seed; the natively validated sample does)
	skipReplay := os.Getenv("VERIF_C02_SKIP_REPLAY") != ""
	if skipReplay {
		c.Extra["replay_skipped"] = true
	}
	for wave := range waves {
		tw := time.Now()
		for _, p := range wave {
			if !c.Quick() && rng.Intn(100) < 2 {
				natSample = append(natSample, p)
			}
		}
		if skipReplay {
			continue
		}
		for _, p := range wave {
			r.account(p.cases)
		}
		missing := r.runWave(wave)
		if err := r.resolve(missing); err != nil {
			return err
		}
		tWave += time.Since(tw)
	}
	c.Extra["replay_wall_s"] = time.Since(tRun).Seconds()
	c.Extra["replay_in_children_wall_s"] = tWave.Seconds()
	// pinned witnesses of excluded constructs: one program per case
	if len(pinned) > 0 {
		var progs []*prog
		for _, k := range pinned {
			cs := []Case{k}
			progs = append(progs, &prog{cases: cs, src: program(cs)})
		}
		r.account(pinned)
		if err := r.resolve(r.runWave(progs)); err != nil {
			return err
		}
	}
	c.TracesVsImpl += r.cases
	c.Evaluations += r.cases - int64(len(r.rowSeen)) // Count() added one per distinct row
	c.Extra["cases"] = r.cases
	c.Extra["cases_by_class_and_operator"] = r.byOp
	c.Extra["loop_site_evaluations"] = r.seqElems
	c.Extra["programs"] = r.programs
	c.Extra["bisection_runs"] = r.bisects
	c.Extra["pinned_cases_of_excluded_constructs"] = len(pinned)
	c.Extra["cases_of_excluded_constructs_by_finding"] = exclCount
	c.Extra["exhaustive_except"] = "nothing: the constructs of the repaired findings F-C02-1, -2, -3, -4, -7 are back in the bulk programs (excluded() returns no exclusion; the counters above stay empty)"
	c.Exhaustive = !c.Quick()
	if c.Quick() {
		c.Extra["exhaustive_parts"] = "reduced boundary set {min,max,-1,0,1,2^(w/2)} x all kinds x all operators x all forms x all contexts; string/bool/complex complete"
	}
	tRep := time.Now()
	r.report()
	c.Extra["triangulation_wall_s"] = time.Since(tRep).Seconds()
	if !c.Quick() {
		if err := validateNative(c, tb, natSample); err != nil {
			return err
		}
	}
	return nil
}

// account feeds the evidence counters.
func (r *runner) account(cases []Case) {
	for i := range cases {
		k := &cases[i]
		r.cases++
		if r.byOp == nil {
			r.byOp = map[string]int64{}
		}
		if k.Site != nil {
			r.byOp["seq "+k.Site.Fam]++
			r.seqElems += int64(len(k.Site.Tup))
		} else {
			r.byOp[k.Cls+" "+k.Op]++
		}
		h := hash64(k.Row)
		if _, ok := r.rowSeen[h]; !ok {
			r.rowSeen[h] = struct{}{}
			nontrivial := k.Res == "PANIC" || !(k.A == "0" || k.A == "1") || (k.B != "" && !(k.B == "0" || k.B == "1"))
			r.c.Count(k.Row, nontrivial)
		}
		if r.samples < 5 && (r.cases%100003 == 1) {
			r.samples++
			var w strings.Builder
			kk := *k
			kk.ID = "c0"
			render(&w, &kk)
			r.c.Sample(map[string]any{"case": kk, "function": w.String(), "expected_line": "c0 " + k.Want})
		}
	}
}

// ---------------------------------------------------------------------------------
// TLC: one JVM per operator family, in parallel

func buildTables(c *fw.Ctx) (*tables, error) {
	full := "TRUE"
	idx := "{}"
	if c.Quick() {
		full = "FALSE"
		// seeded sample of the boundary sequence BSeq (52 entries) added to the reduced set
		rng := rand.New(rand.NewSource(c.Seed*7919 + 13))
		perm := rng.Perm(52)
		var s []string
		for _, p := range perm[:10] {
			s = append(s, strconv.Itoa(p+1))
		}
		sort.Strings(s)
		idx = "{" + strings.Join(s, ", ") + "}"
	}
	c.Extra["tlc_boundary_sample_indices"] = idx
	type runSpec struct {
		module, spec, fams, invs string
		workers                  int
	}
	// seeded affine permutation of the tuple alphabets of OpSeq (strides coprime with every alphabet size)
	stride := []int{11, 13, 17, 19, 23}[int(((c.Seed%5)+5)%5)]
	offset := int(((c.Seed*7)%997 + 997) % 997)
	c.Extra["opseq_permutation"] = fmt.Sprintf("i -> ((i-1)*%d + %d) mod N + 1", stride, offset)
	// 8 TLC worker threads in total (the machine is shared)
	runs := []runSpec{
		{"BV", "Spec", `{"div"}`, "TypeOK SaneDiv Emit", 3},
		{"BV", "Spec", `{"arith", "unary", "conv", "strconv", "str", "bool"}`, "TypeOK SaneArith SaneUnary SaneConv SaneStr SaneStrConv Emit", 2},
		{"BV", "Spec", `{"cmp", "shift"}`, "TypeOK SaneCmp SaneShift Emit", 2},
		{"FloatSym", "FSpec", `{"farith", "fcon", "fconv", "itof", "carith"}`, "SaneFArith SaneFCon SaneFConv SaneIToF SaneCArith FEmit", 2},
		{"OpSeq", "SSpec", `{"sarith", "sdiv", "scmp", "sshift", "sunary", "sconv", "scmpfeed", "sbool", "sstr", "sfarith", "sfcmpfeed", "sfconv", "scomplex"}`,
			"SeqCover HistoryFree RepsOK SEmit", 1},
	}
	var mu sync.Mutex
	tb := &tables{}
	var wg sync.WaitGroup
	errs := make([]error, len(runs))
	walls := make([]float64, len(runs))
	t0 := time.Now()
	for i, rs := range runs {
		wg.Add(1)
		go func(i int, rs runSpec) {
			defer wg.Done()
			cfg := fmt.Sprintf("SPECIFICATION %s\nCONSTANTS Fams = %s Full = %s SampleIdx = %s\nINVARIANTS %s\n", rs.spec, rs.fams, full, idx, rs.invs)
			if rs.module == "OpSeq" {
				cfg = fmt.Sprintf("SPECIFICATION %s\nCONSTANTS Fams = %s Full = FALSE SampleIdx = {} Stride = %d Offset = %d\nINVARIANTS %s\n", rs.spec, rs.fams, stride, offset, rs.invs)
			}
			name := fmt.Sprintf("gen%d.cfg", i)
			var local []*group
			var slocal []*sgroup
			res, err := c.TLC(fw.TLCOpts{Dir: "spec/num", Module: rs.module, Cfg: name, Files: map[string][]byte{name: []byte(cfg)},
				Workers: rs.workers, Timeout: 8 * time.Minute, HeapMB: 3000,
				OnBeh: func(raw json.RawMessage) {
					if rs.module == "OpSeq" {
						g := &sgroup{}
						if err := json.Unmarshal(raw, g); err == nil {
							slocal = append(slocal, g)
						}
						return
					}
					g := &group{}
					if err := json.Unmarshal(raw, g); err == nil {
						local = append(local, g)
					}
				}})
			if err != nil {
				errs[i] = err
				return
			}
			if res.Violated != "" {
				errs[i] = fmt.Errorf("model-level identity violated in %s %s: %s\n%s", rs.module, rs.fams, res.Violated, tail(res.Output, 1500))
				return
			}
			walls[i] = res.Wall.Seconds()
			mu.Lock()
			tb.groups = append(tb.groups, local...)
			tb.sgroups = append(tb.sgroups, slocal...)
			mu.Unlock()
		}(i, rs)
	}
	wg.Wait()
	for _, e := range errs {
		if e != nil {
			return nil, e
		}
	}
	// deterministic order whatever the worker interleaving was
	sort.SliceStable(tb.groups, func(i, j int) bool {
		a, b := tb.groups[i], tb.groups[j]
		ka := a.Fam + "|" + a.F + "|" + kname(a.K) + "|" + string(a.A) + "|" + fmt.Sprint(a.FA) + fmt.Sprint(a.CA)
		kb := b.Fam + "|" + b.F + "|" + kname(b.K) + "|" + string(b.A) + "|" + fmt.Sprint(b.FA) + fmt.Sprint(b.CA)
		return ka < kb
	})
	for _, g := range tb.groups {
		sort.SliceStable(g.Rows, func(i, j int) bool {
			return rowSortKey(g.Rows[i]) < rowSortKey(g.Rows[j])
		})
	}
	sort.SliceStable(tb.sgroups, func(i, j int) bool {
		a, b := tb.sgroups[i], tb.sgroups[j]
		return a.Fam+"|"+a.F+"|"+kname(a.K) < b.Fam+"|"+b.F+"|"+kname(b.K)
	})
	c.Extra["opseq_site_groups"] = len(tb.sgroups)
	rows := 0
	for _, g := range tb.groups {
		rows += len(g.Rows)
	}
	c.Extra["tlc_table_groups"] = len(tb.groups)
	c.Extra["tlc_table_rows"] = rows
	c.Extra["tlc_wall_s"] = time.Since(t0).Seconds()
	c.Extra["tlc_wall_per_jvm_s"] = walls
	if len(tb.groups) == 0 {
		return nil, fmt.Errorf("TLC emitted no table")
	}
	return tb, nil
}

func rowSortKey(r map[string]json.RawMessage) string {
	return string(r["ck"]) + string(r["k2"]) + string(r["b"]) + string(r["c"])
}

func tail(s string, n int) string {
	if len(s) > n {
		return s[len(s)-n:]
	}
	return s
}

// ---------------------------------------------------------------------------------
// thorough: validate the table itself with the toolchain (every row once, in the
// var-op-var form printed directly) and a sample of the very programs the interpreter ran

func validateNative(c *fw.Ctx, tb *tables, sample []*prog) error {
	var compact []Case
	seen := map[uint64]bool{}
	all := &selector{full: true}
	enumerate(tb, all, func(k Case) {
		if k.Ctx != "arg" && k.Ctx != "stmt" {
			return
		}
		if len(k.Form) == 2 && k.Form != "VV" {
			return
		}
		h := hash64(k.Row)
		if seen[h] {
			return
		}
		seen[h] = true
		compact = append(compact, k)
	})
	const per = 2500
	var srcs []string
	var chunks [][]Case
	for i := 0; i < len(compact); i += per {
		j := i + per
		if j > len(compact) {
			j = len(compact)
		}
		cs := compact[i:j]
		srcs = append(srcs, program(cs))
		chunks = append(chunks, cs)
	}
	// every loop site with variable operands, in the assignment / statement context
	var sites []Case
	enumerateSites(tb.sgroups, all, func(k Case) {
		if (k.Form == "VV" || k.Form == "V") && (k.Ctx == "assign" || k.Ctx == "stmt") {
			sites = append(sites, k)
		}
	})
	for i := 0; i < len(sites); i += 100 {
		j := i + 100
		if j > len(sites) {
			j = len(sites)
		}
		cs := sites[i:j]
		srcs = append(srcs, program(cs))
		chunks = append(chunks, cs)
	}
	c.Extra["native_validated_loop_sites"] = len(sites)
	for _, p := range sample {
		srcs = append(srcs, p.src)
		chunks = append(chunks, p.cases)
	}
	t0 := time.Now()
	res := c.NativeBatch(srcs, 120*time.Second)
	bad := 0
	checked := 0
	for i, nr := range res {
		if !nr.BuildOK {
			c.SpecError("native validation: program %d does not build: %s", i, firstLines(nr.BuildErr, 4))
			bad++
			continue
		}
		lines := parseOut(nr.Stdout)
		for _, k := range chunks[i] {
			checked++
			if got, ok := lines[k.ID]; !ok || !matches(&k, got) {
				bad++
				if bad < 10 {
					c.SpecError("native validation: table says %q, compiled Go prints %q for %s", short(k.Want), short(got), descr(&k, got))
				}
			}
		}
	}
	c.Extra["native_validated_rows"] = len(compact)
	c.Extra["native_validated_sample_programs"] = len(sample)
	c.Extra["native_validated_cases"] = checked
	c.Extra["native_wall_s"] = time.Since(t0).Seconds()
	return nil
}

// ---------------------------------------------------------------------------------

type replayCase struct {
	Cases []Case `json:"cases"`
}

func replay(c *fw.Ctx) error {
	var rc replayCase
	if err := c.LoadReplay(&rc); err != nil {
		return err
	}
	if len(rc.Cases) == 0 {
		return fmt.Errorf("replay file holds no case")
	}
	r := &runner{c: c, rowSeen: map[uint64]struct{}{}}
	var progs []*prog
	for _, k := range rc.Cases {
		cs := []Case{k}
		progs = append(progs, &prog{cases: cs, src: program(cs)})
	}
	r.account(rc.Cases)
	if err := r.resolve(r.runWave(progs)); err != nil {
		return err
	}
	for _, p := range progs {
		fmt.Printf("replayed: %s %s %s form=%s ctx=%s expected %q\n", p.cases[0].Op, p.cases[0].T, p.cases[0].Row, p.cases[0].Form, p.cases[0].Ctx, p.cases[0].Want)
	}
	r.report()
	return nil
}

func short(s string) string {
	if len(s) > 120 {
		return s[:120] + "..."
	}
	return s
}

// descr describes a case in an error text (a loop site without its tables).
func descr(k *Case, got string) string {
	if k.Site == nil {
		return fmt.Sprintf("%+v", *k)
	}
	return fmt.Sprintf("loop site %s op=%s t=%s t2=%s form=%s ctx=%s a=%s b=%s body=%q difference=%v",
		k.Site.Fam, k.Op, k.T, k.T2, k.Form, k.Ctx, k.A, k.B, k.Site.Body, seqDetail(k, got))
}
