package main

// Sites evaluated repeatedly inside one activation (OpSeq.tla): one fixed expression in
// the body of a loop over a sequence of operand tuples chosen by TLC (every ordered pair of
// tuples over the class representatives occurs consecutively). The prediction per element
// is the table entry of its tuple; the observation is one printed line per element.

import (
	"encoding/json"
	"fmt"
	"strconv"
	"strings"
)

// Site is the rendered-level description of a loop site (kept in the replay file).
type Site struct {
	Fam   string            `json:"fam"`
	Decls map[string]string `json:"decls"` // package-level tables: name -> declaration
	Pre   []string          `json:"pre"`   // declarations before the loop
	Seq   string            `json:"seq"`   // name of the index sequence the loop runs over
	Load  []string          `json:"load"`  // loading the operands of element n
	Body  []string          `json:"body"`  // the site and the print; @ID stands for the case id
	Tup   []int             `json:"tup"`   // tuple index of every element (history-dependence diagnosis)
	Ops   []string          `json:"ops"`   // operand tuple text per tuple index
}

type sgroup struct {
	Fam  string            `json:"fam"`
	K    mkind             `json:"k"`
	F    string            `json:"F"`
	VA   []json.RawMessage `json:"va"`
	VB   []json.RawMessage `json:"vb"`
	NQ   int               `json:"nq"`
	Tab  []json.RawMessage `json:"tab"`
	BSeq []int             `json:"bseq"`
	UA   []int             `json:"ua"`
	UB   []int             `json:"ub"`
}

// siteOp is one operator (or boolean shape) of a family with its per-tuple predictions.
type siteOp struct {
	name  string
	expr  string   // over a, b, q; for statements the statement itself over x
	rt    string   // static type of the expression
	pt    string   // what %T prints
	res   []string // printed result per tuple, "*" = unspecified
	cmpc  []string // constant literal of the result per tuple ("" = none), nil = no comparand context
	bool_ bool
	stmt  bool   // x := a; <expr>; print x
	opas  string // operator of the op= form, "" = none
	unary bool
}

type siteSet struct {
	fam, cls   string
	ta, tb     string
	va, vb     []string
	ca, cb     []bool
	nq         int
	ops        []siteOp
	bseq       []int
	ua, ub     []int
	constForms bool
	shift      bool
}

func name(prefix, body string) string {
	return fmt.Sprintf("%s%x", prefix, hash64(body)&0xffffffffff)
}

func tableDecl(prefix, typ string, vals []string) (string, string) {
	body := "[]" + typ + "{" + strings.Join(vals, ", ") + "}"
	n := name(prefix, body)
	return n, "var " + n + " = " + body
}

func seqDecl(seq []int) (string, string) {
	p := make([]string, len(seq))
	for i, x := range seq {
		p[i] = strconv.Itoa(x)
	}
	return tableDecl("sq", "int", p)
}

func zeroBased(s []int) []int {
	r := make([]int, len(s))
	for i, x := range s {
		r[i] = x - 1
	}
	return r
}

// sites expands one site set into cases. Every site is one Case with Site != nil; Want is
// the expected lines joined by newlines ("*" = any).
func (ss *siteSet) sites(sel *selector, emit func(Case)) {
	na, nb, nq := len(ss.va), len(ss.vb), ss.nq
	if nb == 0 {
		nb = 1
	}
	vaN, vaD := tableDecl("va", ss.ta, ss.va)
	var vbN, vbD string
	if len(ss.vb) > 0 {
		vbN, vbD = tableDecl("vb", ss.tb, ss.vb)
	}
	bsN, bsD := seqDecl(ss.bseq)
	uaN, uaD := seqDecl(ss.ua)
	ubN, ubD := seqDecl(ss.ub)
	tupText := make([]string, na*nb*nq)
	for t := range tupText {
		s := ss.va[t/(nb*nq)]
		if len(ss.vb) > 0 {
			s += ", " + ss.vb[t/nq%nb]
		}
		if nq == 2 {
			s += ", " + boolText(t%2 == 1)
		}
		tupText[t] = s
	}
	for _, op := range ss.ops {
		ctxs := []string{"assign", "branch", "iface", "arg"}
		if op.opas != "" {
			ctxs = append(ctxs, "opassign")
		}
		if op.stmt {
			ctxs = []string{"stmt"}
		}
		forms := []string{"VV"}
		if op.unary {
			forms = []string{"V"}
		} else if ss.constForms {
			forms = binForms
		}
		for _, form := range forms {
			// the constant operand, if any, takes every constant-expressible value
			fixed := []int{-1}
			if form != "VV" && form != "V" {
				fixed = nil
				n, cs := na, ss.ca
				if form[1] != 'V' {
					n, cs = len(ss.vb), ss.cb
				}
				for i := 0; i < n; i++ {
					if cs[i] {
						fixed = append(fixed, i)
					}
				}
			}
			for _, fx := range fixed {
				for _, ctx := range ctxs {
					if ctx == "opassign" && form[0] != 'V' {
						continue
					}
					if ctx == "branch" && !op.bool_ && op.cmpc == nil {
						continue
					}
					if ss.shift && (form[0] == 'L' || form[0] == 'U') && ctx != "assign" {
						continue // the untyped constant takes its type from the context (F-C02-2 area)
					}
					row := fmt.Sprintf("seq %s %s %s %s fixed=%d", ss.fam, op.name, ss.ta, ss.tb, fx)
					if !sel.takeSite(form == "VV" || form == "V", row, form, ctx) {
						continue
					}
					ss.site(op, form, ctx, fx, row, tupText,
						map[string]string{vaN: vaD, vbN: vbD, bsN: bsD, uaN: uaD, ubN: ubD},
						[5]string{vaN, vbN, bsN, uaN, ubN}, emit)
				}
			}
		}
	}
}

func (ss *siteSet) site(op siteOp, form, ctx string, fx int, row string, tupText []string,
	allDecls map[string]string, names [5]string, emit func(Case)) {
	na, nb, nq := len(ss.va), len(ss.vb), ss.nq
	if nb == 0 {
		nb = 1
	}
	_ = na
	vaN, vbN, bsN, uaN, ubN := names[0], names[1], names[2], names[3], names[4]
	st := &Site{Fam: ss.fam, Decls: map[string]string{}, Ops: tupText}
	use := func(n string) { st.Decls[n] = allDecls[n] }
	var tup []int // tuple index per element
	aExpr, bExpr := "a", "b"
	switch {
	case form == "VV":
		use(bsN)
		use(vaN)
		use(vbN)
		st.Seq = bsN
		st.Load = []string{"t := " + bsN + "[n]"}
		if nq == 2 {
			st.Load = append(st.Load, fmt.Sprintf("a := %s[t/%d]", vaN, nb*2), fmt.Sprintf("b := %s[t/2%%%d]", vbN, nb), "q := t%2 == 1")
		} else {
			st.Load = append(st.Load, fmt.Sprintf("a := %s[t/%d]", vaN, nb), fmt.Sprintf("b := %s[t%%%d]", vbN, nb))
		}
		tup = ss.bseq
	case form == "V":
		use(uaN)
		use(vaN)
		st.Seq = uaN
		st.Load = []string{"t := " + uaN + "[n]", "a := " + vaN + "[t]"}
		tup = ss.ua
	case form[0] != 'V': // constant a, b runs
		use(ubN)
		use(vbN)
		st.Seq = ubN
		st.Load = []string{"t := " + ubN + "[n]", "b := " + vbN + "[t]"}
		tup = make([]int, len(ss.ub))
		for i, bi := range ss.ub {
			tup[i] = fx*nb + bi
		}
		aExpr = constOperand(st, form[0], "a", ss.ta, ss.va[fx])
	default: // constant b, a runs
		use(uaN)
		use(vaN)
		st.Seq = uaN
		st.Load = []string{"t := " + uaN + "[n]", "a := " + vaN + "[t]"}
		tup = make([]int, len(ss.ua))
		for i, ai := range ss.ua {
			tup[i] = ai*nb + fx
		}
		bExpr = constOperand(st, form[1], "b", ss.tb, ss.vb[fx])
	}
	st.Tup = tup
	expr := strings.NewReplacer("$a", aExpr, "$b", bExpr, "$q", "q").Replace(op.expr)
	wants := make([]string, len(tup))
	for i, t := range tup {
		wants[i] = op.res[t]
	}
	switch ctx {
	case "assign":
		st.Pre = append(st.Pre, "var r "+op.rt)
		st.Body = []string{"r = " + expr, `fmt.Println("@ID", r)`}
	case "opassign":
		st.Body = []string{"x := a", "x " + op.opas + "= " + bExpr, `fmt.Println("@ID", x)`}
	case "stmt":
		st.Body = []string{"x := a", strings.ReplaceAll(op.expr, "$a", "x"), `fmt.Println("@ID", x)`}
	case "iface":
		st.Pre = append(st.Pre, "var i interface{}")
		st.Body = []string{"i = " + expr, `fmt.Printf("%s %v %T\n", "@ID", i, i)`}
		pt := op.rt
		if op.pt != "" {
			pt = op.pt
		}
		for i := range wants {
			if wants[i] != "*" {
				wants[i] += " " + pt
			}
		}
	case "arg":
		st.Body = []string{`fmt.Println("@ID", ` + expr + `)`}
	case "branch":
		cond := expr
		if !op.bool_ {
			// comparand per element: the predicted result (true) or, on odd tuples, the result
			// of tuple 0 (true or false by identity of the two table values)
			cvals := make([]string, len(op.cmpc))
			for t := range op.cmpc {
				cvals[t] = op.cmpc[t]
				if t%2 == 1 && op.cmpc[0] != "" {
					cvals[t] = op.cmpc[0]
				}
				if cvals[t] == "" {
					cvals[t] = op.cmpc[firstConst(op.cmpc)]
				}
			}
			// the comparand table is indexed like the operand that runs
			perElem := map[int]string{}
			for i, t := range tup {
				idx := t
				switch {
				case form == "VV" || form == "V":
				case form[0] != 'V':
					idx = ss.ub[i]
				default:
					idx = ss.ua[i]
				}
				perElem[idx] = cvals[t]
				switch {
				case op.res[t] == "*":
					wants[i] = "*"
				case op.cmpc[t] != "" && cvals[t] == op.cmpc[t]:
					wants[i] = "true"
				case op.cmpc[t] != "":
					wants[i] = "false"
				default:
					wants[i] = "*" // result without constant notation (NaN, Inf, -0): not predicted here
				}
			}
			ct := make([]string, len(perElem))
			for i := range ct {
				ct[i] = perElem[i]
			}
			cn, cd := tableDecl("ct", op.rt, ct)
			st.Decls[cn] = cd
			st.Load = append(st.Load, "c := "+cn+"[t]")
			cond = expr + " == c"
		}
		st.Body = []string{"if " + cond + " {", "\t" + `fmt.Println("@ID", true)`, "} else {", "\t" + `fmt.Println("@ID", false)`, "}"}
	}
	k := Case{Cls: "seq", Op: op.name, T: ss.ta, T2: ss.tb, Form: form, Ctx: ctx, RT: op.rt, Row: row, Red: true,
		Want: strings.Join(wants, "\n"), Site: st}
	if fx >= 0 {
		if form[0] != 'V' {
			k.A = ss.va[fx]
		} else {
			k.B = ss.vb[fx]
		}
	}
	emit(k)
}

func firstConst(c []string) int {
	for i, s := range c {
		if s != "" {
			return i
		}
	}
	return 0
}

func constOperand(st *Site, letter byte, nm, typ, val string) string {
	switch letter {
	case 'L':
		return val
	case 'C':
		st.Pre = append(st.Pre, "const k"+nm+" "+typ+" = "+val)
	default:
		st.Pre = append(st.Pre, "const k"+nm+" = "+val)
	}
	return "k" + nm
}

// renderSite writes the function of a loop site.
func renderSite(w *strings.Builder, k *Case) {
	st := k.Site
	fmt.Fprintf(w, "func %s() {\n\tdefer rec(%q)\n", k.ID, k.ID)
	for _, p := range st.Pre {
		w.WriteString("\t" + p + "\n")
	}
	fmt.Fprintf(w, "\tfor n := 0; n < len(%s); n++ {\n", st.Seq)
	for _, l := range st.Load {
		w.WriteString("\t\t" + l + "\n")
	}
	for _, l := range st.Body {
		w.WriteString("\t\t" + strings.ReplaceAll(l, "@ID", k.ID) + "\n")
	}
	w.WriteString("\t}\n}\n")
}

// matches compares an observation with the expectation of a case ("*" lines match anything).
func matches(k *Case, got string) bool {
	if k.Site == nil || !strings.Contains(k.Want, "*") {
		return got == k.Want
	}
	w := strings.Split(k.Want, "\n")
	g := strings.Split(got, "\n")
	if len(w) != len(g) {
		return false
	}
	for i := range w {
		if w[i] != "*" && w[i] != g[i] {
			return false
		}
	}
	return true
}

// seqMode describes how a site's observation deviates.
func seqMode(k *Case, got string) string {
	w := strings.Split(k.Want, "\n")
	g := strings.Split(got, "\n")
	for i := range g {
		if g[i] == "PANIC" && (i >= len(w) || w[i] != "PANIC") {
			return "panics during a sequence of evaluations of one site"
		}
	}
	if len(g) != len(w) {
		return "the sequence of evaluations ends early or prints extra lines"
	}
	for i := range w {
		if w[i] == "*" || w[i] == g[i] {
			continue
		}
		// is the same operand tuple right at another position?
		for j := range w {
			if j != i && k.Site.Tup[j] == k.Site.Tup[i] && w[j] == g[j] {
				return "history-dependent: equal operands give different results at different evaluations of one site"
			}
		}
		return "wrong value at every evaluation of an operand tuple in a sequence"
	}
	return "wrong value"
}

func seqDetail(k *Case, got string) map[string]any {
	w := strings.Split(k.Want, "\n")
	g := strings.Split(got, "\n")
	for i := range w {
		if i >= len(g) {
			return map[string]any{"first_difference_at": i, "expected": w[i], "observed": "(nothing)"}
		}
		if w[i] != "*" && w[i] != g[i] {
			d := map[string]any{"first_difference_at": i, "expected": w[i], "observed": g[i], "operands": k.Site.Ops[k.Site.Tup[i]]}
			if i > 0 {
				d["previous_operands"] = k.Site.Ops[k.Site.Tup[i-1]]
			}
			return d
		}
	}
	return nil
}

// ---------------------------------------------------------------------------------
// decoding the groups of OpSeq.tla into site sets per Go type

func rawField(r json.RawMessage, path ...string) json.RawMessage {
	for _, p := range path {
		var m map[string]json.RawMessage
		if json.Unmarshal(r, &m) != nil {
			return nil
		}
		r = m[p]
	}
	return r
}

func asLimbs(r json.RawMessage) limbs {
	var l limbs
	json.Unmarshal(r, &l)
	return l
}

func asBool(r json.RawMessage) bool {
	var b bool
	json.Unmarshal(r, &b)
	return b
}

func asF(r json.RawMessage) fval {
	var v fval
	json.Unmarshal(r, &v)
	return v
}

func asC(r json.RawMessage) cval {
	var v cval
	json.Unmarshal(r, &v)
	return v
}

var shapeExpr = map[string]string{
	"and": "$P && $Q", "or": "$P || $Q", "nland": "!$P && $Q", "nlor": "!$P || $Q",
	"andn": "$P && !$Q", "orn": "$P || !$Q", "nand": "!($P && $Q)", "nor": "!($P || $Q)",
}
var shapeNames = []string{"and", "or", "nland", "nlor", "andn", "orn", "nand", "nor"}

func shape(s, p, q string) string {
	return strings.NewReplacer("$P", p, "$Q", q).Replace(shapeExpr[s])
}

func (g *sgroup) common(ss *siteSet) {
	ss.fam = g.Fam
	ss.nq = g.NQ
	ss.bseq, ss.ua, ss.ub = zeroBased(g.BSeq), zeroBased(g.UA), zeroBased(g.UB)
}

func allTrue(n int) []bool {
	r := make([]bool, n)
	for i := range r {
		r[i] = true
	}
	return r
}

func modelName(k mkind) string {
	if k.Signed {
		return "s" + strconv.Itoa(k.W)
	}
	return "u" + strconv.Itoa(k.W)
}

func enumerateSites(groups []*sgroup, sel *selector, emit func(Case)) {
	for _, g := range groups {
		switch g.Fam {
		case "sarith", "sdiv", "scmp", "sshift", "sunary", "sconv", "scmpfeed":
			for _, gk := range kindsOf(g.K) {
				g.intSites(gk, sel, emit)
			}
		case "sbool":
			g.boolSites(sel, emit)
		case "sstr":
			g.strSites(sel, emit)
		case "sfarith", "sfcmpfeed", "sfconv":
			g.floatSites(sel, emit)
		case "scomplex":
			g.complexSites(sel, emit)
		}
	}
}

func (g *sgroup) intSites(gk gkind, sel *selector, emit func(Case)) {
	sg := g.K.Signed
	txt := func(rs []json.RawMessage) []string {
		r := make([]string, len(rs))
		for i, x := range rs {
			r[i] = asLimbs(x).text(sg)
		}
		return r
	}
	ss := &siteSet{cls: "int", ta: gk.Name, tb: gk.Name, va: txt(g.VA), constForms: true}
	g.common(ss)
	ss.ca = allTrue(len(ss.va))
	col := func(path ...string) ([]string, []string) {
		res := make([]string, len(g.Tab))
		for t, row := range g.Tab {
			res[t] = asLimbs(rawField(row, path...)).text(sg)
		}
		return res, res
	}
	bcol := func(path ...string) []string {
		res := make([]string, len(g.Tab))
		for t, row := range g.Tab {
			res[t] = boolText(asBool(rawField(row, path...)))
		}
		return res
	}
	switch g.Fam {
	case "sarith", "sdiv":
		ss.vb = txt(g.VB)
		ss.cb = allTrue(len(ss.vb))
		ops := arithOps
		if g.Fam == "sdiv" {
			ops = []string{"quo", "rem"}
		}
		for _, o := range ops {
			res, cc := col(o)
			ss.ops = append(ss.ops, siteOp{name: o, expr: "$a " + opSym[o] + " $b", rt: gk.Name, res: res, cmpc: cc, opas: opSym[o]})
		}
		ss.sites(sel, emit)
	case "scmp":
		ss.vb = txt(g.VB)
		ss.cb = allTrue(len(ss.vb))
		for _, o := range cmpOps {
			ss.ops = append(ss.ops, siteOp{name: o, expr: "$a " + opSym[o] + " $b", rt: "bool", res: bcol(o), bool_: true})
		}
		ss.sites(sel, emit)
	case "sshift":
		cnt := make([]string, len(g.VB))
		for i, x := range g.VB {
			cnt[i] = asLimbs(x).text(false)
		}
		for _, ct := range []string{"uint", "int", "uint8"} {
			s2 := *ss
			s2.ops = nil
			s2.tb, s2.vb, s2.cb, s2.shift = ct, cnt, allTrue(len(cnt)), true
			for _, o := range []string{"shl", "shr"} {
				res, cc := col(o)
				s2.ops = append(s2.ops, siteOp{name: o, expr: "$a " + opSym[o] + " $b", rt: gk.Name, res: res, cmpc: cc, opas: opSym[o]})
			}
			s2.sites(sel, emit)
		}
	case "sunary":
		ss.tb = ""
		for _, o := range []string{"neg", "not"} {
			res, cc := col(o)
			ss.ops = append(ss.ops, siteOp{name: o, expr: opSym[o] + "$a", rt: gk.Name, res: res, cmpc: cc, unary: true})
		}
		for _, o := range []string{"inc", "dec"} {
			res, _ := col(o)
			st := "$a++"
			if o == "dec" {
				st = "$a--"
			}
			ss.ops = append(ss.ops, siteOp{name: o, expr: st, rt: gk.Name, res: res, stmt: true, unary: true})
		}
		ss.sites(sel, emit)
	case "sconv":
		ss.tb = ""
		for _, g2 := range intKinds {
			res := make([]string, len(g.Tab))
			for t, row := range g.Tab {
				res[t] = asLimbs(rawField(row, "toI", modelName(g2.K))).text(g2.K.Signed)
			}
			ss.ops = append(ss.ops, siteOp{name: "conv " + g2.Name, expr: g2.Name + "($a)", rt: g2.Name, res: res, cmpc: res, unary: true})
		}
		for _, ft := range []string{"float32", "float64"} {
			res := make([]string, len(g.Tab))
			for t, row := range g.Tab {
				v := asF(rawField(row, "toF", ft))
				res[t] = "*"
				if v.spec() {
					res[t] = v.printed(ft)
				}
			}
			ss.ops = append(ss.ops, siteOp{name: "conv " + ft, expr: ft + "($a)", rt: ft, res: res, unary: true})
		}
		ss.sites(sel, emit)
	case "scmpfeed":
		ss.vb = txt(g.VB)
		ss.constForms = false
		for _, c := range cmpOps {
			for _, s := range shapeNames {
				ss.ops = append(ss.ops, siteOp{name: c + " " + s, expr: shape(s, "($a "+opSym[c]+" $b)", "$q"), rt: "bool",
					res: bcol(c, s), bool_: true})
			}
		}
		ss.sites(sel, emit)
	}
}

func (g *sgroup) boolSites(sel *selector, emit func(Case)) {
	vals := func(rs []json.RawMessage) []string {
		r := make([]string, len(rs))
		for i, x := range rs {
			l := asLimbs(x)
			r[i] = boolText(len(l) == 1 && l[0] == 1)
		}
		return r
	}
	ss := &siteSet{cls: "bool", ta: "bool", tb: "bool", va: vals(g.VA), vb: vals(g.VB)}
	g.common(ss)
	bcol := func(path ...string) []string {
		res := make([]string, len(g.Tab))
		for t, row := range g.Tab {
			res[t] = boolText(asBool(rawField(row, path...)))
		}
		return res
	}
	for _, s := range shapeNames {
		ss.ops = append(ss.ops, siteOp{name: s, expr: shape(s, "$a", "$b"), rt: "bool", res: bcol("sh", s), bool_: true})
	}
	ss.ops = append(ss.ops, siteOp{name: "eq", expr: "$a == $b", rt: "bool", res: bcol("eq"), bool_: true},
		siteOp{name: "ne", expr: "$a != $b", rt: "bool", res: bcol("ne"), bool_: true})
	ss.sites(sel, emit)
	// !a as a unary site over the tuple sequence of a alone
	un := &siteSet{cls: "bool", ta: "bool", va: ss.va, fam: ss.fam, nq: 1, ua: ss.ua, ub: ss.ub, bseq: ss.bseq}
	res := make([]string, len(ss.va))
	nb := len(ss.vb)
	for ai := range res {
		res[ai] = boolText(asBool(rawField(g.Tab[ai*nb], "not")))
	}
	un.ops = []siteOp{{name: "lnot", expr: "!$a", rt: "bool", res: res, bool_: true, unary: true}}
	un.sites(sel, emit)
}

func (g *sgroup) strSites(sel *selector, emit func(Case)) {
	vals := func(rs []json.RawMessage) []string {
		r := make([]string, len(rs))
		for i, x := range rs {
			r[i] = strconv.Quote(strText(asLimbs(x)))
		}
		return r
	}
	ss := &siteSet{cls: "string", ta: "string", tb: "string", va: vals(g.VA), vb: vals(g.VB), constForms: true}
	g.common(ss)
	ss.ca, ss.cb = allTrue(len(ss.va)), allTrue(len(ss.vb))
	add := make([]string, len(g.Tab))
	addc := make([]string, len(g.Tab))
	for t, row := range g.Tab {
		add[t] = strText(asLimbs(rawField(row, "add")))
		addc[t] = strconv.Quote(add[t])
	}
	ss.ops = append(ss.ops, siteOp{name: "add", expr: "$a + $b", rt: "string", res: add, cmpc: addc, opas: "+"})
	for _, o := range cmpOps {
		res := make([]string, len(g.Tab))
		for t, row := range g.Tab {
			res[t] = boolText(asBool(rawField(row, o)))
		}
		ss.ops = append(ss.ops, siteOp{name: o, expr: "$a " + opSym[o] + " $b", rt: "bool", res: res, bool_: true})
	}
	ss.sites(sel, emit)
}

func (g *sgroup) floatSites(sel *selector, emit func(Case)) {
	T := g.F
	fv := func(rs []json.RawMessage) ([]string, []bool) {
		r := make([]string, len(rs))
		c := make([]bool, len(rs))
		for i, x := range rs {
			v := asF(x)
			r[i], c[i] = v.varInit(T), v.isConst()
		}
		return r, c
	}
	ss := &siteSet{cls: "float", ta: T, tb: T}
	g.common(ss)
	ss.va, ss.ca = fv(g.VA)
	fcol := func(typ string, path ...string) []string {
		res := make([]string, len(g.Tab))
		for t, row := range g.Tab {
			v := asF(rawField(row, path...))
			res[t] = "*"
			if v.spec() {
				res[t] = v.printed(typ)
			}
		}
		return res
	}
	bcol := func(path ...string) []string {
		res := make([]string, len(g.Tab))
		for t, row := range g.Tab {
			res[t] = boolText(asBool(rawField(row, path...)))
		}
		return res
	}
	switch g.Fam {
	case "sfarith":
		ss.vb, ss.cb = fv(g.VB)
		ss.constForms = true
		for _, o := range []string{"add", "sub", "mul", "quo"} {
			ss.ops = append(ss.ops, siteOp{name: o, expr: "$a " + opSym[o] + " $b", rt: T, res: fcol(T, o), opas: opSym[o]})
		}
		for _, o := range cmpOps {
			ss.ops = append(ss.ops, siteOp{name: o, expr: "$a " + opSym[o] + " $b", rt: "bool", res: bcol("cmp", o), bool_: true})
		}
		ss.sites(sel, emit)
		un := &siteSet{cls: "float", ta: T, va: ss.va, ca: ss.ca, fam: ss.fam, nq: 1, ua: ss.ua, ub: ss.ub, bseq: ss.bseq}
		nb := len(ss.vb)
		pick := func(all []string) []string {
			r := make([]string, len(ss.va))
			for ai := range r {
				r[ai] = all[ai*nb]
			}
			return r
		}
		un.ops = []siteOp{
			{name: "neg", expr: "-$a", rt: T, res: pick(fcol(T, "neg")), unary: true},
			{name: "inc", expr: "$a++", rt: T, res: pick(fcol(T, "inc")), unary: true, stmt: true},
			{name: "dec", expr: "$a--", rt: T, res: pick(fcol(T, "dec")), unary: true, stmt: true},
		}
		un.sites(sel, emit)
	case "sfcmpfeed":
		ss.vb, ss.cb = fv(g.VB)
		for _, c := range cmpOps {
			for _, s := range shapeNames {
				ss.ops = append(ss.ops, siteOp{name: c + " " + s, expr: shape(s, "($a "+opSym[c]+" $b)", "$q"), rt: "bool",
					res: bcol(c, s), bool_: true})
			}
		}
		ss.sites(sel, emit)
	case "sfconv":
		ss.tb = ""
		for _, g2 := range intKinds {
			res := make([]string, len(g.Tab))
			for t, row := range g.Tab {
				l := asLimbs(rawField(row, "toI", modelName(g2.K)))
				res[t] = "*"
				if !l.panics() {
					res[t] = l.text(g2.K.Signed)
				}
			}
			ss.ops = append(ss.ops, siteOp{name: "conv " + g2.Name, expr: g2.Name + "($a)", rt: g2.Name, res: res, unary: true})
		}
		for _, ft := range []string{"float32", "float64"} {
			ss.ops = append(ss.ops, siteOp{name: "conv " + ft, expr: ft + "($a)", rt: ft, res: fcol(ft, "toF", ft), unary: true})
		}
		ss.sites(sel, emit)
	}
}

func (g *sgroup) complexSites(sel *selector, emit func(Case)) {
	T := "complex128"
	if g.F == "float32" {
		T = "complex64"
	}
	cv := func(rs []json.RawMessage) []string {
		r := make([]string, len(rs))
		for i, x := range rs {
			r[i] = asC(x).lit()
		}
		return r
	}
	ss := &siteSet{cls: "complex", ta: T, tb: T, va: cv(g.VA), vb: cv(g.VB), constForms: true}
	g.common(ss)
	ss.ca, ss.cb = allTrue(len(ss.va)), allTrue(len(ss.vb))
	for _, o := range []string{"add", "sub", "mul", "quo"} {
		res := make([]string, len(g.Tab))
		for t, row := range g.Tab {
			v := asC(rawField(row, o))
			res[t] = "*"
			if v.spec() {
				res[t] = v.printed(T)
			}
		}
		ss.ops = append(ss.ops, siteOp{name: o, expr: "$a " + opSym[o] + " $b", rt: T, res: res, opas: opSym[o]})
	}
	for _, o := range []string{"eq", "ne"} {
		res := make([]string, len(g.Tab))
		for t, row := range g.Tab {
			res[t] = boolText(asBool(rawField(row, o)))
		}
		ss.ops = append(ss.ops, siteOp{name: o, expr: "$a " + opSym[o] + " $b", rt: "bool", res: res, bool_: true})
	}
	ss.sites(sel, emit)
}
