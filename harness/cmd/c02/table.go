package main

// The oracle table as TLC emitted it, and its conversion into Go source text.
// Nothing in this file computes a result: values are taken from the table and only
// re-written (limbs -> decimal text, symbolic float -> literal / printed text).

import (
	"encoding/json"
	"fmt"
	"math"
	"math/big"
	"strconv"
	"strings"
)

// mkind is a model kind of BV.tla.
type mkind struct {
	W      int  `json:"w"`
	Signed bool `json:"signed"`
}

// limbs is a 64-bit pattern as BV.tla prints it (5 limbs of 15 bits, little endian);
// a first limb of -1 is the panic marker.
type limbs []int

func (l limbs) panics() bool { return len(l) > 0 && l[0] < 0 }

func (l limbs) u64() uint64 {
	var v uint64
	for i := len(l) - 1; i >= 0; i-- {
		v = v<<15 | uint64(l[i])
	}
	return v
}

// text renders a canonical value of kind k as a decimal Go literal / printed value.
func (l limbs) text(signed bool) string {
	if signed {
		return strconv.FormatInt(int64(l.u64()), 10)
	}
	return strconv.FormatUint(l.u64(), 10)
}

// mant is the mantissa of a finite value of FloatSym.tla: a magnitude of BigInt.tla
// (little-endian limbs of 15 bits), of any size for constants the formats cannot hold.
type mant struct{ big.Int }

func (m *mant) UnmarshalJSON(b []byte) error {
	var ls []uint
	if err := json.Unmarshal(b, &ls); err != nil {
		return err
	}
	m.SetInt64(0)
	for i := len(ls) - 1; i >= 0; i-- {
		m.Lsh(&m.Int, 15)
		m.Or(&m.Int, new(big.Int).SetUint64(uint64(ls[i])))
	}
	return nil
}

// fval is a value of FloatSym.tla.
type fval struct {
	C string `json:"c"` // nan inf zero fin unspec
	S int    `json:"s"`
	M mant   `json:"m"`
	E int    `json:"e"`
}

// abs is |v| for a finite v held by a format: the mantissa has at most 53 bits, the conversion is exact.
func (f fval) abs() float64 {
	return math.Ldexp(float64(f.M.Uint64()), f.E)
}

type cval struct {
	Re fval `json:"re"`
	Im fval `json:"im"`
}

func (f fval) spec() bool { return f.C != "unspec" }

// isConst reports whether the value can be written as a Go constant.
func (f fval) isConst() bool { return f.C == "fin" || (f.C == "zero" && f.S == 0) }

func (f fval) f64() float64 {
	var v float64
	switch f.C {
	case "nan":
		return math.NaN()
	case "inf":
		v = math.Inf(1)
	case "zero":
		v = 0
	case "fin":
		v = f.abs() // exact: the model's results are values of the format
	}
	if f.S == 1 {
		v = math.Copysign(v, -1)
	}
	return v
}

// lit renders a constant float value as a Go floating-point literal that denotes it exactly.
func (f fval) lit() string {
	if f.C == "zero" {
		return "0.0"
	}
	s := ""
	exact := false
	if f.M.BitLen() <= 53 {
		s = strconv.FormatFloat(f.abs(), 'f', -1, 64)
	}
	if s != "" && len(s) <= 12 {
		// use the decimal form only when it denotes m*2^e exactly
		r, ok := new(big.Rat).SetString(s)
		want := new(big.Rat).SetInt(&f.M.Int)
		two := big.NewRat(2, 1)
		if f.E < 0 {
			two = big.NewRat(1, 2)
		}
		for i := 0; i < f.E || i < -f.E; i++ {
			want.Mul(want, two)
		}
		exact = ok && r.Cmp(want) == 0
	}
	if !exact {
		s = fmt.Sprintf("0x%sp%d", f.M.Text(16), f.E) // hexadecimal mantissa, binary exponent: exact
	} else if !strings.ContainsAny(s, ".") {
		s += ".0"
	}
	if f.S == 1 {
		s = "-" + s
	}
	return s
}

// varInit renders an expression that initialises a variable of float type typ with the value.
func (f fval) varInit(typ string) string {
	if f.isConst() {
		return f.lit()
	}
	var e string
	switch f.C {
	case "nan":
		e = "math.NaN()"
	case "inf":
		e = "math.Inf(1)"
		if f.S == 1 {
			e = "math.Inf(-1)"
		}
	case "zero":
		e = "math.Copysign(0, -1)"
	}
	if typ == "float32" {
		return "float32(" + e + ")"
	}
	return e
}

// printed is what fmt prints with %v for the value held in a variable of type typ.
func (f fval) printed(typ string) string {
	if typ == "float32" {
		return fmt.Sprint(float32(f.f64()))
	}
	return fmt.Sprint(f.f64())
}

func (c cval) spec() bool { return c.Re.spec() && c.Im.spec() }

func (c cval) lit() string {
	im := c.Im.lit()
	if strings.HasPrefix(im, "-") {
		return "(" + c.Re.lit() + " - " + im[1:] + "i)"
	}
	return "(" + c.Re.lit() + " + " + im + "i)"
}

func (c cval) isConst() bool { return c.Re.isConst() && c.Im.isConst() }

func (c cval) printed(typ string) string {
	if typ == "complex64" {
		return fmt.Sprint(complex(float32(c.Re.f64()), float32(c.Im.f64())))
	}
	return fmt.Sprint(complex(c.Re.f64(), c.Im.f64()))
}

// group is one emitted line: a family, a kind/format, the left operand and all rows.
type group struct {
	Fam  string                       `json:"fam"`
	K    mkind                        `json:"k"`
	F    string                       `json:"F"`
	A    json.RawMessage              `json:"a"`
	FA   fval                         `json:"fa"`
	CA   cval                         `json:"ca"`
	ToF  []map[string]json.RawMessage `json:"tof"`
	ToC  []map[string]json.RawMessage `json:"toc"`
	Rows []map[string]json.RawMessage `json:"rows"`
}

func (g *group) limbsA() limbs {
	var l limbs
	json.Unmarshal(g.A, &l)
	return l
}

func rowLimbs(r map[string]json.RawMessage, f string) limbs {
	var l limbs
	json.Unmarshal(r[f], &l)
	return l
}

func rowBool(r map[string]json.RawMessage, f string) bool {
	var b bool
	json.Unmarshal(r[f], &b)
	return b
}

func rowKind(r map[string]json.RawMessage, f string) mkind {
	var k mkind
	json.Unmarshal(r[f], &k)
	return k
}

func rowF(r map[string]json.RawMessage, f string) fval {
	var v fval
	json.Unmarshal(r[f], &v)
	return v
}

func rowC(r map[string]json.RawMessage, f string) cval {
	var v cval
	json.Unmarshal(r[f], &v)
	return v
}

func rowStr(r map[string]json.RawMessage, f string) string {
	var s string
	json.Unmarshal(r[f], &s)
	return s
}

// strText renders a string of Strs (sequence over 1..3) as the Go string it stands for.
func strText(l limbs) string {
	var b strings.Builder
	for _, x := range l {
		b.WriteString([]string{"a", "b", "\u00e9"}[x-1]) // the alphabet of BV.tla: Rune(1..3) = 97, 98, 233
	}
	return b.String()
}

// gkind is a Go integer type and the model kind it is checked as (64-bit platform).
type gkind struct {
	Name string
	K    mkind
}

var intKinds = []gkind{
	{"int", mkind{64, true}}, {"int8", mkind{8, true}}, {"int16", mkind{16, true}},
	{"int32", mkind{32, true}}, {"int64", mkind{64, true}},
	{"uint", mkind{64, false}}, {"uint8", mkind{8, false}}, {"uint16", mkind{16, false}},
	{"uint32", mkind{32, false}}, {"uint64", mkind{64, false}}, {"uintptr", mkind{64, false}},
}

func kindsOf(k mkind) []gkind {
	var r []gkind
	for _, g := range intKinds {
		if g.K == k {
			r = append(r, g)
		}
	}
	return r
}
