package main

import (
	"encoding/json"
	"fmt"
	"os"
	"sort"
	"strings"
	"time"

	"verif/fw"
)

const chunk = 150

func runAll(c *fw.Ctx, srcs []string, noRef bool) ([]obs, []string) {
	var jobs []any
	for i := 0; i < len(srcs); i += chunk {
		j := i + chunk
		if j > len(srcs) {
			j = len(srcs)
		}
		jobs = append(jobs, job{Srcs: srcs[i:j], NoRef: noRef})
	}
	res := make([]obs, len(srcs))
	bad := make([]string, len(srcs))
	results := c.RunChildren("c03", jobs, 16, 180*time.Second, nil)
	var retry []int
	for ji, r := range results {
		var os []obs
		if r.Out != nil {
			json.Unmarshal(r.Out, &os)
		}
		n := len(jobs[ji].(job).Srcs)
		for x := 0; x < n; x++ {
			if x < len(os) {
				res[ji*chunk+x] = os[x]
			} else {
				retry = append(retry, ji*chunk+x)
			}
		}
	}
	// a batch whose child died or timed out is re-run one program per job, so that the
	// offending program is identified and the others still get their observation
	if len(retry) > 0 {
		var single []any
		for _, i := range retry {
			single = append(single, job{Srcs: srcs[i : i+1], NoRef: noRef})
		}
		rr := c.RunChildren("c03", single, 16, 30*time.Second, nil)
		for x, r := range rr {
			var os []obs
			if r.Out != nil {
				json.Unmarshal(r.Out, &os)
			}
			if len(os) == 1 {
				res[retry[x]] = os[0]
			} else {
				bad[retry[x]] = r.Describe()
			}
		}
	}
	return res, bad
}

// judge compares an observation with the prediction; "" = as predicted.
func judge(k *kase, want string, o obs, childBad string) string {
	if childBad != "" {
		if strings.HasPrefix(childBad, "timeout") {
			return "timeout"
		}
		return "crash"
	}
	rejected := o.Err != "" && o.Out == "" && o.Panic == ""
	if k.Res.St == "reject" {
		switch {
		case rejected:
			return ""
		case o.Panic != "":
			return "panic out of Eval"
		case o.Err != "":
			return "evaluated: run-time error after output"
		}
		return "accepted and ran"
	}
	good := o.Err == "" && o.Panic == "" && o.Out == want
	if good || (k.Res.Lim && rejected) {
		return ""
	}
	switch {
	case o.Panic != "":
		return "panic out of Eval"
	case o.Err != "" && o.Out == "":
		return "rejected"
	case o.Err != "":
		return "run-time error after output"
	case o.Out == "" || !strings.HasPrefix(want, o.Out) && !strings.HasPrefix(o.Out, "start\n"):
		return "no output"
	case len(o.Out) < len(want) && strings.HasPrefix(want, o.Out):
		return "output stops early"
	}
	return "wrong value or type"
}

func has(l []string, s string) bool {
	for _, x := range l {
		if x == s {
			return true
		}
	}
	return false
}

func kindClass(k string) string {
	switch k {
	case "int8", "int16", "int32":
		return "signed w<64"
	case "int64", "int":
		return "signed 64"
	case "uint8", "uint16", "uint32":
		return "unsigned w<64"
	case "uint64", "uint", "uintptr":
		return "unsigned 64"
	case "float32", "float64":
		return "float"
	}
	return k
}

// the why of the rejection of a case (for a block: of its first rejecting spec)
func (k *kase) why() why {
	if k.Tier == "block" {
		for _, v := range k.Vals {
			if v.St == "reject" {
				return v.Why
			}
		}
	}
	return k.Res.Why
}

func (k *kase) tags() []string {
	m := map[string]bool{}
	for _, t := range k.Res.Tags {
		m[t] = true
	}
	for _, v := range k.Vals {
		for _, t := range v.Tags {
			m[t] = true
		}
	}
	var r []string
	for t := range m {
		r = append(r, t)
	}
	sort.Strings(r)
	return r
}

// trigger computes the signature of a failing case from the model-level case only.
// Predicates are ordered from the most specific root cause to the generic description.
func (k *kase) trigger(neutralOK bool) string {
	if k.Res.St == "reject" {
		w := k.why()
		kc := kindClass(w.Kind)
		win := strings.HasSuffix(w.Mag, "w") && !strings.HasSuffix(w.Mag, "w64") // |v| < 2^width
		switch {
		case w.Site == "return":
			return "untyped constant not representable in the result type, used in a return statement"
		case w.Site == "arraylen":
			return "array length constant that is " + w.Reason + " (" + w.Opnd + ")"
		case w.Site == "cmp-var" || w.Site == "implicit-cmp":
			return "untyped constant not representable in the type of the other operand of a comparison (" + w.Reason + ")"
		case w.Opnd == "untyped" && w.Reason == "overflow" && kc == "signed w<64" && win:
			return "untyped constant outside a signed integer type of width w<64 whose magnitude still fits in w bits, converted to that type"
		case w.Opnd == "typed" && (w.Site == "arith" || w.Site == "unary" || w.Site == "shift" || w.Site == "conv"):
			return "operation on typed constant operands whose exact result is not representable in the result type (" + w.Reason + ")"
		}
		return fmt.Sprintf("reject: %s at %s, %s operand, target %s, magnitude %s", w.Reason, w.Site, w.Opnd, kc, w.Mag)
	}
	tags := k.tags()
	switch {
	case has(tags, "cmp-inexact"):
		return "comparison of untyped constants one of which its default type cannot hold exactly"
	case k.inexact() && neutralOK:
		return "comparison of untyped constants one of which its default type cannot hold exactly"
	}
	return "accept: " + k.features()
}

func (k *kase) inexact() bool {
	if k.Res.C.Inexact {
		return true
	}
	for _, v := range k.Vals {
		if v.C.Inexact {
			return true
		}
	}
	return false
}

// coarse description of an accepted case for an unlisted failure
func (k *kase) features() string {
	m := map[string]bool{}
	add := func(ts []tok) {
		for _, t := range ts {
			switch t.K {
			case "lit":
				m["lit-"+t.O] = true
			case "un", "bin":
				m[t.K+t.O] = true
			case "conv":
				m["conv-"+kindClass(t.O)] = true
			default:
				m[t.K] = true
			}
		}
	}
	add(k.Toks)
	for _, s := range k.Specs {
		add(s.Toks)
		if s.Impl {
			m["implicit"] = true
		}
		if s.Blank {
			m["blank"] = true
		}
		if s.Typ != "untyped" {
			m["spec-"+kindClass(s.Typ)] = true
		}
	}
	var r []string
	for f := range m {
		r = append(r, f)
	}
	sort.Strings(r)
	s := k.Tier
	if k.Ctx != "" {
		s += " " + k.Ctx + " " + kindClass(k.Kind)
	}
	if k.Place != "" {
		s += " " + k.Place
	}
	return s + " {" + strings.Join(r, " ") + "} -> " + k.Res.C.Class + "/" + kindClass(k.Res.C.Typ)
}

func (k *kase) nontrivial() bool {
	return k.Tier != "expr" || len(k.Toks) > 1
}

type failure struct {
	i    int
	mode string
}

func check(c *fw.Ctx, all []kase) error {
	debug := os.Getenv("VERIF_C03_DEBUG") != ""
	progs := make([]prog, len(all))
	srcs := make([]string, len(all))
	for i := range all {
		p, err := all[i].render()
		if err != nil {
			return fmt.Errorf("cannot render %s: %v", all[i].key(), err)
		}
		progs[i], srcs[i] = p, p.Src
	}
	t0 := time.Now()
	obss, bad := runAll(c, srcs, false)
	if debug {
		fmt.Printf("DEBUG phase 1: %d programs in %.1fs\n", len(srcs), time.Since(t0).Seconds())
	}
	var fails []failure
	stat := map[string]int{}
	for i := range all {
		k, p, o := &all[i], progs[i], obss[i]
		// the reference validates the specification on every case
		if bad[i] == "" {
			wantReject := k.Res.St == "reject" || k.Res.Lim
			switch {
			case wantReject && o.RefErr == "":
				c.SpecError("specification rejects (%s at %s%s) but go/types accepts:\n%s", k.why().Reason, k.why().Site, map[bool]string{true: ", limit", false: ""}[k.Res.Lim], p.Src)
				continue
			case !wantReject && o.RefErr != "":
				c.SpecError("specification accepts but go/types says %q:\n%s", o.RefErr, p.Src)
				continue
			case !wantReject && o.RefBad != "":
				c.SpecError("specification predicts a value go/constant does not confirm (%s):\n%s", o.RefBad, p.Src)
				continue
			case !wantReject && strings.Join(o.RefTypes, ",") != strings.Join(p.PTypes, ","):
				c.SpecError("specification predicts types %v, go/types says %v:\n%s", p.PTypes, o.RefTypes, p.Src)
				continue
			}
		}
		c.Count(p.Src, k.nontrivial())
		c.TracesVsImpl++
		stat[k.Tier+"/"+k.Res.St]++
		if i%997 == 0 {
			c.Sample(map[string]any{"program": p.Src, "predicted": k.Res.St, "expected_stdout": p.Want})
		}
		if m := judge(k, p.Want, o, bad[i]); m != "" {
			fails = append(fails, failure{i, m})
		}
	}
	c.Extra["cases_by_tier_and_verdict"] = stat

	// second observation for failing accepted cases whose own observation compares an
	// untyped constant that its default type cannot hold exactly: the neutral program
	// observes the same constant through a subtraction (see NOTES, finding F-C03-3)
	neutralOK := map[int]bool{}
	var nidx []int
	var nsrc []string
	for _, f := range fails {
		if all[f.i].Res.St == "ok" && progs[f.i].Neutral != "" && !has(all[f.i].tags(), "cmp-inexact") {
			nidx = append(nidx, f.i)
			nsrc = append(nsrc, progs[f.i].Neutral)
		}
	}
	if len(nsrc) > 0 {
		no, nbad := runAll(c, nsrc, false)
		for x, i := range nidx {
			k := &all[i]
			if nbad[x] == "" && no[x].RefErr == "" && no[x].RefBad == "" && judge(k, progs[i].NWant, no[x], nbad[x]) == "" {
				neutralOK[i] = true
			}
		}
	}

	sigs := map[string][]int{}
	for _, f := range fails {
		k := &all[f.i]
		trig := k.trigger(neutralOK[f.i])
		c.DisagreeChk++
		sig := trig + " / " + f.mode
		sigs[sig] = append(sigs[sig], f.i)
	}
	var order []string
	for s := range sigs {
		order = append(order, s)
	}
	sort.Strings(order)
	// native corroboration of the first case of every signature (the compiled program is
	// the final word on what Go does with the rendered source)
	var nat []string
	for _, s := range order {
		nat = append(nat, progs[sigs[s][0]].Src)
	}
	natRes := []fw.NativeResult{}
	if len(nat) > 0 && len(nat) <= 60 {
		natRes = c.NativeBatch(nat, 20*time.Second)
	}
	for x, s := range order {
		i := sigs[s][0]
		k, p, o := &all[i], progs[i], obss[i]
		parts := strings.SplitN(s, " / ", 2)
		rep := map[string]any{"tier": k.Tier, "ctx": k.Ctx, "kind": k.Kind, "toks": k.Toks, "lits": k.Lits, "place": k.Place,
			"specs": k.Specs, "vals": k.Vals, "res": k.Res,
			"program": p.Src, "expected_stdout": p.Want, "observed": o, "same_signature": len(sigs[s])}
		if x < len(natRes) {
			n := natRes[x]
			rep["native"] = map[string]any{"build_ok": n.BuildOK, "stdout": n.Stdout, "build_err": firstLine(n.BuildErr)}
			if k.Res.St == "reject" || k.Res.Lim {
				if n.BuildOK {
					c.SpecError("specification rejects but the toolchain builds:\n%s", p.Src)
					continue
				}
			} else if !n.BuildOK || n.Stdout != p.Want {
				c.SpecError("specification predicts %q but the compiled program gives %q (build ok %v: %s):\n%s", p.Want, n.Stdout, n.BuildOK, firstLine(n.BuildErr), p.Src)
				continue
			}
		}
		known := c.Fail(parts[0], parts[1], rep)
		if debug {
			fmt.Printf("DEBUG %5d x [%s] %s\n      e.g. %s\n      obs out=%q err=%q panic=%q\n", len(sigs[s]), map[bool]string{true: "known", false: "NEW"}[known], s,
				strings.ReplaceAll(strings.TrimPrefix(p.Src, header), "\n", " "), o.Out, o.Err, o.Panic)
		}
	}
	c.Extra["failing_cases"] = len(fails)
	c.Extra["failure_signatures"] = len(order)
	return nil
}
