package main

import (
	"encoding/json"
	"fmt"
	"os"
	"sort"
	"strings"
	"time"

	"verif/fw"
)

const chunk = 150

func runAll(c *fw.Ctx, srcs []string, noRef bool) ([]obs, []string) {
	var jobs []any
	for i := 0; i < len(srcs); i += chunk {
		j := i + chunk
		if j > len(srcs) {
			j = len(srcs)
		}
		jobs = append(jobs, job{Srcs: srcs[i:j], NoRef: noRef})
	}
	res := make([]obs, len(srcs))
	bad := make([]string, len(srcs))
	results := c.RunChildren("c03", jobs, 16, 180*time.Second, nil)
	var retry []int
	for ji, r := range results {
		var os []obs
		if r.Out != nil {
			json.Unmarshal(r.Out, &os)
		}
		n := len(jobs[ji].(job).Srcs)
		for x := 0; x < n; x++ {
			if x < len(os) {
				res[ji*chunk+x] = os[x]
			} else {
				retry = append(retry, ji*chunk+x)
			}
		}
	}
	// a batch whose child died or timed out is re-run one program per job, so that the
	// offending program is identified and the others still get their observation
	if len(retry) > 0 {
		var single []any
		for _, i := range retry {
			single = append(single, job{Srcs: srcs[i : i+1], NoRef: noRef})
		}
		rr := c.RunChildren("c03", single, 16, 30*time.Second, nil)
		for x, r := range rr {
			var os []obs
			if r.Out != nil {
				json.Unmarshal(r.Out, &os)
			}
			if len(os) == 1 {
				res[retry[x]] = os[0]
			} else {
				bad[retry[x]] = r.Describe()
			}
		}
	}
	return res, bad
}

// judge compares an observation with the prediction; "" = as predicted. The failure
// modes are coarse on purpose: one root cause shows up as an error, a wrong value or a
// silently truncated output depending on the surrounding expression.
func judge(k *kase, want string, o obs, childBad string) string {
	if childBad != "" {
		if strings.HasPrefix(childBad, "timeout") {
			return "timeout"
		}
		return "crash"
	}
	rejected := o.Err != "" && o.Out == "" && o.Panic == ""
	if k.Res.St == "reject" {
		switch {
		case rejected:
			return ""
		case o.Panic != "":
			return "panic out of Eval"
		}
		return "not rejected" // accepted and ran, or failed only at run time after output
	}
	good := o.Err == "" && o.Panic == "" && o.Out == want
	if good || (k.Res.Lim && rejected) {
		return ""
	}
	switch {
	case o.Panic != "":
		return "panic out of Eval"
	case rejected:
		return "rejected"
	}
	return "wrong output" // wrong value or type, output that stops early, run-time error after output
}

// sameLines compares the model's predicted output with the reference's, line by line;
// "?" in the reference matches anything
func sameLines(want, ref string) bool {
	w, r := strings.Split(want, "\n"), strings.Split(ref, "\n")
	if len(w) != len(r) {
		return false
	}
	for i := range w {
		if r[i] != "?" && r[i] != w[i] {
			return false
		}
	}
	return true
}

func has(l []string, s string) bool {
	for _, x := range l {
		if x == s {
			return true
		}
	}
	return false
}

func kindClass(k string) string {
	switch k {
	case "int8", "int16", "int32":
		return "signed w<64"
	case "int64", "int":
		return "signed 64"
	case "uint8", "uint16", "uint32":
		return "unsigned w<64"
	case "uint64", "uint", "uintptr":
		return "unsigned 64"
	case "float32", "float64":
		return "float"
	}
	return k
}

// the why of the rejection of a case (for a block: of its first rejecting spec)
func (k *kase) why() why {
	if k.Tier == "block" {
		for _, v := range k.Vals {
			if v.St == "reject" {
				return v.Why
			}
		}
	}
	return k.Res.Why
}

func (k *kase) tags() []string {
	m := map[string]bool{}
	for _, t := range k.Res.Tags {
		m[t] = true
	}
	for _, v := range k.Vals {
		for _, t := range v.Tags {
			m[t] = true
		}
	}
	var r []string
	for t := range m {
		r = append(r, t)
	}
	sort.Strings(r)
	return r
}

// Triggers of the listed findings (the text is matched against known-findings entries).
const (
	tReturn     = "untyped constant used in a return statement whose value the result type cannot represent, or an integer constant beyond int64"
	tArrayLen   = "array length given by a constant that is negative, fractional, beyond int, or an untyped floating-point constant"
	tCmpOther   = "untyped constant not representable in the type of the other operand of a comparison"
	tDeclBin    = "typed declaration or assignment whose value is a binary constant expression: the declared type must apply to the result, not to the operands"
	tWindow     = "untyped constant outside a signed integer type of width w<64 whose magnitude still fits in w bits, converted to that type"
	tTyped      = "operation or conversion on typed constant operands whose exact result the result type cannot represent"
	tNegShift   = "constant shift with a negative typed constant count"
	tQuoSkip    = "quotient of a typed constant and an untyped constant the type cannot represent"
	tCmpInex    = "comparison of untyped constants one of which its default type cannot hold exactly"
	tCmpRight   = "comparison of untyped constants whose right operand is a parenthesised or compound expression"
	tLenComp    = "len of a compound constant string expression used as an operand of an operator or conversion"
	tFltShift   = "shift of an untyped floating-point constant used as an operand (the result must be an untyped integer constant)"
	tRetF32     = "untyped constant returned as float32 whose rounding to float32 differs from rounding to float64 first"
	tLogicConv  = "|| or && whose left operand is a bool(...) conversion and whose right operand contains a comparison or a logical operator"
	tShiftTyped = "shift of an untyped constant by a typed constant count, used as an operand"
	tQuoRune    = "quotient of an untyped rune constant and an untyped integer constant"
	tFloatInt   = "untyped floating-point constant that float64 cannot hold exactly, converted to an integer type"
	tStrWide    = "integer constant outside the int32 range converted to string"
)

// trigger computes the signature of a failing case from the model-level case only.
// Predicates are ordered from the most specific root cause to the generic description.
func (k *kase) trigger(neutralOK bool) string {
	declCtx := func(s string) bool {
		return s == "constdecl" || s == "vardecl" || s == "assign" || s == "opassign"
	}
	if k.Res.St == "reject" {
		w := k.why()
		kc := kindClass(w.Kind)
		win := strings.HasSuffix(w.Mag, "w") && !strings.HasSuffix(w.Mag, "w64") // |v| < 2^width
		switch {
		case w.Site == "return":
			return tReturn
		case w.Site == "arraylen":
			return tArrayLen
		case w.Site == "cmp-var" || w.Site == "implicit-cmp":
			return tCmpOther
		case declCtx(w.Site) && w.Root == "bin":
			return tDeclBin
		case w.Opnd == "untyped" && w.Reason == "overflow" && kc == "signed w<64" && win:
			return tWindow
		case w.Reason == "negshift" && w.Opnd == "typed":
			return tNegShift
		case w.Opnd == "typed" && (w.Site == "arith" || w.Site == "unary" || w.Site == "shift" || w.Site == "conv"):
			return tTyped
		case w.Site == "implicit-arith" && k.rootOp() == "/":
			return tQuoSkip
		case has(k.tags(), "shift-typed-count"):
			return tShiftTyped
		}
		return fmt.Sprintf("reject: %s at %s (root %s), %s %s operand, target %s, magnitude %s", w.Reason, w.Site, w.Root, w.Opnd, w.Cls, kc, w.Mag)
	}
	return k.acceptTriggers(neutralOK)[0]
}

// every listed root cause an accepted case exposes, most specific first; the generic
// description comes last
func (k *kase) acceptTriggers(neutralOK bool) []string {
	tags := k.tags()
	var r []string
	add := func(c bool, t string) {
		if c && !has(r, t) {
			r = append(r, t)
		}
	}
	add(has(tags, "cmp-inexact"), tCmpInex)
	add(k.inexact() && neutralOK, tCmpInex)
	add(has(tags, "arraylen-float"), tArrayLen)
	add(k.Ctx == "return" && has(tags, "src-beyond-int64"), tReturn)
	add(k.Ctx == "return" && has(tags, "f32-double-rounding"), tRetF32)
	add(has(tags, "decl-type-on-operands"), tDeclBin)
	add(has(tags, "float-inexact-to-int"), tFloatInt)
	add(has(tags, "len-compound-operand"), tLenComp)
	add(has(tags, "cmp-right-compound"), tCmpRight)
	add(has(tags, "shift-typed-count"), tShiftTyped)
	add(has(tags, "shift-of-float"), tFltShift)
	add(has(tags, "quo-rune-int"), tQuoRune)
	add(has(tags, "string-of-wide-int"), tStrWide)
	add(has(tags, "logic-conv-left"), tLogicConv)
	return append(r, "accept: "+k.features())
}

func (k *kase) rootOp() string {
	if n := len(k.Toks); n > 0 && k.Toks[n-1].K == "bin" {
		return k.Toks[n-1].O
	}
	return ""
}

func (k *kase) inexact() bool {
	if k.Res.C.Inexact {
		return true
	}
	for _, v := range k.Vals {
		if v.C.Inexact {
			return true
		}
	}
	return false
}

// coarse description of an accepted case for an unlisted failure (the replay file has
// the whole case; the signature only groups failures)
func (k *kase) features() string {
	s := k.Tier
	if k.Ctx != "" {
		s += " " + k.Ctx + " " + kindClass(k.Kind)
	}
	if k.Place != "" {
		s += " " + k.Place
	}
	if n := len(k.Toks); n > 0 {
		s += " root " + k.Toks[n-1].K + k.Toks[n-1].O
	}
	return s + " -> " + k.Res.C.Class + "/" + kindClass(k.Res.C.Typ)
}

func isCmp(o string) bool {
	switch o {
	case "==", "!=", "<", "<=", ">", ">=":
		return true
	}
	return false
}

func (k *kase) nontrivial() bool {
	return k.Tier != "expr" || len(k.Toks) > 1
}

type failure struct {
	i    int
	mode string
}

func check(c *fw.Ctx, all []kase) error {
	debug := os.Getenv("VERIF_C03_DEBUG") != ""
	progs := make([]prog, len(all))
	srcs := make([]string, len(all))
	for i := range all {
		p, err := all[i].render()
		if err != nil {
			return fmt.Errorf("cannot render %s: %v", all[i].key(), err)
		}
		progs[i], srcs[i] = p, p.Src
	}
	t0 := time.Now()
	obss, bad := runAll(c, srcs, false)
	if debug {
		fmt.Printf("DEBUG phase 1: %d programs in %.1fs\n", len(srcs), time.Since(t0).Seconds())
	}
	var fails []failure
	stat := map[string]int{}
	for i := range all {
		k, p, o := &all[i], progs[i], obss[i]
		// the reference validates the specification on every case
		if bad[i] == "" {
			wantReject := k.Res.St == "reject" || k.Res.Lim
			switch {
			case wantReject && o.RefErr == "":
				c.SpecError("specification rejects (%s at %s%s) but go/types accepts:\n%s", k.why().Reason, k.why().Site, map[bool]string{true: ", limit", false: ""}[k.Res.Lim], p.Src)
				continue
			case !wantReject && o.RefErr != "":
				c.SpecError("specification accepts but go/types says %q:\n%s", o.RefErr, p.Src)
				continue
			case !wantReject && !sameLines(p.Want, o.RefOut):
				c.SpecError("specification predicts output %q, go/types + go/constant predict %q:\n%s", p.Want, o.RefOut, p.Src)
				continue
			}
		}
		c.Count(p.Src, k.nontrivial())
		c.TracesVsImpl++
		stat[k.Tier+"/"+k.Res.St]++
		if i%997 == 0 {
			c.Sample(map[string]any{"program": p.Src, "predicted": k.Res.St, "expected_stdout": p.Want})
		}
		if m := judge(k, p.Want, o, bad[i]); m != "" {
			fails = append(fails, failure{i, m})
		}
	}
	c.Extra["cases_by_tier_and_verdict"] = stat
	// how many generated cases satisfy the antecedent of each model-level invariant TLC
	// checked (TLC's own -coverage is unusable on the limb recursion: it runs out of memory)
	ante := map[string]int{}
	for i := range all {
		k := &all[i]
		rc := k.Res.C
		if k.Res.St == "ok" {
			num := rc.Class == "int" || rc.Class == "rune" || rc.Class == "float"
			if num && rc.Num.Point == 0 {
				ante["RepMonotone,RepIsTruncFixpoint (integral result)"]++
			}
			if num && rc.Typ != "untyped" {
				ante["TypedFits (typed numeric result)"]++
			}
			if rc.Typ == "float32" || rc.Typ == "float64" {
				ante["RoundIdem (typed float result)"]++
			}
		}
		if k.Tier == "expr" && len(k.Toks) == 3 && k.Toks[0].K == "lit" && k.Toks[1].K == "lit" {
			intLit := func(t tok) bool { return t.O == "i" || t.O == "p" || t.O == "pm1" || t.O == "pp1" || t.O == "r" }
			if intLit(k.Toks[0]) && intLit(k.Toks[1]) {
				switch k.Toks[2].O {
				case "/":
					ante["DivModIdentity (pairs of integer literals)"]++
				case "&":
					ante["BitIdentities"]++
				case "<<":
					ante["ShiftIdentities"]++
				case "<":
					ante["OrderIdentities"]++
				}
			}
		}
		if k.Tier == "block" {
			ante["ImplicitIsTextual,BlankStillCounts,IotaRestarts (blocks)"]++
			for _, s := range k.Specs {
				if s.Impl {
					ante["blocks with an implicit spec"]++
					break
				}
			}
		}
	}
	c.Extra["invariant_antecedent_counts"] = ante

	// second observation for failing accepted cases whose own observation compares an
	// untyped constant that its default type cannot hold exactly: the neutral program
	// observes the same constant through a subtraction (see NOTES, finding F-C03-3)
	neutralOK := map[int]bool{}
	var nidx []int
	var nsrc []string
	for _, f := range fails {
		if all[f.i].Res.St == "ok" && progs[f.i].Neutral != "" && !has(all[f.i].tags(), "cmp-inexact") {
			nidx = append(nidx, f.i)
			nsrc = append(nsrc, progs[f.i].Neutral)
		}
	}
	if len(nsrc) > 0 {
		no, nbad := runAll(c, nsrc, false)
		for x, i := range nidx {
			k := &all[i]
			if nbad[x] == "" && no[x].RefErr == "" && sameLines(progs[i].NWant, no[x].RefOut) && judge(k, progs[i].NWant, no[x], nbad[x]) == "" {
				neutralOK[i] = true
			}
		}
	}

	sigs := map[string][]int{}
	for _, f := range fails {
		k := &all[f.i]
		trig := k.trigger(neutralOK[f.i])
		// several hazards: attribute the failure to the first one listed with this mode
		cands := []string{trig}
		if k.Res.St != "reject" {
			cands = k.acceptTriggers(neutralOK[f.i])
		} else {
			// a rejected case may carry a second, independent reason
			if has(k.tags(), "shift-typed-count") {
				cands = append(cands, tShiftTyped)
			}
			if has(k.tags(), "also-divzero") {
				cands = append(cands, tTyped)
			}
		}
		for _, t := range cands {
			if c.IsKnown(t, f.mode) {
				trig = t
				break
			}
		}
		c.DisagreeChk++
		sig := trig + " / " + f.mode
		sigs[sig] = append(sigs[sig], f.i)
	}
	var order []string
	for s := range sigs {
		order = append(order, s)
	}
	sort.Strings(order)
	// native corroboration of the first case of every signature (the compiled program is
	// the final word on what Go does with the rendered source)
	var nat []string
	for _, s := range order {
		nat = append(nat, progs[sigs[s][0]].Src)
	}
	natRes := []fw.NativeResult{}
	if len(nat) > 0 && len(nat) <= 60 {
		natRes = c.NativeBatch(nat, 20*time.Second)
	}
	for x, s := range order {
		i := sigs[s][0]
		k, p, o := &all[i], progs[i], obss[i]
		parts := strings.SplitN(s, " / ", 2)
		rep := map[string]any{"tier": k.Tier, "ctx": k.Ctx, "kind": k.Kind, "toks": k.Toks, "lits": k.Lits, "place": k.Place, "obs": k.Obs,
			"specs": k.Specs, "vals": k.Vals, "trail": k.Trail, "res": k.Res,
			"program": p.Src, "expected_stdout": p.Want, "observed": o, "same_signature": len(sigs[s])}
		if x < len(natRes) {
			n := natRes[x]
			rep["native"] = map[string]any{"build_ok": n.BuildOK, "stdout": n.Stdout, "build_err": firstLine(n.BuildErr)}
			if k.Res.St == "reject" || k.Res.Lim {
				if n.BuildOK {
					c.SpecError("specification rejects but the toolchain builds:\n%s", p.Src)
					continue
				}
			} else if !n.BuildOK || n.Stdout != p.Want {
				c.SpecError("specification predicts %q but the compiled program gives %q (build ok %v: %s):\n%s", p.Want, n.Stdout, n.BuildOK, firstLine(n.BuildErr), p.Src)
				continue
			}
		}
		known := c.Fail(parts[0], parts[1], rep)
		if debug {
			fmt.Printf("DEBUG %5d x [%s] %s\n      e.g. %s\n      obs out=%q err=%q panic=%q\n", len(sigs[s]), map[bool]string{true: "known", false: "NEW"}[known], s,
				strings.ReplaceAll(strings.TrimPrefix(p.Src, header), "\n", " "), o.Out, o.Err, o.Panic)
		}
	}
	c.Extra["failing_cases"] = len(fails)
	c.Extra["failure_signatures"] = len(order)
	return nil
}
