package main

import (
	"bytes"
	"encoding/json"
	"fmt"
	"go/ast"
	"go/constant"
	"go/parser"
	"go/token"
	"go/types"
	"strconv"
	"strings"

	"github.com/traefik/yaegi/interp"
	"github.com/traefik/yaegi/stdlib"

	"verif/fw"
)

// obs is what one program did in the real interpreter, and what the property's own
// reference (go/types + go/constant on the same source) says about it.
type obs struct {
	Out   string `json:"out"`
	Err   string `json:"err,omitempty"`
	Panic string `json:"panic,omitempty"`

	RefErr   string   `json:"ref_err,omitempty"`   // go/types error, "" when the program type-checks
	RefOut   string   `json:"ref_out,omitempty"`   // the lines go/types + go/constant predict ("?": not determined)
	RefTypes []string `json:"ref_types,omitempty"` // default types of the %T arguments, in order
}

type job struct {
	Srcs  []string `json:"srcs"`
	NoRef bool     `json:"noref,omitempty"`
}

func init() {
	fw.RegisterChild("c03", func(raw json.RawMessage) any {
		var j job
		if err := json.Unmarshal(raw, &j); err != nil {
			return []obs{}
		}
		res := make([]obs, len(j.Srcs))
		for i, s := range j.Srcs {
			res[i] = runYaegi(s)
			if !j.NoRef {
				reference(s, &res[i])
			}
		}
		return res
	})
}

func runYaegi(src string) (o obs) {
	var out, errb bytes.Buffer
	defer func() {
		if r := recover(); r != nil {
			o.Out = out.String()
			o.Panic = firstLine(fmt.Sprint(r))
		}
	}()
	i := interp.New(interp.Options{Stdout: &out, Stderr: &errb})
	if err := i.Use(stdlib.Symbols); err != nil {
		o.Err = "use: " + err.Error()
		return o
	}
	_, err := i.Eval(src)
	o.Out = out.String()
	if err != nil {
		o.Err = firstLine(err.Error())
		if o.Err == "" {
			o.Err = "error"
		}
	}
	return o
}

// stub of package fmt for the reference type checker (the real one is not needed to
// decide whether the program is accepted and what its constants are)
type stubImporter struct{ fmt *types.Package }

func (m stubImporter) Import(p string) (*types.Package, error) {
	if p == "fmt" {
		return m.fmt, nil
	}
	return nil, fmt.Errorf("no package %q", p)
}

var theStub *types.Package

func stubFmt() *types.Package {
	if theStub != nil {
		return theStub
	}
	fset := token.NewFileSet()
	f, err := parser.ParseFile(fset, "fmt.go", "package fmt\nfunc Println(a ...any) (int, error) { return 0, nil }\nfunc Printf(s string, a ...any) (int, error) { return 0, nil }\n", 0)
	if err != nil {
		panic(err)
	}
	p, err := (&types.Config{}).Check("fmt", fset, []*ast.File{f}, nil)
	if err != nil {
		panic(err)
	}
	theStub = p
	return p
}

func reference(src string, o *obs) {
	fset := token.NewFileSet()
	f, err := parser.ParseFile(fset, "m.go", src, 0)
	if err != nil {
		o.RefErr = "parse: " + firstLine(err.Error())
		return
	}
	info := &types.Info{Types: map[ast.Expr]types.TypeAndValue{}}
	_, err = (&types.Config{Importer: stubImporter{stubFmt()}}).Check("main", fset, []*ast.File{f}, info)
	if err != nil {
		o.RefErr = firstLine(err.Error())
		return
	}
	// what the program prints according to go/types + go/constant; "?" for a line the
	// reference does not determine (a printed variable)
	var lines []string
	// v := <constant expression>: the variable holds that constant, converted to its type
	vars := map[string]constant.Value{}
	valueOf := func(e ast.Expr) constant.Value {
		if v := info.Types[e].Value; v != nil {
			return v
		}
		for {
			p, ok := e.(*ast.ParenExpr)
			if !ok {
				break
			}
			e = p.X
		}
		switch x := e.(type) {
		case *ast.Ident:
			return vars[x.Name]
		case *ast.BinaryExpr:
			if x.Op == token.EQL {
				if id, ok := x.X.(*ast.ParenExpr); ok {
					if i, ok := id.X.(*ast.Ident); ok && vars[i.Name] != nil && info.Types[x.Y].Value != nil {
						return constant.MakeBool(constant.Compare(vars[i.Name], token.EQL, info.Types[x.Y].Value))
					}
				}
			}
		}
		return nil
	}
	ast.Inspect(f, func(n ast.Node) bool {
		if as, ok := n.(*ast.AssignStmt); ok && as.Tok == token.DEFINE && len(as.Lhs) == 1 && len(as.Rhs) == 1 {
			if id, ok := as.Lhs[0].(*ast.Ident); ok && strings.HasPrefix(id.Name, "v") {
				if v := info.Types[as.Rhs[0]].Value; v != nil {
					vars[id.Name] = v
				}
			}
			return true
		}
		call, ok := n.(*ast.CallExpr)
		if !ok {
			return true
		}
		sel, ok := call.Fun.(*ast.SelectorExpr)
		if !ok {
			return true
		}
		if id, ok := sel.X.(*ast.Ident); !ok || id.Name != "fmt" {
			return true
		}
		switch sel.Sel.Name {
		case "Println":
			line := "?"
			if len(call.Args) == 1 {
				if v := valueOf(call.Args[0]); v != nil {
					switch v.Kind() {
					case constant.Bool:
						line = fmt.Sprint(constant.BoolVal(v))
					case constant.String:
						line = constant.StringVal(v)
					case constant.Int:
						line = v.ExactString()
					}
				}
			}
			lines = append(lines, line)
		case "Printf":
			line := "?"
			if lit, ok := call.Args[0].(*ast.BasicLit); ok && len(call.Args) == 2 {
				tv := info.Types[call.Args[1]]
				switch lit.Value {
				case `"%T\n"`:
					t := types.Default(tv.Type)
					line = t.String()
					if b, ok := t.(*types.Basic); ok {
						line = types.Typ[b.Kind()].Name() // rune -> int32, byte -> uint8
					}
					o.RefTypes = append(o.RefTypes, line)
				case `"%q\n"`:
					if v := valueOf(call.Args[1]); v != nil && v.Kind() == constant.String {
						line = strconv.Quote(constant.StringVal(v))
					}
				}
			}
			lines = append(lines, line)
		}
		return true
	})
	o.RefOut = strings.Join(lines, "\n") + "\n"
}

func firstLine(s string) string {
	if i := strings.IndexByte(s, '\n'); i >= 0 {
		s = s[:i]
	}
	if len(s) > 160 {
		s = s[:160]
	}
	return s
}
