package main

import (
	"bytes"
	"encoding/json"
	"fmt"
	"go/ast"
	"go/constant"
	"go/parser"
	"go/token"
	"go/types"
	"strings"

	"github.com/traefik/yaegi/interp"
	"github.com/traefik/yaegi/stdlib"

	"verif/fw"
)

// obs is what one program did in the real interpreter, and what the property's own
// reference (go/types + go/constant on the same source) says about it.
type obs struct {
	Out   string `json:"out"`
	Err   string `json:"err,omitempty"`
	Panic string `json:"panic,omitempty"`

	RefErr   string   `json:"ref_err,omitempty"`   // go/types error, "" when the program type-checks
	RefBad   string   `json:"ref_bad,omitempty"`   // a printed constant that go/constant does not evaluate to true
	RefTypes []string `json:"ref_types,omitempty"` // default types of the %T arguments, in order
}

type job struct {
	Srcs  []string `json:"srcs"`
	NoRef bool     `json:"noref,omitempty"`
}

func init() {
	fw.RegisterChild("c03", func(raw json.RawMessage) any {
		var j job
		if err := json.Unmarshal(raw, &j); err != nil {
			return []obs{}
		}
		res := make([]obs, len(j.Srcs))
		for i, s := range j.Srcs {
			res[i] = runYaegi(s)
			if !j.NoRef {
				reference(s, &res[i])
			}
		}
		return res
	})
}

func runYaegi(src string) (o obs) {
	var out, errb bytes.Buffer
	defer func() {
		if r := recover(); r != nil {
			o.Out = out.String()
			o.Panic = firstLine(fmt.Sprint(r))
		}
	}()
	i := interp.New(interp.Options{Stdout: &out, Stderr: &errb})
	if err := i.Use(stdlib.Symbols); err != nil {
		o.Err = "use: " + err.Error()
		return o
	}
	_, err := i.Eval(src)
	o.Out = out.String()
	if err != nil {
		o.Err = firstLine(err.Error())
		if o.Err == "" {
			o.Err = "error"
		}
	}
	return o
}

// stub of package fmt for the reference type checker (the real one is not needed to
// decide whether the program is accepted and what its constants are)
type stubImporter struct{ fmt *types.Package }

func (m stubImporter) Import(p string) (*types.Package, error) {
	if p == "fmt" {
		return m.fmt, nil
	}
	return nil, fmt.Errorf("no package %q", p)
}

var theStub *types.Package

func stubFmt() *types.Package {
	if theStub != nil {
		return theStub
	}
	fset := token.NewFileSet()
	f, err := parser.ParseFile(fset, "fmt.go", "package fmt\nfunc Println(a ...any) (int, error) { return 0, nil }\nfunc Printf(s string, a ...any) (int, error) { return 0, nil }\n", 0)
	if err != nil {
		panic(err)
	}
	p, err := (&types.Config{}).Check("fmt", fset, []*ast.File{f}, nil)
	if err != nil {
		panic(err)
	}
	theStub = p
	return p
}

func reference(src string, o *obs) {
	fset := token.NewFileSet()
	f, err := parser.ParseFile(fset, "m.go", src, 0)
	if err != nil {
		o.RefErr = "parse: " + firstLine(err.Error())
		return
	}
	info := &types.Info{Types: map[ast.Expr]types.TypeAndValue{}}
	_, err = (&types.Config{Importer: stubImporter{stubFmt()}}).Check("main", fset, []*ast.File{f}, info)
	if err != nil {
		o.RefErr = firstLine(err.Error())
		return
	}
	ast.Inspect(f, func(n ast.Node) bool {
		call, ok := n.(*ast.CallExpr)
		if !ok {
			return true
		}
		sel, ok := call.Fun.(*ast.SelectorExpr)
		if !ok {
			return true
		}
		if id, ok := sel.X.(*ast.Ident); !ok || id.Name != "fmt" {
			return true
		}
		switch sel.Sel.Name {
		case "Println":
			for _, a := range call.Args {
				tv := info.Types[a]
				if tv.Value != nil && tv.Value.Kind() == constant.Bool && !constant.BoolVal(tv.Value) && o.RefBad == "" {
					var b strings.Builder
					b.WriteString("go/constant evaluates ")
					b.WriteString(src[fset.Position(a.Pos()).Offset:fset.Position(a.End()).Offset])
					b.WriteString(" to false")
					o.RefBad = b.String()
				}
			}
		case "Printf":
			if len(call.Args) == 2 {
				o.RefTypes = append(o.RefTypes, types.Default(info.Types[call.Args[1]].Type).String())
			}
		}
		return true
	})
}

func firstLine(s string) string {
	if i := strings.IndexByte(s, '\n'); i >= 0 {
		s = s[:i]
	}
	if len(s) > 160 {
		s = s[:160]
	}
	return s
}
