package main

import (
	"fmt"
	"strconv"
	"strings"
)

// Model-level data, as emitted by Const.tla (OutCase).

type tok struct {
	K string `json:"k"`
	O string `json:"o"`
	N int    `json:"n"`
}

type dec struct {
	Neg bool  `json:"neg"`
	Dig []int `json:"dig"`
}

type numDec struct {
	Neg   bool  `json:"neg"`
	Dig   []int `json:"dig"`
	Point int   `json:"point"`
}

type outConst struct {
	Class   string `json:"class"`
	Typ     string `json:"typ"`
	Num     numDec `json:"num"`
	Str     []int  `json:"str"`
	B       bool   `json:"b"`
	Ptype   string `json:"ptype"`
	Inexact bool   `json:"inexact"`
}

type why struct {
	Reason string `json:"reason"`
	Site   string `json:"site"`
	Kind   string `json:"kind"`
	Opnd   string `json:"opnd"`
	Mag    string `json:"mag"`
	Cls    string `json:"cls"`
	Root   string `json:"root"`
}

type outRes struct {
	St    string   `json:"st"`
	Lim   bool     `json:"lim"`
	Inner bool     `json:"inner"`
	C     outConst `json:"c"`
	Why   why      `json:"why"`
	Tags  []string `json:"tags"`
	Nrej  int      `json:"nrej"`
}

type spec struct {
	Blank bool   `json:"blank"`
	Impl  bool   `json:"impl"`
	Typ   string `json:"typ"`
	Toks  []tok  `json:"toks"`
	Lits  []dec  `json:"lits"`
	Toks2 []tok  `json:"toks2"` // the expression of the second name of a two-name spec (empty: one name)
	Lits2 []dec  `json:"lits2"`
}

type kase struct {
	Tier  string   `json:"tier"`
	Ctx   string   `json:"ctx"`
	Kind  string   `json:"kind"`
	Toks  []tok    `json:"toks"`
	Lits  []dec    `json:"lits"`
	Place string   `json:"place"`
	Specs []spec   `json:"specs"`
	Vals  []outRes `json:"vals"`
	Vals2 []outRes `json:"vals2"` // values of the second names of a block of two-name specs
	Trail []outRes `json:"trail"`
	Res   outRes   `json:"res"`
	// Obs is set by the harness: "" observes the constant through a variable of its
	// default type; "arg" passes the constant expression directly as a call argument.
	Obs string `json:"obs,omitempty"`
}

func digits(d []int) string {
	var b strings.Builder
	for _, x := range d {
		b.WriteByte(byte('0' + x))
	}
	return b.String()
}

func (d dec) String() string {
	if d.Neg {
		return "-" + digits(d.Dig)
	}
	return digits(d.Dig)
}

// literal text of a numeric prediction: digits with the decimal point placed.
func (n numDec) text(float bool) string {
	s := digits(n.Dig)
	if n.Point > 0 {
		for len(s) <= n.Point {
			s = "0" + s
		}
		s = s[:len(s)-n.Point] + "." + s[len(s)-n.Point:]
	} else if float {
		s += ".0"
	}
	if n.Neg {
		s = "-" + s
	}
	return s
}

func (n numDec) isZero() bool { return len(n.Dig) == 1 && n.Dig[0] == 0 }

func quoteCPs(cps []int) string {
	var b strings.Builder
	b.WriteByte('"')
	for _, c := range cps {
		switch {
		case c >= 0x20 && c < 0x7f && c != '"' && c != '\\':
			b.WriteByte(byte(c))
		case c < 0x10000:
			fmt.Fprintf(&b, `\u%04x`, c)
		default:
			fmt.Fprintf(&b, `\U%08x`, c)
		}
	}
	b.WriteByte('"')
	return b.String()
}

// literal of a predicted constant, as Go source
func (c outConst) literal() string {
	switch c.Class {
	case "int", "rune":
		return c.Num.text(false)
	case "float":
		return c.Num.text(true)
	case "string":
		return quoteCPs(c.Str)
	case "bool":
		if c.B {
			return "true"
		}
		return "false"
	}
	return "?"
}

func (c outConst) numericUntyped() bool {
	return c.Typ == "untyped" && (c.Class == "int" || c.Class == "rune" || c.Class == "float")
}

// renderExpr turns a postfix token sequence into Go source, fully parenthesised.
func renderExpr(toks []tok, lits []dec) (string, error) {
	var st []string
	li := 0
	pop := func() string {
		s := st[len(st)-1]
		st = st[:len(st)-1]
		return s
	}
	for _, t := range toks {
		switch t.K {
		case "lit":
			switch t.O {
			case "i", "p", "pm1", "pp1":
				if li >= len(lits) {
					return "", fmt.Errorf("literal table too short")
				}
				d := lits[li]
				li++
				if d.Neg {
					st = append(st, "(-"+digits(d.Dig)+")")
				} else {
					st = append(st, digits(d.Dig))
				}
			case "x", "xf":
				if li >= len(lits) {
					return "", fmt.Errorf("literal table too short")
				}
				d := digits(lits[li].Dig)
				li++
				if t.O == "xf" {
					d += ".0"
				}
				st = append(st, d)
			case "r":
				li++
				st = append(st, strconv.QuoteRune(rune(t.N)))
			case "rx":
				st = append(st, fmt.Sprintf(`'\x%02x'`, t.N))
			case "ro":
				st = append(st, fmt.Sprintf(`'\%03o'`, t.N))
			case "ru":
				st = append(st, fmt.Sprintf(`'\u%04x'`, t.N))
			case "rc":
				st = append(st, "'"+string(rune(t.N))+"'")
			case "f":
				st = append(st, map[int]string{1: "1.0", 2: "0.5", 3: "2.5e3"}[t.N])
			case "h":
				st = append(st, fmt.Sprintf("0x1p%d", t.N))
			case "s":
				st = append(st, `"ab"`)
			case "b":
				if t.N == 1 {
					st = append(st, "true")
				} else {
					st = append(st, "false")
				}
			default:
				return "", fmt.Errorf("unknown literal family %q", t.O)
			}
		case "iota":
			st = append(st, "iota")
		case "fwd":
			st = append(st, "FwdZ")
		case "un":
			if len(st) < 1 {
				return "", fmt.Errorf("stack underflow")
			}
			x := pop()
			st = append(st, "("+t.O+x+")")
		case "bin":
			if len(st) < 2 {
				return "", fmt.Errorf("stack underflow")
			}
			r := pop()
			l := pop()
			st = append(st, "("+l+" "+t.O+" "+r+")")
		case "conv":
			if len(st) < 1 {
				return "", fmt.Errorf("stack underflow")
			}
			x := pop()
			st = append(st, t.O+"("+x+")")
		case "len":
			x := pop()
			st = append(st, "len("+x+")")
		case "arrlen":
			x := pop()
			st = append(st, "len(["+x+"]int{})")
		default:
			return "", fmt.Errorf("unknown token %q", t.K)
		}
	}
	if len(st) != 1 {
		return "", fmt.Errorf("malformed expression: %d values left", len(st))
	}
	return st[0], nil
}

// prog is a rendered case: the program, what it must print when accepted.
type prog struct {
	Src     string   `json:"src"`
	Want    string   `json:"want"`    // expected stdout when the case is accepted
	Neutral string   `json:"neutral"` // program without a direct comparison of inexact untyped values ("" if none)
	NWant   string   `json:"nwant"`
	PTypes  []string `json:"ptypes"` // expected %T lines, in order (for the reference)
}

// observation lines for a constant expression e predicted to be the constant c.
// A constant its default type holds exactly is stored in a variable (v := e) and the
// variable is printed (compared with the predicted literal for floats, whose printed
// form the specification does not describe); with arg the expression itself is the
// call argument.  The others are compared as constants with the predicted literal -
// directly (direct) or, in the neutral program, through a subtraction.
func obsLines(e string, c outConst, direct, arg bool, id int) (lines []string, want []string, ptypes []string) {
	lit := c.literal()
	v := fmt.Sprintf("v%d", id)
	viaVar := !c.Inexact && c.Ptype != "" && !arg
	if viaVar {
		lines = append(lines, fmt.Sprintf("%s := %s", v, e))
	} else {
		v = e
	}
	switch {
	case c.Class == "bool":
		lines = append(lines, fmt.Sprintf("fmt.Println(%s)", v))
		want = append(want, lit)
	case c.Class == "string":
		lines = append(lines, fmt.Sprintf("fmt.Printf(\"%%q\\n\", %s)", v))
		rs := make([]rune, len(c.Str))
		for i, x := range c.Str {
			rs[i] = rune(x)
		}
		want = append(want, strconv.Quote(string(rs)))
	case c.Class != "float" && !c.Inexact:
		lines = append(lines, fmt.Sprintf("fmt.Println(%s)", v))
		want = append(want, lit)
	case viaVar || direct:
		lines = append(lines, fmt.Sprintf("fmt.Println((%s) == %s)", v, lit))
		want = append(want, "true")
	default:
		lines = append(lines, fmt.Sprintf("fmt.Println(((%s) - (%s)) == 0)", v, lit))
		want = append(want, "true")
	}
	if c.Ptype != "" {
		lines = append(lines, fmt.Sprintf("fmt.Printf(\"%%T\\n\", %s)", v))
		want = append(want, c.Ptype)
		ptypes = append(ptypes, c.Ptype)
	}
	return
}

const header = "package main\n\nimport \"fmt\"\n\n"

func mainOf(pre string, body []string) string {
	var b strings.Builder
	b.WriteString(header)
	b.WriteString(pre)
	b.WriteString("func main() {\n\tfmt.Println(\"start\")\n")
	for _, l := range body {
		b.WriteString("\t" + l + "\n")
	}
	b.WriteString("}\n")
	return b.String()
}

func joinWant(w []string) string {
	return "start\n" + strings.Join(w, "\n") + map[bool]string{true: "\n", false: ""}[len(w) > 0]
}

func (k *kase) accepted() bool { return k.Res.St == "ok" }

// render builds the program(s) of a case.
func (k *kase) render() (prog, error) {
	switch k.Tier {
	case "expr":
		e, err := renderExpr(k.Toks, k.Lits)
		if err != nil {
			return prog{}, err
		}
		if !k.accepted() {
			return prog{Src: mainOf("", []string{fmt.Sprintf("fmt.Println(%s)", e)})}, nil
		}
		l, w, pt := obsLines(e, k.Res.C, true, k.Obs == "arg", 0)
		p := prog{Src: mainOf("", l), Want: joinWant(w), PTypes: pt}
		if k.Res.C.Inexact {
			l2, w2, _ := obsLines(e, k.Res.C, false, k.Obs == "arg", 0)
			p.Neutral, p.NWant = mainOf("", l2), joinWant(w2)
		}
		return p, nil
	case "use":
		return k.renderUse()
	case "block":
		return k.renderBlock()
	}
	return prog{}, fmt.Errorf("unknown tier %q", k.Tier)
}

func (k *kase) renderUse() (prog, error) {
	e, err := renderExpr(k.Toks, k.Lits)
	if err != nil {
		return prog{}, err
	}
	K := k.Kind
	pre := ""
	var body []string
	val := "" // expression whose value is printed
	switch k.Ctx {
	case "conv":
		val = fmt.Sprintf("%s(%s)", K, e)
	case "constdecl":
		body = []string{fmt.Sprintf("const c %s = %s", K, e)}
		val = "c"
	case "vardecl":
		body = []string{fmt.Sprintf("var x %s = %s", K, e)}
		val = "x"
	case "assign":
		body = []string{fmt.Sprintf("var x %s", K), fmt.Sprintf("x = %s", e)}
		val = "x"
	case "opassign":
		body = []string{fmt.Sprintf("var x %s", K), fmt.Sprintf("x += %s", e)}
		val = "x"
	case "callarg":
		pre = fmt.Sprintf("func f(a %s) %s { return a }\n\n", K, K)
		val = fmt.Sprintf("f(%s)", e)
	case "return":
		pre = fmt.Sprintf("func g() %s { return %s }\n\n", K, e)
		val = "g()"
	case "elem-slice":
		body = []string{fmt.Sprintf("s := []%s{%s}", K, e)}
		val = "s[0]"
	case "elem-array":
		body = []string{fmt.Sprintf("s := [2]%s{0, %s}", K, e)}
		val = "s[1]"
	case "elem-mapkey":
		body = []string{fmt.Sprintf("m := map[%s]int{%s: 1}", K, e), fmt.Sprintf("var x %s", K), "for k := range m { x = k }"}
		val = "x"
	case "elem-mapval":
		body = []string{fmt.Sprintf("m := map[int]%s{1: %s}", K, e)}
		val = "m[1]"
	case "elem-struct":
		body = []string{fmt.Sprintf("s := struct{ F %s }{F: %s}", K, e)}
		val = "s.F"
	case "binop-var":
		body = []string{fmt.Sprintf("var x %s", K)}
		val = fmt.Sprintf("x + %s", e)
	case "cmp-var":
		body = []string{fmt.Sprintf("var x %s", K)}
		val = fmt.Sprintf("x == %s", e)
	case "arraylen":
		body = []string{fmt.Sprintf("var a [%s]int", e)}
		val = "len(a)"
	case "shiftcount":
		body = []string{"var x uint64 = 1"}
		val = fmt.Sprintf("x << %s", e)
	default:
		return prog{}, fmt.Errorf("unknown use context %q", k.Ctx)
	}
	if !k.accepted() {
		body = append(body, fmt.Sprintf("fmt.Println(%s)", val))
		return prog{Src: mainOf(pre, body)}, nil
	}
	c := k.Res.C
	var want []string
	switch {
	case k.Ctx == "cmp-var":
		body = append(body, fmt.Sprintf("fmt.Println(%s)", val))
		want = append(want, map[bool]string{true: "true", false: "false"}[c.Num.isZero()])
	case c.Class == "float":
		body = append(body, fmt.Sprintf("fmt.Println(%s == %s)", val, c.literal()))
		want = append(want, "true")
	default:
		body = append(body, fmt.Sprintf("fmt.Println(%s)", val))
		want = append(want, c.Num.text(false))
	}
	return prog{Src: mainOf(pre, body), Want: joinWant(want)}, nil
}

func (k *kase) renderBlock() (prog, error) {
	var decl strings.Builder
	ind := "\t"
	if k.Place == "func" {
		ind = "\t\t"
	}
	decl.WriteString("const (\n")
	names := make([]string, len(k.Specs))
	names2 := make([]string, len(k.Specs))
	pair := len(k.Vals2) > 0 || (len(k.Specs) > 0 && len(k.Specs[0].Toks2) > 0)
	for j, s := range k.Specs {
		name := fmt.Sprintf("A%d", j)
		if s.Blank {
			name = "_"
		}
		names[j] = name
		decl.WriteString(ind + name)
		if pair {
			names2[j] = fmt.Sprintf("C%d", j)
			if s.Blank {
				names2[j] = "_"
			}
			decl.WriteString(", " + names2[j])
		}
		if !s.Impl {
			e, err := renderExpr(s.Toks, s.Lits)
			if err != nil {
				return prog{}, err
			}
			if s.Typ != "untyped" {
				decl.WriteString(" " + s.Typ)
			}
			decl.WriteString(" = " + e)
			if pair {
				e2, err := renderExpr(s.Toks2, s.Lits2)
				if err != nil {
					return prog{}, err
				}
				decl.WriteString(", " + e2)
			}
		}
		decl.WriteString("\n")
	}
	var body, want, ptypes, nbody, nwant []string
	inexact := false
	if k.accepted() {
		for j, s := range k.Specs {
			if s.Blank || j >= len(k.Vals) {
				continue
			}
			l, w, pt := obsLines(names[j], k.Vals[j].C, true, false, j)
			body, want, ptypes = append(body, l...), append(want, w...), append(ptypes, pt...)
			l2, w2, _ := obsLines(names[j], k.Vals[j].C, !k.Vals[j].C.Inexact, false, j)
			nbody, nwant = append(nbody, l2...), append(nwant, w2...)
			inexact = inexact || k.Vals[j].C.Inexact
			if pair && j < len(k.Vals2) {
				l, w, pt := obsLines(names2[j], k.Vals2[j].C, true, false, 50+j)
				body, want, ptypes = append(body, l...), append(want, w...), append(ptypes, pt...)
				l2, w2, _ := obsLines(names2[j], k.Vals2[j].C, !k.Vals2[j].C.Inexact, false, 50+j)
				nbody, nwant = append(nbody, l2...), append(nwant, w2...)
				inexact = inexact || k.Vals2[j].C.Inexact
			}
		}
	} else {
		for j, s := range k.Specs {
			if !s.Blank {
				body = append(body, fmt.Sprintf("fmt.Println(%s)", names[j]))
				if pair {
					body = append(body, fmt.Sprintf("fmt.Println(%s)", names2[j]))
				}
			}
		}
	}
	// FwdZ is declared at package level after everything that refers to it
	fwd := ""
	for _, s := range k.Specs {
		for _, t := range append(append([]tok(nil), s.Toks...), s.Toks2...) {
			if t.K == "fwd" {
				fwd = "\nconst FwdZ = 10\n"
			}
		}
	}
	// a second block follows the first (same placement): iota must start again at 0
	trailer := ""
	if k.accepted() && len(k.Trail) == 2 {
		for j, v := range k.Trail {
			l, w, _ := obsLines(fmt.Sprintf("B%d", j), v.C, true, false, 100+j)
			body, want = append(body, l...), append(want, w...)
			nbody, nwant = append(nbody, l...), append(nwant, w...)
		}
		trailer = "const (\n" + ind + "B0 = iota\n" + ind + "B1\n" + ind[1:] + ")"
	}
	mk := func(body []string) string {
		if k.Place == "func" {
			d := strings.TrimRight(decl.String(), "\n") + "\n\t)"
			pre := []string{d}
			if trailer != "" {
				pre = append(pre, trailer)
			}
			return mainOf("", append(pre, body...)) + fwd
		}
		t := ""
		if trailer != "" {
			t = trailer + "\n\n"
		}
		return mainOf(decl.String()+")\n\n"+t, body) + fwd
	}
	p := prog{Src: mk(body), PTypes: ptypes}
	if k.accepted() {
		p.Want = joinWant(want)
		if inexact {
			p.Neutral, p.NWant = mk(nbody), joinWant(nwant)
		}
	}
	return p, nil
}
