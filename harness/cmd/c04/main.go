// Check for property C04: values are copied or shared exactly as Go prescribes.
// GoMem.tla generates histories of operations over a pool of nested composite variables
// and predicts the whole pool after every step; each history is rendered as a straight-line
// Go program (render.go) whose output must equal, line by line, the canonical text of the
// model's states (model.go).  The programs run under the interpreter in child processes;
// every disagreement is first put to the Go toolchain (native build of the same program):
// native != model is a SPEC-ERROR, native == model a VIOLATION (or a listed known finding).
package main

import (
	"bytes"
	"encoding/json"
	"fmt"
	"hash/fnv"
	"os"
	"path/filepath"
	"regexp"
	"sort"
	"strings"
	"sync"
	"time"

	"github.com/traefik/yaegi/interp"
	"github.com/traefik/yaegi/stdlib"

	"verif/fw"
)

type obsStep struct {
	Ext []int             `json:"ext"`
	Mem []json.RawMessage `json:"mem"`
}

type beh struct {
	Init string            `json:"init"`
	Mem0 []json.RawMessage `json:"mem0"`
	Ops  []op              `json:"ops"`
	Obs  []obsStep         `json:"obs"`
}

// kase is one replayable case: a model behaviour and the scope variant it is rendered in.
type kase struct {
	B     beh    `json:"b"`
	Scope string `json:"scope"`
	Tier  string `json:"origin"` // which generator produced it (family / sim / witness)
}

func (k *kase) expected() ([]string, error) {
	st, err := decodeStore(k.B.Mem0)
	if err != nil {
		return nil, err
	}
	lines := []string{st.line(nil)}
	for _, o := range k.B.Obs {
		st, err := decodeStore(o.Mem)
		if err != nil {
			return nil, err
		}
		lines = append(lines, st.line(o.Ext))
	}
	return lines, nil
}

func (k *kase) src() string { return program([]*kase{k}) }

func (k *kase) key() string {
	h := fnv.New64a()
	b, _ := json.Marshal(k.B.Ops)
	h.Write(b)
	h.Write([]byte(k.B.Init + k.Scope))
	return fmt.Sprintf("%x", h.Sum64())
}

// chkClass names the model-level invariant clause an operation is checked by in TLC
// (GoMem.tla: chk.c), so that the evidence shows the invariants are not vacuous.
func chkClass(o op) string {
	val := o.X == "int" || o.X == "A" || o.X == "S" || o.X == "AS"
	switch o.K {
	case "AssignVar", "Deref":
		if val {
			return "CopyIndependence/copy"
		}
		return "ShareIdentity/share"
	case "ReturnComposite":
		return "CopyIndependence/copy"
	case "SetThroughPtr":
		if o.X == "S" {
			return "CopyIndependence/copy"
		}
	case "PassByValue":
		if o.X == "A" || o.X == "S" || o.X == "AS" {
			return "CopyIndependence/pass"
		}
	case "Box":
		return "CopyIndependence/hidden-copy"
	case "Capture":
		if o.X != "ref" {
			return "CopyIndependence/hidden-copy"
		}
	case "BindMV":
		if o.X == "sum" {
			return "CopyIndependence/hidden-copy"
		}
	case "RangeArray":
		return "CopyIndependence/range"
	}
	return ""
}

func opSig(o op) string {
	s := o.K
	if o.X != "" {
		s += "(" + o.X + ")"
	}
	if o.K == "RangeArray" && o.J == 1 {
		s += "(ptr)"
	}
	if (o.K == "Append" || o.K == "AppendLL" || o.K == "AppendSlice") && o.J == 1 {
		s += "(realloc)"
	}
	if o.K == "AppendN" {
		s += fmt.Sprintf("(%d values)", o.N)
	}
	if o.K == "Tuple" {
		var l, r []string
		for x := range o.Ds {
			l = append(l, o.Ds[x].shape())
			r = append(r, o.Ss[x].shape())
		}
		return s + " dst=" + strings.Join(l, ",") + " src=" + strings.Join(r, ",")
	}
	return s + " dst=" + o.D.shape() + " src=" + o.S.shape()
}

// ---------------------------------------------------------------------------
// child: run programs under the interpreter

type childJob struct {
	Srcs []string `json:"srcs"`
}
type progRes struct {
	Out string `json:"out"`
	Err string `json:"err,omitempty"`
}
type childRes struct {
	Res []progRes `json:"res"`
}

func init() {
	fw.RegisterChild("c04", func(job json.RawMessage) any {
		var j childJob
		if err := json.Unmarshal(job, &j); err != nil {
			return childRes{}
		}
		r := childRes{Res: make([]progRes, len(j.Srcs))}
		for i, s := range j.Srcs {
			r.Res[i] = runInterp(s)
		}
		return r
	})
}

func runInterp(src string) (r progRes) {
	var out, errb bytes.Buffer
	defer func() {
		if p := recover(); p != nil {
			r.Out = out.String()
			r.Err = fmt.Sprintf("panic out of Eval: %v", p)
		}
	}()
	i := interp.New(interp.Options{Stdout: &out, Stderr: &errb})
	if err := i.Use(stdlib.Symbols); err != nil {
		return progRes{Err: "use: " + err.Error()}
	}
	_, err := i.Eval(src)
	r.Out = out.String()
	if err != nil {
		r.Err = err.Error()
		if r.Err == "" {
			r.Err = "error"
		}
	}
	return r
}

// ---------------------------------------------------------------------------
// verdicts

type checker struct {
	c            *fw.Ctx
	mu           sync.Mutex
	seen         map[string]bool
	programs     int
	steps        int
	failing      int
	native       int
	nativeOK     int
	bySig        map[string]int
	unlisted     map[string]int
	kinds        map[string]int
	corroborated map[string]int
	invCases     map[string]int
}

var (
	rePos = regexp.MustCompile(`\b\d+:\d+:?`)
	reNum = regexp.MustCompile(`\b(0x[0-9a-f]+|\d+)\b`)
)

func errClass(e string) string {
	if i := strings.IndexByte(e, '\n'); i >= 0 {
		e = e[:i]
	}
	e = rePos.ReplaceAllString(e, "")
	e = reNum.ReplaceAllString(e, "N")
	e = strings.TrimSpace(e)
	if len(e) > 90 {
		e = e[:90]
	}
	return e
}

// firstDiff returns the index of the first line of got that differs from want (len(want) if none).
func firstDiff(want []string, out string) (int, string) {
	got := strings.Split(strings.TrimRight(out, "\n"), "\n")
	if out == "" {
		got = nil
	}
	for i := range want {
		if i >= len(got) {
			return i, "<no output>"
		}
		if got[i] != want[i] {
			return i, got[i]
		}
	}
	if len(got) > len(want) {
		return len(want), got[len(want)]
	}
	return len(want), ""
}

func splitLine(l string) (string, string) {
	if i := strings.Index(l, "] "); i >= 0 {
		return l[:i+1], l[i+2:]
	}
	return l, ""
}

// process runs the cases under the interpreter and decides each of them.
func (ck *checker) process(cases []*kase, par int, nativeEvery int) {
	c := ck.c
	type st struct {
		k     *kase
		src   string
		want  []string
		res   progRes
		crash string
		step  int          // first differing line (len(want): agrees)
		got   string       // the differing line
		attr  []*construct // listed constructs whose neutralising rewrite makes the history agree
	}
	var sts []*st
	for _, k := range cases {
		key := k.key()
		ck.mu.Lock()
		dup := ck.seen[key]
		ck.seen[key] = true
		ck.mu.Unlock()
		if dup {
			continue
		}
		want, err := k.expected()
		if err != nil {
			c.SpecError("behaviour not decodable: %v", err)
			continue
		}
		sts = append(sts, &st{k: k, src: k.src(), want: want})
	}
	if len(sts) == 0 {
		return
	}
	// phase 1: many histories per program (the helpers are compiled once per program)
	const chunk = 25
	runBatch := func(group [][]*st) {
		var jobs []any
		for _, g := range group {
			ks := make([]*kase, len(g))
			for i, s := range g {
				ks[i] = s.k
			}
			jobs = append(jobs, childJob{Srcs: []string{program(ks)}})
		}
		for ji, r := range c.RunChildren("c04", jobs, par, 120*time.Second, nil) {
			var cr childRes
			if r.Out != nil {
				json.Unmarshal(r.Out, &cr)
			}
			g := group[ji]
			if r.Out == nil || len(cr.Res) != 1 {
				for _, s := range g {
					s.crash = r.Describe()
				}
				continue
			}
			outs := splitOutput(cr.Res[0].Out, len(g))
			for i, s := range g {
				s.crash = ""
				s.res = progRes{Out: outs[i], Err: cr.Res[0].Err}
				if strings.Contains(outs[i], "\nPANIC ") || strings.HasPrefix(outs[i], "PANIC ") {
					lines := strings.Split(strings.TrimRight(outs[i], "\n"), "\n")
					s.res.Err = "run-time panic: " + strings.TrimPrefix(lines[len(lines)-1], "PANIC ")
					s.res.Out = strings.Join(lines[:len(lines)-1], "\n") + "\n"
					if len(lines) == 1 {
						s.res.Out = ""
					}
				}
			}
		}
	}
	var groups [][]*st
	for i := 0; i < len(sts); i += chunk {
		groups = append(groups, sts[i:min(i+chunk, len(sts))])
	}
	runBatch(groups)
	// phase 2: every history that did not come out right is run again alone; the verdict
	// is taken from that run
	var redo [][]*st
	for _, s := range sts {
		step, _ := firstDiff(s.want, s.res.Out)
		if step != len(s.want) || s.res.Err != "" || s.crash != "" {
			redo = append(redo, []*st{s})
		}
	}
	if len(redo) > 0 {
		runBatch(redo)
	}
	// compare
	var bad, natSample []*st
	for n, s := range sts {
		s.step, s.got = firstDiff(s.want, s.res.Out)
		ok := s.step == len(s.want) && s.res.Err == "" && s.crash == ""
		ck.mu.Lock()
		ck.programs++
		ck.steps += len(s.k.B.Ops)
		c.TracesVsImpl++
		for _, o := range s.k.B.Ops {
			ck.kinds[o.K]++
			if cl := chkClass(o); cl != "" {
				ck.invCases[cl]++
			}
		}
		ck.mu.Unlock()
		for x, o := range s.k.B.Ops {
			// a case = one (history prefix, operation): distinct by the model state it is applied in
			c.Count(fmt.Sprintf("%s/%d/%s", s.k.key(), x, opSig(o)), true)
		}
		if n%97 == 0 && len(s.k.B.Ops) >= 2 {
			c.Sample(map[string]any{"ops": s.k.B.Ops, "scope": s.k.Scope, "expected_last_line": s.want[len(s.want)-1]})
		}
		if !ok {
			bad = append(bad, s)
		} else if nativeEvery > 0 && (n+int(c.Seed))%nativeEvery == 0 {
			natSample = append(natSample, s)
		}
	}
	// attribution to construct-shaped findings (DESIGN 2.4, neutralising rewrite): a deviating
	// history that contains such a construct before the first differing step is rendered again
	// with the construct rewritten through a temporary (a rewrite that preserves the model's
	// prediction); if the interpreter then agrees with the model on the whole history, the
	// deviation is attributed to the construct(s) that had to be rewritten
	type attempt struct {
		s   *st
		set []*construct
	}
	var atts []attempt
	for _, s := range bad {
		if s.crash != "" {
			continue
		}
		var present []*construct
		for ci := range constructs {
			for _, o := range s.k.B.Ops {
				if constructs[ci].match(o) {
					present = append(present, &constructs[ci])
					break
				}
			}
		}
		// every non-empty subset, smallest first (the first agreeing one is taken)
		for size := 1; size <= len(present); size++ {
			for mask := 1; mask < 1<<len(present); mask++ {
				var set []*construct
				for b, p := range present {
					if mask&(1<<b) != 0 {
						set = append(set, p)
					}
				}
				if len(set) == size {
					atts = append(atts, attempt{s, set})
				}
			}
		}
	}
	if len(atts) > 0 {
		var jobs []any
		for _, a := range atts {
			k2 := *a.s.k
			k2.B.Ops = append([]op{}, k2.B.Ops...)
			for x := range k2.B.Ops {
				for _, p := range a.set {
					if p.match(k2.B.Ops[x]) {
						k2.B.Ops[x].Rw = true
					}
				}
			}
			jobs = append(jobs, childJob{Srcs: []string{program([]*kase{&k2})}})
		}
		for ai, r := range c.RunChildren("c04", jobs, par, 60*time.Second, nil) {
			var cr childRes
			if r.Out != nil {
				json.Unmarshal(r.Out, &cr)
			}
			a := atts[ai]
			if a.s.attr != nil || len(cr.Res) != 1 || cr.Res[0].Err != "" {
				continue
			}
			out := splitOutput(cr.Res[0].Out, 1)[0]
			if step, _ := firstDiff(a.s.want, out); step == len(a.s.want) && !strings.Contains(out, "PANIC") {
				a.s.attr = a.set
			}
		}
	}
	// native reference: every disagreement alone (the first three per signature: one replay is
	// recorded per signature, further histories with the same signature only add to the counts),
	// the agreeing sample many per program
	var natBad []*st
	for _, s := range bad {
		need := false
		if s.attr == nil {
			trigger, mode := signature(s.k, s.want, s.res, s.crash, s.step, s.got)
			ck.mu.Lock()
			if ck.corroborated[trigger+" / "+mode] < 3 {
				ck.corroborated[trigger+" / "+mode]++
				need = true
			}
			ck.mu.Unlock()
		}
		for _, p := range s.attr {
			ck.mu.Lock()
			if !c.IsKnown(p.trigger, constructMode) || ck.corroborated[p.id] < 3 {
				ck.corroborated[p.id]++
				need = true
			}
			ck.mu.Unlock()
		}
		if need {
			natBad = append(natBad, s)
		} else {
			ck.verdict(s.k, s.want, s.res, s.crash, s.step, s.got, s.attr, false)
		}
	}
	bad = natBad
	srcs := make([]string, 0, len(bad)+len(natSample)/chunk+1)
	for _, s := range bad {
		srcs = append(srcs, s.src)
	}
	var natGroups [][]*st
	for i := 0; i < len(natSample); i += chunk {
		g := natSample[i:min(i+chunk, len(natSample))]
		natGroups = append(natGroups, g)
		ks := make([]*kase, len(g))
		for x, s := range g {
			ks[x] = s.k
		}
		srcs = append(srcs, program(ks))
	}
	if len(srcs) == 0 {
		return
	}
	nres := c.NativeBatch(srcs, 60*time.Second)
	nativeAgrees := func(s *st, n fw.NativeResult, out string) bool {
		ck.mu.Lock()
		ck.native++
		ck.mu.Unlock()
		rep := map[string]any{"b": s.k.B, "scope": s.k.Scope, "origin": s.k.Tier, "program": s.src, "expected": s.want}
		if !n.BuildOK {
			c.SpecError("the toolchain rejects the program generated for %s: %s", opsText(s.k.B.Ops), lastLines(n.BuildErr, 3))
			dumpFailure(c, "spec", rep)
			return false
		}
		nstep, ngot := firstDiff(s.want, out)
		if nstep != len(s.want) || n.Exit != 0 {
			what := "-"
			if nstep > 0 && nstep <= len(s.k.B.Ops) {
				what = opSig(s.k.B.Ops[nstep-1])
			}
			c.SpecError("specification and compiled Go disagree at step %d (%s) of %s [%s]:\n  model  %s\n  native %s %s", nstep, what, opsText(s.k.B.Ops), s.k.Scope,
				lineOr(s.want, nstep), ngot, firstLine(n.Stderr))
			dumpFailure(c, "spec", rep)
			return false
		}
		ck.mu.Lock()
		ck.nativeOK++
		ck.mu.Unlock()
		return true
	}
	for gi, g := range natGroups {
		n := nres[len(bad)+gi]
		outs := splitOutput(n.Stdout, len(g))
		for x, s := range g {
			nativeAgrees(s, n, outs[x])
		}
	}
	for i, s := range bad {
		n := nres[i]
		if !nativeAgrees(s, n, splitOutput(n.Stdout, 1)[0]) {
			continue
		}
		ck.verdict(s.k, s.want, s.res, s.crash, s.step, s.got, s.attr, true)
	}
}

const constructMode = "the history deviates from the construct on and agrees with the model once the construct is rewritten through a temporary"

// construct is the trigger of a construct-shaped known finding together with its
// neutralising rewrite (applied by stmt when op.Rw is set).
type construct struct {
	id      string
	trigger string
	match   func(op) bool
}

var constructs = []construct{
	{"F-C04-1", "SetLit(S): struct composite literal assigned to a variable of struct type",
		func(o op) bool { return o.K == "SetLit" && o.X == "S" && len(o.D.Sel) == 0 }},
	{"F-C04-2", "Box(S): value of a struct type with methods stored in an interface{}",
		func(o op) bool { return o.K == "Box" && o.X == "S" }},
	{"F-C04-3", "BindMV: method value whose receiver operand is addressable (value receiver), or reached through a pointer (pointer receiver)",
		func(o op) bool {
			if o.K != "BindMV" {
				return false
			}
			if o.X == "sum" {
				return o.S.R != "ms"
			}
			for _, n := range o.S.Sel {
				if n == 0 {
					return true
				}
			}
			return false
		}},
}

// signature computes (trigger, mode) of a deviating history from the operation at the first
// differing step and from what differs there.
func signature(k *kase, want []string, res progRes, crash string, step int, got string) (string, string) {
	trigger := "prologue(" + k.B.Init + ")"
	if step >= 1 && step <= len(k.B.Ops) {
		trigger = opSig(k.B.Ops[step-1])
	}
	trigger += " [" + k.Scope + "]"
	mode := ""
	switch {
	case crash != "":
		mode = "harness child " + crash
		if len(mode) > 60 {
			mode = mode[:60]
		}
	case step < len(want) && got != "<no output>":
		we, wp := splitLine(want[step])
		ge, gp := splitLine(got)
		switch {
		case we != ge && wp == gp:
			mode = "reported value differs"
		case we == ge:
			mode = "pool state differs"
		default:
			mode = "reported value and pool state differ"
		}
	case res.Err != "":
		mode = "error: " + errClass(res.Err)
	default:
		mode = "output stops"
	}
	return trigger, mode
}

// verdict records one deviating history.
func (ck *checker) verdict(k *kase, want []string, res progRes, crash string, step int, got string, attr []*construct, corroborated bool) {
	c := ck.c
	rep := map[string]any{"b": k.B, "scope": k.Scope, "origin": k.Tier, "program": k.src(), "expected": want}
	if corroborated {
		c.DisagreeChk++
		rep["native_agrees_with_model"] = true
	}
	rep["observed_out"] = res.Out
	rep["observed_err"] = res.Err
	rep["first_differing_step"] = step
	rep["observed_line"] = got
	rep["expected_line"] = lineOr(want, step)
	ck.mu.Lock()
	ck.failing++
	ck.mu.Unlock()
	if attr != nil {
		for _, p := range attr {
			ck.mu.Lock()
			ck.bySig[p.trigger+" / "+constructMode]++
			ck.mu.Unlock()
			rep["attributed_to"] = p.id
			if !c.Fail(p.trigger, constructMode, rep) {
				ck.mu.Lock()
				ck.unlisted[p.trigger+" / "+constructMode]++
				ck.mu.Unlock()
			}
		}
		return
	}
	trigger, mode := signature(k, want, res, crash, step, got)
	ck.mu.Lock()
	ck.bySig[trigger+" / "+mode]++
	ck.mu.Unlock()
	if !c.Fail(trigger, mode, rep) {
		ck.mu.Lock()
		ck.unlisted[trigger+" / "+mode]++
		ck.mu.Unlock()
	}
}

func dumpFailure(c *fw.Ctx, kind string, rep map[string]any) {
	if d := os.Getenv("VERIF_C04_DUMPDIR"); d != "" {
		os.MkdirAll(d, 0o755)
		b, _ := json.MarshalIndent(rep, "", " ")
		h := fnv.New32a()
		h.Write(b)
		os.WriteFile(filepath.Join(d, fmt.Sprintf("%s-%x.json", kind, h.Sum32())), b, 0o644)
	}
}

func lineOr(l []string, i int) string {
	if i >= 0 && i < len(l) {
		return l[i]
	}
	return "<end>"
}

func opsText(ops []op) string {
	var s []string
	for _, o := range ops {
		s = append(s, strings.TrimSpace(strings.ReplaceAll(strings.ReplaceAll(stmt(o), "\n", " "), "\t", "")))
	}
	return strings.Join(s, " ;; ")
}

func firstLine(s string) string {
	if i := strings.IndexByte(s, '\n'); i >= 0 {
		s = s[:i]
	}
	if len(s) > 160 {
		s = s[:160]
	}
	return s
}

func lastLines(s string, n int) string {
	l := strings.Split(strings.TrimSpace(s), "\n")
	if len(l) > n {
		l = l[len(l)-n:]
	}
	return strings.Join(l, " ; ")
}

// ---------------------------------------------------------------------------
// generation

var allKinds = []string{"AssignVar", "Deref", "SetLit", "SetField", "SetElem", "SetThroughPtr", "SetMapEntry", "MapDelete", "MapLookup",
	"Append", "AppendLL", "AppendSlice", "DeleteIdx", "Copy", "Slice2", "Slice3", "Make", "AddrOf", "Swap",
	"IdxAssign", "RebindAssign", "PassByValue", "ReturnComposite", "RangeArray", "RangeSlice", "Capture",
	"CallFunc", "Box", "Unbox", "BindMV"}

// kinds added later: they are enabled in their own families and in the simulation only, so that
// the edge sets of the older families stay what they were
var newKinds = []string{"AppendN", "Tuple", "MapTuple", "LoopDefine", "SetLitSelf"}

// heldBack: operation kinds (and their families) whose first runs showed defects of the interpreter
// that are being repaired in /repo; they join the tiers when the repair has landed
// (RecvAssign: x = <-ch replaces the storage of x; AppendAl: append(s[:1], s[2], s[1]) reads s[1] late).
var heldBack = map[string]bool{}

type family struct {
	name      string
	roots     []string
	kinds     []string // nil: all
	init      string
	steps     int
	maxSel    int
	maxIdx    int
	copyTypes []string
	excl      []string
	native    int // 1 in `native` agreeing histories is also built natively (0: tier default)
}

func without(xs []string, drop ...string) []string {
	var r []string
outer:
	for _, x := range xs {
		for _, d := range drop {
			if x == d {
				continue outer
			}
		}
		r = append(r, x)
	}
	return r
}

func tlaSet(xs []string) string {
	q := make([]string, len(xs))
	for i, x := range xs {
		q[i] = fmt.Sprintf("%q", x)
	}
	return "{" + strings.Join(q, ", ") + "}"
}

const modelInvs = "TypeOK WellFormed CopyIndependence ShareIdentity Emit"

func (f family) cfg(sim bool) []byte {
	kinds := f.kinds
	if kinds == nil {
		kinds = allKinds
	}
	spec, emitAt := "Spec", 0
	if sim {
		spec, emitAt = "SpecSim", f.steps
	}
	return []byte(fmt.Sprintf("SPECIFICATION %s\nCONSTANTS MaxSteps = %d InitKind = %q MaxSel = %d MaxIdx = %d EmitAt = %d\n  Roots = %s\n  Kinds = %s\n  CopyTypes = %s\n  Excl = %s\nVIEW View\nINVARIANTS %s\n",
		spec, f.steps, f.init, f.maxSel, f.maxIdx, emitAt, tlaSet(f.roots), tlaSet(kinds), tlaSet(f.copyTypes), tlaSet(f.excl), modelInvs))
}

func main() {
	fw.Main("C04", "model_checking", run)
}

func newChecker(c *fw.Ctx) *checker {
	return &checker{c: c, seen: map[string]bool{}, bySig: map[string]int{}, unlisted: map[string]int{}, kinds: map[string]int{}, corroborated: map[string]int{}, invCases: map[string]int{}}
}

func run(c *fw.Ctx) error {
	c.Rule = "a case is one (history prefix, operation) of a history generated by GoMem.tla: exhaustive = every distinct (store, operation) edge reachable within the step bound of each sub-pool family, on one shortest history; seeded = random histories of 25 operations over the whole pool (kind drawn first, then the instance); every case is non-trivial (an operation applied in a populated, aliased pool, the whole pool compared afterwards); distinct by (history, scope variant, step, operation kind x operand type shapes)"
	c.Assumptions = []string{
		"the Go toolchain (native build of the same generated program) validates the specification: on every disagreement, and on a sample of agreeing programs in the thorough tier",
		"a reallocating append is rendered append(x, v)[:n:n] (capacity after reallocation is implementation-defined); in-place appends are rendered plainly and their capacity is predicted exactly",
		"operations that would panic (nil dereference, index out of range, write to a nil map) are not generated",
		"each program is rendered in one of two scope variants (pool as locals of main captured by the printing closures / pool as package-level variables); the model is the same",
		"pointer and slice identity is observed as equality with a fixed list of candidate locations of the pool (printed as &a[0], @s.A[1], al=..); map identity only through later writes",
	}
	ck := newChecker(c)
	if c.Replay != "" {
		var k kase
		if err := c.LoadReplay(&k); err != nil {
			return err
		}
		ck.process([]*kase{&k}, 1, 0)
		return nil
	}
	if err := ck.witnesses(); err != nil {
		return err
	}
	return ck.generate()
}

// witnesses replays the pinned witness of every listed C04 finding.
func (ck *checker) witnesses() error {
	ms, _ := filepath.Glob(filepath.Join(ck.c.Root, "replays", "witness", "C04-*.json"))
	sort.Strings(ms)
	var ks []*kase
	for _, p := range ms {
		b, err := os.ReadFile(p)
		if err != nil {
			return err
		}
		var w struct {
			Case kase `json:"case"`
		}
		if err := json.Unmarshal(b, &w); err != nil {
			return fmt.Errorf("%s: %v", p, err)
		}
		k := w.Case
		k.Tier = "witness"
		ks = append(ks, &k)
	}
	if len(ks) > 0 {
		ck.process(ks, 8, 0)
	}
	ck.c.Extra["witnesses_replayed"] = len(ks)
	return nil
}

type tlcJob struct {
	fam  family
	sim  bool
	num  int
	seed int64
}

var fullPool = []string{"a", "b", "s", "t", "l", "k", "ll", "as", "ms", "m", "p", "q", "ps", "i", "j", "f1", "f2", "e"}

// families are the sub-pools of the exhaustive tier: every operation kind is enabled in
// each of them, restricted to the places that can be written with the family's roots.
func families(quick bool) []family {
	ct := []string{"A", "S", "L", "AS", "PI", "F", "M"}
	bindKinds := []string{"BindMV", "CallFunc", "Capture", "SetField", "SetElem", "SetThroughPtr", "SetLit", "AssignVar", "AddrOf", "Box", "Unbox", "Append"}
	fs := []family{
		{name: "values", roots: []string{"a", "s", "e"}, init: "rich", steps: 2, maxSel: 1, maxIdx: 1, copyTypes: ct},
		{name: "nested", roots: []string{"as", "s"}, init: "rich", steps: 2, maxSel: 1, maxIdx: 1, copyTypes: ct},
		{name: "slices", roots: []string{"l", "k", "a"}, init: "rich", steps: 2, maxSel: 1, maxIdx: 1, copyTypes: ct},
		{name: "maps", roots: []string{"ms", "m", "s"}, init: "rich", steps: 2, maxSel: 1, maxIdx: 1, copyTypes: ct},
		{name: "pointers", roots: []string{"p", "ps", "s"}, init: "rich", steps: 2, maxSel: 1, maxIdx: 1, copyTypes: ct},
		{name: "funcs", roots: []string{"f1", "s", "ps", "e"}, kinds: bindKinds, init: "rich", steps: 3, maxSel: 1, maxIdx: 1, copyTypes: []string{"S", "F"}},
		{name: "zero", roots: []string{"s", "l", "m", "p", "e", "f1"}, init: "zero", steps: 2, maxSel: 1, maxIdx: 1, copyTypes: ct},
		// tuple assignments through aliases: every instance in the populated pool (1 step)
		{name: "tuple", roots: []string{"a", "s", "l", "k", "ll", "as", "m", "ms", "p", "ps", "i"}, kinds: []string{"Tuple", "MapTuple"}, init: "rich", steps: 1, maxSel: 2, maxIdx: 3, copyTypes: ct},
		// multi-value appends (capacity by the runtime's growth rule), then appends from the same base / element updates
		{name: "append", roots: []string{"l", "k", "ll"}, kinds: []string{"AppendN", "SetElem"}, init: "rich", steps: 2, maxSel: 1, maxIdx: 2, copyTypes: ct, native: 40},
		{name: "append0", roots: []string{"l", "k", "ll"}, kinds: []string{"AppendN", "SetElem", "Slice2"}, init: "zero", steps: 2, maxSel: 1, maxIdx: 2, copyTypes: ct, native: 40},
		// a variable defined by := in a loop body is a new variable at every iteration: slices of it kept across iterations
		{name: "loopdef", roots: []string{"a", "s", "as", "ll", "ps"}, kinds: []string{"LoopDefine", "SetElem", "SetField"}, init: "rich", steps: 2, maxSel: 2, maxIdx: 2, copyTypes: ct, native: 20},
		// a composite literal whose elements read the variable it is assigned to
		{name: "litself", roots: []string{"a", "s", "as", "p", "ps", "l"}, kinds: []string{"SetLitSelf", "SetElem", "SetField"}, init: "rich", steps: 2, maxSel: 2, maxIdx: 2, copyTypes: ct, native: 20},
		// a received value is stored INTO the variable (pointers and closures taken before keep referring to it)
		{name: "recv", roots: []string{"a", "b", "s", "p", "ps", "f1"}, kinds: []string{"RecvAssign", "Capture", "CallFunc", "SetThroughPtr"}, init: "rich", steps: 2, maxSel: 1, maxIdx: 1, copyTypes: ct, native: 40},
		// append whose element operands name elements of the slice it appends to
		{name: "appendal", roots: []string{"l", "k", "s"}, kinds: []string{"AppendAl", "SetElem"}, init: "rich", steps: 2, maxSel: 2, maxIdx: 3, copyTypes: ct, native: 20},
	}
	if !quick {
		fs = []family{
			{name: "values", roots: []string{"a", "b", "s", "e"}, init: "rich", steps: 2, maxSel: 2, maxIdx: 1, copyTypes: ct},
			{name: "nested", roots: []string{"as", "i"}, init: "rich", steps: 2, maxSel: 2, maxIdx: 1, copyTypes: ct},
			{name: "slices", roots: []string{"l", "k", "ll"}, kinds: without(allKinds, "Slice3"), init: "rich", steps: 2, maxSel: 1, maxIdx: 1, copyTypes: ct},
			{name: "slices2", roots: []string{"l", "a", "s", "i"}, init: "rich", steps: 2, maxSel: 2, maxIdx: 1, copyTypes: ct},
			{name: "maps", roots: []string{"ms", "m", "s", "i"}, init: "rich", steps: 2, maxSel: 2, maxIdx: 2, copyTypes: ct},
			{name: "pointers", roots: []string{"p", "q", "ps", "s", "i"}, init: "rich", steps: 2, maxSel: 2, maxIdx: 1, copyTypes: ct},
			{name: "funcs", roots: []string{"f1", "s", "as", "ps", "ms", "e"}, kinds: bindKinds, init: "rich", steps: 3, maxSel: 1, maxIdx: 1, copyTypes: []string{"S", "F"}},
			{name: "funcs2", roots: []string{"f1", "f2", "e", "a", "s", "i"}, init: "rich", steps: 2, maxSel: 1, maxIdx: 1, copyTypes: ct},
			{name: "zero", roots: []string{"a", "s", "l", "ll", "ms", "m", "p", "ps", "i", "f1", "e"}, init: "zero", steps: 2, maxSel: 1, maxIdx: 1, copyTypes: ct},
			{name: "tuple", roots: []string{"a", "s", "l", "k", "ll", "as", "m", "ms", "p", "ps", "i"}, kinds: []string{"Tuple", "MapTuple"}, init: "rich", steps: 1, maxSel: 3, maxIdx: 3, copyTypes: ct},
			{name: "tuple2", roots: []string{"a", "s", "l", "k", "m", "p", "q", "ps", "i"}, kinds: []string{"Tuple", "MapTuple", "AddrOf", "Slice2", "SetMapEntry"}, init: "rich", steps: 2, maxSel: 1, maxIdx: 3, copyTypes: ct},
			{name: "append", roots: []string{"l", "k", "ll"}, kinds: []string{"AppendN", "SetElem", "Slice2"}, init: "rich", steps: 2, maxSel: 1, maxIdx: 2, copyTypes: ct, native: 20},
			{name: "append0", roots: []string{"l", "k", "ll"}, kinds: []string{"AppendN", "SetElem", "Slice2"}, init: "zero", steps: 3, maxSel: 1, maxIdx: 2, copyTypes: ct, native: 20},
			{name: "loopdef", roots: []string{"a", "b", "s", "as", "ll", "ps", "ms"}, kinds: []string{"LoopDefine", "SetElem", "SetField", "AssignVar"}, init: "rich", steps: 2, maxSel: 2, maxIdx: 2, copyTypes: ct, native: 10},
			{name: "litself", roots: []string{"a", "b", "s", "as", "p", "ps", "l", "ms"}, kinds: []string{"SetLitSelf", "SetElem", "SetField", "AddrOf", "Slice2"}, init: "rich", steps: 2, maxSel: 2, maxIdx: 2, copyTypes: ct, native: 10},
			{name: "recv", roots: []string{"a", "b", "s", "t", "l", "p", "ps", "f1"}, kinds: []string{"RecvAssign", "AddrOf", "Capture", "CallFunc", "SetThroughPtr"}, init: "rich", steps: 3, maxSel: 1, maxIdx: 1, copyTypes: ct, native: 40},
			{name: "appendal", roots: []string{"l", "k", "s", "ll"}, kinds: []string{"AppendAl", "SetElem", "Slice2"}, init: "rich", steps: 2, maxSel: 2, maxIdx: 3, copyTypes: ct, native: 10},
		}
	}
	return fs
}

func (ck *checker) generate() error {
	c := ck.c
	var jobs []tlcJob
	if len(heldBack) == 0 {
		newKinds = append(newKinds, "RecvAssign", "AppendAl")
	}
	only := os.Getenv("VERIF_C04_ONLY") // development aid: name of one family, or "sim"
	simJVMs, simNum := c.Pick(4, 16), c.Pick(50, 320)
	bfsWorkers := c.Pick(2, 2)
	simFam := family{name: "sim", roots: fullPool, init: "rich", steps: 25, maxSel: 3, maxIdx: 3, copyTypes: []string{"int", "A", "S", "L", "AS", "PI", "F", "M", "MS"},
		kinds: append(append([]string{}, allKinds...), newKinds...),
		excl:  []string{}} // F-C04-1, F-C04-2 and F-C04-3 are repaired: their constructs are back in the random tier
	if only == "" || only == "sim" {
		for j := 0; j < simJVMs; j++ {
			f := simFam
			if j%4 == 3 {
				f.init = "zero"
			}
			jobs = append(jobs, tlcJob{fam: f, sim: true, num: simNum, seed: c.Seed*1000 + int64(j)})
		}
	}
	// (the simulations are queued first: they are single-threaded and the longest jobs)
	for _, f := range families(c.Quick()) {
		if (only == "" && !heldBack[f.name]) || only == f.name {
			jobs = append(jobs, tlcJob{fam: f})
		}
	}
	coverage := os.Getenv("VERIF_C04_COVERAGE") != ""
	nativeEvery := 0
	if !c.Quick() {
		nativeEvery = 40
	}
	if v := os.Getenv("VERIF_C04_NATIVE_EVERY"); v != "" { // development aid
		fmt.Sscan(v, &nativeEvery)
	}
	// pipeline: TLC jobs on a few lanes, emitted behaviours are handed in batches to
	// processing workers (interpreter children) while TLC keeps running
	type batch struct {
		ks     []*kase
		native int
	}
	batches := make(chan batch, 64)
	var pw sync.WaitGroup
	const procWorkers = 4
	for w := 0; w < procWorkers; w++ {
		pw.Add(1)
		go func() {
			defer pw.Done()
			for b := range batches {
				ne := nativeEvery
				if b.native > 0 && (ne == 0 || b.native < ne) {
					ne = b.native
				}
				ck.process(b.ks, 16/procWorkers, ne)
			}
		}()
	}
	jobCh := make(chan tlcJob)
	errs := make(chan error, len(jobs)+1)
	var tw sync.WaitGroup
	var mu sync.Mutex
	var tlcCPU time.Duration
	emitted := map[string]int{}
	// at most 8 JVM worker threads at once: 2 lanes of BFS jobs (2 workers each) and 4 lanes of
	// simulations (1 worker each)
	simCh := make(chan tlcJob)
	const bfsLanes, simLanes = 2, 4
	for l := 0; l < bfsLanes+simLanes; l++ {
		tw.Add(1)
		ch := jobCh
		if l >= bfsLanes {
			ch = simCh
		}
		go func() {
			defer tw.Done()
			for j := range ch {
				var buf []*kase
				n := 0
				var perr error
				flush := func() {
					if len(buf) > 0 {
						batches <- batch{buf, j.fam.native}
						buf = nil
					}
				}
				on := func(r json.RawMessage) {
					var b beh
					if err := json.Unmarshal(r, &b); err != nil {
						perr = err
						return
					}
					if len(b.Ops) != j.fam.steps {
						return // a prefix: it is replayed as part of the histories that extend it
					}
					n++
					if os.Getenv("VERIF_C04_TLCONLY") != "" { // development aid: count only
						return
					}
					scopes := []string{"local", "global"}
					{ // one scope variant per history, chosen by a hash of the history
						h := fnv.New32a()
						x, _ := json.Marshal(b.Ops)
						h.Write(x)
						scopes = scopes[h.Sum32()%2:][:1]
					}
					for _, sc := range scopes {
						buf = append(buf, &kase{B: b, Scope: sc, Tier: j.fam.name})
					}
					if len(buf) >= 320 {
						flush()
					}
				}
				name := fmt.Sprintf("gen.%s.cfg", j.fam.name)
				o := fw.TLCOpts{Dir: "spec/core", Module: "GoMem", Cfg: name, Files: map[string][]byte{name: j.fam.cfg(j.sim)},
					Simulate: j.sim, Num: j.num, Depth: j.fam.steps + 2, Seed: j.seed, Workers: bfsWorkers, OnBeh: on, Timeout: 20 * time.Minute, HeapMB: 3000, Coverage: coverage && !j.sim}
				if j.sim {
					o.Workers = 1
				}
				res, err := c.TLC(o)
				flush()
				if err != nil {
					errs <- fmt.Errorf("%s: %v", j.fam.name, err)
					continue
				}
				if res.Violated != "" {
					errs <- fmt.Errorf("%s: model-level property violated: %s\n%s", j.fam.name, res.Violated, tail(res.Output, 3000))
					continue
				}
				if perr != nil {
					errs <- fmt.Errorf("%s: behaviour not parsed: %v", j.fam.name, perr)
					continue
				}
				mu.Lock()
				tlcCPU += res.Wall
				emitted[j.fam.name] += n
				if j.sim {
					c.States += int64(n * j.fam.steps)
					c.Transitions += int64(n * j.fam.steps)
				}
				if coverage && !j.sim {
					c.Extra["tlc_coverage_"+j.fam.name] = res.Cover
				}
				mu.Unlock()
				fmt.Printf("C04: %-9s %6d histories (%d states, %.1fs TLC)\n", j.fam.name, n, res.Distinct, res.Wall.Seconds())
			}
		}()
	}
	var fw2 sync.WaitGroup
	fw2.Add(1)
	go func() {
		defer fw2.Done()
		for _, j := range jobs {
			if j.sim {
				simCh <- j
			}
		}
		close(simCh)
	}()
	for _, j := range jobs {
		if !j.sim {
			jobCh <- j
		}
	}
	close(jobCh)
	fw2.Wait()
	tw.Wait()
	close(batches)
	pw.Wait()
	close(errs)
	for err := range errs {
		return err
	}
	c.Exhaustive = false
	c.Extra["exhaustive_parts"] = "every (store, operation) edge within 2 steps of the initial pool, per sub-pool family (values, slices, maps, pointers, funcs from the populated pool; zero from the all-zero pool)"
	c.Extra["histories_emitted"] = emitted
	c.Extra["programs_run"] = ck.programs
	c.Extra["steps_compared"] = ck.steps
	c.Extra["programs_deviating"] = ck.failing
	c.Extra["native_reference_programs"] = ck.native
	c.Extra["native_reference_agreeing_with_model"] = ck.nativeOK
	c.Extra["operations_by_kind"] = ck.kinds
	c.Extra["model_invariant_cases"] = ck.invCases
	c.Extra["deviations_by_signature"] = ck.bySig
	c.Extra["tlc_wall_s_sum"] = tlcCPU.Seconds()
	fmt.Printf("C04: %d programs (%d steps) run, %d deviating (%d unlisted signatures), %d native reference programs (%d agree with the model), TLC %.1fs (sum over JVMs)\n",
		ck.programs, ck.steps, ck.failing, len(ck.unlisted), ck.native, ck.nativeOK, tlcCPU.Seconds())
	var ks []string
	for k, n := range ck.unlisted {
		ks = append(ks, fmt.Sprintf("%6d  %s", n, k))
	}
	sort.Strings(ks)
	for i, k := range ks {
		if i >= 60 {
			break
		}
		fmt.Println("UNLISTED", k)
	}
	return nil
}

func tail(s string, n int) string {
	if len(s) > n {
		return s[len(s)-n:]
	}
	return s
}
