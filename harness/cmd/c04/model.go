package main

// Model side of the C04 harness: the static type table of the pool (the same table as
// GoMem.tla: Vars, VType, Comp), rendering of place expressions as Go source, a typed
// reader of the model's store (the JSON form of GoMem's mem) and the canonical text of a
// store -- the line the generated program's dump() must print for that store.

import (
	"encoding/json"
	"fmt"
	"strings"
)

var varNames = []string{"a", "b", "s", "t", "l", "k", "ll", "as", "ms", "m", "p", "q", "ps", "i", "j", "f1", "f2", "e"}

var varType = map[string]string{"a": "A", "b": "A", "s": "S", "t": "S", "l": "L", "k": "L", "ll": "LL", "as": "AS",
	"ms": "MS", "m": "M", "p": "PI", "q": "PI", "ps": "PS", "i": "int", "j": "int", "f1": "F", "f2": "F", "e": "E"}

var goType = map[string]string{"int": "int", "A": "[2]int", "S": "S", "L": "[]int", "LL": "[][]int", "AS": "[2]S",
	"MS": "map[string]S", "M": "map[string]int", "PI": "*int", "PS": "*S", "F": "func() int", "E": "interface{}"}

var fieldNames = []string{"N", "A", "L", "M", "P"}
var fieldTypes = []string{"int", "A", "L", "M", "PI"}
var keyNames = []string{"x", "y"}

func varID(r string) int {
	for i, n := range varNames {
		if n == r {
			return i + 1
		}
	}
	return 0
}

// comp mirrors Comp(T, n) of the specification.
func comp(T string, n int) string {
	switch T {
	case "A":
		if n == 1 || n == 2 {
			return "int"
		}
	case "S":
		if n >= 1 && n <= 5 {
			return fieldTypes[n-1]
		}
	case "AS":
		if n == 1 || n == 2 {
			return "S"
		}
	case "L", "arrI":
		if n >= 1 {
			return "int"
		}
	case "LL", "arrL":
		if n >= 1 {
			return "L"
		}
	case "MS":
		if n == 1 || n == 2 {
			return "S"
		}
	case "M":
		if n == 1 || n == 2 {
			return "int"
		}
	case "PI":
		if n == 0 {
			return "int"
		}
	case "PS":
		if n == 0 {
			return "S"
		}
	}
	return "none"
}

type place struct {
	R   string `json:"r"`
	Sel []int  `json:"sel"`
}

func (p place) typ() string {
	T := varType[p.R]
	for _, n := range p.Sel {
		T = comp(T, n)
	}
	return T
}

func (p place) sub(sel ...int) place {
	return place{R: p.R, Sel: append(append([]int{}, p.Sel...), sel...)}
}

// expr renders the place as a Go expression (as[0].A[1], ps.L[0], *s.P, ms["x"].N).
func (p place) expr() string { return p.exprT(varType[p.R]) }

// exprT renders the selectors on a root expression of type T.
func (p place) exprT(T string) string {
	e := p.R
	for x, n := range p.Sel {
		switch T {
		case "A", "AS", "L", "LL":
			e += fmt.Sprintf("[%d]", n-1)
		case "S":
			e += "." + fieldNames[n-1]
		case "M", "MS":
			e += fmt.Sprintf("[%q]", keyNames[n-1])
		case "PI", "PS":
			if x == len(p.Sel)-1 {
				e = "*" + e
			} // else: the following field selector dereferences implicitly
		}
		T = comp(T, n)
	}
	return e
}

// sel renders  <place>.<name>  (method or field selected on the place).
func (p place) dot(name string) string {
	if n := len(p.Sel); n > 0 && p.Sel[n-1] == 0 {
		return place{R: p.R, Sel: p.Sel[:n-1]}.expr() + "." + name
	}
	return p.expr() + "." + name
}

// shape is the operand type shape used in failure signatures: the root's type followed
// by the selector classes (names and indices abstracted away).
func (p place) shape() string {
	if p.R == "" {
		return "-"
	}
	T := varType[p.R]
	e := T
	for _, n := range p.Sel {
		switch T {
		case "A", "AS":
			e += "[i]"
		case "L", "LL":
			e += "[si]"
		case "S":
			e += "." + fieldNames[n-1]
		case "M", "MS":
			e += "[key]"
		case "PI", "PS":
			e += "*"
		}
		T = comp(T, n)
	}
	return e
}

// ---------------------------------------------------------------------------
// the store

type store []any // object id-1 -> value (json decoded: float64, []any, map[string]any)

func decodeStore(raw []json.RawMessage) (store, error) {
	st := make(store, len(raw))
	for i, r := range raw {
		if err := json.Unmarshal(r, &st[i]); err != nil {
			return nil, err
		}
	}
	return st, nil
}

func num(v any) int {
	f, _ := v.(float64)
	return int(f)
}
func seq(v any) []any {
	s, _ := v.([]any)
	return s
}
func rec(v any) map[string]any {
	m, _ := v.(map[string]any)
	return m
}
func ipath(v any) []int {
	var r []int
	for _, x := range seq(v) {
		r = append(r, num(x))
	}
	return r
}

func getPath(v any, path []int) any {
	for _, n := range path {
		s := seq(v)
		if n < 1 || n > len(s) {
			return nil
		}
		v = s[n-1]
	}
	return v
}

type loc struct {
	obj  int
	path string
}

func mkLoc(obj int, path []int) loc { return loc{obj, fmt.Sprint(path)} }

func (st store) read(obj int, path []int) any {
	if obj < 1 || obj > len(st) {
		return nil
	}
	return getPath(st[obj-1], path)
}

type slice struct {
	obj, off, len, cap int
	path               []int
}

func asSlice(v any) slice {
	m := rec(v)
	return slice{obj: num(m["obj"]), off: num(m["off"]), len: num(m["len"]), cap: num(m["cap"]), path: ipath(m["path"])}
}

func (st store) elemPath(sl slice, x int) []int { return append(append([]int{}, sl.path...), sl.off+x) }
func (st store) elem(sl slice, x int) any       { return st.read(sl.obj, st.elemPath(sl, x)) }

type eval struct {
	ok, addr bool
	obj      int
	path     []int
	val      any
	ty       string
}

// walk mirrors Rd/Walk of the specification.
func (st store) walk(p place) eval {
	e := eval{ok: true, addr: true, obj: varID(p.R), val: st[varID(p.R)-1], ty: varType[p.R]}
	for _, n := range p.Sel {
		U := comp(e.ty, n)
		if U == "none" {
			return eval{}
		}
		switch e.ty {
		case "A", "S", "AS":
			s := seq(e.val)
			if n > len(s) {
				return eval{}
			}
			e.path = append(append([]int{}, e.path...), n)
			e.val = s[n-1]
		case "L", "LL":
			sl := asSlice(e.val)
			if n > sl.len {
				return eval{}
			}
			e.addr, e.obj, e.path = true, sl.obj, st.elemPath(sl, n)
			e.val = st.read(e.obj, e.path)
		case "PI", "PS":
			m := rec(e.val)
			if num(m["obj"]) == 0 {
				return eval{}
			}
			e.addr, e.obj, e.path = true, num(m["obj"]), ipath(m["path"])
			e.val = st.read(e.obj, e.path)
		case "M", "MS":
			id := num(rec(e.val)["id"])
			if id == 0 {
				return eval{}
			}
			ent := rec(seq(st[id-1])[n-1])
			if pr, _ := ent["p"].(bool); !pr {
				return eval{}
			}
			e.addr, e.obj, e.path = false, 0, nil
			e.val = ent["v"]
		}
		e.ty = U
	}
	return e
}

// ---------------------------------------------------------------------------
// canonical text of a store (must match the dump() of the generated program, render.go)

// candidate locations a *int is compared with, in this order (static ones first)
var intCands = []place{
	{R: "i"}, {R: "j"},
	{R: "a", Sel: []int{1}}, {R: "a", Sel: []int{2}}, {R: "b", Sel: []int{1}}, {R: "b", Sel: []int{2}},
	{R: "s", Sel: []int{1}}, {R: "s", Sel: []int{2, 1}}, {R: "s", Sel: []int{2, 2}},
	{R: "t", Sel: []int{1}}, {R: "t", Sel: []int{2, 1}}, {R: "t", Sel: []int{2, 2}},
	{R: "as", Sel: []int{1, 1}}, {R: "as", Sel: []int{1, 2, 1}}, {R: "as", Sel: []int{1, 2, 2}},
	{R: "as", Sel: []int{2, 1}}, {R: "as", Sel: []int{2, 2, 1}}, {R: "as", Sel: []int{2, 2, 2}},
}

// array elements among them (what the first element of a slice is compared with)
var arrCands = intCands[2:6:6]

func init() {
	arrCands = append(arrCands, intCands[7], intCands[8], intCands[10], intCands[11], intCands[13], intCands[14], intCands[16], intCands[17])
}

// slices whose elements are further candidates (dynamic: index < len)
var sliceCands = []place{{R: "l"}, {R: "k"}, {R: "s", Sel: []int{3}}, {R: "ll", Sel: []int{1}}, {R: "ll", Sel: []int{2}}}

func (st store) fInt(v any) string { return fmt.Sprint(num(v)) }

func (st store) fA(v any) string {
	s := seq(v)
	return fmt.Sprintf("[%d %d]", num(s[0]), num(s[1]))
}

func (st store) fL(v any) string {
	sl := asSlice(v)
	if sl.obj == 0 {
		return "nil"
	}
	var el []string
	for x := 1; x <= sl.len; x++ {
		el = append(el, st.fInt(st.elem(sl, x)))
	}
	r := fmt.Sprintf("%d/%d[%s]", sl.len, sl.cap, strings.Join(el, " "))
	if sl.len > 0 {
		first := mkLoc(sl.obj, st.elemPath(sl, 1))
		for _, c := range arrCands {
			if e := st.walk(c); e.ok && mkLoc(e.obj, e.path) == first {
				r += "@" + c.expr()
				break
			}
		}
	}
	return r
}

func (st store) fLL(v any) string {
	sl := asSlice(v)
	if sl.obj == 0 {
		return "nil"
	}
	var el []string
	for x := 1; x <= sl.len; x++ {
		el = append(el, st.fL(st.elem(sl, x)))
	}
	return fmt.Sprintf("%d/%d[%s]", sl.len, sl.cap, strings.Join(el, " "))
}

func (st store) fM(v any) string {
	id := num(rec(v)["id"])
	if id == 0 {
		return "nil"
	}
	r := "{"
	for n, ent := range seq(st[id-1]) {
		m := rec(ent)
		if pr, _ := m["p"].(bool); pr {
			r += fmt.Sprintf("%s:%d ", keyNames[n], num(m["v"]))
		}
	}
	return r + "}"
}

func (st store) fMS(v any) string {
	id := num(rec(v)["id"])
	if id == 0 {
		return "nil"
	}
	r := "{"
	for n, ent := range seq(st[id-1]) {
		m := rec(ent)
		if pr, _ := m["p"].(bool); pr {
			r += fmt.Sprintf("%s:%s ", keyNames[n], st.fS(m["v"]))
		}
	}
	return r + "}"
}

func (st store) fP(v any) string {
	m := rec(v)
	obj := num(m["obj"])
	if obj == 0 {
		return "nil"
	}
	path := ipath(m["path"])
	me := mkLoc(obj, path)
	w := "?"
	for _, c := range intCands {
		if e := st.walk(c); e.ok && mkLoc(e.obj, e.path) == me {
			w = c.expr()
			break
		}
	}
	if w == "?" {
	outer:
		for _, sc := range sliceCands {
			e := st.walk(sc)
			if !e.ok {
				continue
			}
			sl := asSlice(e.val)
			for x := 1; x <= sl.len; x++ {
				if mkLoc(sl.obj, st.elemPath(sl, x)) == me {
					w = fmt.Sprintf("%s[%d]", sc.expr(), x-1)
					break outer
				}
			}
		}
	}
	return fmt.Sprintf("&%s=%d", w, num(st.read(obj, path)))
}

func (st store) fPS(v any) string {
	m := rec(v)
	obj := num(m["obj"])
	if obj == 0 {
		return "nil"
	}
	path := ipath(m["path"])
	me := mkLoc(obj, path)
	w := "?"
	for _, c := range []place{{R: "s"}, {R: "t"}, {R: "as", Sel: []int{1}}, {R: "as", Sel: []int{2}}} {
		if e := st.walk(c); mkLoc(e.obj, e.path) == me {
			w = c.expr()
			break
		}
	}
	return "&" + w + "=" + st.fS(st.read(obj, path))
}

func (st store) fS(v any) string {
	s := seq(v)
	return fmt.Sprintf("{%d %s %s %s %s}", num(s[0]), st.fA(s[1]), st.fL(s[2]), st.fM(s[3]), st.fP(s[4]))
}

func (st store) fF(v any) string {
	if rec(v)["k"] == "nil" {
		return "nil"
	}
	return "set"
}

func (st store) fE(v any) string {
	m := rec(v)
	if m["k"] == "nil" {
		return "nil"
	}
	switch m["t"] {
	case "A":
		return "A" + st.fA(m["v"])
	case "S":
		return "S" + st.fS(m["v"])
	case "L":
		return "L" + st.fL(m["v"])
	}
	return "?"
}

func (st store) same(x, y any) bool {
	a, b := asSlice(x), asSlice(y)
	return a.len > 0 && b.len > 0 && mkLoc(a.obj, st.elemPath(a, 1)) == mkLoc(b.obj, st.elemPath(b, 1))
}

// aliasPairs lists the pairs of named slices whose first elements are compared by dump().
var aliasPairs = [][2]place{
	{{R: "l"}, {R: "k"}}, {{R: "l"}, {R: "s", Sel: []int{3}}}, {{R: "k"}, {R: "s", Sel: []int{3}}},
	{{R: "l"}, {R: "t", Sel: []int{3}}}, {{R: "s", Sel: []int{3}}, {R: "t", Sel: []int{3}}},
	{{R: "l"}, {R: "ll", Sel: []int{1}}}, {{R: "k"}, {R: "ll", Sel: []int{1}}}, {{R: "l"}, {R: "ll", Sel: []int{2}}},
	{{R: "l"}, {R: "as", Sel: []int{1, 3}}}, {{R: "s", Sel: []int{3}}, {R: "as", Sel: []int{1, 3}}},
}

func (st store) get(r string) any { return st[varID(r)-1] }

// line is the canonical text of the store, preceded by the values the step reported.
func (st store) line(ext []int) string {
	var b strings.Builder
	es := make([]string, len(ext))
	for i, x := range ext {
		es[i] = fmt.Sprint(x)
	}
	fmt.Fprintf(&b, "[%s]", strings.Join(es, " "))
	fmt.Fprintf(&b, " a=%s b=%s", st.fA(st.get("a")), st.fA(st.get("b")))
	fmt.Fprintf(&b, " s=%s t=%s", st.fS(st.get("s")), st.fS(st.get("t")))
	fmt.Fprintf(&b, " l=%s k=%s ll=%s", st.fL(st.get("l")), st.fL(st.get("k")), st.fLL(st.get("ll")))
	as := seq(st.get("as"))
	fmt.Fprintf(&b, " as=[%s %s]", st.fS(as[0]), st.fS(as[1]))
	fmt.Fprintf(&b, " ms=%s m=%s", st.fMS(st.get("ms")), st.fM(st.get("m")))
	fmt.Fprintf(&b, " p=%s q=%s ps=%s", st.fP(st.get("p")), st.fP(st.get("q")), st.fPS(st.get("ps")))
	fmt.Fprintf(&b, " i=%d j=%d", num(st.get("i")), num(st.get("j")))
	fmt.Fprintf(&b, " f1=%s f2=%s e=%s", st.fF(st.get("f1")), st.fF(st.get("f2")), st.fE(st.get("e")))
	b.WriteString(" al=")
	for n, pr := range aliasPairs {
		x, y := st.walk(pr[0]), st.walk(pr[1])
		if x.ok && y.ok && st.same(x.val, y.val) {
			fmt.Fprintf(&b, "%d,", n)
		}
	}
	return b.String()
}
