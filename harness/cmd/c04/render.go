package main

// Rendering of a model history as a straight-line Go program: the declarations of the
// pool, the prologue that builds the initial pool, then one statement (or tiny block) per
// step, each followed by dump(...) which prints the WHOLE pool in the canonical form of
// model.go (store.line).  Line k of the output must equal the model's state k.

import (
	"fmt"
	"strings"
)

type op struct {
	K string `json:"k"`
	D place  `json:"d"`
	S place  `json:"s"`
	V int    `json:"v"`
	I int    `json:"i"`
	J int    `json:"j"`
	N int    `json:"n"`
	X string `json:"x"`
	// operands of a tuple assignment (Tuple); Ss[0] is the value appended by AppendN(LL)
	Ds []place `json:"ds"`
	Ss []place `json:"ss"`
	// Rw: render the operation in its neutralised form (through a temporary); set only when a
	// deviating history is tested for attribution to a construct-shaped known finding
	Rw bool `json:"rw,omitempty"`
}

const progHead = `package main

import "fmt"

type S struct {
	N int
	A [2]int
	L []int
	M map[string]int
	P *int
}

func (x S) Sum() int {
	r := x.N*3 + x.A[0]
	if len(x.L) > 0 {
		r += x.L[0]
	}
	return r
}

func (x *S) PInc() int {
	x.N += 5
	return x.N
}

func mutA(x [2]int, v int) int {
	x[0] = v
	return x[0]*3 + x[1]
}

func mutS(x S, v int) int {
	x.N = v
	x.A[1] = v
	if len(x.L) > 0 {
		x.L[0] = v
	}
	if x.P != nil {
		*x.P += 1
	}
	if x.M != nil {
		x.M["y"] = v
	}
	return x.N*3 + x.A[0]
}

func mutAS(x [2]S, v int) int {
	x[0].N = v
	x[1].A[0] = v
	if len(x[1].L) > 0 {
		x[1].L[0] = v
	}
	return x[0].N*3 + x[1].N
}

func mutL(x []int, v int) int {
	n := len(x)
	if n > 0 {
		x[0] = v
	}
	x = nil
	return n + len(x)
}

func mutP(x *int, v int) int {
	*x = v
	x = nil
	if x != nil {
		return 0
	}
	return v
}

func b2i(b bool) int {
	if b {
		return 1
	}
	return 0
}

func same(x, y []int) bool { return len(x) > 0 && len(y) > 0 && &x[0] == &y[0] }

func fM(x map[string]int) string {
	if x == nil {
		return "nil"
	}
	r := "{"
	if v, ok := x["x"]; ok {
		r += fmt.Sprintf("x:%d ", v)
	}
	if v, ok := x["y"]; ok {
		r += fmt.Sprintf("y:%d ", v)
	}
	return r + "}"
}

func fF(x func() int) string {
	if x == nil {
		return "nil"
	}
	return "set"
}
`

// the helpers look at the pool through an env: pointers to the pool variables (which are
// locals of the history's function in the "local" scope variant, package-level variables in
// the "global" one), so that many histories share one copy of the helpers in one program.
func envDecl() string {
	var b strings.Builder
	b.WriteString("type env struct {\n")
	for _, v := range varNames {
		fmt.Fprintf(&b, "\t%s *%s\n", v, goType[varType[v]])
	}
	b.WriteString("}\n")
	return b.String()
}

func envLit() string {
	var fs []string
	for _, v := range varNames {
		fs = append(fs, fmt.Sprintf("%s: &%s", v, v))
	}
	return "&env{" + strings.Join(fs, ", ") + "}"
}

// vx renders a place as seen through the env v.
func vx(p place) string {
	e := place{R: "VROOT", Sel: p.Sel}.exprT(varType[p.R])
	return strings.Replace(e, "VROOT", "(*v."+p.R+")", 1)
}

func ifChain(x string, cands []place, tag func(place) string) string {
	var b strings.Builder
	for n, c := range cands {
		if n > 0 {
			b.WriteString(" else ")
		}
		fmt.Fprintf(&b, "if %s == &%s {\n\t\t%s\n\t}", x, vx(c), tag(c))
	}
	return b.String()
}

func helpers() string {
	var b strings.Builder
	fn := func(name, sig, body string) { fmt.Fprintf(&b, "\nfunc %s%s {\n%s}\n", name, sig, body) }
	fl := "\tif x == nil {\n\t\treturn \"nil\"\n\t}\n\tr := fmt.Sprintf(\"%d/%d%v\", len(x), cap(x), x)\n\tif len(x) > 0 {\n\t\ty := &x[0]\n\t\t" +
		strings.ReplaceAll(ifChain("y", arrCands, func(c place) string { return fmt.Sprintf("r += %q", "@"+c.expr()) }), "\n", "\n\t") +
		"\n\t}\n\treturn r\n"
	fn("fL", "(v *env, x []int) string", fl)
	fp := "\tif x == nil {\n\t\treturn \"nil\"\n\t}\n\tw := \"?\"\n\t" +
		ifChain("x", intCands, func(c place) string { return fmt.Sprintf("w = %q", c.expr()) }) + "\n"
	for _, sc := range sliceCands {
		guard := ""
		if sc.R == "ll" {
			guard = fmt.Sprintf(" && len(*v.ll) > %d", sc.Sel[0]-1)
		}
		fp += fmt.Sprintf("\tif w == \"?\"%s {\n\t\tfor n := range %s {\n\t\t\tif x == &%s[n] {\n\t\t\t\tw = fmt.Sprintf(\"%s[%%d]\", n)\n\t\t\t\tbreak\n\t\t\t}\n\t\t}\n\t}\n",
			guard, vx(sc), vx(sc), sc.expr())
	}
	fp += "\treturn fmt.Sprintf(\"&%s=%d\", w, *x)\n"
	fn("fP", "(v *env, x *int) string", fp)
	fn("fS", "(v *env, x S) string", "\treturn fmt.Sprintf(\"{%d %v %s %s %s}\", x.N, x.A, fL(v, x.L), fM(x.M), fP(v, x.P))\n")
	fn("fMS", "(v *env, x map[string]S) string", "\tif x == nil {\n\t\treturn \"nil\"\n\t}\n\tr := \"{\"\n\tif y, ok := x[\"x\"]; ok {\n\t\tr += \"x:\" + fS(v, y) + \" \"\n\t}\n\tif y, ok := x[\"y\"]; ok {\n\t\tr += \"y:\" + fS(v, y) + \" \"\n\t}\n\treturn r + \"}\"\n")
	fps := "\tif x == nil {\n\t\treturn \"nil\"\n\t}\n\tw := \"?\"\n\t" +
		ifChain("x", []place{{R: "s"}, {R: "t"}, {R: "as", Sel: []int{1}}, {R: "as", Sel: []int{2}}}, func(c place) string { return fmt.Sprintf("w = %q", c.expr()) }) +
		"\n\treturn \"&\" + w + \"=\" + fS(v, *x)\n"
	fn("fPS", "(v *env, x *S) string", fps)
	fn("fLL", "(v *env, x [][]int) string", "\tif x == nil {\n\t\treturn \"nil\"\n\t}\n\tr := fmt.Sprintf(\"%d/%d[\", len(x), cap(x))\n\tfor n, y := range x {\n\t\tif n > 0 {\n\t\t\tr += \" \"\n\t\t}\n\t\tr += fL(v, y)\n\t}\n\treturn r + \"]\"\n")
	// (comma-ok assertions rather than a type switch: yaegi's type switch on an interface{} holding a
	// struct with methods takes the default clause -- known finding F-C05-3, not this property's subject)
	fn("fE", "(v *env, x interface{}) string", "\tif x == nil {\n\t\treturn \"nil\"\n\t}\n\tif y, ok := x.([2]int); ok {\n\t\treturn fmt.Sprintf(\"A%v\", y)\n\t}\n\tif y, ok := x.(S); ok {\n\t\treturn \"S\" + fS(v, y)\n\t}\n\tif y, ok := x.([]int); ok {\n\t\treturn \"L\" + fL(v, y)\n\t}\n\treturn \"?\"\n")
	al := "\tr := \"\"\n"
	for n, pr := range aliasPairs {
		guard := ""
		for _, p := range pr {
			if p.R == "ll" {
				guard = fmt.Sprintf("len(*v.ll) > %d && ", p.Sel[0]-1)
			}
		}
		al += fmt.Sprintf("\tif %ssame(%s, %s) {\n\t\tr += \"%d,\"\n\t}\n", guard, vx(pr[0]), vx(pr[1]), n)
	}
	al += "\treturn r\n"
	fn("al", "(v *env) string", al)
	dump := "\tfmt.Printf(\"%v a=%v b=%v s=%s t=%s l=%s k=%s ll=%s as=[%s %s] ms=%s m=%s p=%s q=%s ps=%s i=%d j=%d f1=%s f2=%s e=%s al=%s\\n\",\n" +
		"\t\text, *v.a, *v.b, fS(v, *v.s), fS(v, *v.t), fL(v, *v.l), fL(v, *v.k), fLL(v, *v.ll), fS(v, v.as[0]), fS(v, v.as[1]), fMS(v, *v.ms), fM(*v.m), fP(v, *v.p), fP(v, *v.q), fPS(v, *v.ps), *v.i, *v.j, fF(*v.f1), fF(*v.f2), fE(v, *v.e), al(v))\n"
	fn("dump", "(v *env, ext ...int)", dump)
	// ReturnComposite through declared functions: r := *p; (*p).<first int> = v; return r
	for _, t := range []struct{ T, first string }{{"A", "p[0]"}, {"S", "p.N"}, {"AS", "p[0].N"}} {
		fn("ret"+t.T, fmt.Sprintf("(p *%s, v int) %s", goType[t.T], goType[t.T]), fmt.Sprintf("\tr := *p\n\t%s = v\n\treturn r\n", t.first))
		fn("retn"+t.T, fmt.Sprintf("(p *%s, v int) (r %s)", goType[t.T], goType[t.T]), fmt.Sprintf("\tr = *p\n\t%s = v\n\treturn\n", t.first))
	}
	return b.String()
}

func poolDecl(indent string) string {
	var b strings.Builder
	b.WriteString(indent + "var (\n")
	for _, v := range varNames {
		fmt.Fprintf(&b, "%s\t%s %s\n", indent, v, goType[varType[v]])
	}
	b.WriteString(indent + ")\n")
	return b.String()
}

func resetFunc() string {
	var b strings.Builder
	b.WriteString("\nfunc reset() {\n")
	for _, v := range varNames {
		z := map[string]string{"int": "0", "A": "[2]int{}", "S": "S{}", "AS": "[2]S{}"}[varType[v]]
		if z == "" {
			z = "nil"
		}
		fmt.Fprintf(&b, "\t%s = %s\n", v, z)
	}
	b.WriteString("}\n")
	return b.String()
}

const richPrologue = `a = [2]int{1, 2}
b = [2]int{3, 4}
l = make([]int, 3, 4)
l[0], l[1], l[2] = 1, 2, 3
k = l[1:3]
m = map[string]int{"x": 1}
i = 1
s = S{N: 5, A: [2]int{6, 7}, L: l[:2], M: m, P: &i}
ll = [][]int{l[:2], {8, 9}}
as = [2]S{s, {N: 3}}
ms = map[string]S{"x": s}
p = &a[0]
ps = &s
`

func indent(s, ind string) string {
	ls := strings.Split(strings.TrimRight(s, "\n"), "\n")
	for i := range ls {
		if ls[i] != "" {
			ls[i] = ind + ls[i]
		}
	}
	return strings.Join(ls, "\n") + "\n"
}

// firstInt is the first int component of a value of type T (what ReturnComposite mutates)
func firstInt(p place, T string) string {
	switch T {
	case "A":
		return p.sub(1).expr()
	case "S":
		return p.sub(1).expr()
	}
	return p.sub(1, 1).expr()
}

// stmt renders one operation; the text ends with the dump call of the step.
func stmt(o op) string {
	D, S := o.D.expr(), o.S.expr()
	key := ""
	if o.I >= 1 && o.I <= 2 {
		key = fmt.Sprintf("%q", keyNames[o.I-1])
	}
	clip := func(call string) string { // reallocating append: the result is clipped to its length
		if o.J == 1 {
			return fmt.Sprintf("%s[:%d:%d]", call, o.N, o.N)
		}
		return call
	}
	from := func(e string, n int) string {
		if n == 0 {
			return e
		}
		return fmt.Sprintf("%s[%d:]", e, n)
	}
	switch o.K {
	case "AssignVar", "Deref":
		return fmt.Sprintf("%s = %s\ndump(v)\n", D, S)
	case "Unbox":
		return fmt.Sprintf("%s = e.(%s)\ndump(v)\n", D, goType[o.X])
	case "SetThroughPtr":
		if o.X == "int" {
			return fmt.Sprintf("%s = %d\ndump(v)\n", D, o.V)
		}
		return fmt.Sprintf("%s = %s\ndump(v)\n", D, S)
	case "SetField", "SetElem":
		return fmt.Sprintf("%s = %d\ndump(v)\n", D, o.V)
	case "SetLit":
		if o.X == "A" {
			return fmt.Sprintf("%s = [2]int{%d, %d}\ndump(v)\n", D, o.V, o.V+1)
		}
		if o.Rw {
			return fmt.Sprintf("{\n\ttmp := S{N: %d, A: [2]int{%d, 0}}\n\t%s = tmp\n}\ndump(v)\n", o.V, o.V, D)
		}
		return fmt.Sprintf("%s = S{N: %d, A: [2]int{%d, 0}}\ndump(v)\n", D, o.V, o.V)
	case "SetLitSelf":
		switch {
		case o.X == "A" && o.I == 0:
			return fmt.Sprintf("%s = [2]int{%s, %s}\ndump(v)\n", D, o.D.sub(2).expr(), o.D.sub(1).expr())
		case o.X == "A":
			return fmt.Sprintf("%s = [2]int{1: %s}\ndump(v)\n", D, o.D.sub(1).expr())
		}
		return fmt.Sprintf("%s = S{N: %s, A: [2]int{%s, %s}}\ndump(v)\n", D, o.D.sub(2, 1).expr(), o.D.sub(2, 2).expr(), o.D.sub(1).expr())
	case "SetMapEntry":
		switch o.X {
		case "int":
			return fmt.Sprintf("%s[%s] = %d\ndump(v)\n", D, key, o.V)
		case "S":
			return fmt.Sprintf("%s[%s] = %s\ndump(v)\n", D, key, S)
		}
		return fmt.Sprintf("{\n\ttmp := %s[%s]\n\ttmp.N = %d\n\ttmp.A[0] = %d\n\t%s[%s] = tmp\n}\ndump(v)\n", D, key, o.V, o.V, D, key)
	case "MapDelete":
		return fmt.Sprintf("delete(%s, %s)\ndump(v)\n", D, key)
	case "MapLookup":
		if o.X == "M" {
			return fmt.Sprintf("{\n\tx, ok := %s[%s]\n\tdump(v, x, b2i(ok))\n}\n", D, key)
		}
		return fmt.Sprintf("{\n\tx, ok := %s[%s]\n\tx.A[0] = %d\n\tdump(v, x.N*3+x.A[0]+x.A[1], b2i(ok))\n}\n", D, key, o.V)
	case "Append":
		return fmt.Sprintf("%s = %s\ndump(v)\n", D, clip(fmt.Sprintf("append(%s, %d)", D, o.V)))
	case "AppendLL":
		return fmt.Sprintf("%s = %s\ndump(v)\n", D, clip(fmt.Sprintf("append(%s, %s)", D, S)))
	case "AppendSlice":
		return fmt.Sprintf("%s = %s\ndump(v)\n", D, clip(fmt.Sprintf("append(%s, %s...)", D, S)))
	case "DeleteIdx":
		return fmt.Sprintf("%s = append(%s[:%d], %s[%d:]...)\ndump(v)\n", D, D, o.I, D, o.I+1)
	case "Copy":
		return fmt.Sprintf("{\n\tn := copy(%s, %s)\n\tdump(v, n)\n}\n", from(D, o.I), from(S, o.J))
	case "Slice2":
		return fmt.Sprintf("%s = %s[%d:%d]\ndump(v)\n", D, S, o.I, o.J)
	case "Slice3":
		return fmt.Sprintf("%s = %s[%d:%d:%d]\ndump(v)\n", D, S, o.I, o.J, o.N)
	case "Make":
		switch o.X {
		case "L":
			return fmt.Sprintf("%s = make([]int, %d, %d)\ndump(v)\n", D, o.I, o.J)
		case "M":
			return fmt.Sprintf("%s = make(map[string]int)\ndump(v)\n", D)
		case "MS":
			return fmt.Sprintf("%s = map[string]S{}\ndump(v)\n", D)
		case "LL":
			return fmt.Sprintf("%s = make([][]int, 2)\ndump(v)\n", D)
		case "PI":
			return fmt.Sprintf("%s = new(int)\ndump(v)\n", D)
		}
		return fmt.Sprintf("%s = &S{N: %d}\ndump(v)\n", D, o.V)
	case "AddrOf":
		return fmt.Sprintf("%s = &%s\ndump(v)\n", D, S)
	case "Swap":
		return fmt.Sprintf("%s, %s = %s, %s\ndump(v)\n", D, S, S, D)
	case "IdxAssign":
		if o.X == "ia" {
			return fmt.Sprintf("%s, %s[%s] = %d, %d\ndump(v)\n", S, D, S, o.I, o.V)
		}
		return fmt.Sprintf("%s[%s], %s = %d, %d\ndump(v)\n", D, S, S, o.V, o.I)
	case "RebindAssign":
		if o.X == "sl" {
			return fmt.Sprintf("%s, %s[0] = %s, %d\ndump(v)\n", D, D, S, o.V)
		}
		return fmt.Sprintf("%s, *%s = &%s, %d\ndump(v)\n", D, D, S, o.V)
	case "PassByValue":
		f := map[string]string{"A": "mutA", "S": "mutS", "AS": "mutAS", "L": "mutL", "PI": "mutP"}[o.X]
		return fmt.Sprintf("{\n\tr := %s(%s, %d)\n\tdump(v, r)\n}\n", f, S, o.V)
	case "ReturnComposite":
		// concrete syntax: the callee is a function literal called on the spot, a declared function, or a declared
		// function with a named result (chosen by the operation itself)
		switch (len(D)*7 + len(S)*3 + o.V) % 3 {
		case 1:
			return fmt.Sprintf("%s = ret%s(&%s, %d)\ndump(v)\n", D, o.X, S, o.V)
		case 2:
			return fmt.Sprintf("%s = retn%s(&%s, %d)\ndump(v)\n", D, o.X, S, o.V)
		}
		return fmt.Sprintf("%s = func() %s {\n\tr := %s\n\t%s = %d\n\treturn r\n}()\ndump(v)\n", D, goType[o.X], S, firstInt(o.S, o.X), o.V)
	case "RecvAssign":
		lhs := D
		if o.J == 1 {
			lhs = D + ", ok"
		}
		decl := ""
		if o.J == 1 {
			decl = "\tok := false\n\t_ = ok\n"
		}
		return fmt.Sprintf("{\n\tch := make(chan %s, 1)\n\tch <- %s\n%s\t%s = <-ch\n}\ndump(v)\n", goType[o.X], S, decl, lhs)
	case "AppendAl":
		return fmt.Sprintf("%s = append(%s[:%d], %s, %s)\ndump(v)\n", D, S, o.I, o.Ss[0].expr(), o.Ss[1].expr())
	case "LoopDefine":
		arr := "x"
		if o.X == "S" {
			arr = "x.A"
		}
		return fmt.Sprintf("for n := 0; n < 2; n++ {\n\tx := %s\n\t%s[n] = %d\n\t%s[n] = %s[:]\n}\ndump(v)\n", S, arr, o.V, D, arr)
	case "RangeArray":
		rng := S
		if o.J == 1 {
			rng = "&" + S
		}
		w, x := o.S.sub(2).expr(), "x"
		if o.X == "AS" {
			w, x = o.S.sub(2, 1).expr(), "x.N"
		}
		return fmt.Sprintf("{\n\tr := 0\n\tfor ix, x := range %s {\n\t\tif ix == 0 {\n\t\t\t%s = %d\n\t\t}\n\t\tr = r*3 + %s\n\t}\n\tdump(v, r)\n}\n", rng, w, o.V, x)
	case "RangeSlice":
		body := fmt.Sprintf("if ix == 0 && len(%s) > 1 {\n\t\t\t%s[1] = %d\n\t\t}", S, S, o.V)
		if o.X == "shrink" {
			body = fmt.Sprintf("if ix == 0 {\n\t\t\t%s = %s[:1]\n\t\t}", S, S)
		}
		return fmt.Sprintf("{\n\tr := 0\n\tfor ix, x := range %s {\n\t\t%s\n\t\tr = r*3 + x\n\t}\n\tdump(v, r)\n}\n", S, body)
	case "Capture":
		switch o.X {
		case "ref":
			return fmt.Sprintf("%s = func() int {\n\t%s += 5\n\treturn %s\n}\ndump(v)\n", D, S, S)
		case "A":
			return fmt.Sprintf("{\n\tx := %s\n\t%s = func() int {\n\t\tx[0] += 5\n\t\treturn x[0]*3 + x[1]\n\t}\n}\ndump(v)\n", S, D)
		case "S":
			return fmt.Sprintf("{\n\tx := %s\n\t%s = func() int {\n\t\tx.N += 5\n\t\tif len(x.L) > 0 {\n\t\t\tx.L[0] += 1\n\t\t}\n\t\treturn x.N*3 + x.A[0]\n\t}\n}\ndump(v)\n", S, D)
		}
		return fmt.Sprintf("{\n\tx := %s\n\t%s = func() int {\n\t\tx[0] += 5\n\t\treturn x[0]\n\t}\n}\ndump(v)\n", S, D)
	case "AppendN":
		vals := make([]string, o.N)
		for x := range vals {
			if o.X == "L" {
				vals[x] = fmt.Sprint(o.V + x)
			} else {
				vals[x] = o.Ss[0].expr()
			}
		}
		return fmt.Sprintf("%s = append(%s, %s)\ndump(v)\n", D, S, strings.Join(vals, ", "))
	case "Tuple":
		var l, r []string
		for x := range o.Ds {
			l = append(l, o.Ds[x].expr())
			if o.Ss[x].R == "" {
				r = append(r, fmt.Sprint(o.V))
			} else {
				r = append(r, o.Ss[x].expr())
			}
		}
		return fmt.Sprintf("%s = %s\ndump(v)\n", strings.Join(l, ", "), strings.Join(r, ", "))
	case "MapTuple":
		return fmt.Sprintf("%s[\"x\"], %s[\"y\"] = %s[\"y\"], %s[\"x\"]\ndump(v)\n", D, D, S, S)
	case "CallFunc":
		return fmt.Sprintf("{\n\tr := %s()\n\tdump(v, r)\n}\n", D)
	case "Box":
		if o.Rw {
			return fmt.Sprintf("{\n\ttmp := %s\n\te = tmp\n}\ndump(v)\n", S)
		}
		return fmt.Sprintf("e = %s\ndump(v)\n", S)
	case "BindMV":
		if o.Rw && o.X == "sum" {
			return fmt.Sprintf("{\n\ttmp := %s\n\t%s = tmp.Sum\n}\ndump(v)\n", S, D)
		}
		if o.Rw {
			return fmt.Sprintf("{\n\ttmp := &%s\n\t%s = tmp.PInc\n}\ndump(v)\n", S, D)
		}
		if o.X == "sum" {
			return fmt.Sprintf("%s = %s\ndump(v)\n", D, o.S.dot("Sum"))
		}
		return fmt.Sprintf("%s = %s\ndump(v)\n", D, o.S.dot("PInc"))
	}
	return "UNKNOWN_OPERATION_" + o.K + "\n"
}

// history renders one history as the body of a function.
func history(init string, ops []op, scope string) string {
	var body strings.Builder
	if init == "rich" {
		body.WriteString(richPrologue)
	}
	// the env is built after the prologue (see F-C04-1: assigning a struct literal to a
	// variable detaches the pointers taken before)
	if scope == "global" {
		body.WriteString("v = " + envLit() + "\n")
	} else {
		body.WriteString("v := " + envLit() + "\n")
	}
	body.WriteString("dump(v)\n")
	for n, o := range ops {
		fmt.Fprintf(&body, "// step %d: %s\n", n+1, o.K)
		body.WriteString(stmt(o))
	}
	return body.String()
}

// program renders histories as one program: history n is function h<n>; main runs them in
// order, each announced by a line "#<n>" and run under recover.  Scope "local": the pool is
// declared inside the history's function; "global": the pool is package-level (reset before
// every history).
func program(cases []*kase) string {
	var b strings.Builder
	b.WriteString(progHead)
	b.WriteString("\n" + envDecl())
	b.WriteString(helpers())
	anyGlobal := false
	for _, k := range cases {
		if k.Scope == "global" {
			anyGlobal = true
		}
	}
	if anyGlobal {
		b.WriteString("\n" + poolDecl(""))
		b.WriteString("\nvar v *env\n")
		b.WriteString(resetFunc())
	}
	for n, k := range cases {
		fmt.Fprintf(&b, "\nfunc h%d() {\n", n)
		if k.Scope == "global" {
			b.WriteString("\treset()\n")
		} else {
			b.WriteString(poolDecl("\t"))
		}
		b.WriteString(indent(history(k.B.Init, k.B.Ops, k.Scope), "\t"))
		b.WriteString("}\n")
	}
	b.WriteString("\nfunc run(n int, h func()) {\n\tfmt.Printf(\"#%d\\n\", n)\n\tdefer func() {\n\t\tif r := recover(); r != nil {\n\t\t\tfmt.Println(\"PANIC\", r)\n\t\t}\n\t}()\n\th()\n}\n")
	b.WriteString("\nfunc main() {\n")
	for n := range cases {
		fmt.Fprintf(&b, "\trun(%d, h%d)\n", n, n)
	}
	b.WriteString("}\n")
	return b.String()
}

// splitOutput cuts the output of a program of n histories at the "#<k>" marker lines.
func splitOutput(out string, n int) []string {
	res := make([]string, n)
	cur := -1
	var buf strings.Builder
	flush := func() {
		if cur >= 0 && cur < n {
			res[cur] = buf.String()
		}
		buf.Reset()
	}
	for _, l := range strings.SplitAfter(out, "\n") {
		if strings.HasPrefix(l, "#") {
			flush()
			fmt.Sscanf(l, "#%d", &cur)
			continue
		}
		buf.WriteString(l)
	}
	flush()
	return res
}
