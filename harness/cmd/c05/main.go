// Check for property C05: method calls, method values, calls through interfaces, type
// assertions and type switches select the same method / branch and see the same receiver
// state as compiled Go; interpreted values handed to compiled code that expects an
// interface have their interpreted methods invoked.
//
// spec/core/Dispatch.tla generates type hierarchies and, for each, every legal call and
// assertion form on a T1 object together with the predicted observation (selected method,
// counter seen by the receiver, final counters, assertion result, switch clause). This
// harness renders a hierarchy and its forms as one Go program (one output line per form,
// each under its own recover guard), runs it under the interpreter in child processes and
// compares line by line. The same program built with the Go toolchain validates the
// specification (never the interpreter): on every disagreement that is not already listed,
// on a few per listed finding, and on a sample in the thorough tier.
package main

import (
	"bytes"
	"encoding/json"
	"fmt"
	"hash/fnv"
	"os"
	"path/filepath"
	"regexp"
	"sort"
	"strconv"
	"strings"
	"sync"
	"time"

	"github.com/traefik/yaegi/interp"
	"github.com/traefik/yaegi/stdlib"

	"verif/fw"
)

func main() { fw.Main("C05", "model_checking", run) }

// ---------------------------------------------------------------------------
// child: run one program under the interpreter

type childJob struct {
	Src string `json:"src"`
}

type childRes struct {
	Out string `json:"out"`
	Err string `json:"err,omitempty"`
}

func init() {
	fw.RegisterChild("c05", func(job json.RawMessage) any {
		var j childJob
		if err := json.Unmarshal(job, &j); err != nil {
			return childRes{Err: "bad job: " + err.Error()}
		}
		return runInterp(j.Src)
	})
}

func runInterp(src string) (r childRes) {
	var out, errb bytes.Buffer
	defer func() {
		if p := recover(); p != nil {
			r.Out = out.String()
			r.Err = fmt.Sprintf("panic out of Eval: %v", p)
		}
	}()
	i := interp.New(interp.Options{Stdout: &out, Stderr: &errb})
	if err := i.Use(stdlib.Symbols); err != nil {
		return childRes{Err: "use: " + err.Error()}
	}
	_, err := i.Eval(src)
	r.Out = out.String()
	if err != nil {
		r.Err = err.Error()
		if r.Err == "" {
			r.Err = "error"
		}
	}
	return r
}

// ---------------------------------------------------------------------------
// verdicts

type failure struct {
	fi      int // index of the form in the behaviour
	trigger string
	mode    string
	detail  string
	want    string
	got     string
}

type caseState struct {
	b        *beh
	pending  []int // forms still to be evaluated
	prog     *program
	fails    []failure
	rounds   int
	evald    int
	dropped  map[string]int // class -> forms not evaluated because a form of the same listed class aborted the program
	giveup   string
	fullProg *program // all forms (native reference)
}

var rePos = regexp.MustCompile(`^(?:[\w./_-]*:)?(\d+):(\d+): `)

// trigger is the signature of the construct, computed from the model-level form only.
func (f *form) trigger() string {
	if f.X != "" {
		return f.X
	}
	tc := ""
	switch {
	case f.K == "nest" || f.K == "mvpair" || f.K == "mvcall":
		tc = fmt.Sprintf(" second=%s", f.T)
		if f.J > 1 {
			tc += "-of-embedded-type"
		}
	case f.T == "":
	case f.K == "switch":
		tc = " clauses=" + f.T
	case f.T == "T1" || f.T == "PT1":
		tc = " target=own-concrete"
	case strings.HasPrefix(f.T, "T") || strings.HasPrefix(f.T, "PT"):
		tc = " target=other-concrete"
	case f.T == "IM" || f.T == "IN" || f.T == "IMN":
		tc = " target=interp-iface"
	case f.T == "E":
		tc = " target=empty-iface"
	case f.T == "int":
		tc = " target=basic"
	default:
		tc = " target=host-iface"
	}
	sc := ""
	switch f.S {
	case "":
	case "E":
		sc = " src=empty-iface"
	case "IM", "IN", "IMN":
		sc = " src=interp-iface"
	default:
		sc = " src=" + f.S
	}
	s := f.K + sc
	if f.D != "" {
		s += " dyn=" + f.D
	}
	s += tc
	if len(f.Ft) > 0 {
		s += " methods=" + strings.Join(sortedStrings(f.Ft), "+")
	}
	return s
}

func splitLine(l string) []string { return strings.SplitN(l, "|", 5) }

func tagsOf(lg string) string {
	var t []string
	for _, e := range strings.Split(lg, ";") {
		if i := strings.IndexByte(e, ':'); i >= 0 {
			t = append(t, e[:i])
		}
	}
	return strings.Join(t, ",")
}

// Failure modes (the second half of a signature). They are deliberately few: what the
// construct decides (result / ok flag / panic / clause), which method runs, which receiver
// state it sees, and the two ways of losing the whole program.
const (
	modeOutcome  = "the outcome (result, ok flag, panic or clause taken) differs from compiled Go"
	modeDispatch = "another method, or no method, is invoked"
	modeState    = "the selected method is right but the receiver state observed differs"
	modeRejected = "the program is rejected before it runs"
	modeAborted  = "the form takes the whole program down"
	modeSilent   = "no output line for the form"
)

// mode classifies how an observed line deviates from the expected one; detail is for the reader.
func (f *form) mode(want, got string) (mode, detail string) {
	w, g := splitLine(want), splitLine(got)
	wr, gr := w[1], ""
	if len(g) > 1 {
		gr = g[1]
	}
	switch {
	case gr == "panic" && wr != "panic":
		return modeOutcome, "panics"
	case wr == "panic" && gr != "panic":
		return modeOutcome, "does not panic"
	case wr != gr && strings.HasPrefix(f.K, "assert2"):
		if gr == "true" {
			return modeOutcome, "assertion succeeds, must fail"
		}
		return modeOutcome, "assertion fails, must succeed"
	case wr != gr && f.K == "switch":
		return modeOutcome, "wrong clause taken"
	case wr != gr:
		return modeOutcome, "wrong outcome"
	}
	if len(w) < 5 || len(g) < 5 {
		return modeOutcome, "malformed output line"
	}
	if tagsOf(w[2]) != tagsOf(g[2]) {
		if g[2] == "" {
			return modeDispatch, "method not invoked"
		}
		return modeDispatch, "wrong method invoked"
	}
	return modeState, "wrong receiver state"
}

func errClass(e string) string {
	e = rePos.ReplaceAllString(e, "")
	for _, k := range []string{"impossible type assertion", "reflect.Set", "reflect:", "invalid memory address", "not assignable", "undefined", "cannot use", "ambiguous selector", "index out of range", "method not found"} {
		if strings.Contains(e, k) {
			return k
		}
	}
	if i := strings.IndexByte(e, '\n'); i >= 0 {
		e = e[:i]
	}
	if len(e) > 40 {
		e = e[:40]
	}
	return e
}

// analyze consumes the result of one round; it returns true when another round is needed.
func (cs *caseState) analyze(known func(trigger, mode string) bool, r childRes, crashed string) bool {
	cs.rounds++
	forms := cs.b.Forms
	lines := map[string]string{}
	ended := false
	for _, l := range strings.Split(r.Out, "\n") {
		if l == "END" {
			ended = true
			continue
		}
		if i := strings.IndexByte(l, '|'); i > 0 {
			if _, dup := lines[l[:i]]; !dup {
				lines[l[:i]] = l
			}
		}
	}
	sel := cs.pending
	culprit := -1 // index into sel
	abortMode := ""
	if len(lines) == 0 && !ended && crashed == "" {
		// nothing ran: a compile-time rejection; the position names the form
		if m := rePos.FindStringSubmatch(r.Err); m != nil {
			ln, _ := strconv.Atoi(m[1])
			if si, ok := cs.prog.lineOf[ln]; ok {
				culprit = si
				abortMode = modeRejected
			}
		}
		if culprit < 0 {
			cs.giveup = "program rejected, no form identified: " + firstLine(r.Err)
			return false
		}
		rest := append([]int(nil), sel[:culprit]...)
		rest = append(rest, sel[culprit+1:]...)
		if m := rePos.FindStringSubmatch(r.Err); m != nil {
			if ln, _ := strconv.Atoi(m[1]); cs.prog.helper[ln] {
				// the rejected line is in the helper of a shared site: the verdict goes to the
				// site's first form, its other calls cannot be run either
				site := forms[sel[culprit]].site()
				var keep []int
				for _, o := range rest {
					if forms[o].shared() && forms[o].site() == site {
						if cs.dropped == nil {
							cs.dropped = map[string]int{}
						}
						cs.dropped["site "+site]++
						continue
					}
					keep = append(keep, o)
				}
				rest = keep
			}
		}
		cs.recordAbort(known, sel[culprit], abortMode, r.Err, &rest)
		cs.pending = rest
		return len(rest) > 0
	}
	for si, fi := range sel {
		id := cs.prog.IDs[si]
		want := forms[fi].expected(id)
		got, ok := lines[id]
		if !ok {
			if !ended {
				culprit = si
				abortMode = modeAborted
				if crashed != "" {
					r.Err = "interpreter process dies: " + crashed
				} else if r.Err == "" {
					r.Err = "program ends silently"
				}
				break
			}
			cs.evald++
			cs.fails = append(cs.fails, failure{fi, forms[fi].trigger(), modeSilent, "", want, ""})
			continue
		}
		cs.evald++
		cmp := got
		if strings.HasPrefix(got, id+"|panic") {
			cmp = id + "|panic"
		}
		if cmp != want {
			md, det := forms[fi].mode(want, got)
			cs.fails = append(cs.fails, failure{fi, forms[fi].trigger(), md, det, want, got})
		}
	}
	if culprit < 0 {
		if !ended {
			cs.fails = append(cs.fails, failure{sel[len(sel)-1], "program", "all forms printed but the program did not reach its end", errClass(r.Err), "END", firstLine(r.Err)})
		}
		cs.pending = nil
		return false
	}
	rest := append([]int(nil), sel[culprit+1:]...)
	cs.recordAbort(known, sel[culprit], abortMode, r.Err, &rest)
	cs.pending = rest
	return len(rest) > 0
}

func (cs *caseState) recordAbort(known func(trigger, mode string) bool, fi int, mode, err string, rest *[]int) {
	f := &cs.b.Forms[fi]
	cs.evald++
	cs.fails = append(cs.fails, failure{fi, f.trigger(), mode, errClass(err), f.expected(formID(fi)), firstLine(err)})
	if f.X != "" && known(f.trigger(), mode) {
		// a listed class that takes the whole program down: its other members are not run
		var keep []int
		for _, o := range *rest {
			if cs.b.Forms[o].X == f.X {
				if cs.dropped == nil {
					cs.dropped = map[string]int{}
				}
				cs.dropped[f.X]++
				continue
			}
			keep = append(keep, o)
		}
		*rest = keep
	}
}

func firstLine(s string) string {
	if i := strings.IndexByte(s, '\n'); i >= 0 {
		s = s[:i]
	}
	if len(s) > 160 {
		s = s[:160]
	}
	return s
}

// ---------------------------------------------------------------------------

type checker struct {
	c  *fw.Ctx
	mu sync.Mutex
	// statistics
	hierarchies  int
	formsTotal   int
	formsFailed  int
	rounds       int
	byClass      map[string]int
	classMembers map[string]int // class id -> forms of the class that were run
	classDeviate map[string]int // class id -> of which deviating
	corroborated map[string]int // finding signature -> native corroborations done
	nativeRuns   int
	nativeForms  int
	unlisted     map[string]int
	dump         *os.File
	maxRounds    int
	seenHier     map[string]bool
}

const maxRoundsPerCase = 12

// process runs the behaviours under the interpreter and records verdicts. nativeAll asks for
// a native reference run of every behaviour (sampling is done by the caller).
func (ck *checker) process(bs []*beh, par int, nativeAll bool) {
	c := ck.c
	states := make([]*caseState, len(bs))
	for i, b := range bs {
		all := make([]int, len(b.Forms))
		for k := range all {
			all[k] = k
		}
		states[i] = &caseState{b: b, pending: all}
	}
	active := states
	for len(active) > 0 {
		jobs := make([]any, len(active))
		for i, cs := range active {
			cs.prog = render(&cs.b.H, cs.b.Forms, cs.pending)
			if cs.fullProg == nil {
				cs.fullProg = cs.prog
				if d := os.Getenv("VERIF_C05_SAVE"); d != "" && cs.b.H.N >= 3 && i < 3 {
					os.WriteFile(filepath.Join(d, fmt.Sprintf("prog%d.go", i)), []byte(cs.prog.Src), 0o644)
				}
			}
			jobs[i] = childJob{Src: cs.prog.Src}
		}
		results := c.RunChildren("c05", jobs, par, 120*time.Second, nil)
		var next []*caseState
		for i, cs := range active {
			var r childRes
			crashed := ""
			if results[i].Out != nil {
				json.Unmarshal(results[i].Out, &r)
			} else {
				crashed = results[i].Describe()
			}
			more := cs.analyze(c.IsKnown, r, crashed)
			if more && cs.rounds < maxRoundsPerCase {
				next = append(next, cs)
			} else if more {
				cs.giveup = fmt.Sprintf("%d forms still unevaluated after %d rounds of removing aborting forms", len(cs.pending), cs.rounds)
			}
		}
		active = next
	}
	// native reference
	var natIdx []int
	for i, cs := range states {
		need := nativeAll
		for _, f := range cs.fails {
			sig := f.trigger + " / " + f.mode
			if !c.IsKnown(f.trigger, f.mode) {
				need = true
			} else {
				ck.mu.Lock()
				if ck.corroborated[sig] < 2 {
					ck.corroborated[sig]++
					need = true
				}
				ck.mu.Unlock()
			}
		}
		if cs.giveup != "" {
			need = true
		}
		if need {
			natIdx = append(natIdx, i)
		}
	}
	natOK := map[int]bool{}
	if len(natIdx) > 0 {
		srcs := make([]string, len(natIdx))
		for k, i := range natIdx {
			srcs[k] = states[i].fullProg.Src
		}
		nres := c.NativeBatch(srcs, 60*time.Second)
		for k, i := range natIdx {
			natOK[i] = ck.checkNative(states[i], nres[k])
		}
	}
	// verdicts
	for i, cs := range states {
		b := cs.b
		hk := b.H.key()
		ck.mu.Lock()
		ck.hierarchies++
		ck.rounds += cs.rounds
		if cs.rounds > ck.maxRounds {
			ck.maxRounds = cs.rounds
		}
		ck.formsTotal += cs.evald
		ck.formsFailed += len(cs.fails)
		first := !ck.seenHier[hk]
		ck.seenHier[hk] = true
		ck.mu.Unlock()
		ck.mu.Lock()
		c.TracesVsImpl++
		ck.mu.Unlock()
		hh := fnv.New64a()
		hh.Write([]byte(hk))
		hs := strconv.FormatUint(hh.Sum64(), 36)
		ck.mu.Lock()
		for fi := range b.Forms {
			if x := b.Forms[fi].X; x != "" {
				ck.classMembers[classID(x)]++
			}
		}
		for _, f := range cs.fails {
			if x := b.Forms[f.fi].X; x != "" {
				ck.classDeviate[classID(x)]++
			}
		}
		ck.mu.Unlock()
		for fi := range b.Forms {
			f := &b.Forms[fi]
			c.Count(hs+"#"+f.key(), f.D != "nil" && f.K != "inil")
		}
		if first && b.H.N >= 2 {
			c.Sample(map[string]any{"hierarchy": hk, "forms": len(b.Forms), "example_form": b.Forms[len(b.Forms)/2].key(),
				"expected_line": b.Forms[len(b.Forms)/2].expected("fNNN")})
		}
		if nat, done := natOK[i]; done && !nat {
			continue // the specification disagrees with the toolchain on this program: SPEC-ERROR recorded
		}
		_, corroboratedNow := natOK[i]
		if cs.giveup != "" {
			c.Fail("program", cs.giveup, map[string]any{"h": b.H, "forms": b.Forms, "program": cs.fullProg.Src})
		}
		if ck.dump != nil {
			fm := map[int]failure{}
			for _, f := range cs.fails {
				fm[f.fi] = f
			}
			var buf bytes.Buffer
			for fi := range b.Forms {
				f := &b.Forms[fi]
				row := map[string]any{"h": hk, "k": f.K, "s": f.S, "d": f.D, "t": f.T, "m": f.M, "ft": f.Ft, "fs": f.Fs, "x": f.X, "r": f.R, "mode": "", "giveup": cs.giveup, "rounds": cs.rounds, "facts": b.Facts}
				if fl, bad := fm[fi]; bad {
					row["mode"], row["want"], row["got"], row["cl"] = fl.detail, fl.want, fl.got, f.Cl
				}
				js, _ := json.Marshal(row)
				buf.Write(append(js, '\n'))
			}
			ck.mu.Lock()
			ck.dump.Write(buf.Bytes())
			ck.mu.Unlock()
		}
		for _, f := range cs.fails {
			ck.mu.Lock()
			if corroboratedNow {
				c.DisagreeChk++
			}
			ck.byClass[f.trigger+" / "+f.mode]++
			ck.mu.Unlock()
			// a call of a shared site is replayed after the calls the site has seen before it
			idx := []int{}
			var pre []form
			if b.Forms[f.fi].shared() {
				for o := 0; o < f.fi; o++ {
					if b.Forms[o].shared() && b.Forms[o].site() == b.Forms[f.fi].site() {
						idx = append(idx, o)
						pre = append(pre, b.Forms[o])
					}
				}
			}
			idx = append(idx, f.fi)
			one := render(&b.H, b.Forms, idx)
			rep := map[string]any{"h": b.H, "pre": pre, "form": b.Forms[f.fi], "hierarchy": hk, "facts": b.Facts, "expected": f.want, "observed": f.got, "detail": f.detail, "program": one.Src}
			if !c.Fail(f.trigger, f.mode, rep) {
				ck.mu.Lock()
				ck.unlisted[f.trigger+" / "+f.mode]++
				ck.mu.Unlock()
			}
		}
	}
}

// checkNative compares the natively built program with the model on every form.
func (ck *checker) checkNative(cs *caseState, n fw.NativeResult) bool {
	c := ck.c
	hk := cs.b.H.key()
	ck.mu.Lock()
	ck.nativeRuns++
	ck.mu.Unlock()
	if !n.BuildOK {
		c.SpecError("the toolchain rejects the program generated for %s: %s", hk, lastLines(n.BuildErr, 3))
		return false
	}
	lines := map[string]string{}
	for _, l := range strings.Split(n.Stdout, "\n") {
		if i := strings.IndexByte(l, '|'); i > 0 {
			lines[l[:i]] = l
		}
	}
	ok := true
	for si := range cs.fullProg.IDs {
		id := cs.fullProg.IDs[si]
		want := cs.b.Forms[si].expected(id)
		got := lines[id]
		if strings.HasPrefix(got, id+"|panic") {
			got = id + "|panic"
		}
		if got != want {
			c.SpecError("specification and compiled Go disagree on %s form %s: model %q, native %q", hk, cs.b.Forms[si].key(), want, got)
			ok = false
			break
		}
		ck.mu.Lock()
		ck.nativeForms++
		ck.mu.Unlock()
	}
	if ok && !strings.Contains(n.Stdout, "\nEND\n") && !strings.HasPrefix(n.Stdout, "END\n") {
		c.SpecError("native program for %s did not reach its end: %s", hk, firstLine(n.Stderr))
		ok = false
	}
	return ok
}

func lastLines(s string, n int) string {
	l := strings.Split(strings.TrimSpace(s), "\n")
	if len(l) > n {
		l = l[len(l)-n:]
	}
	return strings.Join(l, " ; ")
}

// ---------------------------------------------------------------------------

// cfg writes a TLC configuration. The seeded parts (sub-sampled enumerations, simulation) do
// not generate the forms of the listed classes (exclude); the exhaustive parts do.
func cfg(spec string, maxN int, shape string, percent int, seed int64, lo, hi int, invs string) []byte {
	exclude := "FALSE"
	if percent < 100 || spec == "SpecSim" {
		exclude = "TRUE"
	}
	return []byte(fmt.Sprintf("SPECIFICATION %s\nCONSTANTS MaxN = %d Shape = %q Percent = %d Seed = %d Lo = %d Hi = %d Exclude = %s\nINVARIANTS %s\n",
		spec, maxN, shape, percent, seed, lo, hi, exclude, invs))
}

const allInvs = "InvSubset InvLookupFunction InvMethodSetRule InvAssertIffImpl InvIfaceCopy InvSwitchFirst InvSiteHistoryFree InvOwnReceiver Emit"

type tlcJob struct {
	name     string
	cfg      []byte
	sim      bool
	num      int
	seed     int64
	workers  int
	native   int // 1 in `native` behaviours gets a native reference run (0: none)
	coverage bool
}

func run(c *fw.Ctx) error {
	c.Rule = "a case is one (hierarchy, form): hierarchies generated by Dispatch.tla (all single-embedding chains with n <= 3, a seeded share of the two-embedding shapes with n = 3, seeded simulation of n = 4 with shadowing), each crossed with every legal call / interface / assertion / type-switch / host-interface form on a T1 object; forms whose dynamic value is a nil interface are counted as trivial; distinct by (hierarchy, form kind, static source type, dynamic kind, target / clause list, method)"
	c.Assumptions = []string{
		"the Go toolchain (native build of the same generated program) validates the specification: on every unlisted disagreement, on two programs per listed finding signature, and on a sample of agreeing programs",
		"types are structurally distinct (private counter field per type); every embedded pointer is non-nil",
		"all faces of an abstract method (M: M/String/Len/Less/Swap, N: N/Error/Write) are declared on the same type with the same receiver kind",
		"sort.Sort on a 2-element collection calls Len, Less(1,0), Swap(1,0) in that order; fmt looks for error before fmt.Stringer",
		"forms are evaluated on T1 objects only; T2..Tn take part as embedded types and as assertion targets",
	}
	ck := &checker{c: c, classMembers: map[string]int{}, classDeviate: map[string]int{}, byClass: map[string]int{}, corroborated: map[string]int{}, unlisted: map[string]int{}, seenHier: map[string]bool{}}
	if p := os.Getenv("VERIF_C05_DUMP"); p != "" {
		f, err := os.Create(p)
		if err != nil {
			return err
		}
		defer f.Close()
		ck.dump = f
	}
	if c.Replay != "" {
		var rp struct {
			H    hier   `json:"h"`
			Pre  []form `json:"pre"`
			Form form   `json:"form"`
		}
		if err := c.LoadReplay(&rp); err != nil {
			return err
		}
		ck.process([]*beh{{H: rp.H, Forms: append(rp.Pre, rp.Form)}}, 1, true)
		return nil
	}

	// witnesses of the listed findings (pinned, independent of the seed)
	if err := ck.witnesses(); err != nil {
		return err
	}

	var jobs []tlcJob
	// index space: n = 1: 0..8, n = 2: 9..251, n = 3: 252..19934
	const hi3 = 19934
	if c.Quick() {
		slices := 4
		for s := 0; s < slices; s++ {
			lo, hi := s*(hi3+1)/slices, (s+1)*(hi3+1)/slices-1
			jobs = append(jobs, tlcJob{name: fmt.Sprintf("chain.%d", s), cfg: cfg("Spec", 3, "chain", 10, c.Seed, lo, hi, allInvs), workers: 4, native: 30})
		}
		jobs = append(jobs, tlcJob{name: "fork", cfg: cfg("Spec", 3, "fork", 1, c.Seed, 0, hi3, allInvs), workers: 4, native: 30})
		jobs = append(jobs, tlcJob{name: "sim4", cfg: cfg("SpecSim", 4, "any", 100, c.Seed, 0, 0, allInvs), sim: true, num: 1, seed: c.Seed*100 + 1, native: 12})
	} else {
		slices := 12
		for s := 0; s < slices; s++ {
			lo, hi := s*(hi3+1)/slices, (s+1)*(hi3+1)/slices-1
			jobs = append(jobs, tlcJob{name: fmt.Sprintf("chain.%d", s), cfg: cfg("Spec", 3, "chain", 100, c.Seed, lo, hi, allInvs), workers: 4, native: 40})
		}
		for s := 0; s < slices; s++ {
			lo, hi := s*(hi3+1)/slices, (s+1)*(hi3+1)/slices-1
			jobs = append(jobs, tlcJob{name: fmt.Sprintf("fork.%d", s), cfg: cfg("Spec", 3, "fork", 12, c.Seed, lo, hi, allInvs), workers: 4, native: 40})
		}
		for s := 0; s < 8; s++ {
			jobs = append(jobs, tlcJob{name: fmt.Sprintf("sim4.%d", s), cfg: cfg("SpecSim", 4, "any", 100, c.Seed, 0, 0, allInvs), sim: true, num: 1, seed: c.Seed*100 + int64(s), native: 8})
		}
	}
	if os.Getenv("VERIF_C05_COVERAGE") != "" {
		jobs = []tlcJob{{name: "coverage", cfg: cfg("Spec", 2, "chain", 100, 1, 0, hi3, allInvs), workers: 4, coverage: true}}
	}
	if d := os.Getenv("VERIF_C05_ONLY"); d != "" {
		// development aid: <maxN>:<shape>:<percent>:<native every k>
		var n, pc, nat int
		var shape string
		parts := strings.Split(d, ":")
		n, _ = strconv.Atoi(parts[0])
		shape = parts[1]
		pc, _ = strconv.Atoi(parts[2])
		nat, _ = strconv.Atoi(parts[3])
		jobs = nil
		if shape == "sim" {
			for s := 0; s < 4; s++ {
				jobs = append(jobs, tlcJob{name: fmt.Sprintf("sim4.%d", s), cfg: cfg("SpecSim", n, "any", 100, c.Seed, 0, 0, allInvs), sim: true, num: 1, seed: c.Seed*100 + int64(s), native: nat})
			}
		}
		if len(parts) >= 6 {
			lo, _ := strconv.Atoi(parts[4])
			hi, _ := strconv.Atoi(parts[5])
			jobs = append(jobs, tlcJob{name: "dev", cfg: cfg("Spec", n, shape, pc, c.Seed, lo, hi, allInvs), workers: 4, native: nat})
			shape = "sim"
		}
		for s := 0; s < 4 && shape != "sim"; s++ {
			lo, hi := s*(hi3+1)/4, (s+1)*(hi3+1)/4-1
			jobs = append(jobs, tlcJob{name: "dev", cfg: cfg("Spec", n, shape, pc, c.Seed, lo, hi, allInvs), workers: 4, native: nat})
		}
	}
	simDepth := 50
	if c.Quick() {
		simDepth = 24
	}
	// two pipelines in parallel, each TLC (4 workers) then children: at most 8 JVM worker
	// threads at any time (the machine is shared)
	const lanes = 2
	var wg sync.WaitGroup
	errs := make(chan error, len(jobs))
	jobCh := make(chan tlcJob)
	var tlcWall time.Duration
	var tlcMu sync.Mutex
	for l := 0; l < lanes; l++ {
		wg.Add(1)
		go func() {
			defer wg.Done()
			for j := range jobCh {
				var bs []*beh
				var perr error
				on := func(r json.RawMessage) {
					var b beh
					if err := json.Unmarshal(r, &b); err != nil {
						perr = err
						return
					}
					bs = append(bs, &b)
				}
				var res *fw.TLCResult
				var err error
				for attempt := 0; attempt < 3; attempt++ {
					bs, perr = nil, nil
					res, err = c.TLC(fw.TLCOpts{Dir: "spec/core", Module: "Dispatch", Cfg: "gen.cfg", Files: map[string][]byte{"gen.cfg": j.cfg},
						Simulate: j.sim, Num: j.num, Depth: simDepth, Seed: j.seed, Workers: j.workers, OnBeh: on, Timeout: 9 * time.Minute, HeapMB: 2500, Coverage: j.coverage})
					// a JVM killed from outside (SIGTERM/SIGKILL, e.g. somebody's pkill of stray TLCs) is started again
					if err == nil || !(strings.Contains(err.Error(), "(exit 143)") || strings.Contains(err.Error(), "(exit 137)")) {
						break
					}
				}
				if err != nil {
					errs <- fmt.Errorf("%s: %v", j.name, err)
					continue
				}
				if res.Violated != "" {
					errs <- fmt.Errorf("%s: model-level property violated: %s\n%s", j.name, res.Violated, tail(res.Output, 1500))
					continue
				}
				if perr != nil {
					errs <- fmt.Errorf("%s: behaviour not parsed: %v", j.name, perr)
					continue
				}
				tlcMu.Lock()
				tlcWall += res.Wall
				if j.coverage {
					c.Extra["tlc_coverage"] = res.Cover
				}
				tlcMu.Unlock()
				if j.sim {
					tlcMu.Lock()
					c.States += int64(len(bs))
					c.Transitions += int64(len(bs))
					tlcMu.Unlock()
				}
				// native sample: deterministic in the seed
				var nat, rest []*beh
				for i, b := range bs {
					if j.native > 0 && (i+int(c.Seed))%j.native == 0 {
						nat = append(nat, b)
					} else {
						rest = append(rest, b)
					}
				}
				ck.process(rest, 16/lanes, false)
				ck.process(nat, 16/lanes, true)
			}
		}()
	}
	for _, j := range jobs {
		jobCh <- j
	}
	close(jobCh)
	wg.Wait()
	close(errs)
	for err := range errs {
		return err
	}
	c.Exhaustive = false
	c.Extra["exhaustive_parts"] = "thorough: every single-embedding hierarchy (chain) with n <= 3 x every form (3087 hierarchies), plus a seeded 20% of the two-embedding shapes with n = 3 and 400 simulated n = 4 hierarchies; quick: seeded 10% of the chains, 1% of the two-embedding shapes, 24 n = 4 hierarchies"
	c.Extra["hierarchies_run"] = ck.hierarchies
	c.Extra["forms_evaluated"] = ck.formsTotal
	c.Extra["forms_deviating"] = ck.formsFailed
	c.Extra["interpreter_runs"] = ck.rounds
	c.Extra["max_rounds_per_hierarchy"] = ck.maxRounds
	c.Extra["native_reference_programs"] = ck.nativeRuns
	c.Extra["native_reference_forms_agreeing_with_model"] = ck.nativeForms
	c.Extra["tlc_wall_s_sum"] = tlcWall.Seconds()
	c.Extra["deviations_by_signature"] = ck.byClass
	c.Extra["listed_class_forms_run"] = ck.classMembers
	c.Extra["listed_class_forms_deviating"] = ck.classDeviate
	fmt.Printf("C05: %d hierarchies, %d forms evaluated (%d deviating, %d unlisted signatures), %d interpreter runs, %d native reference programs (%d forms), TLC %.1fs (sum over JVMs)\n",
		ck.hierarchies, ck.formsTotal, ck.formsFailed, len(ck.unlisted), ck.rounds, ck.nativeRuns, ck.nativeForms, tlcWall.Seconds())
	if len(ck.unlisted) > 0 {
		var ks []string
		for k, n := range ck.unlisted {
			ks = append(ks, fmt.Sprintf("%6d  %s", n, k))
		}
		sort.Strings(ks)
		for i, k := range ks {
			if i >= 40 {
				break
			}
			fmt.Println("UNLISTED", k)
		}
	}
	return nil
}

func classID(x string) string {
	if i := strings.IndexByte(x, ' '); i > 0 {
		return x[:i]
	}
	return x
}

func tail(s string, n int) string {
	if len(s) > n {
		return s[len(s)-n:]
	}
	return s
}

// witnesses replays the pinned witness of every listed C05 finding.
func (ck *checker) witnesses() error {
	ms, _ := filepath.Glob(filepath.Join(ck.c.Root, "replays", "witness", "C05-*.json"))
	sort.Strings(ms)
	var bs []*beh
	for _, p := range ms {
		b, err := os.ReadFile(p)
		if err != nil {
			return err
		}
		var w struct {
			Case struct {
				H    hier   `json:"h"`
				Pre  []form `json:"pre"`
				Form form   `json:"form"`
			} `json:"case"`
		}
		if err := json.Unmarshal(b, &w); err != nil {
			return fmt.Errorf("%s: %v", p, err)
		}
		bs = append(bs, &beh{H: w.Case.H, Forms: append(w.Case.Pre, w.Case.Form)})
	}
	if len(bs) > 0 {
		ck.process(bs, 8, false)
	}
	ck.c.Extra["witnesses_replayed"] = len(bs)
	return nil
}
