package main

import (
	"encoding/json"
	"fmt"
	"hash/fnv"
	"sort"
	"strconv"
	"strings"
)

// hier is a hierarchy as emitted by Dispatch.tla (1-based in the spec, 0-based slices here).
type hier struct {
	N    int                 `json:"n"`
	Emb  [][]string          `json:"emb"`  // Emb[i][j] in {"no","val","ptr"}
	Meth []map[string]string `json:"meth"` // Meth[i]["M"|"N"] in {"none","val","ptr"}
}

type logEntry struct {
	T int    `json:"t"`
	F string `json:"f"`
	C int    `json:"c"`
}

// form is one call / assertion form with the model's predicted observation.
type form struct {
	K   string     `json:"k"`
	S   string     `json:"s"`
	D   string     `json:"d"`
	T   string     `json:"t"`
	M   string     `json:"m"`
	Cl  [][]string `json:"cl"`
	Lb  []int      `json:"lb"`
	R   string     `json:"r"`
	Log []logEntry `json:"log"`
	Fin []int      `json:"fin"`
	Aux []int      `json:"aux"`
	Ft  []string   `json:"ft"`
	Fs  []string   `json:"fs"`
	X   string     `json:"x"`
	J   int        `json:"j"` // root type of the dynamic value (shared-site forms; 1 otherwise)
	O   string     `json:"o"` // "1" | "2": order in which a shared site sees its values; "" otherwise
}

type beh struct {
	H     hier            `json:"h"`
	Facts json.RawMessage `json:"facts,omitempty"`
	Forms []form          `json:"forms"`
}

func (h *hier) key() string {
	var b strings.Builder
	for i := 0; i < h.N; i++ {
		fmt.Fprintf(&b, "T%d{", i+1)
		for j := 0; j < h.N; j++ {
			switch h.Emb[i][j] {
			case "val":
				fmt.Fprintf(&b, "T%d ", j+1)
			case "ptr":
				fmt.Fprintf(&b, "*T%d ", j+1)
			}
		}
		fmt.Fprintf(&b, "M:%s N:%s} ", h.Meth[i]["M"], h.Meth[i]["N"])
	}
	return strings.TrimSpace(b.String())
}

func (f *form) key() string {
	cl := ""
	if f.K == "switch" || f.K == "sswitch" {
		cl = fmt.Sprint(f.Cl)
	}
	if f.K == "nest" || f.K == "mvpair" || f.K == "mvcall" {
		return strings.Join([]string{f.K, f.S, f.D, f.T, f.M, "T" + strconv.Itoa(f.J)}, "/")
	}
	if f.O != "" {
		return strings.Join([]string{f.K, f.S, f.D, f.T, f.M, cl, "T" + strconv.Itoa(f.J), "o" + f.O}, "/")
	}
	return strings.Join([]string{f.K, f.S, f.D, f.T, f.M, cl}, "/")
}

// paths lists the embedding paths below T1 in the spec's PathSeq order.
func (h *hier) paths() [][]int { return h.pathsFrom(0) }

// shared reports whether the form is one call of a shared site.
func (f *form) shared() bool { return f.O != "" }

// site is the name of the helper function a shared-site form calls.
func (f *form) site() string {
	return "site_" + f.K + "_" + f.S + "_" + f.T + "_o" + f.O
}

func sprobe(y, t string) string {
	switch t {
	case "IM", "IN", "IMN", "Stringer", "error", "Sort", "Writer":
		return probe(y, t)
	}
	return "_ = " + y
}

// siteDecl renders the helper function of a shared site (the same for all its forms).
func (f *form) siteDecl() string {
	name := f.site()
	switch f.K {
	case "sassert2":
		return "func " + name + "(x " + goType(f.S) + ") string {\n\ty, ok := x.(" + goType(f.T) + ")\n\t_ = y\n\tif ok {\n\t\t" + sprobe("y", f.T) + "\n\t}\n\treturn strconv.FormatBool(ok)\n}\n\n"
	case "sassert1":
		return "func " + name + "(x " + goType(f.S) + ") string {\n\ty := x.(" + goType(f.T) + ")\n\t" + sprobe("y", f.T) + "\n\treturn \"ok\"\n}\n\n"
	case "scall":
		return "func " + name + "(i " + goType(f.S) + ") {\n\t" + probe("i", f.S) + "\n}\n\n"
	case "sswitch":
		var b strings.Builder
		bind := f.M == "bind"
		b.WriteString("func " + name + "(x " + goType(f.S) + ") string {\n")
		if bind {
			b.WriteString("\tswitch y := x.(type) {\n")
		} else {
			b.WriteString("\tswitch x.(type) {\n")
		}
		for u, cl := range f.Cl {
			ts := make([]string, len(cl))
			for w, t := range cl {
				ts[w] = goType(t)
			}
			b.WriteString("\tcase " + strings.Join(ts, ", ") + ":\n")
			if bind {
				b.WriteString("\t\t_ = y\n")
				if len(cl) == 1 && cl[0] != "nil" {
					b.WriteString("\t\t" + sprobe("y", cl[0]) + "\n")
				}
			}
			b.WriteString("\t\treturn " + strconv.Quote(strconv.Itoa(f.Lb[u])) + "\n")
		}
		b.WriteString("\tdefault:\n")
		if bind {
			b.WriteString("\t\t_ = y\n")
		}
		b.WriteString("\t\treturn \"def\"\n\t}\n\treturn \"?\"\n}\n\n")
		return b.String()
	}
	return "UNKNOWN_SITE_KIND_" + f.K
}

// sharedBody renders one call of a shared site with the form's dynamic value (a fresh object).
func (f *form) sharedBody(id string) string {
	q := strconv.Quote(id)
	mk := "mk()"
	if f.J > 1 {
		mk = fmt.Sprintf("mk%d()", f.J)
	}
	pre, arg := "w := "+mk+"; ", "w"
	switch f.D {
	case "ptr":
		pre, arg = "w := "+mk+"; ", "&w"
	case "nil":
		pre, arg = "var z "+goType(f.S)+"; ", "z"
	}
	if f.K == "scall" {
		return pre + "lg = \"\"; " + f.site() + "(" + arg + "); outs(" + q + ", \"ok\")"
	}
	return pre + "lg = \"\"; r := " + f.site() + "(" + arg + "); outs(" + q + ", r)"
}

// pathsFrom lists the embedding paths below type root (0-based) in the spec's PathSeq order.
func (h *hier) pathsFrom(root int) [][]int {
	var res [][]int
	var walk func(p []int)
	walk = func(p []int) {
		res = append(res, append([]int(nil), p...))
		last := p[len(p)-1]
		for j := 0; j < h.N; j++ {
			if h.Emb[last][j] != "no" {
				walk(append(p, j))
			}
		}
	}
	walk([]int{root})
	return res
}

func fieldSel(base string, p []int) string {
	s := base
	for _, t := range p[1:] {
		s += fmt.Sprintf(".T%d", t+1)
	}
	return s + fmt.Sprintf(".c%d", p[len(p)-1]+1)
}

var faces = map[string][]string{
	"M": {"M", "String", "Len", "Less", "Swap", "Acc", "Read", "ReadFrom"},
	"N": {"N", "Error", "Write", "Bcc", "WriteTo"},
}

func goType(t string) string {
	switch {
	case strings.HasPrefix(t, "PT"):
		return "*T" + t[2:]
	case t == "E":
		return "interface{}"
	case t == "Stringer":
		return "fmt.Stringer"
	case t == "Sort":
		return "sort.Interface"
	case t == "Writer":
		return "io.Writer"
	}
	return t // T1.., IM, IN, IMN, error, int, nil
}

// probe renders what the program does with a value y of (static) type t.
func probe(y, t string) string {
	switch t {
	case "T1":
		return "aux = st(&" + y + ")"
	case "PT1":
		return "aux = strconv.FormatBool(" + y + " == &v) + \":\" + st(" + y + ")"
	case "IM":
		return y + ".M()"
	case "IN":
		return y + ".N()"
	case "IMN":
		return y + ".M(); " + y + ".N()"
	case "Stringer":
		return y + ".String()"
	case "error":
		return y + ".Error()"
	case "Sort":
		return y + ".Len(); " + y + ".Less(1, 0); " + y + ".Swap(1, 0)"
	case "Writer":
		return y + ".Write(nil)"
	}
	return "_ = " + y
}

// convSpelling: the holder is declared `x := I(v)` instead of `var x I = v` (set per form by body,
// from the hash of the form's identity: concrete syntax that the specification does not tell apart).
var convSpelling bool

func capture(name, s, d string) string {
	if convSpelling && (d == "val" || d == "ptr") {
		t := goType(s)
		if strings.HasPrefix(t, "interface") {
			t = "(" + t + ")"
		}
		return name + " := " + t + "(" + operand(d) + ")"
	}
	switch d {
	case "val":
		return "var " + name + " " + goType(s) + " = v"
	case "ptr":
		return "var " + name + " " + goType(s) + " = &v"
	}
	return "var " + name + " " + goType(s)
}

func operand(d string) string {
	if d == "ptr" {
		return "&v"
	}
	return "v"
}

// body renders the statements of one form (between the recover guard and nothing else).
func (f *form) body(id string) string {
	hs := fnv.New32a()
	hs.Write([]byte(id))
	convSpelling = hs.Sum32()%3 == 0
	if f.shared() {
		return f.sharedBody(id)
	}
	q := strconv.Quote(id)
	out := func(r string) string { return "out(" + q + ", " + r + ", aux, &v)" }
	pre := "v := mk(); aux := \"\"; "
	m := f.M
	switch f.K {
	case "callv":
		return pre + "lg = \"\"; mut(&v); v." + m + "(); " + out(`"ok"`)
	case "callp":
		return pre + "p := &v; lg = \"\"; mut(&v); p." + m + "(); " + out(`"ok"`)
	case "calltmp":
		return pre + "lg = \"\"; mut(&v); mk()." + m + "(); " + out(`"ok"`)
	case "mvalv":
		return pre + "lg = \"\"; mut(&v); f := v." + m + "; f(); " + out(`"ok"`)
	case "mvalp":
		return pre + "p := &v; lg = \"\"; mut(&v); f := p." + m + "; f(); " + out(`"ok"`)
	case "mvalv2":
		return pre + "lg = \"\"; mut(&v); f := v." + m + "; f(); f(); " + out(`"ok"`)
	case "mvalp2":
		return pre + "p := &v; lg = \"\"; mut(&v); f := p." + m + "; f(); f(); " + out(`"ok"`)
	case "mvalvc":
		return pre + "f := v." + m + "; lg = \"\"; mut(&v); f(); " + out(`"ok"`)
	case "mvalpc":
		return pre + "p := &v; f := p." + m + "; lg = \"\"; mut(&v); f(); " + out(`"ok"`)
	case "mexpv":
		return pre + "lg = \"\"; mut(&v); T1." + m + "(v); " + out(`"ok"`)
	case "mexpp":
		return pre + "lg = \"\"; mut(&v); (*T1)." + m + "(&v); " + out(`"ok"`)
	case "mexpvf":
		return pre + "f := T1." + m + "; lg = \"\"; mut(&v); f(v); " + out(`"ok"`)
	case "mexppf":
		return pre + "f := (*T1)." + m + "; lg = \"\"; mut(&v); f(&v); " + out(`"ok"`)
	case "icall", "hcall":
		return pre + "lg = \"\"; mut(&v); " + capture("i", f.S, f.D) + "; " + probe("i", f.S) + "; " + out(`"ok"`)
	case "icallc", "hcallc":
		return pre + capture("i", f.S, f.D) + "; lg = \"\"; mut(&v); " + probe("i", f.S) + "; " + out(`"ok"`)
	case "imval", "imvalc":
		var bindf, callf string
		switch f.S {
		case "IM":
			bindf, callf = "f0 := i.M", "f0()"
		case "IN":
			bindf, callf = "f0 := i.N", "f0()"
		default:
			bindf, callf = "f0 := i.M; f1 := i.N", "f0(); f1()"
		}
		if f.K == "imval" {
			return pre + "lg = \"\"; mut(&v); " + capture("i", f.S, f.D) + "; " + bindf + "; " + callf + "; " + out(`"ok"`)
		}
		return pre + capture("i", f.S, f.D) + "; " + bindf + "; lg = \"\"; mut(&v); " + callf + "; " + out(`"ok"`)
	case "iconv":
		return pre + "lg = \"\"; mut(&v); " + capture("i", f.S, f.D) + "; var j " + goType(f.T) + " = i; " + probe("j", f.T) + "; " + out(`"ok"`)
	case "inil":
		return pre + "var i " + goType(f.S) + "; lg = \"\"; mut(&v); " + probe("i", f.S) + "; " + out(`"ok"`)
	case "assert1":
		return pre + "lg = \"\"; mut(&v); " + capture("x", f.S, f.D) + "; y := x.(" + goType(f.T) + "); " + probe("y", f.T) + "; " + out(`"ok"`)
	case "assert2":
		return pre + "lg = \"\"; mut(&v); " + capture("x", f.S, f.D) + "; y, ok := x.(" + goType(f.T) + "); _ = y; if ok { " + probe("y", f.T) + " }; " + out("strconv.FormatBool(ok)")
	case "assert2c":
		return pre + capture("x", f.S, f.D) + "; lg = \"\"; mut(&v); y, ok := x.(" + goType(f.T) + "); _ = y; if ok { " + probe("y", f.T) + " }; " + out("strconv.FormatBool(ok)")
	case "switch":
		var b strings.Builder
		b.WriteString(pre + "lg = \"\"; mut(&v); " + capture("x", f.S, f.D) + "\n")
		bind := f.M == "bind"
		if bind {
			b.WriteString("\t\tswitch y := x.(type) {\n")
		} else {
			b.WriteString("\t\tswitch x.(type) {\n")
		}
		// concrete syntax: the default clause stands before clause dpos+1 (anywhere among the clauses: its
		// position has no meaning; chosen by the form itself)
		hs := fnv.New32a()
		hs.Write([]byte(id))
		dpos := int(hs.Sum32()>>3) % (len(f.Cl) + 1)
		dflt := func() {
			b.WriteString("\t\tdefault: ")
			if bind {
				b.WriteString("_ = y; ")
			}
			b.WriteString(out(`"def"`) + "\n")
		}
		for u, cl := range f.Cl {
			if u == dpos {
				dflt()
			}
			ts := make([]string, len(cl))
			for w, t := range cl {
				ts[w] = goType(t)
			}
			b.WriteString("\t\tcase " + strings.Join(ts, ", ") + ": ")
			if bind {
				b.WriteString("_ = y; ")
				if len(cl) == 1 && cl[0] != "nil" {
					b.WriteString(probe("y", cl[0]) + "; ")
				}
			}
			b.WriteString(out(strconv.Quote(strconv.Itoa(f.Lb[u]))) + "\n")
		}
		if dpos == len(f.Cl) {
			dflt()
		}
		b.WriteString("\t\t}")
		return b.String()
	case "sprint":
		return pre + "lg = \"\"; mut(&v); aux = fmt.Sprint(" + operand(f.D) + "); " + out(`"ok"`)
	case "errorf":
		return pre + "lg = \"\"; mut(&v); aux = fmt.Errorf(\"%v\", " + operand(f.D) + ").Error(); " + out(`"ok"`)
	case "sort":
		return pre + "lg = \"\"; mut(&v); sort.Sort(" + operand(f.D) + "); " + out(`"ok"`)
	case "fprint":
		return pre + "lg = \"\"; mut(&v); fmt.Fprint(" + operand(f.D) + ", \"x\"); " + out(`"ok"`)
	case "copysrc": // bytes.Buffer has ReadFrom: without WriteTo in the source, Read is called once (0, io.EOF)
		return pre + "lg = \"\"; mut(&v); io.Copy(&bytes.Buffer{}, " + operand(f.D) + "); " + out(`"ok"`)
	case "copydst": // io.LimitedReader has no WriteTo: without ReadFrom in the destination, Write is called once
		return pre + "lg = \"\"; mut(&v); io.Copy(" + operand(f.D) + ", io.LimitReader(strings.NewReader(\"x\"), 1)); " + out(`"ok"`)
	case "sprinti":
		return pre + "lg = \"\"; mut(&v); " + capture("i", f.S, f.D) + "; aux = fmt.Sprint(i); " + out(`"ok"`)
	case "nest", "mvpair", "mvcall":
		// two receivers of one interface method: v (mutated) held by i, a fresh w (of type Tj) held by j
		mk, stw := "mk()", "st(&w)"
		if f.J > 1 {
			mk, stw = fmt.Sprintf("mk%d()", f.J), fmt.Sprintf("st%d(&w)", f.J)
		}
		it := goType(f.S)
		hold := func(name, obj, d string) string {
			if d == "ptr" {
				return "var " + name + " " + it + " = &" + obj
			}
			return "var " + name + " " + it + " = " + obj
		}
		head := pre + "lg = \"\"; mut(&v); w := " + mk + "; " + hold("i", "v", f.D) + "; " + hold("j", "w", f.T) + "; "
		face := m
		switch f.K {
		case "nest":
			face = "Acc"
			if m == "N" {
				face = "Bcc"
			}
			return head + "r := i." + face + "(j." + face + "(1)); aux = strconv.Itoa(r) + \":\" + " + stw + "; " + out(`"ok"`)
		case "mvpair":
			return head + "h := i." + face + "; k := j." + face + "; h(); k(); aux = " + stw + "; " + out(`"ok"`)
		}
		return head + "h := i." + face + "; j." + face + "(); h(); aux = " + stw + "; " + out(`"ok"`)
	}
	return "UNKNOWN_FORM_KIND_" + f.K
}

func joinInts(v []int) string {
	s := make([]string, len(v))
	for i, x := range v {
		s[i] = strconv.Itoa(x)
	}
	return strings.Join(s, ",")
}

// expected is the output line the model predicts for the form.
func (f *form) expected(id string) string {
	if f.R == "panic" {
		return id + "|panic"
	}
	var lg strings.Builder
	for _, e := range f.Log {
		fmt.Fprintf(&lg, "T%d.%s:%d;", e.T, e.F, e.C)
	}
	if f.shared() {
		return id + "|" + f.R + "|" + lg.String() + "||"
	}
	aux := ""
	switch {
	case f.K == "sprint" || f.K == "errorf" || f.K == "sprinti":
		// String()/Error() return their own tag
		if n := len(f.Log); n > 0 {
			aux = fmt.Sprintf("T%d.%s", f.Log[n-1].T, f.Log[n-1].F)
		}
	case len(f.Aux) > 0:
		aux = joinInts(f.Aux)
		if f.probedType() == "PT1" {
			aux = "true:" + aux
		}
		if f.K == "nest" {
			aux = "3:" + aux // i.Acc(j.Acc(1)) = (1 + 1) + 1
		}
	}
	return id + "|" + f.R + "|" + lg.String() + "|" + aux + "|" + joinInts(f.Fin)
}

// probedType is the type of the value the form probes after a successful assertion / in the taken clause.
func (f *form) probedType() string {
	switch f.K {
	case "assert1", "assert2", "assert2c":
		return f.T
	case "switch":
		if f.M == "bind" {
			for u, l := range f.Lb {
				if strconv.Itoa(l) == f.R && len(f.Cl[u]) == 1 {
					return f.Cl[u][0]
				}
			}
		}
	}
	return ""
}

// program renders the hierarchy and the selected forms as one Go program. ids[i] is the id of
// forms[sel[i]]; lineOf maps a 1-based source line to the index (in sel) of the form it belongs to.
type program struct {
	Src    string
	IDs    []string
	lineOf map[int]int
	helper map[int]bool // source lines of shared-site helper functions (lineOf gives the site's first form)
}

func formID(i int) string { return fmt.Sprintf("f%03d", i) }

func render(h *hier, forms []form, sel []int) *program {
	var b strings.Builder
	line := 1
	w := func(s string) {
		b.WriteString(s)
		line += strings.Count(s, "\n")
	}
	w("package main\n\nimport (\n\t\"bytes\"\n\t\"fmt\"\n\t\"io\"\n\t\"sort\"\n\t\"strconv\"\n\t\"strings\"\n)\n\n")
	w("var _ io.Writer\nvar _ sort.Interface\nvar _ = strconv.Itoa\nvar _ bytes.Buffer\nvar _ = strings.NewReader\n\nvar lg string\n\n")
	w("func note(tag string, c int) { lg += tag + \":\" + strconv.Itoa(c) + \";\" }\n\n")
	w("type IM interface{ M() }\ntype IN interface{ N() }\ntype IMN interface {\n\tIM\n\tN()\n}\n")
	w("type IA interface{ Acc(int) int }\ntype IB interface{ Bcc(int) int }\n\n")
	for i := 0; i < h.N; i++ {
		w(fmt.Sprintf("type T%d struct {\n\tc%d int\n", i+1, i+1))
		for j := 0; j < h.N; j++ {
			switch h.Emb[i][j] {
			case "val":
				w(fmt.Sprintf("\tT%d\n", j+1))
			case "ptr":
				w(fmt.Sprintf("\t*T%d\n", j+1))
			}
		}
		w("}\n\n")
	}
	for i := 0; i < h.N; i++ {
		for _, m := range []string{"M", "N"} {
			k := h.Meth[i][m]
			if k == "none" {
				continue
			}
			rc := fmt.Sprintf("(r T%d)", i+1)
			if k == "ptr" {
				rc = fmt.Sprintf("(r *T%d)", i+1)
			}
			for _, face := range faces[m] {
				tag := fmt.Sprintf("T%d.%s", i+1, face)
				body := fmt.Sprintf("note(%q, r.c%d); r.c%d++", tag, i+1, i+1)
				switch face {
				case "M", "N":
					w(fmt.Sprintf("func %s %s() { %s }\n", rc, face, body))
				case "String", "Error":
					w(fmt.Sprintf("func %s %s() string { %s; return %q }\n", rc, face, body, tag))
				case "Len":
					w(fmt.Sprintf("func %s Len() int { %s; return 2 }\n", rc, body))
				case "Less":
					w(fmt.Sprintf("func %s Less(i, j int) bool { %s; return i > j }\n", rc, body))
				case "Swap":
					w(fmt.Sprintf("func %s Swap(i, j int) { %s }\n", rc, body))
				case "Write":
					w(fmt.Sprintf("func %s Write(b []byte) (int, error) { %s; return len(b), nil }\n", rc, body))
				case "Read":
					w(fmt.Sprintf("func %s Read(b []byte) (int, error) { %s; return 0, io.EOF }\n", rc, body))
				case "ReadFrom":
					w(fmt.Sprintf("func %s ReadFrom(x io.Reader) (int64, error) { %s; return 0, nil }\n", rc, body))
				case "WriteTo":
					w(fmt.Sprintf("func %s WriteTo(x io.Writer) (int64, error) { %s; return 0, nil }\n", rc, body))
				case "Acc", "Bcc":
					w(fmt.Sprintf("func %s %s(x int) int { %s; return x + 1 }\n", rc, face, body))
				}
			}
		}
	}
	paths := h.paths()
	pos := map[string]int{}
	for k, p := range paths {
		pos[fmt.Sprint(p)] = k + 1
	}
	var lit func(p []int) string
	lit = func(p []int) string {
		i := p[len(p)-1]
		s := fmt.Sprintf("T%d{c%d: %d", i+1, i+1, 10*pos[fmt.Sprint(p)])
		for j := 0; j < h.N; j++ {
			switch h.Emb[i][j] {
			case "val":
				s += fmt.Sprintf(", T%d: %s", j+1, lit(append(append([]int(nil), p...), j)))
			case "ptr":
				s += fmt.Sprintf(", T%d: &%s", j+1, lit(append(append([]int(nil), p...), j)))
			}
		}
		return s + "}"
	}
	w("\nfunc mk() T1 { return " + lit([]int{0}) + " }\n\n")
	for j := 1; j < h.N; j++ {
		// mkj(): a fresh Tj object, counters numbered along the paths below Tj
		pos = map[string]int{}
		for k, p := range h.pathsFrom(j) {
			pos[fmt.Sprint(p)] = k + 1
		}
		w(fmt.Sprintf("func mk%d() T%d { return %s }\n\n", j+1, j+1, lit([]int{j})))
	}
	for j := 1; j < h.N; j++ {
		// stj(): the counters of a Tj object along the paths below Tj
		w(fmt.Sprintf("func st%d(v *T%d) string {\n\treturn ", j+1, j+1))
		for k, p := range h.pathsFrom(j) {
			if k > 0 {
				w(" + \",\" + ")
			}
			w("strconv.Itoa(" + fieldSel("v", p) + ")")
		}
		w("\n}\n\n")
	}
	w("func st(v *T1) string {\n\treturn ")
	for k, p := range paths {
		if k > 0 {
			w(" + \",\" + ")
		}
		w("strconv.Itoa(" + fieldSel("v", p) + ")")
	}
	w("\n}\n\nfunc mut(v *T1) {\n")
	for _, p := range paths {
		w("\t" + fieldSel("v", p) + " += 100\n")
	}
	w("}\n\n")
	w("func out(id, r, aux string, v *T1) { fmt.Println(id + \"|\" + r + \"|\" + lg + \"|\" + aux + \"|\" + st(v)) }\n\n")
	w("func rec(id string) {\n\tif r := recover(); r != nil {\n\t\tfmt.Println(id + \"|panic|\" + fmt.Sprint(r))\n\t}\n}\n\n")
	w("func outs(id, r string) { fmt.Println(id + \"|\" + r + \"|\" + lg + \"||\") }\n\n")
	pr := &program{lineOf: map[int]int{}, helper: map[int]bool{}}
	seenSite := map[string]bool{}
	for si, fi := range sel {
		f := &forms[fi]
		if !f.shared() || seenSite[f.site()] {
			continue
		}
		seenSite[f.site()] = true
		start := line
		w(f.siteDecl())
		for l := start; l < line; l++ {
			pr.lineOf[l] = si
			pr.helper[l] = true
		}
	}
	w("func main() {\n")
	for si, fi := range sel {
		id := formID(fi)
		pr.IDs = append(pr.IDs, id)
		start := line
		w("\tfunc() {\n\t\tdefer rec(" + strconv.Quote(id) + ")\n\t\t" + forms[fi].body(id) + "\n\t}()\n")
		for l := start; l < line; l++ {
			pr.lineOf[l] = si
		}
	}
	w("\tfmt.Println(\"END\")\n}\n")
	pr.Src = b.String()
	return pr
}

func sortedStrings(s []string) []string {
	r := append([]string(nil), s...)
	sort.Strings(r)
	return r
}
