// Check for property C06: panics, defers and recover follow Go semantics and never
// escape Eval. GoCore.tla gives deferred calls, panics, recover and run-time faults their
// meaning and logs every registration and execution of a deferred call, so that
// ExactlyOnce / LIFO / RunAfterReg are state predicates TLC checks on every generated
// program; GoGen.tla enumerates the defer/panic family exhaustively and draws random
// programs with the "defer" weights. Every program is replayed in the interpreter:
// stdout, the class and value of the error returned by Eval, and - for the session
// form - that the same interpreter still works afterwards.
package main

import (
	"bytes"
	"context"
	"encoding/json"
	"fmt"
	"os"
	"strings"
	"time"

	"github.com/traefik/yaegi/interp"
	"github.com/traefik/yaegi/stdlib"

	"verif/fw"
	"verif/gocore"
	"verif/gorun"
)

type sessJob struct {
	Decls []string `json:"decls"`
	Entry []string `json:"entry"` // how the call is evaluated: eval | ctx | exec | execctx
}

type sessObs struct {
	gocore.Obs
	After string `json:"after"` // "ok" or what went wrong with the follow-up evaluations
}

// session form: declarations in one Eval, the call in a second one, then the same
// interpreter must evaluate a fresh expression and call a function defined earlier.
func session(decls, entry string) (o sessObs) {
	var out bytes.Buffer
	i := interp.New(interp.Options{Stdout: &out, Stderr: new(bytes.Buffer)})
	i.Use(stdlib.Symbols)
	defer func() {
		if r := recover(); r != nil {
			o.End, o.Err = "escaped", fmt.Sprint(r)
		}
	}()
	if _, err := i.Eval(decls); err != nil {
		o.End, o.Err = "error", "declarations: "+err.Error()
		return
	}
	// defined before the call that may panic: a closure kept in a variable, and a function
	// value handed to the host
	if _, err := i.Eval("var keep = func() func() int { n := 40; return func() int { n++; return n } }()"); err != nil {
		o.End, o.Err = "error", "closure definition: "+err.Error()
		return
	}
	// recover() called by an ordinary function returns nil, also in an evaluation that follows one
	// whose panic reached the host as an error (GoCore.tla: a recover statement outside a deferred
	// call, ctx.direct = FALSE, prints norec)
	if _, err := i.Eval("func norec() bool { return recover() == nil }"); err != nil {
		o.End, o.Err = "error", "norec definition: "+err.Error()
		return
	}
	var hostKeep func() int
	if v, err := i.Eval("keep"); err == nil {
		hostKeep, _ = v.Interface().(func() int)
	}
	if hostKeep == nil {
		o.End, o.Err = "error", "keep is not a func() int for the host"
		return
	}
	const call = `fmt.Println("p", 0, f(1))`
	var err error
	switch entry {
	case "ctx":
		_, err = i.EvalWithContext(context.Background(), call)
	case "exec", "execctx":
		var prog *interp.Program
		if prog, err = i.Compile(call); err == nil {
			if entry == "exec" {
				_, err = i.Execute(prog)
			} else {
				_, err = i.ExecuteWithContext(context.Background(), prog)
			}
		}
	default:
		_, err = i.Eval(call)
	}
	o.Obs = gocore.Classify(err)
	o.Stdout = out.String()
	// the interpreter must remain usable, and what was defined before must still work
	o.After = "ok"
	if v, err := i.Eval("norec()"); err != nil || !v.IsValid() || !v.Bool() {
		o.After = fmt.Sprintf("recover() in an ordinary call of a later evaluation is not nil: %v, %v", v, err)
		return
	}
	if v, err := i.Eval("keep()"); err != nil || !v.IsValid() || v.Int() != 41 {
		o.After = fmt.Sprintf("the closure kept in a variable gave %v, %v (want 41)", v, err)
		return
	}
	if got := hostKeep(); got != 42 {
		o.After = fmt.Sprintf("the function value held by the host gave %d (want 42)", got)
		return
	}
	if v, err := i.Eval("1+2"); err != nil || !v.IsValid() || v.Int() != 3 {
		o.After = fmt.Sprintf("1+2 gave %v, %v", v, err)
		return
	}
	out.Reset()
	if v, err := i.Eval("h(2)"); err != nil || !v.IsValid() || v.Int() != 2 || out.String() != "p 1 2\n" {
		o.After = fmt.Sprintf("h(2) gave %v, %v, output %q", v, err, out.String())
	}
	return
}

func init() {
	gorun.Register()
	fw.RegisterChild("c06s", func(raw json.RawMessage) any {
		var j sessJob
		json.Unmarshal(raw, &j)
		out := make([]sessObs, len(j.Decls))
		for x, d := range j.Decls {
			done := make(chan struct{})
			e := "eval"
			if x < len(j.Entry) {
				e = j.Entry[x]
			}
			go func() { defer close(done); out[x] = session(d, e) }()
			select {
			case <-done:
			case <-time.After(10 * time.Second):
				out[x] = sessObs{Obs: gocore.Obs{End: "timeout"}}
			}
		}
		return out
	})
}

func main() { fw.Main("C06", "model_checking", run) }

const invs = "INVARIANTS StatusOK ExactlyOnce RunAfterReg LIFO Emit\n"

func run(c *fw.Ctx) error {
	if len(os.Args) >= 3 && os.Args[1] == "--reduce" {
		return gorun.Reduce(c, os.Args[2])
	}
	c.Rule = "exhaustive family: every body of FamN statements of f over the defer/panic menu (deferred print / named function / literal, in loops, nested; recover direct / via helper / nested / absent; re-panic; explicit panic; run-time faults; named-result updates) x 4 callers; plus random programs drawn with the defer weights; non-trivial when the program registers a deferred call or panics; distinct by source text"
	c.Assumptions = []string{
		"the renderer from abstract syntax to Go source (harness/gocore) is faithful",
		"run-time fault values are compared as a class (\"fault\"): the interpreter's messages legitimately differ from the runtime's",
		"an explicit panic value surfaces from Eval wrapped in a reflect.Value; the check unwraps it",
		"panic(nil) and panics in spawned goroutines are not generated",
	}
	var behs []gocore.Beh
	if c.Replay != "" {
		var b gocore.Beh
		if err := c.LoadReplay(&b); err != nil {
			return err
		}
		behs = []gocore.Beh{b}
	} else {
		all7 := `{"nilDeref", "index", "sliceBounds", "divZero", "nilMapWrite", "badAssert", "closeClosed"}`
		fam := func(n int, faults string) string {
			return fmt.Sprintf("SPECIFICATION SpecFam\nCONSTANTS Profile = \"defer\" Pinned = TRUE FamN = %d FamFaults = %s\n%s", n, faults, invs)
		}
		// pinned witnesses of the known findings of the sequential core
		b0, err := gorun.Generate(c, "SPECIFICATION SpecWit\nCONSTANTS Profile = \"core\" Pinned = TRUE FamN = 1 FamFaults = {}\n"+invs, false, 1, 0, 0)
		if err != nil {
			return err
		}
		behs = append(behs, b0...)
		b1, err := gorun.Generate(c, fam(2, all7), false, 1, 0, 0)
		if err != nil {
			return err
		}
		behs = append(behs, b1...)
		if !c.Quick() {
			b2, err := gorun.Generate(c, fam(3, `{"divZero", "nilMapWrite", "index"}`), false, 1, 0, 0)
			if err != nil {
				return err
			}
			behs = append(behs, b2...)
		}
		sim := "SPECIFICATION SpecSim\nCONSTANTS Profile = \"defer\" Pinned = FALSE FamN = 1 FamFaults = {}\n" + invs
		b3, err := gorun.Generate(c, sim, true, c.Pick(4, 14), c.Pick(6, 60), 50)
		if err != nil {
			return err
		}
		behs = append(behs, b3...)
		c.Exhaustive = false
		c.Extra["exhaustive_parts"] = "defer/panic family (FamN=2 with all 7 fault kinds; thorough adds FamN=3 with 3 fault kinds)"
	}
	if err := gorun.Check(c, behs, c.Pick(0, 300)); err != nil {
		return err
	}
	return sessions(c, behs)
}

// sessions replays the single-call programs of the family as interactive sessions.
func sessions(c *fw.Ctx, behs []gocore.Beh) error {
	var sel []int
	for i := range behs {
		m := behs[i].Prog.Main
		if len(m) == 1 && m[0].K == "print" && behs[i].Prog.Funcs["h"] != nil && behs[i].Prog.Name == "" {
			sel = append(sel, i)
		}
	}
	const chunk = 30
	var jobs []any
	for x := 0; x < len(sel); x += chunk {
		y := x + chunk
		if y > len(sel) {
			y = len(sel)
		}
		var j sessJob
		for k, i := range sel[x:y] {
			j.Decls = append(j.Decls, strings.Replace(gocore.Prelude, "package main\n", "", 1)+"\n"+behs[i].Prog.FuncDecls())
			j.Entry = append(j.Entry, []string{"eval", "ctx", "exec", "execctx"}[(x+k)%4])
		}
		jobs = append(jobs, j)
	}
	for ji, r := range c.RunChildren("c06s", jobs, 16, 120*time.Second, nil) {
		var os []sessObs
		if r.Out == nil || json.Unmarshal(r.Out, &os) != nil {
			return fmt.Errorf("session replay: harness child %s", r.Describe())
		}
		for x, o := range os {
			b := &behs[sel[ji*chunk+x]]
			c.Count("session:"+jobs[ji].(sessJob).Decls[x], true)
			c.TracesVsImpl++
			rep := map[string]any{"prog": b.Prog, "out": b.Out, "status": b.Status, "pval": b.Pval, "session": true,
				"decls": jobs[ji].(sessJob).Decls[x], "entry": jobs[ji].(sessJob).Entry[x], "call": `fmt.Println("p", 0, f(1))`, "expected_stdout": b.ExpectedStdout(), "observed": o}
			switch {
			case !b.Agrees(o.Obs):
				c.Fail("session", "the call behaves differently from the whole program: "+o.End+" "+o.Value+" "+o.Err, rep)
			case o.After != "ok":
				c.Fail("session", "interpreter not usable afterwards: "+o.After, rep)
			}
		}
	}
	return nil
}
