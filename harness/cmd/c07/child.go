package main

// Execution of one scenario against the real interpreter (in a child process).

import (
	"bytes"
	"context"
	"encoding/json"
	"fmt"
	"reflect"
	"runtime/debug"
	"strings"
	"sync"
	"time"

	"github.com/traefik/yaegi/interp"
	"github.com/traefik/yaegi/stdlib"

	"verif/fw"
	"verif/hostpkg"
)

// obs is what one run of a scenario produced.
type obs struct {
	Cross  string `json:"cross"`  // transcript with the scenario's sides
	Inside string `json:"inside"` // transcript of the same call wholly inside the script
	Host   string `json:"host"`   // transcript of the same call wholly on the host (self-check of the reflect side)
	CrossE string `json:"crossE,omitempty"`
	InsE   string `json:"insE,omitempty"`
	HostE  string `json:"hostE,omitempty"`
}

// cjob is one batch for a child. Full: the interpreter gets the whole stdlib.Symbols and
// the script prints with fmt.Println (22 ms per interpreter instead of 0.03 ms); otherwise
// only errors and strconv are bound and the script prints through hostpkg.Emit.
type cjob struct {
	Full bool
	Ss   []scn
}

var lean = interp.Exports{"errors/errors": stdlib.Symbols["errors/errors"], "strconv/strconv": stdlib.Symbols["strconv/strconv"]}

func init() {
	fw.RegisterChild("c07", func(job json.RawMessage) any {
		debug.SetMaxStack(256 << 20) // a runaway recursion must die quickly
		var j cjob
		if err := json.Unmarshal(job, &j); err != nil {
			return []obs{}
		}
		res := make([]obs, len(j.Ss))
		for i := range j.Ss {
			res[i] = observe(&j.Ss[i], j.Full)
		}
		return res
	})
}

func short(s string) string {
	if i := strings.IndexByte(s, '\n'); i >= 0 {
		s = s[:i]
	}
	if len(s) > 300 {
		s = s[:300]
	}
	return s
}

// guard runs f and turns a panic into an error text.
func guard(f func() error) (e string) {
	defer func() {
		if r := recover(); r != nil {
			e = "panic: " + short(fmt.Sprint(r))
		}
	}()
	if err := f(); err != nil {
		return "error: " + short(err.Error())
	}
	return ""
}

func newInterp(out *bytes.Buffer, full bool, extra map[string]reflect.Value) (*interp.Interpreter, error) {
	i := interp.New(interp.Options{Stdout: out, Stderr: out})
	std := lean
	if full {
		std = stdlib.Symbols
	}
	if err := i.Use(std); err != nil {
		return nil, err
	}
	syms := hostpkg.Symbols()
	for k, v := range extra {
		syms["verif/hostpkg/hostpkg"][k] = v
	}
	if err := i.Use(syms); err != nil {
		return nil, err
	}
	return i, nil
}

// callerR is the caller (top frame) on the host side, calling fn.
func callerR(s *scn, fn reflect.Value) {
	avs := s.argVars()
	args := make([]reflect.Value, len(avs))
	ats := make([]Ty, len(avs))
	for i, a := range avs {
		ats[i] = a.T
		if a.Same > 0 {
			args[i] = args[a.Same-1]
		} else {
			args[i] = mkR(a.T, a.V)
		}
	}
	var res []reflect.Value
	switch {
	case s.Vd == "spread":
		res = fn.CallSlice(args)
	case s.Vd == "list" && len(s.Tail) == 0:
		// f() passes a nil slice (Go spec, "Passing arguments to ... parameters"); reflect's
		// Call would pass an empty non-nil one, which compiled host code never does
		pts := s.paramTypes()
		res = fn.CallSlice(append(append([]reflect.Value{}, args...), reflect.Zero(rtype(pts[len(pts)-1]))))
	default:
		res = fn.Call(args)
	}
	if s.Ctx != "discard" && s.Ctx != "defer" {
		hostpkg.Say("res" + joinDumpR(s.resTypes(), res))
	}
	hostpkg.Say("arg" + joinDumpR(ats, args))
}

// fetch obtains a script symbol through the access path of the scenario.
// interlude selects (deterministically, from the scenario itself) one in twelve of the
// host-calls-script scenarios for the cancelled-evaluation interlude.
func interlude(s *scn) bool {
	b, _ := json.Marshal(s)
	h := 0
	for _, c := range b {
		h = (h*31 + int(c)) % 1000003
	}
	return h%12 == 0
}

func fetch(i *interp.Interpreter, name, acc string) (reflect.Value, error) {
	switch acc {
	case "symbols":
		v, ok := i.Symbols("main")["main"][name]
		if !ok {
			return v, fmt.Errorf("Symbols(main) has no %s", name)
		}
		return v, nil
	case "globals":
		v, ok := i.Globals()[name]
		if !ok {
			return v, fmt.Errorf("Globals() has no %s", name)
		}
		return v, nil
	}
	return i.Eval(name)
}

func observe(s *scn, full bool) (o obs) {
	src := scriptSrc(s, false, true, full)
	isrc := scriptSrc(s, false, false, full)
	// --- the same call wholly inside the script
	{
		var out bytes.Buffer
		hostpkg.Reset(&out)
		o.InsE = guard(func() error {
			i, err := newInterp(&out, full, nil)
			if err != nil {
				return err
			}
			if _, err := i.Eval(isrc); err != nil {
				return fmt.Errorf("eval of the script: %w", err)
			}
			_, err = i.Eval("RunInside()")
			return err
		})
		o.Inside = out.String()
	}
	// --- wholly on the host
	{
		var out bytes.Buffer
		hostpkg.Reset(&out)
		o.HostE = guard(func() error {
			if s.Kind == "var" {
				t := Ty(s.Ps[0].T)
				v := reflect.New(rtype(t)).Elem()
				v.Set(mkR(t, s.Ps[0].V))
				hostpkg.Say("read|" + dumpR(t, v))
				v.Set(bumpR(t, v))
				hostpkg.Say("owner|" + dumpR(t, v))
				return nil
			}
			callerR(s, mainR(s))
			return nil
		})
		o.Host = out.String()
	}
	// --- across the boundary
	var out bytes.Buffer
	hostpkg.Reset(&out)
	switch {
	case s.Kind == "var" && s.Ds == "S": // script variable, host accesses it
		o.CrossE = guard(func() error {
			t := Ty(s.Ps[0].T)
			i, err := newInterp(&out, full, nil)
			if err != nil {
				return err
			}
			if _, err := i.Eval(src); err != nil {
				return fmt.Errorf("eval of the script: %w", err)
			}
			v, err := fetch(i, "G", s.Acc)
			if err != nil {
				return err
			}
			if v.Type() != rtype(t) {
				return fmt.Errorf("G obtained through %s has type %v, want %v", s.Acc, v.Type(), rtype(t))
			}
			hostpkg.Say("read|" + dumpR(t, v))
			if !v.CanSet() {
				return fmt.Errorf("G obtained through %s is not settable", s.Acc)
			}
			v.Set(bumpR(t, v))
			_, err = i.Eval("Owner()")
			return err
		})
	case s.Kind == "var": // host variable, script accesses it
		o.CrossE = guard(func() error {
			t := Ty(s.Ps[0].T)
			v := reflect.New(rtype(t)).Elem()
			v.Set(mkR(t, s.Ps[0].V))
			i, err := newInterp(&out, full, map[string]reflect.Value{"Var0": v})
			if err != nil {
				return err
			}
			if _, err := i.Eval(src); err != nil {
				return fmt.Errorf("eval of the script: %w", err)
			}
			if _, err := i.Eval("RunCross()"); err != nil {
				return err
			}
			hostpkg.Say("owner|" + dumpR(t, v))
			return nil
		})
	case s.Cs == "H": // host calls script
		o.CrossE = guard(func() error {
			// Mark tells the host that the evaluation of the interlude (below) is running
			started := make(chan struct{})
			var once sync.Once
			var extra map[string]reflect.Value
			if interlude(s) {
				extra = map[string]reflect.Value{"Mark": reflect.ValueOf(func() { once.Do(func() { close(started) }) })}
			}
			i, err := newInterp(&out, full, extra)
			if err != nil {
				return err
			}
			if _, err := i.Eval(src); err != nil {
				return fmt.Errorf("eval of the script: %w", err)
			}
			v, err := fetch(i, "F", s.Acc)
			if err != nil {
				return err
			}
			fn := reflect.ValueOf(v.Interface()) // the function value as a host would hold it
			want := mainR(s).Type()
			if fn.Type() != want {
				return fmt.Errorf("F obtained through %s has type %v, want %v", s.Acc, fn.Type(), want)
			}
			// In one in twelve of these scenarios the host, between obtaining the function and
			// calling it, has another evaluation cancelled and then evaluates something: a
			// cancelled evaluation is a stuttering step for earlier definitions (Defs.tla,
			// C10), so the prediction is unchanged.
			if interlude(s) {
				// The evaluation is cancelled once it RUNS (it has called Mark): an evaluation
				// cancelled before it started is another matter (C09/C10: its goroutine may
				// begin to work on the interpreter after EvalWithContext has returned).
				ctx, cancel := context.WithCancel(context.Background())
				go func() {
					select {
					case <-started:
						time.Sleep(2 * time.Millisecond)
					case <-time.After(2 * time.Minute):
					}
					cancel()
				}()
				_, ierr := i.EvalWithContext(ctx, "hostpkg.Mark()\nfor {\n}")
				cancel()
				select {
				case <-started:
				default:
					return fmt.Errorf("harness: the evaluation of the interlude did not run: %v", ierr)
				}
				time.Sleep(5 * time.Millisecond)
				if _, err := i.Eval("1"); err != nil {
					return fmt.Errorf("eval after a cancelled evaluation: %w", err)
				}
			}
			callerR(s, fn)
			return nil
		})
	default: // script calls host
		o.CrossE = guard(func() error {
			i, err := newInterp(&out, full, map[string]reflect.Value{"Fn0": mainR(s), "Sink": sinkR(s)})
			if err != nil {
				return err
			}
			if _, err := i.Eval(src); err != nil {
				return fmt.Errorf("eval of the script: %w", err)
			}
			_, err = i.Eval("RunCross()")
			return err
		})
	}
	o.Cross = out.String()
	return o
}
