package main

// One call site of a host function executed by several goroutines (spec/bind/CallSite.tla).
// TLC checks the per-call argument vector as a design (the shared vector is refuted) and
// enumerates the scenarios; every scenario is run on the real interpreter with real
// parallelism. Each caller passes n equal values that no other call uses, so a host function
// that sees unequal arguments, or a caller that gets a result other than n*w, has observed
// arguments nobody passed.

import (
	"bytes"
	"encoding/json"
	"fmt"
	"reflect"
	"runtime"
	"strings"
	"sync"
	"sync/atomic"
	"time"

	"github.com/traefik/yaegi/interp"

	"verif/fw"
)

type concScn struct {
	Who      string `json:"who"`  // host-goroutines | script-goroutines
	Form     string `json:"form"` // plain | condition | assign2 | return | nested
	NArgs    int    `json:"nargs"`
	Variadic bool   `json:"variadic"`
}

type concJob struct {
	Part    string  `json:"part"` // "conc" (tells a replay file of this family from a Boundary.tla scenario)
	Sc      concScn `json:"sc"`
	Workers int     `json:"workers"`
	Iters   int     `json:"iters"`
}

type concObs struct {
	Calls   int64  `json:"calls"`    // calls the host functions received
	BadArgs int64  `json:"bad_args"` // calls whose arguments were not n equal values
	BadRes  int64  `json:"bad_res"`  // calls whose caller got a result other than n*w
	Example string `json:"example,omitempty"`
	Script  string `json:"script"`
	Err     string `json:"err,omitempty"`
}

func (s concScn) key() string {
	return fmt.Sprintf("conc/%s/%s/n=%d/variadic=%v", s.Who, s.Form, s.NArgs, s.Variadic)
}

// concHost holds the host functions of one run and what they observed.
type concHost struct {
	calls, bad atomic.Int64
	mu         sync.Mutex
	example    string
}

func (h *concHost) see(xs []int) (sum int, same bool) {
	h.calls.Add(1)
	same = true
	for _, x := range xs {
		sum += x
		if x != xs[0] {
			same = false
		}
	}
	if !same {
		if h.bad.Add(1) == 1 {
			h.mu.Lock()
			h.example = fmt.Sprint(xs)
			h.mu.Unlock()
		}
	}
	return sum, same
}

func (h *concHost) exports() interp.Exports {
	m := map[string]reflect.Value{}
	intT := reflect.TypeOf(0)
	boolT := reflect.TypeOf(false)
	ints := func(in []reflect.Value) []int {
		var xs []int
		for _, v := range in {
			if v.Kind() == reflect.Slice {
				for i := 0; i < v.Len(); i++ {
					xs = append(xs, int(v.Index(i).Int()))
				}
			} else {
				xs = append(xs, int(v.Int()))
			}
		}
		return xs
	}
	for n := 0; n <= 4; n++ {
		var in []reflect.Type
		name := fmt.Sprint(n)
		variadic := n == 0
		if variadic {
			in, name = []reflect.Type{reflect.SliceOf(intT)}, "V"
		} else {
			for i := 0; i < n; i++ {
				in = append(in, intT)
			}
		}
		m["Sum"+name] = reflect.MakeFunc(reflect.FuncOf(in, []reflect.Type{intT}, variadic), func(a []reflect.Value) []reflect.Value {
			s, _ := h.see(ints(a))
			return []reflect.Value{reflect.ValueOf(s)}
		})
		m["Same"+name] = reflect.MakeFunc(reflect.FuncOf(in, []reflect.Type{boolT}, variadic), func(a []reflect.Value) []reflect.Value {
			_, ok := h.see(ints(a))
			return []reflect.Value{reflect.ValueOf(ok)}
		})
		m["SumOk"+name] = reflect.MakeFunc(reflect.FuncOf(in, []reflect.Type{intT, boolT}, variadic), func(a []reflect.Value) []reflect.Value {
			s, ok := h.see(ints(a))
			return []reflect.Value{reflect.ValueOf(s), reflect.ValueOf(ok)}
		})
	}
	return interp.Exports{"hostc/hostc": m}
}

func concScript(s concScn) string {
	suffix := fmt.Sprint(s.NArgs)
	if s.Variadic {
		suffix = "V"
	}
	args := strings.TrimSuffix(strings.Repeat("w, ", s.NArgs), ", ")
	var body string
	switch s.Form {
	case "plain":
		body = "\tv := hostc.Sum" + suffix + "(" + args + ")\n\treturn v\n"
	case "condition":
		body = "\tif hostc.Same" + suffix + "(" + args + ") {\n\t\treturn " + fmt.Sprint(s.NArgs) + " * w\n\t}\n\treturn -1\n"
	case "assign2":
		body = "\tv, ok := hostc.SumOk" + suffix + "(" + args + ")\n\tif !ok {\n\t\treturn -1\n\t}\n\treturn v\n"
	case "return":
		body = "\treturn hostc.Sum" + suffix + "(" + args + ")\n"
	case "nested":
		body = "\treturn ident(hostc.Sum" + suffix + "(" + args + "))\n"
	}
	return "package main\n\nimport \"hostc\"\n\nfunc ident(x int) int { return x }\n\nfunc Relay(w int) int {\n" + body + "}\n\n" +
		"func Spawn(workers, iters int) int {\n\tdone := make(chan int)\n\tfor id := 1; id <= workers; id++ {\n\t\tgo func(id int) {\n\t\t\tbad := 0\n" +
		"\t\t\tfor i := 0; i < iters; i++ {\n\t\t\t\tw := id*1000000 + i\n\t\t\t\tif Relay(w) != " + fmt.Sprint(s.NArgs) + "*w {\n\t\t\t\t\tbad++\n\t\t\t\t}\n\t\t\t}\n\t\t\tdone <- bad\n\t\t}(id)\n\t}\n" +
		"\ttotal := 0\n\tfor id := 1; id <= workers; id++ {\n\t\ttotal += <-done\n\t}\n\treturn total\n}\n"
}

func init() {
	fw.RegisterChild("c07conc", func(raw json.RawMessage) any {
		var j concJob
		if err := json.Unmarshal(raw, &j); err != nil {
			return concObs{Err: err.Error()}
		}
		return runConc(j)
	})
}

func runConc(j concJob) (o concObs) {
	o.Script = concScript(j.Sc)
	if runtime.GOMAXPROCS(0) < 4 {
		runtime.GOMAXPROCS(4)
	}
	h := &concHost{}
	var out bytes.Buffer
	i := interp.New(interp.Options{Stdout: &out, Stderr: &out})
	if err := i.Use(h.exports()); err != nil {
		o.Err = err.Error()
		return
	}
	if e := guard(func() error { _, err := i.Eval(o.Script); return err }); e != "" {
		o.Err = "eval of the script: " + e
		return
	}
	n := j.Sc.NArgs
	switch j.Sc.Who {
	case "host-goroutines":
		v, err := i.Eval("Relay")
		if err != nil {
			o.Err = err.Error()
			return
		}
		relay, ok := v.Interface().(func(int) int)
		if !ok {
			o.Err = "Relay is a " + v.Type().String()
			return
		}
		var wg sync.WaitGroup
		var bad atomic.Int64
		var perr atomic.Value
		for id := 1; id <= j.Workers; id++ {
			wg.Add(1)
			go func(id int) {
				defer wg.Done()
				defer func() {
					if r := recover(); r != nil {
						perr.Store("panic: " + short(fmt.Sprint(r)))
					}
				}()
				for k := 0; k < j.Iters; k++ {
					w := id*1000000 + k
					if relay(w) != n*w {
						bad.Add(1)
					}
				}
			}(id)
		}
		wg.Wait()
		o.BadRes = bad.Load()
		if e, _ := perr.Load().(string); e != "" {
			o.Err = e
		}
	case "script-goroutines":
		var v reflect.Value
		if e := guard(func() error {
			var err error
			v, err = i.Eval(fmt.Sprintf("Spawn(%d, %d)", j.Workers, j.Iters))
			return err
		}); e != "" {
			o.Err = e
			return
		}
		o.BadRes = v.Int()
	}
	o.Calls, o.BadArgs = h.calls.Load(), h.bad.Load()
	h.mu.Lock()
	o.Example = h.example
	h.mu.Unlock()
	return
}

// concDesign model-checks CallSite.tla (both vector disciplines) and returns the scenarios it enumerates.
func concDesign(c *fw.Ctx) ([]concScn, error) {
	var scs []concScn
	for _, d := range []struct {
		cfg      string
		violated string
	}{{"CallSite.asis.cfg", ""}, {"CallSite.shared.cfg", "ArgsIntact"}} {
		res, err := c.TLC(fw.TLCOpts{Dir: "spec/bind", Module: "CallSite", Cfg: d.cfg, Workers: 1, Timeout: 3 * time.Minute})
		if err != nil {
			return nil, err
		}
		if (d.violated == "") != (res.Violated == "") || !strings.Contains(res.Violated, d.violated) {
			return nil, fmt.Errorf("CallSite.tla %s: expected violated=%q, TLC says %q", d.cfg, d.violated, res.Violated)
		}
		c.Extra["design_"+d.cfg] = map[string]any{"violated": res.Violated, "distinct_states": res.Distinct}
		if len(scs) == 0 {
			for _, raw := range res.Beh {
				var r struct {
					Scenarios []concScn `json:"scenarios"`
				}
				if json.Unmarshal(raw, &r) == nil && len(r.Scenarios) > 0 {
					scs = r.Scenarios
				}
			}
		}
	}
	if len(scs) == 0 {
		return nil, fmt.Errorf("CallSite.tla enumerated no scenario")
	}
	return scs, nil
}

func concJudge(c *fw.Ctx, j concJob, r fw.ChildResult) error {
	var o concObs
	if r.Out == nil || json.Unmarshal(r.Out, &o) != nil {
		return fmt.Errorf("concurrent call-site scenario %s: harness child %s", j.Sc.key(), r.Describe())
	}
	if o.Err != "" {
		return fmt.Errorf("concurrent call-site scenario %s: %s", j.Sc.key(), o.Err)
	}
	want := int64(j.Workers * j.Iters)
	c.Count(j.Sc.key(), true)
	c.TracesVsImpl++
	rep := map[string]any{"part": "conc", "sc": j.Sc, "workers": j.Workers, "iters": j.Iters, "observed": o}
	trig := "concurrent callers of one host call site: " + j.Sc.Who + ", form " + j.Sc.Form
	switch {
	case o.BadArgs > 0:
		c.Fail(trig, "the host function received arguments that no caller passed", rep)
	case o.BadRes > 0:
		c.Fail(trig, "a caller received a result computed from other arguments", rep)
	case o.Calls != want:
		c.Fail(trig, "the host function was not called once per call", rep)
	}
	return nil
}

// concurrentFamily runs the scenarios of CallSite.tla on the real interpreter.
func concurrentFamily(c *fw.Ctx) error {
	scs, err := concDesign(c)
	if err != nil {
		return err
	}
	var jobs []concJob
	var anys []any
	for k, s := range scs {
		// quick: every (who, form) with a seeded half of the (nargs, variadic) combinations
		if c.Quick() && (k+int(c.Seed))%2 != 0 {
			continue
		}
		j := concJob{Part: "conc", Sc: s, Workers: 8, Iters: c.Pick(2500, 30000)}
		jobs = append(jobs, j)
		anys = append(anys, j)
	}
	results := c.RunChildren("c07conc", anys, 4, 120*time.Second, nil)
	calls := 0
	for k, r := range results {
		if err := concJudge(c, jobs[k], r); err != nil {
			return err
		}
		calls += jobs[k].Workers * jobs[k].Iters
	}
	c.Extra["concurrent_call_site_scenarios"] = len(jobs)
	c.Extra["concurrent_calls"] = calls
	return nil
}

func concReplay(c *fw.Ctx, j concJob) error {
	results := c.RunChildren("c07conc", []any{j}, 1, 300*time.Second, nil)
	if err := concJudge(c, j, results[0]); err != nil {
		return err
	}
	fmt.Printf("replayed %s: %s\n", j.Sc.key(), string(results[0].Out))
	return nil
}
