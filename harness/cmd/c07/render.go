package main

// The script side of Boundary.tla: Go source rendered from a scenario. The same text
// (with pfx "" and a local prelude instead of the hostpkg import) is a native program,
// the reference that validates this renderer and the specification.

import (
	"encoding/json"
	"fmt"
	"hash/fnv"
	"sort"
	"strings"
)

type pspec struct {
	T    []string `json:"t"`
	V    int      `json:"v"`
	Same int      `json:"same"`
	Op   string   `json:"op"`
}

type rspec struct {
	Src string   `json:"src"`
	I   int      `json:"i"`
	K   int      `json:"k"`
	T   []string `json:"t"`
	V   int      `json:"v"`
}

// scn is a scenario of Boundary.tla (see the comment above Scn there).
type scn struct {
	Kind string  `json:"kind"`
	Cs   string  `json:"cs"`
	Ds   string  `json:"ds"`
	Ps   []pspec `json:"ps"`
	Vd   string  `json:"vd"`
	Tail []int   `json:"tail"`
	Rs   []rspec `json:"rs"`
	Ctx  string  `json:"ctx"`
	Acc  string  `json:"acc"`
}

type logLine struct {
	S string `json:"s"`
	T string `json:"t"`
}

// altLine: under known deviation F the transcript line I (1-based) reads T.
type altLine struct {
	F string `json:"f"`
	I int    `json:"i"`
	T string `json:"t"`
}

type beh struct {
	Sc    scn            `json:"sc"`
	Log   []logLine      `json:"log"`
	Alt   []altLine      `json:"alt"`
	Cnt   map[string]int `json:"cnt"`
	Nx    int            `json:"nx"`
	Depth int            `json:"depth"`
}

// paramTypes are the parameter types as the callee sees them (PT of the model).
func (s *scn) paramTypes() []Ty {
	r := make([]Ty, len(s.Ps))
	for i, p := range s.Ps {
		r[i] = Ty(p.T)
		if i == len(s.Ps)-1 && s.Vd != "no" {
			r[i] = append(Ty{"slice"}, p.T...)
		}
	}
	return r
}

func (s *scn) fixedN() int {
	if s.Vd == "no" {
		return len(s.Ps)
	}
	return len(s.Ps) - 1
}

type argVar struct {
	T    Ty
	V    int
	Same int
}

// argVars are the caller's argument variables (ArgVars of the model).
func (s *scn) argVars() []argVar {
	var r []argVar
	for i := 0; i < s.fixedN(); i++ {
		r = append(r, argVar{Ty(s.Ps[i].T), s.Ps[i].V, s.Ps[i].Same})
	}
	n := len(s.Ps)
	switch s.Vd {
	case "spread":
		r = append(r, argVar{append(Ty{"slice"}, s.Ps[n-1].T...), s.Ps[n-1].V, 0})
	case "list":
		for _, v := range s.Tail {
			r = append(r, argVar{Ty(s.Ps[n-1].T), v, 0})
		}
	}
	return r
}

// resTypes are the result types (ResType of the model).
func (s *scn) resTypes() []Ty {
	pts := s.paramTypes()
	r := make([]Ty, len(s.Rs))
	for j, x := range s.Rs {
		switch x.Src {
		case "param":
			r[j] = pts[x.I-1]
		case "const":
			r[j] = Ty(x.T)
		case "elem":
			r[j] = Ty(s.Ps[len(s.Ps)-1].T)
		case "call":
			r[j] = Ty(s.Ps[x.I-1].T).tail()
		default:
			r[j] = Ty{"int"}
		}
	}
	return r
}

// typeSrc is the Go spelling of t; pfx is "hostpkg." for scripts and "" for the native program.
func typeSrc(t Ty, pfx string) string {
	switch t.head() {
	case "HS", "HI", "HL", "Shape":
		return pfx + t.head()
	case "ptr":
		return "*" + typeSrc(t.tail(), pfx)
	case "slice":
		return "[]" + typeSrc(t.tail(), pfx)
	case "arr":
		return "[2]" + typeSrc(t.tail(), pfx)
	case "map":
		return "map[string]" + typeSrc(t.tail(), pfx)
	case "func":
		u := typeSrc(t.tail(), pfx)
		return "func(" + u + ") " + u
	}
	return t.head() // basic kinds and error
}

// helpers renders mk_/bump_/dump_ for every type in ts and their component types.
func helpers(ts []Ty, pfx string) string {
	seen := map[string]Ty{}
	var add func(t Ty)
	add = func(t Ty) {
		if _, ok := seen[t.key()]; ok {
			return
		}
		seen[t.key()] = t
		if len(t) > 1 || t.head() == "HL" {
			add(t.tail())
		}
	}
	for _, t := range ts {
		add(t)
	}
	add(Ty{"int"})
	keys := make([]string, 0, len(seen))
	for k := range seen {
		keys = append(keys, k)
	}
	sort.Strings(keys)
	var b strings.Builder
	for _, k := range keys {
		b.WriteString(helperFor(seen[k], pfx))
	}
	return b.String()
}

func helperFor(t Ty, pfx string) string {
	T := typeSrc(t, pfx)
	m := t.key()
	var U, um string
	if len(t) > 1 || t.head() == "HL" {
		U, um = typeSrc(t.tail(), pfx), t.tail().key()
	}
	var mk, bump, dump string
	basic := func(v1, v2, zero, bumpExpr, dumpExpr string) {
		mk = fmt.Sprintf("switch i {\ncase 1:\nreturn %s\ncase 2:\nreturn %s\n}\nreturn %s", v1, v2, zero)
		bump = "return " + bumpExpr
		dump = "return " + dumpExpr
	}
	switch t.head() {
	case "bool":
		basic("true", "false", "false", "!v", "strconv.FormatBool(v)")
	case "int":
		basic("7", "-3", "0", "v + 1", "strconv.FormatInt(int64(v), 10)")
	case "int8":
		basic("127", "-128", "0", "v + 1", "strconv.FormatInt(int64(v), 10)")
	case "uint16":
		basic("65535", "1", "0", "v + 1", "strconv.FormatInt(int64(v), 10)")
	case "int64":
		basic("1<<40 + 5", "-9", "0", "v + 1", "strconv.FormatInt(v, 10)")
	case "float64":
		basic("1.5", "func() float64 { z := 0.0; return -z }()", "0", "v + 0.5", "strconv.FormatFloat(v, 'g', -1, 64)")
	case "string":
		basic(`"go"`, `"x y"`, `""`, `v + "x"`, `"'" + v + "'"`)
	case "HI":
		basic("41", "-1", "0", "v + 1", "strconv.FormatInt(int64(v), 10)")
	case "HS":
		mk = fmt.Sprintf("switch i {\ncase 1:\nreturn %[1]s{A: 7, B: \"go\"}\ncase 2:\nreturn %[1]s{A: -3, B: \"x y\"}\n}\nreturn %[1]s{}", T)
		bump = "v.A++\nreturn v"
		dump = `return "HS{" + strconv.Itoa(v.A) + ",'" + v.B + "'}"`
	case "HL":
		mk = fmt.Sprintf("switch i {\ncase 1:\nreturn %[1]s{1, 2}\ncase 2:\nreturn %[1]s{9}\n}\nreturn nil", T)
		bump = "if v != nil && len(v) > 0 {\nv[0] = bump_int(v[0])\n}\nreturn v"
		dump = "if v == nil {\nreturn \"nil\"\n}\ns := \"[\"\nfor i, e := range v {\nif i > 0 {\ns += \",\"\n}\ns += dump_int(e)\n}\nreturn s + \"]\""
	case "error":
		mk = "switch i {\ncase 1:\nreturn errors.New(\"e1\")\ncase 2:\nreturn sErr{Msg: \"e2\"}\n}\nreturn nil"
		bump = "return v"
		dump = "if v == nil {\nreturn \"nil\"\n}\nreturn \"err(\" + v.Error() + \")\""
	case "Shape":
		mk = "switch i {\ncase 1:\nreturn sRect{W: 3}\ncase 2:\nreturn &sDisk{R: 5}\n}\nreturn nil"
		bump = "return v"
		dump = "if v == nil {\nreturn \"nil\"\n}\nmute(1)\na := v.Area()\nmute(-1)\nreturn \"shape(\" + strconv.Itoa(a) + \")\""
	case "ptr":
		mk = fmt.Sprintf("if i == 0 {\nreturn nil\n}\nx := mk_%s(i)\nreturn &x", um)
		bump = fmt.Sprintf("if v != nil {\n*v = bump_%s(*v)\n}\nreturn v", um)
		dump = fmt.Sprintf("if v == nil {\nreturn \"nil\"\n}\nreturn \"&\" + dump_%s(*v)", um)
	case "slice":
		mk = fmt.Sprintf("switch i {\ncase 1:\nreturn %[1]s{mk_%[2]s(1), mk_%[2]s(2)}\ncase 2:\nreturn %[1]s{mk_%[2]s(2)}\n}\nreturn nil", T, um)
		bump = fmt.Sprintf("if v != nil && len(v) > 0 {\nv[0] = bump_%s(v[0])\n}\nreturn v", um)
		dump = fmt.Sprintf("if v == nil {\nreturn \"nil\"\n}\ns := \"[\"\nfor i, e := range v {\nif i > 0 {\ns += \",\"\n}\ns += dump_%s(e)\n}\nreturn s + \"]\"", um)
	case "arr":
		mk = fmt.Sprintf("switch i {\ncase 1:\nreturn %[1]s{mk_%[2]s(1), mk_%[2]s(2)}\ncase 2:\nreturn %[1]s{mk_%[2]s(2), mk_%[2]s(0)}\n}\nreturn %[1]s{mk_%[2]s(0), mk_%[2]s(0)}", T, um)
		bump = fmt.Sprintf("v[0] = bump_%s(v[0])\nreturn v", um)
		dump = fmt.Sprintf("return \"<\" + dump_%[1]s(v[0]) + \",\" + dump_%[1]s(v[1]) + \">\"", um)
	case "map":
		mk = fmt.Sprintf("switch i {\ncase 1:\nreturn %[1]s{\"a\": mk_%[2]s(1), \"b\": mk_%[2]s(2)}\ncase 2:\nreturn %[1]s{\"b\": mk_%[2]s(1)}\n}\nreturn nil", T, um)
		bump = fmt.Sprintf("if v != nil {\nv[\"a\"] = bump_%s(v[\"a\"])\n}\nreturn v", um)
		dump = fmt.Sprintf("if v == nil {\nreturn \"nil\"\n}\ns := \"{\"\nif e, ok := v[\"a\"]; ok {\ns += \"a=\" + dump_%[1]s(e) + \";\"\n}\nif e, ok := v[\"b\"]; ok {\ns += \"b=\" + dump_%[1]s(e) + \";\"\n}\nif len(v) > 2 {\ns += \"+\" + strconv.Itoa(len(v)-2) + \";\"\n}\nreturn s + \"}\"", um)
	case "func":
		clo := func(inner, bumpIt bool) string {
			s := fmt.Sprintf("func(x %[1]s) %[1]s {\nev(\"enter clo|\" + dump_%[2]s(x))\nt := x\n", U, um)
			if inner {
				s += "t = v(x)\n"
			}
			if bumpIt {
				s += fmt.Sprintf("t = bump_%s(t)\n", um)
			}
			return s + fmt.Sprintf("ev(\"leave clo|\" + dump_%s(t))\nreturn t\n}", um)
		}
		mk = fmt.Sprintf("switch i {\ncase 1:\nreturn %s\ncase 2:\nreturn %s\n}\nreturn nil", clo(false, true), clo(false, false))
		bump = "if v == nil {\nreturn v\n}\nreturn " + clo(true, true)
		dump = fmt.Sprintf("if v == nil {\nreturn \"nil\"\n}\nmute(1)\nr := v(mk_%[1]s(1))\ns := \"fn(\" + dump_%[1]s(r) + \")\"\nmute(-1)\nreturn s", um)
	default:
		panic("helperFor: " + t.head())
	}
	_ = U
	return fmt.Sprintf("func mk_%[1]s(i int) %[2]s {\n%[3]s\n}\n\nfunc bump_%[1]s(v %[2]s) %[2]s {\n%[4]s\n}\n\nfunc dump_%[1]s(v %[2]s) string {\n%[5]s\n}\n\n", m, T, mk, bump, dump)
}

// prelude: imports, the script's own implementations of Shape and error, logging.
func prelude(native, full bool) string {
	var b strings.Builder
	b.WriteString("package main\n\nimport (\n\t\"errors\"\n\t\"strconv\"\n")
	if native || full {
		b.WriteString("\t\"fmt\"\n")
	}
	if !native {
		b.WriteString("\n\t\"verif/hostpkg\"\n")
	}
	b.WriteString(")\n\nvar _ = errors.New\nvar _ = strconv.Itoa\n\n")
	if native {
		b.WriteString(`type HS struct {
	A int
	B string
}
type HI int
type HL []int
type Shape interface {
	Area() int
	Grow(d int) int
}

var quiet int

func mute(d int)  { quiet += d }
func muted() bool { return quiet > 0 }
`)
	} else {
		b.WriteString("func mute(d int)  { hostpkg.Mute(d) }\nfunc muted() bool { return hostpkg.Muted() }\n")
	}
	b.WriteString(`
func say(s string) { PRINT("S " + s) }
func ev(s string) {
	if !muted() {
		say(s)
	}
}

type sRect struct{ W int }

func (r sRect) Area() int      { ev("enter area|" + strconv.Itoa(r.W)); return r.W }
func (r sRect) Grow(d int) int { ev("enter grow|" + strconv.Itoa(r.W)); return r.W + d }

type sDisk struct{ R int }

func (d *sDisk) Area() int      { ev("enter area|" + strconv.Itoa(d.R)); return d.R }
func (d *sDisk) Grow(k int) int { ev("enter grow|" + strconv.Itoa(d.R)); d.R += k; return d.R }

type sErr struct{ Msg string }

func (e sErr) Error() string { return e.Msg }

`)
	pr := "hostpkg.Emit"
	if native || full {
		pr = "fmt.Println"
	}
	return strings.Replace(b.String(), "PRINT", pr, 1)
}

// allTypes lists every type a scenario's source mentions.
func (s *scn) allTypes() []Ty {
	var ts []Ty
	ts = append(ts, s.paramTypes()...)
	ts = append(ts, s.resTypes()...)
	for _, a := range s.argVars() {
		ts = append(ts, a.T)
	}
	for _, p := range s.Ps {
		ts = append(ts, Ty(p.T))
	}
	return ts
}

func sig(s *scn, pfx string, named bool) (params, results string) {
	pts := s.paramTypes()
	var ps []string
	for i, t := range pts {
		ty := typeSrc(t, pfx)
		if i == len(pts)-1 && s.Vd != "no" {
			ty = "..." + typeSrc(Ty(s.Ps[i].T), pfx)
		}
		if named {
			ps = append(ps, fmt.Sprintf("p%d %s", i+1, ty))
		} else {
			ps = append(ps, ty)
		}
	}
	var rs []string
	for _, t := range s.resTypes() {
		rs = append(rs, typeSrc(t, pfx))
	}
	results = strings.Join(rs, ", ")
	if len(rs) > 1 {
		results = "(" + results + ")"
	}
	return strings.Join(ps, ", "), results
}

// mainSrc renders the main function of the scenario as script function `name`.
func mainSrc(s *scn, name, pfx string) string {
	pts := s.paramTypes()
	rts := s.resTypes()
	params, results := sig(s, pfx, true)
	var b strings.Builder
	fmt.Fprintf(&b, "func %s(%s) %s {\n", name, params, results)
	b.WriteString("say(\"enter main\"")
	for i, t := range pts {
		fmt.Fprintf(&b, " + \"|\" + dump_%s(p%d)", t.key(), i+1)
	}
	b.WriteString(")\n")
	for i, t := range pts {
		if s.Ps[i].Op == "bump" {
			fmt.Fprintf(&b, "p%d = bump_%s(p%d)\n", i+1, t.key(), i+1)
		} else {
			fmt.Fprintf(&b, "_ = p%d\n", i+1)
		}
	}
	n := len(pts)
	for j, r := range s.Rs {
		rt := typeSrc(rts[j], pfx)
		switch r.Src {
		case "param":
			fmt.Fprintf(&b, "r%d := p%d\n", j+1, r.I)
		case "const":
			fmt.Fprintf(&b, "r%d := mk_%s(%d)\n", j+1, rts[j].key(), r.V)
		case "len":
			fmt.Fprintf(&b, "r%d := len(p%d)\n", j+1, n)
		case "elem":
			fmt.Fprintf(&b, "var r%d %s\nif len(p%d) >= %d {\nr%d = p%d[%d]\n}\n", j+1, rt, n, r.K, j+1, n, r.K-1)
		case "call":
			arg := fmt.Sprintf("mk_%s(1)", rts[j].key())
			if r.K > 0 {
				arg = fmt.Sprintf("p%d", r.K)
			}
			fmt.Fprintf(&b, "var r%d %s\nif p%d != nil {\nr%d = p%d(%s)\n}\n", j+1, rt, r.I, j+1, r.I, arg)
		case "area":
			fmt.Fprintf(&b, "r%d := -1\nif p%d != nil {\nr%d = p%d.Area()\n}\n", j+1, r.I, j+1, r.I)
		case "grow":
			fmt.Fprintf(&b, "r%d := -1\nif p%d != nil {\nr%d = p%d.Grow(1)\n}\n", j+1, r.I, j+1, r.I)
		}
	}
	b.WriteString("say(\"leave main\"")
	for j, t := range rts {
		fmt.Fprintf(&b, " + \"|\" + dump_%s(r%d)", t.key(), j+1)
	}
	b.WriteString(")\n")
	if len(rts) > 0 {
		b.WriteString("return ")
		for j := range rts {
			if j > 0 {
				b.WriteString(", ")
			}
			fmt.Fprintf(&b, "r%d", j+1)
		}
		b.WriteString("\n")
	}
	b.WriteString("}\n\n")
	return b.String()
}

// callerSrc renders the caller (top frame) of the scenario as script function `name`
// calling `callee` in the scenario's syntactic context.
func callerSrc(s *scn, name, callee, ctx, pfx string) string {
	avs := s.argVars()
	rts := s.resTypes()
	m := len(rts)
	var b strings.Builder
	// consumer for the nested context
	if ctx == "nestS" && m > 0 {
		fmt.Fprintf(&b, "func consume_%s(", name)
		for j, t := range rts {
			if j > 0 {
				b.WriteString(", ")
			}
			fmt.Fprintf(&b, "r%d %s", j+1, typeSrc(t, pfx))
		}
		b.WriteString(") {\nsay(\"res\"")
		for j, t := range rts {
			fmt.Fprintf(&b, " + \"|\" + dump_%s(r%d)", t.key(), j+1)
		}
		b.WriteString(")\n}\n\n")
	}
	fmt.Fprintf(&b, "func %s() {\n", name)
	var args []string
	for i, a := range avs {
		if a.Same > 0 {
			fmt.Fprintf(&b, "a%d := a%d\n", i+1, a.Same)
		} else {
			if lit := concreteLit(s, a.T, a.V); lit != "" {
				// concrete syntax: the argument variable has the script's own concrete type, the
				// conversion to the interface type of the parameter happens at the call
				fmt.Fprintf(&b, "a%d := %s\n", i+1, lit)
			} else {
				fmt.Fprintf(&b, "a%d := mk_%s(%d)\n", i+1, a.T.key(), a.V)
			}
		}
		arg := fmt.Sprintf("a%d", i+1)
		if s.Vd == "spread" && i == len(avs)-1 {
			arg += "..."
		}
		args = append(args, arg)
	}
	call := fmt.Sprintf("%s(%s)", callee, strings.Join(args, ", "))
	var rl []string
	for j := range rts {
		rl = append(rl, fmt.Sprintf("r%d", j+1))
	}
	rlist := strings.Join(rl, ", ")
	_, results := sig(s, pfx, false)
	printRes := func() {
		b.WriteString("say(\"res\"")
		for j, t := range rts {
			fmt.Fprintf(&b, " + \"|\" + dump_%s(r%d)", t.key(), j+1)
		}
		b.WriteString(")\n")
	}
	if m == 0 && (ctx == "assign" || ctx == "nestS" || ctx == "nestH") {
		ctx = "define"
	}
	switch ctx {
	case "define":
		if m == 0 {
			b.WriteString(call + "\n")
		} else {
			fmt.Fprintf(&b, "%s := %s\n", rlist, call)
		}
		printRes()
	case "assign":
		for j, t := range rts {
			fmt.Fprintf(&b, "var r%d %s\n", j+1, typeSrc(t, pfx))
		}
		fmt.Fprintf(&b, "%s = %s\n", rlist, call)
		printRes()
	case "return":
		if m == 0 {
			fmt.Fprintf(&b, "w := func() {\n%s\n}\nw()\n", call)
		} else {
			fmt.Fprintf(&b, "w := func() %s {\nreturn %s\n}\n%s := w()\n", results, call, rlist)
		}
		printRes()
	case "nestS":
		fmt.Fprintf(&b, "consume_%s(%s)\n", name, call)
	case "nestH":
		fmt.Fprintf(&b, "%sSink(%s)\n", pfx, call)
	case "discard":
		b.WriteString(call + "\n")
	case "defer":
		fmt.Fprintf(&b, "w := func() {\ndefer %s\n}\nw()\n", call)
	}
	b.WriteString("say(\"arg\"")
	for i, a := range avs {
		fmt.Fprintf(&b, " + \"|\" + dump_%s(a%d)", a.T.key(), i+1)
	}
	b.WriteString(")\n}\n\n")
	return b.String()
}

// concreteLit: for one scenario in two (by the hash of the scenario), an argument of type Shape or error whose
// value is the script's own implementation is spelled as the composite literal of the concrete type
// instead of mk_Shape(i) / mk_error(i), which return the interface type. The meaning is the same.
func concreteLit(s *scn, t Ty, v int) string {
	if len(t) != 1 {
		return ""
	}
	h := fnv.New32a()
	js, _ := json.Marshal(s)
	h.Write(js)
	if h.Sum32()%2 == 0 {
		return ""
	}
	switch {
	case t.head() == "Shape" && v == 1:
		return "sRect{W: 3}"
	case t.head() == "Shape" && v == 2:
		return "&sDisk{R: 5}"
	case t.head() == "error" && v == 2:
		return "sErr{Msg: \"e2\"}"
	}
	return ""
}

// scriptSrc is the whole script of a "call" scenario.
//
//	F          the main function (when the callee is the script, or for the inside run)
//	RunCross   the caller, calling the host's Fn0 (only when the caller is the script and the callee the host)
//	RunInside  the same call with caller and callee in the script
func scriptSrc(s *scn, native, withCross, full bool) string {
	pfx := "hostpkg."
	if native {
		pfx = ""
	}
	var b strings.Builder
	b.WriteString(prelude(native, full))
	if s.Kind == "var" {
		t := Ty(s.Ps[0].T)
		b.WriteString(helpers([]Ty{t}, pfx))
		k := t.key()
		fmt.Fprintf(&b, "var G %s = mk_%s(%d)\n\n", typeSrc(t, pfx), k, s.Ps[0].V)
		fmt.Fprintf(&b, "func Owner() {\nsay(\"owner|\" + dump_%s(G))\n}\n\n", k)
		write := func(v string) string {
			if s.Ctx == "temp" {
				return fmt.Sprintf("t := bump_%s(%s)\n%s = t\n", k, v, v)
			}
			return fmt.Sprintf("%s = bump_%s(%s)\n", v, k, v)
		}
		fmt.Fprintf(&b, "func RunInside() {\nsay(\"read|\" + dump_%s(G))\n%sOwner()\n}\n\n", k, write("G"))
		if withCross && !native && s.Cs == "S" && s.Ds == "H" {
			fmt.Fprintf(&b, "func RunCross() {\nsay(\"read|\" + dump_%s(hostpkg.Var0))\n%s}\n\n", k, write("hostpkg.Var0"))
		}
	} else {
		b.WriteString(helpers(s.allTypes(), pfx))
		b.WriteString(mainSrc(s, "F", pfx))
		ictx := s.Ctx
		if ictx == "nestH" {
			ictx = "nestS"
		}
		b.WriteString(callerSrc(s, "RunInside", "F", ictx, pfx))
		if withCross && !native && s.Cs == "S" && s.Ds == "H" {
			b.WriteString(callerSrc(s, "RunCross", "hostpkg.Fn0", s.Ctx, pfx))
		}
	}
	if native {
		b.WriteString("func main() {\nRunInside()\n}\n")
	}
	return b.String()
}
