package main

// Results that refer to storage of the activation that produced them (spec/bind/Retain.tla).
// TLC checks the per-activation parameter cells as a design (the pooled cells are refuted) and
// enumerates the scenarios; every scenario is run on the real interpreter: the host calls the
// script function k times with arguments no other call uses, keeps the results, and reads
// through them only after the last call. The same sequence made inside the script is the
// control.

import (
	"bytes"
	"encoding/json"
	"fmt"
	"reflect"
	"strings"
	"time"

	"github.com/traefik/yaegi/interp"
	"github.com/traefik/yaegi/stdlib"

	"verif/fw"
)

type retScn struct {
	Form string `json:"form"`
	Who  string `json:"who"`
	K    int    `json:"k"`
}

type retJob struct {
	Part string `json:"part"` // "retain"
	Sc   retScn `json:"sc"`
}

type retObs struct {
	Native []string `json:"native"` // what each retained result shows after the last call (host calls)
	Inside []string `json:"inside"` // the same sequence made by the script itself
	Script string   `json:"script"`
	Err    string   `json:"err,omitempty"`
}

func (s retScn) key() string { return fmt.Sprintf("retain/%s/%s/k=%d", s.Form, s.Who, s.K) }

// argOf: the argument of call i (1-based): values no other call uses.
func argOf(i int) [3]int { return [3]int{i*10 + 1, i*10 + 2, i*10 + 3} }

// wantOf: what the result of call i must show, whatever was called afterwards.
func wantOf(form string, i int) string {
	a := argOf(i)
	switch form {
	case "slice-of-array-param":
		return fmt.Sprint(a[1:])
	case "slice-of-field-array-param":
		return fmt.Sprint(a[:])
	}
	return fmt.Sprint(a[0]) // the forms over a struct parameter show its field n = a[0]
}

const retPrelude = `package main

import (
	"fmt"

	"hostr"
)

type Rec struct{ Vals [3]int }

type Cnt struct{ n int }

func (c *Cnt) get() int  { return c.n }
func (c *Cnt) self() *Cnt { return c }

func show(x interface{}) string {
	switch v := x.(type) {
	case []int:
		return fmt.Sprint(v)
	case *Cnt:
		return fmt.Sprint(v.n)
	case func() int:
		return fmt.Sprint(v())
	}
	return "?"
}
`

// retFunc: the declaration of F (a declared function, or a variable holding a function literal) for a form.
func retFunc(form string, literal bool) string {
	var params, res, body string
	switch form {
	case "slice-of-array-param":
		params, res, body = "a [3]int", "[]int", "return a[1:]"
	case "slice-of-field-array-param":
		params, res, body = "r Rec", "[]int", "return r.Vals[:]"
	case "address-of-param":
		params, res, body = "c Cnt", "*Cnt", "return &c"
	case "method-value-on-param":
		params, res, body = "c Cnt", "func() int", "return c.get"
	case "pointer-method-result-on-param":
		params, res, body = "c Cnt", "*Cnt", "return c.self()"
	case "closure-over-param":
		params, res, body = "c Cnt", "func() int", "return func() int { return c.n }"
	}
	if literal {
		return fmt.Sprintf("var F = func(%s) %s { %s }\n", params, res, body)
	}
	return fmt.Sprintf("func F(%s) %s { %s }\n", params, res, body)
}

func retArgExpr(form string, i int) string {
	a := argOf(i)
	switch form {
	case "slice-of-array-param":
		return fmt.Sprintf("[3]int{%d, %d, %d}", a[0], a[1], a[2])
	case "slice-of-field-array-param":
		return fmt.Sprintf("Rec{[3]int{%d, %d, %d}}", a[0], a[1], a[2])
	}
	return fmt.Sprintf("Cnt{%d}", a[0])
}

func retScript(s retScn) string {
	var b strings.Builder
	b.WriteString(retPrelude)
	b.WriteString("\n" + retFunc(s.Form, s.Who == "function-literal") + "\n")
	// the same sequence inside the script: the control
	b.WriteString("func Inside() []string {\n\tvar rs []interface{}\n")
	for i := 1; i <= s.K; i++ {
		fmt.Fprintf(&b, "\trs = append(rs, F(%s))\n", retArgExpr(s.Form, i))
	}
	b.WriteString("\tvar out []string\n\tfor _, r := range rs {\n\t\tout = append(out, show(r))\n\t}\n\treturn out\n}\n\n")
	// Show lets the host look through a retained result with the script's own eyes
	b.WriteString("func Show(x interface{}) string { return show(x) }\n\n")
	// the host calls back: Relay hands F to the host function, which calls it k times (nested-callback: from inside F's caller)
	b.WriteString("func Relay(k int) []string {\n\trs := hostr.Collect(func(i int) interface{} {\n\t\tswitch i {\n")
	for i := 1; i <= s.K; i++ {
		fmt.Fprintf(&b, "\t\tcase %d:\n\t\t\treturn F(%s)\n", i, retArgExpr(s.Form, i))
	}
	b.WriteString("\t\t}\n\t\treturn nil\n\t}, k)\n\tvar out []string\n\tfor _, r := range rs {\n\t\tout = append(out, show(r))\n\t}\n\treturn out\n}\n")
	return b.String()
}

func init() {
	fw.RegisterChild("c07retain", func(raw json.RawMessage) any {
		var j retJob
		if err := json.Unmarshal(raw, &j); err != nil {
			return retObs{Err: err.Error()}
		}
		return runRetain(j)
	})
}

func runRetain(j retJob) (o retObs) {
	s := j.Sc
	o.Script = retScript(s)
	var out bytes.Buffer
	i := interp.New(interp.Options{Stdout: &out, Stderr: &out})
	i.Use(interp.Exports{"fmt/fmt": stdlib.Symbols["fmt/fmt"]})
	// Collect calls f(1..k), keeps what it returns and hands everything back after the last call;
	// nested: call i+1 is made while the host is still inside its own frame of call i (recursion in the host)
	collect := func(f func(int) interface{}, k int) []interface{} {
		rs := make([]interface{}, 0, k)
		if s.Who == "nested-callback" {
			var rec func(n int)
			rec = func(n int) {
				if n > k {
					return
				}
				r := f(n)
				rec(n + 1)
				rs = append(rs, nil)
				copy(rs[1:], rs)
				rs[0] = r
			}
			rec(1)
			return rs
		}
		for n := 1; n <= k; n++ {
			rs = append(rs, f(n))
		}
		return rs
	}
	if err := i.Use(interp.Exports{"hostr/hostr": {"Collect": reflect.ValueOf(collect)}}); err != nil {
		o.Err = err.Error()
		return
	}
	if e := guard(func() error { _, err := i.Eval(o.Script); return err }); e != "" {
		o.Err = "eval of the script: " + e
		return
	}
	strs := func(v reflect.Value) []string {
		l, _ := v.Interface().([]string)
		return append([]string(nil), l...)
	}
	if e := guard(func() error {
		v, err := i.Eval("Inside()")
		if err == nil {
			o.Inside = strs(v)
		}
		return err
	}); e != "" {
		o.Err = "Inside(): " + e
		return
	}
	switch s.Who {
	case "host-callback", "nested-callback":
		if e := guard(func() error {
			v, err := i.Eval(fmt.Sprintf("Relay(%d)", s.K))
			if err == nil {
				o.Native = strs(v)
			}
			return err
		}); e != "" {
			o.Err = "Relay: " + e
		}
	default: // the host holds F itself (declared function or function literal) and Show
		if e := guard(func() error {
			fv, err := i.Eval("F")
			if err != nil {
				return err
			}
			sv, err := i.Eval("Show")
			if err != nil {
				return err
			}
			show, ok := sv.Interface().(func(interface{}) string)
			if !ok {
				return fmt.Errorf("Show is a %v", sv.Type())
			}
			f := reflect.ValueOf(fv.Interface())
			if f.Kind() != reflect.Func || f.Type().NumIn() != 1 {
				return fmt.Errorf("F is a %v", f.Type())
			}
			var rs []reflect.Value
			for n := 1; n <= s.K; n++ {
				arg := reflect.New(f.Type().In(0)).Elem()
				a := argOf(n)
				switch arg.Kind() {
				case reflect.Array:
					for x := 0; x < 3; x++ {
						arg.Index(x).SetInt(int64(a[x]))
					}
				case reflect.Struct:
					fld := arg.Field(0)
					if fld.Kind() == reflect.Array {
						for x := 0; x < 3; x++ {
							fld.Index(x).SetInt(int64(a[x]))
						}
					} else {
						fld = reflect.NewAt(fld.Type(), fld.Addr().UnsafePointer()).Elem()
						fld.SetInt(int64(a[0]))
					}
				}
				rs = append(rs, f.Call([]reflect.Value{arg})[0])
			}
			for _, r := range rs {
				o.Native = append(o.Native, show(r.Interface()))
			}
			return nil
		}); e != "" {
			o.Err = "native calls: " + e
		}
	}
	return
}

// retDesign model-checks Retain.tla (both disciplines) and returns the scenarios it enumerates.
func retDesign(c *fw.Ctx) ([]retScn, error) {
	var scs []retScn
	for _, d := range []struct{ cfg, violated string }{{"Retain.fresh.cfg", ""}, {"Retain.pooled.cfg", "RetainedIntact"}} {
		res, err := c.TLC(fw.TLCOpts{Dir: "spec/bind", Module: "Retain", Cfg: d.cfg, Workers: 1, Timeout: 3 * time.Minute})
		if err != nil {
			return nil, err
		}
		if (d.violated == "") != (res.Violated == "") || !strings.Contains(res.Violated, d.violated) {
			return nil, fmt.Errorf("Retain.tla %s: expected violated=%q, TLC says %q", d.cfg, d.violated, res.Violated)
		}
		c.Extra["design_"+d.cfg] = map[string]any{"violated": res.Violated, "distinct_states": res.Distinct}
		if len(scs) == 0 {
			for _, raw := range res.Beh {
				var r struct {
					Scenarios []retScn `json:"scenarios"`
				}
				if json.Unmarshal(raw, &r) == nil && len(r.Scenarios) > 0 {
					scs = r.Scenarios
				}
			}
		}
	}
	if len(scs) == 0 {
		return nil, fmt.Errorf("Retain.tla enumerated no scenario")
	}
	return scs, nil
}

func retJudge(c *fw.Ctx, j retJob, r fw.ChildResult) error {
	var o retObs
	if r.Out == nil || json.Unmarshal(r.Out, &o) != nil {
		return fmt.Errorf("retained-result scenario %s: harness child %s", j.Sc.key(), r.Describe())
	}
	c.Count(j.Sc.key(), true)
	c.TracesVsImpl++
	var want []string
	for i := 1; i <= j.Sc.K; i++ {
		want = append(want, wantOf(j.Sc.Form, i))
	}
	rep := map[string]any{"part": "retain", "sc": j.Sc, "want": want, "observed": o}
	trig := "a result that refers to its own parameter, kept over later calls: " + j.Sc.Form
	w := strings.Join(want, " | ")
	switch {
	case o.Err != "" && o.Inside == nil:
		// the script alone does not get through: not a matter of the boundary
		c.Extra["retain_script_only_failures"] = fmt.Sprint(c.Extra["retain_script_only_failures"], " ", j.Sc.key(), ": ", short(o.Err))
	case strings.Join(o.Inside, " | ") != w:
		c.Extra["retain_script_only_failures"] = fmt.Sprint(c.Extra["retain_script_only_failures"], " ", j.Sc.key(), ": inside ", o.Inside)
	case o.Err != "":
		c.Fail(trig+", "+j.Sc.Who, "the native calls fail where the calls inside the script succeed", rep)
	case strings.Join(o.Native, " | ") != w:
		c.Fail(trig+", "+j.Sc.Who, "a later call changed what an earlier call returned", rep)
	}
	return nil
}

// retainFamily runs the scenarios of Retain.tla on the real interpreter.
func retainFamily(c *fw.Ctx) error {
	scs, err := retDesign(c)
	if err != nil {
		return err
	}
	var jobs []retJob
	var anys []any
	for _, s := range scs {
		j := retJob{Part: "retain", Sc: s}
		jobs = append(jobs, j)
		anys = append(anys, j)
	}
	results := c.RunChildren("c07retain", anys, 8, 120*time.Second, nil)
	for k, r := range results {
		if err := retJudge(c, jobs[k], r); err != nil {
			return err
		}
	}
	c.Extra["retained_result_scenarios"] = len(jobs)
	return nil
}

func retReplay(c *fw.Ctx, j retJob) error {
	results := c.RunChildren("c07retain", []any{j}, 1, 300*time.Second, nil)
	if err := retJudge(c, j, results[0]); err != nil {
		return err
	}
	fmt.Printf("replayed %s: %s\n", j.Sc.key(), string(results[0].Out))
	return nil
}
