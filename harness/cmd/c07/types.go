package main

// The host side of Boundary.tla, written with reflect: types from the model's type
// descriptors, canonical values (Mk), the transformation (Bump), the canonical dump,
// closures, and the main function of a scenario as a reflect.MakeFunc.

import (
	"errors"
	"fmt"
	"math"
	"reflect"
	"strconv"
	"strings"

	"verif/hostpkg"
)

// Ty is a type of the model: unary constructors ending in a base type.
type Ty []string

func (t Ty) head() string { return t[0] }
func (t Ty) tail() Ty {
	if t[0] == "HL" {
		return Ty{"int"}
	}
	return t[1:]
}
func (t Ty) key() string { return strings.Join(t, "_") }

var (
	errorType = reflect.TypeOf((*error)(nil)).Elem()
	shapeType = reflect.TypeOf((*hostpkg.Shape)(nil)).Elem()
)

// rtype is the Go type denoted by t.
func rtype(t Ty) reflect.Type {
	switch t.head() {
	case "bool":
		return reflect.TypeOf(false)
	case "int":
		return reflect.TypeOf(int(0))
	case "int8":
		return reflect.TypeOf(int8(0))
	case "uint16":
		return reflect.TypeOf(uint16(0))
	case "int64":
		return reflect.TypeOf(int64(0))
	case "float64":
		return reflect.TypeOf(float64(0))
	case "string":
		return reflect.TypeOf("")
	case "HS":
		return reflect.TypeOf(hostpkg.HS{})
	case "HI":
		return reflect.TypeOf(hostpkg.HI(0))
	case "HL":
		return reflect.TypeOf(hostpkg.HL(nil))
	case "error":
		return errorType
	case "Shape":
		return shapeType
	case "ptr":
		return reflect.PointerTo(rtype(t.tail()))
	case "slice":
		return reflect.SliceOf(rtype(t.tail()))
	case "arr":
		return reflect.ArrayOf(2, rtype(t.tail()))
	case "map":
		return reflect.MapOf(reflect.TypeOf(""), rtype(t.tail()))
	case "func":
		u := rtype(t.tail())
		return reflect.FuncOf([]reflect.Type{u}, []reflect.Type{u}, false)
	}
	panic("rtype: unknown constructor " + t.head())
}

// as returns x as an addressable-independent value of exactly type rt (needed for
// interface types: reflect.ValueOf loses the static type).
func as(rt reflect.Type, x any) reflect.Value {
	v := reflect.New(rt).Elem()
	if x != nil {
		v.Set(reflect.ValueOf(x).Convert(rt))
	}
	return v
}

// mkR is Mk of the model on the host side.
func mkR(t Ty, i int) reflect.Value {
	rt := rtype(t)
	if i == 0 {
		return reflect.Zero(rt)
	}
	pick := func(a, b any) reflect.Value {
		if i == 1 {
			return as(rt, a)
		}
		return as(rt, b)
	}
	switch t.head() {
	case "bool":
		return pick(true, false)
	case "int":
		return pick(7, -3)
	case "int8":
		return pick(int8(127), int8(-128))
	case "uint16":
		return pick(uint16(65535), uint16(1))
	case "int64":
		return pick(int64(1)<<40+5, int64(-9))
	case "float64":
		return pick(1.5, math.Copysign(0, -1))
	case "string":
		return pick("go", "x y")
	case "HS":
		return pick(hostpkg.HS{A: 7, B: "go"}, hostpkg.HS{A: -3, B: "x y"})
	case "HI":
		return pick(hostpkg.HI(41), hostpkg.HI(-1))
	case "HL":
		return pick(hostpkg.HL{1, 2}, hostpkg.HL{9})
	case "error":
		return pick(errors.New("e1"), hostpkg.HErr{Msg: "e2"})
	case "Shape":
		return pick(hostpkg.Rect{W: 3}, &hostpkg.Disk{R: 5})
	case "ptr":
		p := reflect.New(rt.Elem())
		p.Elem().Set(mkR(t.tail(), i))
		return p
	case "slice":
		s := reflect.MakeSlice(rt, 0, 2)
		if i == 1 {
			return reflect.Append(s, mkR(t.tail(), 1), mkR(t.tail(), 2))
		}
		return reflect.Append(s, mkR(t.tail(), 2))
	case "arr":
		a := reflect.New(rt).Elem()
		if i == 1 {
			a.Index(0).Set(mkR(t.tail(), 1))
			a.Index(1).Set(mkR(t.tail(), 2))
		} else {
			a.Index(0).Set(mkR(t.tail(), 2))
		}
		return a
	case "map":
		m := reflect.MakeMap(rt)
		if i == 1 {
			m.SetMapIndex(reflect.ValueOf("a"), mkR(t.tail(), 1))
			m.SetMapIndex(reflect.ValueOf("b"), mkR(t.tail(), 2))
		} else {
			m.SetMapIndex(reflect.ValueOf("b"), mkR(t.tail(), 1))
		}
		return m
	case "func":
		return closureR(t.tail(), i == 1, reflect.Value{})
	}
	panic("mkR: unknown constructor " + t.head())
}

// closureR is a host closure of type func(U) U: calls inner (if any), bumps (or not).
func closureR(u Ty, bump bool, inner reflect.Value) reflect.Value {
	ft := rtype(append(Ty{"func"}, u...))
	return reflect.MakeFunc(ft, func(in []reflect.Value) []reflect.Value {
		x := in[0]
		hostpkg.Ev("enter clo|" + dumpR(u, x))
		t := x
		if inner.IsValid() {
			t = inner.Call([]reflect.Value{x})[0]
		}
		if bump {
			t = bumpR(u, t)
		}
		hostpkg.Ev("leave clo|" + dumpR(u, t))
		return []reflect.Value{t}
	})
}

func isNilable(k reflect.Kind) bool {
	switch k {
	case reflect.Ptr, reflect.Slice, reflect.Map, reflect.Func, reflect.Interface:
		return true
	}
	return false
}

// bumpR is Bump of the model: values are changed and returned, references are followed
// and their target changed in place.
func bumpR(t Ty, v reflect.Value) reflect.Value {
	rt := rtype(t)
	n := reflect.New(rt).Elem()
	n.Set(v)
	switch t.head() {
	case "bool":
		n.SetBool(!v.Bool())
	case "int", "int8", "int64", "HI":
		n.SetInt(v.Int() + 1) // SetInt truncates to the width: 127+1 -> -128 for int8
	case "uint16":
		n.SetUint(v.Uint() + 1)
	case "float64":
		n.SetFloat(v.Float() + 0.5)
	case "string":
		n.SetString(v.String() + "x")
	case "HS":
		n.Field(0).SetInt(v.Field(0).Int() + 1)
	case "error", "Shape":
	case "func":
		if !v.IsNil() {
			// n is a private copy of the function value: v may be a slice slot or a
			// variable that is about to be overwritten with the new closure
			return closureR(t.tail(), true, n)
		}
	case "arr":
		n.Index(0).Set(bumpR(t.tail(), v.Index(0)))
	case "ptr":
		if !v.IsNil() {
			v.Elem().Set(bumpR(t.tail(), v.Elem()))
		}
	case "slice", "HL":
		if !v.IsNil() && v.Len() > 0 {
			v.Index(0).Set(bumpR(t.tail(), v.Index(0)))
		}
	case "map":
		if !v.IsNil() {
			k := reflect.ValueOf("a")
			cur := v.MapIndex(k)
			if !cur.IsValid() {
				cur = reflect.Zero(rt.Elem())
			}
			v.SetMapIndex(k, bumpR(t.tail(), cur))
		}
	default:
		panic("bumpR: unknown constructor " + t.head())
	}
	return n
}

// dumpR is Dump of the model.
func dumpR(t Ty, v reflect.Value) string {
	if isNilable(v.Kind()) && v.IsNil() {
		return "nil"
	}
	switch t.head() {
	case "bool":
		return strconv.FormatBool(v.Bool())
	case "int", "int8", "int64", "HI":
		return strconv.FormatInt(v.Int(), 10)
	case "uint16":
		return strconv.FormatUint(v.Uint(), 10)
	case "float64":
		return strconv.FormatFloat(v.Float(), 'g', -1, 64)
	case "string":
		return "'" + v.String() + "'"
	case "HS":
		return "HS{" + strconv.FormatInt(v.Field(0).Int(), 10) + ",'" + v.Field(1).String() + "'}"
	case "error":
		return "err(" + v.Interface().(error).Error() + ")"
	case "Shape":
		hostpkg.Mute(1)
		a := v.Interface().(hostpkg.Shape).Area()
		hostpkg.Mute(-1)
		return "shape(" + strconv.Itoa(a) + ")"
	case "ptr":
		return "&" + dumpR(t.tail(), v.Elem())
	case "slice", "HL":
		var b strings.Builder
		b.WriteString("[")
		for i := 0; i < v.Len(); i++ {
			if i > 0 {
				b.WriteString(",")
			}
			b.WriteString(dumpR(t.tail(), v.Index(i)))
		}
		b.WriteString("]")
		return b.String()
	case "arr":
		return "<" + dumpR(t.tail(), v.Index(0)) + "," + dumpR(t.tail(), v.Index(1)) + ">"
	case "map":
		s := "{"
		for _, k := range []string{"a", "b"} {
			if e := v.MapIndex(reflect.ValueOf(k)); e.IsValid() {
				s += k + "=" + dumpR(t.tail(), e) + ";"
			}
		}
		if v.Len() > 2 {
			s += fmt.Sprintf("+%d;", v.Len()-2)
		}
		return s + "}"
	case "func":
		hostpkg.Mute(1)
		r := v.Call([]reflect.Value{mkR(t.tail(), 1)})[0]
		s := "fn(" + dumpR(t.tail(), r) + ")"
		hostpkg.Mute(-1)
		return s
	}
	panic("dumpR: unknown constructor " + t.head())
}

func joinDumpR(ts []Ty, vs []reflect.Value) string {
	var b strings.Builder
	for i, v := range vs {
		b.WriteString("|")
		b.WriteString(dumpR(ts[i], v))
	}
	return b.String()
}

// mainR is the main function of scenario s as a host function (reflect.MakeFunc over
// reflect.FuncOf): it records what it receives and computes the transformer.
func mainR(s *scn) reflect.Value {
	pts := s.paramTypes()
	rts := s.resTypes()
	in := make([]reflect.Type, len(pts))
	for i, t := range pts {
		in[i] = rtype(t)
	}
	out := make([]reflect.Type, len(rts))
	for i, t := range rts {
		out[i] = rtype(t)
	}
	ft := reflect.FuncOf(in, out, s.Vd != "no")
	return reflect.MakeFunc(ft, func(args []reflect.Value) []reflect.Value {
		p := make([]reflect.Value, len(args))
		copy(p, args)
		hostpkg.Say("enter main" + joinDumpR(pts, p))
		for i := range p {
			if s.Ps[i].Op == "bump" {
				p[i] = bumpR(pts[i], p[i])
			}
		}
		res := make([]reflect.Value, len(rts))
		n := len(p)
		for j, r := range s.Rs {
			rt := out[j]
			switch r.Src {
			case "param":
				res[j] = p[r.I-1]
			case "const":
				res[j] = mkR(Ty(r.T), r.V)
			case "len":
				res[j] = reflect.ValueOf(p[n-1].Len())
			case "elem":
				res[j] = reflect.Zero(rt)
				if p[n-1].Len() >= r.K {
					res[j] = p[n-1].Index(r.K - 1)
				}
			case "call":
				res[j] = reflect.Zero(rt)
				if f := p[r.I-1]; !f.IsNil() {
					var a reflect.Value
					if r.K > 0 {
						a = p[r.K-1]
					} else {
						a = mkR(rts[j], 1)
					}
					res[j] = f.Call([]reflect.Value{a})[0]
				}
			case "area", "grow":
				x := -1
				if f := p[r.I-1]; !f.IsNil() {
					if r.Src == "area" {
						x = f.Interface().(hostpkg.Shape).Area()
					} else {
						x = f.Interface().(hostpkg.Shape).Grow(1)
					}
				}
				res[j] = reflect.ValueOf(x)
			}
			// results of interface type must carry the static type
			if rt.Kind() == reflect.Interface && res[j].Type() != rt {
				w := reflect.New(rt).Elem()
				w.Set(res[j])
				res[j] = w
			}
		}
		hostpkg.Say("leave main" + joinDumpR(rts, res))
		return res
	})
}

// sinkR is the host consumer of the results of a nested call f(g(...)).
func sinkR(s *scn) reflect.Value {
	rts := s.resTypes()
	in := make([]reflect.Type, len(rts))
	for i, t := range rts {
		in[i] = rtype(t)
	}
	return reflect.MakeFunc(reflect.FuncOf(in, nil, false), func(args []reflect.Value) []reflect.Value {
		hostpkg.Say("res" + joinDumpR(rts, args))
		return nil
	})
}
