package main

import (
	"bytes"
	"encoding/json"
	"fmt"
	"os"
	"reflect"
	"runtime"
	"runtime/debug"
	"strconv"
	"strings"
	"sync"
	"time"

	"github.com/traefik/yaegi/interp"
	"github.com/traefik/yaegi/stdlib"

	"verif/fw"
)

// job is one batch of repetitions of one instance inside a child process.
type job struct {
	I     inst  `json:"i"`
	Reps  int   `json:"reps"`
	Procs []int `json:"procs"` // GOMAXPROCS values, cycled over the repetitions
	Seed  int64 `json:"seed"`  // seeds the per-goroutine yield generators
	Trace bool  `json:"trace"` // record (goroutine, frame) pairs (non-race build only)
	Idx   int   `json:"idx"`   // position in the batch (race pass: names the job in the log side file)
}

type rep struct {
	Procs int      `json:"procs"`
	Out   []string `json:"out"`
	Hang  bool     `json:"hang,omitempty"` // every goroutine blocked, program not finished
	Slow  bool     `json:"slow,omitempty"` // hard timeout with goroutines still running
	Err   string   `json:"err,omitempty"`
	Dump  string   `json:"dump,omitempty"` // states of the blocked goroutines (hang)
}

type event map[string]any

type jobResult struct {
	Reps    []rep   `json:"reps"`
	Race    string  `json:"race,omitempty"` // race detector output produced during this job
	Events  []event `json:"events,omitempty"`
	Ops     int64   `json:"ops"`
	Restart bool    `json:"_restart"`
	Err     string  `json:"err,omitempty"`
}

// ---------------------------------------------------------------- the step hook
//
// The hook must not synchronise goroutines with each other: any lock or atomic in it would
// order the interpreted operations for the race detector and hide the races the check is
// after. Each goroutine therefore owns one slot of a fixed array (indexed by its id) that
// holds its private generator; hookSeed and tracing are written only while no interpreted
// goroutine exists (race children run one job per process).

type slot struct {
	s    uint64
	rate uint64 // yield when the low bits of the draw are zero
	n    uint64
	_    [40]byte
}

var (
	slots    [1 << 14]slot
	hookSeed uint64
	tracing  bool

	trMu    sync.Mutex
	trSeen  map[[2]uint64]bool
	trFrame map[uintptr]int
	trEv    []event
	trOps   int64
	trCur   map[*interp.Interpreter]bool // interpreters of the run being recorded
)

func goid() uint64 {
	var buf [64]byte
	n := runtime.Stack(buf[:], false)
	s := buf[10:n] // "goroutine 123 [running]:"
	i := bytes.IndexByte(s, ' ')
	if i < 0 {
		return 0
	}
	v, _ := strconv.ParseUint(string(s[:i]), 10, 64)
	return v
}

func splitmix(x uint64) uint64 {
	x += 0x9E3779B97F4A7C15
	x = (x ^ (x >> 30)) * 0xBF58476D1CE4E5B9
	x = (x ^ (x >> 27)) * 0x94D049BB133111EB
	return x ^ (x >> 31)
}

func step(i *interp.Interpreter, iid, fid uint64, fr uintptr, root bool) {
	g := goid()
	sl := &slots[g&(1<<14-1)]
	if sl.s == 0 {
		sl.s = splitmix(hookSeed^(g*0x2545F4914F6CDD1D)) | 1
		// the goroutine's temperament: yields every 2nd, 4th, 16th or 64th operation on average
		sl.rate = []uint64{1, 3, 15, 63}[splitmix(sl.s)%4]
	}
	sl.n++
	x := sl.s
	x ^= x << 13
	x ^= x >> 7
	x ^= x << 17
	sl.s = x
	if x&sl.rate == 0 {
		if (x>>8)&7 == 0 {
			time.Sleep(time.Duration(10+(x>>16)%150) * time.Microsecond)
		} else {
			runtime.Gosched()
		}
	}
	if tracing {
		trMu.Lock()
		if !trCur[i] {
			trMu.Unlock()
			return // a goroutine left over from an earlier run
		}
		trOps++
		fi, ok := trFrame[fr]
		if !ok {
			fi = len(trFrame) + 1
			trFrame[fr] = fi
		}
		k := [2]uint64{g, uint64(fi)}
		if !trSeen[k] {
			trSeen[k] = true
			trEv = append(trEv, event{"e": "Exec", "g": g, "f": fi, "root": root})
		}
		trMu.Unlock()
	}
}

// lockedBuf is the program's stdout: one line per Write, safe for concurrent goroutines.
type lockedBuf struct {
	mu sync.Mutex
	b  bytes.Buffer
}

func (l *lockedBuf) Write(p []byte) (int, error) {
	l.mu.Lock()
	defer l.mu.Unlock()
	return l.b.Write(p)
}

func (l *lockedBuf) String() string {
	l.mu.Lock()
	defer l.mu.Unlock()
	return l.b.String()
}

func init() {
	interp.VerifStep = step
	fw.RegisterChild("c08", func(raw json.RawMessage) any {
		var j job
		if err := json.Unmarshal(raw, &j); err != nil {
			return jobResult{Err: err.Error()}
		}
		return runJob(j)
	})
}

var raceLogOff int64

// raceLog returns what the race detector wrote since the last call (GORACE=log_path=...).
func raceLog() string {
	p := os.Getenv("C08_RACELOG")
	if p == "" {
		return ""
	}
	b, err := os.ReadFile(fmt.Sprintf("%s.%d", p, os.Getpid()))
	if err != nil || int64(len(b)) <= raceLogOff {
		return ""
	}
	s := string(b[raceLogOff:])
	raceLogOff = int64(len(b))
	return s
}

func runJob(j job) (res jobResult) {
	hookSeed = uint64(j.Seed)
	tracing = j.Trace
	if p := os.Getenv("C08_RACELOG"); p != "" {
		res.Restart = true // one job per race child: reports and hook state stay attributable
		// should this process die, the parent still finds which job its race log belongs to
		os.WriteFile(fmt.Sprintf("%s.%d.job", p, os.Getpid()), []byte(strconv.Itoa(j.Idx)), 0o644)
	}
	base := runtime.NumGoroutine()
	for r := 0; r < j.Reps; r++ {
		// goroutines of the previous run that were past their last observable operation
		// when main returned finish now; then a collection, so that none happens (and no
		// frame address is reused) during a recorded run
		for w := 0; w < 200 && runtime.NumGoroutine() > base; w++ {
			time.Sleep(2 * time.Millisecond)
		}
		if tracing {
			runtime.GC()
		}
		procs := j.Procs[r%len(j.Procs)]
		old := runtime.GOMAXPROCS(procs)
		if tracing {
			trMu.Lock()
			trSeen, trFrame, trCur = map[[2]uint64]bool{}, map[uintptr]int{}, map[*interp.Interpreter]bool{}
			trEv = append(trEv, event{"e": "Start", "run": fmt.Sprintf("%s/rep=%d/procs=%d", j.I.key(), r, procs)})
			trMu.Unlock()
			// frame identity is an address: no collection (hence no reuse) during the run
			debug.SetGCPercent(-1)
		}
		rp := runRep(j.I)
		rp.Procs = procs
		runtime.GOMAXPROCS(old)
		if tracing {
			debug.SetGCPercent(100)
			trMu.Lock()
			trEv = append(trEv, event{"e": "End"})
			trMu.Unlock()
		}
		res.Reps = append(res.Reps, rp)
		if rp.Hang || rp.Slow {
			// goroutines are left behind: the process is poisoned
			res.Restart = true
			break
		}
	}
	if tracing {
		trMu.Lock()
		res.Events, res.Ops = trEv, trOps
		trEv, trOps = nil, 0
		trMu.Unlock()
	}
	res.Race = raceLog()
	return res
}

func newInterp(out *lockedBuf) *interp.Interpreter {
	i := interp.New(interp.Options{Stdout: out, Stderr: new(lockedBuf)})
	if err := i.Use(stdlib.Symbols); err != nil {
		panic(err)
	}
	if tracing {
		trMu.Lock()
		trCur[i] = true
		trMu.Unlock()
	}
	return i
}

// runRep executes the instance once and waits for it with deadlock detection.
func runRep(in inst) rep {
	out := &lockedBuf{}
	done := make(chan string, 1)
	go func() {
		defer func() {
			if r := recover(); r != nil {
				done <- fmt.Sprintf("panic: %v", r)
			}
		}()
		var err error
		switch in.kind() {
		case "prog":
			_, err = newInterp(out).Eval(in.script())
		case "host":
			err = runHost(in, out)
		case "interps":
			err = runInterps(in, out)
		case "hostiface":
			err = runHostIface(in, out)
		}
		if err != nil {
			done <- err.Error()
			return
		}
		done <- ""
	}()
	hard := time.After(hardTimeout())
	quiet := 0
	last := ""
	tick := time.NewTicker(150 * time.Millisecond)
	defer tick.Stop()
	for {
		select {
		case e := <-done:
			return rep{Out: splitLines(out.String()), Err: e}
		case <-hard:
			return rep{Out: splitLines(out.String()), Slow: true, Dump: goroutineStates()}
		case <-tick.C:
			st := goroutineStates()
			if !strings.Contains(st, "BUSY") && st == last {
				quiet++
			} else {
				quiet = 0
			}
			last = st
			if quiet >= 3 {
				select {
				case e := <-done: // finished in the meantime
					return rep{Out: splitLines(out.String()), Err: e}
				default:
				}
				return rep{Out: splitLines(out.String()), Hang: true, Dump: st}
			}
		}
	}
}

func hardTimeout() time.Duration {
	if os.Getenv("C08_RACELOG") != "" {
		return 180 * time.Second
	}
	return 90 * time.Second
}

// goroutineStates summarises every goroutine but the caller: "BUSY" when it can still make
// progress by itself (running, runnable, sleeping, in a syscall), otherwise what it waits for.
// A program all of whose goroutines wait on channels, selects, WaitGroups and Mutexes for
// several samples in a row cannot make progress any more: that is a hang, decided without
// waiting for a long timeout (which a loaded machine would make unreliable).
func goroutineStates() string {
	buf := make([]byte, 1<<20)
	n := runtime.Stack(buf, true)
	var sb strings.Builder
	for k, g := range strings.Split(string(buf[:n]), "\n\n") {
		if k == 0 {
			continue // the caller
		}
		h := g
		if i := strings.IndexByte(g, '\n'); i >= 0 {
			h = g[:i]
		}
		a, b := strings.IndexByte(h, '['), strings.IndexByte(h, ']')
		if a < 0 || b < a {
			continue
		}
		st := h[a+1 : b]
		if i := strings.IndexByte(st, ','); i >= 0 {
			st = st[:i] // drop "N minutes"
		}
		switch st {
		case "running", "runnable", "sleep", "syscall":
			sb.WriteString("BUSY ")
		case "IO wait", "GC worker (idle)", "GC sweep wait", "GC scavenge wait", "finalizer wait", "force gc (idle)", "chan receive (nil chan)":
			// runtime and harness goroutines that wait for outside events
		default:
			where := ""
			if strings.Contains(g, "yaegi/interp") {
				where = "@interp"
			}
			sb.WriteString(st + where + "; ")
		}
	}
	return sb.String()
}

// runHost: n host goroutines call the script function F concurrently, then Total.
func runHost(in inst, out *lockedBuf) error {
	i := newInterp(out)
	if _, err := i.Eval(in.script()); err != nil {
		return err
	}
	fv, err := i.Eval("F")
	if err != nil {
		return err
	}
	f, ok := fv.Interface().(func(int, int) int)
	if !ok {
		return fmt.Errorf("F has type %s", fv.Type())
	}
	res := make([]int, in.N+1)
	errs := make([]string, in.N+1)
	var h sync.WaitGroup
	h.Add(in.N)
	for k := 1; k <= in.N; k++ {
		go func(k int) {
			defer h.Done()
			defer func() {
				if r := recover(); r != nil {
					errs[k] = fmt.Sprintf("panic in F(%d): %v", k, r)
				}
			}()
			res[k] = f(k, in.M)
		}(k)
	}
	h.Wait()
	for k := 1; k <= in.N; k++ {
		if errs[k] != "" {
			return fmt.Errorf("%s", errs[k])
		}
		fmt.Fprintln(out, k, res[k])
	}
	tv, err := i.Eval("Total()")
	if err != nil {
		return err
	}
	fmt.Fprintln(out, 0, tv.Interface())
	return nil
}

// runHostIface: n host goroutines call the exported function Apply(id, c), each with its own
// channel; the channels are fed in the reverse order once the callers have been started.
func runHostIface(in inst, out *lockedBuf) error {
	i := newInterp(out)
	if _, err := i.Eval(in.script()); err != nil {
		return err
	}
	fv, err := i.Eval("Apply")
	if err != nil {
		return err
	}
	f, ok := fv.Interface().(func(int, chan int) int)
	if !ok {
		return fmt.Errorf("Apply has type %s", fv.Type())
	}
	res := make([]int, in.N+1)
	errs := make([]string, in.N+1)
	cs := make([]chan int, in.N+1)
	var h sync.WaitGroup
	h.Add(in.N)
	for k := 1; k <= in.N; k++ {
		cs[k] = make(chan int)
		go func(k int) {
			defer h.Done()
			defer func() {
				if r := recover(); r != nil {
					errs[k] = fmt.Sprintf("panic in Apply(%d): %v", k, r)
				}
			}()
			res[k] = f(k, cs[k])
		}(k)
	}
	for k := in.N; k >= 1; k-- {
		cs[k] <- k*10 + in.M
	}
	h.Wait()
	for k := 1; k <= in.N; k++ {
		if errs[k] != "" {
			return fmt.Errorf("%s", errs[k])
		}
		fmt.Fprintln(out, k, res[k])
	}
	return nil
}

// runInterps: n interpreters created, loaded and run in parallel.
func runInterps(in inst, out *lockedBuf) error {
	res := make([]reflect.Value, in.N+1)
	errs := make([]error, in.N+1)
	var h sync.WaitGroup
	h.Add(in.N)
	for k := 1; k <= in.N; k++ {
		go func(k int) {
			defer h.Done()
			defer func() {
				if r := recover(); r != nil {
					errs[k] = fmt.Errorf("panic in interpreter %d: %v", k, r)
				}
			}()
			i := newInterp(out)
			if _, err := i.Eval(in.script()); err != nil {
				errs[k] = err
				return
			}
			res[k], errs[k] = i.Eval(fmt.Sprintf("Run(%d, %d)", k, in.M))
		}(k)
	}
	h.Wait()
	for k := 1; k <= in.N; k++ {
		if errs[k] != nil {
			return errs[k]
		}
		fmt.Fprintln(out, k, res[k].Interface())
	}
	return nil
}
