// Check for property C08: concurrent execution is correct and free of interpreter-induced
// races.
//
// spec/conc/Chan.tla is the machine (goroutines with their own locals, channels, select,
// WaitGroup, Mutex), spec/conc/Templates.tla the program families. TLC explores ALL
// schedules of every instance up to n, k <= 3, buffer <= 2 and checks deadlock freedom,
// OutputDeterminism, Isolation, DataRaceFree, MutualExclusion, NoFault and MainLast; that
// proves the instance is inside the property's quantifier domain and yields its unique
// output. Mechanism-level cfgs model the per-statement case vector of interp/run.go _select.
//
// Binding (G): programs.go holds the same programs as Go text; every instance is run
// under the real interpreter many times with seeded yield injection from the step hook
// and several GOMAXPROCS values; output must be the model's. Binding (T): the hook's
// (goroutine, frame) pairs are validated by TLC against spec/conc/FrameTrace.tla. Races:
// the same runs under a -race build of this harness (race.go).
package main

import (
	"bytes"
	"encoding/json"
	"fmt"
	"os"
	"sort"
	"strings"
	"sync"
	"time"

	"verif/fw"
)

func main() {
	if len(os.Args) >= 4 && os.Args[1] == "--racepass" {
		racePassMain(os.Args[2], os.Args[3])
		return
	}
	fw.Main("C08", "model_checking", run)
}

// ------------------------------------------------------------------------ the model

type beh struct {
	inst
	Multiset bool    `json:"multiset"`
	Out      [][]int `json:"out"`
	Expect   [][]int `json:"expect"`
}

type modelInst struct {
	I          inst     `json:"i"`
	Expect     []string `json:"expect"`
	Multiset   bool     `json:"multiset"`
	Exhaustive bool     `json:"exhaustive"` // all schedules explored (otherwise sampled schedules)
	Terminals  int      `json:"terminals"`  // terminal states / sampled behaviours seen
}

type model struct {
	mu   sync.Mutex
	inst map[string]*modelInst
	errs []string
}

func setOf(v []int) string {
	s := make([]string, len(v))
	for i, x := range v {
		s[i] = fmt.Sprint(x)
	}
	return "{" + strings.Join(s, ", ") + "}"
}

func strSet(v []string) string {
	s := make([]string, len(v))
	for i, x := range v {
		s[i] = `"` + x + `"`
	}
	return "{" + strings.Join(s, ", ") + "}"
}

const allInvs = "Isolation NoFault DataRaceFree MutualExclusion MainLast OutputDeterminism Emit"

type cfgOpt struct {
	spec     string
	fams     []string
	ns, bs   []int
	pcsum    int
	mode     string
	big      bool
	invs     string
	deadlock bool
}

func (o cfgOpt) bytes() []byte {
	mp, mc, mi := 12, 12, 3
	if o.big {
		mp, mc, mi = 24, 30, 8
	}
	s := fmt.Sprintf("SPECIFICATION %s\nCONSTANTS Families = %s NSet = %s BSet = %s PCSum = %d\n SelMode = \"%s\" MaxProcs = %d MaxChans = %d MaxSel = 3 MaxCases = 2 MaxIP = %d\nINVARIANTS %s\n",
		o.spec, strSet(o.fams), setOf(o.ns), setOf(o.bs), o.pcsum, o.mode, mp, mc, mi, o.invs)
	if !o.deadlock {
		s += "CHECK_DEADLOCK FALSE\n"
	}
	return []byte(s)
}

func (m *model) add(raw json.RawMessage, exhaustive bool) {
	var b beh
	if err := json.Unmarshal(raw, &b); err != nil {
		return
	}
	m.mu.Lock()
	defer m.mu.Unlock()
	k := b.inst.key()
	mi := m.inst[k]
	if mi == nil {
		mi = &modelInst{I: b.inst, Expect: lines(b.Expect), Multiset: b.Multiset, Exhaustive: exhaustive}
		m.inst[k] = mi
	}
	mi.Terminals++
	// the uniqueness TLC's OutputDeterminism invariant states, seen from outside
	if !same(lines(b.Out), mi.Expect, mi.Multiset) && len(m.errs) < 5 {
		m.errs = append(m.errs, fmt.Sprintf("%s: terminal state with out=%v, expected %v", k, b.Out, b.Expect))
	}
}

var cheap = []string{"pipeline", "rebind", "iface", "privsel", "counter", "host"}
var costly = []string{"pool", "drain", "prodcons", "interps"}

// exhaustive model checking of the families; returns per-run statistics
func (m *model) exhaustive(c *fw.Ctx) error {
	type runT struct {
		name string
		o    cfgOpt
	}
	var runs []runT
	if c.Quick() {
		runs = []runT{
			{"cheap families n,k<=3 b<=2", cfgOpt{fams: cheap, ns: []int{1, 2, 3}, bs: []int{0, 1, 2}}},
			{"costly families n,k<=2 b<=1", cfgOpt{fams: costly, ns: []int{1, 2}, bs: []int{0, 1}}},
		}
	} else {
		for _, f := range append(append([]string{}, cheap...), costly...) {
			runs = append(runs, runT{f + " n,k<=3 b<=2", cfgOpt{fams: []string{f}, ns: []int{1, 2, 3}, bs: []int{0, 1, 2}}})
		}
	}
	stats := make([]map[string]any, len(runs))
	errs := make([]error, len(runs))
	var wg sync.WaitGroup
	sem := make(chan struct{}, 2) // two JVMs of four workers
	for i, r := range runs {
		wg.Add(1)
		go func(i int, r runT) {
			defer wg.Done()
			sem <- struct{}{}
			defer func() { <-sem }()
			r.o.spec, r.o.pcsum, r.o.mode, r.o.invs, r.o.deadlock = "Spec", 4, "atomic", allInvs, true
			res, err := c.TLC(fw.TLCOpts{Dir: "spec/conc", Module: "Chan", Cfg: "gen.cfg", Workers: 4, CheckDeadlock: true,
				Files: map[string][]byte{"gen.cfg": r.o.bytes()}, Timeout: 25 * time.Minute,
				OnBeh: func(raw json.RawMessage) { m.add(raw, true) }})
			if err != nil {
				errs[i] = err
				return
			}
			if res.Violated != "" {
				errs[i] = fmt.Errorf("model-level property violated (%s): %s\n%s", r.name, res.Violated, tail(res.Output, 3000))
				return
			}
			stats[i] = map[string]any{"run": r.name, "distinct_states": res.Distinct, "generated": res.Generated, "depth": res.Depth, "wall_s": res.Wall.Seconds()}
		}(i, r)
	}
	wg.Wait()
	for _, e := range errs {
		if e != nil {
			return e
		}
	}
	c.Extra["exhaustive_runs"] = stats
	return nil
}

// design-level model checking: the mechanism of select's case vector, and a negative control
func design(c *fw.Ctx) (map[string]bool, error) {
	type d struct {
		name, what string
		o          cfgOpt
		want       string // invariant expected to be violated ("" = none, "Deadlock")
		finding    string
	}
	two := []int{2}
	ds := []d{
		{"select-shared/Isolation", "case vector per STATEMENT (interp/run.go _select as it is), 2 workers", cfgOpt{fams: []string{"privsel"}, ns: two, bs: []int{0}, mode: "shared", invs: "Isolation", deadlock: false}, "Isolation", "F-C08-1"},
		{"select-private", "case vector per EXECUTION (the repair), 2 workers", cfgOpt{fams: []string{"privsel"}, ns: two, bs: []int{0, 1}, mode: "private", invs: allInvs, deadlock: true}, "", ""},
		{"counter-without-mutex", "negative control: the counter family without its Mutex is outside the domain", cfgOpt{fams: []string{"nolock"}, ns: two, bs: []int{0}, mode: "atomic", invs: "DataRaceFree", deadlock: false}, "DataRaceFree", ""},
	}
	ds = append(ds, d{"close-without-wait", "negative control: closing the results channel without waiting for the senders", cfgOpt{fams: []string{"earlyclose"}, ns: two, bs: []int{1}, mode: "atomic", invs: "NoFault", deadlock: false}, "NoFault", ""})
	if !c.Quick() {
		ds = append(ds,
			d{"select-shared/OutputDeterminism", "shared vector: a worker receives another worker's messages", cfgOpt{fams: []string{"privsel"}, ns: two, bs: []int{0}, mode: "shared", invs: "OutputDeterminism", deadlock: false}, "OutputDeterminism", "F-C08-1"},
			d{"select-shared/deadlock", "shared vector: the program hangs", cfgOpt{fams: []string{"privsel"}, ns: two, bs: []int{0}, mode: "shared", invs: "NoFault", deadlock: true}, "Deadlock", "F-C08-1"},
			d{"counter-without-mutex/output", "negative control: without the Mutex the output depends on the schedule", cfgOpt{fams: []string{"nolock"}, ns: two, bs: []int{0}, mode: "atomic", invs: "OutputDeterminism", deadlock: false}, "OutputDeterminism", ""},
		)
	}
	predicted := map[string]bool{}
	var rows []map[string]any
	for _, x := range ds {
		x.o.spec, x.o.pcsum = "Spec", 4
		res, err := c.TLC(fw.TLCOpts{Dir: "spec/conc", Module: "Chan", Cfg: "gen.cfg", Workers: 2, CheckDeadlock: x.o.deadlock,
			Files: map[string][]byte{"gen.cfg": x.o.bytes()}, Timeout: 10 * time.Minute, OnBeh: func(json.RawMessage) {}})
		if err != nil {
			return nil, err
		}
		got := ""
		switch {
		case strings.Contains(res.Violated, "Deadlock"):
			got = "Deadlock"
		case res.Violated != "":
			f := strings.Fields(res.Violated)
			for i, w := range f {
				if w == "Invariant" && i+1 < len(f) {
					got = f[i+1]
				}
			}
			if got == "" {
				got = res.Violated
			}
		}
		if got != x.want {
			return nil, fmt.Errorf("design model %s (%s): expected violation %q, TLC reports %q\n%s", x.name, x.what, x.want, got, tail(res.Output, 1500))
		}
		if x.finding != "" {
			predicted[x.finding] = true
		}
		rows = append(rows, map[string]any{"cfg": x.name, "what": x.what, "violated": got, "states": res.Distinct, "finding": x.finding})
	}
	c.Extra["design_model_checking"] = rows
	return predicted, nil
}

// simulate asks the model for the verdict on instances beyond the exhaustive bounds.
func (m *model) simulate(c *fw.Ctx, need []inst, schedules int) error {
	if len(need) == 0 {
		return nil
	}
	var sb strings.Builder
	sb.WriteString("---- MODULE Pick ----\nPickSeq == <<\n")
	for i, in := range need {
		if i > 0 {
			sb.WriteString(",\n")
		}
		fmt.Fprintf(&sb, "  <<\"%s\", %d, %d, %d, %d>>", in.T, in.N, in.K, in.B, in.M)
	}
	sb.WriteString(" >>\n====\n")
	o := cfgOpt{spec: "SpecSim", fams: []string{}, ns: []int{0}, bs: []int{0}, pcsum: 99, mode: "atomic", big: true,
		invs: "DeadlockFree " + allInvs}
	// several JVMs, seeds derived from the check's seed (the schedules sampled are seeded)
	par := 2
	per := (schedules + par - 1) / par
	errs := make([]error, par)
	var wg sync.WaitGroup
	var states int64
	for j := 0; j < par; j++ {
		wg.Add(1)
		go func(j int) {
			defer wg.Done()
			n := 0
			res, err := c.TLC(fw.TLCOpts{Dir: "spec/conc", Module: "Chan", Cfg: "gen.cfg", Simulate: true, Num: per, Depth: 1000000,
				Seed: c.Seed*100 + int64(j), Files: map[string][]byte{"gen.cfg": o.bytes(), "Pick.tla": []byte(sb.String())},
				Timeout: 20 * time.Minute, OnBeh: func(raw json.RawMessage) { n++; m.add(raw, false) }})
			if err != nil {
				errs[j] = err
				return
			}
			if res.Violated != "" {
				errs[j] = fmt.Errorf("model-level property violated in simulation: %s\n%s", res.Violated, tail(res.Output, 3000))
			}
			m.mu.Lock()
			states += int64(n) * 200 // measured: about 200 states per behaviour of an instance with n = 4
			m.mu.Unlock()
		}(j)
	}
	wg.Wait()
	for _, e := range errs {
		if e != nil {
			return e
		}
	}
	c.States += states
	c.Transitions += states
	return nil
}

// ------------------------------------------------------------------ what is replayed

func realInstances(c *fw.Ctx) []inst {
	ns := []int{2, 4}
	bs := []int{0, 1}
	if !c.Quick() {
		ns = []int{2, 3, 4, 8}
		bs = []int{0, 1, 2}
	}
	var r []inst
	for _, n := range ns {
		for _, b := range bs {
			r = append(r, inst{"pool", n, 0, b, 3}, inst{"pool", n, 1, b, 3}, inst{"drain", n, 0, b, 3})
			for form := 0; form <= 3; form++ {
				r = append(r, inst{"pipeline", form, n, b, 3})
			}
			if b <= 1 {
				r = append(r, inst{"privsel", n, 0, b, 2})
			}
			if b == 0 {
				r = append(r, inst{"privsel", n, 2, 0, 2}) // the go statements inside a function literal called on the spot
			}
			for _, p := range [][2]int{{n, n}, {n, 1}, {1, n}} {
				r = append(r, inst{"prodcons", p[0], p[1], b, 2})
			}
		}
		for form := 0; form <= 3; form++ {
			r = append(r, inst{"rebind", n, form, 0, 2})
			if form <= 2 {
				r = append(r, inst{"iface", n, form, 0, 2})
			}
		}
		r = append(r, inst{"counter", n, 1, 0, 2}, inst{"counter", n, 2, 0, 2}, inst{"host", n, 0, 0, 2}, inst{"interps", n, 0, 0, 1})
	}
	r = append(r, inst{"privsel", 1, 0, 0, 2}, inst{"privsel", 1, 1, 0, 2}, inst{"iface", 1, 3, 0, 2})
	return r
}

const (
	trigLiteral     = `function literal called in place by a go statement that executes more than once (counter form 2, rebind form 1, pipeline form 1), n >= 2`
	trigMethodValue = `go statement on a method value inside a loop whose next iteration rebinds the receiver variable (rebind form 3, pipeline form 3), n >= 2`
)

// trigger is the model-level class of an instance, the first half of a finding's signature.
func trigger(in inst) string {
	switch {
	case in.T == "privsel" && in.N >= 2:
		return `template "private channels in the same select statement", n >= 2`
	case in.T == "iface" && in.K == 3:
		return `template iface n=1, the function called as argument returns the received value directly (return <-c)`
	case in.T == "privsel" && in.K == 1:
		return `template privsel n=1, value of the send case computed inside the comm clause (case ch <- expr)`
	case in.T == "counter" && in.K == 2 && in.N >= 2, in.T == "rebind" && in.K == 1 && in.N >= 2, in.T == "pipeline" && in.N == 1 && in.K >= 2:
		return trigLiteral
	case in.T == "rebind" && in.K == 3 && in.N >= 2, in.T == "pipeline" && in.N == 3 && in.K >= 2:
		return trigMethodValue
	}
	return fmt.Sprintf("template %s n=%d k=%d b=%d", in.T, in.N, in.K, in.B)
}

type kase struct {
	M     modelInst `json:"model"`
	Job   job       `json:"job"`
	Race  bool      `json:"race"`
	Src   string    `json:"script"`
	Seen  any       `json:"observed,omitempty"`
	Extra string    `json:"note,omitempty"`
}

func run(c *fw.Ctx) error {
	c.Rule = "one case = (template instance, GOMAXPROCS value, repetition with seeded yield injection, race or plain build); non-trivial when the instance starts at least two goroutines that communicate; distinct by (instance, GOMAXPROCS, build)"
	c.Assumptions = []string{
		"the verif step hook is called before every interpreted operation; it injects runtime.Gosched and short sleeps from per-goroutine generators seeded by VERIF_SEED and takes no lock and no atomic (it must not order the operations for the race detector)",
		"schedules of the real runs are perturbed, not dictated: the model covers all schedules, the runs sample them",
		"the templates are data-race-free and schedule-independent because TLC proved Isolation, DataRaceFree, MutualExclusion and OutputDeterminism on them; a race report with an interpreter frame as the responsible frame is therefore interpreter-induced",
		"instances with n in {4, 8} are beyond the exhaustive bounds: the model's output for them is Expect checked on sampled schedules (simulation)",
		"a hang is decided from goroutine states (all blocked on channels/select/WaitGroup/Mutex for several samples), and is reported only if the native build of the same program terminates",
		"frame identity in binding (T) is an address; the collector is off during a recorded run",
	}
	if c.Replay != "" {
		var k kase
		if err := c.LoadReplay(&k); err != nil {
			return err
		}
		return replay(c, k)
	}
	m := &model{inst: map[string]*modelInst{}}
	var predicted map[string]bool
	var merr, derr error
	var wg sync.WaitGroup
	wg.Add(1)
	go func() { defer wg.Done(); merr = m.exhaustive(c) }()
	predicted, derr = design(c)
	real := realInstances(c)
	// native reference of every instance that will be replayed (validates model + renderer)
	srcs := make([]string, len(real))
	for i, in := range real {
		srcs[i] = in.native()
	}
	nat := c.NativeBatch(srcs, 60*time.Second)
	wg.Wait()
	if merr != nil {
		return merr
	}
	if derr != nil {
		return derr
	}
	var need []inst
	for _, in := range real {
		if m.inst[in.key()] == nil {
			need = append(need, in)
		}
	}
	if err := m.simulate(c, need, c.Pick(4, 40)); err != nil {
		return err
	}
	for _, e := range m.errs {
		c.SpecError("model: %s", e)
	}
	exh := 0
	for _, mi := range m.inst {
		if mi.Exhaustive {
			exh++
		}
	}
	c.Extra["model_instances"] = len(m.inst)
	c.Extra["model_instances_exhaustive"] = exh
	var cases []modelInst
	for i, in := range real {
		mi := m.inst[in.key()]
		if mi == nil {
			return fmt.Errorf("the model produced no terminal state for %s", in.key())
		}
		n := nat[i]
		if !n.BuildOK || n.Timeout || n.Exit != 0 {
			c.SpecError("native build of %s: buildOK=%v timeout=%v exit=%d %s %s", in.key(), n.BuildOK, n.Timeout, n.Exit, n.BuildErr, n.Stderr)
			continue
		}
		if !same(splitLines(n.Stdout), mi.Expect, mi.Multiset) {
			c.SpecError("model says %v for %s, the compiled program prints %q", mi.Expect, in.key(), n.Stdout)
			continue
		}
		c.DisagreeChk++
		cases = append(cases, *mi)
	}
	c.Extra["native_reference_agreed"] = len(cases)
	if len(cases) != len(real) {
		return nil // spec errors are reported by fw
	}

	// ---- (G) plain build
	procs := []int{1, 2, 4, 16}
	reps := c.Pick(20, 40)
	var jobs []job
	for _, mi := range cases {
		jobs = append(jobs, job{I: mi.I, Reps: reps, Procs: procs, Seed: c.Seed*7919 + int64(len(jobs)), Trace: true})
	}
	results := runJobs(c, jobs, false)
	hit := map[string]bool{}
	var trace bytes.Buffer
	nruns := 0
	for i, r := range results {
		if judge(c, cases[i], jobs[i], r, false) {
			hit[trigger(cases[i].I)] = true
		}
		if r != nil {
			for _, e := range r.Events {
				b, _ := json.Marshal(e)
				trace.Write(b)
				trace.WriteByte('\n')
			}
			nruns += len(r.Reps)
			c.Transitions += r.Ops
		}
	}
	// ---- (T) frame isolation
	if err := frameTrace(c, trace.Bytes(), nruns, cases); err != nil {
		return err
	}
	// ---- races
	var rjobs []job
	var rcases []modelInst
	for _, mi := range cases {
		// Excluded_F_C08_4: while that finding is listed as known, the method-value forms stay out
		// of the race pass (the late read of the receiver races with whatever the spawner does
		// next, under ever new signatures); the plain runs keep them, so the finding is printed
		if trigger(mi.I) == trigMethodValue && c.IsKnown(trigMethodValue, "output differs from the model's unique output") {
			continue
		}
		// quick: every instance, fewer repetitions; the select template and the templates
		// with function literals get more
		reps := c.Pick(8, 200)
		if c.Quick() && (mi.I.T == "privsel" || (mi.I.T == "counter" && mi.I.K == 2) || mi.I.T == "host" || mi.I.T == "pool" || mi.I.T == "iface") {
			reps = 20
		}
		rjobs = append(rjobs, job{I: mi.I, Reps: reps, Procs: []int{4, 16, 2, 1}, Seed: c.Seed*104729 + int64(len(rjobs))})
		rcases = append(rcases, mi)
	}
	rres, err := racePass(c, rjobs)
	if err != nil {
		return err
	}
	for i, r := range rres {
		if judge(c, rcases[i], rjobs[i], r, true) {
			hit[trigger(rcases[i].I)] = true
		}
	}
	// every design-level counterexample should show on the real code; if it does not, the
	// code no longer follows the mechanism model (it was repaired): noted, not an alarm
	var drift []string
	for f := range predicted {
		// (once the finding is no longer listed as known, the shared-vector cfg is simply the
		// regression model of the repair and nothing is expected from the real code)
		if f == "F-C08-1" && c.IsKnown(trigger(inst{T: "privsel", N: 2}), "output differs from the model's unique output") && !hit[trigger(inst{T: "privsel", N: 2})] {
			drift = append(drift, "MODEL-DRIFT: Chan.tla with SelMode=\"shared\" predicts "+f+" but the real interpreter did not show it (select builds its case vector per execution?)")
		}
	}
	for _, d := range drift {
		fmt.Println(d)
	}
	c.Extra["model_drift"] = drift
	c.Exhaustive = false
	c.Extra["exhaustive_parts"] = "model: all schedules of every instance with n,k<=3, buffer<=2 (quick: costly families n,k<=2, buffer<=1); real runs sample schedules"
	return nil
}

func runJobs(c *fw.Ctx, jobs []job, race bool) []*jobResult {
	anys := make([]any, len(jobs))
	for i := range jobs {
		anys[i] = jobs[i]
	}
	per := time.Duration(jobs[0].Reps)*2*time.Second + 4*time.Minute
	res := c.RunChildren("c08", anys, 12, per, nil)
	out := make([]*jobResult, len(jobs))
	for i, r := range res {
		if r.Out == nil {
			out[i] = &jobResult{Err: "harness child " + r.Describe()}
			continue
		}
		var jr jobResult
		if err := json.Unmarshal(r.Out, &jr); err != nil {
			jr.Err = "bad child result: " + err.Error()
		}
		out[i] = &jr
	}
	return out
}

// judge compares what the real interpreter did with the model; returns whether a listed
// known finding was hit.
func judge(c *fw.Ctx, mi modelInst, j job, r *jobResult, race bool) (known bool) {
	build := "plain"
	if race {
		build = "race"
	}
	k := kase{M: mi, Job: j, Race: race, Src: mi.I.script()}
	trg := trigger(mi.I)
	fail := func(mode string, seen any) {
		k.Seen = seen
		if c.Fail(trg, mode, k) {
			known = true
		}
	}
	if r.Err != "" {
		// the child died (fatal runtime error such as "all goroutines are asleep", or a crash)
		fail("process crash: "+crashLine(r.Err), r.Err)
	}
	nontrivial := mi.I.N >= 2 || mi.I.K >= 2
	seenProcs := map[int]bool{}
	for _, rp := range r.Reps {
		if !seenProcs[rp.Procs] {
			seenProcs[rp.Procs] = true
		}
		c.Count(fmt.Sprintf("%s/procs=%d/%s", mi.I.key(), rp.Procs, build), nontrivial)
		c.TracesVsImpl++
		switch {
		case rp.Hang:
			fail("hang: every goroutine blocked, the compiled program terminates", rp)
		case rp.Slow:
			fail("no termination within the time limit, goroutines still running", rp)
		case rp.Err != "":
			fail("error instead of the output: "+firstLine(rp.Err), rp)
		case !same(rp.Out, mi.Expect, mi.Multiset):
			fail("output differs from the model's unique output", rp)
		}
	}
	if len(r.Reps) > 0 {
		c.Sample(map[string]any{"instance": mi.I.key(), "build": build, "repetitions": len(r.Reps), "expected": mi.Expect, "multiset": mi.Multiset, "first_observed": r.Reps[0].Out})
	}
	if race && r.Race != "" {
		for _, rr := range parseRaces(r.Race) {
			switch rr.Class {
			case "interp":
				fail("data race with an interpreter frame responsible: "+rr.Sig, rr.Text)
			case "harness":
				c.SpecError("the harness itself races (%s) on %s:\n%s", rr.Sig, mi.I.key(), rr.Text)
			default:
				c.SpecError("race between host packages reached from the interpreter (%s) on %s: the harness must make the shared host object safe\n%s", rr.Sig, mi.I.key(), rr.Text)
			}
		}
	}
	return
}

func frameTrace(c *fw.Ctx, trace []byte, nruns int, cases []modelInst) error {
	nlines := bytes.Count(trace, []byte("\n"))
	if nlines == 0 {
		return nil
	}
	if p := os.Getenv("C08_DEBUG_TRACE"); p != "" {
		os.WriteFile(p, trace, 0o644)
	}
	res, err := c.TLC(fw.TLCOpts{Dir: "spec/conc", Module: "FrameTrace", Cfg: "ft.cfg", Workers: 1,
		Files: map[string][]byte{"trace.ndjson": trace, "ft.cfg": []byte("SPECIFICATION Spec\nINVARIANTS Emit\nCHECK_DEADLOCK FALSE\n")}, Timeout: 10 * time.Minute})
	if err != nil {
		return err
	}
	if len(res.Beh) != 1 {
		return fmt.Errorf("trace not accepted by FrameTrace.tla (ill-formed trace, %d lines)\n%s", nlines, tail(res.Output, 1500))
	}
	var verdict struct {
		Consumed int        `json:"consumed"`
		Bad      [][]string `json:"bad"`
	}
	if err := json.Unmarshal(res.Beh[0], &verdict); err != nil {
		return err
	}
	if verdict.Consumed != nlines {
		return fmt.Errorf("frame trace validation consumed %d of %d lines", verdict.Consumed, nlines)
	}
	c.Extra["frame_trace_events"] = nlines
	c.Extra["frame_trace_runs"] = nruns
	byKey := map[string]modelInst{}
	for _, mi := range cases {
		byKey[mi.I.key()] = mi
	}
	for _, b := range verdict.Bad {
		// run = <instance key>/rep=..../procs=...
		key := b[0]
		if i := strings.Index(key, "/rep="); i >= 0 {
			key = key[:i]
		}
		mi := byKey[key]
		c.Fail(trigger(mi.I), b[1], kase{M: mi, Job: job{I: mi.I, Reps: 40, Procs: []int{1, 2, 4, 16}, Seed: c.Seed, Trace: true}, Src: mi.I.script(), Extra: b[0]})
	}
	return nil
}

func replay(c *fw.Ctx, k kase) error {
	// schedules are perturbed, not dictated: a schedule-dependent failure is re-found by
	// repeating the recorded job (same instance, seed, GOMAXPROCS cycle) often enough
	if k.Job.Reps < 100 {
		k.Job.Reps = 100
	}
	var r *jobResult
	if k.Race {
		rr, err := racePass(c, []job{k.Job})
		if err != nil {
			return err
		}
		r = rr[0]
	} else {
		r = runJobs(c, []job{k.Job}, false)[0]
		var trace bytes.Buffer
		for _, e := range r.Events {
			b, _ := json.Marshal(e)
			trace.Write(b)
			trace.WriteByte('\n')
		}
		if err := frameTrace(c, trace.Bytes(), len(r.Reps), []modelInst{k.M}); err != nil {
			return err
		}
	}
	judge(c, k.M, k.Job, r, k.Race)
	return nil
}

// crashLine extracts the runtime's own message from the stderr tail of a dead child.
func crashLine(s string) string {
	for _, l := range strings.Split(s, "\n") {
		for _, p := range []string{"panic: ", "fatal error: "} {
			if i := strings.Index(l, p); i >= 0 {
				return firstLine(l[i:])
			}
		}
	}
	return firstLine(s)
}

func firstLine(s string) string {
	if i := strings.IndexByte(s, '\n'); i >= 0 {
		s = s[:i]
	}
	if len(s) > 100 {
		s = s[:100]
	}
	return s
}

func tail(s string, n int) string {
	if len(s) > n {
		return s[len(s)-n:]
	}
	return s
}

func sortedKeys(m map[string]bool) []string {
	var r []string
	for k := range m {
		r = append(r, k)
	}
	sort.Strings(r)
	return r
}
