package main

import (
	"fmt"
	"sort"
	"strings"
)

// inst is one template instance: the same record spec/conc/Templates.tla calls Mk(f, n, k, b, m).
type inst struct {
	T string `json:"t"`
	N int    `json:"n"`
	K int    `json:"k"`
	B int    `json:"b"`
	M int    `json:"m"`
}

func (i inst) key() string { return fmt.Sprintf("%s/n=%d/k=%d/b=%d/m=%d", i.T, i.N, i.K, i.B, i.M) }

// kind says how the instance is bound to the interpreter:
// "prog" a whole program run by Eval; "host" N host goroutines calling the script function F;
// "interps" N interpreters, each evaluating the script and calling Run.
func (i inst) kind() string {
	switch i.T {
	case "host":
		return "host"
	case "interps":
		return "interps"
	}
	return "prog"
}

func (i inst) consts() string {
	return fmt.Sprintf("const (\n\tN = %d\n\tK = %d\n\tB = %d\n\tM = %d\n)\n", i.N, i.K, i.B, i.M)
}

// The Go text of the families. Each is the program of Templates.tla written in Go, with the
// instance parameters as constants. The native build of every instance must print the
// model's Expect (checked in every tier): that validates the model and this renderer.
var sources = map[string]string{
	"pipeline": `
func stage(in, out chan int, id int) {
	for v := range in {
		out <- v*2 + id
	}
	close(out)
}

func gen(out chan int, m int) {
	for j := 1; j <= m; j++ {
		out <- j
	}
	close(out)
}

func main() {
	first := make(chan int, B)
	prev := first
	for i := 1; i <= K; i++ {
		next := make(chan int, B)
		go stage(prev, next, i)
		prev = next
	}
	go gen(first, M)
	for v := range prev {
		fmt.Println(v)
	}
}
`,
	"pool": `
var wg sync.WaitGroup

func worker(id int, jobs, res chan int) {
	for j := range jobs {
		res <- j*j + 1
	}
	wg.Done()
}

func gen(out chan int, m int) {
	for j := 1; j <= m; j++ {
		out <- j
	}
	close(out)
}

func main() {
	jobs := make(chan int, B)
	res := make(chan int, B)
	wg.Add(N)
	for i := 1; i <= N; i++ {
		go worker(i, jobs, res)
	}
	go gen(jobs, M)
	go func() {
		wg.Wait()
		close(res)
	}()
	sum := 0
	for r := range res {
		fmt.Println(1, r)
		sum = sum + r
	}
	fmt.Println(2, sum)
}
`,
	"drain": `
var wg sync.WaitGroup

func worker(id int, jobs, res chan int) {
	for j := range jobs {
		res <- j*j + 1
	}
	wg.Done()
}

func gen(out chan int, m int) {
	for j := 1; j <= m; j++ {
		out <- j
	}
	close(out)
}

func main() {
	jobs := make(chan int, B)
	res := make(chan int, M)
	wg.Add(N)
	for i := 1; i <= N; i++ {
		go worker(i, jobs, res)
	}
	go gen(jobs, M)
	wg.Wait()
	sum := 0
	for more := true; more; {
		select {
		case r := <-res:
			fmt.Println(1, r)
			sum = sum + r
		default:
			more = false
		}
	}
	fmt.Println(2, sum)
}
`,
	// form K = 0: the value sent by the select is computed before the statement
	"privsel0": `
var wg sync.WaitGroup

func sworker(id int, in chan int, quit chan int) {
	acc := 0
	for {
		select {
		case v := <-in:
			acc = acc + v
		case <-quit:
			fmt.Println(id, acc)
			wg.Done()
			return
		}
	}
}

func feeder(id int, in chan int, quit chan int, stop chan int, m int) {
	for j := 1; j <= m; j++ {
		x := id*10 + j
		select {
		case in <- x:
		case <-stop:
		}
	}
	quit <- 1
}

func main() {
	wg.Add(N)
	for i := 1; i <= N; i++ {
		in := make(chan int)
		quit := make(chan int, B)
		stop := make(chan int)
		go sworker(i, in, quit)
		go feeder(i, in, quit, stop, M)
	}
	wg.Wait()
}
`,
	// form K = 1: the value is an expression inside the comm clause
	"privsel1": `
var wg sync.WaitGroup

func sworker(id int, in chan int, quit chan int) {
	acc := 0
	for {
		select {
		case v := <-in:
			acc = acc + v
		case <-quit:
			fmt.Println(id, acc)
			wg.Done()
			return
		}
	}
}

func feeder(id int, in chan int, quit chan int, stop chan int, m int) {
	for j := 1; j <= m; j++ {
		select {
		case in <- id*10 + j:
		case <-stop:
		}
	}
	quit <- 1
}

func main() {
	wg.Add(N)
	for i := 1; i <= N; i++ {
		in := make(chan int)
		quit := make(chan int, B)
		stop := make(chan int)
		go sworker(i, in, quit)
		go feeder(i, in, quit, stop, M)
	}
	wg.Wait()
}
`,
	// form K = 1: package-level state and named functions
	"counter1": `
var wg sync.WaitGroup
var mu sync.Mutex
var cnt int

func cworker(id int, m int) {
	for j := 1; j <= m; j++ {
		mu.Lock()
		t := cnt
		cnt = t + 1
		mu.Unlock()
	}
	wg.Done()
}

func main() {
	wg.Add(N)
	for i := 1; i <= N; i++ {
		r := M
		go cworker(i, r)
		r = 0
	}
	wg.Wait()
	t := cnt
	fmt.Println(t)
}
`,
	// form K = 2: state local to main, captured by function literals
	"counter2": `
func main() {
	var wg sync.WaitGroup
	var mu sync.Mutex
	cnt := 0
	wg.Add(N)
	for i := 1; i <= N; i++ {
		r := M
		go func(id int, m int) {
			for j := 1; j <= m; j++ {
				mu.Lock()
				t := cnt
				cnt = t + 1
				mu.Unlock()
			}
			wg.Done()
		}(i, r)
		r = 0
	}
	wg.Wait()
	t := cnt
	fmt.Println(t)
}
`,
	"prodcons": `
var wgp sync.WaitGroup

func producer(id int, ch chan int, m int) {
	for j := 1; j <= m; j++ {
		ch <- id*10 + j
	}
	wgp.Done()
}

func consumer(id int, ch chan int, res chan int) {
	s := 0
	if id == 1 {
		for {
			v, ok := <-ch
			if !ok {
				break
			}
			s = s + v
		}
	} else {
		for v := range ch {
			s = s + v
		}
	}
	res <- s
}

func main() {
	ch := make(chan int, B)
	res := make(chan int)
	wgp.Add(N)
	for i := 1; i <= N; i++ {
		go producer(i, ch, M)
	}
	go func() {
		wgp.Wait()
		close(ch)
	}()
	for i := 1; i <= K; i++ {
		go consumer(i, ch, res)
	}
	tot := 0
	for i := 1; i <= K; i++ {
		s := <-res
		tot = tot + s
	}
	fmt.Println(tot)
}
`,
	// the script of "n host goroutines call the same exported function"
	"host": `
var mu sync.Mutex
var total int

func F(id int, m int) int {
	c := make(chan int)
	go func() {
		for j := 1; j <= m; j++ {
			c <- id*10 + j
		}
		close(c)
	}()
	s := 0
	for v := range c {
		s = s + v
	}
	mu.Lock()
	t := total
	total = t + s
	mu.Unlock()
	return s
}

func Total() int { return total }
`,
	// the script every one of the n interpreters evaluates
	"interps": `
var wg sync.WaitGroup
var mu sync.Mutex
var cnt int

func iworker(id int, m int) {
	for j := 1; j <= m; j++ {
		mu.Lock()
		t := cnt
		cnt = t + id
		mu.Unlock()
	}
	wg.Done()
}

func Run(id int, m int) int {
	wg.Add(1)
	go iworker(id, m)
	mu.Lock()
	t := cnt
	cnt = t + id
	mu.Unlock()
	wg.Wait()
	return cnt
}
`,
}

// the host side of "host" and "interps", as a native main (reference only; under yaegi the
// harness child plays this part, see runHost / runInterps)
const hostMain = `
func main() {
	var h sync.WaitGroup
	res := make([]int, N+1)
	h.Add(N)
	for i := 1; i <= N; i++ {
		go func(i int) {
			res[i] = F(i, M)
			h.Done()
		}(i)
	}
	h.Wait()
	for i := 1; i <= N; i++ {
		fmt.Println(i, res[i])
	}
	fmt.Println(0, Total())
}
`

func (i inst) body() string {
	switch i.T {
	case "counter", "privsel":
		return sources[fmt.Sprintf("%s%d", i.T, i.K)]
	}
	return sources[i.T]
}

func imports(body string) string {
	var im []string
	if strings.Contains(body, "fmt.") {
		im = append(im, `"fmt"`)
	}
	if strings.Contains(body, "sync.") {
		im = append(im, `"sync"`)
	}
	if len(im) == 0 {
		return ""
	}
	return "import (\n\t" + strings.Join(im, "\n\t") + "\n)\n\n"
}

// script is what the interpreter evaluates.
func (i inst) script() string {
	b := i.body()
	return "package main\n\n" + imports(b) + i.consts() + b
}

// native is the compiled reference program of the instance.
func (i inst) native() string {
	switch i.kind() {
	case "host":
		b := i.body() + hostMain
		return "package main\n\n" + imports(b) + i.consts() + b
	case "interps":
		// n independent copies of the script's state: one struct per "interpreter"
		return fmt.Sprintf(`package main

import (
	"fmt"
	"sync"
)

const (
	N = %d
	M = %d
)

type world struct {
	wg  sync.WaitGroup
	mu  sync.Mutex
	cnt int
}

func (w *world) iworker(id int, m int) {
	for j := 1; j <= m; j++ {
		w.mu.Lock()
		t := w.cnt
		w.cnt = t + id
		w.mu.Unlock()
	}
	w.wg.Done()
}

func (w *world) Run(id int, m int) int {
	w.wg.Add(1)
	go w.iworker(id, m)
	w.mu.Lock()
	t := w.cnt
	w.cnt = t + id
	w.mu.Unlock()
	w.wg.Wait()
	return w.cnt
}

func main() {
	var h sync.WaitGroup
	res := make([]int, N+1)
	h.Add(N)
	for i := 1; i <= N; i++ {
		go func(i int) {
			w := &world{}
			res[i] = w.Run(i, M)
			h.Done()
		}(i)
	}
	h.Wait()
	for i := 1; i <= N; i++ {
		fmt.Println(i, res[i])
	}
}
`, i.N, i.M)
	}
	return i.script()
}

// lines renders the model's `out` (a sequence of integer tuples) as the program prints it.
func lines(out [][]int) []string {
	r := make([]string, len(out))
	for i, l := range out {
		s := make([]string, len(l))
		for j, v := range l {
			s[j] = fmt.Sprint(v)
		}
		r[i] = strings.Join(s, " ")
	}
	return r
}

func splitLines(s string) []string {
	s = strings.TrimRight(s, "\n")
	if s == "" {
		return nil
	}
	return strings.Split(s, "\n")
}

// same compares observed lines with expected ones, as a sequence or as a multiset.
func same(got, want []string, multiset bool) bool {
	if len(got) != len(want) {
		return false
	}
	if multiset {
		got = append([]string(nil), got...)
		want = append([]string(nil), want...)
		sort.Strings(got)
		sort.Strings(want)
	}
	for i := range got {
		if got[i] != want[i] {
			return false
		}
	}
	return true
}
