package main

import (
	"fmt"
	"sort"
	"strings"
)

// inst is one template instance: the same record spec/conc/Templates.tla calls Mk(f, n, k, b, m).
type inst struct {
	T string `json:"t"`
	N int    `json:"n"`
	K int    `json:"k"`
	B int    `json:"b"`
	M int    `json:"m"`
}

func (i inst) key() string { return fmt.Sprintf("%s/n=%d/k=%d/b=%d/m=%d", i.T, i.N, i.K, i.B, i.M) }

// kind says how the instance is bound to the interpreter:
// "prog" a whole program run by Eval; "host" N host goroutines calling the script function F;
// "interps" N interpreters, each evaluating the script and calling Run.
func (i inst) kind() string {
	switch i.T {
	case "host":
		return "host"
	case "interps":
		return "interps"
	case "iface":
		if i.K == 2 {
			return "hostiface"
		}
	}
	return "prog"
}

func (i inst) consts() string {
	return fmt.Sprintf("const (\n\tN = %d\n\tK = %d\n\tB = %d\n\tM = %d\n)\n", i.N, i.K, i.B, i.M)
}

// The Go text of the families. Each is the program of Templates.tla written in Go, with the
// instance parameters as constants. The native build of every instance must print the
// model's Expect (checked in every tier): that validates the model and this renderer.
var sources = map[string]string{
	// form N = 0: the stages are calls of a declared function
	"pipeline0": `
func stage(in, out chan int, id int) {
	for v := range in {
		out <- v*2 + id
	}
	close(out)
}

func gen(out chan int, m int) {
	for j := 1; j <= m; j++ {
		out <- j
	}
	close(out)
}

func main() {
	first := make(chan int, B)
	prev := first
	for i := 1; i <= K; i++ {
		next := make(chan int, B)
		go stage(prev, next, i)
		prev = next
	}
	go gen(first, M)
	for v := range prev {
		fmt.Println(v)
	}
}
`,
	// form N = 1: the stage is a function literal called in place by the go statement; the spawner reassigns the argument variables (`in = out`)
	"pipeline1": `
func gen(out chan int, m int) {
	for j := 1; j <= m; j++ {
		out <- j
	}
	close(out)
}

func main() {
	first := make(chan int, B)
	in := first
	var out chan int
	for s := 1; s <= K; s++ {
		out = make(chan int, B)
		go func(cin, cout chan int, id int) {
			for v := range cin {
				cout <- v*2 + id
			}
			close(cout)
		}(in, out, s)
		in = out
	}
	go gen(first, M)
	for v := range in {
		fmt.Println(v)
	}
}
`,
	// form N = 2: the stage is a closure held in a variable; the spawner reassigns the argument variables (`in = out`)
	"pipeline2": `
func gen(out chan int, m int) {
	for j := 1; j <= m; j++ {
		out <- j
	}
	close(out)
}

func main() {
	first := make(chan int, B)
	in := first
	var out chan int
	stage := func(cin, cout chan int, id int) {
		for v := range cin {
			cout <- v*2 + id
	}
		close(cout)
	}
	for s := 1; s <= K; s++ {
		out = make(chan int, B)
		go stage(in, out, s)
		in = out
	}
	go gen(first, M)
	for v := range in {
		fmt.Println(v)
	}
}
`,
	// form N = 3: the stage is a method value; the spawner reassigns the argument variables (`in = out`)
	"pipeline3": `
type st struct {
	id int
}

func (t *st) run(cin, cout chan int) {
	for v := range cin {
		cout <- v*2 + t.id
	}
	close(cout)
}

func gen(out chan int, m int) {
	for j := 1; j <= m; j++ {
		out <- j
	}
	close(out)
}

func main() {
	first := make(chan int, B)
	in := first
	var out chan int
	for s := 1; s <= K; s++ {
		out = make(chan int, B)
		t := &st{id: s}
		run := t.run
		go run(in, out)
		in = out
	}
	go gen(first, M)
	for v := range in {
		fmt.Println(v)
	}
}
`,
	// rebind, form K = 0: go on a declared function
	"rebind0": `
var wg sync.WaitGroup

func f1(x int) int { return x*2 + 1 }

func f2(x int) int { return x + 50 }

func rworker(id int, p *int, mp map[int]int, sl []int, fn func(int) int, x int) {
	a := *p
	*p = a + id
	a = *p
	bb := mp[0]
	cc := sl[0]
	fmt.Println(id, a, bb, cc, fn(x))
	wg.Done()
}

func main() {
	var p *int
	var mp map[int]int
	var sl []int
	var fn func(int) int
	var x int
	wg.Add(N)
	for i := 1; i <= N; i++ {
		p = new(int)
		*p = i * 100
		mp = map[int]int{0: i*100 + 1}
		sl = []int{i*100 + 2}
		fn = f1
		x = i*10 + M
		go rworker(i, p, mp, sl, fn, x)
		// the spawner moves on: every argument variable now denotes something else
		p = new(int)
		*p = 7
		mp = map[int]int{0: 7}
		sl = []int{7}
		fn = f2
		x = 0
	}
	wg.Wait()
}
`,
	// rebind, form K = 1: go on a function literal called in place
	"rebind1": `
var wg sync.WaitGroup

func f1(x int) int { return x*2 + 1 }

func f2(x int) int { return x + 50 }

func main() {
	var p *int
	var mp map[int]int
	var sl []int
	var fn func(int) int
	var x int
	wg.Add(N)
	for i := 1; i <= N; i++ {
		p = new(int)
		*p = i * 100
		mp = map[int]int{0: i*100 + 1}
		sl = []int{i*100 + 2}
		fn = f1
		x = i*10 + M
		go func(id int, p *int, mp map[int]int, sl []int, fn func(int) int, x int) {
			a := *p
			*p = a + id
			a = *p
			bb := mp[0]
			cc := sl[0]
			fmt.Println(id, a, bb, cc, fn(x))
			wg.Done()
		}(i, p, mp, sl, fn, x)
		// the spawner moves on: every argument variable now denotes something else
		p = new(int)
		*p = 7
		mp = map[int]int{0: 7}
		sl = []int{7}
		fn = f2
		x = 0
	}
	wg.Wait()
}
`,
	// rebind, form K = 2: go on a closure held in a variable
	"rebind2": `
var wg sync.WaitGroup

func f1(x int) int { return x*2 + 1 }

func f2(x int) int { return x + 50 }

func main() {
	var p *int
	var mp map[int]int
	var sl []int
	var fn func(int) int
	var x int
	rworker := func(id int, p *int, mp map[int]int, sl []int, fn func(int) int, x int) {
		a := *p
		*p = a + id
		a = *p
		bb := mp[0]
		cc := sl[0]
		fmt.Println(id, a, bb, cc, fn(x))
		wg.Done()
	}
	wg.Add(N)
	for i := 1; i <= N; i++ {
		p = new(int)
		*p = i * 100
		mp = map[int]int{0: i*100 + 1}
		sl = []int{i*100 + 2}
		fn = f1
		x = i*10 + M
		go rworker(i, p, mp, sl, fn, x)
		// the spawner moves on: every argument variable now denotes something else
		p = new(int)
		*p = 7
		mp = map[int]int{0: 7}
		sl = []int{7}
		fn = f2
		x = 0
	}
	wg.Wait()
}
`,
	// rebind, form K = 3: go on a method value
	"rebind3": `
var wg sync.WaitGroup

func f1(x int) int { return x*2 + 1 }

func f2(x int) int { return x + 50 }

type rw struct {
	id int
}

func (t *rw) run(p *int, mp map[int]int, sl []int, fn func(int) int, x int) {
	id := t.id
	a := *p
	*p = a + id
	a = *p
	bb := mp[0]
	cc := sl[0]
	fmt.Println(id, a, bb, cc, fn(x))
	wg.Done()
}

func main() {
	var p *int
	var mp map[int]int
	var sl []int
	var fn func(int) int
	var x int
	wg.Add(N)
	for i := 1; i <= N; i++ {
		p = new(int)
		*p = i * 100
		mp = map[int]int{0: i*100 + 1}
		sl = []int{i*100 + 2}
		fn = f1
		x = i*10 + M
		t := &rw{id: i}
		run := t.run
		go run(p, mp, sl, fn, x)
		// the spawner moves on: every argument variable now denotes something else
		p = new(int)
		*p = 7
		mp = map[int]int{0: 7}
		sl = []int{7}
		fn = f2
		x = 0
	}
	wg.Wait()
}
`,
	// iface, form K = 0: the argument of the interface method call blocks on the private channel
	"iface0": `
type adder interface {
	Add(v int)
	Get() int
}

type ca struct {
	cnt int
}

func (c *ca) Add(v int) { c.cnt = c.cnt + v }

func (c *ca) Get() int { return c.cnt }

type cb struct {
	cnt int
}

func (c *cb) Add(v int) { c.cnt = c.cnt + 2*v }

func (c *cb) Get() int { return c.cnt }

func object(id int) adder {
	if id%2 == 1 {
		return &ca{cnt: id * 100}
	}
	return &cb{cnt: id * 100}
}

var wg sync.WaitGroup

// the ONE interface method call site every worker goes through
func apply(x adder, c chan int) {
	x.Add(<-c)
}

func oworker(id int, x adder, c chan int) {
	apply(x, c)
	fmt.Println(id, x.Get())
	wg.Done()
}

func ofeeder(id int, c chan int, wait chan int, sig chan int, m int) {
	<-wait
	c <- id*10 + m
	sig <- 1
}

func main() {
	wg.Add(N)
	first := make(chan int)
	tprev := first
	for i := 1; i <= N; i++ {
		obj := object(i)
		c := make(chan int)
		tnext := make(chan int)
		go oworker(i, obj, c)
		go ofeeder(i, c, tnext, tprev, M)
		tprev = tnext
	}
	tprev <- 1
	<-first
	wg.Wait()
}
`,
	// iface, form K = 1: the argument is a call that yields, then receives
	"iface1": `
type adder interface {
	Add(v int)
	Get() int
}

type ca struct {
	cnt int
}

func (c *ca) Add(v int) { c.cnt = c.cnt + v }

func (c *ca) Get() int { return c.cnt }

type cb struct {
	cnt int
}

func (c *cb) Add(v int) { c.cnt = c.cnt + 2*v }

func (c *cb) Get() int { return c.cnt }

func object(id int) adder {
	if id%2 == 1 {
		return &ca{cnt: id * 100}
	}
	return &cb{cnt: id * 100}
}

var wg sync.WaitGroup

func pull(c chan int) int {
	runtime.Gosched()
	v := <-c
	return v
}

// the ONE interface method call site every worker goes through
func apply(x adder, c chan int) {
	x.Add(pull(c))
}

func oworker(id int, x adder, c chan int) {
	apply(x, c)
	fmt.Println(id, x.Get())
	wg.Done()
}

func ofeeder(id int, c chan int, wait chan int, sig chan int, m int) {
	<-wait
	c <- id*10 + m
	sig <- 1
}

func main() {
	wg.Add(N)
	first := make(chan int)
	tprev := first
	for i := 1; i <= N; i++ {
		obj := object(i)
		c := make(chan int)
		tnext := make(chan int)
		go oworker(i, obj, c)
		go ofeeder(i, c, tnext, tprev, M)
		tprev = tnext
	}
	tprev <- 1
	<-first
	wg.Wait()
}
`,
	// iface, form K = 3: form 1 with the receive written in the return statement (pinned, n = 1)
	"iface3": `
type adder interface {
	Add(v int)
	Get() int
}

type ca struct {
	cnt int
}

func (c *ca) Add(v int) { c.cnt = c.cnt + v }

func (c *ca) Get() int { return c.cnt }

type cb struct {
	cnt int
}

func (c *cb) Add(v int) { c.cnt = c.cnt + 2*v }

func (c *cb) Get() int { return c.cnt }

func object(id int) adder {
	if id%2 == 1 {
		return &ca{cnt: id * 100}
	}
	return &cb{cnt: id * 100}
}

var wg sync.WaitGroup

func pull(c chan int) int {
	runtime.Gosched()
	return <-c
}

// the ONE interface method call site every worker goes through
func apply(x adder, c chan int) {
	x.Add(pull(c))
}

func oworker(id int, x adder, c chan int) {
	apply(x, c)
	fmt.Println(id, x.Get())
	wg.Done()
}

func ofeeder(id int, c chan int, wait chan int, sig chan int, m int) {
	<-wait
	c <- id*10 + m
	sig <- 1
}

func main() {
	wg.Add(N)
	first := make(chan int)
	tprev := first
	for i := 1; i <= N; i++ {
		obj := object(i)
		c := make(chan int)
		tnext := make(chan int)
		go oworker(i, obj, c)
		go ofeeder(i, c, tnext, tprev, M)
		tprev = tnext
	}
	tprev <- 1
	<-first
	wg.Wait()
}
`,
	// iface, form K = 2: the script of "n HOST goroutines call the same exported function"
	"iface2": `
type adder interface {
	Add(v int)
	Get() int
}

type ca struct {
	cnt int
}

func (c *ca) Add(v int) { c.cnt = c.cnt + v }

func (c *ca) Get() int { return c.cnt }

type cb struct {
	cnt int
}

func (c *cb) Add(v int) { c.cnt = c.cnt + 2*v }

func (c *cb) Get() int { return c.cnt }

func object(id int) adder {
	if id%2 == 1 {
		return &ca{cnt: id * 100}
	}
	return &cb{cnt: id * 100}
}

// the exported function the host goroutines call; ONE interface method call site
func Apply(id int, c chan int) int {
	x := object(id)
	x.Add(<-c)
	return x.Get()
}
`,
	"pool": `
var wg sync.WaitGroup

func worker(id int, jobs, res chan int) {
	for j := range jobs {
		res <- j*j + 1
	}
	wg.Done()
}

func gen(out chan int, m int) {
	for j := 1; j <= m; j++ {
		out <- j
	}
	close(out)
}

func main() {
	jobs := make(chan int, B)
	res := make(chan int, B)
	wg.Add(N)
	for i := 1; i <= N; i++ {
		go worker(i, jobs, res)
	}
	go gen(jobs, M)
	go func() {
		wg.Wait()
		close(res)
	}()
	sum := 0
	for r := range res {
		fmt.Println(1, r)
		sum = sum + r
	}
	fmt.Println(2, sum)
}
`,
	"drain": `
var wg sync.WaitGroup

func worker(id int, jobs, res chan int) {
	for j := range jobs {
		res <- j*j + 1
	}
	wg.Done()
}

func gen(out chan int, m int) {
	for j := 1; j <= m; j++ {
		out <- j
	}
	close(out)
}

func main() {
	jobs := make(chan int, B)
	res := make(chan int, M)
	wg.Add(N)
	for i := 1; i <= N; i++ {
		go worker(i, jobs, res)
	}
	go gen(jobs, M)
	wg.Wait()
	sum := 0
	for more := true; more; {
		select {
		case r := <-res:
			fmt.Println(1, r)
			sum = sum + r
		default:
			more = false
		}
	}
	fmt.Println(2, sum)
}
`,
	// form K = 0: the value sent by the select is computed before the statement
	"privsel0": `
var wg sync.WaitGroup

func sworker(id int, in chan int, quit chan int) {
	acc := 0
	for {
		select {
		case v := <-in:
			acc = acc + v
		case <-quit:
			fmt.Println(id, acc)
			wg.Done()
			return
		}
	}
}

func feeder(id int, in chan int, quit chan int, stop chan int, m int) {
	for j := 1; j <= m; j++ {
		x := id*10 + j
		select {
		case in <- x:
		case <-stop:
		}
	}
	quit <- 1
}

func main() {
	wg.Add(N)
	for i := 1; i <= N; i++ {
		in := make(chan int)
		quit := make(chan int, B)
		stop := make(chan int)
		go sworker(i, in, quit)
		go feeder(i, in, quit, stop, M)
	}
	wg.Wait()
}
`,
	// form K = 1: the value is an expression inside the comm clause
	"privsel1": `
var wg sync.WaitGroup

func sworker(id int, in chan int, quit chan int) {
	acc := 0
	for {
		select {
		case v := <-in:
			acc = acc + v
		case <-quit:
			fmt.Println(id, acc)
			wg.Done()
			return
		}
	}
}

func feeder(id int, in chan int, quit chan int, stop chan int, m int) {
	for j := 1; j <= m; j++ {
		select {
		case in <- id*10 + j:
		case <-stop:
		}
	}
	quit <- 1
}

func main() {
	wg.Add(N)
	for i := 1; i <= N; i++ {
		in := make(chan int)
		quit := make(chan int, B)
		stop := make(chan int)
		go sworker(i, in, quit)
		go feeder(i, in, quit, stop, M)
	}
	wg.Wait()
}
`,
	// form K = 1: package-level state and named functions
	"counter1": `
var wg sync.WaitGroup
var mu sync.Mutex
var cnt int

func cworker(id int, m int) {
	for j := 1; j <= m; j++ {
		mu.Lock()
		t := cnt
		cnt = t + 1
		mu.Unlock()
	}
	wg.Done()
}

func main() {
	wg.Add(N)
	for i := 1; i <= N; i++ {
		r := M
		go cworker(i, r)
		r = 0
	}
	wg.Wait()
	t := cnt
	fmt.Println(t)
}
`,
	// form K = 2: state local to main, captured by function literals
	"counter2": `
func main() {
	var wg sync.WaitGroup
	var mu sync.Mutex
	cnt := 0
	wg.Add(N)
	for i := 1; i <= N; i++ {
		r := M
		go func(id int, m int) {
			for j := 1; j <= m; j++ {
				mu.Lock()
				t := cnt
				cnt = t + 1
				mu.Unlock()
			}
			wg.Done()
		}(i, r)
		r = 0
	}
	wg.Wait()
	t := cnt
	fmt.Println(t)
}
`,
	"prodcons": `
var wgp sync.WaitGroup

func producer(id int, ch chan int, m int) {
	for j := 1; j <= m; j++ {
		ch <- id*10 + j
	}
	wgp.Done()
}

func consumer(id int, ch chan int, res chan int) {
	s := 0
	if id == 1 {
		for {
			v, ok := <-ch
			if !ok {
				break
			}
			s = s + v
		}
	} else {
		for v := range ch {
			s = s + v
		}
	}
	res <- s
}

func main() {
	ch := make(chan int, B)
	res := make(chan int)
	wgp.Add(N)
	for i := 1; i <= N; i++ {
		go producer(i, ch, M)
	}
	go func() {
		wgp.Wait()
		close(ch)
	}()
	for i := 1; i <= K; i++ {
		go consumer(i, ch, res)
	}
	tot := 0
	for i := 1; i <= K; i++ {
		s := <-res
		tot = tot + s
	}
	fmt.Println(tot)
}
`,
	// the script of "n host goroutines call the same exported function"
	"host": `
var mu sync.Mutex
var total int

func F(id int, m int) int {
	c := make(chan int)
	go func() {
		for j := 1; j <= m; j++ {
			c <- id*10 + j
		}
		close(c)
	}()
	s := 0
	for v := range c {
		s = s + v
	}
	mu.Lock()
	t := total
	total = t + s
	mu.Unlock()
	return s
}

func Total() int { return total }
`,
	// the script every one of the n interpreters evaluates
	"interps": `
var wg sync.WaitGroup
var mu sync.Mutex
var cnt int

func iworker(id int, m int) {
	for j := 1; j <= m; j++ {
		mu.Lock()
		t := cnt
		cnt = t + id
		mu.Unlock()
	}
	wg.Done()
}

func Run(id int, m int) int {
	wg.Add(1)
	go iworker(id, m)
	mu.Lock()
	t := cnt
	cnt = t + id
	mu.Unlock()
	wg.Wait()
	return cnt
}
`,
}

// the host side of "host" and "interps", as a native main (reference only; under yaegi the
// harness child plays this part, see runHost / runInterps)
// host side of iface form 2 (reference only; under yaegi see runHostIface): n callers, then a
// releaser that feeds the private channels in the reverse order
const hostIfaceMain = `
func main() {
	var h sync.WaitGroup
	res := make([]int, N+1)
	cs := make([]chan int, N+1)
	h.Add(N)
	for i := 1; i <= N; i++ {
		cs[i] = make(chan int)
		go func(i int) {
			res[i] = Apply(i, cs[i])
			h.Done()
		}(i)
	}
	for i := N; i >= 1; i-- {
		cs[i] <- i*10 + M
	}
	h.Wait()
	for i := 1; i <= N; i++ {
		fmt.Println(i, res[i])
	}
}
`

const hostMain = `
func main() {
	var h sync.WaitGroup
	res := make([]int, N+1)
	h.Add(N)
	for i := 1; i <= N; i++ {
		go func(i int) {
			res[i] = F(i, M)
			h.Done()
		}(i)
	}
	h.Wait()
	for i := 1; i <= N; i++ {
		fmt.Println(i, res[i])
	}
	fmt.Println(0, Total())
}
`

func (i inst) body() string {
	switch {
	case i.T == "pool" && i.K == 1:
		// the go statement stands in a function literal called on the spot
		return strings.Replace(sources["pool"], "\t\tgo worker(i, jobs, res)\n",
			"\t\tfunc() {\n\t\t\tgo func() {\n\t\t\t\tworker(i, jobs, res)\n\t\t\t}()\n\t\t}()\n", 1)
	case i.T == "privsel" && i.K == 2:
		return strings.Replace(sources["privsel0"], "\t\tgo sworker(i, in, quit)\n\t\tgo feeder(i, in, quit, stop, M)\n",
			"\t\tfunc() {\n\t\t\tgo func() { sworker(i, in, quit) }()\n\t\t\tgo func() { feeder(i, in, quit, stop, M) }()\n\t\t}()\n", 1)
	}
	switch i.T {
	case "counter", "privsel", "rebind", "iface":
		return sources[fmt.Sprintf("%s%d", i.T, i.K)]
	case "pipeline":
		return sources[fmt.Sprintf("pipeline%d", i.N)]
	}
	return sources[i.T]
}

func imports(body string) string {
	var im []string
	if strings.Contains(body, "fmt.") {
		im = append(im, `"fmt"`)
	}
	if strings.Contains(body, "runtime.") {
		im = append(im, `"runtime"`)
	}
	if strings.Contains(body, "sync.") {
		im = append(im, `"sync"`)
	}
	if len(im) == 0 {
		return ""
	}
	return "import (\n\t" + strings.Join(im, "\n\t") + "\n)\n\n"
}

// script is what the interpreter evaluates.
func (i inst) script() string {
	b := i.body()
	return "package main\n\n" + imports(b) + i.consts() + b
}

// native is the compiled reference program of the instance.
func (i inst) native() string {
	switch i.kind() {
	case "hostiface":
		b := i.body() + hostIfaceMain
		return "package main\n\n" + imports(b) + i.consts() + b
	case "host":
		b := i.body() + hostMain
		return "package main\n\n" + imports(b) + i.consts() + b
	case "interps":
		// n independent copies of the script's state: one struct per "interpreter"
		return fmt.Sprintf(`package main

import (
	"fmt"
	"sync"
)

const (
	N = %d
	M = %d
)

type world struct {
	wg  sync.WaitGroup
	mu  sync.Mutex
	cnt int
}

func (w *world) iworker(id int, m int) {
	for j := 1; j <= m; j++ {
		w.mu.Lock()
		t := w.cnt
		w.cnt = t + id
		w.mu.Unlock()
	}
	w.wg.Done()
}

func (w *world) Run(id int, m int) int {
	w.wg.Add(1)
	go w.iworker(id, m)
	w.mu.Lock()
	t := w.cnt
	w.cnt = t + id
	w.mu.Unlock()
	w.wg.Wait()
	return w.cnt
}

func main() {
	var h sync.WaitGroup
	res := make([]int, N+1)
	h.Add(N)
	for i := 1; i <= N; i++ {
		go func(i int) {
			w := &world{}
			res[i] = w.Run(i, M)
			h.Done()
		}(i)
	}
	h.Wait()
	for i := 1; i <= N; i++ {
		fmt.Println(i, res[i])
	}
}
`, i.N, i.M)
	}
	return i.script()
}

// lines renders the model's `out` (a sequence of integer tuples) as the program prints it.
func lines(out [][]int) []string {
	r := make([]string, len(out))
	for i, l := range out {
		s := make([]string, len(l))
		for j, v := range l {
			s[j] = fmt.Sprint(v)
		}
		r[i] = strings.Join(s, " ")
	}
	return r
}

func splitLines(s string) []string {
	s = strings.TrimRight(s, "\n")
	if s == "" {
		return nil
	}
	return strings.Split(s, "\n")
}

// same compares observed lines with expected ones, as a sequence or as a multiset.
func same(got, want []string, multiset bool) bool {
	if len(got) != len(want) {
		return false
	}
	if multiset {
		got = append([]string(nil), got...)
		want = append([]string(nil), want...)
		sort.Strings(got)
		sort.Strings(want)
	}
	for i := range got {
		if got[i] != want[i] {
			return false
		}
	}
	return true
}
