package main

import (
	"encoding/json"
	"fmt"
	"os"
	"os/exec"
	"path/filepath"
	"regexp"
	"sort"
	"strings"
	"time"

	"verif/fw"
)

// The race pass: the same jobs are executed by a copy of this harness built with
// `go build -race -tags verif` (cached by the go build cache; only yaegi/interp and this
// package recompile after an edit of /repo). The copy is started as
// `.build/c08race --racepass jobs.json results.json`; it distributes the jobs over its own
// child processes (which are race builds too), one job per process, and every child returns
// what the race detector wrote (GORACE=log_path) while its job ran.

func racePass(c *fw.Ctx, jobs []job) ([]*jobResult, error) {
	if len(jobs) == 0 {
		return nil, nil
	}
	bin := filepath.Join(c.Root, ".build", "c08race")
	t0 := time.Now()
	cmd := exec.Command("go", "build", "-race", "-tags", "verif", "-o", bin, "./cmd/c08")
	cmd.Dir = filepath.Join(c.Root, "harness")
	cmd.Env = append(os.Environ(), "GOFLAGS=-mod=mod", "GOPROXY=off", "GOSUMDB=off", "GOTOOLCHAIN=local")
	if out, err := cmd.CombinedOutput(); err != nil {
		return nil, fmt.Errorf("race build of the harness failed: %v\n%s", err, tail(string(out), 2000))
	}
	c.Extra["race_build_s"] = time.Since(t0).Seconds()
	dir, err := os.MkdirTemp(c.Scratch, "race-")
	if err != nil {
		return nil, err
	}
	b, _ := json.Marshal(jobs)
	jf, of := filepath.Join(dir, "jobs.json"), filepath.Join(dir, "out.json")
	if err := os.WriteFile(jf, b, 0o644); err != nil {
		return nil, err
	}
	logp := filepath.Join(dir, "racelog")
	run := exec.Command(bin, "--racepass", jf, of)
	run.Env = append(os.Environ(), "GORACE=halt_on_error=0 log_path="+logp, "C08_RACELOG="+logp)
	t1 := time.Now()
	if out, err := run.CombinedOutput(); err != nil {
		return nil, fmt.Errorf("race pass failed: %v\n%s", err, tail(string(out), 2000))
	}
	c.Extra["race_pass_s"] = time.Since(t1).Seconds()
	rb, err := os.ReadFile(of)
	if err != nil {
		return nil, err
	}
	var res []*jobResult
	if err := json.Unmarshal(rb, &res); err != nil {
		return nil, err
	}
	if len(res) != len(jobs) {
		return nil, fmt.Errorf("race pass returned %d results for %d jobs", len(res), len(jobs))
	}
	return res, nil
}

// racePassMain runs inside the race build.
func racePassMain(jobsFile, outFile string) {
	b, err := os.ReadFile(jobsFile)
	if err != nil {
		fmt.Println(err)
		os.Exit(2)
	}
	var jobs []job
	if err := json.Unmarshal(b, &jobs); err != nil {
		fmt.Println(err)
		os.Exit(2)
	}
	for i := range jobs {
		jobs[i].Idx = i
	}
	c := &fw.Ctx{}
	res := runJobsWith(c, jobs, 10)
	// race reports of children that died (their result carries none)
	if lp := os.Getenv("C08_RACELOG"); lp != "" {
		side, _ := filepath.Glob(lp + ".*.job")
		for _, s := range side {
			ib, err := os.ReadFile(s)
			if err != nil {
				continue
			}
			var idx int
			if _, err := fmt.Sscan(string(ib), &idx); err != nil || idx < 0 || idx >= len(res) || res[idx].Err == "" {
				continue
			}
			if lb, err := os.ReadFile(strings.TrimSuffix(s, ".job")); err == nil {
				res[idx].Race = string(lb)
			}
		}
	}
	ob, _ := json.Marshal(res)
	if err := os.WriteFile(outFile, ob, 0o644); err != nil {
		fmt.Println(err)
		os.Exit(2)
	}
}

func runJobsWith(c *fw.Ctx, jobs []job, par int) []*jobResult {
	anys := make([]any, len(jobs))
	for i := range jobs {
		anys[i] = jobs[i]
	}
	per := time.Duration(jobs[0].Reps)*4*time.Second + 6*time.Minute
	res := c.RunChildren("c08", anys, par, per, nil)
	out := make([]*jobResult, len(jobs))
	for i, r := range res {
		if r.Out == nil {
			out[i] = &jobResult{Err: "harness child " + r.Describe()}
			continue
		}
		var jr jobResult
		if err := json.Unmarshal(r.Out, &jr); err != nil {
			jr.Err = "bad child result: " + err.Error()
		}
		out[i] = &jr
	}
	return out
}

// ------------------------------------------------------------------ race reports

type raceReport struct {
	Class string // "interp" | "harness" | "host"
	Sig   string
	Text  string
}

// executors of channel statements in interp/run.go
var chanExecutors = map[string]bool{"_select": true, "send": true, "recv": true, "recv2": true, "rangeChan": true}

var reFrame = regexp.MustCompile(`^  (\S+)\(`)

// owner of a frame: which body of code performs the access
func frameOwner(fn string) string {
	switch {
	case strings.HasPrefix(fn, "github.com/traefik/yaegi/interp."):
		return "interp"
	case strings.HasPrefix(fn, "main."):
		return "harness"
	case strings.HasPrefix(fn, "runtime."), strings.HasPrefix(fn, "reflect."), strings.HasPrefix(fn, "sync."),
		strings.HasPrefix(fn, "sync/atomic."), strings.HasPrefix(fn, "internal/"):
		return "" // mechanisms used on behalf of the caller
	}
	return "host"
}

// shortFn turns github.com/traefik/yaegi/interp._select.func3 into _select
func shortFn(fn string) string {
	fn = strings.TrimPrefix(fn, "github.com/traefik/yaegi/interp.")
	for {
		i := strings.LastIndex(fn, ".func")
		if i < 0 {
			break
		}
		fn = fn[:i]
	}
	// (*T).method.funcN -> (*T).method ; trailing numeric closure suffixes like ".1"
	for len(fn) > 2 && fn[len(fn)-2] == '.' && fn[len(fn)-1] >= '0' && fn[len(fn)-1] <= '9' {
		fn = fn[:len(fn)-2]
	}
	return fn
}

// parseRaces splits the race detector's output into reports and classifies each by the
// RESPONSIBLE frame of its two accesses: the first frame from the top that is not
// runtime/reflect/sync (those act on behalf of their caller). A report is
// interpreter-induced when a responsible frame lies in yaegi/interp; reports whose
// responsible frames are the harness's or another host package's are the harness's problem.
func parseRaces(log string) []raceReport {
	var out []raceReport
	seen := map[string]bool{}
	for _, blk := range strings.Split(log, "==================") {
		if !strings.Contains(blk, "WARNING: DATA RACE") {
			continue
		}
		var owners, sigs []string
		for _, sec := range strings.Split(blk, "\n\n") {
			sec = strings.TrimLeft(sec, "\n")
			if i := strings.Index(sec, "WARNING: DATA RACE\n"); i >= 0 {
				sec = sec[i+len("WARNING: DATA RACE\n"):]
			}
			head := sec
			if i := strings.IndexByte(sec, '\n'); i >= 0 {
				head = sec[:i]
			}
			if !(strings.HasPrefix(head, "Write at") || strings.HasPrefix(head, "Read at") || strings.HasPrefix(head, "Previous write at") ||
				strings.HasPrefix(head, "Previous read at") || strings.HasPrefix(head, "Atomic") || strings.HasPrefix(head, "Previous atomic")) {
				continue
			}
			lines := strings.Split(sec, "\n")
			for li, l := range lines {
				m := reFrame.FindStringSubmatch(l)
				if m == nil {
					continue
				}
				o := frameOwner(m[1])
				if o == "" {
					continue
				}
				owners = append(owners, o)
				file := ""
				if li+1 < len(lines) {
					f := strings.Fields(lines[li+1])
					if len(f) > 0 {
						file = filepath.Base(f[0])
						if i := strings.IndexByte(file, ':'); i >= 0 {
							file = file[:i]
						}
					}
				}
				if o == "interp" {
					sigs = append(sigs, file+":"+shortFn(m[1]))
				} else {
					sigs = append(sigs, m[1])
				}
				break
			}
		}
		if len(owners) == 0 {
			continue
		}
		class := "host"
		for _, o := range owners {
			if o == "interp" {
				class = "interp"
			}
		}
		if class != "interp" {
			for _, o := range owners {
				if o == "harness" {
					class = "harness"
				}
			}
		}
		sort.Strings(sigs)
		// A race between the executor of a channel statement and any other operation is
		// signed by the channel statement alone: which other operation happened to write
		// the memory the channel statement reads varies from run to run.
		var chanSigs []string
		for _, s := range sigs {
			if chanExecutors[s[strings.IndexByte(s, ':')+1:]] {
				chanSigs = append(chanSigs, s)
			}
		}
		if class == "interp" && len(chanSigs) > 0 && len(chanSigs) < len(sigs) {
			sigs = append(chanSigs, "another operation")
		}
		sig := strings.Join(sigs, " / ")
		if seen[class+sig] {
			continue
		}
		seen[class+sig] = true
		out = append(out, raceReport{Class: class, Sig: sig, Text: strings.TrimSpace(blk)})
	}
	return out
}
