package main

import (
	"encoding/json"
	"fmt"
	"sort"
	"strings"
	"time"

	"verif/fw"
)

// The family of blocking constructs (spec/sess/Blocking.tla): workers execute one blocking
// statement in a loop, main serves them for a few rounds and then stays busy or blocks.
// The table is built here in the order of the module's sets, so that parent and child
// processes agree on the indices; checkBlockingFamily compares it with TLC's enumeration.

var (
	blkForms   = []string{"recv", "recv-assign", "recv-ok", "send", "range", "select1-recv", "select1-recv-assign", "select1-recv-ok", "select1-send", "select2-recv-recv", "select2-recv-send", "select-default-then-recv"}
	blkHolders = []string{"func", "literal", "method"}
	blkMains   = []string{"busy", "blocked-recv", "blocked-select-empty", "blocked-select1"}
	blkWorkers = []int{1, 3}
	blkDepths  = []string{"callee", "own"}
)

// blkCrowd is the number of workers of the crowd programs (Blocking.tla Crowd).
const blkCrowd = 2000

func blkName(form, holder, main string, workers int, depth, lib string) string {
	n := fmt.Sprintf("blk/%s/%s/%s/%d", form, holder, main, workers)
	if depth != "own" || lib != "same" {
		n += "/" + depth
	}
	if lib != "same" {
		n += "/lib-" + lib
	}
	return n
}

// blkLibrary turns a program of the family into a session: the declarations (package-level channels,
// worker functions and methods) are evaluated first, through EvalWithContext(context.Background()),
// and the statements of main are the evaluation that is cancelled.
func blkLibrary(p program, form, holder, main string, workers int, depth string) program {
	src := strings.TrimPrefix(p.Src, "package main\n\n")
	i := strings.Index(src, "func main() {\n")
	pre, body := src[:i], src[i+len("func main() {\n"):]
	body = strings.TrimSuffix(body, "}\n")
	lines := strings.Split(body, "\n")
	for k, l := range lines {
		lines[k] = strings.TrimPrefix(l, "\t")
	}
	return program{Name: blkName(form, holder, main, workers, depth, "earlier"), Pre: pre, PreCtx: true, Src: strings.Join(lines, "\n"),
		Full: false, Class: "blocking-family", ChanInLit: false}
}

func sendLike(form string) bool { return form == "send" || form == "select1-send" }

// blkBody is the blocking statement; c is the served channel, idle is never ready.
func blkBody(form string) string {
	switch form {
	case "recv":
		return "h.Tick(<-c)"
	case "recv-assign":
		return "v := <-c\n\t\th.Tick(v)"
	case "recv-ok":
		return "v, ok := <-c\n\t\tif ok {\n\t\t\th.Tick(v)\n\t\t}"
	case "send":
		return "c <- id*100 + i\n\t\th.Tick(id)"
	case "range":
		return "for v := range c {\n\t\t\th.Tick(v)\n\t\t}"
	case "select1-recv":
		return "select {\n\t\tcase <-c:\n\t\t\th.Tick(id)\n\t\t}"
	case "select1-recv-assign":
		return "select {\n\t\tcase v := <-c:\n\t\t\th.Tick(v)\n\t\t}"
	case "select1-recv-ok":
		return "select {\n\t\tcase v, ok := <-c:\n\t\t\tif ok {\n\t\t\t\th.Tick(v)\n\t\t\t}\n\t\t}"
	case "select1-send":
		return "select {\n\t\tcase c <- id*100 + i:\n\t\t\th.Tick(id)\n\t\t}"
	case "select2-recv-recv":
		return "select {\n\t\tcase v := <-c:\n\t\t\th.Tick(v)\n\t\tcase v := <-idle:\n\t\t\th.Tick(v)\n\t\t}"
	case "select2-recv-send":
		return "select {\n\t\tcase v := <-c:\n\t\t\th.Tick(v)\n\t\tcase idle <- i:\n\t\t\th.Tick(-1)\n\t\t}"
	case "select-default-then-recv":
		return "select {\n\t\tcase v := <-c:\n\t\t\th.Tick(v)\n\t\tdefault:\n\t\t\th.Tick(<-c)\n\t\t}"
	}
	return "/* ? */"
}

func blkProgram(form, holder, main string, workers int, depth string) program {
	var b strings.Builder
	b.WriteString("package main\n\nimport \"h\"\n\nvar idle = make(chan int)\n\nvar park = make(chan int)\n\n")
	loop := "\tfor i := 0; ; i++ {\n\t\t" + blkBody(form) + "\n\t\t_ = i\n\t}\n"
	stepBody := "\t" + strings.ReplaceAll(blkBody(form), "\n\t\t", "\n\t") + "\n\t_ = i\n"
	if depth == "callee" {
		// the blocking statement lives in a callee; when it returns the caller has a side effect left
		switch holder {
		case "func":
			b.WriteString("func step(id, i int, c chan int) {\n" + stepBody + "}\n\n")
			loop = "\tfor i := 0; ; i++ {\n\t\tstep(id, i, c)\n\t\th.Tick(-7)\n\t}\n"
		case "method":
			loop = "\tfor i := 0; ; i++ {\n\t\tw.step(i, c)\n\t\th.Tick(-7)\n\t}\n"
		case "literal":
			loop = "\tfor i := 0; ; i++ {\n\t\tstep(id, i)\n\t\th.Tick(-7)\n\t}\n"
		}
	}
	switch holder {
	case "func":
		b.WriteString("func worker(id int, c chan int) {\n" + loop + "}\n\n")
	case "method":
		b.WriteString("type W struct{ id int }\n\n")
		if depth == "callee" {
			b.WriteString("func (w W) step(i int, c chan int) {\n\tid := w.id\n" + stepBody + "\t_ = id\n}\n\n")
		}
		b.WriteString("func (w W) run(c chan int) {\n\tid := w.id\n" + loop + "\t_ = id\n}\n\n")
	}
	b.WriteString("func main() {\n\tc := make(chan int)\n")
	if holder == "literal" && depth == "callee" {
		b.WriteString("\tstep := func(id, i int) {\n\t" + strings.ReplaceAll(stepBody, "\n\t", "\n\t\t") + "}\n")
	}
	fmt.Fprintf(&b, "\tfor w := 0; w < %d; w++ {\n", workers)
	switch holder {
	case "func":
		b.WriteString("\t\tgo worker(w, c)\n")
	case "method":
		b.WriteString("\t\tgo W{w}.run(c)\n")
	case "literal":
		b.WriteString("\t\tgo func(id int) {\n\t" + strings.ReplaceAll(loop, "\n\t", "\n\t\t") + "\t}(w)\n")
	}
	b.WriteString("\t}\n")
	rounds := 2 * workers
	if workers == blkCrowd {
		rounds = 10
	}
	if sendLike(form) {
		fmt.Fprintf(&b, "\tfor r := 0; r < %d; r++ {\n\t\th.Tick(<-c)\n\t}\n", rounds)
	} else {
		fmt.Fprintf(&b, "\tfor r := 0; r < %d; r++ {\n\t\tc <- r\n\t}\n", rounds)
	}
	switch main {
	case "busy":
		b.WriteString("\tfor {\n\t\th.Tick(0)\n\t}\n")
	case "blocked-recv":
		b.WriteString("\th.Tick(<-park)\n")
	case "blocked-select-empty":
		b.WriteString("\tselect {}\n")
	case "blocked-select1":
		b.WriteString("\tselect {\n\tcase v := <-park:\n\t\th.Tick(v)\n\t}\n")
	}
	b.WriteString("}\n")
	return program{Name: blkName(form, holder, main, workers, depth, "same"), Src: b.String(), Full: true, Class: "blocking-family",
		ChanInLit: holder == "literal", Crowd: workers == blkCrowd}
}

// firstBlocking is the index of the first program of the family in the table.
var firstBlocking int

func init() {
	firstBlocking = len(programs)
	for _, f := range blkForms {
		for _, hd := range blkHolders {
			for _, m := range blkMains {
				for _, w := range blkWorkers {
					for _, d := range blkDepths {
						programs = append(programs, blkProgram(f, hd, m, w, d))
					}
				}
			}
		}
	}
	for _, f := range blkForms {
		programs = append(programs, blkProgram(f, "func", "blocked-recv", blkCrowd, "callee"))
	}
	for _, f := range blkForms {
		for _, hd := range []string{"func", "method"} {
			for _, d := range blkDepths {
				programs = append(programs, blkLibrary(blkProgram(f, hd, "blocked-recv", 3, d), f, hd, "blocked-recv", 3, d))
			}
		}
	}
}

// checkBlockingFamily has TLC enumerate Blocking.tla and compares the family with the table.
func checkBlockingFamily(c *fw.Ctx) error {
	res, err := c.TLC(fw.TLCOpts{Dir: "spec/sess", Module: "Blocking", Cfg: "Blocking.cfg", Workers: 1, Timeout: 2 * time.Minute})
	if err != nil {
		return err
	}
	var got []string
	for _, raw := range res.Beh {
		var r struct {
			Form, Holder, Main, Waits, Depth, Lib string
			Workers                          int
		}
		if err := json.Unmarshal(raw, &r); err != nil {
			return err
		}
		if (r.Waits == "receiver") != sendLike(r.Form) {
			c.SpecError("Blocking.tla classifies %s as waiting for a %s, the renderer serves it otherwise", r.Form, r.Waits)
		}
		got = append(got, blkName(r.Form, r.Holder, r.Main, r.Workers, r.Depth, r.Lib))
	}
	var want []string
	for _, p := range programs[firstBlocking:] {
		want = append(want, p.Name)
	}
	sort.Strings(got)
	sort.Strings(want)
	if strings.Join(got, "\n") != strings.Join(want, "\n") {
		c.SpecError("Blocking.tla enumerates %d programs, the renderer's table has %d (or their names differ)", len(got), len(want))
	}
	return nil
}
