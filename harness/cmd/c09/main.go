// Check for property C09: cancellation stops all interpreted activity promptly.
//
// Binding: the step hook (build tag verif) is used as a gate. At the k-th interpreted
// operation the arriving goroutine, and every goroutine arriving afterwards, is parked;
// the harness cancels the context, waits for the API call to return, releases the gate
// and records what each goroutine does from then on. The recorded runs are concatenated
// into one ndjson trace and validated by TLC against spec/sess/Cancel.tla (the
// property-level specification); RunId.tla (the mechanism-level model) is model-checked
// as a design and its counterexamples name the scenarios that must be among the runs.
package main

import (
	"bytes"
	"context"
	"encoding/json"
	"fmt"
	"math/rand"
	"os"
	"reflect"
	"regexp"
	"runtime"
	"sort"
	"strconv"
	"strings"
	"sync"
	"sync/atomic"
	"testing/fstest"
	"time"

	"github.com/traefik/yaegi/interp"
	"github.com/traefik/yaegi/stdlib"

	"verif/fw"
)

type job struct {
	Prog   int    `json:"prog"`
	Entry  string `json:"entry"`  // eval | exec | path
	K      int64  `json:"k"`      // cancellation point in interpreted operations; 0 = context already cancelled
	Follow string `json:"follow"` // none | after | before (a further Eval after quiescence / before the gate is released)
	Rep    int    `json:"rep,omitempty"` // repetition number (crowd programs are run several times: the schedule is the variable)
}

// kBlocked is a cancellation point no program reaches: the run is cancelled once every goroutine is blocked.
const kBlocked = int64(1) << 40

func (j job) id() string {
	if j.Rep > 0 {
		return fmt.Sprintf("%s/%s/k=blocked/follow=%s/rep=%d", programs[j.Prog].Name, j.Entry, j.Follow, j.Rep)
	}
	return fmt.Sprintf("%s/%s/k=%d/follow=%s", programs[j.Prog].Name, j.Entry, j.K, j.Follow)
}

type event map[string]any

type result struct {
	Job         job     `json:"job"`
	Program     string  `json:"program"` // name of the program (replays find it by name)
	Events      []event `json:"events"`
	Reached     bool    `json:"reached"` // the cancellation point was reached before the program ended
	AtRoot      bool    `json:"at_root"` // ... and that operation ran on the global frame
	TicksBefore int     `json:"ticks_before"`
	MainStarted bool    `json:"main_started"`
	Blocked     bool    `json:"blocked"` // cancelled when every goroutine was blocked (k beyond the last operation)
	OpsBefore   int64   `json:"ops_before"`
	Goroutines  int     `json:"goroutines"` // interpreted goroutines seen
	Restart     bool    `json:"_restart"`
	Err         string  `json:"err,omitempty"`
}

func goid() int64 {
	var buf [64]byte
	n := runtime.Stack(buf[:], false)
	// "goroutine 123 [running]:"
	s := buf[10:n]
	i := bytes.IndexByte(s, ' ')
	if i < 0 {
		return -1
	}
	v, _ := strconv.ParseInt(string(s[:i]), 10, 64)
	return v
}

type gate struct {
	mu          sync.Mutex
	k           int64
	n           int64
	closed      bool
	released    bool
	bypass      int64 // goroutine of the harness itself (follow-up Eval)
	parked      map[int64]bool
	seen        map[int64]bool
	after       map[int64]int
	ticks       map[int64]int
	ticksBefore int
	mainStarted bool // h.Tick(999) seen before the call returned
	open        chan struct{}
	reached     chan struct{}
	returned    atomic.Bool
	atRoot      bool // the operation at which the gate closed ran on the global frame
	lastEv      atomic.Int64
	order       []event
}

func newGate(k int64) *gate {
	g := &gate{k: k, parked: map[int64]bool{}, seen: map[int64]bool{}, after: map[int64]int{}, ticks: map[int64]int{},
		open: make(chan struct{}), reached: make(chan struct{})}
	if k == 0 {
		g.closed = true
		close(g.reached)
	}
	return g
}

func (g *gate) step(root bool) {
	id := goid()
	g.lastEv.Store(time.Now().UnixNano())
	g.mu.Lock()
	if id == g.bypass {
		g.mu.Unlock()
		return
	}
	g.seen[id] = true
	if g.released {
		g.after[id]++
		if len(g.order) < 60 {
			g.order = append(g.order, event{"e": "Op", "g": id})
			g.mu.Unlock()
			return
		}
		// enough has been seen of a goroutine that does not stop: hold it here for
		// good (it stays alive and is counted as such) instead of letting it burn CPU
		g.mu.Unlock()
		select {}
	}
	g.n++
	if !g.closed && g.n == g.k {
		g.closed = true
		g.atRoot = root
		close(g.reached)
	}
	if g.closed {
		g.parked[id] = true
		ch := g.open
		g.mu.Unlock()
		<-ch
		return
	}
	g.mu.Unlock()
}

func (g *gate) tick(v int) {
	if !g.returned.Load() {
		g.mu.Lock()
		g.ticksBefore++
		if v == 999 {
			g.mainStarted = true
		}
		g.mu.Unlock()
		return
	}
	id := goid()
	g.lastEv.Store(time.Now().UnixNano())
	g.mu.Lock()
	if id != g.bypass {
		g.ticks[id]++
		if len(g.order) < 60 {
			g.order = append(g.order, event{"e": "Tick", "g": id})
		}
	}
	g.mu.Unlock()
}

var curGate atomic.Pointer[gate]
var curInterp atomic.Pointer[interp.Interpreter]

func init() {
	interp.VerifStep = func(i *interp.Interpreter, iid, fid uint64, fr uintptr, root bool) {
		if i != curInterp.Load() {
			return
		}
		if g := curGate.Load(); g != nil {
			g.step(root)
		}
	}
	fw.RegisterChild("c09", func(raw json.RawMessage) any {
		var j job
		if err := json.Unmarshal(raw, &j); err != nil {
			return result{Err: err.Error()}
		}
		return runJob(j)
	})
}

func runJob(j job) (res result) {
	res.Job = j
	p := programs[j.Prog]
	res.Program = p.Name
	g := newGate(j.K)
	mfs := fstest.MapFS{"main.go": &fstest.MapFile{Data: []byte(p.Src)}}
	i := interp.New(interp.Options{SourcecodeFilesystem: mfs, Stdout: new(bytes.Buffer), Stderr: new(bytes.Buffer)})
	i.Use(stdlib.Symbols)
	i.Use(interp.Exports{"h/h": {
		"Tick": reflect.ValueOf(func(n int) { g.tick(n) }),
		// Each calls back into the script: a host function holding a script function
		"Each": reflect.ValueOf(func(n int, f func(int)) {
			for k := 0; k < n; k++ {
				f(k)
			}
		}),
	}})
	g.bypass = goid()
	curInterp.Store(i)
	defer curGate.Store(nil)
	if p.Pre != "" {
		var err error
		if p.PreCtx {
			_, err = i.EvalWithContext(context.Background(), p.Pre)
		} else {
			_, err = i.Eval(p.Pre)
		}
		if err != nil {
			res.Err = "pre: " + err.Error()
			return
		}
	}
	curGate.Store(g) // the operations of the evaluation that is cancelled are counted, not those of Pre
	var prog *interp.Program
	if j.Entry == "exec" {
		var err error
		if prog, err = i.Compile(p.Src); err != nil {
			res.Err = "compile: " + err.Error()
			return
		}
	}
	runtime.GC()
	time.Sleep(2 * time.Millisecond)
	base := runtime.NumGoroutine()
	ctx, cancel := context.WithCancel(context.Background())
	if j.K == 0 {
		cancel()
	}
	type ret struct {
		err error
		at  time.Time
	}
	done := make(chan ret, 1)
	go func() {
		var err error
		switch j.Entry {
		case "eval":
			_, err = i.EvalWithContext(ctx, p.Src)
		case "exec":
			_, err = i.ExecuteWithContext(ctx, prog)
		case "path":
			_, err = i.EvalPathWithContext(ctx, "main.go")
		}
		done <- ret{err, time.Now()}
	}()
	ev := func(e event) { res.Events = append(res.Events, e) }
	ev(event{"e": "Start", "run": j.id()})
	finished := false
	var r ret
	var cancelAt time.Time
	select {
	case <-g.reached:
		res.Reached = true
		cancelAt = time.Now()
		cancel()
		select {
		case r = <-done:
		case <-time.After(5 * time.Second):
			r = ret{fmt.Errorf("call did not return within 5s"), time.Now()}
		}
	case r = <-done:
		// the program ended (or failed) before the cancellation point
		finished = true
		cancelAt = r.at
		cancel()
	case <-allBlocked(g):
		// every goroutine is blocked before operation k: cancel in that state; goroutines
		// that wake up from now on park at the gate like the others
		g.mu.Lock()
		g.closed = true
		g.mu.Unlock()
		// "blocked" is a statement about the goroutines, not about the clock: the Go runtime must
		// report every goroutine inside the interpreter's run loop as waiting in a channel operation
		res.Reached, res.Blocked = true, allInChanOps()
		cancelAt = time.Now()
		cancel()
		select {
		case r = <-done:
		case <-time.After(5 * time.Second):
			r = ret{fmt.Errorf("call did not return within 5s"), time.Now()}
		}
	}
	g.returned.Store(true)
	errText := ""
	if r.err != nil {
		errText = r.err.Error()
	}
	g.mu.Lock()
	res.OpsBefore = g.n
	res.AtRoot = g.atRoot
	res.TicksBefore = g.ticksBefore
	res.MainStarted = g.mainStarted
	g.mu.Unlock()
	ev(event{"e": "Returned", "err": errText, "latency_ms": r.at.Sub(cancelAt).Milliseconds(), "finished": finished, "blocked": res.Blocked})
	follow := func() {
		fd := make(chan error, 1)
		go func() {
			g.mu.Lock()
			g.bypass = goid()
			g.mu.Unlock()
			_, err := i.Eval("1+1")
			fd <- err
		}()
		select {
		case err := <-fd:
			ev(event{"e": "Follow", "ok": err == nil})
		case <-time.After(3 * time.Second):
			ev(event{"e": "Follow", "ok": false, "hung": true})
			res.Restart = true
			if os.Getenv("C09_DUMP") != "" {
				buf := make([]byte, 1<<20)
				n := runtime.Stack(buf, true)
				os.Stderr.Write(buf[:n])
			}
		}
	}
	if j.Follow == "before" {
		follow()
	}
	// release the gate: parked goroutines execute their in-flight operation
	g.mu.Lock()
	g.released = true
	var parked []int64
	for id := range g.parked {
		parked = append(parked, id)
	}
	close(g.open)
	g.mu.Unlock()
	sort.Slice(parked, func(a, b int) bool { return parked[a] < parked[b] })
	for _, id := range parked {
		ev(event{"e": "Resume", "g": id})
	}
	quiet := func(max time.Duration) {
		deadline := time.Now().Add(max)
		for time.Now().Before(deadline) {
			time.Sleep(10 * time.Millisecond)
			if time.Since(time.Unix(0, g.lastEv.Load())) > 40*time.Millisecond {
				return
			}
		}
	}
	quiet(250 * time.Millisecond)
	if j.Follow == "after" {
		follow()
		quiet(250 * time.Millisecond)
	}
	// interpreted goroutines still alive: goroutines (other than this one) with a frame of
	// the interpreter's run loop on their stack; polled, since exiting takes a moment
	extra := 0
	polls := 300
	g.mu.Lock()
	if len(g.order) >= 60 {
		polls = 3 // goroutines that never stop are held in the hook: no point in waiting
	}
	g.mu.Unlock()
	for w := 0; w < polls; w++ {
		if runtime.NumGoroutine() <= base {
			extra = 0
			break
		}
		extra = interpGoroutines()
		if extra == 0 {
			break
		}
		time.Sleep(10 * time.Millisecond)
	}
	g.mu.Lock()
	res.Events = append(res.Events, g.order...)
	res.Goroutines = len(g.seen)
	g.mu.Unlock()
	ev(event{"e": "Quiesce", "extra": extra})
	if extra > 0 && os.Getenv("C09_DUMP") != "" {
		buf := make([]byte, 1<<20)
		n := runtime.Stack(buf, true)
		os.Stderr.Write(buf[:n])
	}
	// a run that left goroutines behind poisons the process: ask for a fresh child
	if extra > 0 || len(g.order) > 0 {
		res.Restart = true
	}
	return res
}

// allInChanOps reports whether every goroutine inside the interpreter's run loop is waiting in a
// channel operation (receive, send or select), as the Go runtime sees it.
func allInChanOps() bool {
	buf := make([]byte, 64<<20)
	n := runtime.Stack(buf, true)
	if n == len(buf) {
		return false
	}
	seen := 0
	for _, st := range strings.Split(string(buf[:n]), "\n\n") {
		if !strings.Contains(st, "yaegi/interp.runCfg") || strings.Contains(st, "main.allInChanOps") {
			continue
		}
		seen++
		i, j := strings.IndexByte(st, '['), strings.IndexByte(st, ']')
		if i < 0 || j < i {
			return false
		}
		state := st[i+1 : j]
		if !strings.HasPrefix(state, "chan receive") && !strings.HasPrefix(state, "chan send") && !strings.HasPrefix(state, "select") {
			return false
		}
	}
	return seen > 0
}

// interpGoroutines counts the goroutines that are inside the interpreter's run loop.
func interpGoroutines() int {
	buf := make([]byte, 64<<20)
	n := runtime.Stack(buf, true)
	c := 0
	for _, st := range strings.Split(string(buf[:n]), "\n\n") {
		if strings.Contains(st, "yaegi/interp.runCfg") && !strings.Contains(st, "main.interpGoroutines") {
			c++
		}
	}
	return c
}

// allBlocked fires when no interpreted operation has begun for 300 ms.
func allBlocked(g *gate) <-chan struct{} {
	ch := make(chan struct{})
	go func() {
		g.lastEv.CompareAndSwap(0, time.Now().UnixNano())
		for {
			time.Sleep(20 * time.Millisecond)
			select {
			case <-g.reached:
				return
			default:
			}
			// quiet for 300 ms AND every goroutine waiting in a channel operation, as the runtime sees it:
			// on a loaded machine goroutines that are merely not scheduled are quiet too (after 5 s of
			// silence the run is cancelled whatever the goroutines do, and Blocked says what they did)
			if q := time.Since(time.Unix(0, g.lastEv.Load())); q > 300*time.Millisecond && (allInChanOps() || q > 5*time.Second) {
				close(ch)
				return
			}
		}
	}()
	return ch
}

func main() { fw.Main("C09", "model_checking", run) }

// Design-level model checking of the mechanism (RunId.tla). Each cfg selects "code as
// it is" or a candidate repair per code site; the expected outcome is pinned here, and
// each counterexample names the known finding whose scenario must show on the real code.
var designRuns = []struct {
	module   string
	cfg      string
	what     string
	violated bool
	finding  string   // known finding the counterexample corresponds to
	must     []string // action names the counterexample must contain, in order
}{
	{"RunId", "RunId.A.cfg", "as is except run() inheriting the root id, 1 evaluation", true, "F-C09-1", []string{"EvalStart", "Cancel", "ExecuteStart", "Op", "Op"}},
	{"RunId", "RunId.B.cfg", "as is except no Execute after cancel, 1 evaluation", true, "F-C09-2", []string{"ExecuteStart", "Cancel", "RunInitOrMain", "Op", "Op"}},
	{"RunId", "RunId.C.cfg", "both candidate repairs, 1 evaluation", false, "", nil},
	{"RunId", "RunId.D.cfg", "both candidate repairs, 2 evaluations", true, "F-C09-3", []string{"Cancel", "EvalStart", "ExecuteStart", "Op", "Op"}},
	// the two statements of stop() against goroutines blocked in channel operations: the order of the code
	// holds; the other order lets a goroutine woken between the two statements go on in its caller (the
	// scenario of the crowd programs of Blocking.tla), which shows that the invariant is not vacuous
	{"Stop", "Stop.asis.cfg", "stop(): id incremented, then done closed (as is), 3 blocked goroutines", false, "", nil},
	{"Stop", "Stop.swapped.cfg", "stop(): done closed, then id incremented", true, "", []string{"Stop1", "Wake", "Op"}},
}

var reAction = regexp.MustCompile(`(?m)^State \d+: <(\w+)`)

func designCheck(c *fw.Ctx) (map[string]bool, error) {
	expectFinding := map[string]bool{}
	var rows []map[string]any
	for _, d := range designRuns {
		res, err := c.TLC(fw.TLCOpts{Dir: "spec/sess", Module: d.module, Cfg: d.cfg, Workers: 1, Timeout: 3 * time.Minute})
		if err != nil {
			return nil, err
		}
		var acts []string
		for _, m := range reAction.FindAllStringSubmatch(res.Output, -1) {
			acts = append(acts, m[1])
		}
		if (res.Violated != "") != d.violated {
			return nil, fmt.Errorf("mechanism model %s (%s): expected violated=%v, TLC says %q", d.cfg, d.what, d.violated, res.Violated)
		}
		if d.violated {
			j := 0
			for _, a := range acts {
				if j < len(d.must) && a == d.must[j] {
					j++
				}
			}
			if j != len(d.must) {
				return nil, fmt.Errorf("mechanism model %s: counterexample %v does not contain %v", d.cfg, acts, d.must)
			}
			if d.finding != "" {
				expectFinding[d.finding] = true
			}
		}
		rows = append(rows, map[string]any{"cfg": d.cfg, "what": d.what, "violated": d.violated, "counterexample": acts, "finding": d.finding})
	}
	c.Extra["design_model_checking"] = rows
	return expectFinding, nil
}

func run(c *fw.Ctx) error {
	c.Rule = "one run = (program of the family, entry point, cancellation point k in interpreted operations, follow-up Eval none/after/before release); non-trivial when the cancellation point was reached while the program was still running; distinct by that tuple"
	c.Assumptions = []string{
		"the verif step hook is called before every interpreted operation (interp/run.go runCfg) and is used as a gate",
		"goroutine identity is read from runtime.Stack",
		"programs coordinate through channels only; goroutines blocked in host calls are outside the property",
		"a goroutine that passed the loop condition before the cancellation but reaches the hook only after the gate was released is indistinguishable from one starting a new operation: the specification allows every goroutine one operation after the return",
	}
	var jobs []job
	var fromDesign map[string]bool
	if c.Replay == "" {
		var err error
		if fromDesign, err = designCheck(c); err != nil {
			return err
		}
		if err = checkBlockingFamily(c); err != nil {
			return err
		}
	}
	if c.Replay != "" {
		// a replay file holds the result of the failing run; its job is what is replayed
		// (the program is named too: indices move when the family grows)
		var r struct {
			Job  job    `json:"job"`
			Name string `json:"program"`
		}
		if err := c.LoadReplay(&r); err != nil {
			return err
		}
		for pi := range programs {
			if r.Name != "" && programs[pi].Name == r.Name {
				r.Job.Prog = pi
			}
		}
		jobs = []job{r.Job}
	} else {
		rng := rand.New(rand.NewSource(c.Seed))
		for pi, p := range programs {
			entries := []string{"eval", "exec"}
			if p.Full {
				entries = append(entries, "path")
			}
			var ks []int64
			if p.Crowd {
				// a crowd blocked in a callee, released by one cancellation: the schedule is the variable
				reps := 6
				if c.Quick() {
					if (pi+int(c.Seed))%3 != 0 {
						continue
					}
					reps = 3
				}
				for r := 1; r <= reps; r++ {
					jobs = append(jobs, job{Prog: pi, Entry: []string{"eval", "path"}[(pi+r)%2], K: kBlocked, Follow: "none", Rep: r})
				}
				continue
			}
			if pi >= firstBlocking {
				// the family of blocking constructs: cancelled once everybody is blocked (or main
				// is busy and the workers are blocked); quick samples one program in six
				entries = []string{"eval", "path"}
				if !p.Full {
					entries = []string{"eval", "eval"} // a session (library evaluated earlier): no file to give to EvalPath
				} else if !p.ChanInLit {
					// compiled first, executed with the context afterwards (the blocked operations are in declared
					// functions and in main; literals compiled by Compile are the known finding of that entry point)
					entries = []string{"eval", "path", "exec"}
				}
				if c.Quick() {
					if (pi+int(c.Seed))%6 != 0 {
						continue
					}
					// (pi/6: the sampled programs are 6 apart, their remainders modulo 2 or 3 would all be equal)
					x := (pi / 6) % len(entries)
					entries = entries[x : x+1]
					ks = []int64{60 + rng.Int63n(60), 3 + rng.Int63n(30)}
				} else {
					ks = []int64{2, 9, 30, 70, 120, 4 + rng.Int63n(140)}
				}
			} else if c.Quick() {
				ks = []int64{0, 1, 2, 3, 5, 8, 13, 21, 34, 55}
				for n := 0; n < 4; n++ {
					ks = append(ks, 4+rng.Int63n(120))
				}
			} else {
				for k := int64(0); k <= 150; k++ {
					ks = append(ks, k)
				}
			}
			for _, e := range entries {
				for _, k := range ks {
					// A follow-up Eval re-runs main when the session has defined one (a
					// documented quirk outside this property), so only sessions made of
					// root-level statements get one.
					f := "none"
					if !p.Full && pi < firstBlocking {
						f = []string{"none", "after", "before"}[int(k)%3]
					}
					jobs = append(jobs, job{Prog: pi, Entry: e, K: k, Follow: f})
					if !p.Full && !c.Quick() && pi < firstBlocking {
						jobs = append(jobs, job{Prog: pi, Entry: e, K: k, Follow: []string{"none", "after", "before"}[int(k+1)%3]})
					}
				}
			}
		}
	}
	anys := make([]any, len(jobs))
	for i := range jobs {
		anys[i] = jobs[i]
	}
	results := c.RunChildren("c09", anys, 12, 60*time.Second, nil)
	// assemble the concatenated traces: groups of 300 runs, validated by parallel TLC runs
	byRun := map[string]result{}
	type group struct {
		buf   bytes.Buffer
		lines int
	}
	var groups []*group
	for i, r := range results {
		var res result
		if r.Out == nil || json.Unmarshal(r.Out, &res) != nil {
			return fmt.Errorf("run %s: harness child %s", jobs[i].id(), r.Describe())
		}
		if res.Err != "" && !strings.HasPrefix(res.Err, "cancellation point never") {
			return fmt.Errorf("run %s: %s", jobs[i].id(), res.Err)
		}
		byRun[jobs[i].id()] = res
		if i%300 == 0 {
			groups = append(groups, &group{})
		}
		g := groups[len(groups)-1]
		for _, e := range res.Events {
			b, _ := json.Marshal(e)
			g.buf.Write(b)
			g.buf.WriteByte('\n')
			g.lines++
		}
		c.Count(jobs[i].id(), res.Reached)
		if i%97 == 0 {
			c.Sample(map[string]any{"run": jobs[i].id(), "events": res.Events, "ops_before_cancel": res.OpsBefore, "goroutines": res.Goroutines})
		}
	}
	type verdictT struct {
		Consumed int        `json:"consumed"`
		Bad      [][]string `json:"bad"`
	}
	verdicts := make([]verdictT, len(groups))
	errs := make([]error, len(groups))
	var wg sync.WaitGroup
	sem := make(chan struct{}, 6)
	nlines := 0
	for gi, g := range groups {
		nlines += g.lines
		wg.Add(1)
		sem <- struct{}{}
		go func(gi int, g *group) {
			defer wg.Done()
			defer func() { <-sem }()
			tres, err := c.TLC(fw.TLCOpts{Dir: "spec/sess", Module: "Cancel", Cfg: "Cancel.trace.cfg", Workers: 1, HeapMB: 3000,
				Files: map[string][]byte{"trace.ndjson": g.buf.Bytes()}, Timeout: 15 * time.Minute})
			if err != nil {
				errs[gi] = err
				return
			}
			if len(tres.Beh) != 1 {
				errs[gi] = fmt.Errorf("trace not accepted by Cancel.tla: consumed less than %d lines (ill-formed trace)\n%s", g.lines, tail(tres.Output))
				return
			}
			if err := json.Unmarshal(tres.Beh[0], &verdicts[gi]); err != nil {
				errs[gi] = err
				return
			}
			if verdicts[gi].Consumed != g.lines {
				errs[gi] = fmt.Errorf("trace validation consumed %d of %d lines", verdicts[gi].Consumed, g.lines)
			}
		}(gi, g)
	}
	wg.Wait()
	var verdict verdictT
	for gi := range groups {
		if errs[gi] != nil {
			return errs[gi]
		}
		verdict.Bad = append(verdict.Bad, verdicts[gi].Bad...)
	}
	c.TracesVsImpl = int64(len(results))
	c.Extra["trace_events"] = nlines
	hit := map[string]bool{}
	for _, b := range verdict.Bad {
		res := byRun[b[0]]
		if c.Fail(trigger(res), b[1], res) {
			hit[trigger(res)] = true
		}
	}
	// every design-level counterexample must show on the real code; if it does not, the
	// code no longer follows the mechanism model (e.g. it was repaired): noted, not an alarm
	var drift []string
	scen := map[string]string{
		"F-C09-1": "context already cancelled when the call starts",
		"F-C09-2": "cancelled during package initialisation, before main starts",
		"F-C09-3": "root-level statements cancelled, next Eval issued while an operation of the cancelled one is still in flight",
	}
	for f := range fromDesign {
		if !hit[scen[f]] {
			drift = append(drift, "MODEL-DRIFT: RunId.tla predicts "+f+" but the real interpreter did not show it")
		}
	}
	sort.Strings(drift)
	for _, d := range drift {
		fmt.Println(d)
	}
	c.Extra["model_drift"] = drift
	return nil
}

// trigger computes the model-level class of a failing run.
func trigger(r result) string {
	p := programs[r.Job.Prog]
	switch {
	case r.Job.K == 0:
		return "context already cancelled when the call starts"
	case p.Full && (r.AtRoot || (p.InitTicks > 0 && !r.MainStarted)):
		return "cancelled during package initialisation, before main starts"
	case r.Job.Follow == "before" && !p.Full:
		return "root-level statements cancelled, next Eval issued while an operation of the cancelled one is still in flight"
	case r.Job.Entry == "exec" && p.ChanInLit:
		return "ExecuteWithContext of a program compiled by Compile whose function literals block in channel operations"
	}
	phase := "while running"
	if r.Blocked {
		phase = "while every goroutine is blocked"
	}
	return fmt.Sprintf("program class %s, cancelled %s, entry %s, follow-up %s", p.Class, phase, r.Job.Entry, r.Job.Follow)
}

func tail(s string) string {
	if len(s) > 1500 {
		return s[len(s)-1500:]
	}
	return s
}
