package main

// The program family of C09. Every program performs its side effects through the
// host function h.Tick (registered with Use) and coordinates through channels only
// (goroutines blocked in host calls such as time.Sleep or WaitGroup.Wait cannot
// observe cancellation and are outside the property).

type program struct {
	Name string
	Src  string
	// Full programs have a package clause and a main function and can be given to
	// EvalPathWithContext; the others are statement lists evaluated at the root level.
	Full bool
	// Class of what the program does when it is cancelled (for signatures).
	Class string
	// Pre is evaluated (plain Eval) before the cancelled evaluation.
	Pre string
	// InitTicks > 0: the program has package initialisation (global variable initialisers
	// and init functions) that ticks, and main announces its start with h.Tick(999).
	InitTicks int
	// ChanInLit: a function literal of the program blocks in a channel operation.
	ChanInLit bool
	// PreCtx: Pre is evaluated through EvalWithContext with a context that cannot be cancelled.
	PreCtx bool
	// Crowd: thousands of workers blocked in a callee (Blocking.tla Crowd); cancelled once all are blocked.
	Crowd bool
}

var programs = []program{
	{Name: "busy", Class: "loop", Full: true, Src: `package main
import "h"
func main() {
	for i := 0; ; i++ {
		h.Tick(i)
	}
}`},
	{Name: "recursion", Class: "calls", Full: true, Src: `package main
import "h"
func f(n int) int {
	h.Tick(n)
	if n == 0 {
		return 0
	}
	return f(n-1) + 1
}
func main() {
	for {
		f(4)
	}
}`},
	{Name: "closures", Class: "calls", Full: true, Src: `package main
import "h"
type T struct{ n int }
func (t *T) Inc() { t.n++; h.Tick(t.n) }
func main() {
	c := 0
	add := func(d int) int { c += d; h.Tick(c); return c }
	t := &T{}
	inc := t.Inc
	for {
		add(1)
		inc()
		func() { add(2) }()
	}
}`},
	{Name: "init-then-main", Class: "init", Full: true, InitTicks: 13, Src: `package main
import "h"
var g = first()
func first() int { h.Tick(100); return 1 }
func init() {
	for i := 0; i < 6; i++ {
		h.Tick(i)
	}
}
func init() {
	for i := 0; i < 6; i++ {
		h.Tick(10 + i)
	}
}
func main() {
	h.Tick(999)
	for i := 0; ; i++ {
		h.Tick(20 + i)
	}
}`},
	{Name: "goroutine-tree", Class: "goroutines", Full: true, Src: `package main
import "h"
func leaf(id int) {
	for i := 0; ; i++ {
		h.Tick(id)
	}
}
func worker(id int) {
	go leaf(id*10 + 1)
	go leaf(id*10 + 2)
	for i := 0; ; i++ {
		h.Tick(id)
	}
}
func main() {
	for w := 1; w <= 2; w++ {
		go worker(w)
	}
	for {
		h.Tick(0)
	}
}`},
	{Name: "blocked-send", ChanInLit: true, Class: "chan", Full: true, Src: `package main
import "h"
func main() {
	ch := make(chan int)
	go func() {
		for i := 0; i < 3; i++ {
			h.Tick(<-ch)
		}
		for { h.Tick(-1); ch2 := make(chan int); ch2 <- 1 }
	}()
	for i := 0; ; i++ {
		ch <- i
		h.Tick(i)
	}
}`},
	{Name: "blocked-recv", ChanInLit: true, Class: "chan", Full: true, Src: `package main
import "h"
func main() {
	ch := make(chan int)
	go func() {
		for i := 0; i < 4; i++ {
			ch <- i
		}
	}()
	for {
		v := <-ch
		h.Tick(v)
	}
}`},
	{Name: "blocked-recv-ok", ChanInLit: true, Class: "chan", Full: true, Src: `package main
import "h"
func main() {
	ch := make(chan int)
	go func() {
		for i := 0; i < 4; i++ {
			ch <- i
		}
	}()
	for {
		v, ok := <-ch
		if !ok {
			h.Tick(-1)
		}
		h.Tick(v)
	}
}`},
	{Name: "range-chan-pipeline", ChanInLit: true, Class: "chan", Full: true, Src: `package main
import "h"
func stage(in <-chan int, out chan<- int) {
	for v := range in {
		out <- v + 1
	}
	close(out)
}
func main() {
	a, b, c := make(chan int), make(chan int), make(chan int, 1)
	go stage(a, b)
	go stage(b, c)
	go func() {
		for i := 0; ; i++ {
			a <- i
		}
	}()
	for v := range c {
		h.Tick(v)
	}
}`},
	{Name: "select-blocked", ChanInLit: true, Class: "chan", Full: true, Src: `package main
import "h"
func main() {
	a, b := make(chan int), make(chan int)
	go func() {
		for i := 0; i < 3; i++ {
			a <- i
			b <- i
		}
	}()
	for {
		select {
		case v := <-a:
			h.Tick(v)
		case v := <-b:
			h.Tick(10 + v)
		}
	}
}`},
	{Name: "select-default", Class: "chan", Full: true, Src: `package main
import "h"
func main() {
	a := make(chan int, 1)
	n := 0
	for {
		select {
		case a <- n:
			n++
		case v := <-a:
			h.Tick(v)
		default:
			h.Tick(-1)
		}
	}
}`},
	{Name: "select-empty", Class: "chan", Full: true, Src: `package main
import "h"
func main() {
	go func() {
		for i := 0; ; i++ {
			h.Tick(i)
		}
	}()
	h.Tick(-1)
	select {}
}`},
	{Name: "deferred-cleanup", Class: "defer", Full: true, Src: `package main
import "h"
func cleanup() { h.Tick(-1); h.Tick(-2); h.Tick(-3) }
func restart() { go leaf(9) }
func leaf(id int) {
	for i := 0; ; i++ {
		h.Tick(id)
	}
}
func worker(id int) {
	defer cleanup()
	defer restart()
	for i := 0; ; i++ {
		h.Tick(id)
	}
}
func main() {
	go worker(1)
	worker(0)
}`},
	{Name: "host-callback", Class: "callback", Full: true, Src: `package main
import "h"
func visit(i int) { h.Tick(i); h.Tick(i + 100) }
type T struct{ n int }
func (t *T) Visit(i int) { t.n += i; h.Tick(t.n) }
func main() {
	t := &T{}
	for {
		h.Each(3, visit)
		h.Each(2, t.Visit)
	}
}`},
	{Name: "root-level-loop", Class: "root", Full: false, Pre: `import "h"`, Src: `n := 0
for {
	n++
	h.Tick(n)
}`},
	{Name: "root-level-funcs", ChanInLit: true, Class: "root", Full: false, Pre: `import "h"`, Src: `ch := make(chan int)
w := func(id int, ch chan int) { for i := 0; ; i++ { ch <- id; h.Tick(id) } }
go w(1, ch)
go w(2, ch)
for {
	h.Tick(<-ch)
}`},
	{Name: "root-level-chan", ChanInLit: true, Class: "root", Full: false, Pre: `import "h"`, Src: `ch := make(chan int)
go func() { for i := 0; i < 3; i++ { ch <- i } }()
for {
	h.Tick(<-ch)
}`},
}
