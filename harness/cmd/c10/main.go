// Check for property C10: a cancelled evaluation does not damage earlier definitions.
//
// Defs.tla generates the histories Define* ; (Use | CancelledEval)* with the value
// every use must return; each history is replayed on one fresh interpreter through
// the public API only. RunId.tla (mechanism level) is model-checked as a design: its
// counterexample to DefinitionsSurvive names the scenario behind the known findings.
package main

import (
	"bytes"
	"context"
	"encoding/json"
	"fmt"
	"io/fs"
	"reflect"
	"regexp"
	"runtime"
	"sort"
	"strings"
	"sync"
	"sync/atomic"
	"testing/fstest"
	"time"

	"github.com/traefik/yaegi/interp"
	"github.com/traefik/yaegi/stdlib"

	"verif/fw"
)

type step struct {
	Op   string `json:"op"`
	Kind string `json:"kind"`
	Via  string `json:"via"`
	What string `json:"what"`
	Ret  int    `json:"ret"`
}

type history struct {
	Kinds []string `json:"kinds"`
	Hist  []step   `json:"hist"`
}

// definition kinds: source of the successful evaluation that defines it, the
// expression a later Eval uses, the expression whose value the host keeps.
// blocking definitions wait for a value before they count: every call makes its own channel
// and its own feeder goroutine (so that a goroutine left behind by a cancelled call cannot take
// the value of a later one); the feeder is slow when the package variable slow<X> is set, which
// is what the cancelled evaluation does before it calls the definition. feed is evaluated
// before a use and makes the feeder fast again.
var feed = map[string]string{
	"selfn":  "slowSel = false",
	"sel2fn": "slowSel2 = false",
	"recvfn": "slowRecv = false",
}

var slowCall = map[string]string{
	"selfn":  "slowSel = true\nIncSel()",
	"sel2fn": "slowSel2 = true\nIncSel2()",
	"recvfn": "slowRecv = true\nIncRecv()",
}

func blockingDef(name, flag, counter, wait string) string {
	return "var " + flag + " bool\nvar " + counter + " int\nvar idle" + name + " = make(chan int)\nfunc " + name + "() int {\n\tc := make(chan int)\n\td := 2 * time.Millisecond\n\tif " + flag + " {\n\t\td = time.Hour\n\t}\n\tgo func() {\n\t\ttime.Sleep(d)\n\t\tc <- 1\n\t}()\n" + wait + "\treturn " + counter + "\n}"
}

var defs = map[string]struct{ src, call, value string }{
	"selfn":   {blockingDef("IncSel", "slowSel", "cSel", "\tselect {\n\tcase v := <-c:\n\t\tcSel += v\n\t}\n"), "IncSel()", "IncSel"},
	"sel2fn":  {blockingDef("IncSel2", "slowSel2", "cSel2", "\tselect {\n\tcase v := <-c:\n\t\tcSel2 += v\n\tcase v := <-idleIncSel2:\n\t\tcSel2 -= v\n\t}\n"), "IncSel2()", "IncSel2"},
	"recvfn":  {blockingDef("IncRecv", "slowRecv", "cRecv", "\tv := <-c\n\tcRecv += v\n"), "IncRecv()", "IncRecv"},
	"func":    {"var cFunc int\nfunc IncFunc() int { cFunc++; return cFunc }", "IncFunc()", "IncFunc"},
	"method":  {"type TM struct{ n int }\nfunc (t *TM) Inc() int { t.n++; return t.n }\nvar tm = &TM{}", "tm.Inc()", "tm.Inc"},
	"closure": {"var clo = func() func() int { c := 0; return func() int { c++; return c } }()", "clo()", "clo"},
	"mvalue":  {"type TV struct{ n int }\nfunc (t *TV) Inc() int { t.n++; return t.n }\nvar tv = &TV{}\nvar mv = tv.Inc", "mv()", "mv"},
	"litfunc": {"var cLit int\nvar lit = func() int { cLit++; return cLit }", "lit()", "lit"},
	"chanfn":  {"var chq = make(chan int, 1)\nvar cCh int\nfunc IncCh() int { cCh++; chq <- cCh; v := <-chq; return v }", "IncCh()", "IncCh"},
}

var cancelled = map[string]string{
	"busy":    "for {}",
	"blocked": "ch0 := make(chan int); <-ch0",
	"expired": "0",
}

// gateFS is the source file system of the interpreter: the packages slowpkg1..4 live in it, and the
// first access to the package named by arm blocks until release is closed ("compiling": an evaluation
// cancelled while its source is being loaded).
type gateFS struct {
	fs.FS
	mu      sync.Mutex
	arm     string
	reached chan struct{}
	release chan struct{}
}

func (g *gateFS) hold(name string) {
	g.mu.Lock()
	if g.arm == "" || !strings.Contains(name, g.arm) {
		g.mu.Unlock()
		return
	}
	g.arm = ""
	reached, release := g.reached, g.release
	g.mu.Unlock()
	close(reached)
	<-release
}

func (g *gateFS) Open(name string) (fs.File, error) {
	g.hold(name)
	return g.FS.Open(name)
}

func (g *gateFS) Stat(name string) (fs.FileInfo, error) {
	g.hold(name)
	return fs.Stat(g.FS, name)
}

func (g *gateFS) ReadDir(name string) ([]fs.DirEntry, error) {
	g.hold(name)
	return fs.ReadDir(g.FS, name)
}

func (g *gateFS) ReadFile(name string) ([]byte, error) {
	g.hold(name)
	return fs.ReadFile(g.FS, name)
}

type obs struct {
	Step    int    `json:"step"` // first failing step (1-based), 0 = history held
	Got     string `json:"got,omitempty"`
	Err     string `json:"err,omitempty"`
	Setup   string `json:"setup,omitempty"`
	Elapsed int64  `json:"ms"`
}

func replay(h history) (o obs) {
	t0 := time.Now()
	defer func() {
		o.Elapsed = time.Since(t0).Milliseconds()
		if r := recover(); r != nil {
			o.Err = fmt.Sprintf("panic escaped: %v", r)
			if o.Step == 0 {
				o.Step = -1
			}
		}
	}()
	mfs := fstest.MapFS{}
	for n := 1; n <= 6; n++ {
		mfs[fmt.Sprintf("gp/src/slowpkg%d/p.go", n)] = &fstest.MapFile{Data: []byte(fmt.Sprintf("package slowpkg%d\n\nvar X = %d\n", n, n))}
	}
	gate := &gateFS{FS: mfs}
	nslow := 0
	var parkedRelease chan struct{}
	defer func() {
		if parkedRelease != nil {
			close(parkedRelease)
		}
	}()
	i := interp.New(interp.Options{GoPath: "./gp", SourcecodeFilesystem: gate, Stdout: new(bytes.Buffer), Stderr: new(bytes.Buffer)})
	i.Use(stdlib.Symbols)
	host := map[string]func() int{}
	progs := map[string]*interp.Program{}
	kinds := append([]string(nil), h.Kinds...)
	sort.Strings(kinds)
	if _, err := i.Eval("import \"time\""); err != nil { // for the blocking definitions; imported once
		o.Setup = "import time: " + err.Error()
		return
	}
	for _, k := range kinds {
		d := defs[k]
		if _, err := i.Eval(d.src); err != nil {
			o.Setup = "define " + k + ": " + err.Error()
			return
		}
		v, err := i.Eval(d.value)
		if err != nil {
			o.Setup = "value of " + k + ": " + err.Error()
			return
		}
		f, ok := v.Interface().(func() int)
		if !ok {
			o.Setup = fmt.Sprintf("value of %s is %T", k, v.Interface())
			return
		}
		host[k] = f
		// the call compiled once, before the history begins
		pr, err := i.Compile(d.call)
		if err != nil {
			o.Setup = "compile of the call of " + k + ": " + err.Error()
			return
		}
		progs[k] = pr
	}
	for n, s := range h.Hist {
		if s.Op == "release" {
			// the goroutine left behind by the evaluation cancelled while loading goes on: it loads,
			// compiles and enters execution; it is given the time to end
			if parkedRelease != nil {
				close(parkedRelease)
				parkedRelease = nil
				time.Sleep(120 * time.Millisecond)
			}
			continue
		}
		if s.Op == "cancel" && s.What == "compiling" {
			if nslow++; nslow > 6 {
				continue
			}
			ctx, cancel := context.WithCancel(context.Background())
			gate.mu.Lock()
			gate.arm = fmt.Sprintf("slowpkg%d", nslow)
			gate.reached, gate.release = make(chan struct{}), make(chan struct{})
			reached := gate.reached
			parkedRelease = gate.release
			gate.mu.Unlock()
			res := make(chan error, 1)
			go func() {
				_, err := i.EvalWithContext(ctx, fmt.Sprintf("import \"slowpkg%d\"", nslow))
				res <- err
			}()
			select {
			case <-reached:
			case err := <-res:
				cancel()
				o.Step, o.Err = n+1, fmt.Sprintf("the evaluation did not reach the source file system: %v", err)
				return
			case <-time.After(10 * time.Second):
				cancel()
				o.Step, o.Err = n+1, "the evaluation did not reach the source file system within 10s"
				return
			}
			cancel()
			select {
			case err := <-res:
				if err == nil {
					o.Step, o.Err = n+1, "cancelled evaluation returned no error"
					return
				}
			case <-time.After(5 * time.Second):
				o.Step, o.Err = n+1, "cancelled evaluation did not return within 5s"
				return
			}
			continue
		}
		if s.Op == "cancel" {
			// cancel once the program has started executing (a cancellation that lands in
			// the compile phase is finding F-C09-1 and races with the next evaluation)
			ctx, cancel := context.WithCancel(context.Background())
			started := make(chan struct{})
			var once sync.Once
			stepHook.Store(&hook{i: i, f: func() { once.Do(func() { close(started) }) }})
			if s.What == "expired" {
				cancel()
			} else {
				go func() {
					select {
					case <-started:
						time.Sleep(3 * time.Millisecond)
					case <-time.After(5 * time.Second):
					}
					cancel()
				}()
			}
			prog := cancelled[s.What]
			if s.What == "indef" {
				prog = slowCall[s.Kind] // the feeder is slow: the definition waits until the cancellation
			}
			_, err := i.EvalWithContext(ctx, prog)
			cancel()
			stepHook.Store(nil)
			if err == nil && s.What != "expired" {
				o.Step, o.Err = n+1, "cancelled evaluation returned no error"
				return
			}
			// give the goroutine of the cancelled evaluation time to wind down (with an
			// already-expired context it may still be compiling: finding F-C09-1)
			if s.What == "expired" {
				time.Sleep(40 * time.Millisecond)
			} else {
				time.Sleep(10 * time.Millisecond)
			}
			continue
		}
		var got int
		var err error
		if f := feed[s.Kind]; f != "" {
			if _, ferr := i.Eval(f); ferr != nil {
				o.Step, o.Err = n+1, "feeding "+s.Kind+": "+firstLine(ferr.Error())
				return
			}
		}
		done := make(chan struct{})
		go func() {
			defer close(done)
			defer func() {
				if r := recover(); r != nil {
					err = fmt.Errorf("panic: %v", r)
				}
			}()
			switch s.Via {
			case "eval":
				var v reflect.Value
				if v, err = i.Eval(defs[s.Kind].call); err == nil {
					got = int(v.Int())
				}
			case "ctx":
				var v reflect.Value
				if v, err = i.EvalWithContext(context.Background(), defs[s.Kind].call); err == nil {
					got = int(v.Int())
				}
			case "host":
				got = host[s.Kind]()
			case "prog":
				var v reflect.Value
				if v, err = i.Execute(progs[s.Kind]); err == nil {
					got = int(v.Int())
				}
			case "progctx":
				var v reflect.Value
				if v, err = i.ExecuteWithContext(context.Background(), progs[s.Kind]); err == nil {
					got = int(v.Int())
				}
			}
		}()
		select {
		case <-done:
		case <-time.After(30 * time.Second):
			o.Step, o.Err = n+1, "use did not return within 30s"
			return
		}
		if err != nil {
			o.Step, o.Err = n+1, firstLine(err.Error())
			return
		}
		if got != s.Ret {
			o.Step, o.Got = n+1, fmt.Sprint(got)
			return
		}
	}
	return
}

func firstLine(s string) string {
	if i := strings.IndexByte(s, '\n'); i >= 0 {
		s = s[:i]
	}
	if len(s) > 100 {
		s = s[:100]
	}
	return s
}

type hook struct {
	i *interp.Interpreter
	f func()
}

var stepHook atomic.Pointer[hook]

type jobT struct {
	H []history `json:"h"`
}

func init() {
	interp.VerifStep = func(i *interp.Interpreter, iid, fid uint64, fr uintptr, root bool) {
		if h := stepHook.Load(); h != nil && h.i == i {
			h.f()
		}
	}
	fw.RegisterChild("c10", func(raw json.RawMessage) any {
		var j jobT
		json.Unmarshal(raw, &j)
		out := make([]obs, len(j.H))
		for x := range j.H {
			out[x] = replay(j.H[x])
		}
		// Goroutines of cancelled evaluations that never end (the known findings of C09 / C10) stay in this
		// process and keep a core busy each: the process asks to be replaced once a few of them are left over.
		time.Sleep(5 * time.Millisecond)
		return batchOut{Restart: runtime.NumGoroutine() > 10, Obs: out}
	})
}

// batchOut is what a child hands back for a batch of histories.
type batchOut struct {
	Restart bool  `json:"_restart"`
	Obs     []obs `json:"obs"`
}

func main() { fw.Main("C10", "model_checking", run) }

var reAction = regexp.MustCompile(`(?m)^State \d+: <(\w+)`)

func run(c *fw.Ctx) error {
	c.Rule = "one case = one history Define* ; (Use(kind, via) | CancelledEval(what))* replayed on a fresh interpreter; non-trivial when it contains a cancelled evaluation followed by at least one use; distinct by the sequence of steps"
	c.Assumptions = []string{
		"definitions are counters, so a call that silently did nothing is visible as a wrong return value",
		"host-held function values are obtained right after the definitions, before any cancellation",
		"a history is abandoned at its first failing step",
		"cancelled evaluations: busy loop and blocked channel receive cancelled 3 ms after their first interpreted operation (seen through the step hook); an import of a source package cancelled while the evaluation is held in the source file system (Options.SourcecodeFilesystem), its goroutine released by a later step of the history; already-cancelled context with a trivial expression (a program that keeps running there is finding F-C09-1 and would race with the next evaluation)",
	}
	var all []history
	if c.Replay != "" {
		var h history
		if err := c.LoadReplay(&h); err != nil {
			return err
		}
		all = []history{h}
	} else {
		// design-level: the mechanism as it is violates DefinitionsSurvive
		res, err := c.TLC(fw.TLCOpts{Dir: "spec/sess", Module: "RunId", Cfg: "RunId.E.cfg", Workers: 1, Timeout: 3 * time.Minute})
		if err != nil {
			return err
		}
		var acts []string
		for _, m := range reAction.FindAllStringSubmatch(res.Output, -1) {
			acts = append(acts, m[1])
		}
		if res.Violated == "" {
			return fmt.Errorf("RunId.tla (as is) is expected to violate DefinitionsSurvive")
		}
		c.Extra["design_model_checking"] = map[string]any{"cfg": "RunId.E.cfg", "violated": res.Violated, "counterexample": acts}
		add := func(r json.RawMessage) {
			var h history
			if json.Unmarshal(r, &h) == nil {
				all = append(all, h)
			}
		}
		kinds := []string{"func", "method", "closure", "mvalue", "litfunc", "chanfn", "selfn", "sel2fn", "recvfn"}
		maxLen := c.Pick(3, 4)
		for _, k := range kinds {
			cfg := fmt.Sprintf("SPECIFICATION Spec\nCONSTANTS Kinds = {%q} MaxLen = %d AllowAfterCancel = TRUE\nINVARIANTS UsesCountUp Emit\nPROPERTIES CancelIsStutter\n", k, maxLen)
			r, err := c.TLC(fw.TLCOpts{Dir: "spec/sess", Module: "Defs", Cfg: "gen.cfg", Files: map[string][]byte{"gen.cfg": []byte(cfg)}, Workers: 4, OnBeh: add, Timeout: 5 * time.Minute})
			if err != nil {
				return err
			}
			if r.Violated != "" {
				return fmt.Errorf("Defs.tla: %s", r.Violated)
			}
		}
		// seeded simulation: all kinds together, longer histories, known-fragile uses excluded
		nsim := c.Pick(150, 3000)
		simCfg := `SPECIFICATION SpecSim
CONSTANTS Kinds = {"func", "method", "closure", "mvalue", "litfunc", "chanfn", "selfn", "sel2fn", "recvfn"} MaxLen = 10 AllowAfterCancel = FALSE
INVARIANTS UsesCountUp Emit
`
		before := len(all)
		if _, err := c.TLC(fw.TLCOpts{Dir: "spec/sess", Module: "Defs", Cfg: "sim.cfg", Files: map[string][]byte{"sim.cfg": []byte(simCfg)},
			Simulate: true, Num: nsim, Depth: 11, Seed: c.Seed, OnBeh: add, Timeout: 5 * time.Minute}); err != nil {
			return err
		}
		c.States += int64(len(all)-before) * 10
		c.Transitions += int64(len(all)-before) * 10
	}
	const chunk = 12
	var jobs []any
	for x := 0; x < len(all); x += chunk {
		y := x + chunk
		if y > len(all) {
			y = len(all)
		}
		jobs = append(jobs, jobT{H: all[x:y]})
	}
	results := c.RunChildren("c10", jobs, 16, 600*time.Second, nil)
	for ji, r := range results {
		var os []obs
		if r.Out != nil {
			var bo batchOut
			json.Unmarshal(r.Out, &bo)
			os = bo.Obs
		}
		hs := jobs[ji].(jobT).H
		for x, h := range hs {
			key, _ := json.Marshal(h)
			nontriv := false
			seenCancel := false
			for _, s := range h.Hist {
				if s.Op == "cancel" {
					seenCancel = true
				} else if seenCancel {
					nontriv = true
				}
			}
			c.Count(string(key), nontriv)
			c.TracesVsImpl++
			if ji%40 == 0 && x == 0 {
				c.Sample(h)
			}
			if r.Out == nil || x >= len(os) {
				return fmt.Errorf("harness child %s", r.Describe())
			}
			o := os[x]
			if o.Setup != "" {
				return fmt.Errorf("definition failed on a fresh interpreter: %s", o.Setup)
			}
			if o.Step == 0 {
				continue
			}
			trig, mode := signature(h, o)
			c.Fail(trig, mode, map[string]any{"kinds": h.Kinds, "hist": h.Hist, "observed": o})
		}
	}
	return nil
}

// signature of a failing history: which kind of definition was used how, and what
// kinds of cancelled evaluations preceded the failing use.
func signature(h history, o obs) (string, string) {
	if o.Step < 1 || o.Step > len(h.Hist) {
		return "history", "harness: " + o.Err
	}
	s := h.Hist[o.Step-1]
	if s.Op == "cancel" {
		return "cancelled evaluation (" + s.What + ")", o.Err
	}
	whats := map[string]bool{}
	for _, p := range h.Hist[:o.Step-1] {
		if p.Op == "cancel" {
			whats[p.What] = true
		}
	}
	var ws []string
	for w := range whats {
		ws = append(ws, w)
	}
	sort.Strings(ws)
	prior := "no cancelled evaluation before"
	if len(ws) > 0 {
		prior = "after a cancelled evaluation"
	}
	// was there an uncancelled Eval between the last cancellation and this use?
	between := false
	for n := o.Step - 2; n >= 0; n-- {
		p := h.Hist[n]
		if p.Op == "cancel" {
			break
		}
		// (a released evaluation goes through its execution stage: an evaluation has completed)
		if p.Op == "release" || (p.Op == "use" && p.Via != "host") {
			between = true
		}
	}
	via := s.Via
	if via == "ctx" {
		via = "eval" // EvalWithContext that is not cancelled behaves as Eval for this purpose
	}
	trig := fmt.Sprintf("definition kind %s used via %s %s", s.Kind, via, prior)
	switch {
	case len(ws) > 0 && s.Via == "host" && !between:
		trig = "host-held function value called after a cancelled evaluation, before any further Eval has completed"
	case len(ws) > 0 && (s.Kind == "closure" || s.Kind == "litfunc"):
		trig = "function literal stored in a variable used after a cancelled evaluation"
	}
	mode := "wrong value"
	if o.Err != "" {
		mode = "error: " + o.Err
	} else if o.Got == "0" {
		mode = "returned the zero value, body not executed"
	}
	return trig, mode
}
