package main

// Sessions in which a LATER evaluation declares a method of a type that earlier evaluations
// have already asked about (spec/core/Late.tla). Every case is evaluated whole and as a
// session of four chunks, through Eval and through Compile + Execute; the answers must be
// those of the specification, which the natively built whole program validates.

import (
	"bytes"
	"encoding/json"
	"fmt"
	"strings"
	"time"

	"github.com/traefik/yaegi/interp"
	"github.com/traefik/yaegi/stdlib"

	"verif/fw"
)

type lateCase struct {
	Early string `json:"early"`
	Late  string `json:"late"`
	Hold  string `json:"hold"`
	Probe string `json:"probe"`
	Where string `json:"where"`
}

type lateBeh struct {
	Case     lateCase `json:"case"`
	Expected [][]any  `json:"expected"`
}

func (b lateBeh) want() string {
	var sb strings.Builder
	for _, e := range b.Expected {
		fmt.Fprintf(&sb, "%v %v\n", e[0], e[1])
	}
	return sb.String()
}

func recv(kind string) string {
	if kind == "ptr" {
		return "(r *T)"
	}
	return "(r T)"
}

// chunks of the session: declarations 1, holder and probe 2, the late method 3, the final questions 4.
// decl2 / stmt2: chunk 2 is a chunk of declarations or a chunk of statements (never both).
func (k lateCase) chunks() (c1, c2, c3, c4 string) {
	c1 = "import \"fmt\"\n\ntype T struct{ a int }\n\nfunc " + recv(k.Early) + " early() int { return r.a + 1 }\n\ntype E struct{ T }\n\n" +
		"type IE interface{ early() int }\n\ntype IL interface{ late() int }\n\n" +
		// the holder is a non-empty interface type: what an interface{} does to an interpreted value is F-C05-3
		"func (r T) base() int { return r.a }\n\ntype IB interface{ base() int }\n"
	holder := map[string]string{"val": "T{1}", "ptr": "&T{1}", "emb": "E{T{1}}"}[k.Hold]
	probe := ""
	switch k.Probe {
	case "assert":
		probe = "_, ok := x.(IE); return ok"
	case "switch":
		probe = "switch x.(type) { case IE: return true }; return false"
	}
	if k.Where == "varinit" || k.Probe == "none" {
		c2 = "var x IB = " + holder + "\n"
		if k.Probe != "none" {
			c2 += "\nvar e1 = func() bool { " + probe + " }()\n"
		}
	} else {
		c2 = "x := IB(" + holder + ")\ne1 := func() bool { " + probe + " }()\n"
	}
	c3 = "func " + recv(k.Late) + " late() int { return r.a + 2 }\n"
	c4 = ""
	if k.Probe != "none" {
		c4 += "fmt.Println(\"e\", e1)\n"
	}
	c4 += "_, l1 := x.(IL)\nfmt.Println(\"l\", l1)\nswitch x.(type) {\ncase IL:\n\tfmt.Println(\"s\", true)\ndefault:\n\tfmt.Println(\"s\", false)\n}\n"
	return
}

// whole is the same program in one piece.
func (k lateCase) whole() string {
	c1, c2, c3, c4 := k.chunks()
	indent := func(s string) string { return "\t" + strings.ReplaceAll(strings.TrimSuffix(s, "\n"), "\n", "\n\t") + "\n" }
	decls, body := c1+"\n"+c3, ""
	if strings.HasPrefix(c2, "var ") {
		decls += "\n" + c2
	} else {
		body += indent(c2)
	}
	body += indent(c4)
	return "package main\n\n" + decls + "\nfunc main() {\n" + body + "}\n"
}

type lateObs struct {
	Whole, Eval, Exec    string
	WholeE, EvalE, ExecE string
}

func lateRun(k lateCase) (o lateObs) {
	run := func(f func(i *interp.Interpreter) error) (string, string) {
		var out bytes.Buffer
		i := interp.New(interp.Options{Stdout: &out, Stderr: new(bytes.Buffer)})
		i.Use(stdlib.Symbols)
		e := ""
		func() {
			defer func() {
				if r := recover(); r != nil {
					e = fmt.Sprintf("Go panic escaped: %v", r)
				}
			}()
			if err := f(i); err != nil {
				e = firstLineOf(err.Error())
			}
		}()
		return out.String(), e
	}
	c1, c2, c3, c4 := k.chunks()
	o.Whole, o.WholeE = run(func(i *interp.Interpreter) error { _, err := i.Eval(k.whole()); return err })
	o.Eval, o.EvalE = run(func(i *interp.Interpreter) error {
		for _, c := range []string{c1, c2, c3, c4} {
			if _, err := i.Eval(c); err != nil {
				return err
			}
		}
		return nil
	})
	o.Exec, o.ExecE = run(func(i *interp.Interpreter) error {
		for _, c := range []string{c1, c2, c3, c4} {
			p, err := i.Compile(c)
			if err != nil {
				return err
			}
			if _, err := i.Execute(p); err != nil {
				return err
			}
		}
		return nil
	})
	return
}

func firstLineOf(s string) string {
	if i := strings.IndexByte(s, '\n'); i >= 0 {
		s = s[:i]
	}
	return s
}

func init() {
	fw.RegisterChild("c11late", func(raw json.RawMessage) any {
		var ks []lateCase
		json.Unmarshal(raw, &ks)
		out := make([]lateObs, len(ks))
		for x := range ks {
			out[x] = lateRun(ks[x])
		}
		return out
	})
}

// lateFamily enumerates Late.tla, validates it natively and replays every case.
func lateFamily(c *fw.Ctx, only *lateCase) error {
	var behs []lateBeh
	res, err := c.TLC(fw.TLCOpts{Dir: "spec/core", Module: "Late", Cfg: "Late.cfg", Workers: 1, Timeout: 3 * time.Minute,
		OnBeh: func(r json.RawMessage) {
			var b lateBeh
			if json.Unmarshal(r, &b) == nil {
				behs = append(behs, b)
			}
		}})
	if err != nil {
		return err
	}
	if res.Violated != "" {
		return fmt.Errorf("Late.tla: %s", res.Violated)
	}
	if only != nil {
		kept := behs[:0]
		for _, b := range behs {
			if b.Case == *only {
				kept = append(kept, b)
			}
		}
		if behs = kept; len(behs) == 0 {
			return fmt.Errorf("Late.tla does not enumerate the case of the replay file: %+v", *only)
		}
	}
	srcs := make([]string, len(behs))
	ks := make([]lateCase, len(behs))
	for i, b := range behs {
		srcs[i], ks[i] = b.Case.whole(), b.Case
	}
	nat := c.NativeBatch(srcs, 20*time.Second)
	for i, b := range behs {
		if !nat[i].BuildOK || nat[i].Stdout != b.want() {
			c.SpecError("Late.tla says %q for %+v, the compiled program prints %q (build ok: %v %s)", b.want(), b.Case, nat[i].Stdout, nat[i].BuildOK, nat[i].BuildErr)
			return nil
		}
		c.DisagreeChk++
	}
	rs := c.RunChildren("c11late", []any{ks}, 1, 120*time.Second, nil)
	var os []lateObs
	if rs[0].Out == nil || json.Unmarshal(rs[0].Out, &os) != nil || len(os) != len(behs) {
		return fmt.Errorf("late-method family: harness child %s", rs[0].Describe())
	}
	for i, b := range behs {
		o := os[i]
		key := fmt.Sprintf("late|%+v", b.Case)
		c.Count(key, true)
		c.TracesVsImpl++
		rep := map[string]any{"late": b.Case, "expected": b.want(), "observed": o, "whole_program": srcs[i]}
		trig := fmt.Sprintf("a later evaluation declares a method of a type asked about before (holder %s, probe %s in %s)", b.Case.Hold, b.Case.Probe, b.Case.Where)
		switch {
		case o.WholeE != "" || o.Whole != b.want():
			// the whole program itself departs from the specification: a matter for C05, not for the cut
			c.Extra["late_whole_program_deviates"] = fmt.Sprint(c.Extra["late_whole_program_deviates"], " ", key)
		case o.EvalE != "" || o.Eval != b.want():
			c.Fail(trig, "successive Eval calls answer differently from the whole program", rep)
		case o.ExecE != "" || o.Exec != b.want():
			c.Fail(trig, "Compile + Execute of the chunks answers differently from the whole program", rep)
		}
	}
	c.Extra["late_method_cases"] = len(behs)
	return nil
}
