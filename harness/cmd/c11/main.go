// Check for property C11: evaluating a program piecewise equals evaluating it whole.
// Session.tla (over GoGen/GoCore) generates a program, a cut of its items (declarations
// in dependency order, then the statements of main) and an entry point, and predicts
// the output accumulated after every chunk and the final globals; TLC checks on the
// model that the session semantics agrees with the whole-program semantics
// (CutIndependence). Every (program, cut, entry point) is replayed on one interpreter.
package main

import (
	"bytes"
	"encoding/json"
	"fmt"
	"go/parser"
	"os"
	"path/filepath"
	"reflect"
	"sort"
	"strings"
	"sync"
	"testing/fstest"
	"time"

	"github.com/traefik/yaegi/interp"
	"github.com/traefik/yaegi/stdlib"

	"verif/fw"
	"verif/gocore"
	"verif/gorun"
)

type beh struct {
	gocore.Beh
	Marks []int  `json:"marks"`
	Cut   []int  `json:"cut"`
	Entry string `json:"entry"`
}

type sessJob struct {
	Items  []string `json:"items"` // declarations, then statements of main
	NDecl  int      `json:"ndecl"`
	Cut    []int    `json:"cut"` // a cut after item k (1-based) for each k listed
	Entry  string   `json:"entry"`
	Whole  string   `json:"whole"`  // the program as one source file
	Expect []string `json:"expect"` // expected accumulated stdout after each item
	Dir    string   `json:"dir"`    // scratch directory for the on-disk entry point
}

type sessObs struct {
	Chunk   int               `json:"chunk"` // first chunk (1-based) at which something differs, 0 = none
	What    string            `json:"what,omitempty"`
	Stdout  string            `json:"stdout"`
	Globals map[string]string `json:"globals"`
}

const ndecl = 7

func items(p *gocore.Prog) []string {
	pre := p.PreludeSrc()
	// the prelude is cut into its declarations
	type0 := gocore.TypeDecl
	vars := p.VarDecls()
	helpers := pre[strings.Index(pre, "func helper()"):]
	fd := p.FuncDecls()
	fi := strings.Index(fd, "func f(")
	gi := strings.Index(fd, "func g(")
	ti := strings.Index(fd, "func two(")
	its := []string{"import \"fmt\"\n", type0, vars, helpers, fd[gi:ti], fd[ti:], fd[fi:gi]}
	return append(its, p.MainStmts()...)
}

func globalsOf(i *interp.Interpreter) map[string]string {
	out := map[string]string{}
	for k, v := range i.Globals() {
		switch k {
		case "g0", "g1", "t", "arr":
			if v.IsValid() {
				out[k] = fmt.Sprint(v)
			}
		case "ga", "gaa": // the array of the model, held by a struct or an array variable (gocore.ArrName)
			if v.IsValid() {
				out["arr"] = strings.TrimSuffix(strings.TrimPrefix(strings.TrimPrefix(fmt.Sprint(v), "{"), "[["), "}")
				if k == "gaa" {
					out["arr"] = "[" + strings.TrimSuffix(out["arr"], "]]") + "]"
				}
			}
		}
	}
	return out
}

func runSession(j sessJob) (o sessObs) {
	var out bytes.Buffer
	opts := interp.Options{Stdout: &out, Stderr: new(bytes.Buffer)}
	var i *interp.Interpreter
	mk := func() {
		i = interp.New(opts)
		i.Use(stdlib.Symbols)
	}
	defer func() {
		if r := recover(); r != nil {
			o.Chunk, o.What = -1, fmt.Sprintf("Go panic escaped: %v", r)
		}
		o.Stdout = out.String()
	}()
	whole := func(err error) sessObs {
		if err != nil {
			return sessObs{Chunk: 1, What: "error: " + err.Error()}
		}
		return sessObs{Globals: globalsOf(i)}
	}
	switch j.Entry {
	case "whole-eval":
		mk()
		_, err := i.Eval(j.Whole)
		return whole(err)
	case "whole-compile-ast":
		mk()
		fset := i.FileSet()
		f, err := parser.ParseFile(fset, "main.go", j.Whole, 0)
		if err != nil {
			return sessObs{Chunk: -1, What: "go/parser: " + err.Error()}
		}
		prog, err := i.CompileAST(f)
		if err != nil {
			return whole(err)
		}
		_, err = i.Execute(prog)
		return whole(err)
	case "whole-evalpath-mapfs":
		opts.SourcecodeFilesystem = fstest.MapFS{"main.go": &fstest.MapFile{Data: []byte(j.Whole)}}
		mk()
		_, err := i.EvalPath("main.go")
		return whole(err)
	case "files-evalpath-mapfs", "files-evalpath-disk":
		files := splitFiles(j)
		if j.Entry == "files-evalpath-mapfs" {
			mfs := fstest.MapFS{}
			for name, src := range files {
				mfs["gp/src/m/"+name] = &fstest.MapFile{Data: []byte(src)}
			}
			opts.SourcecodeFilesystem = mfs
			opts.GoPath = "./gp"
			mk()
			_, err := i.EvalPath("m")
			return whole(err)
		}
		dir := filepath.Join(j.Dir, "gp", "src", "m")
		if err := os.MkdirAll(dir, 0o755); err != nil {
			return sessObs{Chunk: -1, What: err.Error()}
		}
		for name, src := range files {
			if err := os.WriteFile(filepath.Join(dir, name), []byte(src), 0o644); err != nil {
				return sessObs{Chunk: -1, What: err.Error()}
			}
		}
		opts.GoPath = filepath.Join(j.Dir, "gp")
		mk()
		_, err := i.EvalPath("m")
		return whole(err)
	case "whole-evalpath-disk":
		p := filepath.Join(j.Dir, "main.go")
		if err := os.WriteFile(p, []byte(j.Whole), 0o644); err != nil {
			return sessObs{Chunk: -1, What: err.Error()}
		}
		mk()
		_, err := i.EvalPath(p)
		return whole(err)
	}
	// piecewise
	first := 1
	if strings.HasPrefix(j.Entry, "path-then") {
		// the declarations as one file through EvalPath, the statements as chunks afterwards
		decl := "package main\n\n" + strings.Join(j.Items[:j.NDecl], "\n")
		opts.SourcecodeFilesystem = fstest.MapFS{"main.go": &fstest.MapFile{Data: []byte(decl)}}
		mk()
		if _, err := i.EvalPath("main.go"); err != nil {
			return sessObs{Chunk: 1, What: "error: " + firstLine(err.Error()) + " in the declarations file"}
		}
		first = j.NDecl + 1
	} else {
		mk()
	}
	cut := map[int]bool{}
	for _, k := range j.Cut {
		cut[k] = true
	}
	cut[j.NDecl] = true // a chunk is either declarations or statements
	cut[len(j.Items)] = true
	var chunk strings.Builder
	n := 0
	for k := first; k <= len(j.Items); k++ {
		chunk.WriteString(j.Items[k-1])
		if !cut[k] {
			continue
		}
		n++
		var err error
		if j.Entry == "compile-execute" || j.Entry == "path-then-compile" {
			var prog *interp.Program
			if prog, err = i.Compile(chunk.String()); err == nil {
				_, err = i.Execute(prog)
			}
		} else {
			_, err = i.Eval(chunk.String())
		}
		if err != nil {
			return sessObs{Chunk: n, What: "error: " + firstLine(err.Error()) + " in chunk:\n" + chunk.String()}
		}
		if out.String() != j.Expect[k-1] {
			return sessObs{Chunk: n, What: "accumulated output differs after chunk:\n" + chunk.String()}
		}
		chunk.Reset()
	}
	return sessObs{Globals: globalsOf(i)}
}

// DepLine is what the extra declarations of the files-* entry points print before main runs:
// a package variable declared in the file that sorts first, whose initialiser depends on
// variables declared in files that sort later (1 + 10*2 + 100*6 + 1000*4).
const DepLine = "dep 4621\n"

// splitFiles distributes the declaration items over up to three files of package main: the
// cut decides which consecutive items share a file, and later items go to files whose names
// sort earlier. a.go holds a variable that depends on the globals declared elsewhere.
func splitFiles(j sessJob) map[string]string {
	cut := map[int]bool{}
	for _, k := range j.Cut {
		cut[k] = true
	}
	names := []string{"d.go", "c.go", "b.go"}
	bodies := make([]string, 3)
	fi := 0
	for k := 2; k <= j.NDecl; k++ { // item 1 is the import
		bodies[fi%3] += j.Items[k-1] + "\n"
		if cut[k] {
			fi++
		}
	}
	var mainBody strings.Builder
	mainBody.WriteString("func main() {\n")
	for _, it := range j.Items[j.NDecl:] {
		mainBody.WriteString(it)
	}
	mainBody.WriteString("}\n")
	bodies[len(j.Cut)%3] += mainBody.String()
	head := "package main\n\nimport \"fmt\"\n\nvar _ = fmt.Sprint\n\n"
	an := "arr" // gocore.ArrName of the program, read off its variable declarations (item 3)
	switch {
	case strings.Contains(j.Items[2], "var ga ="):
		an = "ga.arr"
	case strings.Contains(j.Items[2], "var gaa ="):
		an = "gaa[0]"
	}
	files := map[string]string{
		"a.go": head + "var dep0 = g0 + 10*g1 + 100*" + an + "[1] + 1000*t.b\n\nfunc init() { fmt.Println(\"dep\", dep0) }\n",
	}
	for k, b := range bodies {
		if b != "" {
			files[names[k]] = head + b
		}
	}
	return files
}

func firstLine(s string) string {
	if i := strings.IndexByte(s, '\n'); i >= 0 {
		s = s[:i]
	}
	return s
}

func init() {
	fw.RegisterChild("c11r", func(raw json.RawMessage) any {
		var hs []redefBeh
		json.Unmarshal(raw, &hs)
		out := make([]redefObs, len(hs))
		for x := range hs {
			out[x] = replayRedef(hs[x])
		}
		return out
	})
	gorun.Register()
	fw.RegisterChild("c11", func(raw json.RawMessage) any {
		var js []sessJob
		json.Unmarshal(raw, &js)
		out := make([]sessObs, len(js))
		for x := range js {
			done := make(chan struct{})
			go func() { defer close(done); out[x] = runSession(js[x]) }()
			select {
			case <-done:
			case <-time.After(20 * time.Second):
				out[x] = sessObs{Chunk: -1, What: "timeout"}
			}
		}
		return out
	})
}

func main() { fw.Main("C11", "model_checking", run) }

// ---- redefinition histories (spec/core/Redef.tla) ----

type redefStep struct {
	Op      string `json:"op"`
	V       int    `json:"v"`
	Allowed []int  `json:"allowed"`
}

type redefBeh struct {
	Hist []redefStep `json:"hist"`
}

type redefObs struct {
	Step int    `json:"step"` // first failing step, 0 = none
	What string `json:"what,omitempty"`
}

// replayRedef replays a history twice: with plain functions, and with f and g spelled as generic functions
// instantiated at one type (func f[T any](d T) int, used as f(0)): the history and its meaning are the same,
// the interpreter keeps instances of generic functions in a table of its own.
func replayRedef(h redefBeh) (o redefObs) {
	if o = replayRedefAs(h, false); o.Step != 0 {
		return o
	}
	if o = replayRedefAs(h, true); o.Step != 0 {
		o.What = "generic spelling: " + o.What
	}
	return o
}

func replayRedefAs(h redefBeh, generic bool) (o redefObs) {
	tp, arg := "", ""
	if generic {
		tp, arg = "[T any](d T)", "0"
	} else {
		tp = "()"
	}
	defer func() {
		if r := recover(); r != nil {
			o = redefObs{Step: -1, What: fmt.Sprintf("Go panic escaped: %v", r)}
		}
	}()
	i := interp.New(interp.Options{Stdout: new(bytes.Buffer), Stderr: new(bytes.Buffer)})
	i.Use(stdlib.Symbols)
	xDeclared := false
	for n, st := range h.Hist {
		src := ""
		switch st.Op {
		case "DefF":
			src = fmt.Sprintf("func f%s int { return %d }", tp, st.V)
		case "DefG":
			src = fmt.Sprintf("func g%s int { return %d }", tp, st.V)
		case "DefC":
			src = "func c() int { return f(" + arg + ") + 10 }"
		case "SetX":
			if xDeclared {
				src = fmt.Sprintf("x = %d", st.V)
			} else {
				src = fmt.Sprintf("var x = %d", st.V)
				xDeclared = true
			}
		case "UseF":
			src = "f(" + arg + ")"
		case "UseG":
			src = "g(" + arg + ")"
		case "UseC":
			src = "c()"
		case "UseX":
			src = "x"
		}
		v, err := i.Eval(src)
		if err != nil {
			return redefObs{Step: n + 1, What: "error: " + firstLine(err.Error())}
		}
		if len(st.Allowed) > 0 {
			if !v.IsValid() || !v.CanInt() {
				return redefObs{Step: n + 1, What: "no integer value returned"}
			}
			ok := false
			for _, a := range st.Allowed {
				if int(v.Int()) == a {
					ok = true
				}
			}
			if !ok {
				return redefObs{Step: n + 1, What: fmt.Sprintf("returned %d", v.Int())}
			}
		}
	}
	return redefObs{}
}

func redefinitions(c *fw.Ctx) error {
	var behs []redefBeh
	cfg := fmt.Sprintf("SPECIFICATION Spec\nCONSTANTS MaxLen = %d\nINVARIANTS CallerSeesCurrentOrOlder Emit\nPROPERTIES OnlyThatSymbol\n", c.Pick(4, 5))
	res, err := c.TLC(fw.TLCOpts{Dir: "spec/core", Module: "Redef", Cfg: "gen.cfg", Files: map[string][]byte{"gen.cfg": []byte(cfg)}, Workers: 4, Timeout: 5 * time.Minute,
		OnBeh: func(r json.RawMessage) {
			var b redefBeh
			if json.Unmarshal(r, &b) == nil {
				behs = append(behs, b)
			}
		}})
	if err != nil {
		return err
	}
	if res.Violated != "" {
		return fmt.Errorf("Redef.tla: %s", res.Violated)
	}
	const chunk = 200
	var jobs []any
	for x := 0; x < len(behs); x += chunk {
		y := x + chunk
		if y > len(behs) {
			y = len(behs)
		}
		jobs = append(jobs, behs[x:y])
	}
	for ji, r := range c.RunChildren("c11r", jobs, 16, 120*time.Second, nil) {
		var os []redefObs
		if r.Out == nil || json.Unmarshal(r.Out, &os) != nil {
			return fmt.Errorf("redefinition replay: harness child %s", r.Describe())
		}
		for x, o := range os {
			h := behs[ji*chunk+x]
			key, _ := json.Marshal(h)
			c.Count("redef:"+string(key), true)
			c.TracesVsImpl++
			if o.Step != 0 {
				op := "?"
				if o.Step > 0 && o.Step <= len(h.Hist) {
					op = h.Hist[o.Step-1].Op
				}
				c.Fail("redefinition history, failing step "+op, stripPos(o.What), map[string]any{"redef": h, "observed": o})
			}
		}
	}
	return nil
}

func run(c *fw.Ctx) error {
	c.Rule = "one case = (random GoCore program without top-level deferred calls that ends normally, cut of its 7 declaration items + main statements, entry point); non-trivial when the cut makes at least 3 chunks or the entry point is not Eval; distinct by (source, cut, entry)"
	c.Assumptions = []string{
		"a chunk holds either declarations or statements (the interactive parser decides by the first token), so every cut separates the declarations from the statements of main",
		"sessions never define func main (a later Eval would run it again - outside this property)",
		"Globals() is compared on the model's package-level variables g0 g1 t arr, printed with fmt.Sprint (g0 is left out when a top-level statement of main declares a local g0: at the root level of a session that is a new symbol of that name; the package variable is then observed through printg() only)",
	}
	var behs []beh
	if c.Replay != "" {
		var lr struct {
			Late *lateCase `json:"late"`
		}
		if c.LoadReplay(&lr) == nil && lr.Late != nil {
			return lateFamily(c, lr.Late)
		}
		var b beh
		if err := c.LoadReplay(&b); err != nil {
			return err
		}
		behs = []beh{b}
	} else {
		// pinned witness of the known finding (its construct is excluded from the random grammar)
		wres, err := c.TLC(fw.TLCOpts{Dir: "spec/core", Module: "Session", Cfg: "wit.cfg", Workers: 1, Timeout: 3 * time.Minute,
			Files: map[string][]byte{"wit.cfg": []byte("SPECIFICATION SpecSessWit\nCONSTANTS Profile = \"session\" Pinned = TRUE FamN = 1 FamFaults = {}\nINVARIANTS StatusOK CutIndependence SameEnd EmitSess\n")},
			OnBeh: func(r json.RawMessage) {
				var b beh
				if json.Unmarshal(r, &b) == nil {
					behs = append(behs, b)
				}
			}})
		if err != nil {
			return err
		}
		if wres.Violated != "" {
			return fmt.Errorf("model-level property violated on the witness: %s", wres.Violated)
		}
		// directed family: function literals created in a loop at the global scope
		fres, err := c.TLC(fw.TLCOpts{Dir: "spec/core", Module: "Session", Cfg: "fam.cfg", Workers: 1, Timeout: 3 * time.Minute,
			Files: map[string][]byte{"fam.cfg": []byte("SPECIFICATION SpecSessFam\nCONSTANTS Profile = \"session\" Pinned = TRUE FamN = 1 FamFaults = {}\nINVARIANTS StatusOK CutIndependence SameEnd EmitSess\n")},
			OnBeh: func(r json.RawMessage) {
				var b beh
				if json.Unmarshal(r, &b) == nil {
					behs = append(behs, b)
				}
			}})
		if err != nil {
			return err
		}
		if fres.Violated != "" {
			return fmt.Errorf("model-level property violated on the directed family: %s", fres.Violated)
		}
		cfg := "SPECIFICATION SpecSess\nCONSTANTS Profile = \"session\" Pinned = FALSE FamN = 1 FamFaults = {}\nINVARIANTS StatusOK CutIndependence SameEnd EmitSess\n"
		var mu sync.Mutex
		var wg sync.WaitGroup
		jv := c.Pick(6, 14)
		errs := make([]error, jv)
		for j := 0; j < jv; j++ {
			wg.Add(1)
			go func(j int) {
				defer wg.Done()
				res, err := c.TLC(fw.TLCOpts{Dir: "spec/core", Module: "Session", Cfg: "gen.cfg", Files: map[string][]byte{"gen.cfg": []byte(cfg)},
					Simulate: true, Num: c.Pick(8, 60), Depth: 50, Seed: c.Seed*100 + int64(j), HeapMB: 2000, Timeout: 10 * time.Minute,
					OnBeh: func(r json.RawMessage) {
						var b beh
						if json.Unmarshal(r, &b) == nil {
							mu.Lock()
							behs = append(behs, b)
							mu.Unlock()
						}
					}})
				if err == nil && res.Violated != "" {
					err = fmt.Errorf("model-level property violated: %s", res.Violated)
				}
				errs[j] = err
			}(j)
		}
		wg.Wait()
		for _, e := range errs {
			if e != nil {
				return e
			}
		}
		c.States += int64(jv * c.Pick(8, 60) * 50)
		c.Transitions += int64(jv * c.Pick(8, 60) * 50)
	}
	if c.Replay == "" {
		if err := redefinitions(c); err != nil {
			return err
		}
		if err := lateFamily(c, nil); err != nil {
			return err
		}
	}
	// The property compares the interpreter with itself; a program on which the whole
	// evaluation already departs from the specification is a matter for C01, not for C11.
	{
		srcs := make([]string, len(behs))
		for i := range behs {
			srcs[i] = behs[i].Prog.Source()
		}
		obs := gorun.EvalAll(c, srcs)
		kept := behs[:0]
		skipped := 0
		for i := range behs {
			if behs[i].Agrees(obs[i]) {
				kept = append(kept, behs[i])
			} else {
				skipped++
			}
		}
		behs = kept
		c.Extra["programs_skipped_because_whole_evaluation_departs_from_spec_C01"] = skipped
	}
	// build the session jobs
	disk, err := os.MkdirTemp(c.Scratch, "disk-")
	if err != nil {
		return err
	}
	var jobs []sessJob
	for bi := range behs {
		b := &behs[bi]
		its := items(&b.Prog)
		lines := strings.SplitAfter(b.ExpectedStdout(), "\n")
		exp := make([]string, len(its))
		for k := range its {
			if k >= ndecl && k-ndecl < len(b.Marks) {
				exp[k] = strings.Join(lines[:b.Marks[k-ndecl]], "")
			}
		}
		d := filepath.Join(disk, fmt.Sprint(bi))
		os.MkdirAll(d, 0o755)
		jobs = append(jobs, sessJob{Items: its, NDecl: ndecl, Cut: b.Cut, Entry: b.Entry, Whole: b.Prog.Source(), Expect: exp, Dir: d})
	}
	const chunk = 25
	var cj []any
	for x := 0; x < len(jobs); x += chunk {
		y := x + chunk
		if y > len(jobs) {
			y = len(jobs)
		}
		cj = append(cj, jobs[x:y])
	}
	for ji, r := range c.RunChildren("c11", cj, 16, 180*time.Second, nil) {
		var os []sessObs
		if r.Out == nil || json.Unmarshal(r.Out, &os) != nil {
			return fmt.Errorf("harness child %s", r.Describe())
		}
		for x, o := range os {
			bi := ji*chunk + x
			b := &behs[bi]
			j := jobs[bi]
			sort.Ints(b.Cut)
			key := fmt.Sprintf("%s|%v|%s", j.Whole, b.Cut, b.Entry)
			c.Count(key, len(b.Cut) >= 2 || b.Entry != "eval")
			c.TracesVsImpl++
			if bi%400 == 0 {
				c.Sample(map[string]any{"items": j.Items, "cut_after_items": b.Cut, "entry": b.Entry, "expected_stdout": b.ExpectedStdout(), "expected_globals": b.Globals})
			}
			want := map[string]string{"g0": fmt.Sprint(b.Globals[0]), "g1": fmt.Sprint(b.Globals[1]),
				"t": fmt.Sprintf("{%d %d}", b.Globals[2], b.Globals[3]), "arr": fmt.Sprintf("[%d %d]", b.Globals[4], b.Globals[5])}
			rep := map[string]any{"prog": b.Prog, "out": b.Out, "status": b.Status, "pval": b.Pval, "globals": b.Globals, "steps": b.Steps,
				"marks": b.Marks, "cut": b.Cut, "entry": b.Entry, "items": j.Items, "observed": o, "expected_stdout": b.ExpectedStdout(), "expected_globals": want}
			form := "piecewise"
			wantOut := b.ExpectedStdout()
			if strings.HasPrefix(b.Entry, "whole") {
				form = "whole"
			}
			if strings.HasPrefix(b.Entry, "files") {
				form = "files"
				wantOut = DepLine + wantOut
				rep["expected_stdout"] = wantOut
				rep["files"] = splitFiles(j)
			}
			trig := "session " + form + " entry " + b.Entry
			if len(shadowed(&b.Prog, map[string]string{"g0": ""})) == 0 {
				trig += ", a top-level statement of main declares a local named like a package variable"
			}
			if b.Prog.Name != "" {
				trig = "witness:" + b.Prog.Name
			}
			switch {
			case o.Chunk != 0:
				mode := o.What
				if i := strings.Index(mode, " in chunk:"); i >= 0 {
					mode = mode[:i]
				}
				if i := strings.Index(mode, " after chunk:"); i >= 0 {
					mode = mode[:i]
				}
				if b.Prog.Name != "" && strings.HasPrefix(mode, "accumulated output differs") {
					// a pinned witness is pinned with what it prints: another wrong output is another failure
					mode += ": " + strings.ReplaceAll(strings.TrimSpace(o.Stdout), "\n", " / ")
				}
				c.Fail(trig, stripPos(mode), rep)
			case o.Stdout != wantOut:
				c.Fail(trig, "final output differs", rep)
			case form != "files" && !reflect.DeepEqual(shadowed(&b.Prog, o.Globals), shadowed(&b.Prog, want)):
				// (Globals() lists the package evaluated by name "main": a package directory evaluated with
				// EvalPath is not reported there; its final state is what the last line of main prints)
				c.Fail(trig, "final globals differ", rep)
			}
		}
	}
	return nil
}

// shadowed drops g0 from a Globals() view when a top-level statement of main declares a local of
// that name: evaluated as a chunk at the root level, the declaration makes a new symbol g0 (what
// Globals() then shows), while the package variable - which the functions declared before keep
// using and printg() prints - is not reachable by name any more. The output decides for it.
func shadowed(p *gocore.Prog, g map[string]string) map[string]string {
	for _, s := range p.Main {
		if s.K == "def" && s.X() == "g0" {
			r := map[string]string{}
			for k, v := range g {
				if k != "g0" {
					r[k] = v
				}
			}
			return r
		}
	}
	return g
}

// stripPos removes "N:M: " positions from an error text.
func stripPos(s string) string {
	f := strings.Fields(s)
	for i, w := range f {
		if strings.Count(w, ":") >= 2 && strings.HasSuffix(w, ":") && w[0] >= '0' && w[0] <= '9' {
			f[i] = ""
		}
	}
	return strings.Join(strings.Fields(strings.Join(f, " ")), " ")
}
