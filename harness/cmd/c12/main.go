// Check for property C12: ill-typed programs are rejected before anything runs.
// TypeRules.tla enumerates the complete table (syntactic context x operand types) with
// the verdict the language specification assigns; every case is rendered as a minimal
// program whose package initialisation and main both start by printing a marker.
// go/types validates the verdict of the specification on every case. The interpreter
// must return an error for every "err" case with not a single byte printed, and must
// compile every "ok" case.
package main

import (
	"bytes"
	"encoding/json"
	"fmt"
	"go/ast"
	"go/importer"
	"go/parser"
	"go/token"
	"go/types"
	"os"
	"strings"
	"testing/fstest"
	"time"

	"github.com/traefik/yaegi/interp"
	"github.com/traefik/yaegi/stdlib"

	"verif/fw"
)

type kase struct {
	Ctx     string `json:"ctx"`
	A       string `json:"a"`
	AK      string `json:"ak"`
	B       string `json:"b"`
	BK      string `json:"bk"`
	Verdict string `json:"verdict"`
}

func untyped(k string) bool {
	switch k {
	case "uint_", "ufloat", "ustr", "ubool", "nil":
		return true
	}
	return false
}

const header = `package main

import "fmt"

type MyInt int
type Sink chan<- int
type Sink2 Sink
type Src <-chan int
type Src2 Src
type MySl []int
type MyMap map[string]int
type PS *S
type S struct{ A int }
type I interface{ M() }
type TI struct{ B int }

func (TI) M() {}

var _, _ = fmt.Println("INIT")

func use(a ...interface{}) {}
func one() int           { return 1 }
func pair() (int, int)   { return 1, 2 }
`

// render returns the program of a case.
func (k kase) render() string {
	var decl, body strings.Builder
	y := "y"
	declY := func(w *strings.Builder) {
		if untyped(k.BK) {
			y = k.B
		} else {
			fmt.Fprintf(w, "\tvar y %s\n\tuse(y)\n", k.B)
		}
	}
	if strings.HasPrefix(k.Ctx, "complit-") {
		// a composite literal of CompLit.tla (k.A is its text) at the place k.B
		decl.WriteString("type P struct{ X, Y int }\n")
		switch k.B {
		case "define":
			fmt.Fprintf(&body, "\tx := %s\n\tuse(x)\n", k.A)
		case "pkgvar":
			fmt.Fprintf(&decl, "var gx = %s\n", k.A)
			body.WriteString("\tuse(gx)\n")
		case "arg":
			fmt.Fprintf(&body, "\tuse(%s)\n", k.A)
		case "return":
			fmt.Fprintf(&decl, "func rl() interface{} {\n\treturn %s\n}\n", k.A)
			body.WriteString("\tuse(rl())\n")
		case "nested":
			fmt.Fprintf(&body, "\tx := []interface{}{1, %s}\n\tuse(x)\n", k.A)
		case "unused-func":
			fmt.Fprintf(&decl, "func never() {\n\tx := %s\n\tuse(x)\n}\n", k.A)
		}
		return header + decl.String() + "\nfunc main() {\n\tfmt.Println(\"MAIN\")\n" + body.String() + "}\n"
	}
	switch k.Ctx {
	case "assign":
		fmt.Fprintf(&body, "\tvar x %s\n", k.A)
		declY(&body)
		fmt.Fprintf(&body, "\tx = %s\n\tuse(x)\n", y)
	case "tuple-assign":
		fmt.Fprintf(&body, "\tvar x %s\n\tvar z int\n", k.A)
		declY(&body)
		fmt.Fprintf(&body, "\tx, z = %s, 1\n\tuse(x, z)\n", y)
	case "tuple-assign-mid":
		fmt.Fprintf(&body, "\tvar x %s\n\tvar w, z int\n", k.A)
		declY(&body)
		fmt.Fprintf(&body, "\tw, x, z = 2, %s, 1\n\tuse(w, x, z)\n", y)
	case "tuple-vardecl":
		declY(&body)
		t := k.A
		if strings.ContainsAny(t, "*<( ") || strings.HasPrefix(t, "func") {
			t = "(" + t + ")"
		}
		fmt.Fprintf(&body, "\tvar x, z %s = %s, *new%s\n\tuse(x, z)\n", k.A, y, "("+k.A+")")
		_ = t
	case "tuple-return":
		var in strings.Builder
		declY(&in)
		fmt.Fprintf(&decl, "func fr2() (%s, int) {\n%s\treturn %s, 1\n}\n", k.A, in.String(), y)
		body.WriteString("\tuse(fr2())\n")
	case "tuple-arg":
		fmt.Fprintf(&decl, "func fa2(p %s, q int) {}\n", k.A)
		declY(&body)
		fmt.Fprintf(&body, "\tfa2(%s, 1)\n", y)
	case "vardecl":
		declY(&body)
		fmt.Fprintf(&body, "\tvar x %s = %s\n\tuse(x)\n", k.A, y)
	case "arg":
		fmt.Fprintf(&decl, "func fa(p %s) {}\n", k.A)
		declY(&body)
		fmt.Fprintf(&body, "\tfa(%s)\n", y)
	case "return":
		var in strings.Builder
		declY(&in)
		fmt.Fprintf(&decl, "func fr() %s {\n%s\treturn %s\n}\n", k.A, in.String(), y)
		body.WriteString("\tuse(fr())\n")
	case "slice-elem":
		declY(&body)
		fmt.Fprintf(&body, "\tuse([]%s{%s})\n", k.A, y)
	case "map-value":
		declY(&body)
		fmt.Fprintf(&body, "\tuse(map[string]%s{\"k\": %s})\n", k.A, y)
	case "struct-field":
		declY(&body)
		fmt.Fprintf(&body, "\tuse(struct{ F %s }{F: %s})\n", k.A, y)
	case "send-value":
		declY(&body)
		fmt.Fprintf(&body, "\tc := make(chan (%s), 1)\n\tc <- %s\n", k.A, y)
	case "convert":
		declY(&body)
		t := k.A
		if strings.ContainsAny(t, "*<( ") || strings.HasPrefix(t, "func") {
			t = "(" + t + ")"
		}
		fmt.Fprintf(&body, "\tuse(%s(%s))\n", t, y)
	case "+", "<", "&&", "==":
		x := "x"
		if untyped(k.AK) {
			x = k.A
		} else {
			fmt.Fprintf(&body, "\tvar x %s\n\tuse(x)\n", k.A)
		}
		declY(&body)
		if untyped(k.AK) && untyped(k.BK) {
			fmt.Fprintf(&body, "\tconst k = %s %s %s\n", x, k.Ctx, y)
		} else {
			fmt.Fprintf(&body, "\t_ = %s %s %s\n", x, k.Ctx, y)
		}
	case "min", "max":
		x := "x"
		if untyped(k.AK) {
			x = k.A
		} else {
			fmt.Fprintf(&body, "\tvar x %s\n\tuse(x)\n", k.A)
		}
		declY(&body)
		if untyped(k.AK) && untyped(k.BK) {
			fmt.Fprintf(&body, "\tconst k = %s(%s, %s)\n", k.Ctx, x, y)
		} else {
			fmt.Fprintf(&body, "\t_ = %s(%s, %s)\n", k.Ctx, x, y)
		}
	case "clear":
		fmt.Fprintf(&body, "\tvar x %s\n\tuse(x)\n\tclear(x)\n", k.A)
	case "if-cond":
		// the syntactic forms of the statement (with / without init statement and else branch), one per case
		declY(&body)
		switch hashStr(k.A+"|"+k.B+"|"+k.BK) % 4 {
		case 0:
			fmt.Fprintf(&body, "\tif %s {\n\t}\n", y)
		case 1:
			fmt.Fprintf(&body, "\tif %s {\n\t} else {\n\t}\n", y)
		case 2:
			fmt.Fprintf(&body, "\tif q := 1; %s {\n\t\tuse(q)\n\t}\n", y)
		default:
			fmt.Fprintf(&body, "\tif q := 1; %s {\n\t\tuse(q)\n\t} else {\n\t\tuse(q)\n\t}\n", y)
		}
	case "for-cond":
		// for cond / for init; cond; / for ; cond; post / for init; cond; post
		declY(&body)
		switch hashStr(k.A+"|"+k.B+"|"+k.BK) % 4 {
		case 0:
			fmt.Fprintf(&body, "\tfor %s {\n\t\tbreak\n\t}\n", y)
		case 1:
			fmt.Fprintf(&body, "\tfor q := 0; %s; {\n\t\tuse(q)\n\t\tbreak\n\t}\n", y)
		case 2:
			fmt.Fprintf(&body, "\tq := 0\n\tfor ; %s; q++ {\n\t\tbreak\n\t}\n\tuse(q)\n", y)
		default:
			fmt.Fprintf(&body, "\tfor q := 0; %s; q++ {\n\t\tbreak\n\t}\n", y)
		}
	case "append":
		declY(&body)
		fmt.Fprintf(&body, "\tvar s []int\n\ts = append(s, %s)\n\tuse(s)\n", y)
	case "send":
		fmt.Fprintf(&body, "\tvar x %s\n\tuse(x)\n\tx <- 1\n", k.A)
	case "recv":
		fmt.Fprintf(&body, "\tvar x %s\n\tuse(x)\n\t_ = <-x\n", k.A)
	case "close":
		fmt.Fprintf(&body, "\tvar x %s\n\tuse(x)\n\tclose(x)\n", k.A)
	case "len", "cap":
		fmt.Fprintf(&body, "\tvar x %s\n\tuse(x)\n\t_ = %s(x)\n", k.A, k.Ctx)
	case "index":
		fmt.Fprintf(&body, "\tvar x %s\n\tuse(x)\n\t_ = x[0]\n", k.A)
	case "deref":
		fmt.Fprintf(&body, "\tvar x %s\n\tuse(x)\n\t_ = *x\n", k.A)
	case "field-A":
		fmt.Fprintf(&body, "\tvar x %s\n\tuse(x)\n\t_ = x.A\n", k.A)
	case "method-M":
		fmt.Fprintf(&body, "\tvar x %s\n\tuse(x)\n\tx.M()\n", k.A)
	case "neg":
		fmt.Fprintf(&body, "\tvar x %s\n\tuse(x)\n\t_ = -x\n", k.A)
	case "not":
		fmt.Fprintf(&body, "\tvar x %s\n\tuse(x)\n\t_ = !x\n", k.A)
	case "range":
		fmt.Fprintf(&body, "\tvar x %s\n\tuse(x)\n\tfor range x {\n\t}\n", k.A)
	case "assert":
		fmt.Fprintf(&body, "\tvar y %s\n\tuse(y)\n\t_, _ = y.(%s)\n", k.B, k.A)
	case "arity":
		switch k.A {
		case "ok":
			body.WriteString("\ta, b := pair()\n\tuse(a, b, one())\n")
		case "call-too-few":
			decl.WriteString("func two(a, b int) {}\n")
			body.WriteString("\ttwo(1)\n")
		case "call-too-many":
			body.WriteString("\tuse(one(1))\n")
		case "return-too-few":
			decl.WriteString("func rt() (int, int) {\n\treturn 1\n}\n")
			body.WriteString("\tuse(rt())\n")
		case "return-too-many":
			decl.WriteString("func rt() int {\n\treturn 1, 2\n}\n")
			body.WriteString("\tuse(rt())\n")
		case "assign-count":
			body.WriteString("\ta, b := one()\n\tuse(a, b)\n")
		case "multi-value-in-single-context":
			body.WriteString("\tx := 1\n\tx += pair()\n\tuse(x)\n")
		}
	case "undefined":
		switch k.A {
		case "ok":
			body.WriteString("\tvar s S\n\tuse(s.A, fmt.Sprint(1))\n")
		case "variable":
			body.WriteString("\tuse(undefinedVar)\n")
		case "function":
			body.WriteString("\tundefinedFunc()\n")
		case "type":
			body.WriteString("\tvar x UndefinedType\n\tuse(x)\n")
		case "package-member":
			body.WriteString("\tuse(fmt.NoSuchFunction(1))\n")
		case "field":
			body.WriteString("\tvar s S\n\tuse(s.NoSuchField)\n")
		case "method":
			body.WriteString("\tvar s TI\n\ts.NoSuchMethod()\n")
		}
	}
	return header + decl.String() + "\nfunc main() {\n\tfmt.Println(\"MAIN\")\n" + body.String() + "}\n"
}

type obs struct {
	Err    string `json:"err,omitempty"`
	Stdout string `json:"stdout,omitempty"`
	Panic  string `json:"panic,omitempty"`
}

type jobT struct {
	Src []string `json:"src"`
	Run []bool   `json:"run"` // Eval (true) or Compile only (false)
}

func observe(src string, run bool) (o obs) {
	var out bytes.Buffer
	i := interp.New(interp.Options{Stdout: &out, Stderr: new(bytes.Buffer)})
	i.Use(stdlib.Symbols)
	defer func() {
		if r := recover(); r != nil {
			o.Panic = fmt.Sprint(r)
		}
		o.Stdout = out.String()
	}()
	var err error
	if run {
		_, err = i.Eval(src)
	} else {
		_, err = i.Compile(src)
	}
	if err != nil {
		o.Err = err.Error()
		if o.Err == "" {
			o.Err = "error"
		}
	}
	return
}

func init() {
	fw.RegisterChild("c12", func(raw json.RawMessage) any {
		var j jobT
		json.Unmarshal(raw, &j)
		out := make([]obs, len(j.Src))
		for x := range j.Src {
			done := make(chan struct{})
			go func() { defer close(done); out[x] = observe(j.Src[x], j.Run[x]) }()
			select {
			case <-done:
			case <-time.After(10 * time.Second):
				out[x] = obs{Panic: "timeout"}
			}
		}
		return out
	})
}

func main() { fw.Main("C12", "model_checking", run) }

// ---- second half: nothing executes before the verdict, package initialisation of
// imported source packages included (spec/types/Pipeline.tla) ----

type pipeProg struct {
	MainImports []string `json:"mainImports"`
	PImportsQ   bool     `json:"pImportsQ"`
	Err         string   `json:"err"`
}

type pipeBeh struct {
	Prog     pipeProg `json:"prog"`
	Verdict  string   `json:"verdict"`
	Expected []string `json:"expected"`
}

func (b pipeBeh) key() string {
	return fmt.Sprintf("imports=%v pImportsQ=%v err=%s", b.Prog.MainImports, b.Prog.PImportsQ, b.Prog.Err)
}

func (b pipeBeh) files() map[string]string {
	bad := func(unit string) string {
		if b.Prog.Err == unit {
			return "\nfunc bad() { undefinedFunction() }\n"
		}
		return ""
	}
	has := func(x string) bool {
		for _, m := range b.Prog.MainImports {
			if m == x {
				return true
			}
		}
		return false
	}
	imp := ""
	if has("p") {
		imp += "import \"p\"\n"
	}
	if has("q") {
		imp += "import \"q\"\n"
	}
	use := ""
	if has("p") {
		use += "\t_ = p.V\n"
	}
	if has("q") {
		use += "\t_ = q.V\n"
	}
	pimp, puse := "", ""
	if b.Prog.PImportsQ {
		pimp, puse = "import \"q\"\n", "var W = q.V\n"
	}
	return map[string]string{
		"main.go":       "package main\n\nimport \"fmt\"\n" + imp + "\nfunc main() {\n\tfmt.Println(\"main\")\n" + use + "}\n" + bad("main"),
		"gp/src/p/p.go": "package p\n\nimport \"fmt\"\n" + pimp + "\nvar V = 1\n" + puse + "\nfunc init() { fmt.Println(\"p\") }\n" + bad("p"),
		"gp/src/q/q.go": "package q\n\nimport \"fmt\"\n\nvar V = 2\n\nfunc init() { fmt.Println(\"q\") }\n" + bad("q"),
	}
}

func pipeline(c *fw.Ctx) error {
	// design level: the phases as they are violate NoExecBeforeVerdict
	res, err := c.TLC(fw.TLCOpts{Dir: "spec/types", Module: "Pipeline", Cfg: "Pipeline.asis.cfg", Workers: 1, Timeout: 2 * time.Minute})
	if err != nil {
		return err
	}
	if !strings.Contains(res.Violated, "NoExecBeforeVerdict") {
		return fmt.Errorf("Pipeline.tla (imports run during gta) is expected to violate NoExecBeforeVerdict, TLC says %q", res.Violated)
	}
	var behs []pipeBeh
	res, err = c.TLC(fw.TLCOpts{Dir: "spec/types", Module: "Pipeline", Cfg: "Pipeline.gen.cfg", Workers: 1, Timeout: 2 * time.Minute,
		OnBeh: func(r json.RawMessage) {
			var b pipeBeh
			if json.Unmarshal(r, &b) == nil {
				behs = append(behs, b)
			}
		}})
	if err != nil {
		return err
	}
	if res.Violated != "" {
		return fmt.Errorf("Pipeline.tla: %s", res.Violated)
	}
	for _, b := range behs {
		mfs := fstest.MapFS{}
		for n, t := range b.files() {
			mfs[n] = &fstest.MapFile{Data: []byte(t)}
		}
		var out bytes.Buffer
		i := interp.New(interp.Options{GoPath: "./gp", SourcecodeFilesystem: mfs, Stdout: &out, Stderr: new(bytes.Buffer)})
		i.Use(stdlib.Symbols)
		var evalErr error
		func() {
			defer func() {
				if r := recover(); r != nil {
					evalErr = fmt.Errorf("Go panic escaped: %v", r)
				}
			}()
			_, evalErr = i.EvalPath("main.go")
		}()
		want := strings.Join(b.Expected, "\n")
		if want != "" {
			want += "\n"
		}
		c.Count("pipeline|"+b.key(), true)
		c.TracesVsImpl++
		rep := map[string]any{"pipeline": b, "files": b.files(), "stdout": out.String(), "err": fmt.Sprint(evalErr)}
		switch {
		case b.Verdict == "ok" && (evalErr != nil || out.String() != want):
			c.FailCase("package initialisation and the verdict", "well-typed program rejected or initialised in the wrong order", b.key(), rep)
		case b.Verdict == "err" && evalErr == nil:
			c.FailCase("package initialisation and the verdict", "accepted", b.key(), rep)
		case b.Verdict == "err" && out.String() != "":
			c.FailCase("package initialisation and the verdict", "imported packages initialised before the error was reported", b.key(), rep)
		}
	}
	return nil
}

// group names the part of the type checker a case exercises (one known finding per group).
func group(k kase) string {
	if strings.HasPrefix(k.Ctx, "complit-") {
		return "composite literal of kind " + k.AK
	}
	switch k.Ctx {
	case "assign", "vardecl", "arg", "return", "slice-elem", "map-value", "struct-field", "append":
		return "assignability in " + k.Ctx
	case "tuple-assign", "tuple-assign-mid", "tuple-vardecl", "tuple-return", "tuple-arg":
		// same rule, same finding as the single-pair context
		return "assignability in " + map[string]string{"tuple-assign": "assign", "tuple-assign-mid": "assign", "tuple-vardecl": "vardecl", "tuple-return": "return", "tuple-arg": "arg"}[k.Ctx]
	case "send-value", "send", "recv", "close":
		return "channel operation " + k.Ctx
	case "+", "<", "&&", "==":
		return "binary operator " + k.Ctx
	case "if-cond", "for-cond":
		return "condition"
	case "convert":
		return "conversion"
	case "assert":
		return "type assertion"
	case "arity", "undefined":
		return k.Ctx
	case "min", "max", "clear":
		return "builtins min, max, clear (go1.21)"
	}
	return "operand of " + k.Ctx
}

var placeNo = map[string]int{"define": 0, "pkgvar": 1, "arg": 2, "return": 3, "nested": 4, "unused-func": 5}

func hashStr(s string) uint32 {
	h := uint32(2166136261)
	for i := 0; i < len(s); i++ {
		h = (h ^ uint32(s[i])) * 16777619
	}
	return h % 1000003
}

func firstLine(s string) string {
	if i := strings.IndexByte(s, '\n'); i >= 0 {
		s = s[:i]
	}
	if len(s) > 120 {
		s = s[:120]
	}
	return s
}

// reference: go/types on the same source
func goTypes(imp types.Importer, src string) error {
	fset := token.NewFileSet()
	f, err := parser.ParseFile(fset, "main.go", src, 0)
	if err != nil {
		return err
	}
	conf := types.Config{Importer: imp, GoVersion: "go1.22"}
	_, err = conf.Check("main", fset, []*ast.File{f}, nil)
	return err
}

func run(c *fw.Ctx) error {
	c.Rule = "the complete table of TypeRules.tla: every context (8 assignment-like contexts, conversion, 4 binary operators, conditions, append, 12 unary/builtin/selector contexts, type assertion, arity and undefined-name cases) x every operand type tuple over 19 types and 9 untyped constants, plus the family of CompLit.tla (every array, slice, [...] , struct and map literal of up to 3 elements with optional keys x 6 places); non-trivial = every case (each is a distinct (context, types) tuple); distinct by (context, a, b)"
	c.Assumptions = []string{
		"go/types (installed toolchain, go1.22 language version) validates the verdict of the specification on every case",
		"\"ok\" cases are compiled (Interpreter.Compile), \"err\" cases are evaluated (Eval) so that any execution is visible as output",
		"error classes outside the catalogue (unused variables and imports, missing returns) are not generated",
	}
	var cases []kase
	if c.Replay != "" {
		var k kase
		if err := c.LoadReplay(&k); err != nil {
			return err
		}
		cases = []kase{k}
	} else {
		res, err := c.TLC(fw.TLCOpts{Dir: "spec/types", Module: "TypeRules", Cfg: "TypeRules.cfg", Workers: 4, Timeout: 5 * time.Minute,
			OnBeh: func(r json.RawMessage) {
				var k kase
				if json.Unmarshal(r, &k) == nil {
					cases = append(cases, k)
				}
			}})
		if err != nil {
			return err
		}
		if res.Violated != "" {
			return fmt.Errorf("TypeRules.tla: %s", res.Violated)
		}
		// malformed composite literals (CompLit.tla): every small array, slice, struct and map literal x place
		nlit := 0
		res, err = c.TLC(fw.TLCOpts{Dir: "spec/types", Module: "CompLit", Cfg: "CompLit.cfg", Workers: 2, Timeout: 5 * time.Minute,
			OnBeh: func(r json.RawMessage) {
				var k kase
				if json.Unmarshal(r, &k) == nil {
					// quick: every literal at two of the six places (chosen by the literal), thorough: everywhere
					if c.Quick() && (int(hashStr(k.A))+placeNo[k.B])%3 != 0 {
						return
					}
					cases = append(cases, k)
					nlit++
				}
			}})
		if err != nil {
			return err
		}
		if res.Violated != "" {
			return fmt.Errorf("CompLit.tla: %s", res.Violated)
		}
		c.Extra["composite_literal_cases"] = nlit
		c.Exhaustive = true
	}
	imp := importer.ForCompiler(token.NewFileSet(), "source", nil)
	srcs := make([]string, len(cases))
	valid := make([]bool, len(cases))
	for i, k := range cases {
		srcs[i] = k.render()
		gerr := goTypes(imp, srcs[i])
		if (gerr == nil) != (k.Verdict == "ok") {
			c.SpecError("specification says %q, go/types says %v for context %s a=%s b=%s\n%s", k.Verdict, gerr, k.Ctx, k.A, k.B, srcs[i])
			continue
		}
		valid[i] = true
		c.DisagreeChk++
	}
	const chunk = 100
	var jobs []any
	var index [][]int
	var cur jobT
	var curIdx []int
	for i := range cases {
		if !valid[i] {
			continue
		}
		cur.Src = append(cur.Src, srcs[i])
		cur.Run = append(cur.Run, cases[i].Verdict != "ok")
		curIdx = append(curIdx, i)
		if len(cur.Src) == chunk {
			jobs, index = append(jobs, cur), append(index, curIdx)
			cur, curIdx = jobT{}, nil
		}
	}
	if len(cur.Src) > 0 {
		jobs, index = append(jobs, cur), append(index, curIdx)
	}
	if c.Replay == "" {
		if err := pipeline(c); err != nil {
			return err
		}
	}
	var dump []string
	defer func() {
		if p := os.Getenv("C12_DUMP"); p != "" {
			os.WriteFile(p, []byte(strings.Join(dump, "\n")+"\n"), 0o644)
		}
	}()
	for ji, r := range c.RunChildren("c12", jobs, 16, 300*time.Second, nil) {
		var os []obs
		if r.Out == nil || json.Unmarshal(r.Out, &os) != nil {
			return fmt.Errorf("harness child %s", r.Describe())
		}
		for x, o := range os {
			i := index[ji][x]
			k := cases[i]
			c.Count(k.Ctx+"|"+k.A+"|"+k.B, true)
			c.TracesVsImpl++
			if i%1500 == 0 {
				c.Sample(map[string]any{"context": k.Ctx, "a": k.A, "b": k.B, "verdict": k.Verdict, "source": srcs[i]})
			}
			rep := map[string]any{"ctx": k.Ctx, "a": k.A, "ak": k.AK, "b": k.B, "bk": k.BK, "verdict": k.Verdict, "source": srcs[i], "observed": o}
			trig := group(k)
			key := k.Ctx + "|" + k.A + "|" + k.B
			fail := func(t, m string) {
				dump = append(dump, fmt.Sprintf("%s\t%s\t%s\t%s", t, key, m, firstLine(o.Err+o.Panic)))
				if k.Ctx == "min" || k.Ctx == "max" || k.Ctx == "clear" {
					// a finding about the whole class (F-C12-21: the builtins are not implemented), not about listed cases
					c.Fail(t, m, rep)
					return
				}
				c.FailCase(t, m, key, rep)
			}
			switch {
			case o.Panic != "":
				fail(trig, "Go panic escaped instead of an error")
			case k.Verdict == "ok" && o.Err != "":
				fail(trig, "well-typed program rejected")
			case k.Verdict != "ok" && o.Stdout != "":
				fail(trig, "accepted and executed")
			case k.Verdict != "ok" && o.Err == "":
				fail(trig, "accepted")
			}
		}
	}
	return nil
}
