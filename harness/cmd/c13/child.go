package main

// Child side of the C13 check: everything that touches the real interpreter runs here,
// in a child process of the harness whose own environment, command line and file
// descriptors 0/1/2 play the part of "the host".

import (
	"bytes"
	"encoding/json"
	"flag"
	"fmt"
	"io"
	"os"
	"path"
	"reflect"
	"sort"
	"strconv"
	"strings"
	"sync"
	"syscall"

	"github.com/traefik/yaegi/interp"
	"github.com/traefik/yaegi/stdlib"
	ysyscall "github.com/traefik/yaegi/stdlib/syscall"
	"github.com/traefik/yaegi/stdlib/unrestricted"
	yunsafe "github.com/traefik/yaegi/stdlib/unsafe"

	"verif/fw"
)

// ---------------------------------------------------------------- job and result types

type job struct {
	Kind string    `json:"kind"` // probe | env | imp | exit | io | control | exitcontrol
	Env  []envBeh  `json:"env,omitempty"`
	Imp  []impCase `json:"imp,omitempty"`
	Exit *exitCase `json:"exit,omitempty"`
	IO   []ioBeh   `json:"io,omitempty"`
}

type entry struct {
	K  string `json:"k"`
	V  string `json:"v"`
	Eq bool   `json:"eq"`
}

type seg struct {
	Kind string `json:"kind"`
	Lit  string `json:"lit"`
	Ref  string `json:"ref"`
}

type envRet struct {
	S      string     `json:"s"`
	Ok     bool       `json:"ok"`
	Pairs  [][]string `json:"pairs"`
	Err    string     `json:"err"`
	Pieces []string   `json:"pieces"`
}

type envOp struct {
	Op  string `json:"op"`
	K   string `json:"k"`
	V   string `json:"v"`
	T   []seg  `json:"t"`
	Ret envRet `json:"ret"`
}

type envBeh struct {
	Entries []entry    `json:"entries"`
	Imp     string     `json:"imp"`
	Ops     []envOp    `json:"ops"`
	Final   [][]string `json:"final"`
	Host    [][]string `json:"host"`
}

// what one environment operation was seen to do
type envObs struct {
	S        string   `json:"s,omitempty"`
	Ok       bool     `json:"ok,omitempty"`
	List     []string `json:"list,omitempty"`
	Err      string   `json:"err,omitempty"`      // "nil" | "error" for Setenv/Unsetenv
	EvalErr  string   `json:"evalErr,omitempty"`  // the Eval itself failed
	HostDiff string   `json:"hostDiff,omitempty"` // the host's os.Environ() changed during this step
}

type envResult struct {
	Setup string   `json:"setup,omitempty"`
	Steps []envObs `json:"steps"`
}

type impCase struct {
	Pkg  string `json:"pkg"`
	Form string `json:"form"`
	Cfg  string `json:"cfg"`
}

type impObs struct {
	Ok    bool   `json:"ok"`
	Stage string `json:"stage,omitempty"` // import | use
	Err   string `json:"err,omitempty"`
	Src   string `json:"src,omitempty"`
}

type exitCase struct {
	Entry string `json:"entry"`
	Src   string `json:"src"`
	Path  string `json:"path"` // selector path from the logger value to the value whose Fatal method is called
	Via   string `json:"via"`
	Depth int    `json:"depth"`
	RecAt int    `json:"recAt"`
}

type exitObs struct {
	Setup   string   `json:"setup,omitempty"`
	Out     []string `json:"out"`
	Stat    string   `json:"stat"`
	Err     string   `json:"err,omitempty"`
	Script  string   `json:"script,omitempty"`
	HostOut string   `json:"hostOut,omitempty"`
	HostErr string   `json:"hostErr,omitempty"`
}

type ioRet struct {
	N    int      `json:"n"`
	List []string `json:"list"`
	Val  string   `json:"val"`
}

type ioOp struct {
	Fn  string `json:"fn"`
	Tok int    `json:"tok"`
	Ret ioRet  `json:"ret"`
}

type ioBeh struct {
	Args  string           `json:"args"`
	Ops   []ioOp           `json:"ops"`
	Sinks map[string][]int `json:"sinks"`
}

type ioStep struct {
	S       string   `json:"s,omitempty"`
	List    []string `json:"list,omitempty"`
	EvalErr string   `json:"evalErr,omitempty"`
}

type ioObs struct {
	Setup     string   `json:"setup,omitempty"`
	Steps     []ioStep `json:"steps"`
	OptOut    string   `json:"optOut"`
	OptErr    string   `json:"optErr"`
	HostOut   string   `json:"hostOut"`
	HostErr   string   `json:"hostErr"`
	HostInPos int64    `json:"hostInPos"` // bytes of the host's stdin that were consumed
}

type probeObs struct {
	Dup, Bare, BadKey, PrintSink string
	Keys                         []string // keys of stdlib.Symbols
	Err                          string
}

type controlObs struct {
	EnvLeakSeen   bool
	HostOutSeen   bool
	HostErrSeen   bool
	HostStdinSeen bool
	Err           string
}

type result struct {
	Env     []envResult `json:"env,omitempty"`
	Imp     []impObs    `json:"imp,omitempty"`
	Exit    *exitObs    `json:"exit,omitempty"`
	IO      []ioObs     `json:"io,omitempty"`
	Probe   *probeObs   `json:"probe,omitempty"`
	Control *controlObs `json:"control,omitempty"`
}

// ---------------------------------------------------------------- the host of the scripts

const (
	hostArg0    = "hostprog"
	hostFlagVal = "hostval"
	hostRest    = "hostrest"
	hostStdin   = "h1\nh2\nh3\n"
	optStdin    = "i1\ni2\ni3\n"
)

var hostOnce sync.Once

// plantHost gives the child process (the host of the scripts) sentinel state that
// collides with everything the scripts use.
func plantHost() {
	hostOnce.Do(func() {
		os.Setenv("A", "hostA")
		os.Setenv("H", "hostH")
		os.Args = []string{hostArg0, "-name", hostFlagVal, hostRest}
	})
}

func hostEnviron() []string {
	e := os.Environ()
	sort.Strings(e)
	return e
}

func diffEnv(a, b []string) string {
	am, bm := map[string]bool{}, map[string]bool{}
	for _, x := range a {
		am[x] = true
	}
	for _, x := range b {
		bm[x] = true
	}
	var d []string
	for _, x := range a {
		if !bm[x] {
			d = append(d, "-"+x)
		}
	}
	for _, x := range b {
		if !am[x] {
			d = append(d, "+"+x)
		}
	}
	return strings.Join(d, " ")
}

// hostFDs redirects the process's file descriptors 0, 1 and 2 to anonymous files while
// fn runs, so that whatever a script sends to (or takes from) the process's own streams
// is seen, and the protocol channel of the child (its real stdout) stays clean.
type hostCapture struct {
	Out, Err string
	InPos    int64
}

func withHostFDs(fn func()) (hc hostCapture, err error) {
	mk := func(content string) (*os.File, error) {
		f, err := os.CreateTemp("", "c13-fd-")
		if err != nil {
			return nil, err
		}
		os.Remove(f.Name())
		if content != "" {
			f.WriteString(content)
			f.Seek(0, io.SeekStart)
		}
		return f, nil
	}
	fin, err := mk(hostStdin)
	if err != nil {
		return hc, err
	}
	defer fin.Close()
	fout, err := mk("")
	if err != nil {
		return hc, err
	}
	defer fout.Close()
	ferr, err := mk("")
	if err != nil {
		return hc, err
	}
	defer ferr.Close()
	var saved [3]int
	for fd := 0; fd < 3; fd++ {
		if saved[fd], err = syscall.Dup(fd); err != nil {
			return hc, err
		}
	}
	syscall.Dup2(int(fin.Fd()), 0)
	syscall.Dup2(int(fout.Fd()), 1)
	syscall.Dup2(int(ferr.Fd()), 2)
	restore := func() {
		for fd := 0; fd < 3; fd++ {
			syscall.Dup2(saved[fd], fd)
			syscall.Close(saved[fd])
		}
	}
	func() {
		defer restore()
		fn()
	}()
	hc.InPos, _ = fin.Seek(0, io.SeekCurrent)
	rd := func(f *os.File) string {
		f.Seek(0, io.SeekStart)
		b, _ := io.ReadAll(f)
		return string(b)
	}
	hc.Out, hc.Err = rd(fout), rd(ferr)
	return hc, nil
}

func q(s string) string { return strconv.Quote(s) }

func evalErr(i *interp.Interpreter, src string) (v reflect.Value, msg string) {
	defer func() {
		if r := recover(); r != nil {
			msg = fmt.Sprintf("panic out of Eval: %v", r)
		}
	}()
	v, err := i.Eval(src)
	if err != nil {
		return v, firstLine(err.Error())
	}
	return v, ""
}

func firstLine(s string) string {
	if i := strings.IndexByte(s, '\n'); i >= 0 {
		s = s[:i]
	}
	if len(s) > 200 {
		s = s[:200]
	}
	return s
}

// ---------------------------------------------------------------- (i) environment

func renderEntries(es []entry) []string {
	r := make([]string, 0, len(es))
	for _, e := range es {
		if e.Eq {
			r = append(r, e.K+"="+e.V)
		} else {
			r = append(r, e.K)
		}
	}
	return r
}

func renderTemplate(t []seg) string {
	var b strings.Builder
	for _, s := range t {
		switch s.Kind {
		case "lit":
			b.WriteString(s.Lit)
		case "plain":
			b.WriteString("$" + s.Ref)
		case "brace":
			b.WriteString("${" + s.Ref + "}")
		}
	}
	return b.String()
}

// envPrelude imports os in the requested form; sel is the qualifier of the os functions.
func envPrelude(imp string) (src, sel string) {
	switch imp {
	case "named":
		src, sel = `import xos "os"`, "xos."
	case "dot":
		src, sel = `import . "os"`, ""
	default:
		src, sel = `import "os"`, "os."
	}
	// LookupEnv has two results and Eval hands back one value: the script packs them.
	src += "\nfunc lookupEnv(k string) []string { v, ok := " + sel + "LookupEnv(k); if ok { return []string{\"1\", v} }; return []string{\"0\", v} }\n"
	return src, sel
}

func renderEnvOp(sel string, o envOp) string {
	switch o.Op {
	case "Setenv":
		return sel + "Setenv(" + q(o.K) + ", " + q(o.V) + ")"
	case "Unsetenv":
		return sel + "Unsetenv(" + q(o.K) + ")"
	case "Clearenv":
		return sel + "Clearenv()"
	case "Getenv":
		return sel + "Getenv(" + q(o.K) + ")"
	case "LookupEnv":
		return "lookupEnv(" + q(o.K) + ")"
	case "Environ":
		return sel + "Environ()"
	case "ExpandEnv":
		return sel + "ExpandEnv(" + q(renderTemplate(o.T)) + ")"
	}
	return "undefinedOperation()"
}

func newInterp(o interp.Options) (*interp.Interpreter, error) {
	i := interp.New(o)
	if err := i.Use(stdlib.Symbols); err != nil {
		return nil, err
	}
	return i, nil
}

func runEnv(b *envBeh, unrestricted bool) (res envResult) {
	var so, se bytes.Buffer
	i, err := newInterp(interp.Options{Stdout: &so, Stderr: &se, Stdin: strings.NewReader(""), Args: []string{"prog"},
		Env: renderEntries(b.Entries), Unrestricted: unrestricted})
	if err != nil {
		res.Setup = err.Error()
		return res
	}
	pre, sel := envPrelude(b.Imp)
	if _, msg := evalErr(i, pre); msg != "" {
		res.Setup = "prelude: " + msg
		return res
	}
	before := hostEnviron()
	for _, o := range b.Ops {
		var ob envObs
		v, msg := evalErr(i, renderEnvOp(sel, o))
		if msg != "" {
			ob.EvalErr = msg
		} else {
			switch o.Op {
			case "Setenv", "Unsetenv":
				ob.Err = "nil"
				if v.IsValid() && v.CanInterface() && v.Interface() != nil {
					ob.Err = "error"
				}
			case "Getenv", "ExpandEnv":
				if v.IsValid() && v.Kind() == reflect.String {
					ob.S = v.String()
				} else {
					ob.EvalErr = "result is not a string"
				}
			case "LookupEnv":
				if l, ok := ifc(v).([]string); ok && len(l) == 2 {
					ob.Ok, ob.S = l[0] == "1", l[1]
				} else {
					ob.EvalErr = "result is not the packed pair"
				}
			case "Environ":
				if l, ok := ifc(v).([]string); ok {
					ob.List = append([]string{}, l...)
					sort.Strings(ob.List)
				} else {
					ob.EvalErr = "result is not a []string"
				}
			}
		}
		after := hostEnviron()
		ob.HostDiff = diffEnv(before, after)
		if ob.HostDiff != "" {
			// put the host back so that later steps are judged on their own
			for _, kv := range after {
				if k, _, ok := strings.Cut(kv, "="); ok {
					os.Unsetenv(k)
				}
			}
			for _, kv := range before {
				if k, v, ok := strings.Cut(kv, "="); ok {
					os.Setenv(k, v)
				}
			}
		}
		res.Steps = append(res.Steps, ob)
	}
	return res
}

func ifc(v reflect.Value) any {
	if v.IsValid() && v.CanInterface() {
		return v.Interface()
	}
	return nil
}

// ---------------------------------------------------------------- (ii) imports

func extendedUse(i *interp.Interpreter) error {
	for _, s := range []interp.Exports{yunsafe.Symbols, ysyscall.Symbols, unrestricted.Symbols} {
		if err := i.Use(s); err != nil {
			return err
		}
	}
	return nil
}

// tableFor returns the symbols a configuration binds under an import path, and the package name.
func tableFor(pkg, cfg string) (map[string]reflect.Value, string) {
	find := func(t interp.Exports) (map[string]reflect.Value, string) {
		for k, v := range t {
			if path.Dir(k) == pkg {
				return v, path.Base(k)
			}
		}
		return nil, ""
	}
	if m, n := find(stdlib.Symbols); m != nil {
		return m, n
	}
	for _, t := range []interp.Exports{yunsafe.Symbols, ysyscall.Symbols, unrestricted.Symbols} {
		if m, n := find(t); m != nil {
			return m, n
		}
	}
	return nil, path.Base(pkg)
}

// useStmt renders a statement that references one symbol of the package through qualifier sel.
func useStmt(pkg, cfg, sel string) string {
	m, _ := tableFor(pkg, cfg)
	var names []string
	for n := range m {
		if n == "" || n[0] == '_' || n[0] < 'A' || n[0] > 'Z' {
			continue
		}
		names = append(names, n)
	}
	sort.Strings(names)
	for _, n := range names {
		if m[n].Kind() == reflect.Func {
			return "var _ = " + sel + n
		}
	}
	for _, n := range names {
		v := m[n]
		if v.Kind() == reflect.Ptr && !v.CanAddr() && v.IsNil() { // a type
			return "var _ " + sel + n
		}
	}
	for _, n := range names {
		if m[n].CanAddr() { // a variable
			return "var _ = &" + sel + n
		}
	}
	// forbidden packages in the default configuration have no table: well known names
	switch pkg {
	case "unsafe":
		return "var _ " + sel + "Pointer"
	case "syscall":
		return "var _ = " + sel + "Getpid"
	case "os/exec":
		return "var _ = " + sel + "Command"
	}
	if len(names) > 0 {
		return "var _ = " + sel + names[0]
	}
	// cmp, maps, slices: the table is empty, their generic functions are interpreted from
	// source; only the import statement itself is checked
	return ""
}

func fixKey(k string) string {
	if i := strings.LastIndex(k, "/"); i >= 0 {
		k = k[:i] + "_" + k[i+1:]
	}
	return k
}

func runImp(c impCase) (o impObs) {
	var so, se bytes.Buffer
	i, err := newInterp(interp.Options{Stdout: &so, Stderr: &se, Stdin: strings.NewReader(""), Args: []string{"prog"}})
	if err != nil {
		return impObs{Stage: "setup", Err: err.Error()}
	}
	if c.Cfg == "extended" {
		if err := extendedUse(i); err != nil {
			return impObs{Stage: "setup", Err: err.Error()}
		}
	}
	_, pkgName := tableFor(c.Pkg, c.Cfg)
	try := func(stage, src string) bool {
		if src == "" {
			return true
		}
		o.Src += src + "\n"
		if _, msg := evalErr(i, src); msg != "" {
			o.Stage, o.Err = stage, msg
			return false
		}
		return true
	}
	switch c.Form {
	case "plain":
		if try("import", "import "+q(c.Pkg)) && try("use", useStmt(c.Pkg, c.Cfg, pkgName+".")) {
			o.Ok = true
		}
	case "named":
		if try("import", "import zz "+q(c.Pkg)) && try("use", useStmt(c.Pkg, c.Cfg, "zz.")) {
			o.Ok = true
		}
	case "dot":
		if try("import", "import . "+q(c.Pkg)) && try("use", useStmt(c.Pkg, c.Cfg, "")) {
			o.Ok = true
		}
	case "blank":
		if try("import", "import _ "+q(c.Pkg)) {
			o.Ok = true
		}
	case "auto":
		i.ImportUsed()
		// the documented names: the last path element, or parent_last when that collides
		// (any spelling that joins the path elements with '_' is accepted)
		for _, n := range []string{path.Base(c.Pkg), fixKey(c.Pkg), strings.ReplaceAll(c.Pkg, "/", "_")} {
			if strings.Contains(n, "/") {
				continue // not an identifier: nothing a script could write
			}
			o.Stage, o.Err = "", ""
			if try("use", useStmt(c.Pkg, c.Cfg, n+".")) {
				o.Ok = true
				break
			}
		}
	}
	return o
}

// ---------------------------------------------------------------- (iii) exit calls

func exitCall(c *exitCase) (setup, call string) {
	recv := ""
	switch c.Src {
	case "New":
		setup = "lg := log.New(io.Discard, \"\", 0); "
		recv = "lg"
	case "Default":
		setup = "lg := log.Default(); "
		recv = "lg"
	case "SlogBridge":
		setup = "lg := slog.NewLogLogger(slog.NewTextHandler(io.Discard, nil), slog.LevelInfo); "
		recv = "lg"
	case "ZeroVar":
		setup = "var lg log.Logger; "
		recv = "lg"
	case "NewBuiltin":
		setup = "lg := new(log.Logger); "
		recv = "lg"
	}
	if recv != "" && c.Path != "" {
		recv += "." + strings.TrimSuffix(c.Path, ".")
	}
	fn, args := "", ""
	switch c.Entry {
	case "os.Exit":
		fn, args = "os.Exit", "3"
	case "log.Fatal":
		fn, args = "log.Fatal", `"bye"`
	case "log.Fatalf":
		fn, args = "log.Fatalf", `"bye %d", 1`
	case "log.Fatalln":
		fn, args = "log.Fatalln", `"bye"`
	case "logger.Fatal":
		fn, args = recv+".Fatal", `"bye"`
	case "logger.Fatalf":
		fn, args = recv+".Fatalf", `"bye %d", 1`
	case "logger.Fatalln":
		fn, args = recv+".Fatalln", `"bye"`
	}
	switch c.Via {
	case "value":
		call = "e := " + fn + "; e(" + args + ")"
	case "defer":
		call = "defer " + fn + "(" + args + ")"
	default:
		call = fn + "(" + args + ")"
	}
	return setup, call
}

func exitScript(c *exitCase) string {
	var b strings.Builder
	b.WriteString("import (\n\t\"fmt\"\n\t\"io\"\n\t\"log\"\n\t\"log/slog\"\n\t\"os\"\n)\n\n")
	b.WriteString("var _ = io.Discard\nvar _ = os.Args\nvar _ = slog.LevelInfo\nvar _ = log.Ldate\n\n")
	b.WriteString("func probe() int { return 42 }\n\n")
	setup, call := exitCall(c)
	if c.Via == "defer" {
		// the deferred exit call is the only deferred call of its frame
		b.WriteString("func fx() {\n\t" + setup + "\n\t" + call + "\n\tfmt.Println(\"fxbody\")\n}\n\n")
	}
	for l := c.Depth; l >= 1; l-- {
		fmt.Fprintf(&b, "func f%d() {\n\tdefer func() {\n\t\tfmt.Println(\"d%d\")\n", l, l)
		if c.RecAt == l {
			fmt.Fprintf(&b, "\t\tif r := recover(); r != nil {\n\t\t\tfmt.Println(\"rec%d\")\n\t\t} else {\n\t\t\tfmt.Println(\"norec%d\")\n\t\t}\n", l, l)
		}
		b.WriteString("\t}()\n")
		fmt.Fprintf(&b, "\tfmt.Println(\"in%d\")\n", l)
		switch {
		case l == c.Depth && c.Via == "defer":
			b.WriteString("\tfx()\n")
		case l == c.Depth:
			b.WriteString("\t" + setup + "\n\t" + call + "\n")
		default:
			fmt.Fprintf(&b, "\tf%d()\n", l+1)
		}
		fmt.Fprintf(&b, "\tfmt.Println(\"after%d\")\n}\n\n", l)
	}
	b.WriteString("func run() {\n\tf1()\n\tfmt.Println(\"end\")\n}\n")
	return b.String()
}

func runExit(c *exitCase, unrestrictedTable bool) *exitObs {
	o := &exitObs{Script: exitScript(c)}
	var so, se bytes.Buffer
	i, err := newInterp(interp.Options{Stdout: &so, Stderr: &se, Stdin: strings.NewReader(""), Args: []string{"prog"}})
	if err != nil {
		o.Setup = err.Error()
		return o
	}
	if unrestrictedTable {
		i.Use(unrestricted.Symbols)
	}
	hc, herr := withHostFDs(func() {
		if _, msg := evalErr(i, o.Script); msg != "" {
			o.Setup = "definitions: " + msg
			return
		}
		_, msg := evalErr(i, "run()")
		o.Stat = "ok"
		if msg != "" {
			o.Stat, o.Err = "error", msg
		}
		for _, l := range strings.Split(so.String(), "\n") {
			if l != "" {
				o.Out = append(o.Out, l)
			}
		}
		// the interpreter (and the process) must still be usable
		v, msg := evalErr(i, "probe()")
		if msg == "" && v.IsValid() && v.Kind() == reflect.Int && v.Int() == 42 {
			o.Out = append(o.Out, "probe")
		} else {
			o.Out = append(o.Out, "probe failed: "+msg)
		}
	})
	if herr != nil {
		o.Setup = "fd capture: " + herr.Error()
	}
	o.HostOut, o.HostErr = hc.Out, hc.Err
	return o
}

// ---------------------------------------------------------------- (iv) streams and arguments

func ioArgs(shape string) []string {
	switch shape {
	case "flag":
		return []string{"prog", "-name", "optval", "rest"}
	case "bare":
		return []string{"prog"}
	case "empty":
		return []string{} // given by the embedder, and empty (not nil)
	}
	return []string{"prog", "rest"}
}

func tokText(n int) string { return "T" + strconv.Itoa(n) + "x" }

const ioPrelude = `import (
	"flag"
	"fmt"
	"log"
	"os"
)

var _ = flag.ContinueOnError
var _ = os.Args

func quiet(f func()) {
	defer func() { recover() }()
	f()
}

// Eval hands back one value, and an immediately called function literal at the top
// level of a chunk is not an expression for yaegi: the calls are wrapped in named functions.
func scanOne() string { var s string; n, _ := fmt.Scan(&s); return fmt.Sprint(n, " ", s) }
func scanLn() string  { var s string; n, _ := fmt.Scanln(&s); return fmt.Sprint(n, " ", s) }
func scanF() string   { var s string; n, _ := fmt.Scanf("%s\n", &s); return fmt.Sprint(n, " ", s) }

func flagPkg() []string {
	p := flag.String("name", "def", "")
	flag.Parse()
	return append([]string{*p}, flag.Args()...)
}

func flagCommandLine() []string {
	p := flag.CommandLine.String("name", "def", "")
	flag.CommandLine.Parse(os.Args[1:])
	return append([]string{*p}, flag.CommandLine.Args()...)
}
`

func renderIoOp(o ioOp) string {
	t := q(tokText(o.Tok) + "\n")
	switch o.Fn {
	case "fmt.Print":
		return "fmt.Print(" + t + ")"
	case "fmt.Printf":
		return "fmt.Printf(\"%s\", " + t + ")"
	case "fmt.Println":
		return "fmt.Println(" + q(tokText(o.Tok)) + ")"
	case "print":
		return "print(" + t + ")"
	case "println":
		return "println(" + q(tokText(o.Tok)) + ")"
	case "log.Print":
		return "log.Print(" + t + ")"
	case "log.Printf":
		return "log.Printf(\"%s\", " + t + ")"
	case "log.Println":
		return "log.Println(" + q(tokText(o.Tok)) + ")"
	case "log.Output":
		return "log.Output(1, " + t + ")"
	case "log.Writer":
		return "fmt.Fprint(log.Writer(), " + t + ")"
	case "log.Panic":
		return "quiet(func() { log.Panic(" + t + ") })"
	case "log.Panicf":
		return "quiet(func() { log.Panicf(\"%s\", " + t + ") })"
	case "log.Panicln":
		return "quiet(func() { log.Panicln(" + q(tokText(o.Tok)) + ") })"
	case "log.Fatal":
		return "quiet(func() { log.Fatal(" + t + ") })"
	case "log.Fatalf":
		return "quiet(func() { log.Fatalf(\"%s\", " + t + ") })"
	case "log.Fatalln":
		return "quiet(func() { log.Fatalln(" + q(tokText(o.Tok)) + ") })"
	case "log.Default.Print":
		return "log.Default().Print(" + t + ")"
	case "log.Default.Printf":
		return "log.Default().Printf(\"%s\", " + t + ")"
	case "log.Default.Println":
		return "log.Default().Println(" + q(tokText(o.Tok)) + ")"
	case "fmt.Scan":
		return "scanOne()"
	case "fmt.Scanln":
		return "scanLn()"
	case "fmt.Scanf":
		return "scanF()"
	case "os.Args":
		return "os.Args"
	case "flag.pkg":
		return "flagPkg()"
	case "flag.CommandLine":
		return "flagCommandLine()"
	}
	return "undefinedOperation()"
}

func runIO(b *ioBeh, hostStreams bool) (o ioObs) {
	var so, se bytes.Buffer
	// the host's own flag set: fresh for every history, must not end the process
	flag.CommandLine = flag.NewFlagSet(hostArg0, flag.ContinueOnError)
	flag.CommandLine.SetOutput(io.Discard)
	opts := interp.Options{Stdout: &so, Stderr: &se, Stdin: strings.NewReader(optStdin), Args: ioArgs(b.Args)}
	hc, herr := withHostFDs(func() {
		if hostStreams {
			// control: no streams given, the interpreter falls back to the host's
			opts.Stdout, opts.Stderr, opts.Stdin = nil, nil, nil
		}
		i, err := newInterp(opts)
		if err != nil {
			o.Setup = err.Error()
			return
		}
		if _, msg := evalErr(i, ioPrelude); msg != "" {
			o.Setup = "prelude: " + msg
			return
		}
		for _, op := range b.Ops {
			var st ioStep
			v, msg := evalErr(i, renderIoOp(op))
			if msg != "" {
				st.EvalErr = msg
			} else {
				switch {
				case strings.HasPrefix(op.Fn, "fmt.Scan"):
					if v.IsValid() && v.Kind() == reflect.String {
						st.S = v.String()
					} else {
						st.EvalErr = "result is not a string"
					}
				case op.Fn == "os.Args" || strings.HasPrefix(op.Fn, "flag."):
					if l, ok := ifc(v).([]string); ok {
						st.List = append([]string{}, l...)
					} else {
						st.EvalErr = "result is not a []string"
					}
				}
			}
			o.Steps = append(o.Steps, st)
		}
	})
	if herr != nil {
		o.Setup = "fd capture: " + herr.Error()
	}
	o.OptOut, o.OptErr = so.String(), se.String()
	o.HostOut, o.HostErr, o.HostInPos = hc.Out, hc.Err, hc.InPos
	return o
}

// ---------------------------------------------------------------- probe and controls

func runProbe() *probeObs {
	p := &probeObs{}
	for k := range stdlib.Symbols {
		p.Keys = append(p.Keys, k)
	}
	sort.Strings(p.Keys)
	one := func(env []string, src string) (reflect.Value, *bytes.Buffer, *bytes.Buffer, string) {
		var so, se bytes.Buffer
		i, err := newInterp(interp.Options{Stdout: &so, Stderr: &se, Stdin: strings.NewReader(""), Args: []string{"prog"}, Env: env})
		if err != nil {
			return reflect.Value{}, &so, &se, err.Error()
		}
		if _, msg := evalErr(i, "import \"os\"\nfunc has(k string) bool { _, ok := os.LookupEnv(k); return ok }"); msg != "" {
			return reflect.Value{}, &so, &se, msg
		}
		v, msg := evalErr(i, src)
		return v, &so, &se, msg
	}
	v, _, _, msg := one([]string{"A=1", "A=2"}, `os.Getenv("A")`)
	switch {
	case msg != "":
		p.Err = msg
	case v.Kind() == reflect.String && v.String() == "2":
		p.Dup = "last"
	case v.Kind() == reflect.String && v.String() == "1":
		p.Dup = "first"
	default:
		p.Dup = "last" // neither convention: the check will fail on it
	}
	v, _, _, msg = one([]string{"A"}, `has("A")`)
	switch {
	case msg != "":
		p.Err = msg
	case v.Kind() == reflect.Bool && v.Bool():
		p.Bare = "empty"
	default:
		p.Bare = "ignored"
	}
	v, _, _, msg = one(nil, `os.Setenv("", "v=w")`)
	switch {
	case msg != "":
		p.Err = msg
	case ifc(v) == nil:
		p.BadKey = "map"
	default:
		p.BadKey = "reject"
	}
	_, so, se, msg := one(nil, `print("PROBE")`)
	switch {
	case msg != "":
		p.Err = msg
	case strings.Contains(se.String(), "PROBE") && !strings.Contains(so.String(), "PROBE"):
		p.PrintSink = "optErr"
	default:
		p.PrintSink = "optOut"
	}
	return p
}

// runControl shows that the observation channels are live: with the confinement
// switched off (Unrestricted, no Options streams) the leaks must be seen.
func runControl() *controlObs {
	c := &controlObs{}
	r := runEnv(&envBeh{Imp: "plain", Ops: []envOp{{Op: "Setenv", K: "VERIF_C13_CONTROL", V: "1"}}}, true)
	if r.Setup != "" {
		c.Err = r.Setup
		return c
	}
	c.EnvLeakSeen = len(r.Steps) == 1 && strings.Contains(r.Steps[0].HostDiff, "+VERIF_C13_CONTROL=1")
	o := runIO(&ioBeh{Args: "flag", Ops: []ioOp{{Fn: "fmt.Println", Tok: 1}, {Fn: "log.Println", Tok: 2}, {Fn: "fmt.Scan", Tok: 3}}}, true)
	if o.Setup != "" {
		c.Err = o.Setup
		return c
	}
	c.HostOutSeen = strings.Contains(o.HostOut, tokText(1))
	c.HostErrSeen = strings.Contains(o.HostErr, tokText(2))
	c.HostStdinSeen = len(o.Steps) == 3 && o.Steps[2].S == "1 h1" && o.HostInPos > 0
	return c
}

func init() {
	fw.RegisterChild("c13", func(raw json.RawMessage) any {
		plantHost()
		var j job
		if err := json.Unmarshal(raw, &j); err != nil {
			return result{}
		}
		var r result
		switch j.Kind {
		case "probe":
			r.Probe = runProbe()
		case "control":
			r.Control = runControl()
		case "exitcontrol":
			// os.Exit rebound to the real one: the child must die here
			r.Exit = runExit(&exitCase{Entry: "os.Exit", Src: "-", Via: "direct", Depth: 1, RecAt: 1}, true)
		case "env":
			for k := range j.Env {
				r.Env = append(r.Env, runEnv(&j.Env[k], false))
			}
		case "imp":
			for _, c := range j.Imp {
				r.Imp = append(r.Imp, runImp(c))
			}
		case "exit":
			r.Exit = runExit(j.Exit, false)
		case "io":
			for k := range j.IO {
				r.IO = append(r.IO, runIO(&j.IO[k], false))
			}
		}
		return r
	})
}
