// Check for property C13: restricted mode confines scripts.
//
// Sandbox.tla holds four machines (virtual environment, import matrix, exit calls,
// streams/arguments). TLC enumerates or simulates each of them and prints behaviours
// with the values the specification predicts; this harness renders every behaviour as
// Eval calls on a real interpreter inside a child process that plays the host (sentinel
// environment, sentinel command line, file descriptors 0/1/2 redirected and inspected)
// and compares what it sees with the prediction.
package main

import (
	"encoding/json"
	"fmt"
	"hash/fnv"
	"os"
	"path"
	"reflect"
	"regexp"
	"runtime"
	"sort"
	"strconv"
	"strings"
	"sync"
	"time"

	"github.com/traefik/yaegi/stdlib"

	"verif/fw"
)

func main() {
	fw.Main("C13", "model_checking", run)
}

// ---------------------------------------------------------------- behaviours from TLC

type impBeh struct {
	C  impCase `json:"c"`
	Ok string  `json:"ok"`
}

type exitBeh struct {
	C    exitCase `json:"c"`
	Out  []string `json:"out"`
	Stat string   `json:"stat"`
}

// replayCase is what a replay file holds.
type replayCase struct {
	Part string   `json:"part"` // env | imp | exit | io
	Env  *envBeh  `json:"env,omitempty"`
	Imp  *impBeh  `json:"imp,omitempty"`
	Exit *exitBeh `json:"exit,omitempty"`
	IO   *ioBeh   `json:"io,omitempty"`
	// for the reader of the file
	Rendered any `json:"rendered,omitempty"`
	Observed any `json:"observed,omitempty"`
	Failing  any `json:"failing_step,omitempty"`
}

type behaviours struct {
	mu   sync.Mutex
	env  []envBeh
	imp  []impBeh
	exit []exitBeh
	io   []ioBeh
}

// ---------------------------------------------------------------- cfg generation

func tlaSet(ss []string) string {
	q := make([]string, len(ss))
	for i, s := range ss {
		q[i] = strconv.Quote(s)
	}
	return "{" + strings.Join(q, ", ") + "}"
}

var envOps = []string{"Setenv", "Unsetenv", "Clearenv", "Getenv", "LookupEnv", "Environ", "ExpandEnv"}

var allIoFns = []string{"fmt.Print", "fmt.Printf", "fmt.Println", "print", "println",
	"log.Print", "log.Printf", "log.Println", "log.Output", "log.Writer",
	"log.Panic", "log.Panicf", "log.Panicln", "log.Fatal", "log.Fatalf", "log.Fatalln",
	"log.Default.Print", "log.Default.Printf", "log.Default.Println",
	"fmt.Scan", "fmt.Scanln", "fmt.Scanf", "os.Args", "flag.pkg", "flag.CommandLine"}

type cfgParams struct {
	spec       string
	initMode   string
	maxEntries int
	maxDepth   int
	edgeOnly   bool
	ops        []string
	simLen     int
	ioFns      []string
	view       string
	invs       string
	props      string
}

func (p *probeObs) cfg(pkgs []string, cp cfgParams) []byte {
	var b strings.Builder
	b.WriteString("SPECIFICATION " + cp.spec + "\nCONSTANTS\n")
	fmt.Fprintf(&b, " TablePkgs = %s\n", tlaSet(pkgs))
	fmt.Fprintf(&b, " LoggerPaths = %s\n", tlaSet(loggerPaths()))
	fmt.Fprintf(&b, " DupPolicy = %q BarePolicy = %q BadKeyPolicy = %q PrintSink = %q\n", p.Dup, p.Bare, p.BadKey, p.PrintSink)
	fmt.Fprintf(&b, " InitMode = %q MaxEntries = %d MaxDepth = %d SimLen = %d EdgeOnly = %s\n", cp.initMode, cp.maxEntries, cp.maxDepth, cp.simLen, strings.ToUpper(strconv.FormatBool(cp.edgeOnly)))
	fmt.Fprintf(&b, " OpSet = %s\n IoFns = %s\n", tlaSet(cp.ops), tlaSet(cp.ioFns))
	if cp.view != "" {
		b.WriteString("VIEW " + cp.view + "\n")
	}
	b.WriteString("INVARIANTS " + cp.invs + "\n")
	if cp.props != "" {
		b.WriteString("PROPERTIES " + cp.props + "\n")
	}
	return []byte(b.String())
}

// loggerPaths walks, by reflection, the type the default table binds to log.Logger: "" for the
// value itself and one selector path (ending in a dot) per exported field, or exported niladic
// method with one result, that leads to a value with a Fatal method (two levels).
func loggerPaths() []string {
	paths := []string{""}
	v, ok := stdlib.Symbols["log/log"]["Logger"]
	if !ok {
		return paths
	}
	hasFatal := func(t reflect.Type) bool {
		if _, ok := t.MethodByName("Fatal"); ok {
			return true
		}
		if t.Kind() != reflect.Ptr && t.Kind() != reflect.Interface {
			_, ok := reflect.PtrTo(t).MethodByName("Fatal")
			return ok
		}
		return false
	}
	var walk func(t reflect.Type, prefix string, depth int)
	walk = func(t reflect.Type, prefix string, depth int) {
		if depth == 0 {
			return
		}
		st := t
		for st.Kind() == reflect.Ptr {
			st = st.Elem()
		}
		if st.Kind() == reflect.Struct {
			for i := 0; i < st.NumField(); i++ {
				f := st.Field(i)
				if f.IsExported() && hasFatal(f.Type) {
					paths = append(paths, prefix+f.Name+".")
					walk(f.Type, prefix+f.Name+".", depth-1)
				}
			}
		}
		for i := 0; i < t.NumMethod(); i++ {
			m := t.Method(i)
			if m.Type.NumIn() == 1 && m.Type.NumOut() == 1 && hasFatal(m.Type.Out(0)) {
				paths = append(paths, prefix+m.Name+"().")
			}
		}
	}
	walk(v.Type(), "", 2)
	sort.Strings(paths)
	return paths
}

const (
	envInvs = "HostEnvUnchanged NoHostLeak ReadsAgree GetAfterSet GoneAfterUnset ClearenvEmpties EnvironIsGraph ExpandIsGetenv EnvTypeOK"
	impInvs = "ForbiddenDenied TableImports FormIrrelevant"
	exInvs  = "HostAlive XAfterSkipped XDefersRun XRecoveredIff XUsable XNoNorec"
	ioInvs  = "HostStreamsUntouched WritesConserved ReadsInOrder ArgsFromOptions"
)

// ---------------------------------------------------------------- run

func run(c *fw.Ctx) error {
	if runtime.GOOS != "linux" {
		return fmt.Errorf("the host capture (dup2 on fds 0/1/2) is written for linux")
	}
	c.Rule = "behaviours generated by Sandbox.tla: environment histories (quick: the edge cover <<op>> / <<Setenv(B=C,v), op>> from the 16 canonical Options.Env lists = every edge of the 64-state graph; thorough: every history of 2 operations from every list of <=2 entries and every history of 3 write/Environ operations; both: every Options.Env list of <=3 entries, seeded histories of 30 operations), the import matrix (every key of stdlib.Symbols + unsafe, syscall, os/exec x 5 forms, + the extended-configuration control), exit calls (7 entry points x logger source x call form x depth x recover position), stream histories (25 functions, all histories of 2 (quick) / 3 (thorough), seeded histories of 12); a case is non-trivial when it carries at least 2 observations; distinct by the model-level case"
	c.Assumptions = []string{
		"the child process of the harness is the host: sentinel variables A and H in its environment, sentinel os.Args, file descriptors 0/1/2 redirected to anonymous files while a script runs",
		"conventions the property leaves open (duplicate Options.Env keys, entries without '=', Setenv of an empty key or a key containing '=', which Options stream the print builtins use) are identified by one probe each and then required of every behaviour",
		"controls: with Unrestricted / without Options streams / with stdlib/unrestricted the leaks are seen by the same observation channels (otherwise machinery error)",
		"the environment model and the import matrix have no external reference (DESIGN 2.2); the panic skeleton of the exit model and the token consumption of fmt.Scan* are validated against natively built programs",
		"fmt.Scanln/Scanf are only issued at the start of an input line; os.Stdin/Stdout/Stderr variables and explicit writers (Fprint) are outside the property",
	}
	if c.Replay != "" {
		return replay(c)
	}

	// 1. probe the conventions, read the table keys, run the controls
	probe, pkgs, err := loadProbe(c, true)
	if err != nil {
		return err
	}
	timing("probe")
	c.Extra["conventions_observed"] = map[string]string{"duplicate_keys": probe.Dup, "bare_entry": probe.Bare, "bad_key_setenv": probe.BadKey, "print_builtins": probe.PrintSink}
	c.Extra["table_packages"] = len(pkgs)
	c.Extra["controls"] = "unrestricted env leak seen, host stdout/stderr/stdin use seen, real os.Exit ends the child"

	// 2. TLC
	files := map[string][]byte{}
	add := func(name string, cp cfgParams) {
		if cp.ops == nil {
			cp.ops = envOps
		}
		if cp.ioFns == nil {
			cp.ioFns = allIoFns
		}
		if cp.initMode == "" {
			cp.initMode = "canon"
		}
		if cp.maxDepth == 0 {
			cp.maxDepth = 2
		}
		if cp.simLen == 0 {
			cp.simLen = 30
		}
		files[name] = probe.cfg(pkgs, cp)
	}
	add("gen.graph.cfg", cfgParams{spec: "SpecEnv", initMode: "all", maxEntries: 3, maxDepth: 1000, view: "EnvView", invs: envInvs, props: "HostEnvStep"})
	add("gen.parse.cfg", cfgParams{spec: "SpecEnv", initMode: "all", maxEntries: 3, maxDepth: 1, ops: []string{"Environ"}, invs: envInvs + " EmitEnv"})
	add("gen.edges.cfg", cfgParams{spec: "SpecEnv", maxDepth: 2, edgeOnly: true, invs: envInvs + " EmitEnv"})
	add("gen.bfs2all.cfg", cfgParams{spec: "SpecEnv", initMode: "all", maxEntries: 2, maxDepth: 2, invs: envInvs + " EmitEnv"})
	add("gen.bfs3w.cfg", cfgParams{spec: "SpecEnv", maxDepth: 3, ops: []string{"Setenv", "Unsetenv", "Clearenv", "Environ"}, invs: envInvs + " EmitEnv"})
	add("gen.envsim.cfg", cfgParams{spec: "SpecEnvSim", simLen: 30, invs: strings.Replace(envInvs, " EnvTypeOK", "", 1) + " EmitEnvSim"})
	add("gen.imp.cfg", cfgParams{spec: "SpecImports", invs: impInvs + " EmitImp"})
	add("gen.exit.cfg", cfgParams{spec: "SpecExit", invs: exInvs + " EmitExit"})
	add("gen.io2.cfg", cfgParams{spec: "SpecIO", maxDepth: 2, invs: ioInvs + " EmitIo"})
	add("gen.io3.cfg", cfgParams{spec: "SpecIO", maxDepth: 3, invs: ioInvs + " EmitIo"})
	add("gen.iosim.cfg", cfgParams{spec: "SpecIOSim", simLen: 12, invs: ioInvs + " EmitIoSim"})

	var all behaviours
	coverage := os.Getenv("C13_COVERAGE") != ""
	cover := map[string]map[string]int64{}
	type tlcRun struct {
		cfg, part string
		sim       bool
		num       int
		seed      int64
		workers   int
		simLen    int
	}
	var runs []tlcRun
	runs = append(runs,
		tlcRun{cfg: "gen.graph.cfg", part: "-", workers: 2},
		tlcRun{cfg: "gen.parse.cfg", part: "env", workers: 2},
		tlcRun{cfg: "gen.imp.cfg", part: "imp", workers: 2},
		tlcRun{cfg: "gen.exit.cfg", part: "exit", workers: 2},
	)
	if c.Quick() {
		runs = append(runs,
			tlcRun{cfg: "gen.edges.cfg", part: "env", workers: 2},
			tlcRun{cfg: "gen.io2.cfg", part: "io", workers: 2},
			tlcRun{cfg: "gen.envsim.cfg", part: "env", sim: true, num: 25, seed: c.Seed*1000 + 1, simLen: 30},
			tlcRun{cfg: "gen.iosim.cfg", part: "io", sim: true, num: 10, seed: c.Seed*1000 + 2, simLen: 12},
		)
	} else {
		runs = append(runs,
			tlcRun{cfg: "gen.bfs2all.cfg", part: "env", workers: 2},
			tlcRun{cfg: "gen.bfs3w.cfg", part: "env", workers: 2},
			tlcRun{cfg: "gen.io3.cfg", part: "io", workers: 2},
		)
		for j := 0; j < 8; j++ {
			runs = append(runs, tlcRun{cfg: "gen.envsim.cfg", part: "env", sim: true, num: 100, seed: c.Seed*1000 + 10 + int64(j), simLen: 30})
		}
		for j := 0; j < 4; j++ {
			runs = append(runs, tlcRun{cfg: "gen.iosim.cfg", part: "io", sim: true, num: 60, seed: c.Seed*1000 + 50 + int64(j), simLen: 12})
		}
	}
	tlcStats := map[string]any{}
	var wg sync.WaitGroup
	errs := make([]error, len(runs))
	sem := make(chan struct{}, 3) // at most 3 JVMs (<= 6 TLC worker threads) at a time: the machine is shared
	var simStates int64
	for ri, r := range runs {
		wg.Add(1)
		go func(ri int, r tlcRun) {
			defer wg.Done()
			sem <- struct{}{}
			defer func() { <-sem }()
			n := 0
			onBeh := func(raw json.RawMessage) {
				all.mu.Lock()
				defer all.mu.Unlock()
				n++
				switch r.part {
				case "env":
					var b envBeh
					if json.Unmarshal(raw, &b) == nil {
						all.env = append(all.env, b)
					}
				case "imp":
					var b impBeh
					if json.Unmarshal(raw, &b) == nil {
						all.imp = append(all.imp, b)
					}
				case "exit":
					var b exitBeh
					if json.Unmarshal(raw, &b) == nil {
						all.exit = append(all.exit, b)
					}
				case "io":
					var b ioBeh
					if json.Unmarshal(raw, &b) == nil {
						all.io = append(all.io, b)
					}
				}
			}
			res, err := c.TLC(fw.TLCOpts{Dir: "spec/env", Module: "Sandbox", Cfg: r.cfg, Files: files, Simulate: r.sim,
				Num: r.num, Depth: 400, Seed: r.seed, Workers: r.workers, OnBeh: onBeh, Timeout: 8 * time.Minute,
				Coverage: coverage && !r.sim, HeapMB: 2000})
			if err != nil {
				errs[ri] = err
				return
			}
			if res.Violated != "" {
				errs[ri] = fmt.Errorf("model-level property violated in %s: %s", r.cfg, res.Violated)
				return
			}
			all.mu.Lock()
			if r.sim {
				simStates += int64(n * (r.simLen + 1))
			} else {
				tlcStats[r.cfg] = map[string]any{"generated": res.Generated, "distinct": res.Distinct, "depth": res.Depth, "wall_s": res.Wall.Seconds(), "behaviours": n}
				if coverage {
					cover[r.cfg] = res.Cover
				}
			}
			all.mu.Unlock()
		}(ri, r)
	}
	wg.Wait()
	for _, e := range errs {
		if e != nil {
			return e
		}
	}
	c.States += simStates
	c.Transitions += simStates
	c.Extra["tlc_runs"] = tlcStats
	c.Extra["simulated_states"] = simStates
	if coverage {
		c.Extra["action_coverage"] = cover
	}
	c.Extra["exhaustive_parts"] = "environment graph (64 states x 31 operations: every edge; thorough: every history of 2 operations from every Options.Env list of <= 2 entries), Options.Env lists of <= 3 entries, import matrix, exit cases, stream histories of 2 (quick) / 3 (thorough) operations"
	c.Exhaustive = false

	// what the seeded parts drew (changes with VERIF_SEED; the exhaustive parts do not)
	var digest uint64 // order-independent: the JVMs deliver concurrently
	nSeeded := 0
	mix := func(v any) {
		h := fnv.New64a()
		h.Write([]byte(keyOf(v)))
		digest ^= h.Sum64()
		nSeeded++
	}
	for i := range all.env {
		if len(all.env[i].Ops) == 30 {
			mix(all.env[i])
		}
	}
	for i := range all.io {
		if len(all.io[i].Ops) == 12 {
			mix(all.io[i])
		}
	}
	c.Extra["seeded_histories"] = nSeeded
	c.Extra["seeded_digest"] = fmt.Sprintf("%016x", digest)

	timing("tlc")
	// 3. validate the specification against natively built programs
	if err := validateNative(c, &all); err != nil {
		return err
	}
	timing("native")
	// 4. replay on the interpreter
	err = check(c, &all)
	timing("replay")
	return err
}

var t0 = time.Now()

func timing(what string) {
	if os.Getenv("C13_TIMING") != "" {
		fmt.Fprintf(os.Stderr, "timing: %s done at %.1fs\n", what, time.Since(t0).Seconds())
	}
}

// tablePkgs holds the import paths of the default table (set by loadProbe).
var tablePkgs []string

// loadProbe asks a child for the conventions and the keys of stdlib.Symbols and, when
// controls is set, checks that the observation channels are live.
func loadProbe(c *fw.Ctx, controls bool) (*probeObs, []string, error) {
	jobs := []any{job{Kind: "probe"}}
	if controls {
		jobs = append(jobs, job{Kind: "control"}, job{Kind: "exitcontrol"})
	}
	pre := c.RunChildren("c13", jobs, 3, 60*time.Second, nil)
	var pr, cr result
	if pre[0].Out == nil || json.Unmarshal(pre[0].Out, &pr) != nil || pr.Probe == nil {
		return nil, nil, fmt.Errorf("probe child failed: %s", pre[0].Describe())
	}
	if pr.Probe.Err != "" {
		return nil, nil, fmt.Errorf("probe: %s", pr.Probe.Err)
	}
	if controls {
		if pre[1].Out == nil || json.Unmarshal(pre[1].Out, &cr) != nil || cr.Control == nil {
			return nil, nil, fmt.Errorf("control child failed: %s", pre[1].Describe())
		}
		if k := cr.Control; k.Err != "" || !k.EnvLeakSeen || !k.HostOutSeen || !k.HostErrSeen || !k.HostStdinSeen {
			return nil, nil, fmt.Errorf("control: an observation channel is dead: %+v", *k)
		}
		if !pre[2].Crashed {
			return nil, nil, fmt.Errorf("control: os.Exit bound to the real function did not end the child (%s)", pre[2].Describe())
		}
	}
	var pkgs []string
	for _, k := range pr.Probe.Keys {
		if k == "." {
			continue
		}
		pkgs = append(pkgs, path.Dir(k))
	}
	sort.Strings(pkgs)
	tablePkgs = pkgs
	return pr.Probe, pkgs, nil
}

// ---------------------------------------------------------------- checking

const envChunk = 150
const ioChunk = 100
const impChunk = 60

type jobRef struct {
	kind string
	lo   int // index of the first behaviour of the job in its list
	n    int
}

func check(c *fw.Ctx, all *behaviours) error {
	var jobs []any
	var refs []jobRef
	for i := 0; i < len(all.env); i += envChunk {
		j := min(i+envChunk, len(all.env))
		jobs = append(jobs, job{Kind: "env", Env: all.env[i:j]})
		refs = append(refs, jobRef{"env", i, j - i})
	}
	for i := 0; i < len(all.imp); i += impChunk {
		j := min(i+impChunk, len(all.imp))
		cs := make([]impCase, 0, j-i)
		for _, b := range all.imp[i:j] {
			cs = append(cs, b.C)
		}
		jobs = append(jobs, job{Kind: "imp", Imp: cs})
		refs = append(refs, jobRef{"imp", i, j - i})
	}
	for i := range all.exit {
		jobs = append(jobs, job{Kind: "exit", Exit: &all.exit[i].C})
		refs = append(refs, jobRef{"exit", i, 1})
	}
	for i := 0; i < len(all.io); i += ioChunk {
		j := min(i+ioChunk, len(all.io))
		jobs = append(jobs, job{Kind: "io", IO: all.io[i:j]})
		refs = append(refs, jobRef{"io", i, j - i})
	}
	results := c.RunChildren("c13", jobs, 16, 180*time.Second, []string{"GOMAXPROCS=2", "GOGC=400"})
	parts := map[string]int{}
	for ji, r := range results {
		ref := refs[ji]
		var res result
		if r.Out != nil {
			json.Unmarshal(r.Out, &res)
		}
		for x := 0; x < ref.n; x++ {
			parts[ref.kind]++
			c.TracesVsImpl++
			switch ref.kind {
			case "env":
				b := &all.env[ref.lo+x]
				var ob *envResult
				if x < len(res.Env) {
					ob = &res.Env[x]
				}
				checkEnv(c, b, ob, r)
			case "imp":
				b := &all.imp[ref.lo+x]
				var ob *impObs
				if x < len(res.Imp) {
					ob = &res.Imp[x]
				}
				checkImp(c, b, ob, r)
			case "exit":
				checkExit(c, &all.exit[ref.lo+x], res.Exit, r)
			case "io":
				b := &all.io[ref.lo+x]
				var ob *ioObs
				if x < len(res.IO) {
					ob = &res.IO[x]
				}
				checkIO(c, b, ob, r)
			}
		}
	}
	c.Extra["replayed"] = parts
	return nil
}

func keyOf(v any) string {
	b, _ := json.Marshal(v)
	return string(b)
}

// ---- (i)

func keyClass(k string) string {
	switch k {
	case "":
		return "the empty key"
	case "A":
		return "a key that also exists in the host"
	case "B=C":
		return "a key containing '='"
	case "H":
		return "a key that exists only in the host"
	}
	return "key " + k
}

func envTrigger(o envOp) string {
	switch o.Op {
	case "Clearenv", "Environ", "ExpandEnv":
		return "env: " + o.Op
	}
	return "env: " + o.Op + " of " + keyClass(o.K)
}

func hasHostVal(ss ...string) bool {
	for _, s := range ss {
		if strings.Contains(s, "hostA") || strings.Contains(s, "hostH") {
			return true
		}
	}
	return false
}

func checkEnv(c *fw.Ctx, b *envBeh, ob *envResult, r fw.ChildResult) {
	c.Count("env|"+keyOf(b.Entries)+b.Imp+keyOf(b.Ops), len(b.Ops) >= 2)
	if len(b.Ops) >= 2 && len(b.Entries) > 0 {
		c.Sample(map[string]any{"part": "env", "Options.Env": renderEntries(b.Entries), "operations": renderedEnv(b), "predicted_returns": predictedEnv(b)})
	}
	rep := replayCase{Part: "env", Env: b, Rendered: map[string]any{"Options.Env": renderEntries(b.Entries), "evals": renderedEnv(b)}}
	if ob == nil {
		c.Fail("env: history", "harness child "+r.Describe(), rep)
		return
	}
	rep.Observed = ob
	if ob.Setup != "" {
		c.Fail("env: interpreter setup (import "+b.Imp+")", "setup failed", rep)
		return
	}
	for i, o := range b.Ops {
		if i >= len(ob.Steps) {
			c.Fail(envTrigger(o), "no observation", rep)
			return
		}
		s := ob.Steps[i]
		rep.Failing = i
		mode := ""
		switch {
		case s.HostDiff != "":
			mode = "host environment changed"
		case s.EvalErr != "":
			mode = "Eval failed"
		default:
			switch o.Op {
			case "Setenv", "Unsetenv":
				if s.Err != o.Ret.Err {
					mode = "error result is " + s.Err + ", model says " + o.Ret.Err
				}
			case "Getenv":
				if s.S != o.Ret.S {
					mode = "wrong value"
					if hasHostVal(s.S) {
						mode = "host value returned"
					}
				}
			case "LookupEnv":
				if s.S != o.Ret.S || s.Ok != o.Ret.Ok {
					mode = "wrong value"
					if hasHostVal(s.S) {
						mode = "host value returned"
					}
				}
			case "Environ":
				want := []string{}
				for _, p := range o.Ret.Pairs {
					if len(p) == 2 {
						want = append(want, p[0]+"="+p[1])
					}
				}
				sort.Strings(want)
				if strings.Join(want, "\x00") != strings.Join(s.List, "\x00") {
					mode = "wrong set of entries"
					if hasHostVal(s.List...) {
						mode = "host entries returned"
					}
				}
			case "ExpandEnv":
				if s.S != strings.Join(o.Ret.Pieces, "") {
					mode = "wrong value"
					if hasHostVal(s.S) {
						mode = "host value returned"
					}
				}
			}
		}
		if mode != "" {
			c.Fail(envTrigger(o), mode, rep)
			return
		}
	}
}

func renderedEnv(b *envBeh) []string {
	_, sel := envPrelude(b.Imp)
	var r []string
	for _, o := range b.Ops {
		r = append(r, renderEnvOp(sel, o))
	}
	return r
}

func predictedEnv(b *envBeh) []string {
	var r []string
	for _, o := range b.Ops {
		switch o.Op {
		case "Setenv", "Unsetenv":
			r = append(r, o.Ret.Err)
		case "Getenv":
			r = append(r, strconv.Quote(o.Ret.S))
		case "LookupEnv":
			r = append(r, fmt.Sprintf("%q,%v", o.Ret.S, o.Ret.Ok))
		case "Environ":
			r = append(r, fmt.Sprint(o.Ret.Pairs))
		case "ExpandEnv":
			r = append(r, strconv.Quote(strings.Join(o.Ret.Pieces, "")))
		default:
			r = append(r, "-")
		}
	}
	return r
}

// ---- (ii)

var forbidden = map[string]bool{"unsafe": true, "syscall": true, "os/exec": true}

func impTrigger(k *impCase) string {
	if forbidden[k.Pkg] {
		return "import: unsafe, syscall or os/exec, form " + k.Form
	}
	if k.Form == "auto" && strings.Count(k.Pkg, "/") >= 2 {
		n := 0
		for _, p := range tablePkgs {
			if path.Base(p) == path.Base(k.Pkg) {
				n++
			}
		}
		if n >= 2 {
			return "import: auto-import (ImportUsed) of a table package whose last path element is shared with another package and whose path has more than two elements"
		}
	}
	return "import: a package of the default table, form " + k.Form
}

func checkImp(c *fw.Ctx, b *impBeh, ob *impObs, r fw.ChildResult) {
	c.Count("imp|"+keyOf(b.C), b.C.Form != "blank")
	rep := replayCase{Part: "imp", Imp: b}
	want := b.Ok == "yes"
	trig := impTrigger(&b.C)
	if ob == nil {
		if b.C.Cfg == "extended" {
			c.SpecError("control (extended configuration) child failed on %v: %s", b.C, r.Describe())
			return
		}
		c.Fail(trig, "harness child "+r.Describe(), rep)
		return
	}
	rep.Observed = ob
	if b.C.Pkg == "fmt" && b.C.Form == "plain" && b.C.Cfg == "default" {
		c.Sample(map[string]any{"part": "import", "case": b.C, "evals": ob.Src, "predicted": b.Ok})
	}
	if ob.Stage == "setup" {
		c.SpecError("interpreter setup failed for %v: %s", b.C, ob.Err)
		return
	}
	if ob.Ok == want {
		return
	}
	if b.C.Cfg == "extended" {
		// the control configuration is not part of the property: a failure here means
		// the rendered import is unable to succeed at all, so a denial proves nothing
		c.SpecError("control: %v must be importable once the host has added it with Use, got %s error %q", b.C, ob.Stage, ob.Err)
		return
	}
	if ob.Ok {
		c.Fail(trig, "import succeeded", rep)
	} else {
		c.Fail(trig, "failed at "+ob.Stage, rep)
	}
}

// ---- (iii)

func exitTrigger(k *exitCase) string {
	switch k.Src {
	case "Default", "SlogBridge":
		return "exit: Fatal method of a *log.Logger that was not created by log.New (log.Default(), slog.NewLogLogger)"
	case "New":
		return "exit: " + strings.Replace(k.Entry, "logger.", "log.New(...).", 1) + " via " + k.Via
	}
	return "exit: " + k.Entry + " via " + k.Via
}

func checkExit(c *fw.Ctx, b *exitBeh, ob *exitObs, r fw.ChildResult) {
	c.Count("exit|"+keyOf(b.C), true)
	rep := replayCase{Part: "exit", Exit: b, Rendered: exitScript(&b.C)}
	if b.C.Entry == "log.Fatalf" && b.C.Depth == 2 && b.C.RecAt == 1 && b.C.Via == "direct" {
		c.Sample(map[string]any{"part": "exit", "case": b.C, "script": exitScript(&b.C), "predicted_output": b.Out, "predicted_status": b.Stat})
	}
	trig := exitTrigger(&b.C)
	fail := func(trig, mode string) {
		// the model's prediction for this skeleton was confirmed by compiled Go (validateNative)
		c.DisagreeChk++
		c.Fail(trig, mode, rep)
	}
	if ob == nil {
		if r.Crashed {
			rep.Observed = map[string]any{"child": "died", "stderr_tail": tail(r.Stderr, 300)}
			fail(trig, "host process terminated")
			return
		}
		fail(trig, "harness child "+r.Describe())
		return
	}
	rep.Observed = ob
	switch {
	case ob.Setup != "":
		fail(trig, "script rejected")
	case ob.Stat != b.Stat:
		fail(trig, "Eval status "+ob.Stat+", model says "+b.Stat)
	case strings.Join(ob.Out, ",") != strings.Join(b.Out, ","):
		mode := "output differs from the panic model"
		if contains(ob.Out, "after"+strconv.Itoa(b.C.Depth)) && b.C.Via != "defer" {
			mode = "the exit call returned"
		} else if len(ob.Out) > 0 && strings.HasPrefix(ob.Out[len(ob.Out)-1], "probe failed") {
			mode = "interpreter unusable afterwards"
		}
		fail(trig, mode)
	case strings.Contains(ob.HostOut, "bye") || strings.Contains(ob.HostErr, "bye"):
		fail(trig, "message on the host's stream")
	}
}

func contains(l []string, s string) bool {
	for _, x := range l {
		if x == s {
			return true
		}
	}
	return false
}

func tail(s string, n int) string {
	if len(s) > n {
		return s[len(s)-n:]
	}
	return s
}

// ---- (iv)

var tokRe = regexp.MustCompile(`T(\d+)x`)

func tokens(s string) []int {
	var r []int
	seen := map[int]bool{}
	for _, m := range tokRe.FindAllStringSubmatch(s, -1) {
		n, _ := strconv.Atoi(m[1])
		if !seen[n] {
			seen[n] = true
			r = append(r, n)
		}
	}
	return r
}

func ioTrigger(fn string) string {
	switch {
	case strings.HasPrefix(fn, "log.Default."):
		return "stream: output through the logger returned by log.Default()"
	case fn == "flag.pkg":
		return "args: package-level flag functions (flag.String, flag.Parse, flag.Args)"
	case fn == "flag.CommandLine":
		return "args: flag.CommandLine"
	case fn == "os.Args":
		return "args: os.Args"
	}
	return "stream: " + fn
}

func renderedIO(b *ioBeh) []string {
	var r []string
	for _, o := range b.Ops {
		r = append(r, renderIoOp(o))
	}
	return r
}

func checkIO(c *fw.Ctx, b *ioBeh, ob *ioObs, r fw.ChildResult) {
	c.Count("io|"+b.Args+keyOf(b.Ops), len(b.Ops) >= 2)
	if len(b.Ops) >= 3 {
		c.Sample(map[string]any{"part": "streams", "Options.Args": ioArgs(b.Args), "evals": renderedIO(b), "predicted_sinks": b.Sinks})
	}
	rep := replayCase{Part: "io", IO: b, Rendered: map[string]any{"Options.Args": ioArgs(b.Args), "Options.Stdin": optStdin, "evals": renderedIO(b)}}
	if ob == nil {
		c.Fail("stream: history", "harness child "+r.Describe(), rep)
		return
	}
	rep.Observed = ob
	if ob.Setup != "" {
		c.Fail("stream: interpreter setup", "setup failed", rep)
		return
	}
	got := map[string][]int{"optOut": tokens(ob.OptOut), "optErr": tokens(ob.OptErr), "hostOut": tokens(ob.HostOut), "hostErr": tokens(ob.HostErr)}
	sinkNames := []string{"optOut", "optErr", "hostOut", "hostErr"}
	where := func(m map[string][]int, tok int) []string {
		var w []string
		for _, s := range sinkNames {
			for _, t := range m[s] {
				if t == tok {
					w = append(w, s)
				}
			}
		}
		return w
	}
	failed := false
	for i, o := range b.Ops {
		if i >= len(ob.Steps) {
			c.Fail(ioTrigger(o.Fn), "no observation", rep)
			return
		}
		st := ob.Steps[i]
		rep.Failing = i
		if st.EvalErr != "" {
			c.Fail(ioTrigger(o.Fn), "Eval failed", rep)
			failed = true
			continue
		}
		switch {
		case strings.HasPrefix(o.Fn, "fmt.Scan"):
			want := "0 "
			if o.Ret.N > 0 {
				want = "1 i" + strconv.Itoa(o.Ret.N)
			}
			if st.S != want {
				mode := "wrong token"
				if strings.Contains(st.S, " h") {
					mode = "read from the host's stdin"
				}
				c.Fail(ioTrigger(o.Fn), mode, rep)
				failed = true
			}
		case o.Fn == "os.Args":
			if strings.Join(st.List, "\x00") != strings.Join(o.Ret.List, "\x00") {
				mode := "differs from Options.Args"
				if contains(st.List, hostArg0) {
					mode = "the host's command line"
				}
				c.Fail(ioTrigger(o.Fn), mode, rep)
				failed = true
			}
		case strings.HasPrefix(o.Fn, "flag."):
			want := append([]string{o.Ret.Val}, o.Ret.List...)
			if strings.Join(st.List, "\x00") != strings.Join(want, "\x00") {
				mode := "differs from Options.Args"
				if contains(st.List, hostFlagVal) || contains(st.List, hostRest) {
					mode = "value from the host's command line"
				}
				c.Fail(ioTrigger(o.Fn), mode, rep)
				failed = true
			}
		default: // a write
			w, g := where(b.Sinks, o.Tok), where(got, o.Tok)
			if strings.Join(w, ",") != strings.Join(g, ",") {
				mode := "token lost"
				if len(g) > 0 {
					mode = "token on " + strings.Join(g, ",")
				}
				c.Fail(ioTrigger(o.Fn), mode, rep)
				failed = true
			}
		}
	}
	if ob.HostInPos != 0 {
		c.Fail("stream: scanning", "the host's stdin was consumed", rep)
		failed = true
	}
	if failed {
		return
	}
	rep.Failing = nil
	for _, s := range sinkNames {
		if fmt.Sprint(got[s]) != fmt.Sprint(append([]int{}, b.Sinks[s]...)) {
			c.Fail("stream: order of output on "+s, "order differs from program order", rep)
			return
		}
	}
}

// ---------------------------------------------------------------- native validation of the specification

// validateNative builds, with the installed toolchain, (a) the panic skeleton of every
// (via, depth, recAt) of the exit model with a plain panic in place of the exit call and
// (b) the sequences of fmt.Scan* calls of the stream histories, and compares what they
// print with the model's predictions. A difference is a specification error.
func validateNative(c *fw.Ctx, all *behaviours) error {
	type sk struct {
		via          string
		depth, recAt int
	}
	skel := map[sk]*exitBeh{}
	for i := range all.exit {
		b := &all.exit[i]
		k := sk{b.C.Via, b.C.Depth, b.C.RecAt}
		if _, ok := skel[k]; !ok {
			skel[k] = b
		}
	}
	var srcs []string
	var which []*exitBeh
	for _, b := range skel {
		srcs = append(srcs, nativeSkeleton(&b.C))
		which = append(which, b)
	}
	// the read sequences
	seqs := map[string][]ioOp{}
	for i := range all.io {
		var rs []ioOp
		key := ""
		for _, o := range all.io[i].Ops {
			if strings.HasPrefix(o.Fn, "fmt.Scan") {
				rs = append(rs, o)
				key += o.Fn + ";"
			}
		}
		if len(rs) > 0 {
			if _, ok := seqs[key]; !ok {
				seqs[key] = rs
			}
		}
	}
	var keys []string
	for k := range seqs {
		keys = append(keys, k)
	}
	sort.Strings(keys)
	if len(keys) > 400 {
		keys = keys[:400]
	}
	if len(keys) > 0 {
		srcs = append(srcs, nativeScans(keys, seqs))
	}
	res := c.NativeBatch(srcs, 20*time.Second)
	for i, b := range which {
		r := res[i]
		if !r.BuildOK {
			return fmt.Errorf("native skeleton does not build: %s", r.BuildErr)
		}
		var lines []string
		for _, l := range strings.Split(r.Stdout, "\n") {
			if l != "" {
				lines = append(lines, l)
			}
		}
		want := b.Out[:len(b.Out)-1] // without the probe of the following Eval
		okStat := (r.Exit == 0) == (b.Stat == "ok")
		if strings.Join(lines, ",") != strings.Join(want, ",") || !okStat {
			c.SpecError("exit model: via=%s depth=%d recAt=%d: model says %v/%s, compiled Go prints %v exit=%d", b.C.Via, b.C.Depth, b.C.RecAt, want, b.Stat, lines, r.Exit)
		}
	}
	if len(keys) > 0 {
		r := res[len(res)-1]
		if !r.BuildOK {
			return fmt.Errorf("native scan program does not build: %s", r.BuildErr)
		}
		lines := strings.Split(strings.TrimRight(r.Stdout, "\n"), "\n")
		if len(lines) != len(keys) {
			return fmt.Errorf("native scan program printed %d lines for %d sequences", len(lines), len(keys))
		}
		for i, k := range keys {
			var want []string
			for _, o := range seqs[k] {
				if o.Ret.N > 0 {
					want = append(want, "1 i"+strconv.Itoa(o.Ret.N))
				} else {
					want = append(want, "0 ")
				}
			}
			if lines[i] != strings.Join(want, "|") {
				c.SpecError("stream model: %s: model says %q, compiled Go reads %q", k, strings.Join(want, "|"), lines[i])
			}
		}
	}
	c.Extra["reference_validated"] = map[string]int{"exit_skeletons": len(which), "scan_sequences": len(keys)}
	return nil
}

func nativeSkeleton(k *exitCase) string {
	s := exitScript(k)
	setup, call := exitCall(k)
	repl := ""
	switch k.Via {
	case "value":
		repl = "e := func(v any) { panic(v) }; e(\"bye\")"
	case "defer":
		repl = "defer panic(\"bye\")"
	default:
		repl = "panic(\"bye\")"
	}
	s = strings.Replace(s, "\t"+setup+"\n\t"+call+"\n", "\t"+repl+"\n", 1)
	return "package main\n\n" + s + "\nfunc main() { run() }\n"
}

func nativeScans(keys []string, seqs map[string][]ioOp) string {
	var b strings.Builder
	b.WriteString("package main\n\nimport (\n\t\"fmt\"\n\t\"strings\"\n)\n\nfunc main() {\n")
	for _, k := range keys {
		fmt.Fprintf(&b, "\t{\n\t\tr := strings.NewReader(%q)\n\t\tvar out []string\n", optStdin)
		for _, o := range seqs[k] {
			call := ""
			switch o.Fn {
			case "fmt.Scan":
				call = "fmt.Fscan(r, &s)"
			case "fmt.Scanln":
				call = "fmt.Fscanln(r, &s)"
			case "fmt.Scanf":
				call = "fmt.Fscanf(r, \"%s\\n\", &s)"
			}
			b.WriteString("\t\t{\n\t\t\tvar s string\n\t\t\tn, _ := " + call + "\n\t\t\tout = append(out, fmt.Sprint(n, \" \", s))\n\t\t}\n")
		}
		b.WriteString("\t\tfmt.Println(strings.Join(out, \"|\"))\n\t}\n")
	}
	b.WriteString("}\n")
	return b.String()
}

// ---------------------------------------------------------------- replay

func replay(c *fw.Ctx) error {
	var rc replayCase
	if err := c.LoadReplay(&rc); err != nil {
		return err
	}
	if _, _, err := loadProbe(c, false); err != nil {
		return err
	}
	var all behaviours
	switch rc.Part {
	case "env":
		if rc.Env == nil {
			return fmt.Errorf("replay file has no env behaviour")
		}
		all.env = []envBeh{*rc.Env}
	case "imp":
		if rc.Imp == nil {
			return fmt.Errorf("replay file has no import case")
		}
		all.imp = []impBeh{*rc.Imp}
	case "exit":
		if rc.Exit == nil {
			return fmt.Errorf("replay file has no exit case")
		}
		all.exit = []exitBeh{*rc.Exit}
	case "io":
		if rc.IO == nil {
			return fmt.Errorf("replay file has no stream history")
		}
		all.io = []ioBeh{*rc.IO}
	default:
		return fmt.Errorf("replay file: unknown part %q", rc.Part)
	}
	return check(c, &all)
}
