package main

import (
	"bufio"
	"fmt"
	"go/types"
	"os"
	"path/filepath"
	"regexp"
	"sort"
	"strings"
)

// Expect is one object a release declares for a package (from GOROOT/api).
type Expect struct {
	Kind     string `json:"kind"` // "expect"
	ID       string `json:"id"`
	KeyPath  string `json:"keyPath"`
	Name     string `json:"name"`
	Class    string `json:"class"`
	Generic  bool   `json:"generic"`
	Rel      int    `json:"rel"`
	Plat     string `json:"plat"` // "any" | goos/goarch
	Excepted bool   `json:"excepted"`
	Emission string `json:"emission"` // "any" (C18 uses the field for PkgGen's expectation)
	Source   string `json:"source"`
}

var reAPI = regexp.MustCompile(`^pkg ([^ ,]+)(?: \(([a-z0-9]+)-([a-z0-9]+)(-cgo)?\))?, (const|var|func|type) ([A-Za-z_][A-Za-z0-9_]*)(.?)`)

func cleanAPILine(s string) string {
	if i := strings.Index(s, " //deprecated"); i >= 0 {
		s = s[:i]
	}
	if i := strings.Index(s, " #"); i >= 0 {
		s = s[:i]
	}
	return strings.TrimSpace(s)
}

var reAPIMethod = regexp.MustCompile(`^pkg ([^ ,]+)(?: \([a-z0-9-]+\))?, type ([A-Za-z_][A-Za-z0-9_]*) interface, ([A-Za-z_][A-Za-z0-9_]*)\(`)

// ifaceSince maps "pkg.Type.Method" to the first release whose api file records the method.
var ifaceSince = map[string]int{}

// loadAPI reads GOROOT/api/go1*.txt up to release maxRel.
func loadAPI(goroot string, maxRel int) ([]Expect, error) {
	dir := filepath.Join(goroot, "api")
	except := map[string]bool{}
	if f, err := os.Open(filepath.Join(dir, "except.txt")); err == nil {
		sc := bufio.NewScanner(f)
		sc.Buffer(make([]byte, 1<<20), 1<<24)
		for sc.Scan() {
			except[cleanAPILine(sc.Text())] = true
		}
		f.Close()
	}
	type k struct {
		pkg, plat, name, class string
		generic, excepted      bool
	}
	first := map[k]int{}
	for r := 0; r <= maxRel; r++ {
		name := fmt.Sprintf("go1.%d.txt", r)
		if r == 0 {
			name = "go1.txt"
		}
		f, err := os.Open(filepath.Join(dir, name))
		if err != nil {
			return nil, fmt.Errorf("api file %s: %v (completeness cannot be judged)", name, err)
		}
		sc := bufio.NewScanner(f)
		sc.Buffer(make([]byte, 1<<20), 1<<24)
		for sc.Scan() {
			line := cleanAPILine(sc.Text())
			if mm := reAPIMethod.FindStringSubmatch(line); mm != nil {
				k := mm[1] + "." + mm[2] + "." + mm[3]
				if _, ok := ifaceSince[k]; !ok {
					ifaceSince[k] = r
				}
			}
			m := reAPI.FindStringSubmatch(line)
			if m == nil {
				continue
			}
			plat := "any"
			if m[2] != "" {
				plat = m[2] + "/" + m[3]
			}
			key := k{pkg: m[1], plat: plat, name: m[6], class: m[5], generic: m[7] == "[", excepted: except[line]}
			if _, ok := first[key]; !ok {
				first[key] = r
			}
		}
		f.Close()
	}
	var out []Expect
	for key, r := range first {
		out = append(out, Expect{Kind: "expect", KeyPath: key.pkg, Name: key.name, Class: key.class, Generic: key.generic,
			Rel: r, Plat: key.plat, Excepted: key.excepted, Emission: "any", Source: "api"})
	}
	// package unsafe is not recorded in GOROOT/api: its universe is fixed by go/types
	for _, n := range types.Unsafe.Scope().Names() {
		o := types.Unsafe.Scope().Lookup(n)
		_, builtin := o.(*types.Builtin)
		cl := "type"
		if builtin {
			cl = "builtin"
		}
		out = append(out, Expect{Kind: "expect", KeyPath: "unsafe", Name: n, Class: cl, Generic: builtin, Rel: 0, Plat: "any", Emission: "any", Source: "go/types.Unsafe"})
	}
	sort.Slice(out, func(i, j int) bool {
		a, b := out[i], out[j]
		if a.KeyPath != b.KeyPath {
			return a.KeyPath < b.KeyPath
		}
		if a.Name != b.Name {
			return a.Name < b.Name
		}
		if a.Plat != b.Plat {
			return a.Plat < b.Plat
		}
		if a.Rel != b.Rel {
			return a.Rel < b.Rel
		}
		if a.Excepted != b.Excepted {
			return !a.Excepted
		}
		return !a.Generic && b.Generic
	})
	for i := range out {
		out[i].ID = fmt.Sprintf("X%d", i)
	}
	return out, nil
}
