package main

import (
	"bufio"
	"bytes"
	"encoding/json"
	"fmt"
	"go/types"
	"math/big"
	"os"
	"os/exec"
	"path/filepath"
	"regexp"
	"runtime"
	"sort"
	"strings"
	"time"

	"verif/fw"
	"verif/fw/bindfacts"
)

func curPlat() string { return runtime.GOOS + "/" + runtime.GOARCH }

var reBound = regexp.MustCompile(`reflect\.ValueOf\(\(?\*?&?(?:([A-Za-z0-9_]+)\.)?([A-Za-z0-9_]+)\)`)

// lexicalRef is the second, purely textual route to what an entry references.
func lexicalRef(repo string, e *bindfacts.Entry) (pkgIdent, name string, ok bool) {
	f, err := os.Open(filepath.Join(repo, e.File))
	if err != nil {
		return "", "", false
	}
	defer f.Close()
	sc := bufio.NewScanner(f)
	sc.Buffer(make([]byte, 1<<20), 1<<24)
	for n := 1; sc.Scan(); n++ {
		if n == e.Line {
			m := reBound.FindStringSubmatch(sc.Text())
			if m == nil || !strings.Contains(sc.Text(), `"`+e.Name+`"`) {
				return "", "", false
			}
			return m[1], m[2], true
		}
	}
	return "", "", false
}

// nativeClass asks the compiler what kind of object keyPath.name is (current platform).
func nativeClass(c *fw.Ctx, keyPath, name string) string {
	hdr := "package main\n\nimport p \"" + keyPath + "\"\n\n"
	srcs := []string{
		hdr + "var _ = &p." + name + "\n\nfunc main() {}\n",
		hdr + "var _ *p." + name + "\n\nfunc main() {}\n",
		hdr + "const _ = p." + name + "\n\nfunc main() {}\n",
		hdr + "var _ = p." + name + "\n\nfunc main() {}\n",
	}
	r := c.NativeBatch(srcs, 10*time.Second)
	switch {
	case r[0].BuildOK:
		return "var"
	case r[1].BuildOK:
		return "type"
	case r[2].BuildOK:
		return "const"
	case r[3].BuildOK:
		return "func"
	}
	return "none"
}

// constEqual asks the compiler whether keyPath.name == lit (exact constant arithmetic).
// It returns "equal", "different" or "" when the reference could not be consulted.
func constEqual(c *fw.Ctx, plat, keyPath, name, lit string) string {
	if plat == curPlat() {
		src := "package main\n\nimport (\n\t\"fmt\"\n\tp \"" + keyPath + "\"\n)\n\nfunc main() { fmt.Println(p." + name + " == " + lit + ") }\n"
		r := c.Native(src, 10*time.Second)
		switch strings.TrimSpace(r.Stdout) {
		case "true":
			return "equal"
		case "false":
			return "different"
		}
		return ""
	}
	// foreign platform: compile only, equality asserted through a duplicate map key
	dir, err := os.MkdirTemp(c.Scratch, "cross-")
	if err != nil {
		return ""
	}
	defer os.RemoveAll(dir)
	os.WriteFile(filepath.Join(dir, "go.mod"), []byte("module cross\n\ngo 1.21\n"), 0o644)
	src := "package cross\n\nimport p \"" + keyPath + "\"\n\nconst ok = p." + name + " == " + lit + "\n\nvar _ = map[bool]int{false: 0, ok: 1}\n"
	os.WriteFile(filepath.Join(dir, "x.go"), []byte(src), 0o644)
	goos, goarch, _ := strings.Cut(plat, "/")
	cmd := exec.Command("go", "build", "./...")
	cmd.Dir = dir
	cmd.Env = append(os.Environ(), "GOOS="+goos, "GOARCH="+goarch, "CGO_ENABLED=0", "GOFLAGS=-mod=mod", "GOWORK=off")
	out, err := cmd.CombinedOutput()
	switch {
	case err == nil:
		return "equal"
	case bytes.Contains(out, []byte("duplicate key")):
		return "different"
	}
	return ""
}

func entryMode(inv string, e *bindfacts.Entry) string {
	switch inv {
	case "NameIdentity":
		return fmt.Sprintf("NameIdentity: bound to %s.%s", e.RefPkg, e.RefName)
	case "ClassAgrees":
		return fmt.Sprintf("ClassAgrees: %s %s bound in form %s", e.Real.Class, map[bool]string{true: "(generic)", false: ""}[e.Real.Generic], e.Form)
	case "VarsByAddress":
		return fmt.Sprintf("VarsByAddress: %s bound in form %s", e.Real.Class, e.Form)
	case "ConstExact":
		return "ConstExact: literal " + trunc(e.Lit, 40) + " (" + e.Tok + ") is not the value " + trunc(e.Real.Exact, 40)
	}
	return inv
}

func trunc(s string, n int) string {
	if len(s) > n {
		return s[:n] + "..."
	}
	return s
}

func failEntry(c *fw.Ctx, ls *loaders, inv string, e *bindfacts.Entry, expAll []Expect) {
	rc := replayCase{Invariant: inv, Table: e.Table, Rel: e.Rel, Plat: e.Plat, File: e.File, Key: e.Key, Name: e.Name, Fact: e}
	trigger := fmt.Sprintf("%s %s[%s]", e.File, e.Key, e.Name)
	switch inv {
	case "NameIdentity":
		if id, name, ok := lexicalRef(c.Repo, e); ok {
			// the textual route must agree with go/types about WHAT is referenced; what
			// should be referenced is the specification's business
			rc.Reference = fmt.Sprintf("source text references %s.%s", id, name)
			if name != e.RefName || (id == "") != e.RefLocal {
				c.SpecError("NameIdentity: go/types resolves %s[%s] in %s to %s.%s but the source text says %s.%s", e.Key, e.Name, e.File, e.RefPkg, e.RefName, id, name)
				return
			}
			c.DisagreeChk++
		}
	case "ConstExact":
		if e.Real.Class == "const" && e.Bound != "" && e.Tok != "STRING" || e.Tok == "STRING" {
			switch constEqual(c, e.Plat, e.KeyPath, e.Base, e.Lit) {
			case "equal":
				c.SpecError("ConstExact: the specification rejects %s[%s] = %s in %s but the compiler finds it equal to %s.%s", e.Key, e.Name, trunc(e.Lit, 60), e.File, e.KeyPath, e.Name)
				return
			case "different":
				rc.Reference = "the compiler evaluates " + e.KeyPath + "." + e.Name + " == <literal> to false"
				c.DisagreeChk++
			}
		}
	case "ClassAgrees", "VarsByAddress":
		if e.Plat == curPlat() && e.Real.Exists && e.Real.Exported && !e.Real.Generic {
			nc := nativeClass(c, e.KeyPath, e.Base)
			rc.Reference = "the compiler treats " + e.KeyPath + "." + e.Base + " as " + nc
			if nc != e.Real.Class {
				c.SpecError("%s: go/types says %s.%s is a %s, the compiler says %s", inv, e.KeyPath, e.Base, e.Real.Class, nc)
				return
			}
			c.DisagreeChk++
		}
	case "NoExtras":
		later := -1
		for _, x := range expAll {
			if x.KeyPath == e.KeyPath && x.Name == e.Base && (x.Plat == "any" || x.Plat == e.Plat) && (later < 0 || x.Rel < later) {
				later = x.Rel
			}
		}
		if later >= 0 {
			rc.Reference = fmt.Sprintf("GOROOT/api records %s.%s from go1.%d on", e.KeyPath, e.Base, later)
			c.DisagreeChk++
			c.Fail(trigger, fmt.Sprintf("NoExtras: bound in a go1.%d table, declared from go1.%d on", e.Rel, later), rc)
			return
		}
		if e.Real.Exists {
			c.SpecError("NoExtras: %s.%s (%s) exists in GOROOT but no file of GOROOT/api records it for %s", e.KeyPath, e.Base, e.File, e.Plat)
			return
		}
	}
	c.Fail(trigger, entryMode(inv, e), rc)
}

func failMissing(c *fw.Ctx, ls *loaders, fs []*bindfacts.Facts, rel int, plat, pkg, name string) {
	file := ""
	table := ""
	for _, f := range fs {
		if f.Unit.Rel == rel && f.Unit.Plat == plat {
			for i := range f.Entries {
				if f.Entries[i].KeyPath == pkg {
					file, table = f.Entries[i].File, f.Entries[i].Table
					break
				}
			}
		}
		if file != "" {
			break
		}
	}
	rc := replayCase{Invariant: "Complete", Table: table, Rel: rel, Plat: plat, File: file, Key: pkg, Name: name}
	p, err := ls.get(plat).Import(pkg)
	if err != nil || p == nil {
		c.SpecError("Complete: cannot load %s for %s: %v", pkg, plat, err)
		return
	}
	o := p.Scope().Lookup(name)
	r := bindfacts.Describe(o)
	if !r.Exists || r.Generic {
		c.SpecError("Complete: GOROOT/api (<= go1.%d) declares %s.%s for %s, GOROOT source has %+v", rel, pkg, name, plat, r)
		return
	}
	if tn, ok := o.(*types.TypeName); ok && r.Iface == "constraint" {
		_ = tn
		c.SpecError("Complete: %s.%s is a constraint interface; GOROOT/api does not mark it", pkg, name)
		return
	}
	rc.Reference = fmt.Sprintf("GOROOT source (%s) declares %s.%s as %s", plat, pkg, name, r.Class)
	c.DisagreeChk++
	c.Fail(fmt.Sprintf("%s %s[%s]", file, pkg, name), fmt.Sprintf("Complete: %s of go1.%d not bound", r.Class, rel), rc)
}

// ---------------------------------------------------------------------------------
// run-time cross-check (thorough tier): the compiled tables of the current platform are
// compared, entry by entry, with the symbols the facts name.

type crossRow struct {
	Table, Key, Name, Class string
}

func activeRel() int {
	var minor int
	fmt.Sscanf(runtime.Version(), "go1.%d", &minor)
	if minor >= 22 {
		return 22
	}
	return 21
}

// packages of the quick run-time cross-check
var quickCross = map[string]bool{"fmt": true, "os": true, "log": true, "flag": true, "strings": true, "math": true, "io": true,
	"sort": true, "errors": true, "time": true, "bufio": true, "bytes": true, "strconv": true, "sync": true, "os/signal": true, "log/slog": true}

func runtimeCross(c *fw.Ctx, fs []*bindfacts.Facts, only *replayCase) error {
	t0 := time.Now()
	rel := activeRel()
	imports := map[string]string{}
	alias := func(path string) string {
		if a, ok := imports[path]; ok {
			return a
		}
		a := fmt.Sprintf("p%d", len(imports))
		imports[path] = a
		return a
	}
	var rows bytes.Buffer
	n := 0
	skippedBig := 0
	byKey := map[string]*bindfacts.Entry{}
	for _, f := range fs {
		u := f.Unit
		if u.Plat != curPlat() || (u.Rel != rel && u.Rel != 0) {
			continue
		}
		if u.Table == "stdlib" && strings.Contains(strings.Join(u.Files, " "), "log_syslog") && runtime.GOOS == "windows" {
			continue
		}
		for i := range f.Entries {
			e := &f.Entries[i]
			if !e.Real.Exists || e.Real.Generic || e.Real.Class == "builtin" {
				continue
			}
			if only != nil && (only.Key != e.Key || only.Name != e.Name || only.Table != e.Table) {
				continue
			}
			if only == nil && c.Quick() && !quickCross[e.KeyPath] {
				continue
			}
			tab := map[string]string{"stdlib": "stdlib.Symbols", "syscall": "ysyscall.Symbols", "unrestricted": "yunrestricted.Symbols", "unsafe": "yunsafe.Symbols"}[e.Table]
			if e.KeyPath == "unsafe" {
				if e.Name != "Pointer" {
					continue
				}
			}
			a := alias(e.KeyPath)
			id := fmt.Sprintf("%s|%s|%s", e.Table, e.Key, e.Name)
			byKey[id] = e
			sym := fmt.Sprintf("%s[%q][%q]", tab, e.Key, e.Name)
			q := a + "." + e.Base
			switch {
			case e.Under:
				impl := e.IfaceUnexported == 0
				fmt.Fprintf(&rows, "\twrapper(%q, %s, reflect.TypeOf((*%s)(nil)).Elem(), %v)\n", id, sym, q, impl)
			case e.RefLocal && e.Real.Class == "func":
				fmt.Fprintf(&rows, "\treplacedFunc(%q, %s, reflect.ValueOf(%s), yunrestricted.Symbols[%q][%q])\n", id, sym, q, e.Key, e.Name)
			case e.RefLocal && e.Real.Class == "type":
				fmt.Fprintf(&rows, "\treplacedType(%q, %s, reflect.TypeOf((*%s)(nil)), yunrestricted.Symbols[%q][%q])\n", id, sym, q, e.Key, e.Name)
			case e.Real.Class == "func":
				fmt.Fprintf(&rows, "\tfn(%q, %s, reflect.ValueOf(%s))\n", id, sym, q)
			case e.Real.Class == "var":
				fmt.Fprintf(&rows, "\tvr(%q, %s, reflect.ValueOf(&%s))\n", id, sym, q)
			case e.Real.Class == "type":
				fmt.Fprintf(&rows, "\ttp(%q, %s, reflect.TypeOf((*%s)(nil)))\n", id, sym, q)
			case e.Real.Class == "const" && !(e.Real.Untyped && e.Form == "lit"):
				fmt.Fprintf(&rows, "\ttypedConst(%q, %s, reflect.ValueOf(%s))\n", id, sym, q)
			case e.Real.Class == "const":
				switch e.Real.CKind {
				case "int", "rune":
					v, ok := new(big.Int).SetString(e.Real.Exact, 10)
					switch {
					case ok && v.IsInt64():
						fmt.Fprintf(&rows, "\tuconst(%q, %s, constant.MakeInt64(%s))\n", id, sym, q)
					case ok && v.IsUint64():
						fmt.Fprintf(&rows, "\tuconst(%q, %s, constant.MakeUint64(%s))\n", id, sym, q)
					default:
						skippedBig++
						continue
					}
				case "float":
					fmt.Fprintf(&rows, "\tufloat(%q, %s, %s)\n", id, sym, q)
				case "string":
					fmt.Fprintf(&rows, "\tuconst(%q, %s, constant.MakeString(%s))\n", id, sym, q)
				default:
					continue
				}
			default:
				continue
			}
			n++
		}
	}
	var src bytes.Buffer
	src.WriteString("// generated by the C14 check: run-time cross-check of the compiled symbol tables\npackage main\n\nimport (\n\t\"fmt\"\n\t\"go/constant\"\n\t\"go/token\"\n\t\"reflect\"\n\n")
	src.WriteString("\t\"github.com/traefik/yaegi/stdlib\"\n\tysyscall \"github.com/traefik/yaegi/stdlib/syscall\"\n\tyunrestricted \"github.com/traefik/yaegi/stdlib/unrestricted\"\n\tyunsafe \"github.com/traefik/yaegi/stdlib/unsafe\"\n\n")
	var paths []string
	for p := range imports {
		paths = append(paths, p)
	}
	sort.Strings(paths)
	for _, p := range paths {
		fmt.Fprintf(&src, "\t%s %q\n", imports[p], p)
	}
	src.WriteString("\t\"bytes\"\n\t\"github.com/traefik/yaegi/interp\"\n")
	src.WriteString(")\n\n" + crossPrelude + "\nfunc main() {\n\texercise()\n")
	src.Write(rows.Bytes())
	src.WriteString("\tfmt.Printf(\"DONE %d\\n\", checked)\n}\n")
	dir, err := os.MkdirTemp(c.Scratch, "cross-rt-")
	if err != nil {
		return err
	}
	defer os.RemoveAll(dir)
	os.WriteFile(filepath.Join(dir, "go.mod"), []byte("module crossrt\n\ngo 1.21\n\nrequire github.com/traefik/yaegi v0.0.0\n\nreplace github.com/traefik/yaegi => "+c.Repo+"\n"), 0o644)
	os.WriteFile(filepath.Join(dir, "main.go"), src.Bytes(), 0o644)
	cmd := exec.Command("go", "build", "-o", "crossrt", ".")
	cmd.Dir = dir
	cmd.Env = append(os.Environ(), "GOFLAGS=-mod=mod", "GOPROXY=off", "GOSUMDB=off", "GOTOOLCHAIN=local", "GOWORK=off")
	if out, err := cmd.CombinedOutput(); err != nil {
		return fmt.Errorf("run-time cross-check does not build: %v\n%s", err, tail(string(out)))
	}
	run := exec.Command(filepath.Join(dir, "crossrt"))
	run.Dir = dir
	out, err := run.CombinedOutput()
	if err != nil {
		return fmt.Errorf("run-time cross-check failed to run: %v\n%s", err, tail(string(out)))
	}
	done := false
	bad := 0
	for _, line := range strings.Split(string(out), "\n") {
		switch {
		case strings.HasPrefix(line, "DONE "):
			var k int
			fmt.Sscanf(line, "DONE %d", &k)
			if k != n {
				return fmt.Errorf("run-time cross-check compared %d of %d entries", k, n)
			}
			done = true
		case strings.HasPrefix(line, "BAD "):
			var m struct{ ID, What string }
			if json.Unmarshal([]byte(line[4:]), &m) != nil {
				continue
			}
			bad++
			e := byKey[m.ID]
			if e == nil {
				// the exercise of the interpreters itself failed: the machinery's problem, not a binding's
				return fmt.Errorf("run-time cross-check: %s: %s", m.ID, m.What)
			}
			c.Fail(fmt.Sprintf("%s %s[%s]", e.File, e.Key, e.Name), "run-time: "+m.What,
				replayCase{Invariant: "RunTime", Table: e.Table, Rel: e.Rel, Plat: e.Plat, File: e.File, Key: e.Key, Name: e.Name, Fact: e, Reference: m.What})
		}
	}
	if !done {
		return fmt.Errorf("run-time cross-check did not finish:\n%s", tail(string(out)))
	}
	c.TracesVsImpl += int64(n)
	c.Extra["runtime_cross_check"] = map[string]any{"entries_compared_by_reflect": n, "mismatches": bad, "release": rel, "platform": curPlat(),
		"constants_beyond_64_bits_not_compared": skippedBig, "wall_s": time.Since(t0).Seconds()}
	fmt.Printf("run-time cross-check: %d entries of %s go1.%d compared by reflect, %d mismatches (%.1fs)\n", n, curPlat(), rel, bad, time.Since(t0).Seconds())
	return nil
}

const crossPrelude = `var checked int

// exercise: the shipped tables must denote the symbols they are named after whatever the
// interpreters of the process have done with them. Two interpreters with different streams,
// environments and arguments load every table and run a script that prints, logs and touches
// the environment BEFORE the tables are compared with the native symbols.
func exercise() {
	for k := 0; k < 2; k++ {
		var out bytes.Buffer
		i := interp.New(interp.Options{Stdout: &out, Stderr: &out, Env: []string{fmt.Sprintf("K=%d", k)}, Args: []string{"prog", fmt.Sprint(k)}})
		for _, t := range []interp.Exports{stdlib.Symbols, ysyscall.Symbols, yunsafe.Symbols, yunrestricted.Symbols} {
			if err := i.Use(t); err != nil {
				fmt.Printf("BAD {\"ID\":\"exercise\",\"What\":%q}\n", err.Error())
			}
		}
		for _, chunk := range []string{"import (\"fmt\"; \"log\"; \"os\")\nfunc run() { fmt.Println(os.Getenv(\"K\"), os.Args); log.Print(\"x\"); log.Default().Print(\"y\"); os.Setenv(\"Z\", \"1\") }", "run()"} {
			if _, err := i.Eval(chunk); err != nil {
				fmt.Printf("BAD {\"ID\":\"exercise\",\"What\":%q}\n", err.Error())
			}
		}
	}
}

var _, _, _, _ = stdlib.Symbols, ysyscall.Symbols, yunrestricted.Symbols, yunsafe.Symbols

func bad(id, what string) { fmt.Printf("BAD {\"ID\":%q,\"What\":%q}\n", id, what) }

func ok(id string, sym reflect.Value) bool {
	checked++
	if !sym.IsValid() {
		bad(id, "no such entry in the compiled table")
		return false
	}
	return true
}

func fn(id string, sym, nat reflect.Value) {
	if !ok(id, sym) {
		return
	}
	if sym.Kind() != reflect.Func || sym.Type() != nat.Type() || sym.Pointer() != nat.Pointer() {
		bad(id, "entry is not the function of that name")
	}
}

func vr(id string, sym, natAddr reflect.Value) {
	if !ok(id, sym) {
		return
	}
	if !sym.CanAddr() || sym.Addr().Type() != natAddr.Type() || sym.Addr().Pointer() != natAddr.Pointer() {
		bad(id, "entry is not the variable of that name (address differs)")
	}
}

func tp(id string, sym reflect.Value, nat reflect.Type) {
	if !ok(id, sym) {
		return
	}
	if sym.Type() != nat {
		bad(id, "entry is not the type of that name")
	}
}

func typedConst(id string, sym, nat reflect.Value) {
	if !ok(id, sym) {
		return
	}
	if sym.Type() != nat.Type() || !sym.Type().Comparable() || sym.Interface() != nat.Interface() {
		bad(id, "entry is not the typed constant of that name")
	}
}

func uconst(id string, sym reflect.Value, nat constant.Value) {
	if !ok(id, sym) {
		return
	}
	v, isConst := sym.Interface().(constant.Value)
	if !isConst || v.Kind() != nat.Kind() || !constant.Compare(v, token.EQL, nat) {
		bad(id, fmt.Sprintf("constant value %v differs from the compiled value %v", sym.Interface(), nat))
	}
}

func ufloat(id string, sym reflect.Value, nat float64) {
	if !ok(id, sym) {
		return
	}
	v, isConst := sym.Interface().(constant.Value)
	if !isConst {
		bad(id, "not a constant.Value")
		return
	}
	f, _ := constant.Float64Val(v)
	if f != nat {
		bad(id, fmt.Sprintf("constant value %v differs (as float64) from the compiled value %v", v, nat))
	}
}

func replacedFunc(id string, sym, nat, unr reflect.Value) {
	if !ok(id, sym) {
		return
	}
	if sym.Kind() != reflect.Func || sym.Pointer() == nat.Pointer() {
		bad(id, "restricted name is bound to the original function")
	}
	if !unr.IsValid() || unr.Pointer() != nat.Pointer() {
		bad(id, "the unrestricted table does not bind the original function")
	}
}

func replacedType(id string, sym reflect.Value, nat reflect.Type, unr reflect.Value) {
	if !ok(id, sym) {
		return
	}
	if sym.Type() == nat {
		bad(id, "restricted name is bound to the original type")
	}
	if !unr.IsValid() || unr.Type() != nat {
		bad(id, "the unrestricted table does not bind the original type")
	}
}

func wrapper(id string, sym reflect.Value, iface reflect.Type, implements bool) {
	if !ok(id, sym) {
		return
	}
	if sym.Kind() != reflect.Ptr || sym.Type().Elem().Kind() != reflect.Struct {
		bad(id, "wrapper entry is not a pointer to a struct")
		return
	}
	if got := sym.Type().Elem().Implements(iface); got != implements {
		bad(id, fmt.Sprintf("wrapper implements its interface: %v, expected %v", got, implements))
	}
}
`
