// Check for property C14: every standard-library binding denotes the symbol it is named
// after. Fact validation (DESIGN 2.1 F): the binding files are parsed and type-checked
// against GOROOT source for the platform each file targets, one fact per entry / wrapper
// method / unit is written as ndjson, and TLC evaluates the invariants of
// spec/bind/Bindings.tla over them, shard by shard. The thorough tier adds a run-time
// cross-check of stdlib.Symbols for the current platform.
package main

import (
	"bytes"
	"encoding/json"
	"fmt"
	"os"
	"runtime"
	"sort"
	"strings"
	"sync"
	"time"

	"verif/fw"
	"verif/fw/bindfacts"
)

func main() {
	fw.Main("C14", "model_checking", run)
}

type verdict = bindfacts.Verdict

type shard struct {
	name    string
	facts   []*bindfacts.Facts
	expects []Expect
}

const (
	trigInexact = "untyped float constant that is not a dyadic rational"
	modeInexact = "bound to the binary rounding that fixConst prints, not to exactly its value"
)

// replayCase identifies one fact of the tree.
type replayCase struct {
	Invariant string `json:"invariant"`
	Table     string `json:"table"`
	Rel       int    `json:"rel"`
	Plat      string `json:"plat"`
	File      string `json:"file"`
	Key       string `json:"key"`
	Name      string `json:"name"`
	Method    string `json:"method,omitempty"`
	Fact      any    `json:"fact,omitempty"`
	Reference string `json:"reference,omitempty"`
}

// matches reports whether a violator is the case being replayed (always, outside replay).
func (rc *replayCase) matches(inv, key, name, method string) bool {
	if rc == nil {
		return true
	}
	if rc.Invariant == "Complete" {
		return inv == "Complete" && rc.Key == key && rc.Name == name
	}
	return rc.Key == key && rc.Name == name && rc.Method == method
}

func run(c *fw.Ctx) error {
	goroot := runtime.GOROOT()
	c.Rule = "one fact per entry Symbols[key][name] of every binding file (all releases, all platforms), per method of every interface wrapper and per type-checked unit; every fact is evaluated by TLC against the invariants of Bindings.tla; an entry counts as non-trivial always (it carries the class of the bound expression, the resolved reference and the description of the real object); distinct by (file, key, name[, method])"
	c.Assumptions = []string{
		"facts are extracted with go/parser + go/types; bound packages are type-checked from GOROOT source (" + runtime.Version() + ") for the GOOS/GOARCH in each file name, cgo off, function bodies of dependencies ignored",
		"the go1_21 tables are resolved against the installed GOROOT; completeness is judged against GOROOT/api/go1*.txt up to the release a file targets, minus api/except.txt, on the platforms cmd/api records (ApiPlatforms in Bindings.tla)",
		"per-platform syscall/unrestricted files are checked together with a synthetic declaration of Symbols; reflect, go/constant and go/token are taken from the host platform",
		"entries under keys github.com/traefik/yaegi/... and \".\" describe the interpreter itself and are not standard-library bindings (skipped, counted)",
		"package unsafe is not in GOROOT/api: its expected names come from go/types.Unsafe",
	}
	allPlat := true
	only := ""
	var rc *replayCase
	if c.Replay != "" {
		rc = &replayCase{}
		if err := c.LoadReplay(rc); err != nil {
			return err
		}
		only = rc.File
	}
	t0 := time.Now()
	us, err := units(c.Repo, allPlat)
	if err != nil {
		return err
	}
	if only != "" {
		var keep []bindfacts.Unit
		for _, u := range us {
			for _, f := range u.Files {
				if u.Prefix+f == only && u.Table == rc.Table && u.Rel == rc.Rel && u.Plat == rc.Plat {
					keep = append(keep, u)
					break
				}
			}
		}
		if len(keep) == 0 {
			return fmt.Errorf("replay: no unit holds %s (%s go1.%d %s)", only, rc.Table, rc.Rel, rc.Plat)
		}
		us = keep
	}
	fs, ls, err := extractAll(us, 16)
	if err != nil {
		return err
	}
	tExtract := time.Since(t0)
	expects, err := loadAPI(goroot, 22)
	if err != nil {
		return err
	}
	expAll := expects
	for r := 23; r < 60; r++ {
		x, err := loadAPI(goroot, r)
		if err != nil {
			break
		}
		expAll = x
	}
	// interface methods: first release that records them (reflect.Type grew in go1.23)
	for _, f := range fs {
		for i := range f.Entries {
			e := &f.Entries[i]
			for k, m := range e.IfaceMethods {
				e.IfaceSince[k] = ifaceSince[e.KeyPath+"."+e.Base+"."+m]
			}
		}
		for i := range f.Methods {
			m := &f.Methods[i]
			if len(m.Key) > 0 && m.InIface {
				kp := m.Key[:strings.LastIndex(m.Key, "/")]
				m.Since = ifaceSince[kp+"."+strings.TrimPrefix(m.Name, "_")+"."+m.Method]
			}
		}
	}
	// shards
	shards := map[string]*shard{}
	var names []string
	nsys := 0
	sysShard := map[string]string{}
	for _, f := range fs {
		sn := f.Unit.Shard
		if f.Unit.Table == "syscall" || (f.Unit.Table == "unrestricted" && f.Unit.Rel != 0) {
			// a few platforms per JVM
			if _, ok := sysShard[f.Unit.Plat]; !ok {
				sysShard[f.Unit.Plat] = fmt.Sprintf("syscall-%02d", nsys/4)
				nsys++
			}
			sn = sysShard[f.Unit.Plat]
		}
		s := shards[sn]
		if s == nil {
			s = &shard{name: sn}
			shards[sn] = s
			names = append(names, sn)
		}
		s.facts = append(s.facts, f)
	}
	sort.Strings(names)
	for _, s := range shards {
		paths := map[string]bool{}
		plats := map[string]bool{"any": true}
		for _, f := range s.facts {
			plats[f.Unit.Plat] = true
			for i := range f.Entries {
				paths[f.Entries[i].KeyPath] = true
			}
		}
		for _, x := range expects {
			if paths[x.KeyPath] && plats[x.Plat] {
				s.expects = append(s.expects, x)
			}
		}
	}
	// TLC per shard, in parallel JVMs
	type res struct {
		v    *verdict
		err  error
		wall time.Duration
	}
	results := make([]res, len(names))
	sem := make(chan struct{}, 12)
	var wg sync.WaitGroup
	tT := time.Now()
	for i, n := range names {
		wg.Add(1)
		sem <- struct{}{}
		go func(i int, s *shard) {
			defer wg.Done()
			defer func() { <-sem }()
			v, wall, err := runShard(c, s)
			results[i] = res{v, err, wall}
		}(i, shards[n])
	}
	wg.Wait()
	tTLC := time.Since(tT)
	// index of facts by id
	entries := map[string]*bindfacts.Entry{}
	methods := map[string]*bindfacts.Method{}
	unitsByID := map[string]*bindfacts.UnitFact{}
	nE, nM, skipped := 0, 0, 0
	for _, f := range fs {
		skipped += f.Skipped
		unitsByID[f.Unit.ID] = &f.Unit
		for i := range f.Entries {
			e := &f.Entries[i]
			entries[e.ID] = e
			nE++
			c.Count(e.File+"|"+e.Table+"|"+e.Key+"|"+e.Name, true)
			c.TracesVsImpl++
		}
		for i := range f.Methods {
			m := &f.Methods[i]
			methods[m.ID] = m
			nM++
			c.Count(m.File+"|"+m.Key+"|"+m.Name+"|"+m.Method, true)
			c.TracesVsImpl++
		}
	}
	var tlcSum time.Duration
	tot := verdict{}
	var inexactNames []string
	inexactChecked := false
	for i, r := range results {
		if r.err != nil {
			return fmt.Errorf("shard %s: %v", names[i], r.err)
		}
		tlcSum += r.wall
		v := r.v
		tot.Entries += v.Entries
		tot.Methods += v.Methods
		tot.Units += v.Units
		tot.Expects += v.Expects
		tot.Groups += v.Groups
		tot.JudgedGroups += v.JudgedGroups
		report := func(inv string, ids []string) {
			for _, id := range ids {
				if c.Violations() >= 40 {
					return
				}
				if e := entries[id]; e != nil {
					if rc.matches(inv, e.Key, e.Name, "") {
						failEntry(c, ls, inv, e, expAll)
					}
				} else if m := methods[id]; m != nil {
					if !rc.matches(inv, m.Key, m.Name, m.Method) {
						continue
					}
					rc := replayCase{Invariant: inv, File: m.File, Key: m.Key, Name: m.Name, Method: m.Method, Fact: m}
					if e := entryOf(fs, m); e != nil {
						rc.Table, rc.Rel, rc.Plat = e.Table, e.Rel, e.Plat
					}
					c.Fail(fmt.Sprintf("%s %s[%s].%s", m.File, m.Key, m.Name, m.Method), inv+": "+methodMode(m), rc)
				} else if u := unitsByID[id]; u != nil {
					c.Fail(fmt.Sprintf("unit %s go1.%d %s", u.Table, u.Rel, u.Plat), inv+": "+first(u.TypeErrors), replayCase{Invariant: inv, Table: u.Table, Rel: u.Rel, Plat: u.Plat, File: first(u.Files), Fact: u})
				} else {
					c.SpecError("TLC names fact %s that the harness did not write", id)
				}
			}
		}
		report("KeyWellFormed", v.KeyWellFormed)
		report("NameIdentity", v.NameIdentity)
		report("ClassAgrees", v.ClassAgrees)
		report("VarsByAddress", v.VarsByAddress)
		report("ConstExact", v.ConstExact)
		report("NoExtras", v.NoExtras)
		report("EmissionAgrees", v.EmissionAgrees)
		report("WrapperPresent", v.WrapperEntry)
		report("WrapperForwards", v.WrapperForwards)
		report("WrapperImplements", v.WrapperImplements)
		report("Compiles", v.Compiles)
		for _, m := range v.Complete {
			if !rc.matches("Complete", m.Pkg, m.Name, "") {
				continue
			}
			failMissing(c, ls, fs, m.Rel, m.Plat, m.Pkg, m.Name)
		}
		for _, m := range v.WrapperMismatch {
			if !rc.matches("WrapperPresent", m.Key, m.Name, "") {
				continue
			}
			c.Fail(fmt.Sprintf("%s %s[%s]", m.File, m.Key, m.Name), "WrapperPresent: interface type and wrapper entry do not come in pairs", replayCase{Invariant: "WrapperPresent", File: m.File, Key: m.Key, Name: m.Name})
		}
		for _, id := range v.Inexact {
			e := entries[id]
			if e == nil {
				c.SpecError("TLC names fact %s that the harness did not write", id)
				continue
			}
			inexactNames = append(inexactNames, fmt.Sprintf("%s.%s", e.KeyPath, e.Name))
			if !rc.matches("Inexact", e.Key, e.Name, "") {
				continue
			}
			if !inexactChecked && e.Plat == curPlat() {
				// the reference once per run: the compiler's exact constant arithmetic
				inexactChecked = true
				switch constEqual(c, e.Plat, e.KeyPath, e.Name, e.Lit) {
				case "equal":
					c.SpecError("Inexact: the compiler finds %s.%s equal to the bound literal", e.KeyPath, e.Name)
					continue
				case "different":
					c.DisagreeChk++
				}
			}
			c.Fail(trigInexact, modeInexact, replayCase{Invariant: "Inexact", Table: e.Table, Rel: e.Rel, Plat: e.Plat, File: e.File, Key: e.Key, Name: e.Name, Fact: e})
		}
	}
	if rc != nil {
		fmt.Printf("replay: %s %s[%s] re-extracted from %s and re-evaluated (%d entries in its unit)\n", rc.Invariant, rc.Key, rc.Name, rc.File, nE)
	}
	if tot.Entries != nE || tot.Methods != nM {
		c.SpecError("TLC read %d entries / %d methods, the harness wrote %d / %d", tot.Entries, tot.Methods, nE, nM)
	}
	// samples
	for _, f := range fs {
		if f.Unit.Table == "stdlib" && f.Unit.Rel == 22 {
			for i := range f.Entries {
				e := &f.Entries[i]
				if (e.Key == "os/os" && (e.Name == "Chown" || e.Name == "Args" || e.Name == "Exit")) || (e.Key == "math/math" && (e.Name == "MaxInt32" || e.Name == "Pi")) {
					c.Sample(e)
				}
			}
		}
	}
	sort.Strings(inexactNames)
	inexactNames = uniq(inexactNames)
	c.Exhaustive = true
	// observation only (not checked): untyped rune constants re-materialised with token INT
	nRune := 0
	for _, f := range fs {
		for i := range f.Entries {
			if e := &f.Entries[i]; e.Form == "lit" && e.Real.CKind == "rune" && e.Tok == "INT" {
				nRune++
			}
		}
	}
	c.Extra["facts"] = map[string]any{"entries": nE, "wrapper_methods": nM, "units": len(fs), "expect_facts_read_by_tlc": tot.Expects, "self_entries_skipped": skipped,
		"table_groups": tot.Groups, "table_groups_judged_for_completeness": tot.JudgedGroups, "observation_untyped_rune_constants_bound_as_INT": nRune}
	c.Extra["shards"] = len(names)
	c.Extra["time_extract_s"] = tExtract.Seconds()
	c.Extra["time_tlc_wall_s"] = tTLC.Seconds()
	c.Extra["time_tlc_sum_s"] = tlcSum.Seconds()
	c.Extra["platforms"] = "all platforms named by the binding files, both tiers"
	c.Extra["inexact_constants"] = inexactNames
	fmt.Printf("facts: %d entries, %d wrapper methods, %d units, %d shards; extract %.1fs, TLC wall %.1fs (sum %.1fs)\n", nE, nM, len(fs), len(names), tExtract.Seconds(), tTLC.Seconds(), tlcSum.Seconds())
	// the run-time cross-check: complete in the thorough tier, the packages the interpreter
	// itself patches or that every script uses (fmt, os, log, flag, ...) in the quick tier
	if c.Replay == "" || (rc != nil && rc.Invariant == "RunTime") {
		if err := runtimeCross(c, fs, rc); err != nil {
			return err
		}
	}
	return nil
}

func uniq(s []string) []string {
	var r []string
	for i, v := range s {
		if i == 0 || v != s[i-1] {
			r = append(r, v)
		}
	}
	return r
}

func first(s []string) string {
	if len(s) == 0 {
		return ""
	}
	return s[0]
}

func entryOf(fs []*bindfacts.Facts, m *bindfacts.Method) *bindfacts.Entry {
	for _, f := range fs {
		for i := range f.Entries {
			e := &f.Entries[i]
			if strings.HasPrefix(m.ID, e.ID+"M") && e.File == m.File && e.Name == m.Name {
				return e
			}
		}
	}
	return nil
}

func methodMode(m *bindfacts.Method) string {
	switch {
	case !m.InWrapper:
		return "interface method without wrapper method"
	case !m.InIface:
		return "wrapper method the interface does not have"
	case m.Callee != "W"+m.Method || !m.OnRecv:
		return "forwards to " + m.Callee
	case m.FieldSig != m.IfaceSig || m.MethSig != m.IfaceSig:
		return "signature differs from the interface method"
	case strings.Join(m.Args, ",") != strings.Join(m.Params, ","):
		return "arguments are not the parameters in order"
	case m.Spread != m.Variadic:
		return "variadic parameter not spread"
	case m.HasReturn != m.HasResults:
		return "return does not match results"
	}
	return "body is not a plain forward"
}

func runShard(c *fw.Ctx, s *shard) (*verdict, time.Duration, error) {
	var buf bytes.Buffer
	enc := json.NewEncoder(&buf)
	enc.SetEscapeHTML(false)
	for _, f := range s.facts {
		enc.Encode(f.Unit)
		for i := range f.Entries {
			e := f.Entries[i] // TLC does not need the fields that only serve reports
			e.Text, e.Shard, e.Line = "", "", 0
			enc.Encode(&e)
		}
		for i := range f.Methods {
			m := f.Methods[i]
			m.Shard, m.Line = "", 0
			enc.Encode(&m)
		}
	}
	for i := range s.expects {
		enc.Encode(&s.expects[i])
	}
	if d := os.Getenv("VERIF_C14_DUMP"); d != "" {
		os.MkdirAll(d, 0o755)
		os.WriteFile(d+"/"+s.name+".ndjson", buf.Bytes(), 0o644)
	}
	return bindfacts.RunTLC(c, "stdlib", buf.Bytes())
}

func tail(s string) string {
	if len(s) > 3000 {
		return s[len(s)-3000:]
	}
	return s
}
