package main

import (
	"fmt"
	"os"
	"path/filepath"
	"regexp"
	"runtime"
	"sort"
	"sync"

	"verif/fw/bindfacts"
)

var reBind = regexp.MustCompile(`^go1_(\d+)_(.*)\.go$`)
var reSys = regexp.MustCompile(`^go1_(\d+)_syscall_([a-z0-9]+)_([a-z0-9]+)\.go$`)

const symDecl = "import \"reflect\"\n\nvar Symbols = map[string]map[string]reflect.Value{}\n"

// units lists every binding unit of the tree at repo.
func units(repo string, allPlatforms bool) ([]bindfacts.Unit, error) {
	var us []bindfacts.Unit
	cur := runtime.GOOS + "/" + runtime.GOARCH
	std := filepath.Join(repo, "stdlib")
	ents, err := os.ReadDir(std)
	if err != nil {
		return nil, err
	}
	byRel := map[int][]string{}
	for _, e := range ents {
		if m := reBind.FindStringSubmatch(e.Name()); m != nil {
			var r int
			fmt.Sscan(m[1], &r)
			byRel[r] = append(byRel[r], e.Name())
		}
	}
	support := []string{"stdlib.go", "restricted.go", "maptypes.go", "wrapper-composed.go"}
	var rels []int
	for r := range byRel {
		rels = append(rels, r)
	}
	sort.Ints(rels)
	for _, r := range rels {
		us = append(us, bindfacts.Unit{Table: "stdlib", Rel: r, Plat: cur, Dir: std, Prefix: "stdlib/", Files: byRel[r], Support: support, Shard: fmt.Sprintf("stdlib-go1.%d", r)})
	}
	for _, sub := range []string{"syscall", "unrestricted"} {
		dir := filepath.Join(std, sub)
		ents, err := os.ReadDir(dir)
		if err != nil {
			return nil, err
		}
		for _, e := range ents {
			m := reSys.FindStringSubmatch(e.Name())
			if m == nil {
				continue
			}
			var r int
			fmt.Sscan(m[1], &r)
			plat := m[2] + "/" + m[3]
			if !allPlatforms && plat != cur {
				continue
			}
			us = append(us, bindfacts.Unit{Table: sub, Rel: r, Plat: plat, PlatDep: true, Dir: dir, Prefix: "stdlib/" + sub + "/", Files: []string{e.Name()},
				Extra: map[string]string{"symbols_decl.go": "package " + sub + "\n\n" + symDecl}, Shard: fmt.Sprintf("%s-%s_%s", sub, m[2], m[3])})
		}
	}
	us = append(us, bindfacts.Unit{Table: "unrestricted", Rel: 0, Plat: cur, Dir: filepath.Join(std, "unrestricted"), Prefix: "stdlib/unrestricted/", Files: []string{"unrestricted.go"}, Shard: "stdlib-hand"})
	udir := filepath.Join(std, "unsafe")
	ents, err = os.ReadDir(udir)
	if err != nil {
		return nil, err
	}
	for _, e := range ents {
		if m := reBind.FindStringSubmatch(e.Name()); m != nil {
			var r int
			fmt.Sscan(m[1], &r)
			us = append(us, bindfacts.Unit{Table: "unsafe", Rel: r, Plat: cur, Dir: udir, Prefix: "stdlib/unsafe/", Files: []string{e.Name(), "unsafe.go"}, Shard: "stdlib-hand"})
		}
	}
	return us, nil
}

type loaders struct {
	mu   sync.Mutex
	base *bindfacts.Loader
	m    map[string]*bindfacts.Loader
}

func newLoaders() *loaders {
	return &loaders{base: bindfacts.NewLoader(runtime.GOOS, runtime.GOARCH, nil), m: map[string]*bindfacts.Loader{}}
}

func (ls *loaders) get(plat string) *bindfacts.Loader {
	if plat == runtime.GOOS+"/"+runtime.GOARCH {
		return ls.base
	}
	ls.mu.Lock()
	defer ls.mu.Unlock()
	if l := ls.m[plat]; l != nil {
		return l
	}
	var goos, goarch string
	for i := range plat {
		if plat[i] == '/' {
			goos, goarch = plat[:i], plat[i+1:]
		}
	}
	l := bindfacts.NewLoader(goos, goarch, ls.base, "reflect", "go/constant", "go/token")
	ls.m[plat] = l
	return l
}

func extractAll(us []bindfacts.Unit, par int) ([]*bindfacts.Facts, *loaders, error) {
	ls := newLoaders()
	res := make([]*bindfacts.Facts, len(us))
	errs := make([]error, len(us))
	sem := make(chan struct{}, par)
	var wg sync.WaitGroup
	for i := range us {
		wg.Add(1)
		sem <- struct{}{}
		go func(i int) {
			defer wg.Done()
			defer func() { <-sem }()
			l := ls.get(us[i].Plat)
			res[i], errs[i] = bindfacts.Extract(us[i], l, l, fmt.Sprintf("u%d.", i))
		}(i)
	}
	wg.Wait()
	for _, e := range errs {
		if e != nil {
			return nil, nil, e
		}
	}
	return res, ls, nil
}
