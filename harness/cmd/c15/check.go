package main

import (
	"encoding/json"
	"fmt"
	"os"
	"sort"
	"strings"
	"time"

	"verif/fw"
)

// outcome of comparing one observation with the model
type outcome struct {
	ok     bool
	mode   string   // failure mode when !ok
	names  []string // observed log without the '!' marks
	zeroes bool     // some line carried a '!' (a dependency was read as zero)
	marked []string // the lines that carried it
}

func parseLog(out string) (names []string, marked []string, junk bool) {
	for _, l := range strings.Split(strings.TrimSpace(out), "\n") {
		if l == "" {
			continue
		}
		n := strings.TrimRight(l, "!")
		if n != l {
			marked = append(marked, n)
		}
		var p, d, s int
		if k, err := fmt.Sscanf(n, "%d.%d.%d", &p, &d, &s); k != 3 || err != nil || fmt.Sprintf("%d.%d.%d", p, d, s) != n {
			junk = true
		}
		names = append(names, n)
	}
	return
}

func eqStrings(a, b []string) bool {
	if len(a) != len(b) {
		return false
	}
	for i := range a {
		if a[i] != b[i] {
			return false
		}
	}
	return true
}

func sameMultiset(a, b []string) bool {
	if len(a) != len(b) {
		return false
	}
	x := append([]string(nil), a...)
	y := append([]string(nil), b...)
	sort.Strings(x)
	sort.Strings(y)
	return eqStrings(x, y)
}

// cyclicPkgs: packages of the case that have an initialisation cycle (model level,
// recomputed only to tell which packages must not have run in a rejected program).
func (g *beh) cyclicPkgs() map[int]bool {
	out := map[int]bool{}
	for pi := range g.G {
		if _, loop := g.mech(pi+1, defects{}); loop {
			out[pi+1] = true
		}
	}
	return out
}

// judge compares what was observed (interpreter or reference) with the model.
func (g *beh) judge(out, errText string) outcome {
	names, marked, junk := parseLog(out)
	zeroes := len(marked) > 0
	o := outcome{names: names, zeroes: zeroes, marked: marked}
	if junk {
		o.mode = "unexpected output"
		return o
	}
	if g.V == "reject" {
		if errText == "" {
			o.mode = "initialisation cycle accepted and run"
			return o
		}
		cyc := g.cyclicPkgs()
		for _, n := range names {
			var p, d, s int
			fmt.Sscanf(n, "%d.%d.%d", &p, &d, &s)
			if cyc[p] {
				o.mode = "rejected, but initialisers of the cyclic package had run"
				return o
			}
		}
		o.ok = true
		return o
	}
	if errText != "" {
		o.mode = "error instead of a run"
		return o
	}
	exp := g.expectedLogs()
	for _, e := range exp {
		if eqStrings(e, names) {
			if zeroes {
				o.mode = modeZero
				return o
			}
			o.ok = true
			return o
		}
	}
	if len(exp) > 0 && sameMultiset(exp[0], names) {
		o.mode = "wrong order"
	} else {
		o.mode = "initialisers missing or repeated"
	}
	return o
}

func (g *beh) nontrivial() bool {
	if g.V == "reject" || len(g.G) > 1 {
		return true
	}
	last := ref{}
	for _, e := range g.Log {
		if e.S > 0 && (e.D < last.D || (e.D == last.D && e.S < last.S)) {
			return true
		}
		last = e
	}
	for _, d := range g.G[0].D {
		if d.F > 1 {
			return true
		}
		if isVarTag(d.K) {
			for _, r := range append(append([]ref(nil), d.R...), d.R2...) {
				if r.P == 0 && isFunTag(g.G[0].D[r.D-1].K) {
					return true
				}
			}
		}
	}
	return false
}

func (g *beh) replayDoc(fam string, o *obs, oc *outcome) map[string]any {
	doc := map[string]any{"g": g.G, "v": g.V, "log": g.Log, "ord": g.Ord, "family": fam, "files": g.files(renderOpts{}), "expected_logs": g.expectedLogs()}
	if o != nil {
		doc["observed"] = o
	}
	if oc != nil && !oc.ok {
		doc["mode"] = oc.mode
	}
	return doc
}

type failure struct {
	idx int
	o   obs
	oc  outcome
}

func check(c *fw.Ctx, all []kase) error {
	debug := os.Getenv("C15_DEBUG") != ""
	const chunk = 60
	var jobs []any
	for i := 0; i < len(all); i += chunk {
		j := i + chunk
		if j > len(all) {
			j = len(all)
		}
		gs := make([]beh, 0, chunk)
		for _, k := range all[i:j] {
			gs = append(gs, k.b)
		}
		jobs = append(jobs, gs)
	}
	t0 := time.Now()
	results := c.RunChildren("c15", jobs, 16, 180*time.Second, nil)
	if debug {
		fmt.Fprintf(os.Stderr, "interpreter runs: %d cases in %.1fs\n", len(all), time.Since(t0).Seconds())
	}
	// observations per case; a chunk whose child died is run again case by case, so
	// that only the case that kills the interpreter is blamed
	observed := make([]*obs, len(all))
	died := map[int]string{}
	var retry []int
	for ji, r := range results {
		var os_ []obs
		if r.Out != nil {
			json.Unmarshal(r.Out, &os_)
		}
		for x := range jobs[ji].([]beh) {
			idx := ji*chunk + x
			if r.Out == nil || x >= len(os_) {
				retry = append(retry, idx)
				continue
			}
			o := os_[x]
			observed[idx] = &o
		}
	}
	if len(retry) > 0 {
		var single []any
		for _, idx := range retry {
			single = append(single, []beh{all[idx].b})
		}
		for k, r := range c.RunChildren("c15", single, 16, 60*time.Second, nil) {
			var os_ []obs
			if r.Out != nil {
				json.Unmarshal(r.Out, &os_)
			}
			if len(os_) == 1 {
				observed[retry[k]] = &os_[0]
			} else {
				died[retry[k]] = r.Describe()
			}
		}
	}
	var fails []failure
	var agree []int
	samples := 0
	for idx := range all {
		g := &all[idx].b
		c.Count(all[idx].key, g.nontrivial())
		c.TracesVsImpl++
		if samples < 5 && g.nontrivial() && g.V == "done" && idx%7 == 0 {
			samples++
			c.Sample(map[string]any{"family": all[idx].family, "files": g.files(renderOpts{}), "expected_log": g.expectedLogs()[0]})
		}
		if observed[idx] == nil {
			fails = append(fails, failure{idx, obs{Err: "harness child " + died[idx]}, outcome{mode: "interpreter crashed or hung"}})
			continue
		}
		oc := g.judge(observed[idx].Out, observed[idx].Err)
		if oc.ok {
			agree = append(agree, idx)
			continue
		}
		fails = append(fails, failure{idx, *observed[idx], oc})
	}
	if debug {
		fmt.Fprintf(os.Stderr, "agree=%d disagree=%d\n", len(agree), len(fails))
	}
	return settle(c, all, fails, agree)
}

// triggers of the root causes the mechanism-level emulation knows (mech.go)
const nameLookupTrigger = "a variable refers to itself directly, or the package has several var _ = e, or a local variable shadows a package variable in an initialiser or function body"

var triggerOf = map[string]string{
	"Sweep":      "the specified order needs a restart at the earliest ready variable: a waiting variable is followed by ready ones in the same pass",
	"DirectOnly": "a dependency passes through the body of a function or method",
	"PairUnit":   "var a, b = x, y whose two variables are initialised apart by the specified order",
	"V2Hidden":   "a dependency on a variable declared by var a, b = f()",
	// three shapes of one root cause: identifiers of the whole declaration are looked
	// up by name in the package scope
	"SelfOK": nameLookupTrigger,
	"Shadow": nameLookupTrigger,
	"Blank":  nameLookupTrigger,
	"V2Read": "the body of a function, method or init function reads a variable declared by var a, b = f()",
}

const modeZero = "specified order, but a dependency read as zero"
const mechMode = "the log is exactly what the dependency sweep with this defect produces"
const readMode = "the read does not see the initialised value: zero, or a panic out of the API"

func settle(c *fw.Ctx, all []kase, fails []failure, agree []int) error {
	debug := os.Getenv("C15_DEBUG") != ""
	type att struct {
		set []string
		ok  bool
		sig string
	}
	atts := make([]att, len(fails))
	for i, f := range fails {
		g := &all[f.idx].b
		var set []string
		ok := false
		if f.oc.mode != modeZero {
			set, ok = g.attribute(f.oc.names, f.oc.marked, f.o.Err)
		} else {
			// the order is the specified one: the zero reads must be the second
			// variables of pairs that read the first one
			pr := g.pairSelfReaders()
			ok = true
			for _, m := range f.oc.marked {
				ok = ok && pr[m]
			}
			if ok {
				set = []string{"PairUnit"}
			}
		}
		if !ok {
			set, ok = g.attributeCut(f.oc.names, f.oc.zeroes, f.o.Err)
		}
		a := att{set: set, ok: ok}
		if ok {
			a.sig = strings.Join(set, "+")
		} else {
			a.sig = "unexplained"
		}
		atts[i] = a
	}
	// reference: bulk on every disagreement (beyond a cap: on every one that no listed
	// root cause predicts, on the first of every signature, and on an even sample of the
	// rest) and on a sample of the agreeing cases
	capN := c.Pick(1200, 8000)
	inBulk := make([]int, len(fails)) // index in bulk, -1 when not sent to the reference
	var bulk []*beh
	{
		want := make([]bool, len(fails))
		firstOf := map[string]bool{}
		n := 0
		for i, f := range fails {
			s := atts[i].sig + " / " + f.oc.mode
			if !atts[i].ok || !firstOf[s] {
				firstOf[s] = true
				want[i] = true
				n++
			}
		}
		if rest := len(fails) - n; rest > 0 {
			room := capN - n
			step := 1
			if room <= 0 {
				step = 0
			} else if rest > room {
				step = (rest + room - 1) / room
			}
			k := 0
			for i := range fails {
				if want[i] {
					continue
				}
				if step > 0 && k%step == 0 {
					want[i] = true
				}
				k++
			}
		}
		for i, f := range fails {
			inBulk[i] = -1
			if want[i] {
				inBulk[i] = len(bulk)
				bulk = append(bulk, &all[f.idx].b)
			}
		}
	}
	nFailBulk := len(bulk)
	nAgreeSample := 0
	if c.Replay == "" {
		step := c.Pick(60, 20)
		limit := c.Pick(250, 6000)
		for k := int(c.Seed) % step; k < len(agree) && nAgreeSample < limit; k += step {
			bulk = append(bulk, &all[agree[k]].b)
			nAgreeSample++
		}
	}
	t0 := time.Now()
	nat, err := nativeBulk(c, bulk)
	if err != nil {
		return err
	}
	if debug {
		fmt.Fprintf(os.Stderr, "bulk native: %d cases (%d agreeing sample) in %.1fs\n", len(bulk), nAgreeSample, time.Since(t0).Seconds())
	}
	bulkOK := make([]bool, len(bulk))
	for i := range bulk {
		ok, why := bulk[i].referenceAgrees(nat[i])
		if !ok {
			c.SpecError("specification vs toolchain: %s\nfiles: %v", why, bulk[i].files(renderOpts{}))
		}
		bulkOK[i] = ok
	}
	refOK := make([]bool, len(fails)) // corroborated by the reference
	for i := range fails {
		refOK[i] = inBulk[i] >= 0 && bulkOK[inBulk[i]]
	}
	c.Extra["disagreements_total"] = len(fails)
	c.Extra["disagreements_shown_to_the_reference"] = nFailBulk
	c.Extra["native_sample_of_agreeing_cases"] = nAgreeSample
	// reference, exact sources: the first cases of every signature and every unexplained one
	perSig := map[string]int{}
	var exactIdx []int
	for i, f := range fails {
		s := atts[i].sig + " / " + f.oc.mode
		lim := 1
		if !atts[i].ok {
			lim = 25
		}
		if perSig[s] < lim && (len(exactIdx) < 40 || !atts[i].ok) {
			perSig[s]++
			exactIdx = append(exactIdx, i)
		}
	}
	if c.Replay != "" && len(fails) == 0 {
		// a replayed case that now agrees is still shown to the reference
		g := &all[0].b
		ok, why := g.referenceAgrees(nativeExact(c, []*beh{g})[0])
		if !ok {
			c.SpecError("specification vs toolchain (exact sources): %s", why)
		}
	}
	var exact []*beh
	for _, i := range exactIdx {
		exact = append(exact, &all[fails[i].idx].b)
	}
	t0 = time.Now()
	for k, n := range nativeExact(c, exact) {
		ok, why := exact[k].referenceAgrees(n)
		if !ok {
			c.SpecError("specification vs toolchain (exact sources): %s\nfiles: %v", why, exact[k].files(renderOpts{}))
			refOK[exactIdx[k]] = false
		}
	}
	if debug {
		fmt.Fprintf(os.Stderr, "exact native: %d cases in %.1fs\n", len(exact), time.Since(t0).Seconds())
	}
	stats := map[string]int{}
	// single-cause cases first: the first case that hits a finding becomes its witness
	order := make([]int, len(fails))
	for i := range order {
		order[i] = i
	}
	sort.SliceStable(order, func(a, b int) bool { return len(atts[order[a]].set) < len(atts[order[b]].set) })
	for _, i := range order {
		f := fails[i]
		if !refOK[i] {
			continue
		}
		c.DisagreeChk++
		g := &all[f.idx].b
		rep := g.replayDoc(all[f.idx].family, &f.o, &f.oc)
		stats[atts[i].sig+" / "+f.oc.mode]++
		if !atts[i].ok {
			rep["attribution"] = "no listed root cause predicts this log"
			c.Fail("no listed root cause of the dependency sweep predicts the observed log", f.oc.mode, rep)
			continue
		}
		rep["attribution"] = atts[i].set
		for _, d := range atts[i].set {
			if d == "V2Read" {
				c.Fail(triggerOf[d], readMode, rep)
				continue
			}
			c.Fail(triggerOf[d], mechMode, rep)
		}
	}
	if len(stats) > 0 {
		c.Extra["disagreements_by_root_cause_and_mode"] = stats
	}
	if debug {
		var ks []string
		for k := range stats {
			ks = append(ks, k)
		}
		sort.Strings(ks)
		for _, k := range ks {
			fmt.Fprintf(os.Stderr, "  %6d  %s\n", stats[k], k)
		}
		shown := map[string]int{}
		for i, f := range fails {
			s := atts[i].sig + " / " + f.oc.mode
			if atts[i].ok {
				continue
			}
			if shown[s] >= 4 {
				continue
			}
			shown[s]++
			g := &all[f.idx].b
			fmt.Fprintf(os.Stderr, "---- %s [%s]\nexpected %v %s\nobserved %v err=%q\n", s, all[f.idx].family, g.expectedLogs(), g.V, f.oc.names, firstLine(f.o.Err))
			for p, content := range g.files(renderOpts{}) {
				fmt.Fprintf(os.Stderr, "== %s\n%s", p, content)
			}
		}
	}
	return nil
}
