package main

import (
	"fmt"
	"sort"
	"strings"
)

// Mechanism-level emulation of the interpreter's global-variable ordering
// (interp/cfg.go genGlobalVarDecl / getVarDependencies), parameterised by the defects
// found in it. With no defect it computes the specified order (it is then the same
// algorithm as NextSlot in InitOrder.tla). It is NEVER the oracle: it is used only to
// attribute a disagreement, already established against the model and corroborated by
// the native build, to a listed root cause (the trigger of a known finding), so that any
// disagreement the listed root causes do not predict exactly is reported as a violation.
type defects struct {
	Sweep      bool // every ready variable of a pass is emitted before the sweep restarts
	DirectOnly bool // dependencies through function and method bodies are not followed
	PairUnit   bool // `var a, b = x, y` is ordered as one unit
	V2Hidden   bool // variables of `var a, b = f()` are not seen as dependencies
	SelfOK     bool // a variable that refers to itself directly is not a cycle
	Shadow     bool // a local that shadows a package variable counts as a dependency on it
	Blank      bool // every `var _ = e` but the last waits for the last `var _` of the package
}

var defectNames = []string{"Sweep", "DirectOnly", "PairUnit", "V2Hidden", "SelfOK", "Shadow", "Blank"}

func (d defects) get(i int) bool {
	return []bool{d.Sweep, d.DirectOnly, d.PairUnit, d.V2Hidden, d.SelfOK, d.Shadow, d.Blank}[i]
}

func defectsFromMask(m int) defects {
	return defects{m&1 != 0, m&2 != 0, m&4 != 0, m&8 != 0, m&16 != 0, m&32 != 0, m&64 != 0}
}

type slot struct{ d, s int }

// mech returns the log of package p (variables, init functions, main) as the mechanism
// with the given defects produces it, or loop=true when it reports a definition loop.
// unitDeps: the units the mechanism orders in package p and what each waits for.
func (g *beh) unitDeps(p int, df defects) (units []slot, deps map[slot]map[slot]bool) {
	pk := &g.G[p-1]
	// units in declaration order
	for i, d := range pk.D {
		if !isVarTag(d.K) {
			continue
		}
		units = append(units, slot{i + 1, 1})
		if d.K == "pr" && !df.PairUnit {
			units = append(units, slot{i + 1, 2})
		}
	}
	unitOf := func(r ref) slot {
		if pk.D[r.D-1].K == "pr" && !df.PairUnit {
			return slot{r.D, r.S}
		}
		return slot{r.D, 1}
	}
	body := func(u slot) []ref {
		d := pk.D[u.d-1]
		if d.K == "pr" {
			if df.PairUnit {
				return append(append([]ref(nil), d.R...), d.R2...)
			}
			if u.s == 2 {
				return d.R2
			}
		}
		return d.R
	}
	deps = map[slot]map[slot]bool{}
	for _, u := range units {
		ds := map[slot]bool{}
		seenF := map[int]bool{}
		var walk func(rs []ref, sh int)
		walk = func(rs []ref, sh int) {
			if df.Shadow && sh > 0 {
				ds[slot{sh, 1}] = true
			}
			for _, r := range rs {
				if r.P != 0 {
					continue
				}
				t := pk.D[r.D-1]
				switch {
				case isVarTag(t.K):
					if t.K == "v2" && df.V2Hidden {
						continue
					}
					ds[unitOf(r)] = true
				case isFunTag(t.K):
					if df.DirectOnly || seenF[r.D] {
						continue
					}
					seenF[r.D] = true
					walk(t.R, t.Sh)
				}
			}
		}
		walk(body(u), pk.D[u.d-1].Sh)
		if df.Blank && pk.D[u.d-1].K == "vb" {
			last := 0
			for i, d := range pk.D {
				if d.K == "vb" {
					last = i + 1
				}
			}
			if last != u.d {
				ds[slot{last, 1}] = true
			}
		}
		if df.SelfOK {
			delete(ds, u)
		}
		deps[u] = ds
	}
	return units, deps
}

// mech returns the log of package p (variables, init functions, main) as the mechanism
// with the given defects produces it, or loop=true when it reports a definition loop.
func (g *beh) mech(p int, df defects) (log []string, loop bool) {
	pk := &g.G[p-1]
	n := len(pk.D)
	units, deps := g.unitDeps(p, df)
	inited := map[slot]bool{}
	var order []slot
	ready := func(u slot) bool {
		for d := range deps[u] {
			if !inited[d] {
				return false
			}
		}
		return true
	}
	rest := append([]slot(nil), units...)
	for len(rest) > 0 {
		var revisit []slot
		progressed := false
		for i, u := range rest {
			if ready(u) {
				order = append(order, u)
				inited[u] = true
				progressed = true
				if !df.Sweep {
					revisit = append(revisit, rest[i+1:]...)
					break
				}
				continue
			}
			revisit = append(revisit, u)
		}
		if !progressed {
			return nil, true
		}
		rest = revisit
	}
	for _, u := range order {
		log = append(log, fmt.Sprintf("%d.%d.%d", p, u.d, 1))
		if pk.D[u.d-1].K == "pr" {
			if df.PairUnit {
				log = append(log, fmt.Sprintf("%d.%d.%d", p, u.d, 2))
			} else if u.s == 2 {
				log[len(log)-1] = fmt.Sprintf("%d.%d.%d", p, u.d, 2)
			}
		}
	}
	for i := 0; i < n; i++ {
		if pk.D[i].K == "in" {
			log = append(log, fmt.Sprintf("%d.%d.0", p, i+1))
		}
	}
	if p == 1 {
		log = append(log, "1.0.0")
	}
	return log, false
}

// explains reports whether the observation is exactly what the mechanism with the
// given defects produces.
func (g *beh) explains(df defects, names []string, errText string) bool {
	per := map[int][]string{}
	loops := map[int]bool{}
	anyLoop := false
	for pi := range g.G {
		l, loop := g.mech(pi+1, df)
		per[pi+1], loops[pi+1] = l, loop
		anyLoop = anyLoop || loop
	}
	if anyLoop {
		if errText == "" {
			return false
		}
		// what ran must be complete packages the mechanism does not reject
		got := map[int][]string{}
		for _, nm := range names {
			var p, d, s int
			fmt.Sscanf(nm, "%d.%d.%d", &p, &d, &s)
			got[p] = append(got[p], nm)
		}
		for p, l := range got {
			if loops[p] || !eqStrings(l, per[p]) {
				return false
			}
		}
		return true
	}
	if errText != "" {
		return false
	}
	for _, o := range g.Ord {
		var l []string
		for _, p := range o {
			l = append(l, per[p]...)
		}
		if eqStrings(l, names) {
			return true
		}
	}
	return false
}

// attribute finds a smallest set of listed defects whose mechanism-level prediction is
// exactly the observation. ok=false: nothing listed predicts it.
func (g *beh) attribute(names []string, marked []string, errText string) (set []string, ok bool) {
	// a zero read of the first variable of a pair by the second one, although the first
	// one is logged before it, only happens when the pair is ordered and run as a unit
	needPair := false
	pr := g.pairSelfReaders()
	for _, m := range marked {
		needPair = needPair || pr[m]
	}
	masks := make([]int, 0, 127)
	for m := 1; m < 128; m++ {
		masks = append(masks, m)
	}
	bits := func(m int) int {
		c := 0
		for ; m != 0; m &= m - 1 {
			c++
		}
		return c
	}
	sort.SliceStable(masks, func(i, j int) bool { return bits(masks[i]) < bits(masks[j]) })
	for _, m := range masks {
		df := defectsFromMask(m)
		if needPair && !df.PairUnit {
			continue
		}
		if g.explains(df, names, errText) {
			for i, n := range defectNames {
				if df.get(i) {
					set = append(set, n)
				}
			}
			return set, true
		}
	}
	return nil, false
}

// readsV2InBody: some function, method or init body reads a variable declared by
// `var a, b = f()` (of its own package or of an imported one).
func (g *beh) readsV2InBody() bool {
	for pi := range g.G {
		for _, d := range g.G[pi].D {
			if !isFunTag(d.K) && d.K != "in" {
				continue
			}
			for _, r := range d.R {
				q := pi
				if r.P != 0 {
					q = r.P - 1
				}
				if g.G[q].D[r.D-1].K == "v2" {
					return true
				}
			}
		}
	}
	return false
}

// explainsCut: the observation is a prefix of what the mechanism with the given
// defects produces, cut by a panic, or all of it with zero reads.
func (g *beh) explainsCut(df defects, names []string, zeroes bool, errText string) bool {
	per := map[int][]string{}
	for pi := range g.G {
		l, loop := g.mech(pi+1, df)
		if loop {
			return false
		}
		per[pi+1] = l
	}
	for _, o := range g.Ord {
		var l []string
		for _, p := range o {
			l = append(l, per[p]...)
		}
		if len(names) > len(l) || !eqStrings(l[:len(names)], names) {
			continue
		}
		if len(names) < len(l) && strings.Contains(errText, "panic") {
			return true
		}
		if len(names) == len(l) && zeroes && errText == "" {
			return true
		}
	}
	return false
}

// attributeCut: second stage for programs in which a body reads a `var a, b = f()`
// variable: the listed defects of the ordering plus the read defect.
func (g *beh) attributeCut(names []string, zeroes bool, errText string) (set []string, ok bool) {
	if !g.readsV2InBody() {
		return nil, false
	}
	masks := make([]int, 0, 128)
	for m := 0; m < 128; m++ {
		masks = append(masks, m)
	}
	bits := func(m int) int {
		c := 0
		for ; m != 0; m &= m - 1 {
			c++
		}
		return c
	}
	sort.SliceStable(masks, func(i, j int) bool { return bits(masks[i]) < bits(masks[j]) })
	for _, m := range masks {
		df := defectsFromMask(m)
		if g.explainsCut(df, names, zeroes, errText) {
			for i, n := range defectNames {
				if df.get(i) {
					set = append(set, n)
				}
			}
			return append(set, "V2Read"), true
		}
	}
	return nil, false
}

// pairSelfReaders: the second variables of `var a, b = x, y` declarations whose
// initialiser depends on the first variable of the same declaration. Ordered as one
// unit, both initialisers run before either variable is assigned, so y reads a as zero.
func (g *beh) pairSelfReaders() map[string]bool {
	out := map[string]bool{}
	for pi := range g.G {
		_, deps := g.unitDeps(pi+1, defects{})
		for u, ds := range deps {
			if u.s == 2 && ds[slot{u.d, 1}] {
				out[fmt.Sprintf("%d.%d.2", pi+1, u.d)] = true
			}
		}
	}
	return out
}
