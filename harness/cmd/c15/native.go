package main

import (
	"bytes"
	"context"
	"fmt"
	"os"
	"os/exec"
	"path/filepath"
	"regexp"
	"strconv"
	"strings"
	"sync"
	"time"

	"verif/fw"
)

// The reference: the Go toolchain on the rendered sources.

type natObs struct {
	BuildErr string
	Out      string
	RunErr   string
}

func goEnv(extra ...string) []string {
	env := []string{}
	for _, e := range os.Environ() {
		if strings.HasPrefix(e, "GOFLAGS=") || strings.HasPrefix(e, "GO111MODULE=") || strings.HasPrefix(e, "GOPATH=") {
			continue
		}
		env = append(env, e)
	}
	env = append(env, "GOPROXY=off", "GOSUMDB=off", "GOTOOLCHAIN=local", "GOWORK=off", "CGO_ENABLED=0")
	return append(env, extra...)
}

// nativeExact builds exactly the files the interpreter was given: one file through
// fw.NativeBatch, a tree of files/packages as a GOPATH workspace (same layout as the
// MapFS: gp/src/m, gp/src/p2, ...).
func nativeExact(c *fw.Ctx, gs []*beh) []natObs {
	res := make([]natObs, len(gs))
	var singles []string
	var singleIdx []int
	var wg sync.WaitGroup
	sem := make(chan struct{}, 12)
	for i, g := range gs {
		if src, ok := g.single(); ok {
			singles = append(singles, src)
			singleIdx = append(singleIdx, i)
			continue
		}
		wg.Add(1)
		sem <- struct{}{}
		go func(i int, g *beh) {
			defer wg.Done()
			defer func() { <-sem }()
			dir, err := os.MkdirTemp(c.Scratch, "gopath-")
			if err != nil {
				res[i].BuildErr = err.Error()
				return
			}
			defer os.RemoveAll(dir)
			for p, content := range g.files(renderOpts{}) {
				fp := filepath.Join(dir, "gp", "src", p)
				os.MkdirAll(filepath.Dir(fp), 0o755)
				os.WriteFile(fp, []byte(content), 0o644)
			}
			exe := filepath.Join(dir, "prog")
			cmd := exec.Command("go", "build", "-o", exe, "m")
			cmd.Dir = dir
			cmd.Env = goEnv("GO111MODULE=off", "GOPATH="+filepath.Join(dir, "gp"), "GOFLAGS=")
			if out, err := cmd.CombinedOutput(); err != nil {
				res[i].BuildErr = string(out)
				if res[i].BuildErr == "" {
					res[i].BuildErr = err.Error()
				}
				return
			}
			ctx, cancel := context.WithTimeout(context.Background(), 20*time.Second)
			defer cancel()
			run := exec.CommandContext(ctx, exe)
			var so, se bytes.Buffer
			run.Stdout, run.Stderr = &so, &se
			if err := run.Run(); err != nil {
				res[i].RunErr = err.Error() + ": " + se.String()
			}
			res[i].Out = so.String()
		}(i, g)
	}
	if len(singles) > 0 {
		for k, r := range c.NativeBatch(singles, 20*time.Second) {
			i := singleIdx[k]
			if !r.BuildOK {
				res[i].BuildErr = r.BuildErr
				if res[i].BuildErr == "" {
					res[i].BuildErr = "build failed"
				}
				continue
			}
			res[i].Out = r.Stdout
			if r.Exit != 0 || r.Timeout {
				res[i].RunErr = fmt.Sprintf("exit %d timeout=%v: %s", r.Exit, r.Timeout, r.Stderr)
			}
		}
	}
	wg.Wait()
	return res
}

var reHash = regexp.MustCompile(`^# nat/c(\d+)/`)
var reFileErr = regexp.MustCompile(`^c(\d+)/`)

// nativeBulk compiles many cases as library packages of one module (main becomes
// package m with func Main, log lines carry the case tag) and links the ones that
// compile into one driver. One link instead of one per case.
func nativeBulk(c *fw.Ctx, gs []*beh) ([]natObs, error) {
	res := make([]natObs, len(gs))
	if len(gs) == 0 {
		return res, nil
	}
	dir, err := os.MkdirTemp(c.Scratch, "bulk-")
	if err != nil {
		return nil, err
	}
	defer os.RemoveAll(dir)
	os.WriteFile(filepath.Join(dir, "go.mod"), []byte("module nat\n\ngo 1.22\n"), 0o644)
	for k, g := range gs {
		for p, content := range g.files(renderOpts{Prefix: fmt.Sprintf("c%d", k)}) {
			fp := filepath.Join(dir, strings.TrimPrefix(p, "nat/"))
			os.MkdirAll(filepath.Dir(fp), 0o755)
			os.WriteFile(fp, []byte(content), 0o644)
		}
	}
	env := goEnv("GOFLAGS=-mod=mod")
	cmd := exec.Command("go", "build", "./...")
	cmd.Dir = dir
	cmd.Env = env
	out, _ := cmd.CombinedOutput()
	cur := -1
	for _, l := range strings.Split(string(out), "\n") {
		if m := reHash.FindStringSubmatch(l); m != nil {
			cur, _ = strconv.Atoi(m[1])
			continue
		}
		if strings.TrimSpace(l) == "" {
			continue
		}
		k := cur
		if m := reFileErr.FindStringSubmatch(l); m != nil {
			k, _ = strconv.Atoi(m[1])
		}
		if k >= 0 && k < len(res) {
			res[k].BuildErr += l + "\n"
		} else {
			return nil, fmt.Errorf("bulk native build: unattributed output: %s", l)
		}
	}
	var drv strings.Builder
	drv.WriteString("package main\n\nimport (\n")
	n := 0
	for k := range gs {
		if res[k].BuildErr == "" {
			fmt.Fprintf(&drv, "\tc%d \"nat/c%d/m\"\n", k, k)
			n++
		}
	}
	drv.WriteString(")\n\nfunc main() {\n")
	for k := range gs {
		if res[k].BuildErr == "" {
			fmt.Fprintf(&drv, "\tc%d.Main()\n", k)
		}
	}
	drv.WriteString("}\n")
	if n == 0 {
		return res, nil
	}
	os.MkdirAll(filepath.Join(dir, "drv"), 0o755)
	os.WriteFile(filepath.Join(dir, "drv", "main.go"), []byte(drv.String()), 0o644)
	exe := filepath.Join(dir, "drv.bin")
	cmd = exec.Command("go", "build", "-o", exe, "./drv")
	cmd.Dir = dir
	cmd.Env = env
	if out, err := cmd.CombinedOutput(); err != nil {
		return nil, fmt.Errorf("bulk native driver does not build: %v\n%.2000s", err, out)
	}
	ctx, cancel := context.WithTimeout(context.Background(), 2*time.Minute)
	defer cancel()
	run := exec.CommandContext(ctx, exe)
	var so, se bytes.Buffer
	run.Stdout, run.Stderr = &so, &se
	if err := run.Run(); err != nil {
		return nil, fmt.Errorf("bulk native driver failed: %v\n%.2000s", err, se.String())
	}
	var bufs = make([]strings.Builder, len(gs))
	for _, l := range strings.Split(so.String(), "\n") {
		if l == "" {
			continue
		}
		bar := strings.IndexByte(l, '|')
		if bar < 2 || l[0] != 'c' {
			return nil, fmt.Errorf("bulk native driver: unexpected line %q", l)
		}
		k, err := strconv.Atoi(l[1:bar])
		if err != nil || k < 0 || k >= len(gs) {
			return nil, fmt.Errorf("bulk native driver: unexpected line %q", l)
		}
		bufs[k].WriteString(l[bar+1:] + "\n")
	}
	for k := range gs {
		res[k].Out = bufs[k].String()
	}
	return res, nil
}

// agreesWithModel: does the reference behave as the specification says?
func (g *beh) referenceAgrees(n natObs) (bool, string) {
	if n.RunErr != "" {
		return false, "native program failed: " + n.RunErr
	}
	if g.V == "reject" {
		if n.BuildErr == "" {
			return false, "model rejects (initialisation cycle), the toolchain builds and prints " + strings.ReplaceAll(n.Out, "\n", " ")
		}
		if !strings.Contains(n.BuildErr, "initialization cycle") {
			return false, "model rejects (initialisation cycle), the toolchain fails differently: " + firstLine(n.BuildErr)
		}
		return true, ""
	}
	if n.BuildErr != "" {
		return false, "model runs the program, the toolchain rejects it: " + n.BuildErr
	}
	oc := g.judge(n.Out, "")
	if !oc.ok {
		return false, fmt.Sprintf("model log %v, native log %v (%s)", g.expectedLogs(), oc.names, oc.mode)
	}
	return true, ""
}
