package main

import (
	"fmt"
	"os"
	"sort"
	"strings"
)

// Model-level case, as emitted by InitOrder.tla (see the module for the meaning).

type ref struct {
	P int `json:"p"`
	D int `json:"d"`
	S int `json:"s"`
}

type decl struct {
	K  string `json:"k"`
	R  []ref  `json:"r"`
	R2 []ref  `json:"r2"`
	F  int    `json:"f"`
	Sh int    `json:"sh"`
}

type pkg struct {
	Imp []int  `json:"imp"`
	D   []decl `json:"d"`
}

type beh struct {
	G   []pkg   `json:"g"`
	V   string  `json:"v"` // "done" | "reject"
	Log []ref   `json:"log"`
	Ord [][]int `json:"ord"`

	saltv int
}

func (e ref) String() string { return fmt.Sprintf("%d.%d.%d", e.P, e.D, e.S) }

func isVarTag(k string) bool { return k == "v1" || k == "v2" || k == "pr" || k == "vb" }
func isFunTag(k string) bool { return k == "fn" || k == "mt" }

func sortRefs(rs []ref) []ref {
	out := append([]ref(nil), rs...)
	sort.Slice(out, func(i, j int) bool {
		a, b := out[i], out[j]
		if a.P != b.P {
			return a.P < b.P
		}
		if a.D != b.D {
			return a.D < b.D
		}
		return a.S < b.S
	})
	return out
}

// renderOpts: how the abstract program becomes files.
//   - Prefix "" (the interpreter and the exact native reference): import paths "p2",
//     package main with func main, log lines "<p>.<d>.<s>".
//   - Prefix "cK" (bulk native reference, many cases linked into one binary): import
//     paths "nat/cK/p2", package main becomes library package m with func Main, log
//     lines are prefixed with "cK|".
type renderOpts struct {
	Prefix string
}

func pkgName(p int) string {
	if p == 1 {
		return "main"
	}
	return fmt.Sprintf("p%d", p)
}

func pkgDir(p int) string {
	if p == 1 {
		return "m"
	}
	return fmt.Sprintf("p%d", p)
}

var fileNames = []string{"", "a.go", "b.go", "c.go"}

// The order of initialisation depends on WHICH variables, functions and methods an
// initialiser refers to, never on the syntactic place of the reference (InitOrder.tla:
// Deps is a relation between declarations). The renderer therefore varies the place: the
// same reference is written plainly, as a map key or value, as a field or element of a
// composite literal, as an index, inside a function literal, through a pointer, as a
// function or method value... Every form evaluates to the value of the plain reference.
const nVarSites, nFunSites = 11, 3

func (g *beh) salt() int {
	if g.saltv == 0 {
		h := 17
		for _, pk := range g.G {
			h = h*31 + len(pk.D)
			for _, d := range pk.D {
				h = (h*31 + len(d.R)*7 + len(d.K) + d.F) % 1000003
			}
		}
		g.saltv = h + 1
	}
	return g.saltv
}

func varSite(site int, v string) string {
	switch site {
	case 1:
		return "-(-" + v + ")"
	case 2:
		return "map[int]int{0: " + v + "}[0]"
	case 3:
		return "keyOf(map[int]bool{" + v + ": true})"
	case 4:
		return "S{X: " + v + "}.X"
	case 5:
		return "S{" + v + "}.X"
	case 6:
		return "[]int{" + v + "}[0]"
	case 7:
		return "[2]int{0, 1}[" + v + "]"
	case 8:
		return "func() int { return " + v + " }()"
	case 9:
		return "*(&" + v + ")"
	case 10:
		return "int(" + v + ")"
	}
	return v
}

// expression that refers to the target of r from package p
func (g *beh) refExpr(p int, r ref, i int, arg string) string {
	e, kind := g.plainRef(p, r, arg)
	if plainSites {
		return e
	}
	h := g.salt() + p*7 + r.P*5 + r.D*3 + r.S + i*11
	switch kind {
	case "var":
		return varSite(h%nVarSites, e)
	case "fn":
		switch h % nFunSites {
		case 1:
			return "func() int { return " + e + " }()"
		case 2:
			return "apply(" + e[:strings.LastIndex(e, "(")] + ", " + arg + ")" // the function (method) VALUE
		}
	}
	return e
}

var plainSites = os.Getenv("C15_PLAIN") != ""

// plainRef is the plain form of the reference, and whether it denotes a variable or a call.
func (g *beh) plainRef(p int, r ref, arg string) (string, string) {
	q := p
	qual := ""
	if r.P != 0 {
		q = r.P
		qual = pkgDir(q) + "."
	}
	t := g.G[q-1].D[r.D-1]
	switch t.K {
	case "v1":
		return fmt.Sprintf("%sV%d", qual, r.D), "var"
	case "v2":
		// Only the first name of `var a, b = f()` is ever referred to: for references
		// to the second one the toolchain itself departs from the text of the Go
		// specification (go/types keeps b as a separate node of its priority queue, so
		// a dependent of b is released one step after a dependent of a).
		return fmt.Sprintf("%sV%d", qual, r.D), "var"
	case "pr":
		if r.S == 2 {
			return fmt.Sprintf("%sW%d", qual, r.D), "var"
		}
		return fmt.Sprintf("%sV%d", qual, r.D), "var"
	case "fn":
		return fmt.Sprintf("%sF%d(%s)", qual, r.D, arg), "fn"
	case "mt":
		return fmt.Sprintf("%sT{}.M%d(%s)", qual, r.D, arg), "fn"
	}
	return "BADREF", ""
}

func (g *beh) args(p int, name string, rs []ref, sh int) string {
	var b strings.Builder
	fmt.Fprintf(&b, "%q", name)
	for i, r := range sortRefs(rs) {
		b.WriteString(", " + g.refExpr(p, r, i, "0"))
	}
	if sh > 0 {
		fmt.Fprintf(&b, ", func() int { V%d := 1; return V%d }()", sh, sh)
	}
	return b.String()
}

// files renders the program: path (relative to GOPATH/src, or to the module root in
// bulk mode) -> content.
func (g *beh) files(o renderOpts) map[string]string {
	out := map[string]string{}
	tag := ""
	impPrefix := ""
	if o.Prefix != "" {
		tag = o.Prefix + "|"
		impPrefix = "nat/" + o.Prefix + "/"
	}
	for pi := range g.G {
		p := pi + 1
		pk := &g.G[pi]
		// which files exist, which is first
		used := map[int]bool{}
		for _, d := range pk.D {
			used[d.F] = true
		}
		var fnums []int
		for f := 1; f <= 3; f++ {
			if used[f] {
				fnums = append(fnums, f)
			}
		}
		if len(fnums) == 0 {
			fnums = []int{1}
		}
		hasMt := false
		for _, d := range pk.D {
			if d.K == "mt" {
				hasMt = true
			}
		}
		// imports referenced per file
		refd := map[int]map[int]bool{}
		anyRef := map[int]bool{}
		for _, d := range pk.D {
			for _, r := range append(append([]ref(nil), d.R...), d.R2...) {
				if r.P != 0 {
					if refd[d.F] == nil {
						refd[d.F] = map[int]bool{}
					}
					refd[d.F][r.P] = true
					anyRef[r.P] = true
				}
			}
		}
		for fi, f := range fnums {
			var b strings.Builder
			name := pkgName(p)
			if p == 1 && o.Prefix != "" {
				name = "m"
			}
			fmt.Fprintf(&b, "package %s\n\n", name)
			var imps []string
			if fi == 0 {
				imps = append(imps, "\t\"fmt\"\n")
			}
			for _, q := range pk.Imp {
				switch {
				case refd[f][q]:
					imps = append(imps, fmt.Sprintf("\t%q\n", impPrefix+pkgDir(q)))
				case fi == 0 && !anyRef[q]:
					imps = append(imps, fmt.Sprintf("\t_ %q\n", impPrefix+pkgDir(q)))
				}
			}
			if len(imps) > 0 {
				b.WriteString("import (\n" + strings.Join(imps, "") + ")\n\n")
			}
			if fi == 0 {
				fmt.Fprintf(&b, "func logv(name string, deps ...int) int {\n\tfor _, d := range deps {\n\t\tif d != 1 {\n\t\t\tname += \"!\"\n\t\t\tbreak\n\t\t}\n\t}\n\tfmt.Println(%q + name)\n\treturn 1\n}\n\n", tag)
				b.WriteString("func log2(name string, deps ...int) (int, int) {\n\tlogv(name, deps...)\n\treturn 1, 1\n}\n\n")
				if !plainSites {
					b.WriteString("type S struct{ X int }\n\nfunc keyOf(m map[int]bool) int {\n\tfor k := range m {\n\t\treturn k\n\t}\n\treturn -1\n}\n\nfunc apply(f func(int) int, n int) int { return f(n) }\n\n")
				}
				if hasMt {
					b.WriteString("type T struct{}\n\n")
				}
				if p == 1 {
					mainName := "main"
					if o.Prefix != "" {
						mainName = "Main"
					}
					fmt.Fprintf(&b, "func %s() { logv(\"1.0.0\") }\n\n", mainName)
				}
			}
			for di, d := range pk.D {
				if d.F != f {
					continue
				}
				dn := di + 1
				id := func(s int) string { return fmt.Sprintf("%d.%d.%d", p, dn, s) }
				// concrete syntax of a var declaration: with or without the type, alone or in a
				// parenthesised group (the specification does not tell them apart)
				typ, open, shut := "", "var ", "\n\n"
				if !plainSites {
					h := g.salt() + p*13 + dn*17
					if h%2 == 1 {
						typ = " int"
					}
					if (h/2)%3 == 1 {
						open, shut = "var (\n\t", "\n)\n\n"
					}
				}
				switch d.K {
				case "v1":
					fmt.Fprintf(&b, "%sV%d%s = logv(%s)%s", open, dn, typ, g.args(p, id(1), d.R, d.Sh), shut)
				case "v2":
					fmt.Fprintf(&b, "%sV%d, W%d%s = log2(%s)%s", open, dn, dn, typ, g.args(p, id(1), d.R, 0), shut)
				case "pr":
					fmt.Fprintf(&b, "%sV%d, W%d%s = logv(%s), logv(%s)%s", open, dn, dn, typ, g.args(p, id(1), d.R, 0), g.args(p, id(2), d.R2, 0), shut)
				case "vb":
					fmt.Fprintf(&b, "%s_%s = logv(%s)%s", open, typ, g.args(p, id(1), d.R, 0), shut)
				case "in":
					fmt.Fprintf(&b, "func init() { logv(%s) }\n\n", g.args(p, id(0), d.R, 0))
				case "fn", "mt":
					if d.K == "fn" {
						fmt.Fprintf(&b, "func F%d(n int) int {\n", dn)
					} else {
						fmt.Fprintf(&b, "func (T) M%d(n int) int {\n", dn)
					}
					b.WriteString("\tif n > 2 {\n\t\treturn 1\n\t}\n\tr := 1\n")
					for i, r := range sortRefs(d.R) {
						fmt.Fprintf(&b, "\tr *= %s\n", g.refExpr(p, r, i, "n+1"))
					}
					if d.Sh > 0 {
						fmt.Fprintf(&b, "\t{\n\t\tV%d := 1\n\t\tr *= V%d\n\t}\n", d.Sh, d.Sh)
					}
					b.WriteString("\treturn r\n}\n\n")
				}
			}
			out[impPrefix+pkgDir(p)+"/"+fileNames[f]] = b.String()
		}
	}
	return out
}

// single reports whether the case is one package in one file (evaluated with Eval).
func (g *beh) single() (string, bool) {
	if len(g.G) != 1 {
		return "", false
	}
	fs := g.files(renderOpts{})
	if len(fs) != 1 {
		return "", false
	}
	for _, c := range fs {
		return c, true
	}
	return "", false
}

// expectedLogs: one full log per allowed package order.
func (g *beh) expectedLogs() [][]string {
	per := map[int][]string{}
	for _, e := range g.Log {
		per[e.P] = append(per[e.P], e.String())
	}
	var out [][]string
	for _, o := range g.Ord {
		var l []string
		for _, p := range o {
			l = append(l, per[p]...)
		}
		out = append(out, l)
	}
	return out
}

func (g *beh) key() string {
	var b strings.Builder
	for _, p := range g.G {
		fmt.Fprintf(&b, "P%v[", p.Imp)
		for _, d := range p.D {
			fmt.Fprintf(&b, "%s%d/%d%v%v;", d.K, d.F, d.Sh, sortRefs(d.R), sortRefs(d.R2))
		}
		b.WriteString("]")
	}
	return b.String()
}
