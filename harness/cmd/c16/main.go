// Check for property C16: source imports resolve to the right directory (nearest
// enclosing vendor directory, otherwise GOPATH/src; relative imports against the
// importing file's directory), identically on disk and in a SourcecodeFilesystem;
// every package is initialised once, cycles are reported as errors.
//
// Resolve.tla generates the cases (tree, main program, lazily synthesised import
// statements) and states the prediction (visit log or error class). The harness
// materialises every case twice (scratch GOPATH on disk, fstest.MapFS), runs the
// real interpreter through the public API only (EvalPath / Eval, Options.Stdout,
// returned error) and compares. The toolchain in GOPATH mode (GO111MODULE=off) is
// the reference that validates the specification: on every disagreement where it
// is applicable, and on a sample of all cases.
package main

import (
	"bytes"
	"encoding/json"
	"fmt"
	"math/rand"
	"os"
	"os/exec"
	"path/filepath"
	"reflect"
	"sort"
	"strings"
	"sync"
	"testing/fstest"
	"time"

	"github.com/traefik/yaegi/interp"
	"github.com/traefik/yaegi/stdlib"

	"verif/fw"
)

// ---------------------------------------------------------------------------
// model-level case, as emitted by Resolve.tla

type imp struct {
	K string   `json:"k"` // abs | dot | up
	P []string `json:"p"`
}

type file struct {
	Who  []string `json:"who"` // ["main"] or a package directory
	Imps []imp    `json:"imps"`
}

type resE struct {
	From []string `json:"from"`
	Imp  imp      `json:"imp"`
	To   []string `json:"to"`  // ["?"] = not found
	Alt  []string `json:"alt"` // answer for an importer located at GOPATH/src itself
}

type kase struct {
	Pin     int        `json:"pin"` // number of the pinned witness, 0 for generated cases
	Tree    [][]string `json:"tree"`
	Sit     string     `json:"sit"` // string | file
	Mdir    []string   `json:"mdir"`
	Code    []file     `json:"code"`
	Res     []resE     `json:"res"`
	Log     [][]string `json:"log"`
	Status  string     `json:"status"` // ok | cycle | notfound
	Allowed []string   `json:"allowed"`
	Diamond bool       `json:"diamond"`
	Trig    [][]int    `json:"trig"` // per resolution: numbers of the known findings whose trigger it contains
}

func ds(d []string) string { return strings.Join(d, "/") }

func isMain(w []string) bool { return len(w) == 1 && w[0] == "main" }

func (i imp) String() string {
	switch i.K {
	case "dot":
		return "./" + ds(i.P)
	case "up":
		return "../" + ds(i.P)
	}
	return ds(i.P)
}

func (k *kase) impsOf(w []string) []imp {
	for _, f := range k.Code {
		if ds(f.Who) == ds(w) {
			return f.Imps
		}
	}
	return nil
}

func (k *kase) key() string {
	var b strings.Builder
	t := make([]string, 0, len(k.Tree))
	for _, d := range k.Tree {
		t = append(t, ds(d))
	}
	sort.Strings(t)
	b.WriteString(strings.Join(t, ","))
	b.WriteString("|" + k.Sit + ":" + ds(k.Mdir))
	for _, f := range k.Code {
		b.WriteString("|" + ds(f.Who) + "<")
		for _, i := range f.Imps {
			b.WriteString(i.String() + ";")
		}
	}
	return b.String()
}

// ---------------------------------------------------------------------------
// rendering

func src(pkg string, imps []imp, marker string, isMainPkg bool) string {
	var b strings.Builder
	b.WriteString("package " + pkg + "\n\nimport (\n\tfmt \"fmt\"\n")
	for _, i := range imps {
		b.WriteString("\t_ \"" + i.String() + "\"\n")
	}
	b.WriteString(")\n\n")
	fn := "init"
	if isMainPkg {
		fn = "main"
	}
	b.WriteString("func " + fn + "() { fmt.Println(\"" + marker + "\") }\n")
	return b.String()
}

// files of the case relative to GOPATH/src; the main program is returned separately
func (k *kase) files() (pk map[string]string, mainSrc string) {
	pk = map[string]string{}
	for _, d := range k.Tree {
		last := d[len(d)-1]
		pk[ds(d)+"/"+last+".go"] = src(last, k.impsOf(d), ds(d), false)
	}
	return pk, src("main", k.impsOf([]string{"main"}), "main", true)
}

func (k *kase) mainPath() string {
	if len(k.Mdir) == 0 {
		return "main.go"
	}
	return ds(k.Mdir) + "/main.go"
}

// ---------------------------------------------------------------------------
// observation (child process)

type run struct {
	Out   []string `json:"out"`
	Err   string   `json:"err,omitempty"`
	Class string   `json:"class"` // ok | cycle | notfound | nofiles | panic | other
}

type obs struct {
	Disk run `json:"disk"`
	Mem  run `json:"mem"`
}

func classify(err string) string {
	switch {
	case err == "":
		return "ok"
	case strings.HasPrefix(err, "panic:"):
		return "panic"
	case strings.Contains(err, "import cycle not allowed"):
		return "cycle"
	case strings.Contains(err, "unable to find source related to"),
		strings.Contains(err, "no such file or directory"),
		strings.Contains(err, "file does not exist"),
		strings.Contains(err, "cannot find package"):
		return "notfound"
	case strings.Contains(err, "no Go files in"):
		return "nofiles"
	}
	return "other"
}

func lines(s string) []string {
	s = strings.TrimRight(s, "\n")
	if s == "" {
		return []string{}
	}
	return strings.Split(s, "\n")
}

func evalCase(k *kase, opt interp.Options, mainFile, mainSrc string) (r run) {
	var so, se bytes.Buffer
	opt.Stdout, opt.Stderr = &so, &se
	defer func() {
		if p := recover(); p != nil {
			r.Err = fmt.Sprintf("panic: %v", p)
			r.Class = "panic"
			r.Out = lines(so.String())
		}
	}()
	i := interp.New(opt)
	// Only fmt.Println is needed. It is bound to the run's own buffer under the package
	// name the sources import it by (import fmt "fmt"); loading all of stdlib.Symbols
	// would compile the generic standard packages for every case (about 25 ms).
	var exports interp.Exports
	if fullStdlib {
		exports = stdlib.Symbols
	} else {
		exports = interp.Exports{"fmt/fmt_": {"Println": reflect.ValueOf(func(a ...any) { fmt.Fprintln(&so, a...) })}}
	}
	if err := i.Use(exports); err != nil {
		r.Err = "use: " + err.Error()
		r.Class = "other"
		return r
	}
	var err error
	if k.Sit == "file" {
		_, err = i.EvalPath(mainFile)
	} else {
		_, err = i.Eval(mainSrc)
	}
	r.Out = lines(so.String())
	if err != nil {
		r.Err = err.Error()
	}
	r.Class = classify(r.Err)
	return r
}

var childDir, emptyDir string

// C16_FULL_STDLIB=1 loads stdlib.Symbols instead of the single binding (slower; same results)
var fullStdlib = os.Getenv("C16_FULL_STDLIB") != ""

func (k *kase) observe() (o obs) {
	pk, mainSrc := k.files()
	// in memory
	mfs := fstest.MapFS{}
	for p, s := range pk {
		mfs["gp/src/"+p] = &fstest.MapFile{Data: []byte(s)}
	}
	if k.Sit == "file" {
		mfs["gp/src/"+k.mainPath()] = &fstest.MapFile{Data: []byte(mainSrc)}
	}
	// on disk: the child's working directory is the scratch root, the main file is
	// named relative to it (as the yaegi command does), GOPATH is absolute
	if childDir == "" {
		// below the parent's scratch directory, which is removed at exit whatever happens to the child
		d, err := os.MkdirTemp(os.Getenv("C16_SCRATCH"), "c16-child-")
		if err != nil {
			o.Disk = run{Err: "mktemp: " + err.Error(), Class: "other"}
			return o
		}
		childDir = d
		emptyDir = filepath.Join(d, "empty")
		os.Mkdir(emptyDir, 0o755)
	}
	root, err := os.MkdirTemp(childDir, "case-")
	if err != nil {
		o.Disk = run{Err: "mktemp: " + err.Error(), Class: "other"}
		return o
	}
	defer os.RemoveAll(root)
	if err := writeTree(filepath.Join(root, "gp", "src"), pk, k, mainSrc); err != nil {
		o.Disk = run{Err: "write: " + err.Error(), Class: "other"}
		return o
	}
	if err := os.Chdir(root); err != nil {
		o.Disk = run{Err: "chdir: " + err.Error(), Class: "other"}
		return o
	}
	mainFile := "gp/src/" + k.mainPath()
	o.Disk = evalCase(k, interp.Options{GoPath: filepath.Join(root, "gp")}, mainFile, mainSrc)
	// the fs.FS run must not be able to reach the copy on disk by accident: the working
	// directory is moved to an empty directory first
	os.Chdir(emptyDir)
	o.Mem = evalCase(k, interp.Options{GoPath: "gp", SourcecodeFilesystem: mfs}, mainFile, mainSrc)
	return o
}

func writeTree(srcDir string, pk map[string]string, k *kase, mainSrc string) error {
	if err := os.MkdirAll(srcDir, 0o755); err != nil {
		return err
	}
	for p, s := range pk {
		f := filepath.Join(srcDir, filepath.FromSlash(p))
		if err := os.MkdirAll(filepath.Dir(f), 0o755); err != nil {
			return err
		}
		if err := os.WriteFile(f, []byte(s), 0o644); err != nil {
			return err
		}
	}
	if k.Sit == "file" {
		f := filepath.Join(srcDir, filepath.FromSlash(k.mainPath()))
		if err := os.MkdirAll(filepath.Dir(f), 0o755); err != nil {
			return err
		}
		return os.WriteFile(f, []byte(mainSrc), 0o644)
	}
	return nil
}

func init() {
	fw.RegisterChild("c16", func(job json.RawMessage) any {
		var ks []kase
		if err := json.Unmarshal(job, &ks); err != nil {
			return []obs{}
		}
		res := make([]obs, len(ks))
		for i := range ks {
			res[i] = ks[i].observe()
		}
		if childDir != "" {
			os.Chdir(os.TempDir())
			os.RemoveAll(childDir)
			childDir = ""
		}
		return res
	})
}

// ---------------------------------------------------------------------------
// reference: the toolchain in GOPATH mode

func (k *kase) hasRel() (rel, abs bool) {
	for _, f := range k.Code {
		for _, i := range f.Imps {
			if i.K == "abs" {
				abs = true
			} else {
				rel = true
			}
		}
	}
	return
}

// nativeApplicable: programs without relative imports are built inside GOPATH/src;
// programs with relative imports only are built outside any GOPATH (the toolchain
// refuses or aborts on relative imports inside GOPATH/src).
func (k *kase) nativeApplicable() bool {
	rel, abs := k.hasRel()
	return !(rel && abs)
}

func (k *kase) native(c *fw.Ctx) (r run) {
	root, err := os.MkdirTemp(c.Scratch, "nat-")
	if err != nil {
		return run{Err: err.Error(), Class: "other"}
	}
	defer os.RemoveAll(root)
	pk, mainSrc := k.files()
	rel, _ := k.hasRel()
	gopath := filepath.Join(root, "gp")
	srcDir := filepath.Join(gopath, "src")
	if rel {
		srcDir = filepath.Join(root, "outside")
		os.MkdirAll(filepath.Join(gopath, "src"), 0o755)
	}
	kk := *k
	kk.Sit = "file"
	if k.Sit == "string" {
		// a source string has no location: it resolves like a file directly below
		// GOPATH/src; the toolchain wants a directory, which holds no vendor directory
		kk.Mdir = []string{"zmain"}
	}
	if err := writeTree(srcDir, pk, &kk, mainSrc); err != nil {
		return run{Err: err.Error(), Class: "other"}
	}
	mdir := filepath.Join(srcDir, filepath.FromSlash(ds(kk.Mdir)))
	exe := filepath.Join(root, "prog")
	cmd := exec.Command("go", "build", "-o", exe, "main.go")
	cmd.Dir = mdir
	cmd.Env = append(os.Environ(), "GO111MODULE=off", "GOPATH="+gopath, "GOFLAGS=", "GOWORK=off", "CGO_ENABLED=0", "GOTOOLCHAIN=local")
	out, err := cmd.CombinedOutput()
	if err != nil {
		r.Err = strings.TrimSpace(string(out))
		if r.Err == "" {
			r.Err = err.Error()
		}
		r.Class = classify(r.Err)
		r.Out = []string{}
		return r
	}
	run2 := exec.Command(exe)
	run2.Dir = mdir
	o, err := run2.Output()
	r.Out = lines(string(o))
	if err != nil {
		r.Err = err.Error()
	}
	r.Class = classify(r.Err)
	return r
}

// ---------------------------------------------------------------------------
// comparison

// conforms says whether an observed run is one the model allows, and if not, how it deviates.
func (k *kase) conforms(r run) (ok bool, mode string) {
	if k.Status != "ok" {
		for _, a := range k.Allowed {
			// a directory without Go files is no package: "no Go files" is a way of saying not found
			if r.Class == a || (a == "notfound" && r.Class == "nofiles") {
				return true, ""
			}
		}
		if r.Class == "ok" {
			return false, "ran to completion, " + k.Status + " error expected"
		}
		return false, "error class " + r.Class + ", " + k.Status + " expected"
	}
	if r.Class != "ok" {
		return false, "error class " + r.Class + ", load expected to succeed"
	}
	want := map[string]bool{}
	for _, d := range k.Log {
		want[ds(d)] = true
	}
	seen := map[string]int{}
	pos := map[string]int{}
	for i, l := range r.Out {
		seen[l]++
		pos[l] = i
	}
	var missing, extra, dup []string
	for d := range want {
		if seen[d] == 0 {
			missing = append(missing, d)
		}
	}
	for l, n := range seen {
		if l != "main" && !want[l] {
			extra = append(extra, l)
		}
		if n > 1 {
			dup = append(dup, l)
		}
	}
	sort.Strings(missing)
	sort.Strings(extra)
	if len(dup) > 0 {
		return false, "initialised more than once"
	}
	if len(missing) > 0 || len(extra) > 0 {
		return false, wrongDirMode(missing, extra)
	}
	if seen["main"] != 1 || r.Out[len(r.Out)-1] != "main" {
		return false, "main did not run last"
	}
	for _, e := range k.Res {
		if isMain(e.From) {
			continue
		}
		if pos[ds(e.To)] > pos[ds(e.From)] {
			return false, "importer initialised before the package it imports"
		}
	}
	return true, ""
}

// wrongDirMode describes a wrong set of initialised directories in model-level terms.
func wrongDirMode(missing, extra []string) string {
	if len(extra) == 0 {
		return "package not initialised"
	}
	if len(missing) == 0 {
		return "unexpected package initialised"
	}
	// relation of the first wrongly loaded directory to the first expected one
	m, x := strings.Split(missing[0], "/"), strings.Split(extra[0], "/")
	switch {
	case pathOf(m) == pathOf(x):
		return "another copy of the same import path loaded"
	case ds(m) == ds(x)+"/"+m[len(m)-1]:
		return "parent directory loaded"
	}
	return "different package loaded"
}

func lastVendor(d []string) int {
	for i := len(d) - 1; i >= 0; i-- {
		if d[i] == "vendor" {
			return i
		}
	}
	return -1
}

func pathOf(d []string) string { return ds(d[lastVendor(d)+1:]) }

var trigText = map[int]string{
	1: "absolute import path of two equal elements",
	2: "import strings and directories do not correspond one to one in the program",
	3: "main file whose location below GOPATH/src matters for the answer",
	4: "directory Probe(<ancestor-or-self of importer>, <path>) exists and is not the answer",
	5: "candidate directory without Go files precedes the answer",
}

// triggers lists the known constructs the case contains, as computed by the specification
// (Excluded_F_C16_n in Resolve.tla) for every resolution of the load.
func (k *kase) triggers() []string {
	set := map[int]bool{}
	for _, t := range k.Trig {
		for _, n := range t {
			set[n] = true
		}
	}
	var t []string
	for n := 1; n <= 9; n++ {
		if set[n] {
			t = append(t, trigText[n])
		}
	}
	if len(t) == 0 {
		t = append(t, "none")
	}
	return t
}

func (k *kase) nontrivial() bool {
	if len(k.Res) >= 2 {
		return true
	}
	// one resolution with several copies of the path in the tree
	for _, e := range k.Res {
		n := 0
		for _, d := range k.Tree {
			if e.Imp.K == "abs" && pathOf(d) == ds(e.Imp.P) {
				n++
			}
		}
		if n >= 2 {
			return true
		}
	}
	return false
}

// stats counts what the cases exercise (evidence, and a vacuity check of the generator).
func (k *kase) stats(m map[string]int) {
	m["status_"+k.Status]++
	m["main_"+k.Sit]++
	if k.Diamond {
		m["diamond"]++
	}
	if k.Pin != 0 {
		m["pinned_witness"]++
	}
	rel, vend, multi, deepMain := false, false, false, false
	for _, e := range k.Res {
		if e.Imp.K != "abs" {
			rel = true
			continue
		}
		if lastVendor(e.To) >= 0 {
			vend = true
			if lastVendor(e.To) > 0 {
				m["resolutions_to_nested_vendor"]++
			}
		}
		n := 0
		for _, d := range k.Tree {
			if pathOf(d) == ds(e.Imp.P) {
				n++
			}
		}
		if n >= 2 {
			multi = true
		}
		if n >= 3 {
			m["resolutions_with_3_or_more_copies"]++
		}
		if isMain(e.From) && k.Sit == "file" && len(k.Mdir) >= 2 {
			deepMain = true
		}
	}
	m["resolutions"] += len(k.Res)
	if rel {
		m["with_relative_imports"]++
	}
	if vend {
		m["with_vendor_answer"]++
	}
	if multi {
		m["with_path_in_several_places"]++
	}
	if deepMain {
		m["main_file_depth_2_or_more"]++
	}
	if len(k.Log) >= 3 {
		m["three_or_more_packages_initialised"]++
	}
	for _, d := range k.Tree {
		if len(d) >= 4 {
			m["tree_depth_4_or_more"]++
			break
		}
	}
}

// ---------------------------------------------------------------------------

func main() { fw.Main("C16", "model_checking", runCheck) }

const (
	invGen = "TypeOK NearestVendorWins RelativeJoins Deterministic Once OnceOnDiamonds CyclesReported Emit"
	invAny = "TypeOK NearestVendorWins RelativeJoins Deterministic Once OnceOnDiamonds CyclesReported"
)

type bounds struct {
	spec                          string
	depth, pkgs, imports, perFile int
	kinds                         string
	mainDepth                     int
	rel                           bool
	family                        string
	excl                          bool
	invs                          string
}

func (b bounds) cfg() []byte {
	tf := func(x bool) string {
		if x {
			return "TRUE"
		}
		return "FALSE"
	}
	return []byte(fmt.Sprintf("SPECIFICATION %s\nCONSTANTS MaxDepth = %d MaxPkgs = %d MaxImports = %d MaxPerFile = %d MainKinds = %s MaxMainDepth = %d AllowRel = %s Family = %q Excl = %s\nINVARIANTS %s\n",
		b.spec, b.depth, b.pkgs, b.imports, b.perFile, b.kinds, b.mainDepth, tf(b.rel), b.family, tf(b.excl), b.invs))
}

const bothKinds = `{"string", "file"}`

func workers(sim bool) int {
	if sim {
		return 1
	}
	return 2
}

type tlcRunner func(name string, b bounds, sim bool, num, depth int, seed int64) ([]kase, error)

func runCheck(c *fw.Ctx) error {
	c.Rule = "cases generated by Resolve.tla; a case is non-trivial when its load resolves at least two import statements, or one statement whose path is present in several places of the tree; distinct by (tree, main situation and directory, import lists)"
	c.Assumptions = []string{
		"the toolchain in GOPATH mode (GO111MODULE=off go build) is the reference that validates the specification: on every disagreement where applicable and on a sample of all cases",
		"initialisation order is compared up to the partial order 'imported before importer' (the property does not order independent packages)",
		"disk runs name the main file relative to the working directory with an absolute Options.GoPath; fs.FS runs use the same relative names with GoPath \"gp\"",
		"relative imports are generated in main files and in packages reached through relative imports only (the toolchain refuses them elsewhere); see the named restrictions in Resolve.tla",
		"'no Go files' and 'cannot find' are one error class (no package there)",
	}
	if c.Replay != "" {
		var k kase
		if err := c.LoadReplay(&k); err != nil {
			return err
		}
		return check(c, []kase{k}, 0)
	}
	var mu sync.Mutex
	cover := map[string]int64{}
	runTLC := func(name string, b bounds, sim bool, num, depth int, seed int64) ([]kase, error) {
		var mine []kase
		res, err := c.TLC(fw.TLCOpts{Dir: "spec/env", Module: "Resolve", Cfg: name, Files: map[string][]byte{name: b.cfg()}, Simulate: sim,
			Num: num, Depth: depth, Seed: seed, Timeout: 25 * time.Minute, Coverage: os.Getenv("C16_COVER") != "", HeapMB: 1500, Workers: workers(sim),
			OnBeh: func(r json.RawMessage) {
				var k kase
				if err := json.Unmarshal(r, &k); err == nil {
					mine = append(mine, k)
				} else {
					c.SpecError("cannot decode behaviour: %v: %.200s", err, string(r))
				}
			}})
		if err != nil {
			return nil, err
		}
		if res.Violated != "" {
			return nil, fmt.Errorf("model-level property violated in %s: %s\n%s", name, res.Violated, tail(res.Output, 3000))
		}
		mu.Lock()
		if sim {
			c.States += int64(num * depth)
			c.Transitions += int64(num * depth)
		}
		for a, n := range res.Cover {
			cover[a] += n
		}
		fmt.Printf("tlc %-14s %7d behaviours %9d distinct states %6.1fs\n", name, len(mine), res.Distinct, res.Wall.Seconds())
		mu.Unlock()
		return mine, nil
	}
	if v := os.Getenv("C16_CFG"); v != "" { // development aid
		var d, p, i, f, m int
		var fam string
		fmt.Sscanf(v, "%d,%d,%d,%d,%d,%s", &d, &p, &i, &f, &m, &fam)
		b := bounds{"Spec", d, p, i, f, bothKinds, m, true, fam, os.Getenv("C16_EXCL") != "", invGen}
		all, err := runTLC("dev.cfg", b, false, 0, 0, 0)
		if err != nil {
			return err
		}
		return check(c, all, 0)
	}
	return tiers(c, runTLC, cover)
}

func tiers(c *fw.Ctx, runTLC tlcRunner, cover map[string]int64) error {
	type job struct {
		name       string
		b          bounds
		sim        bool
		num, depth int
		seed       int64
	}
	var jobs []job
	ex := func(name, spec string, depth, pkgs, imports, perFile, mainDepth int, family, invs, kinds string) {
		jobs = append(jobs, job{name: name, b: bounds{spec, depth, pkgs, imports, perFile, kinds, mainDepth, true, family, true, invs}})
	}
	const strOnly = `{"string"}`
	// pinned witnesses of the known findings (no exclusions)
	jobs = append(jobs, job{name: "pin.cfg", b: bounds{"SpecPin", 3, 3, 3, 2, bothKinds, 1, true, "all", false, invGen + " PinTriggers"}})
	// order independence of the loader (model level only, nothing emitted)
	if c.Quick() {
		ex("anyorder.cfg", "SpecAny", 2, 2, 3, 3, 1, "all", invAny, bothKinds)
		ex("trees2.cfg", "Spec", 3, 2, 2, 2, 1, "all", invGen, bothKinds) // every tree of <= 2 package dirs, chains of 2 imports
		ex("multi3.cfg", "Spec", 3, 3, 2, 2, 1, "multi", invGen, strOnly) // 3 package dirs, some path in >= 2 places
		ex("graphs.cfg", "Spec", 2, 3, 3, 2, 1, "all", invGen, strOnly)   // flat trees, every import graph with <= 3 statements
		ex("nested3.cfg", "Spec", 3, 3, 2, 2, 1, "nested", invGen, strOnly) // 3 package dirs, one below another, a third under the path that joins them
		ex("chain3.cfg", "Spec", 3, 3, 3, 1, 1, "chain", invGen, bothKinds)  // 3 package dirs: one copy of a path leads to another copy through a third package, chains of 3 imports
	} else {
		ex("anyorder.cfg", "SpecAny", 2, 3, 4, 3, 1, "all", invAny, bothKinds)
		ex("trees2.cfg", "Spec", 3, 2, 3, 2, 2, "all", invGen, bothKinds)
		ex("multi3.cfg", "Spec", 3, 3, 3, 2, 1, "multi", invGen, bothKinds)
		ex("triple4.cfg", "Spec", 3, 4, 3, 2, 1, "triple", invGen, bothKinds) // 4 package dirs, some path in 3 places
		ex("graphs.cfg", "Spec", 2, 4, 4, 3, 1, "all", invGen, bothKinds)     // flat trees, <= 4 packages, every DAG / cyclic graph with <= 4 statements
		ex("nested3.cfg", "Spec", 3, 3, 3, 2, 1, "nested", invGen, bothKinds)
		// (4 package dirs with 4 imports do not finish in 9 minutes; measured: 4 dirs x 3 imports 1.15 M states in 50 s,
		// 3 dirs x 4 imports (2 per file) 0.24 M states in 30 s)
		ex("chain4.cfg", "Spec", 3, 4, 3, 1, 1, "chain", invGen, bothKinds)  // 4 package dirs, chains of 3 imports
		ex("chain3w.cfg", "Spec", 3, 3, 4, 2, 1, "chain", invGen, bothKinds) // 3 package dirs, 4 imports, 2 per file
	}
	nsim := c.Pick(3, 24)
	for j := 0; j < nsim; j++ {
		jobs = append(jobs, job{name: fmt.Sprintf("sim%d.cfg", j), sim: true, num: c.Pick(2, 6), depth: 1500, seed: c.Seed*1000 + int64(j),
			b: bounds{"SpecSim", 4 + j%2, 6, 7, 3, bothKinds, 3, true, "all", true, invGen}})
	}
	// TLC runs (at most 4 JVMs, <= 8 worker threads at a time) feed one consumer that replays
	// each run's cases while the next runs are still enumerating
	sem := make(chan struct{}, 4)
	type batch struct {
		name  string
		cases []kase
		err   error
	}
	batches := make(chan batch, len(jobs))
	var wg sync.WaitGroup
	for _, j := range jobs {
		wg.Add(1)
		go func(j job) {
			defer wg.Done()
			sem <- struct{}{}
			cases, err := runTLC(j.name, j.b, j.sim, j.num, j.depth, j.seed)
			<-sem
			batches <- batch{j.name, cases, err}
		}(j)
	}
	go func() { wg.Wait(); close(batches) }()
	seen := map[string]bool{}
	pins, total, distinct := 0, 0, 0
	quota := c.Pick(24, 400)
	var firstErr error
	for b := range batches {
		if b.err != nil {
			if firstErr == nil {
				firstErr = b.err
			}
			continue
		}
		if firstErr != nil {
			continue
		}
		var uniq []kase
		for _, k := range b.cases {
			total++
			key := k.key()
			if k.Pin != 0 {
				pins++
			} else if seen[key] {
				continue
			}
			seen[key] = true
			uniq = append(uniq, k)
		}
		distinct += len(uniq)
		// the reference sample is spread over the exhaustive runs
		n := 0
		if !strings.HasPrefix(b.name, "sim") && b.name != "pin.cfg" && len(uniq) > 0 {
			n = quota / 4
		}
		if err := check(c, uniq, n); err != nil {
			return err
		}
	}
	if firstErr != nil {
		return firstErr
	}
	if pins != 5 {
		return fmt.Errorf("expected 5 pinned witnesses, the specification produced %d", pins)
	}
	fmt.Printf("%d behaviours, %d distinct cases\n", total, distinct)
	c.Exhaustive = false
	c.Extra["exhaustive_parts"] = "trees2, multi3, triple4 and graphs are exhaustive within their bounds (minus the named exclusions); sim* are seeded"
	if len(cover) > 0 {
		c.Extra["tlc_action_coverage"] = cover
	}
	return nil
}

var dump = os.Getenv("C16_DUMP") != ""

func check(c *fw.Ctx, all []kase, nativeSample int) error {
	const chunk = 40
	var jobs []any
	for i := 0; i < len(all); i += chunk {
		j := i + chunk
		if j > len(all) {
			j = len(all)
		}
		jobs = append(jobs, all[i:j])
	}
	t0 := time.Now()
	results := c.RunChildren("c16", jobs, 16, 120*time.Second, []string{"C16_SCRATCH=" + c.Scratch})
	if len(all) == 0 {
		return nil
	}
	fmt.Printf("replayed %d cases twice (disk, fs.FS) in %.1fs\n", len(all), time.Since(t0).Seconds())
	type bad struct {
		k    *kase
		o    *obs
		mode string
		skip bool
	}
	var bads []bad
	var good []*kase
	exact := 0
	stat, _ := c.Extra["case_statistics"].(map[string]int)
	if stat == nil {
		stat = map[string]int{}
		c.Extra["case_statistics"] = stat
	}
	for ji, r := range results {
		var os_ []obs
		if r.Out != nil {
			json.Unmarshal(r.Out, &os_)
		}
		for x := range jobs[ji].([]kase) {
			k := &all[ji*chunk+x]
			c.Count(k.key(), k.nontrivial())
			c.TracesVsImpl++
			k.stats(stat)
			if x == 0 && ji%7 == 0 {
				pk, ms := k.files()
				c.Sample(map[string]any{"tree": k.Tree, "situation": k.Sit, "main_dir": ds(k.Mdir), "main": ms, "files": pk, "expected_log": k.Log, "expected_status": k.Status})
			}
			if r.Out == nil || x >= len(os_) {
				bads = append(bads, bad{k: k, mode: "harness child " + r.Describe()})
				continue
			}
			o := &os_[x]
			okD, mD := k.conforms(o.Disk)
			okM, mM := k.conforms(o.Mem)
			if okD && okM {
				good = append(good, k)
				if k.Status == "ok" && sameOrder(k, o.Disk.Out) {
					exact++
				}
				continue
			}
			mode := ""
			switch {
			case !okD && !okM && mD == mM:
				mode = "disk and fs.FS: " + mD
			case !okD && !okM:
				mode = "disk: " + mD + "; fs.FS: " + mM
			case !okD:
				mode = "disk only: " + mD
			default:
				mode = "fs.FS only: " + mM
			}
			bads = append(bads, bad{k: k, o: o, mode: mode})
		}
	}
	if n, ok := c.Extra["order_equals_depth_first_log"].(int); ok {
		exact += n
	}
	c.Extra["order_equals_depth_first_log"] = exact
	// corroborate every disagreement with the reference before calling it a failure,
	// and validate the specification on a seeded sample of the agreeing cases
	type natJob struct {
		k   *kase
		bad int // index in bads, -1 for a sampled case
	}
	var nj []natJob
	pre := map[string]int{}
	for i := range bads {
		if !bads[i].k.nativeApplicable() {
			continue
		}
		// one replay is kept per signature: corroborating the first few of each is enough
		s := strings.Join(bads[i].k.triggers(), " + ") + " / " + bads[i].mode
		if pre[s]++; pre[s] > 5 {
			bads[i].skip = true
			continue
		}
		nj = append(nj, natJob{bads[i].k, i})
	}
	rng := rand.New(rand.NewSource(c.Seed))
	var cand []*kase
	for _, k := range good {
		if k.nativeApplicable() && k.nontrivial() {
			cand = append(cand, k)
		}
	}
	rng.Shuffle(len(cand), func(i, j int) { cand[i], cand[j] = cand[j], cand[i] })
	for i := 0; i < nativeSample && i < len(cand); i++ {
		nj = append(nj, natJob{cand[i], -1})
	}
	t0 = time.Now()
	var wg sync.WaitGroup
	sem := make(chan struct{}, 16)
	nres := make([]run, len(nj))
	for i := range nj {
		wg.Add(1)
		sem <- struct{}{}
		go func(i int) {
			defer wg.Done()
			defer func() { <-sem }()
			nres[i] = nj[i].k.native(c)
		}(i)
	}
	wg.Wait()
	if len(nj) > 0 {
		fmt.Printf("reference (go build, GOPATH mode) on %d cases in %.1fs\n", len(nj), time.Since(t0).Seconds())
	}
	nat := make([]*run, len(bads))
	sampled := 0
	for i, j := range nj {
		if ok, m := j.k.conforms(nres[i]); !ok {
			c.SpecError("specification disagrees with the toolchain (%s) on %s: native %+v", m, j.k.key(), nres[i])
			if j.bad >= 0 {
				bads[j.bad].k = nil
			}
			continue
		}
		if j.bad >= 0 {
			nat[j.bad] = &nres[i]
			c.DisagreeChk++
		} else {
			sampled++
		}
	}
	if n, ok := c.Extra["reference_validated_sample"].(int); ok {
		sampled += n
	}
	c.Extra["reference_validated_sample"] = sampled
	hist := map[string]int{}
	for i, b := range bads {
		k := b.k
		if k == nil || (b.skip && !dump) {
			continue
		}
		pk, ms := k.files()
		rep := map[string]any{"pin": k.Pin, "tree": k.Tree, "sit": k.Sit, "mdir": k.Mdir, "code": k.Code, "res": k.Res, "log": k.Log,
			"status": k.Status, "allowed": k.Allowed, "diamond": k.Diamond, "trig": k.Trig,
			"rendered_files": pk, "rendered_main": ms, "observed": b.o}
		if nat[i] != nil {
			rep["reference_go_build_gopath_mode"] = nat[i]
		} else {
			rep["reference_go_build_gopath_mode"] = "not applicable (relative and absolute imports mixed): `go help gopath` is the contract"
		}
		trig := strings.Join(k.triggers(), " + ")
		if dump {
			hist[trig+" / "+b.mode]++
			if hist[trig+" / "+b.mode] <= 3 {
				fmt.Printf("BAD %s / %s\n    %s\n    want %s %v\n", trig, b.mode, k.key(), k.Status, k.Log)
				if b.o != nil {
					fmt.Printf("    disk %v %q\n    mem  %v %q\n", b.o.Disk.Out, b.o.Disk.Err, b.o.Mem.Out, b.o.Mem.Err)
				}
			}
			continue
		}
		c.Fail(trig, b.mode, rep)
	}
	if dump {
		// audit of the exclusions' width: cases that contain a trigger and conform anyway
		for _, k := range good {
			hist["(conforms) "+strings.Join(k.triggers(), " + ")]++
		}
		keys := []string{}
		for h := range hist {
			keys = append(keys, h)
		}
		sort.Strings(keys)
		for _, h := range keys {
			fmt.Printf("HIST %6d %s\n", hist[h], h)
		}
	}
	return nil
}

func sameOrder(k *kase, out []string) bool {
	if len(out) != len(k.Log)+1 {
		return false
	}
	for i, d := range k.Log {
		if out[i] != ds(d) {
			return false
		}
	}
	return true
}

func tail(s string, n int) string {
	if len(s) > n {
		return s[len(s)-n:]
	}
	return s
}
