// Check for property C17: files are selected by build constraints as the Go toolchain
// selects them. BuildCons.tla generates the cases and states the verdict; go/build's
// MatchFile validates the specification on every case; the interpreter is observed
// through the public API only (EvalPath / EvalTest on a MapFS, then Symbols).
package main

import (
	"encoding/json"
	"fmt"
	"go/build"
	"io"
	"io/fs"
	"runtime"
	"sort"
	"strings"
	"testing/fstest"
	"time"

	"github.com/traefik/yaegi/interp"

	"verif/fw"
)

type atom struct {
	K string `json:"k"`
	W string `json:"w"`
	N int    `json:"n"`
}

type expr struct {
	Op string `json:"op"`
	A  *atom  `json:"a,omitempty"`
	X  *expr  `json:"x,omitempty"`
	L  *expr  `json:"l,omitempty"`
	R  *expr  `json:"r,omitempty"`
}

type term struct {
	A   atom `json:"a"`
	Neg bool `json:"neg"`
}

type header struct {
	Kind     string     `json:"kind"`
	E        *expr      `json:"e"`
	P        [][][]term `json:"p"`
	Attached bool       `json:"attached"`
}

type kase struct {
	Pre     string   `json:"pre"`
	Els     []string `json:"els"`
	Test    bool     `json:"test"`
	Dot     bool     `json:"dot"`
	H       header   `json:"h"`
	Load    string   `json:"load"`
	OptTags []string `json:"optTags"`
	YTags   []string `json:"yTags"`
	Car     string   `json:"car"` // carrier file with // yaegi:tags foo, presented before the file: none | incl | hdr | name
}

// carrier is the name and content of the carrier file of the case ("" if none).
func (k *kase) carrier() (string, string) {
	// an operating system that is neither the target nor a word of any generated tag set
	const other = "plan9"
	switch k.Car {
	case "incl":
		return "a_car.go", "// yaegi:tags foo\n\npackage p\n\nvar Car = 1\n"
	case "hdr":
		// excluded by its header, in one of four ways (chosen by the case itself)
		hs := []string{"//go:build ignore", "//go:build " + other, "// +build neverset", "//go:build go1.99"}
		return "a_car.go", hs[len(k.content())%len(hs)] + "\n\n// yaegi:tags foo\n\npackage p\n\nvar Car = 1\n"
	case "name":
		return "a_car_" + other + ".go", "// yaegi:tags foo\n\npackage p\n\nvar Car = 1\n"
	}
	return "", ""
}

type beh struct {
	C   kase   `json:"c"`
	Sel string `json:"sel"`
}

func (a atom) String() string {
	if a.K == "go" {
		return fmt.Sprintf("go1.%d", a.N)
	}
	return a.W
}

func (e *expr) String() string {
	switch e.Op {
	case "atom":
		return e.A.String()
	case "not":
		return "!(" + e.X.String() + ")"
	case "and":
		return "(" + e.L.String() + " && " + e.R.String() + ")"
	case "or":
		return "(" + e.L.String() + " || " + e.R.String() + ")"
	}
	return "?"
}

func plusLines(p [][][]term) string {
	var b strings.Builder
	for _, line := range p {
		b.WriteString("// +build")
		for _, opt := range line {
			b.WriteString(" ")
			for k, t := range opt {
				if k > 0 {
					b.WriteString(",")
				}
				if t.Neg {
					b.WriteString("!")
				}
				b.WriteString(t.A.String())
			}
		}
		b.WriteString("\n")
	}
	return b.String()
}

func (k *kase) fileName() string {
	n := k.Pre
	for _, e := range k.Els {
		n += "_" + e
	}
	if k.Test {
		n += "_test"
	}
	if k.Dot {
		n += ".x"
	}
	return n + ".go"
}

func (k *kase) content() string {
	var b strings.Builder
	switch k.H.Kind {
	case "go":
		b.WriteString("//go:build " + k.H.E.String() + "\n\n")
	case "plus":
		b.WriteString(plusLines(k.H.P))
		if !k.H.Attached {
			b.WriteString("\n")
		}
	case "both":
		b.WriteString("//go:build " + k.H.E.String() + "\n")
		b.WriteString(plusLines(k.H.P))
		b.WriteString("\n")
	}
	b.WriteString("package p\n\nvar Probe = 1\n")
	return b.String()
}

func (k *kase) mainSrc() string {
	s := ""
	if len(k.YTags) > 0 {
		s = "// yaegi:tags " + strings.Join(k.YTags, " ") + "\n\n"
	}
	return s + "package main\n\nimport \"p\"\n\nvar X = p.Base\n\nfunc main() {}\n"
}

func (k *kase) tags() []string {
	m := map[string]bool{}
	for _, t := range k.OptTags {
		m[t] = true
	}
	for _, t := range k.YTags {
		m[t] = true
	}
	if k.Car == "incl" {
		m["foo"] = true
	}
	var r []string
	for t := range m {
		r = append(r, t)
	}
	sort.Strings(r)
	return r
}

// reference: go/build on the same name and content, for the interpreter's target.
func (k *kase) reference() (bool, error) {
	ctx := build.Default
	ctx.GOOS, ctx.GOARCH = runtime.GOOS, runtime.GOARCH
	ctx.CgoEnabled = false
	ctx.BuildTags = k.tags()
	content := k.content()
	ctx.OpenFile = func(string) (io.ReadCloser, error) { return io.NopCloser(strings.NewReader(content)), nil }
	ctx.JoinPath = func(e ...string) string { return strings.Join(e, "/") }
	m, err := ctx.MatchFile("p", k.fileName())
	if err != nil {
		return false, err
	}
	if strings.HasSuffix(k.fileName(), "_test.go") && k.Load != "test" {
		return false, nil
	}
	return m, nil
}

type obs struct {
	Sel bool   `json:"sel"`
	Err string `json:"err,omitempty"`
}

// observe runs the real interpreter on the case.
func (k *kase) observe() (o obs) {
	defer func() {
		if r := recover(); r != nil {
			o.Err = fmt.Sprintf("panic: %v", r)
		}
	}()
	mfs := fstest.MapFS{
		"main.go":                  &fstest.MapFile{Data: []byte(k.mainSrc())},
		"gp/src/p/base.go":         &fstest.MapFile{Data: []byte("package p\n\nvar Base = 1\n")},
		"gp/src/p/" + k.fileName(): &fstest.MapFile{Data: []byte(k.content())},
	}
	if cn, cc := k.carrier(); cn != "" {
		mfs["gp/src/p/"+cn] = &fstest.MapFile{Data: []byte(cc)}
	}
	var _ fs.FS = mfs
	i := interp.New(interp.Options{GoPath: "./gp", SourcecodeFilesystem: mfs, BuildTags: append([]string(nil), k.OptTags...)})
	var err error
	if k.Load == "test" {
		err = i.EvalTest("p")
	} else {
		_, err = i.EvalPath("main.go")
	}
	if err != nil {
		o.Err = err.Error()
		return o
	}
	syms := i.Symbols("p")
	_, o.Sel = syms["p"]["Probe"]
	if _, ok := syms["p"]["Base"]; !ok {
		o.Err = "base symbol not visible"
	}
	return o
}

func init() {
	fw.RegisterChild("c17", func(job json.RawMessage) any {
		var ks []kase
		if err := json.Unmarshal(job, &ks); err != nil {
			return []obs{}
		}
		res := make([]obs, len(ks))
		for i := range ks {
			res[i] = ks[i].observe()
		}
		return res
	})
}

// features of a case, used to sign a failure (never derived from a seed)
func (k *kase) trigger(c *fw.Ctx) string {
	var f []string
	if k.H.Kind == "plus" && k.H.Attached {
		// Does the header, read as if it were separated from the package clause by a
		// blank line, exclude the file (according to go/build)? Then the failure is
		// explained by the attachment alone and the name plays no part in the signature.
		k2 := *k
		k2.H.Attached = false
		if sel, err := k2.reference(); err == nil && !sel {
			return "+build lines adjacent to the package clause (no blank line) whose constraint is false"
		}
		f = append(f, "attached")
	}
	f = append(f, "hdr="+k.H.Kind)
	if k.Car != "" && k.Car != "none" {
		f = append(f, "yaegi:tags carrier="+k.Car)
	}
	l := append([]string{""}, k.Els...)
	if k.Test {
		l = append(l, "test")
	}
	if n := len(l); n > 0 && l[n-1] == "test" {
		l = l[:n-1]
	}
	cls := func(w string) string {
		switch w {
		case runtime.GOOS:
			return "hostOS"
		case runtime.GOARCH:
			return "hostArch"
		case "windows":
			return "otherOS"
		case "arm64":
			return "otherArch"
		case "zos":
			return "newOS"
		case "riscv64":
			return "newArch"
		case "":
			return "-"
		}
		return "word"
	}
	n := len(l)
	a, b := "-", "-"
	if n >= 1 {
		b = cls(l[n-1])
	}
	if n >= 2 {
		a = cls(l[n-2])
	}
	f = append(f, "name="+a+"_"+b)
	if k.Dot {
		f = append(f, "dot")
	}
	if k.Test {
		f = append(f, "test/"+k.Load)
	}
	return strings.Join(f, " ")
}

func main() {
	fw.Main("C17", "model_checking", run)
}

func run(c *fw.Ctx) error {
	if runtime.GOOS != "linux" || runtime.GOARCH != "amd64" {
		return fmt.Errorf("cfg files are written for linux/amd64")
	}
	rel := build.Default.ReleaseTags[len(build.Default.ReleaseTags)-1]
	var relN int
	fmt.Sscanf(rel, "go1.%d", &relN)
	cfgConst := fmt.Sprintf("CONSTANTS GOOS = \"linux\" GOARCH = \"amd64\" Release = %d\n", relN)
	mk := func(spec, invs string) []byte {
		return []byte("SPECIFICATION " + spec + "\n" + cfgConst + "INVARIANTS " + invs + "\n")
	}
	files := map[string][]byte{
		"gen.names.cfg":   mk("SpecNames", "NameLocality NoUnderscore TestOnlyInTest Emit"),
		"gen.headers.cfg": mk("SpecHeaders", "PlusEquivalent DeMorgan NoUnderscore Emit"),
		"gen.sim.cfg":     mk("SpecSim", "PlusEquivalent DeMorgan NameLocality NoUnderscore TestOnlyInTest Emit"),
	}
	c.Rule = "cases generated by BuildCons.tla (all names x no header; all headers of depth<=1 x plain name; seeded simulation of the cross product with depth-2 expressions); a case is non-trivial when its name has an OS/arch word in the last two positions or it has a header; distinct by (file name, header text, tags, load mode)"
	c.Assumptions = []string{
		"go/build.Context.MatchFile (installed toolchain) is the reference that validates the specification on every case",
		"cgo and the compiler tag gc are not generated (their meaning for an interpreter is not fixed by the property)",
		"the interpreter is observed through EvalPath/EvalTest on a fstest.MapFS and Symbols(\"p\")",
	}
	if c.Replay != "" {
		var b beh
		if err := c.LoadReplay(&b); err != nil {
			return err
		}
		return check(c, []beh{b})
	}
	var all []beh
	add := func(r json.RawMessage) {
		var b beh
		if err := json.Unmarshal(r, &b); err == nil {
			all = append(all, b)
		}
	}
	runTLC := func(cfg string, sim bool, num int, seed int64) error {
		res, err := c.TLC(fw.TLCOpts{Dir: "spec/env", Module: "BuildCons", Cfg: cfg, Files: files, Simulate: sim,
			Num: num, Depth: 100, Seed: seed, OnBeh: add, Timeout: 8 * time.Minute})
		if err != nil {
			return err
		}
		if res.Violated != "" {
			return fmt.Errorf("model-level property violated in %s: %s", cfg, res.Violated)
		}
		if sim {
			// simulation mode does not print the BFS summary line
			c.States += int64(num * 100)
			c.Transitions += int64(num * 100)
		}
		return nil
	}
	if err := runTLC("gen.names.cfg", false, 0, 0); err != nil {
		return err
	}
	if err := runTLC("gen.headers.cfg", false, 0, 0); err != nil {
		return err
	}
	nsim := c.Pick(30, 1500)
	// several JVMs in the thorough tier
	per := 30
	type r struct{ err error }
	n := (nsim + per - 1) / per
	for j := 0; j < n; j++ {
		if err := runTLC("gen.sim.cfg", true, per, c.Seed*1000+int64(j)); err != nil {
			return err
		}
	}
	c.Exhaustive = false
	c.Extra["exhaustive_parts"] = "names (all), headers depth<=1 (all)"
	return check(c, all)
}

func check(c *fw.Ctx, all []beh) error {
	const chunk = 200
	var jobs []any
	for i := 0; i < len(all); i += chunk {
		j := i + chunk
		if j > len(all) {
			j = len(all)
		}
		ks := make([]kase, 0, chunk)
		for _, b := range all[i:j] {
			ks = append(ks, b.C)
		}
		jobs = append(jobs, ks)
	}
	results := c.RunChildren("c17", jobs, 16, 120*time.Second, nil)
	for ji, r := range results {
		var os []obs
		if r.Out != nil {
			json.Unmarshal(r.Out, &os)
		}
		for x := range jobs[ji].([]kase) {
			b := all[ji*chunk+x]
			k := &b.C
			want := b.Sel == "yes"
			ref, rerr := k.reference()
			if rerr != nil {
				c.SpecError("go/build error on %s: %v", k.fileName(), rerr)
				continue
			}
			if ref != want {
				c.SpecError("specification says %v, go/build says %v for name=%s content=%q tags=%v load=%s", want, ref, k.fileName(), k.content(), k.tags(), k.Load)
				continue
			}
			c.DisagreeChk++
			key := k.fileName() + "|" + k.content() + "|" + strings.Join(k.OptTags, ",") + "|" + strings.Join(k.YTags, ",") + "|" + k.Load + "|" + k.Car
			nontrivial := k.H.Kind != "none" || len(k.Els) > 0
			c.Count(key, nontrivial)
			c.TracesVsImpl++
			if x < 2 && ji < 3 {
				c.Sample(map[string]any{"file": k.fileName(), "content": k.content(), "tags": k.tags(), "load": k.Load, "expected_selected": want})
			}
			rep := map[string]any{"c": k, "sel": b.Sel, "file": k.fileName(), "content": k.content(), "main": k.mainSrc(), "reference_go_build": ref}
			if r.Out == nil || x >= len(os) {
				c.Fail(k.trigger(c), "harness child "+r.Describe(), rep)
				continue
			}
			o := os[x]
			rep["observed"] = o
			switch {
			case o.Err != "":
				c.Fail(k.trigger(c), "error instead of a selection: "+firstLine(o.Err), rep)
			case o.Sel && !want:
				c.Fail(k.trigger(c), "file selected, toolchain excludes it", rep)
			case !o.Sel && want:
				c.Fail(k.trigger(c), "file excluded, toolchain selects it", rep)
			}
		}
	}
	return nil
}

func firstLine(s string) string {
	if i := strings.IndexByte(s, '\n'); i >= 0 {
		s = s[:i]
	}
	if len(s) > 80 {
		s = s[:80]
	}
	return s
}
