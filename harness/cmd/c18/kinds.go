package main

import (
	"sort"
	"strings"
)

// kindSrc is the renderer of PkgGen.tla: one Go source text per declaration kind (and
// the imports it needs). The names each text declares are those Decls lists for the kind;
// that correspondence is validated on every case with go/types (SPEC-ERROR otherwise).
type kindSrc struct {
	imports []string
	src     string
}

var kindSrcs = map[string]kindSrc{
	"uintSmall":       {src: "const UintSmall = 42\n"},
	"uintHuge":        {src: "const UintHuge = 1 << 100\n"},
	"uintNeg":         {src: "const UintNeg = -7\n"},
	"ufloatDyadic":    {src: "const UfloatDyadic = 0.375\n"},
	"ufloatWhole":     {src: "const UfloatWhole = 2.0\n"},
	"ufloatBig":       {src: "const UfloatBig = 1e100\n"},
	"ufloatNonDyadic": {src: "const UfloatNonDyadic = 0.1\n"},
	"urune":           {src: "const Urune = 'x'\n"},
	"ustring":         {src: "const Ustring = \"a\\\"b\\\\c\\td\"\n"},
	"ustringLong":     {src: "const UstringLong = \"the quick brown fox jumps over the lazy dog, then does it again, and again, until \\\"more than\\\" seventy-two characters are used\"\n"},
	"ufloatTiny":      {src: "const UfloatTiny = 1.0 / (1 << 100)\n"},
	"ubool":           {src: "const Ubool = true\n"},
	"ucomplex":        {src: "const Ucomplex = 1 + 2i\n"},
	"typedConst": {src: `type MyStr string

const (
	TypedInt8  int8    = -5
	TypedStr   MyStr   = "typed"
	TypedFloat float32 = 0.1
)
`},
	"typedEnum": {src: `type Color int

const (
	Red Color = iota
	Green
	Blue
)

func (c Color) String() string { return [...]string{"r", "g", "b"}[c] }
`},
	"varPlain": {src: `var (
	VarInt    = 3
	VarSlice  []string
	VarStruct struct {
		A int
		b string
	}
)
`},
	"varFunc":   {src: "var VarFunc = func(x int) int { return x + 1 }\n"},
	"varIface":  {imports: []string{"io"}, src: "var VarIface io.Reader\n"},
	"funcPlain": {src: "func FuncPlain() {}\n"},
	"funcVariadic": {src: `func FuncVariadic(a int, b ...string) int { return a + len(b) }
`},
	"funcNamedRes": {src: `func FuncNamedRes(x int) (n int, err error) { return x, nil }
`},
	"funcFuncParam": {src: `func FuncFuncParam(cb func(int) bool, more ...func() error) func() { return func() { cb(len(more)) } }
`},
	"genericFunc": {src: "func GenericFunc[T any](x T) T { return x }\n"},
	"genericType": {src: `type GenericType[K comparable, V any] struct {
	m map[K]V
}

func (g *GenericType[K, V]) Get(k K) V { return g.m[k] }
`},
	"structType": {src: `type Struct struct {
	A int
	b string
	C []*Struct
}

func (s Struct) Value() int    { return s.A }
func (s *Struct) Pointer() int { return len(s.b) }
func (s *Struct) hidden()      {}
`},
	"ifaceSimple": {src: `type IfaceSimple interface {
	M(x int) string
}
`},
	"ifaceEmbed": {src: `type IfaceEmbedBase interface {
	Base() int
}

type IfaceEmbed interface {
	IfaceEmbedBase
	Extra(s string) (ok bool)
}
`},
	"ifaceEmbedExt": {imports: []string{"io"}, src: `type IfaceEmbedExt interface {
	io.Reader
	Close() error
}
`},
	"ifaceEmbedThird": {imports: []string{"net"}, src: `type IfaceConn interface {
	net.Conn
	ID() string
}
`},
	"ifaceEmbedInfo": {imports: []string{"io/fs"}, src: `type IfaceInfo interface {
	fs.FileInfo
	Extra() int
}
`},
	"ifaceUnexported": {src: `type IfaceUnexp interface {
	Pub() int
	priv(x int)
}
`},
	"ifaceVariadic": {src: `type IfaceVariadic interface {
	Logf(format string, args ...interface{})
	Sum(xs ...int) (total int)
}
`},
	"ifaceUnnamed": {src: `type IfaceUnnamed interface {
	Do(int, string) (bool, error)
	One(...byte)
}
`},
	"ifaceLocalType": {src: `type LocalT struct{ N int }

type IfaceLocal interface {
	Get() LocalT
	Set(v *LocalT) error
	All(m map[string][]LocalT) (out chan<- *LocalT)
}
`},
	"ifaceExtSig": {imports: []string{"io"}, src: `type IfaceExtSig interface {
	Copy(dst io.Writer, src io.Reader) (written int64, err error)
}
`},
	"ifaceEmpty": {src: "type IfaceEmpty interface{}\n"},
	"ifaceString": {src: `type IfaceStringer interface {
	String() string
}
`},
	"ifaceFuncTypes": {src: `type IfaceFuncTypes interface {
	Handler() func(code int) error
	Visit(fn func(k string, v interface{}) bool)
	Multi() (a, b int, err error)
	Chans(in <-chan int, out chan<- [2]string) (done chan struct{})
}
`},
	"constraintOnly": {src: `type ConstraintOnly interface {
	~int | ~float64
}
`},
	"constraintMethods": {src: `type ConstraintMethods interface {
	~int | ~int64
	String() string
}
`},
	"ifaceBlankParam": {src: `type IfaceBlank interface {
	Do(_ int, s string) error
}
`},
	"ifaceParamW": {src: `type IfaceParamW interface {
	Resize(W, H int) (ok bool)
}
`},
	"aliasLocal": {src: `type AliasTarget struct{ X int }

type AliasLocal = AliasTarget
`},
	"aliasExtIface": {imports: []string{"io"}, src: "type AliasExtIface = io.Writer\n"},
	"aliasGenericInst": {src: `type GenericBox[T any] struct{ V T }

type AliasInst = GenericBox[int]
`},
	"unexported": {src: `const unexpConst = 1

var unexpVar int

func unexpFunc() {}

type unexpType struct{}

type unexpIface interface{ M() }

var _ = unexpFunc
var _ unexpType
var _ unexpIface
`},
}

// render gives the source of a generated package.
func render(pname string, kinds []string) string {
	ks := append([]string{}, kinds...)
	sort.Strings(ks)
	imps := map[string]bool{}
	for _, k := range ks {
		for _, i := range kindSrcs[k].imports {
			imps[i] = true
		}
	}
	var b strings.Builder
	b.WriteString("// Package " + pname + " is generated by the C18 check from PkgGen.tla.\npackage " + pname + "\n\n")
	if len(imps) > 0 {
		var l []string
		for i := range imps {
			l = append(l, i)
		}
		sort.Strings(l)
		b.WriteString("import (\n")
		for _, i := range l {
			b.WriteString("\t\"" + i + "\"\n")
		}
		b.WriteString(")\n\n")
	}
	for _, k := range ks {
		b.WriteString("// kind " + k + "\n" + kindSrcs[k].src + "\n")
	}
	return b.String()
}
