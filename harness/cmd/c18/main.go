// Check for property C18: extract emits complete, compilable, faithful wrappers.
// PkgGen.tla generates packages (sets of declaration kinds) together with the expected
// emission of every declared name; the harness renders each package into a scratch GOPATH,
// runs the real extract.Extractor on it (and on packages of the installed standard
// library), type-checks the generated file, extracts its facts exactly as C14 does for the
// shipped tables and lets TLC evaluate the invariants of Bindings.tla (Mode = "gen") over
// them, with the expectations of PkgGen.tla joined in.
package main

import (
	"bytes"
	"encoding/json"
	"fmt"
	"go/ast"
	"go/parser"
	"go/token"
	"go/types"
	"math/rand"
	"os"
	"os/exec"
	"path/filepath"
	"regexp"
	"runtime"
	"sort"
	"strconv"
	"strings"
	"sync"
	"time"

	"github.com/traefik/yaegi/extract"

	"verif/fw"
	"verif/fw/bindfacts"
)

// funcDeclText returns the source text of the declaration of function name in file ("" if there is none).
func funcDeclText(file, name string) string {
	src, err := os.ReadFile(file)
	if err != nil {
		return ""
	}
	fset := token.NewFileSet()
	f, err := parser.ParseFile(fset, file, src, parser.ParseComments)
	if err != nil {
		return ""
	}
	for _, d := range f.Decls {
		if fd, ok := d.(*ast.FuncDecl); ok && fd.Recv == nil && fd.Name.Name == name {
			return string(src[fset.Position(fd.Pos()).Offset:fset.Position(fd.End()).Offset])
		}
	}
	return ""
}

func main() { fw.Main("C18", "model_checking", run) }

// ---- model-level case -------------------------------------------------------------

type decl struct {
	Name    string   `json:"name"`
	Em      string   `json:"em"`
	Tok     string   `json:"tok"`
	Exact   string   `json:"exact"`
	Methods []string `json:"methods"`
}

// kase is one package: generated (Kinds, Pname, Expect from PkgGen.tla) or standard (Std).
type kase struct {
	Kinds  []string `json:"kinds,omitempty"`
	Pname  string   `json:"pname,omitempty"`
	Expect []decl   `json:"expect,omitempty"`
	Std    string   `json:"std,omitempty"`
}

func (k *kase) label() string {
	if k.Std != "" {
		return "std " + k.Std
	}
	ks := append([]string{}, k.Kinds...)
	sort.Strings(ks)
	s := "kinds " + strings.Join(ks, "+")
	if k.Pname != "pg" {
		s += " package " + k.Pname
	}
	return s
}

// ---- child: render, extract, facts --------------------------------------------------

type job struct {
	Case       kase   `json:"case"`
	Index      int    `json:"index"`
	ImportPath string `json:"importPath"`
	GoPath     string `json:"gopath"`
	OutDir     string `json:"outDir"`
	Repo       string `json:"repo"`
}

type refDecl struct {
	Name string         `json:"name"`
	Real bindfacts.Real `json:"real"`
}

type result struct {
	NotImportable string             `json:"notImportable,omitempty"` // the reference cannot load the input package
	ExtractErr    string             `json:"extractErr,omitempty"`
	Source        string             `json:"source,omitempty"` // input (generated packages)
	Output        string             `json:"output,omitempty"` // what extract wrote
	Unit          bindfacts.UnitFact `json:"unit"`
	Entries       []bindfacts.Entry  `json:"entries"`
	Methods       []bindfacts.Method `json:"methods"`
	Ref           []refDecl          `json:"ref"` // go/types view of the input package
	PkgName       string             `json:"pkgName"`
}

var (
	childLoader *bindfacts.Loader
	childOnce   sync.Once
)

func init() {
	fw.RegisterChild("c18", func(raw json.RawMessage) any {
		var j job
		if err := json.Unmarshal(raw, &j); err != nil {
			return result{ExtractErr: "bad job: " + err.Error()}
		}
		return doJob(&j)
	})
}

const symDecl = "import \"reflect\"\n\nvar Symbols = map[string]map[string]reflect.Value{}\n"

func doJob(j *job) (res result) {
	defer func() {
		if r := recover(); r != nil {
			res.ExtractErr = fmt.Sprintf("panic: %v", r)
		}
	}()
	childOnce.Do(func() { childLoader = bindfacts.NewLoader(runtime.GOOS, runtime.GOARCH, nil) })
	res.Entries, res.Methods, res.Ref = []bindfacts.Entry{}, []bindfacts.Method{}, []refDecl{}
	dest := "symbols"
	extra := map[string]string{}
	if j.Case.Std != "" {
		dest = "stdlib"
		if j.Case.Std == "os" || j.Case.Std == "log" || j.Case.Std == "log/slog" {
			// the replacements of the restricted names live in package stdlib
			b, err := os.ReadFile(filepath.Join(j.Repo, "stdlib", "restricted.go"))
			if err == nil {
				extra["restricted.go"] = string(b)
			}
		}
		if j.Case.Std == "log/slog" {
			// slogNewLogLogger is declared in stdlib/stdlib.go, next to the Symbols table: that declaration alone
			if fn := funcDeclText(filepath.Join(j.Repo, "stdlib", "stdlib.go"), "slogNewLogLogger"); fn != "" {
				extra["restricted_slog.go"] = "package stdlib\n\nimport \"log/slog\"\n\n" + fn + "\n"
			}
		}
	} else {
		dir := filepath.Join(j.GoPath, "src", filepath.FromSlash(j.ImportPath))
		res.Source = render(j.Case.Pname, j.Case.Kinds)
		if err := os.MkdirAll(dir, 0o755); err != nil {
			res.ExtractErr = err.Error()
			return
		}
		if err := os.WriteFile(filepath.Join(dir, "decls.go"), []byte(res.Source), 0o644); err != nil {
			res.ExtractErr = err.Error()
			return
		}
	}
	extra["symbols_decl.go"] = "package " + dest + "\n\n" + symDecl
	// the reference's view of the input
	p, err := childLoader.Import(j.ImportPath)
	if err != nil || p == nil {
		res.NotImportable = fmt.Sprint(err)
		return
	}
	res.PkgName = p.Name()
	for _, n := range p.Scope().Names() {
		res.Ref = append(res.Ref, refDecl{Name: n, Real: bindfacts.Describe(p.Scope().Lookup(n))})
	}
	// the real extract
	var buf bytes.Buffer
	e := extract.Extractor{Dest: dest}
	if _, err := e.Extract(j.ImportPath, "", &buf); err != nil {
		res.ExtractErr = err.Error()
		return
	}
	res.Output = buf.String()
	if err := os.MkdirAll(j.OutDir, 0o755); err != nil {
		res.ExtractErr = err.Error()
		return
	}
	if err := os.WriteFile(filepath.Join(j.OutDir, "out.go"), buf.Bytes(), 0o644); err != nil {
		res.ExtractErr = err.Error()
		return
	}
	var minor int
	fmt.Sscanf(runtime.Version(), "go1.%d", &minor)
	u := bindfacts.Unit{Table: "gen", Rel: minor, Plat: runtime.GOOS + "/" + runtime.GOARCH, Dir: j.OutDir, Files: []string{"out.go"},
		Extra: extra, Prefix: fmt.Sprintf("%s:", j.ImportPath)}
	fs, err := bindfacts.Extract(u, childLoader, childLoader, fmt.Sprintf("g%d.", j.Index))
	if err != nil {
		// the generated file does not even parse
		res.Unit = bindfacts.UnitFact{Kind: "unit", ID: fmt.Sprintf("g%d.U", j.Index), Table: "gen", Rel: minor, Plat: u.Plat, Files: u.Files, TypeErrors: []string{err.Error()}}
		return
	}
	res.Unit, res.Entries, res.Methods = fs.Unit, fs.Entries, fs.Methods
	if res.Entries == nil {
		res.Entries = []bindfacts.Entry{}
	}
	if res.Methods == nil {
		res.Methods = []bindfacts.Method{}
	}
	return
}

// ---- reference view of an emission (validates PkgGen.tla, never a verdict) -----------

func refEmission(r bindfacts.Real) string {
	switch {
	case !r.Exists:
		return "absent"
	case !r.Exported, r.Generic:
		return "skipped"
	}
	switch r.Class {
	case "func":
		return "value"
	case "var":
		return "address"
	case "const":
		if r.Untyped && (r.CKind == "int" || r.CKind == "rune" || r.CKind == "float" || r.CKind == "string") {
			return "literal"
		}
		return "value"
	case "type":
		switch r.Iface {
		case "constraint":
			return "skipped"
		case "methods", "empty":
			return "wrapper"
		}
		return "type"
	}
	return "skipped"
}

func refTok(k string) string {
	switch k {
	case "int":
		return "INT"
	case "rune":
		return "CHAR"
	case "float":
		return "FLOAT"
	case "string":
		return "STRING"
	}
	return ""
}

// expect fact for Bindings.tla
type expect struct {
	Kind     string `json:"kind"`
	ID       string `json:"id"`
	KeyPath  string `json:"keyPath"`
	Name     string `json:"name"`
	Class    string `json:"class"`
	Generic  bool   `json:"generic"`
	Rel      int    `json:"rel"`
	Plat     string `json:"plat"`
	Excepted bool   `json:"excepted"`
	Emission string `json:"emission"`
	Source   string `json:"source"`
}

const (
	trigInexact = "untyped float constant that is not a dyadic rational"
	modeInexact = "bound to the binary rounding that fixConst prints, not to exactly its value"
)

type replayCase struct {
	Case      kase   `json:"case"`
	Invariant string `json:"invariant"`
	Name      string `json:"name,omitempty"`
	Method    string `json:"method,omitempty"`
	Input     string `json:"input,omitempty"`
	Output    string `json:"output,omitempty"`
	Fact      any    `json:"fact,omitempty"`
	Reference string `json:"reference,omitempty"`
}

func stdList() ([]string, error) {
	cmd := exec.Command("go", "list", "std")
	cmd.Env = append(os.Environ(), "GOFLAGS=-mod=mod", "GOWORK=off", "CGO_ENABLED=0")
	cmd.Dir = os.TempDir()
	out, err := cmd.Output()
	if err != nil {
		return nil, fmt.Errorf("go list std: %v", err)
	}
	var l []string
	for _, p := range strings.Fields(string(out)) {
		if strings.HasPrefix(p, "vendor/") || strings.Contains(p, "internal") || strings.HasPrefix(p, "cmd/") {
			continue
		}
		l = append(l, p)
	}
	sort.Strings(l)
	return l, nil
}

func run(c *fw.Ctx) error {
	c.Rule = "one case per package: generated packages are sets of declaration kinds of PkgGen.tla (exhaustive: the 56 lines of the affine plane of order 7 over the kinds = every pair of kinds together once, every kind alone, all kinds together, three packages named like an import of the generated file; seeded: random subsets of 2..12 kinds), standard packages are taken from `go list std`; a case is non-trivial when extract emitted at least two entries; distinct by (kind set, package name) or import path"
	c.Assumptions = []string{
		"extract.Extractor.Extract from /repo is run in child processes with GO111MODULE=off, GOPATH=<scratch>, CGO_ENABLED=0 (the mode extract documents)",
		"the generated file is type-checked with go/types together with a synthetic declaration of Symbols (and stdlib/restricted.go for os and log); bound packages are type-checked from source (" + runtime.Version() + ")",
		"go/types' view of the input package is the reference that validates ExpectedEmission of PkgGen.tla on every generated case (SPEC-ERROR on disagreement); for standard packages the expectation is that view itself",
		"packages the reference cannot load without cgo (runtime/cgo, ...) are not importable in this configuration and are skipped (counted)",
	}
	gopath := filepath.Join(c.Scratch, "gopath")
	outRoot := filepath.Join(c.Scratch, "out")
	var cases []kase
	if c.Replay != "" {
		var rc replayCase
		if err := c.LoadReplay(&rc); err != nil {
			return err
		}
		cases = []kase{rc.Case}
		return check(c, cases, gopath, outRoot, &rc)
	}
	// generated packages: exhaustive part
	var mu sync.Mutex
	add := func(r json.RawMessage) {
		var k kase
		if err := json.Unmarshal(r, &k); err == nil && len(k.Kinds) > 0 {
			mu.Lock()
			cases = append(cases, k)
			mu.Unlock()
		}
	}
	res, err := c.TLC(fw.TLCOpts{Dir: "spec/bind", Module: "PkgGen", Cfg: "PkgGen.all.cfg", Workers: 1, OnBeh: add, Timeout: 3 * time.Minute})
	if err != nil {
		return err
	}
	if res.Violated != "" {
		return fmt.Errorf("model-level property of PkgGen violated: %s", res.Violated)
	}
	nExh := len(cases)
	// seeded part
	nsim := c.Pick(1, 20)
	var wg sync.WaitGroup
	errs := make([]error, nsim)
	for i := 0; i < nsim; i++ {
		wg.Add(1)
		go func(i int) {
			defer wg.Done()
			r, err := c.TLC(fw.TLCOpts{Dir: "spec/bind", Module: "PkgGen", Cfg: "PkgGen.sim.cfg", Simulate: true, Num: 1, Depth: 100,
				Seed: c.Seed*1000 + int64(i), OnBeh: add, Timeout: 3 * time.Minute})
			if err == nil && r.Violated != "" {
				err = fmt.Errorf("model-level property of PkgGen violated: %s", r.Violated)
			}
			errs[i] = err
		}(i)
	}
	wg.Wait()
	for _, e := range errs {
		if e != nil {
			return e
		}
	}
	c.States += int64(nsim * 100)
	c.Transitions += int64(nsim * 100)
	nGen := len(cases)
	// standard packages
	std, err := stdList()
	if err != nil {
		return err
	}
	always := []string{"os", "log", "math", "io", "net/http", "sort", "reflect", "unsafe", "fmt", "go/constant", "go/token", "text/scanner"}
	pick := map[string]bool{}
	for _, p := range always {
		pick[p] = true
	}
	if c.Quick() {
		rng := rand.New(rand.NewSource(c.Seed))
		for _, i := range rng.Perm(len(std))[:min(28, len(std))] {
			pick[std[i]] = true
		}
	} else {
		for _, p := range std {
			pick[p] = true
		}
	}
	nStd := 0
	for _, p := range std {
		if pick[p] {
			cases = append(cases, kase{Std: p})
			nStd++
		}
	}
	c.Extra["cases"] = map[string]any{"generated_exhaustive": nExh, "generated_seeded": nGen - nExh, "std_packages": nStd, "std_packages_listed": len(std)}
	c.Extra["exhaustive_parts"] = "pairwise-complete + singleton + all-kinds generated packages (deterministic); thorough: every std package"
	c.Exhaustive = false
	return check(c, cases, gopath, outRoot, nil)
}

func min(a, b int) int {
	if a < b {
		return a
	}
	return b
}

type done struct {
	k   *kase
	j   job
	r   result
	err string // child crash/timeout
}

func check(c *fw.Ctx, cases []kase, gopath, outRoot string, rc *replayCase) error {
	t0 := time.Now()
	jobs := make([]any, len(cases))
	js := make([]job, len(cases))
	for i := range cases {
		k := &cases[i]
		j := job{Case: *k, Index: i, GoPath: gopath, OutDir: filepath.Join(outRoot, strconv.Itoa(i)), Repo: c.Repo}
		if k.Std != "" {
			j.ImportPath = k.Std
		} else {
			j.ImportPath = fmt.Sprintf("gen/c%d/%s", i, k.Pname)
		}
		js[i] = j
		jobs[i] = j
	}
	// heavy packages first
	env := []string{"GO111MODULE=off", "GOPATH=" + gopath, "CGO_ENABLED=0", "GOFLAGS="}
	rs := c.RunChildren("c18", jobs, 16, 180*time.Second, env)
	tExtract := time.Since(t0)
	ds := make([]done, len(cases))
	var ndj bytes.Buffer
	enc := json.NewEncoder(&ndj)
	enc.SetEscapeHTML(false)
	type shardT struct {
		buf bytes.Buffer
		n   int
	}
	var shards []*shardT
	cur := &shardT{}
	shards = append(shards, cur)
	nFacts, skippedNotImportable := 0, 0
	entryByID := map[string]*bindfacts.Entry{}
	methodByID := map[string]*bindfacts.Method{}
	caseOfID := map[string]int{}
	nx := 0
	for i := range cases {
		d := &ds[i]
		d.k, d.j = &cases[i], js[i]
		if rs[i].Out == nil {
			d.err = rs[i].Describe()
			c.Fail(d.k.label(), "extract: harness child "+firstLine(d.err), replayCase{Case: *d.k, Invariant: "Extract"})
			continue
		}
		if err := json.Unmarshal(rs[i].Out, &d.r); err != nil {
			return fmt.Errorf("child result of %s: %v", d.k.label(), err)
		}
		r := &d.r
		if r.NotImportable != "" {
			if d.k.Std == "" {
				c.SpecError("the rendering of %s is not a package the reference can load: %s\n%s", d.k.label(), r.NotImportable, r.Source)
			} else {
				skippedNotImportable++
			}
			continue
		}
		// the model's expectation, validated against the reference's view
		want := map[string]decl{}
		if d.k.Std == "" {
			if !validateExpectation(c, d, want) {
				continue
			}
		}
		c.TracesVsImpl++
		c.Count(d.k.label(), len(r.Entries) >= 2)
		if d.k.Std == "" && len(d.k.Kinds) > 1 {
			c.Sample(map[string]any{"kinds": d.k.Kinds, "expect": d.k.Expect, "input": r.Source, "output": r.Output})
		}
		if r.ExtractErr != "" {
			c.DisagreeChk++ // the reference loaded the package
			c.Fail(d.k.label(), "extract returns an error: "+normErr(r.ExtractErr), replayCase{Case: *d.k, Invariant: "Extract", Input: r.Source, Reference: "go/types loads the package"})
			continue
		}
		if cur.n > 12000 {
			cur = &shardT{}
			shards = append(shards, cur)
		}
		e2 := json.NewEncoder(&cur.buf)
		e2.SetEscapeHTML(false)
		e2.Encode(r.Unit)
		caseOfID[r.Unit.ID] = i
		for x := range r.Entries {
			e := &r.Entries[x]
			if d.k.Std == "" {
				if w, ok := want[e.Base]; ok {
					e.Want = bindfacts.Want{Em: w.Em, Tok: w.Tok, Exact: w.Exact, Methods: w.Methods}
				} else {
					e.Want = bindfacts.Want{Em: "none", Methods: []string{}}
				}
			}
			entryByID[e.ID] = e
			caseOfID[e.ID] = i
			slim := *e
			slim.Text, slim.Line = "", 0
			e2.Encode(&slim)
			cur.n++
		}
		for x := range r.Methods {
			m := &r.Methods[x]
			methodByID[m.ID] = m
			caseOfID[m.ID] = i
			e2.Encode(m)
			cur.n++
		}
		// expectations of this package
		if d.k.Std == "" {
			for _, w := range d.k.Expect {
				nx++
				e2.Encode(expect{Kind: "expect", ID: fmt.Sprintf("X%d", nx), KeyPath: d.j.ImportPath, Name: w.Name, Class: w.Em, Generic: w.Em == "skipped", Plat: "any", Emission: w.Em, Source: "PkgGen.tla"})
				cur.n++
			}
		} else {
			for _, rd := range r.Ref {
				if !rd.Real.Exported {
					continue
				}
				nx++
				notBindable := rd.Real.Generic || rd.Real.Class == "builtin" || (rd.Real.Class == "type" && rd.Real.Iface == "constraint")
				e2.Encode(expect{Kind: "expect", ID: fmt.Sprintf("X%d", nx), KeyPath: d.j.ImportPath, Name: rd.Name, Class: rd.Real.Class, Generic: notBindable, Plat: "any", Emission: "any", Source: "go/types"})
				cur.n++
			}
		}
		nFacts += len(r.Entries) + len(r.Methods) + 1
	}
	_ = enc
	// TLC
	tT := time.Now()
	vs := make([]*bindfacts.Verdict, len(shards))
	errs := make([]error, len(shards))
	var wg sync.WaitGroup
	sem := make(chan struct{}, 12)
	for i := range shards {
		if shards[i].n == 0 {
			continue
		}
		wg.Add(1)
		sem <- struct{}{}
		go func(i int) {
			defer wg.Done()
			defer func() { <-sem }()
			vs[i], _, errs[i] = bindfacts.RunTLC(c, "gen", shards[i].buf.Bytes())
		}(i)
	}
	wg.Wait()
	tTLC := time.Since(tT)
	matches := func(inv, name, method string, ci int) bool {
		if rc == nil {
			return true
		}
		_ = ci
		return rc.Invariant == inv && rc.Name == name && rc.Method == method
	}
	nInexact := 0
	for i, v := range vs {
		if errs[i] != nil {
			return errs[i]
		}
		if v == nil {
			continue
		}
		report := func(inv string, ids []string) {
			for _, id := range ids {
				if c.Violations() >= 40 {
					return
				}
				ci := caseOfID[id]
				d := &ds[ci]
				if len(d.r.Unit.TypeErrors) > 0 && inv != "Compiles" {
					continue // a file that does not compile is reported once, as that
				}
				switch {
				case entryByID[id] != nil:
					e := entryByID[id]
					if matches(inv, e.Name, "", ci) {
						c.Fail(entryTrigger(d, e.Base), inv+": "+entryMode(inv, e), replayCase{Case: *d.k, Invariant: inv, Name: e.Name, Input: d.r.Source, Output: d.r.Output, Fact: e})
					}
				case methodByID[id] != nil:
					m := methodByID[id]
					if matches(inv, m.Name, m.Method, ci) {
						c.Fail(entryTrigger(d, strings.TrimPrefix(m.Name, "_"))+" method "+methodShape(d, m), inv+": "+methodMode(m), replayCase{Case: *d.k, Invariant: inv, Name: m.Name, Method: m.Method, Input: d.r.Source, Output: d.r.Output, Fact: m})
					}
				default:
					// unit
					if matches(inv, "", "", ci) {
						c.Fail(unitTrigger(d), inv+": generated file does not type-check: "+normErr(firstOf(d.r.Unit.TypeErrors)), replayCase{Case: *d.k, Invariant: inv, Input: d.r.Source, Output: d.r.Output, Fact: d.r.Unit})
					}
				}
			}
		}
		report("KeyWellFormed", v.KeyWellFormed)
		report("NameIdentity", v.NameIdentity)
		report("ClassAgrees", v.ClassAgrees)
		report("VarsByAddress", v.VarsByAddress)
		report("ConstExact", v.ConstExact)
		report("NoExtras", v.NoExtras)
		report("EmissionAgrees", v.EmissionAgrees)
		report("WrapperPresent", v.WrapperEntry)
		report("WrapperForwards", v.WrapperForwards)
		report("WrapperImplements", v.WrapperImplements)
		report("Compiles", v.Compiles)
		for _, m := range v.Complete {
			for ci := range ds {
				if ds[ci].j.ImportPath == m.Pkg && len(ds[ci].r.Unit.TypeErrors) == 0 && matches("Complete", m.Name, "", ci) {
					c.Fail(entryTrigger(&ds[ci], m.Name), "Complete: exported non-generic object not bound", replayCase{Case: *ds[ci].k, Invariant: "Complete", Name: m.Name, Input: ds[ci].r.Source, Output: ds[ci].r.Output})
				}
			}
		}
		for _, m := range v.WrapperMismatch {
			for ci := range ds {
				if strings.HasPrefix(m.File, ds[ci].j.ImportPath+":") && len(ds[ci].r.Unit.TypeErrors) == 0 && matches("WrapperPresent", m.Name, "", ci) {
					c.Fail(entryTrigger(&ds[ci], m.Name), "WrapperPresent: interface type and wrapper entry do not come in pairs", replayCase{Case: *ds[ci].k, Invariant: "WrapperPresent", Name: m.Name, Input: ds[ci].r.Source, Output: ds[ci].r.Output})
				}
			}
		}
		for _, id := range v.Inexact {
			e, ci := entryByID[id], caseOfID[id]
			if e == nil {
				c.SpecError("TLC names an unknown fact %s", id)
				continue
			}
			nInexact++
			if matches("Inexact", e.Name, "", ci) {
				c.Fail(trigInexact, modeInexact, replayCase{Case: *ds[ci].k, Invariant: "Inexact", Name: e.Name, Input: ds[ci].r.Source, Output: ds[ci].r.Output, Fact: e})
			}
		}
	}
	c.Extra["facts"] = map[string]any{"facts_evaluated_by_tlc": nFacts, "shards": len(shards), "inexact_float_constants": nInexact,
		"std_packages_not_importable_without_cgo": skippedNotImportable}
	c.Extra["time_extract_s"] = tExtract.Seconds()
	c.Extra["time_tlc_wall_s"] = tTLC.Seconds()
	fmt.Printf("cases: %d packages, %d facts in %d shards; extract+facts %.1fs, TLC wall %.1fs\n", len(cases), nFacts, len(shards), tExtract.Seconds(), tTLC.Seconds())
	if rc == nil {
		// quick: only the files go/types rejects are given to the compiler; thorough: all
		if err := reallyCompile(c, ds, gopath, c.Quick()); err != nil {
			return err
		}
	}
	return nil
}

// validateExpectation compares ExpectedEmission with go/types' view of the rendered
// package. A disagreement is an error of the specification or of the renderer.
func validateExpectation(c *fw.Ctx, d *done, want map[string]decl) bool {
	ok := true
	ref := map[string]bindfacts.Real{}
	for _, r := range d.r.Ref {
		ref[r.Name] = r.Real
	}
	if d.r.PkgName != d.k.Pname {
		c.SpecError("%s: rendered package is named %s", d.k.label(), d.r.PkgName)
		ok = false
	}
	for i := range d.k.Expect {
		w := d.k.Expect[i]
		if w.Methods == nil {
			w.Methods = []string{}
		}
		sort.Strings(w.Methods)
		r := ref[w.Name]
		if got := refEmission(r); got != w.Em {
			c.SpecError("%s: PkgGen expects %s for %s, go/types' view of the rendering gives %s (%+v)", d.k.label(), w.Em, w.Name, got, r)
			ok = false
		}
		if w.Em == "literal" {
			if w.Tok == "STRING" {
				w.Exact = strconv.Quote(w.Exact) // the canonical form of a string constant is its quoted text
			}
			if w.Tok != refTok(r.CKind) || w.Exact != r.Exact {
				c.SpecError("%s: PkgGen expects %s = %s (%s), go/types evaluates the rendering to %s (%s)", d.k.label(), w.Name, w.Exact, w.Tok, r.Exact, r.CKind)
				ok = false
			}
		}
		want[w.Name] = w
		delete(ref, w.Name)
	}
	for n, r := range ref {
		if r.Exported {
			c.SpecError("%s: the rendering declares %s, which PkgGen does not list", d.k.label(), n)
			ok = false
		}
	}
	return ok
}

func kindOfName(d *done, name string) string {
	// names are unique to a kind (NamesDistinct in PkgGen.tla): find the kind whose source declares it
	for _, k := range d.k.Kinds {
		src := kindSrcs[k].src
		for _, pat := range []string{"const " + name + " ", "\t" + name + " ", "var " + name + " ", "func " + name + "(", "func " + name + "[", "type " + name + " ", "type " + name + "[", "\t" + name + "\n"} {
			if strings.Contains(src, pat) {
				return k
			}
		}
	}
	return ""
}

// kindDesc says what the kinds with a finding are.
var kindDesc = map[string]string{
	"constraintMethods": "constraint interface (type-set terms) that also declares methods",
	"ifaceBlankParam":   "interface method with a blank parameter name",
	"ifaceParamW":       "interface method with a parameter named W",
	"aliasGenericInst":  "alias of an instantiated generic type",
}

func kindPhrase(k string) string {
	if d := kindDesc[k]; d != "" {
		return "declaration kind " + k + " (" + d + ")"
	}
	return "declaration kind " + k
}

func hasLiteral(k *kase) bool {
	for _, w := range k.Expect {
		if w.Em == "literal" {
			return true
		}
	}
	return false
}

// notEmitted lists names that are expected but known not to be emitted (F-C18-8); like
// NotEmitted_F_C18_8 of PkgGen.tla they do not make the generated file use the package.
var notEmitted = map[string]bool{"AliasInst": true}

func allLiteral(k *kase) bool {
	n := 0
	for _, w := range k.Expect {
		if w.Em == "skipped" || notEmitted[w.Name] {
			continue
		}
		if w.Em != "literal" {
			return false
		}
		n++
	}
	return n > 0
}

// unitTrigger signs a failure of the whole generated file from the model-level case.
func unitTrigger(d *done) string {
	k := d.k
	if k.Std != "" {
		return k.label()
	}
	t := ""
	switch {
	case k.Pname == "token" && hasLiteral(k):
		return "package named token (like go/token, which the generated file imports) that declares an untyped literal constant"
	case allLiteral(k):
		t = "every bound declaration of the package is an untyped constant re-materialised from a literal"
	case len(k.Kinds) == 1:
		t = kindPhrase(k.Kinds[0])
	default:
		return k.label()
	}
	if k.Pname != "pg" {
		t += " in a package named " + k.Pname
	}
	return t
}

func entryTrigger(d *done, base string) string {
	if d.k.Std != "" {
		return "std " + d.k.Std + " " + base
	}
	k := kindOfName(d, base)
	if k == "" {
		return d.k.label() + " name " + base
	}
	t := kindPhrase(k)
	if d.k.Pname != "pg" {
		t += " in a package named " + d.k.Pname
	}
	return t
}

func methodShape(d *done, m *bindfacts.Method) string {
	if d.k.Std != "" {
		return m.Method
	}
	return m.Method
}

func entryMode(inv string, e *bindfacts.Entry) string {
	switch inv {
	case "NameIdentity":
		return "bound to " + e.RefPkg + "." + e.RefName
	case "ClassAgrees", "VarsByAddress":
		return e.Real.Class + " bound in form " + e.Form
	case "ConstExact":
		return "literal " + trunc(e.Lit, 40) + " (" + e.Tok + ") is not the value " + trunc(e.Real.Exact, 40)
	case "EmissionAgrees":
		return "expected " + e.Want.Em + ", emitted form " + e.Form
	case "WrapperImplements":
		return "the wrapper does not implement its interface"
	}
	return "entry " + e.Name
}

func methodMode(m *bindfacts.Method) string {
	switch {
	case !m.InWrapper:
		return "interface method without wrapper method"
	case !m.InIface:
		return "wrapper method the interface does not have"
	case m.Callee != "W"+m.Method || !m.OnRecv:
		return "does not forward to field W<method> of the receiver"
	case m.FieldSig != m.IfaceSig || m.MethSig != m.IfaceSig:
		return "signature differs from the interface method"
	case strings.Join(m.Args, ",") != strings.Join(m.Params, ","):
		return "arguments are not the parameters in order"
	case m.Spread != m.Variadic:
		return "variadic parameter not spread"
	case m.HasReturn != m.HasResults:
		return "return does not match results"
	}
	for _, p := range m.Params {
		if p == "_" || p == "" {
			return "blank parameter forwarded"
		}
	}
	return "body is not a plain forward"
}

func trunc(s string, n int) string {
	if len(s) > n {
		return s[:n] + "..."
	}
	return s
}

func firstOf(s []string) string {
	if len(s) == 0 {
		return ""
	}
	return s[0]
}

func firstLine(s string) string {
	if i := strings.IndexByte(s, '\n'); i >= 0 {
		s = s[:i]
	}
	return trunc(s, 100)
}

// normErr removes what varies from run to run (scratch paths, positions) from an error text.
var (
	rePath = regexp.MustCompile(`[A-Za-z0-9_.\-]*(/[A-Za-z0-9_.\-]+)+`)
	rePos  = regexp.MustCompile(`:\d+(:\d+)?`)
)

func normErr(s string) string {
	s = firstLine2(s)
	s = rePath.ReplaceAllStringFunc(s, func(p string) string { return filepath.Base(p) })
	s = rePos.ReplaceAllString(s, "")
	return trunc(s, 160)
}

func firstLine2(s string) string {
	if i := strings.IndexByte(s, '\n'); i >= 0 {
		s = s[:i]
	}
	return s
}

// reallyCompile (thorough tier) builds the generated files with the compiler and compares
// its verdict with go/types' (Compiles). A disagreement is a machinery error.
func reallyCompile(c *fw.Ctx, ds []done, gopath string, onlyRejected bool) error {
	t0 := time.Now()
	root := filepath.Join(gopath, "src", "outc")
	var dirs []string
	typeOK := map[string]bool{}
	for i := range ds {
		d := &ds[i]
		if d.r.Output == "" || d.k.Std != "" {
			continue
		}
		if onlyRejected && len(d.r.Unit.TypeErrors) == 0 {
			continue
		}
		name := fmt.Sprintf("o%d", i)
		dir := filepath.Join(root, name)
		os.MkdirAll(dir, 0o755)
		os.WriteFile(filepath.Join(dir, "out.go"), []byte(d.r.Output), 0o644)
		os.WriteFile(filepath.Join(dir, "symbols_decl.go"), []byte("package symbols\n\n"+symDecl), 0o644)
		dirs = append(dirs, name)
		typeOK[name] = len(d.r.Unit.TypeErrors) == 0
	}
	if len(dirs) == 0 {
		return nil
	}
	cmd := exec.Command("go", "build", "-gcflags=-e", "outc/...")
	cmd.Dir = root
	cmd.Env = append(os.Environ(), "GO111MODULE=off", "GOPATH="+gopath, "CGO_ENABLED=0", "GOFLAGS=")
	out, _ := cmd.CombinedOutput()
	failed := map[string]bool{}
	for _, line := range strings.Split(string(out), "\n") {
		if strings.HasPrefix(line, "# outc/") {
			failed[strings.TrimSpace(strings.TrimPrefix(line, "# outc/"))] = true
		}
	}
	n := 0
	for _, name := range dirs {
		n++
		if typeOK[name] == failed[name] {
			c.SpecError("go/types says the generated file %s type-checks: %v, the compiler fails on it: %v\n%s", name, typeOK[name], failed[name], tail(string(out)))
		} else if failed[name] {
			c.DisagreeChk++ // a rejected file, corroborated by the compiler
		}
	}
	c.Extra["really_compiled"] = map[string]any{"generated_files": n, "failed_for_both": len(failed), "wall_s": time.Since(t0).Seconds()}
	fmt.Printf("compiler cross-check: %d generated files built, %d rejected by both go/types and the compiler (%.1fs)\n", n, len(failed), time.Since(t0).Seconds())
	return nil
}

func tail(s string) string {
	if len(s) > 2000 {
		return s[len(s)-2000:]
	}
	return s
}

var _ = types.Universe
