package main

import (
	"bytes"
	"context"
	"fmt"
	"time"

	"github.com/traefik/yaegi/interp"
	"github.com/traefik/yaegi/stdlib"

	"verif/gocore"
)

// event is one record of a debugging session.
type event struct {
	E      string `json:"e"`                // Stop | Req | Term
	Reason string `json:"reason,omitempty"` // entry break into over out pause enter exit
	Line   int    `json:"line,omitempty"`
	Depth  int    `json:"depth,omitempty"`
	Kind   string `json:"kind,omitempty"` // request: continue into over out
}

type session struct {
	Events  []event    `json:"events"`
	Obs     gocore.Obs `json:"obs"`
	Hung    bool       `json:"hung"`
	Compile string     `json:"compile,omitempty"`
}

var reasons = map[interp.DebugEventReason]string{
	interp.DebugPause: "pause", interp.DebugBreak: "break", interp.DebugEntry: "entry", interp.DebugStepInto: "into",
	interp.DebugStepOver: "over", interp.DebugStepOut: "out", interp.DebugTerminate: "terminate",
	interp.DebugEnterGoRoutine: "enter", interp.DebugExitGoRoutine: "exit",
}

// debugRun executes src under the debugger with line breakpoints and a resume policy:
// policy[i%len] is the request issued at the i-th stop ("continue", "into", "over", "out").
// setAt says when breakpoints are installed: "before" the first request, or at the "entry"
// stop obtained by an initial step-into (the way a DAP client does it).
func debugRun(src string, breaks []int, fbreaks []string, policy []string, maxStops int, setAt, calls string) (s session) {
	var out bytes.Buffer
	i := interp.New(interp.Options{Stdout: &out, Stderr: new(bytes.Buffer)})
	i.Use(stdlib.Symbols)
	prog, err := i.Compile(src)
	if err != nil {
		s.Compile = err.Error()
		return
	}
	type stop struct {
		ev  event
		gid int
	}
	stops := make(chan stop, 16)
	term := make(chan struct{})
	dbg := i.Debug(context.Background(), prog, func(e *interp.DebugEvent) {
		r := reasons[e.Reason()]
		switch e.Reason() {
		case interp.DebugTerminate:
			close(term)
		case interp.DebugEnterGoRoutine, interp.DebugExitGoRoutine:
			// informational
		default:
			ev := event{E: "Stop", Reason: r, Depth: e.FrameDepth()}
			if fs := e.Frames(0, 1); len(fs) > 0 {
				ev.Line = fs[0].Position().Line
			}
			stops <- stop{ev, e.GoRoutine()}
		}
	}, nil)
	var lreqs, freqs []interp.BreakpointRequest
	for _, l := range breaks {
		lreqs = append(lreqs, interp.LineBreakpoint(l))
	}
	for _, f := range fbreaks {
		freqs = append(freqs, interp.FunctionBreakpoint(f))
	}
	set := func(reqs ...interp.BreakpointRequest) {
		dbg.SetBreakpoints(interp.ProgramBreakpointTarget(prog), reqs...)
	}
	install := func() {
		all := append(append([]interp.BreakpointRequest{}, lreqs...), freqs...)
		if len(all) == 0 {
			return
		}
		switch calls {
		case "split":
			set(lreqs...)
			set(freqs...)
		case "split-rev":
			set(freqs...)
			set(lreqs...)
		case "plus-empty":
			set(all...)
			set()
		case "plus-unknown":
			set(all...)
			if len(freqs) == 0 {
				// a request of the function kind replaces the function breakpoints: only when there is none to lose
				set(interp.FunctionBreakpoint("noSuchFunction"))
			}
		default:
			set(all...)
		}
	}
	if setAt != "entry" {
		install()
	}
	request := func(gid int, kind string) {
		s.Events = append(s.Events, event{E: "Req", Kind: kind})
		// The event callback runs before the routine is marked as stopped, so a prompt
		// Step can be answered with ErrRunning (documented): retry briefly.
		step := func(r interp.DebugEventReason) {
			for t := 0; t < 2000; t++ {
				if err := dbg.Step(gid, r); err != interp.ErrRunning {
					return
				}
				time.Sleep(500 * time.Microsecond)
			}
		}
		switch kind {
		case "into":
			step(interp.DebugStepInto)
		case "over":
			step(interp.DebugStepOver)
		case "out":
			step(interp.DebugStepOut)
		default:
			// Continue has no such check: wait until the routine is really blocked
			time.Sleep(200 * time.Microsecond)
			dbg.Continue(gid)
		}
	}
	n := 0
	early := false
	var watchdog <-chan time.Time
	if setAt == "entry" {
		// not part of the policy: reach the entry stop, install, then follow the policy
		dbg.Step(0, interp.DebugStepInto)
		select {
		case <-stops:
			install()
		case <-term:
			s.Events = append(s.Events, event{E: "Term"})
			early = true
		case <-time.After(20 * time.Second):
			s.Hung = true
			early = true
		}
	}
	if !early {
		request(0, policy[0]) // start (or resume) the program
	}
	watchdog = time.After(20 * time.Second)
loop:
	for !early {
		select {
		case st := <-stops:
			s.Events = append(s.Events, st.ev)
			n++
			k := policy[n%len(policy)]
			if n >= maxStops {
				k = "continue"
				if n >= maxStops+200 {
					// too many breakpoint stops: let it finish without further accounting
				}
			}
			request(st.gid, k)
		case <-term:
			s.Events = append(s.Events, event{E: "Term"})
			break loop
		case <-watchdog:
			s.Hung = true
			dbg.Terminate()
			break loop
		}
	}
	done := make(chan struct{})
	go func() {
		defer close(done)
		defer func() {
			if r := recover(); r != nil {
				s.Obs.End, s.Obs.Err = "escaped", fmt.Sprint(r)
			}
		}()
		_, err := dbg.Wait()
		s.Obs = gocore.Classify(err)
	}()
	select {
	case <-done:
	case <-time.After(5 * time.Second):
		s.Hung = true
	}
	s.Obs.Stdout = out.String()
	return s
}
