package main

import (
	"encoding/json"
	"fmt"
	"os"
)

// development aid: c19 --exp file policy setAt line...
func exp() {
	src, _ := os.ReadFile(os.Args[2])
	var breaks []int
	for _, a := range os.Args[5:] {
		var n int
		fmt.Sscan(a, &n)
		breaks = append(breaks, n)
	}
	s := debugRun(string(src), breaks, nil, []string{os.Args[3]}, 300, os.Args[4], "one")
	for _, e := range s.Events {
		b, _ := json.Marshal(e)
		fmt.Println(string(b))
	}
	fmt.Printf("%+v hung=%v\n", s.Obs, s.Hung)
}
