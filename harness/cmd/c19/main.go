// Check for property C19: running under the debugger does not change program behaviour.
// DebugGen.tla (over GoGen/GoCore) draws a program, a breakpoint selection and a resume
// policy; the specification of the program predicts its output, the way it ends and -
// through the identifiers of its print statements - the order in which the breakable
// lines execute. Each session is run through the public Debugger API; the recorded
// sessions (requests, stops with reason/line/depth, terminate event, result of Wait) are
// concatenated and validated by TLC against spec/sess/Debug.tla.
package main

import (
	"bytes"
	"encoding/json"
	"fmt"
	"os"
	"regexp"
	"strconv"
	"strings"
	"sync"
	"time"

	"verif/fw"
	"verif/gocore"
	"verif/gorun"
)

type beh struct {
	gocore.Beh
	Bsel struct {
		Mode  string `json:"mode"`
		Bits  []bool `json:"bits"`
		Calls string `json:"calls"` // how the requests are spread over SetBreakpoints calls (DebugGen.tla CallShapes)
	} `json:"bsel"`
	Policy []string          `json:"policy"`
	SetAt  string            `json:"setat"`
	Tr     []json.RawMessage `json:"tr"` // identified prints and calls of f, in execution order
}

// fRange returns the first and the last line of the body of func f in the rendered source.
func fRange(src string) (first, last int) {
	ls := strings.Split(src, "\n")
	for n, l := range ls {
		if strings.HasPrefix(l, "func f(") {
			first = n + 2
			for m := n + 1; m < len(ls); m++ {
				if ls[m] == "}" {
					return first, m
				}
			}
		}
	}
	return 0, 0
}

type job struct {
	Src     string   `json:"src"`
	Breaks  []int    `json:"breaks"`
	FBreaks []string `json:"fbreaks"`
	FFirst  int      `json:"ffirst"` // lines of the body of f
	FLast   int      `json:"flast"`
	Policy  []string `json:"policy"`
	SetAt   string   `json:"set_at"`
	Calls   string   `json:"calls"`
}

func init() {
	gorun.Register()
	fw.RegisterChild("c19", func(raw json.RawMessage) any {
		var js []job
		json.Unmarshal(raw, &js)
		out := make([]session, len(js))
		for x, j := range js {
			done := make(chan struct{})
			go func() { defer close(done); out[x] = debugRun(j.Src, j.Breaks, j.FBreaks, j.Policy, 300, j.SetAt, j.Calls) }()
			select {
			case <-done:
			case <-time.After(40 * time.Second):
				out[x] = session{Hung: true}
			}
		}
		return out
	})
}

func main() {
	if len(os.Args) > 1 && os.Args[1] == "--exp" {
		exp()
		return
	}
	fw.Main("C19", "model_checking", run)
}

var rePrint = regexp.MustCompile(`^\s*fmt\.Println\("p", (\d+), (.*)\)$`)

// breakable returns, for every print statement whose operand has no effectful call,
// its identifier and line; ok is false when an identifier occurs twice.
func breakable(src string) (ids []int, lines map[int]int, ok bool) {
	lines = map[int]int{}
	for n, l := range strings.Split(src, "\n") {
		m := rePrint.FindStringSubmatch(l)
		if m == nil {
			continue
		}
		id, _ := strconv.Atoi(m[1])
		if strings.Contains(m[2], "f(") || strings.Contains(m[2], "c1()") || strings.Contains(m[2], "c2()") {
			if _, dup := lines[id]; dup {
				return nil, nil, false
			}
			lines[id] = -1 // a line whose own stop may fall before or after its callee's: not breakable
			continue
		}
		if _, dup := lines[id]; dup || id < 100 {
			return nil, nil, false
		}
		lines[id] = n + 1
		ids = append(ids, id)
	}
	return ids, lines, true
}

func run(c *fw.Ctx) error {
	c.Rule = "one session = (random GoCore program, breakpoint selection: none / all / seeded subset of the lines of print statements without effectful calls / function breakpoint on f, resume policy: cyclic sequence over continue, step-into, step-over, step-out); non-trivial when the session has at least one stop; distinct by (source, breakpoints, policy)"
	c.Assumptions = []string{
		"breakpoints are placed on the lines of print statements whose operand has no effectful call: each execution of such a line is one output line of the specification, so the expected hits and their order come from the model",
		"a function breakpoint on f is expected to stop once per call of f, in execution order with the line breakpoints (GoCore logs the calls); where in f the stop is reported is not constrained",
		"sessions are single-goroutine; Interrupt and variable inspection are not exercised",
		"after 300 stops the driver switches to continue",
	}
	var behs []beh
	if c.Replay != "" {
		var b beh
		if err := c.LoadReplay(&b); err != nil {
			return err
		}
		behs = []beh{b}
	} else {
		cfg := "SPECIFICATION SpecDbg\nCONSTANTS Profile = \"core\" Pinned = FALSE FamN = 1 FamFaults = {}\nINVARIANTS StatusOK EmitDbg\n"
		var mu sync.Mutex
		var wg sync.WaitGroup
		jv := c.Pick(5, 14)
		errs := make([]error, jv)
		for j := 0; j < jv; j++ {
			wg.Add(1)
			go func(j int) {
				defer wg.Done()
				_, err := c.TLC(fw.TLCOpts{Dir: "spec/core", Module: "DebugGen", Cfg: "gen.cfg", Files: map[string][]byte{"gen.cfg": []byte(cfg)},
					Simulate: true, Num: c.Pick(6, 50), Depth: 50, Seed: c.Seed*100 + int64(j), HeapMB: 2000, Timeout: 10 * time.Minute,
					OnBeh: func(r json.RawMessage) {
						var b beh
						if json.Unmarshal(r, &b) == nil {
							mu.Lock()
							behs = append(behs, b)
							mu.Unlock()
						}
					}})
				errs[j] = err
			}(j)
		}
		wg.Wait()
		for _, e := range errs {
			if e != nil {
				return e
			}
		}
		c.States += int64(jv * c.Pick(6, 50) * 50)
		c.Transitions += int64(jv * c.Pick(6, 50) * 50)
	}
	// plain execution must agree with the specification first (otherwise the program is
	// a matter for C01, not for C19)
	srcs := make([]string, len(behs))
	for i := range behs {
		srcs[i] = behs[i].Prog.Source()
	}
	plain := gorun.EvalAll(c, srcs)
	var jobs []job
	var sel []int
	var expects [][]int
	skipped := 0
	for i := range behs {
		b := &behs[i]
		ids, lines, ok := breakable(srcs[i])
		if !b.Agrees(plain[i]) || !ok {
			skipped++
			continue
		}
		j := job{Src: srcs[i], Policy: b.Policy, SetAt: b.SetAt, Calls: b.Bsel.Calls}
		on := map[int]bool{}
		switch b.Bsel.Mode {
		case "all":
			for _, id := range ids {
				on[id] = true
			}
		case "subset":
			for k, id := range ids {
				if b.Bsel.Bits[k%len(b.Bsel.Bits)] {
					on[id] = true
				}
			}
		case "func":
			j.FBreaks = []string{"f"}
		case "mixed":
			j.FBreaks = []string{"f"}
			for k, id := range ids {
				if b.Bsel.Bits[k%len(b.Bsel.Bits)] {
					on[id] = true
				}
			}
		}
		fFirst, fLast := fRange(srcs[i])
		if len(j.FBreaks) > 0 {
			// no line breakpoint inside f: the function breakpoint stops where f begins to execute
			// (possibly inside a nested block), and whether a line breakpoint on that very line
			// makes one stop or two is not part of the property
			for _, id := range ids {
				if lines[id] >= fFirst && lines[id] <= fLast {
					delete(on, id)
				}
			}
		}
		j.FFirst, j.FLast = fFirst, fLast
		for _, id := range ids {
			if on[id] {
				j.Breaks = append(j.Breaks, lines[id])
			}
		}
		// expected stops with reason "break", in execution order: the line of every executed
		// print that carries a line breakpoint, and -1 for every call of f when f carries a
		// function breakpoint (GoCore's trace tr)
		var exp []int
		for _, raw := range b.Tr {
			var it []any
			json.Unmarshal(raw, &it)
			switch {
			case len(it) == 2 && it[0] == "p":
				if id := int(it[1].(float64)); on[id] {
					exp = append(exp, lines[id])
				}
			case len(it) == 1 && it[0] == "c" && len(j.FBreaks) > 0:
				exp = append(exp, -1)
			}
		}
		jobs, sel, expects = append(jobs, j), append(sel, i), append(expects, exp)
	}
	c.Extra["programs_skipped_because_plain_execution_departs_from_spec_C01_or_duplicate_print_ids"] = skipped
	const chunk = 20
	var cj []any
	for x := 0; x < len(jobs); x += chunk {
		y := x + chunk
		if y > len(jobs) {
			y = len(jobs)
		}
		cj = append(cj, jobs[x:y])
	}
	var trace bytes.Buffer
	byRun := map[string]map[string]any{}
	n := 0
	for ji, r := range c.RunChildren("c19", cj, 16, 400*time.Second, nil) {
		var ss []session
		if r.Out == nil || json.Unmarshal(r.Out, &ss) != nil {
			return fmt.Errorf("harness child %s", r.Describe())
		}
		for x, s := range ss {
			k := ji*chunk + x
			b := &behs[sel[k]]
			j := jobs[k]
			if s.Compile != "" {
				return fmt.Errorf("Compile failed for a program the interpreter evaluates: %s", s.Compile)
			}
			id := fmt.Sprintf("s%d", k)
			exp := expects[k]
			if exp == nil {
				exp = []int{}
			}
			w := func(v any) {
				bb, _ := json.Marshal(v)
				trace.Write(bb)
				trace.WriteByte('\n')
				n++
			}
			lineBP := map[int]bool{}
			for _, l := range j.Breaks {
				lineBP[l] = true
			}
			w(map[string]any{"e": "Start", "run": id, "expect": exp})
			stops := 0
			for _, e := range s.Events {
				if e.E == "Stop" {
					stops++
					if len(j.FBreaks) > 0 && e.Reason == "break" && !lineBP[e.Line] && e.Line >= j.FFirst-1 && e.Line <= j.FLast {
						e.Line = -1 // the stop of the function breakpoint, wherever the first node of f is
					}
				}
				w(e)
			}
			w(map[string]any{"e": "End", "hung": s.Hung, "out_ok": s.Obs.Stdout == b.ExpectedStdout(), "end_ok": b.Agrees(gocore.Obs{Stdout: b.ExpectedStdout(), End: s.Obs.End, Value: s.Obs.Value})})
			c.Count(fmt.Sprintf("%s|%v|%v|%v|%s", j.Src, j.Breaks, j.FBreaks, j.Policy, j.SetAt), stops > 0)
			c.TracesVsImpl++
			if k%150 == 0 {
				c.Sample(map[string]any{"source": j.Src, "line_breakpoints": j.Breaks, "function_breakpoints": j.FBreaks, "policy": j.Policy, "expected_break_lines": exp, "events": s.Events})
			}
			byRun[id] = map[string]any{"prog": b.Prog, "out": b.Out, "status": b.Status, "pval": b.Pval, "steps": b.Steps, "bsel": b.Bsel, "policy": b.Policy,
				"source": j.Src, "setat": j.SetAt, "breaks": j.Breaks, "fbreaks": j.FBreaks, "expected_break_lines": exp, "events": s.Events, "observed": s.Obs, "hung": s.Hung, "expected_stdout": b.ExpectedStdout()}
		}
	}
	tres, err := c.TLC(fw.TLCOpts{Dir: "spec/sess", Module: "Debug", Cfg: "Debug.trace.cfg", Workers: 1,
		Files: map[string][]byte{"trace.ndjson": trace.Bytes()}, Timeout: 8 * time.Minute})
	if err != nil {
		return err
	}
	if len(tres.Beh) != 1 {
		out := tres.Output
		if len(out) > 1500 {
			out = out[len(out)-1500:]
		}
		return fmt.Errorf("trace not accepted by Debug.tla (ill-formed trace)\n%s", out)
	}
	var verdict struct {
		Consumed int        `json:"consumed"`
		Bad      [][]string `json:"bad"`
		Notes    int        `json:"notes"`
	}
	if err := json.Unmarshal(tres.Beh[0], &verdict); err != nil {
		return err
	}
	if verdict.Consumed != n {
		return fmt.Errorf("trace validation consumed %d of %d lines", verdict.Consumed, n)
	}
	c.Extra["trace_events"] = n
	c.Extra["observations_step_contracts_not_met_not_part_of_the_property"] = verdict.Notes
	if p := os.Getenv("C19_DUMP"); p != "" {
		var all []any
		badOf := map[string][]string{}
		for _, b := range verdict.Bad {
			badOf[b[0]] = append(badOf[b[0]], b[1])
		}
		for id, rep := range byRun {
			all = append(all, map[string]any{"modes": badOf[id], "case": rep})
		}
		bb, _ := json.Marshal(all)
		os.WriteFile(p, bb, 0o644)
	}
	for _, b := range verdict.Bad {
		rep := byRun[b[0]]
		pol := fmt.Sprint(rep["policy"])
		kind := "mixed policy"
		switch pol {
		case "[continue]", "[into]", "[over]", "[continue out]":
			kind = "policy " + pol
		}
		trig := "debug session, " + kind
		if rep["setat"] == "before" && len(rep["breaks"].([]int)) > 0 {
			trig = "line breakpoints installed before the first resume"
		}
		c.Fail(trig, b[1], rep)
	}
	return nil
}
