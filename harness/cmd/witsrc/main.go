// witsrc prints the Go source of the GoCore program stored in a replay or witness file.
package main

import (
	"encoding/json"
	"fmt"
	"os"

	"verif/gocore"
)

func main() {
	b, err := os.ReadFile(os.Args[1])
	if err != nil {
		fmt.Fprintln(os.Stderr, err)
		os.Exit(2)
	}
	var w struct {
		Case json.RawMessage `json:"case"`
	}
	if err := json.Unmarshal(b, &w); err != nil || w.Case == nil {
		w.Case = b
	}
	var beh gocore.Beh
	if err := json.Unmarshal(w.Case, &beh); err != nil {
		fmt.Fprintln(os.Stderr, err)
		os.Exit(2)
	}
	fmt.Print(beh.Prog.Source())
	fmt.Printf("\n// expected stdout (Go specification, confirmed by the native toolchain):\n")
	for _, l := range splitLines(beh.ExpectedStdout()) {
		fmt.Println("//   " + l)
	}
}

func splitLines(s string) []string {
	var out []string
	cur := ""
	for _, r := range s {
		if r == '\n' {
			out = append(out, cur)
			cur = ""
			continue
		}
		cur += string(r)
	}
	if cur != "" {
		out = append(out, cur)
	}
	return out
}
