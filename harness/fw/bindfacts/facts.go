package bindfacts

import (
	"fmt"
	"go/ast"
	"go/constant"
	"go/parser"
	"go/token"
	"go/types"
	"math/big"
	"path"
	"path/filepath"
	"sort"
	"strconv"
	"strings"
)

// Unit is a set of binding files that form one Go package for one build configuration.
type Unit struct {
	Table   string            // "stdlib" | "syscall" | "unrestricted" | "unsafe" | "gen"
	Rel     int               // minor Go release the files target (21, 22); 0 = hand-written, any release
	Plat    string            // GOOS/GOARCH the unit is type-checked for
	PlatDep bool              // the tables of this unit are per platform (syscall)
	Dir     string            // directory of the files
	Files   []string          // files scanned for facts
	Support []string          // files parsed along with them (declare Symbols, replacements, ...)
	Extra   map[string]string // synthetic support files (name -> source), e.g. a Symbols declaration
	Shard   string            // shard label copied into every fact
	Prefix  string            // path prefix of the file names in the facts (relative to the repository)
}

// Real describes the object (keyPath, name) really declared by the bound package.
type Real struct {
	Exists   bool   `json:"exists"`
	Class    string `json:"class"`   // func var const type builtin none
	Generic  bool   `json:"generic"` // has type parameters
	Untyped  bool   `json:"untyped"` // constant of untyped type
	CKind    string `json:"ckind"`   // int float string bool complex none  (kind of the untyped type, not of the representation)
	Exact    string `json:"exact"`   // canonical exact value of a constant
	Dyadic   bool   `json:"dyadic"`  // float constant that is a dyadic rational (exactly representable in binary)
	Rounded  string `json:"rounded"` // the real value printed the way extract's fixConst prints it
	Iface    string `json:"iface"`   // for types: no | methods | empty | constraint
	Exported bool   `json:"exported"`
}

// Entry is one binding: Symbols[key][name] = expr.
type Entry struct {
	Kind     string `json:"kind"` // "entry"
	ID       string `json:"id"`
	Shard    string `json:"shard,omitempty"`
	File     string `json:"file"`
	Line     int    `json:"line,omitempty"`
	Table    string `json:"table"`
	Rel      int    `json:"rel"`
	Plat     string `json:"plat"`
	Key      string `json:"key"`
	KeyPath  string `json:"keyPath"` // key without its last element
	KeyLast  string `json:"keyLast"` // last element of key
	KeyPkg   string `json:"keyPkg"`  // name of the package found at keyPath ("" if none)
	Name     string `json:"name"`
	Under    bool   `json:"under"`          // name starts with '_' (interface wrapper entry)
	Base     string `json:"base"`           // name without that underscore
	Form     string `json:"form"`           // value addr lit type other
	Text     string `json:"text,omitempty"` // source text of the bound expression
	RefPkg   string `json:"refPkg"`
	RefName  string `json:"refName"`
	RefLocal bool   `json:"refLocal"` // the referenced identifier is declared by the binding package itself
	RefClass string `json:"refClass"`
	Lit      string `json:"lit"`
	Tok      string `json:"tok"`
	Bound    string `json:"bound"` // canonical exact value of the literal as constant.MakeFromLiteral reads it ("" if it cannot)
	Real     Real   `json:"real"`
	// wrapper entries: names of the fields of the referenced struct, in order
	Fields []string `json:"fields"`
	// names of the exported methods of the interface (complete method set), sorted
	IfaceMethods []string `json:"ifaceMethods"`
	// first release that declares each of them (filled in by the check; 0 = always)
	IfaceSince []int `json:"ifaceSince"`
	// names of the methods declared on the wrapper struct, sorted
	WrapMethods []string `json:"wrapMethods"`
	// number of unexported methods of the interface (such an interface cannot be implemented outside its package)
	IfaceUnexported int `json:"ifaceUnexported"`
	// model-level expectation for this name, joined in by the check (C18: ExpectedEmission
	// of PkgGen.tla; em = "any" when there is none to compare with)
	Want Want `json:"want"`
	// does the wrapper struct implement the interface according to go/types: yes | no | n/a
	Implements string `json:"implements"`
}

// Want is the expected emission of a name.
type Want struct {
	Em      string   `json:"em"` // any value address literal type wrapper skipped none
	Tok     string   `json:"tok"`
	Exact   string   `json:"exact"`
	Methods []string `json:"methods"`
}

// Method is one method of one interface wrapper (union of the interface's exported
// methods and the methods declared on the wrapper).
type Method struct {
	Kind       string   `json:"kind"` // "method"
	ID         string   `json:"id"`
	Shard      string   `json:"shard,omitempty"`
	File       string   `json:"file"`
	Line       int      `json:"line,omitempty"`
	Key        string   `json:"key"`
	Name       string   `json:"name"` // entry name, "_Reader"
	Struct     string   `json:"struct"`
	Method     string   `json:"method"`
	Rel        int      `json:"rel"`
	Since      int      `json:"since"` // first release that declares the interface method (0 = always)
	InIface    bool     `json:"inIface"`
	InWrapper  bool     `json:"inWrapper"`
	IfaceSig   string   `json:"ifaceSig"`
	MethSig    string   `json:"methSig"`
	Callee     string   `json:"callee"`    // field of the receiver that is called ("" if the body has another shape)
	FieldSig   string   `json:"fieldSig"`  // type of that field
	OnRecv     bool     `json:"onRecv"`    // callee is selected on the method's receiver
	Params     []string `json:"params"`    // parameter names of the method
	Args       []string `json:"args"`      // argument expressions of the forwarding call
	Variadic   bool     `json:"variadic"`  // the interface method is variadic
	Spread     bool     `json:"spread"`    // the call spreads its last argument
	HasReturn  bool     `json:"hasReturn"` // the forwarding call is returned
	HasResults bool     `json:"hasResults"`
	Guard      string   `json:"guard"` // none | nilString | other
}

// UnitFact says whether the unit type-checks.
type UnitFact struct {
	Kind       string   `json:"kind"` // "unit"
	ID         string   `json:"id"`
	Shard      string   `json:"shard"`
	Table      string   `json:"table"`
	Rel        int      `json:"rel"`
	Plat       string   `json:"plat"`
	Files      []string `json:"files"`
	TypeErrors []string `json:"typeErrors"`
}

// Facts is everything extracted from one unit.
type Facts struct {
	Unit    UnitFact
	Entries []Entry
	Methods []Method
	Skipped int // self-describing entries (keys under github.com/traefik/yaegi, ".")
	// Pkg and Info are kept for callers that need more (C18: types.Implements)
	Pkg  *types.Package
	Info *types.Info
}

// FullQual qualifies every package by its import path.
func FullQual(p *types.Package) string { return p.Path() }

// Extract parses and type-checks the unit and extracts its facts. real resolves the
// bound packages (it may be the same loader as imp).
func Extract(u Unit, imp types.ImporterFrom, real *Loader, idPrefix string) (*Facts, error) {
	fset := token.NewFileSet()
	var files []*ast.File
	scan := map[*ast.File]string{}
	for _, n := range append(append([]string{}, u.Support...), u.Files...) {
		f, err := parser.ParseFile(fset, filepath.Join(u.Dir, n), nil, parser.SkipObjectResolution|parser.ParseComments)
		if err != nil {
			return nil, err
		}
		files = append(files, f)
	}
	for i, n := range u.Files {
		scan[files[len(u.Support)+i]] = n
	}
	for n, src := range u.Extra {
		f, err := parser.ParseFile(fset, n, src, parser.SkipObjectResolution)
		if err != nil {
			return nil, err
		}
		files = append(files, f)
	}
	fs := &Facts{Unit: UnitFact{Kind: "unit", ID: idPrefix + "U", Shard: u.Shard, Table: u.Table, Rel: u.Rel, Plat: u.Plat, Files: append([]string{}, u.Files...), TypeErrors: []string{}}}
	info := &types.Info{Uses: map[*ast.Ident]types.Object{}, Defs: map[*ast.Ident]types.Object{}, Types: map[ast.Expr]types.TypeAndValue{}}
	conf := types.Config{Importer: imp, Sizes: real.Sizes(), Error: func(err error) {
		if len(fs.Unit.TypeErrors) < 10 {
			fs.Unit.TypeErrors = append(fs.Unit.TypeErrors, err.Error())
		}
	}}
	pkgName := "p"
	if len(files) > 0 {
		pkgName = files[0].Name.Name
	}
	pkg, _ := conf.Check(pkgName, fset, files, info)
	fs.Pkg, fs.Info = pkg, info
	x := &extractor{u: u, fset: fset, info: info, pkg: pkg, real: real, fs: fs, idPrefix: idPrefix}
	// method declarations by receiver type name
	x.methods = map[string][]*ast.FuncDecl{}
	for _, f := range files {
		for _, d := range f.Decls {
			fd, ok := d.(*ast.FuncDecl)
			if !ok || fd.Recv == nil || len(fd.Recv.List) != 1 {
				continue
			}
			t := fd.Recv.List[0].Type
			if s, ok := t.(*ast.StarExpr); ok {
				t = s.X
			}
			if id, ok := t.(*ast.Ident); ok {
				x.methods[id.Name] = append(x.methods[id.Name], fd)
			}
		}
	}
	for _, f := range files {
		name, ok := scan[f]
		if !ok {
			continue
		}
		x.file = u.Prefix + name
		for _, d := range f.Decls {
			fd, ok := d.(*ast.FuncDecl)
			if !ok || fd.Recv != nil || fd.Name.Name != "init" || fd.Body == nil {
				continue
			}
			for _, st := range fd.Body.List {
				x.stmt(st)
			}
		}
	}
	return fs, nil
}

type extractor struct {
	u        Unit
	fset     *token.FileSet
	info     *types.Info
	pkg      *types.Package
	real     *Loader
	fs       *Facts
	file     string
	idPrefix string
	methods  map[string][]*ast.FuncDecl
	n        int
}

func strLit(e ast.Expr) (string, bool) {
	bl, ok := e.(*ast.BasicLit)
	if !ok || bl.Kind != token.STRING {
		return "", false
	}
	s, err := strconv.Unquote(bl.Value)
	return s, err == nil
}

func isSymbolsIndex(e ast.Expr) (string, bool) {
	ix, ok := e.(*ast.IndexExpr)
	if !ok {
		return "", false
	}
	id, ok := ix.X.(*ast.Ident)
	if !ok || id.Name != "Symbols" {
		return "", false
	}
	return strLit(ix.Index)
}

func (x *extractor) stmt(st ast.Stmt) {
	as, ok := st.(*ast.AssignStmt)
	if !ok || len(as.Lhs) != 1 || len(as.Rhs) != 1 || as.Tok != token.ASSIGN {
		return
	}
	if key, ok := isSymbolsIndex(as.Lhs[0]); ok {
		cl, ok := as.Rhs[0].(*ast.CompositeLit)
		if !ok {
			return
		}
		for _, el := range cl.Elts {
			kv, ok := el.(*ast.KeyValueExpr)
			if !ok {
				continue
			}
			name, ok := strLit(kv.Key)
			if !ok {
				continue
			}
			x.entry(key, name, kv.Value)
		}
		return
	}
	if ix, ok := as.Lhs[0].(*ast.IndexExpr); ok {
		if key, ok := isSymbolsIndex(ix.X); ok {
			if name, ok := strLit(ix.Index); ok {
				x.entry(key, name, as.Rhs[0])
			}
		}
	}
}

// SelfKey reports keys under which the interpreter describes itself; they are not
// standard-library bindings.
func SelfKey(key string) bool {
	return key == "." || strings.HasPrefix(key, "github.com/traefik/yaegi/")
}

func (x *extractor) text(e ast.Expr) string {
	s := types.ExprString(e)
	if len(s) > 160 {
		s = s[:160]
	}
	return s
}

func (x *extractor) isPkgFunc(e ast.Expr, pkgPath, name string) bool {
	sel, ok := e.(*ast.SelectorExpr)
	if !ok {
		return false
	}
	o := x.info.Uses[sel.Sel]
	if o == nil {
		// untyped fallback: syntactic
		id, ok := sel.X.(*ast.Ident)
		return ok && id.Name == path.Base(pkgPath) && sel.Sel.Name == name
	}
	return o.Pkg() != nil && o.Pkg().Path() == pkgPath && o.Name() == name
}

func classOf(o types.Object) string {
	switch o.(type) {
	case *types.Func:
		return "func"
	case *types.Var:
		return "var"
	case *types.Const:
		return "const"
	case *types.TypeName:
		return "type"
	case *types.Builtin:
		return "builtin"
	case nil:
		return "none"
	}
	return "other"
}

func (x *extractor) ref(e *Entry, id ast.Expr) bool {
	var ident *ast.Ident
	switch v := id.(type) {
	case *ast.Ident:
		ident = v
	case *ast.SelectorExpr:
		if _, ok := v.X.(*ast.Ident); !ok {
			return false
		}
		ident = v.Sel
	default:
		return false
	}
	o := x.info.Uses[ident]
	if o == nil {
		e.RefPkg, e.RefName, e.RefClass = "?", ident.Name, "none"
		return true
	}
	e.RefName = o.Name()
	e.RefClass = classOf(o)
	if o.Pkg() != nil {
		e.RefPkg = o.Pkg().Path()
		e.RefLocal = o.Pkg() == x.pkg
	}
	return true
}

func (x *extractor) entry(key, name string, v ast.Expr) {
	if SelfKey(key) {
		x.fs.Skipped++
		return
	}
	x.n++
	e := Entry{Kind: "entry", ID: fmt.Sprintf("%sE%d", x.idPrefix, x.n), Shard: x.u.Shard, File: x.file, Line: x.fset.Position(v.Pos()).Line,
		Table: x.u.Table, Rel: x.u.Rel, Plat: x.u.Plat, Key: key, Name: name, Form: "other", Text: x.text(v),
		Fields: []string{}, IfaceMethods: []string{}, IfaceSince: []int{}, WrapMethods: []string{}, Implements: "n/a", Want: Want{Em: "any", Methods: []string{}}}
	if i := strings.LastIndex(key, "/"); i >= 0 {
		e.KeyPath, e.KeyLast = key[:i], key[i+1:]
	} else {
		e.KeyLast = key
	}
	e.Base = name
	if strings.HasPrefix(name, "_") {
		e.Under, e.Base = true, name[1:]
	}
	x.form(&e, v)
	// the real object
	var realObj types.Object
	if e.KeyPath != "" {
		if p, err := x.real.Import(e.KeyPath); err == nil && p != nil {
			e.KeyPkg = p.Name()
			realObj = p.Scope().Lookup(e.Base)
		}
	}
	e.Real = Describe(realObj)
	if e.Under {
		x.wrapper(&e, v, realObj)
	}
	x.fs.Entries = append(x.fs.Entries, e)
}

func (x *extractor) form(e *Entry, v ast.Expr) {
	call, ok := v.(*ast.CallExpr)
	if !ok {
		return
	}
	// reflect.ValueOf(&X).Elem()
	if sel, ok := call.Fun.(*ast.SelectorExpr); ok && sel.Sel.Name == "Elem" && len(call.Args) == 0 {
		inner, ok := sel.X.(*ast.CallExpr)
		if !ok || !x.isPkgFunc(inner.Fun, "reflect", "ValueOf") || len(inner.Args) != 1 {
			return
		}
		un, ok := inner.Args[0].(*ast.UnaryExpr)
		if !ok || un.Op != token.AND {
			return
		}
		if x.ref(e, un.X) {
			e.Form = "addr"
		}
		return
	}
	if !x.isPkgFunc(call.Fun, "reflect", "ValueOf") || len(call.Args) != 1 {
		return
	}
	switch a := call.Args[0].(type) {
	case *ast.Ident, *ast.SelectorExpr:
		if x.ref(e, a) {
			e.Form = "value"
		}
	case *ast.CallExpr:
		// constant.MakeFromLiteral("lit", token.TOK, 0)
		if x.isPkgFunc(a.Fun, "go/constant", "MakeFromLiteral") && len(a.Args) == 3 {
			lit, ok := strLit(a.Args[0])
			if !ok {
				return
			}
			ts, ok := a.Args[1].(*ast.SelectorExpr)
			if !ok {
				return
			}
			if o := x.info.Uses[ts.Sel]; o != nil && (o.Pkg() == nil || o.Pkg().Path() != "go/token") {
				return
			}
			z, ok := a.Args[2].(*ast.BasicLit)
			if !ok || z.Value != "0" {
				return
			}
			e.Form, e.Lit, e.Tok = "lit", lit, ts.Sel.Name
			e.Bound = boundExact(lit, ts.Sel.Name)
			return
		}
		// constant.BinaryOp(constant.MakeFromLiteral("num", token.INT, 0), token.QUO, constant.MakeFromLiteral("den", token.INT, 0)):
		// the exact quotient extract emits for a float constant that no finite literal denotes
		if x.isPkgFunc(a.Fun, "go/constant", "BinaryOp") && len(a.Args) == 3 {
			op, ok := a.Args[1].(*ast.SelectorExpr)
			if !ok || op.Sel.Name != "QUO" {
				return
			}
			part := func(v ast.Expr) (string, bool) {
				c, ok := v.(*ast.CallExpr)
				if !ok || !x.isPkgFunc(c.Fun, "go/constant", "MakeFromLiteral") || len(c.Args) != 3 {
					return "", false
				}
				ts, ok := c.Args[1].(*ast.SelectorExpr)
				if !ok || ts.Sel.Name != "INT" {
					return "", false
				}
				return strLit(c.Args[0])
			}
			num, ok1 := part(a.Args[0])
			den, ok2 := part(a.Args[2])
			if !ok1 || !ok2 {
				return
			}
			nv, dv := constant.MakeFromLiteral(num, token.INT, 0), constant.MakeFromLiteral(den, token.INT, 0)
			if nv.Kind() != constant.Int || dv.Kind() != constant.Int || constant.Sign(dv) == 0 {
				return
			}
			q := constant.BinaryOp(constant.ToFloat(nv), token.QUO, constant.ToFloat(dv))
			e.Form, e.Lit, e.Tok = "lit", num+"/"+den, "FLOAT"
			e.Bound = q.ExactString()
			return
		}
		// (*T)(nil)
		if p, ok := a.Fun.(*ast.ParenExpr); ok && len(a.Args) == 1 {
			st, ok := p.X.(*ast.StarExpr)
			if !ok {
				return
			}
			if n, ok := a.Args[0].(*ast.Ident); !ok || n.Name != "nil" {
				return
			}
			if x.ref(e, st.X) {
				e.Form = "type"
			}
		}
	}
}

func boundExact(lit, tok string) string {
	var t token.Token
	switch tok {
	case "INT":
		t = token.INT
	case "FLOAT":
		t = token.FLOAT
	case "STRING":
		t = token.STRING
	case "CHAR":
		t = token.CHAR
	case "IMAG":
		t = token.IMAG
	default:
		return ""
	}
	v := constant.MakeFromLiteral(lit, t, 0)
	if v.Kind() == constant.Unknown {
		return ""
	}
	return v.ExactString()
}

// FixConstText prints a float constant the way extract's fixConst does.
func FixConstText(val constant.Value) string {
	v := constant.Val(val)
	f, ok := v.(*big.Float)
	if !ok {
		r, ok := v.(*big.Rat)
		if !ok {
			return ""
		}
		f = new(big.Float).SetRat(r)
	}
	return f.Text('g', int(f.Prec()))
}

func isPow2(x *big.Int) bool {
	if x.Sign() <= 0 {
		return false
	}
	return x.TrailingZeroBits() == uint(x.BitLen()-1)
}

// Describe describes a package-level object.
func Describe(o types.Object) Real {
	r := Real{Class: classOf(o), CKind: "none", Iface: "no"}
	if o == nil {
		return r
	}
	r.Exists = true
	r.Exported = o.Exported()
	switch o := o.(type) {
	case *types.Func:
		if s, ok := o.Type().(*types.Signature); ok && (s.TypeParams().Len() > 0 || s.RecvTypeParams().Len() > 0) {
			r.Generic = true
		}
	case *types.Const:
		if b, ok := o.Type().(*types.Basic); ok && b.Info()&types.IsUntyped != 0 {
			r.Untyped = true
			switch b.Kind() {
			case types.UntypedInt:
				r.CKind = "int"
			case types.UntypedRune:
				r.CKind = "rune"
			case types.UntypedFloat:
				r.CKind = "float"
			case types.UntypedString:
				r.CKind = "string"
			case types.UntypedBool:
				r.CKind = "bool"
			case types.UntypedComplex:
				r.CKind = "complex"
			}
			r.Exact = o.Val().ExactString()
			switch o.Val().Kind() {
			case constant.Float:
				r.Rounded = FixConstText(o.Val())
				switch v := constant.Val(o.Val()).(type) {
				case *big.Rat:
					r.Dyadic = isPow2(v.Denom())
				case *big.Float:
					r.Dyadic = true
				}
			case constant.Int:
				r.Dyadic = true
			}
		}
	case *types.TypeName:
		// an instantiated type (alias of Box[int]) has type parameters AND type arguments
		if t, ok := o.Type().(*types.Named); ok && t.TypeParams().Len() > 0 && t.TypeArgs().Len() == 0 {
			r.Generic = true
		}
		if it, ok := o.Type().Underlying().(*types.Interface); ok {
			switch {
			case !it.IsMethodSet():
				// not a type one can declare a value of (type-set terms, comparable)
				r.Iface = "constraint"
			case it.NumMethods() == 0:
				r.Iface = "empty"
			default:
				r.Iface = "methods"
			}
		}
	}
	return r
}

// stripNames returns t with every parameter and result name removed, so that the
// printed form of two identical types is equal.
func stripNames(t types.Type) types.Type {
	switch t := t.(type) {
	case *types.Signature:
		return types.NewSignatureType(nil, nil, nil, stripTuple(t.Params()), stripTuple(t.Results()), t.Variadic())
	case *types.Pointer:
		return types.NewPointer(stripNames(t.Elem()))
	case *types.Slice:
		return types.NewSlice(stripNames(t.Elem()))
	case *types.Array:
		return types.NewArray(stripNames(t.Elem()), t.Len())
	case *types.Map:
		return types.NewMap(stripNames(t.Key()), stripNames(t.Elem()))
	case *types.Chan:
		return types.NewChan(t.Dir(), stripNames(t.Elem()))
	}
	return t
}

func stripTuple(t *types.Tuple) *types.Tuple {
	if t == nil || t.Len() == 0 {
		return nil
	}
	vs := make([]*types.Var, t.Len())
	for i := range vs {
		vs[i] = types.NewVar(token.NoPos, nil, "", stripNames(t.At(i).Type()))
	}
	return types.NewTuple(vs...)
}

// SigString is the canonical text of a signature: no names, packages by import path.
func SigString(t types.Type) string {
	if t == nil {
		return ""
	}
	return types.TypeString(stripNames(t), FullQual)
}

func (x *extractor) wrapper(e *Entry, v ast.Expr, realObj types.Object) {
	// the interface
	ifaceM := map[string]*types.Func{}
	if tn, ok := realObj.(*types.TypeName); ok {
		if it, ok := tn.Type().Underlying().(*types.Interface); ok {
			for i := 0; i < it.NumMethods(); i++ {
				m := it.Method(i)
				if m.Exported() {
					ifaceM[m.Name()] = m
					e.IfaceMethods = append(e.IfaceMethods, m.Name())
				} else {
					e.IfaceUnexported++
				}
			}
		}
	}
	sort.Strings(e.IfaceMethods)
	e.IfaceSince = make([]int, len(e.IfaceMethods))
	// the wrapper struct
	var st *types.Struct
	var stName string
	if e.Form == "type" && e.RefLocal && x.pkg != nil {
		if o, ok := x.pkg.Scope().Lookup(e.RefName).(*types.TypeName); ok {
			stName = o.Name()
			st, _ = o.Type().Underlying().(*types.Struct)
			if tn, ok := realObj.(*types.TypeName); ok && st != nil {
				if it, ok := tn.Type().Underlying().(*types.Interface); ok && it.IsMethodSet() {
					e.Implements = "no"
					if types.Implements(o.Type(), it) {
						e.Implements = "yes"
					}
				}
			}
		}
	}
	fields := map[string]*types.Var{}
	if st != nil {
		for i := 0; i < st.NumFields(); i++ {
			e.Fields = append(e.Fields, st.Field(i).Name())
			fields[st.Field(i).Name()] = st.Field(i)
		}
	}
	decls := map[string]*ast.FuncDecl{}
	for _, fd := range x.methods[stName] {
		decls[fd.Name.Name] = fd
		e.WrapMethods = append(e.WrapMethods, fd.Name.Name)
	}
	sort.Strings(e.WrapMethods)
	names := map[string]bool{}
	for n := range ifaceM {
		names[n] = true
	}
	for n := range decls {
		names[n] = true
	}
	var all []string
	for n := range names {
		all = append(all, n)
	}
	sort.Strings(all)
	for i, n := range all {
		m := Method{Kind: "method", ID: fmt.Sprintf("%sM%d", e.ID, i), Shard: e.Shard, File: e.File, Key: e.Key, Name: e.Name, Struct: stName, Rel: e.Rel,
			Method: n, Guard: "none", Params: []string{}, Args: []string{}}
		if f := ifaceM[n]; f != nil {
			m.InIface = true
			sig := f.Type().(*types.Signature)
			m.IfaceSig = SigString(sig)
			m.Variadic = sig.Variadic()
			m.HasResults = sig.Results().Len() > 0
		}
		if fd := decls[n]; fd != nil {
			m.InWrapper = true
			m.Line = x.fset.Position(fd.Pos()).Line
			x.method(&m, fd, fields)
		}
		x.fs.Methods = append(x.fs.Methods, m)
	}
}

func (x *extractor) method(m *Method, fd *ast.FuncDecl, fields map[string]*types.Var) {
	if o, ok := x.info.Defs[fd.Name].(*types.Func); ok {
		sig := o.Type().(*types.Signature)
		m.MethSig = SigString(types.NewSignatureType(nil, nil, nil, sig.Params(), sig.Results(), sig.Variadic()))
		if !m.InIface {
			m.Variadic = sig.Variadic()
			m.HasResults = sig.Results().Len() > 0
		}
	}
	recv := ""
	if len(fd.Recv.List[0].Names) == 1 {
		recv = fd.Recv.List[0].Names[0].Name
	}
	if _, isPtr := fd.Recv.List[0].Type.(*ast.StarExpr); isPtr {
		m.Guard = "other" // the wrapper must implement the interface as a value
	}
	for _, f := range fd.Type.Params.List {
		if len(f.Names) == 0 {
			m.Params = append(m.Params, "")
		}
		for _, n := range f.Names {
			m.Params = append(m.Params, n.Name)
		}
	}
	if fd.Body == nil {
		m.Guard = "other"
		return
	}
	body := fd.Body.List
	// optional guard of String: if W.WString == nil { return "" }
	if len(body) == 2 {
		if x.isNilStringGuard(body[0], recv) && m.Method == "String" {
			m.Guard = "nilString"
			body = body[1:]
		}
	}
	if len(body) != 1 {
		m.Guard = "other"
		return
	}
	var call *ast.CallExpr
	switch s := body[0].(type) {
	case *ast.ReturnStmt:
		if len(s.Results) == 1 {
			call, _ = s.Results[0].(*ast.CallExpr)
			m.HasReturn = true
		}
	case *ast.ExprStmt:
		call, _ = s.X.(*ast.CallExpr)
	}
	if call == nil {
		m.Guard = "other"
		return
	}
	if sel, ok := call.Fun.(*ast.SelectorExpr); ok {
		if id, ok := sel.X.(*ast.Ident); ok {
			m.Callee = sel.Sel.Name
			m.OnRecv = recv != "" && id.Name == recv && !contains(m.Params, recv)
			if f := fields[sel.Sel.Name]; f != nil && m.OnRecv {
				m.FieldSig = SigString(f.Type())
			}
		}
	}
	m.Spread = call.Ellipsis.IsValid()
	for _, a := range call.Args {
		m.Args = append(m.Args, types.ExprString(a))
	}
}

func contains(l []string, s string) bool {
	for _, v := range l {
		if v == s {
			return true
		}
	}
	return false
}

func (x *extractor) isNilStringGuard(st ast.Stmt, recv string) bool {
	is, ok := st.(*ast.IfStmt)
	if !ok || is.Init != nil || is.Else != nil || len(is.Body.List) != 1 {
		return false
	}
	be, ok := is.Cond.(*ast.BinaryExpr)
	if !ok || be.Op != token.EQL || types.ExprString(be.X) != recv+".WString" || types.ExprString(be.Y) != "nil" {
		return false
	}
	rs, ok := is.Body.List[0].(*ast.ReturnStmt)
	if !ok || len(rs.Results) != 1 {
		return false
	}
	return types.ExprString(rs.Results[0]) == `""`
}
