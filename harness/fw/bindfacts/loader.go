// Package bindfacts extracts "facts" from yaegi binding files (the files written by
// extract: Symbols tables and interface wrappers) for the fact-validation checks C14 and
// C18. The facts are evaluated by TLC against spec/bind/Bindings.tla; nothing in this
// package decides whether a binding is right.
package bindfacts

import (
	"fmt"
	"go/ast"
	"go/build"
	"go/parser"
	"go/token"
	"go/types"
	"path/filepath"
	"strings"
	"sync"
)

// Loader type-checks packages from source (GOROOT, then GOPATH of the context) for one
// GOOS/GOARCH, without cgo and without function bodies. It is the source importer of
// go/importer with an explicit build.Context, so that several platforms can be loaded in
// one process.
type Loader struct {
	Ctx  build.Context
	Fset *token.FileSet

	mu    sync.Mutex
	pkgs  map[string]*entry
	share *Loader
	paths map[string]bool
	sizes types.Sizes
}

type entry struct {
	once sync.Once
	pkg  *types.Package
	err  error
}

// NewLoader returns a loader for goos/goarch. Packages named in sharePaths are taken
// from share (platform-independent API used only by the binding files themselves).
func NewLoader(goos, goarch string, share *Loader, sharePaths ...string) *Loader {
	ctx := build.Default
	ctx.GOOS, ctx.GOARCH = goos, goarch
	ctx.CgoEnabled = false
	// build.Default carries the tool tags of the host architecture; the register ABI
	// experiments are on by default only for these architectures (internal/buildcfg).
	switch goarch {
	case "amd64", "arm64", "ppc64", "ppc64le", "riscv64", "loong64":
	default:
		var tt []string
		for _, t := range ctx.ToolTags {
			if !strings.HasPrefix(t, "goexperiment.regabi") {
				tt = append(tt, t)
			}
		}
		ctx.ToolTags = tt
	}
	l := &Loader{Ctx: ctx, Fset: token.NewFileSet(), pkgs: map[string]*entry{}, share: share, paths: map[string]bool{}}
	for _, p := range sharePaths {
		l.paths[p] = true
	}
	l.sizes = types.SizesFor("gc", goarch)
	if l.sizes == nil {
		l.sizes = types.SizesFor("gc", "amd64")
	}
	return l
}

// Import implements types.Importer.
func (l *Loader) Import(path string) (*types.Package, error) { return l.ImportFrom(path, "", 0) }

// ImportFrom implements types.ImporterFrom.
func (l *Loader) ImportFrom(path, srcDir string, _ types.ImportMode) (*types.Package, error) {
	if path == "unsafe" {
		return types.Unsafe, nil
	}
	if path == "C" {
		return nil, fmt.Errorf("cgo is not loaded")
	}
	if l.share != nil && l.paths[path] {
		return l.share.ImportFrom(path, srcDir, 0)
	}
	bp, err := l.Ctx.Import(path, srcDir, build.FindOnly)
	if err != nil {
		return nil, err
	}
	key := bp.ImportPath
	if bp.Dir != "" {
		key = bp.Dir
	}
	l.mu.Lock()
	e := l.pkgs[key]
	if e == nil {
		e = &entry{}
		l.pkgs[key] = e
	}
	l.mu.Unlock()
	e.once.Do(func() { e.pkg, e.err = l.load(path, srcDir) })
	return e.pkg, e.err
}

func (l *Loader) load(path, srcDir string) (*types.Package, error) {
	bp, err := l.Ctx.Import(path, srcDir, 0)
	if err != nil {
		if _, ok := err.(*build.NoGoError); !ok {
			return nil, err
		}
	}
	var files []*ast.File
	for _, n := range bp.GoFiles {
		f, err := parser.ParseFile(l.Fset, filepath.Join(bp.Dir, n), nil, parser.SkipObjectResolution)
		if err != nil {
			return nil, err
		}
		files = append(files, f)
	}
	var first error
	conf := types.Config{
		Importer:         dirImporter{l, bp.Dir},
		IgnoreFuncBodies: true,
		FakeImportC:      true,
		Sizes:            l.sizes,
		Error: func(err error) {
			if first == nil {
				first = err
			}
		},
	}
	pkg, _ := conf.Check(bp.ImportPath, l.Fset, files, nil)
	if first != nil {
		return pkg, fmt.Errorf("type-checking %s (%s/%s): %v", path, l.Ctx.GOOS, l.Ctx.GOARCH, first)
	}
	return pkg, nil
}

type dirImporter struct {
	l   *Loader
	dir string
}

func (d dirImporter) Import(path string) (*types.Package, error) {
	return d.l.ImportFrom(path, d.dir, 0)
}
func (d dirImporter) ImportFrom(path, _ string, m types.ImportMode) (*types.Package, error) {
	return d.l.ImportFrom(path, d.dir, m)
}

// Sizes returns the gc sizes of the loader's architecture.
func (l *Loader) Sizes() types.Sizes { return l.sizes }
