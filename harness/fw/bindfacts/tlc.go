package bindfacts

import (
	"encoding/json"
	"fmt"
	"time"

	"verif/fw"
)

// Verdict is what spec/bind/Bindings.tla prints for one shard of facts: per invariant,
// the facts that violate it.
type Verdict struct {
	Entries, Methods, Units, Expects, Groups, JudgedGroups int

	KeyWellFormed, NameIdentity, ClassAgrees, VarsByAddress, ConstExact []string
	NoExtras, EmissionAgrees, WrapperEntry, WrapperForwards             []string
	WrapperImplements, Compiles, Inexact                                []string

	Complete []struct {
		Rel       int
		Plat, Pkg string
		Name      string
	}
	WrapperMismatch []struct{ File, Key, Name string }
}

// Invariants are the named invariants of Bindings.tla checked in every cfg.
const Invariants = "KeyWellFormed NameIdentity ClassAgrees VarsByAddress ConstExact NoExtras EmissionAgrees Complete WrapperPresent WrapperForwards Compiles"

// Bad is the number of violators over all invariants.
func (v *Verdict) Bad() int {
	return len(v.KeyWellFormed) + len(v.NameIdentity) + len(v.ClassAgrees) + len(v.VarsByAddress) + len(v.ConstExact) + len(v.NoExtras) +
		len(v.EmissionAgrees) + len(v.Complete) + len(v.WrapperEntry) + len(v.WrapperMismatch) + len(v.WrapperForwards) + len(v.WrapperImplements) + len(v.Compiles)
}

// RunTLC evaluates Bindings.tla over one shard of facts (ndjson). mode is "stdlib" or "gen".
func RunTLC(c *fw.Ctx, mode string, facts []byte) (*Verdict, time.Duration, error) {
	cfg := []byte("SPECIFICATION Spec\nCONSTANTS FactsFile = \"facts.ndjson\" Mode = \"" + mode + "\"\nINVARIANTS Emit " + Invariants + "\n")
	var v *Verdict
	var perr error
	res, err := c.TLC(fw.TLCOpts{Dir: "spec/bind", Module: "Bindings", Cfg: "facts.cfg", Workers: 1, HeapMB: 3000, Timeout: 5 * time.Minute,
		Files: map[string][]byte{"facts.ndjson": facts, "facts.cfg": cfg},
		OnBeh: func(r json.RawMessage) {
			var x Verdict
			if err := json.Unmarshal(r, &x); err != nil {
				perr = err
				return
			}
			v = &x
		}})
	if err != nil {
		return nil, 0, err
	}
	if perr != nil {
		return nil, 0, perr
	}
	if v == nil {
		return nil, 0, fmt.Errorf("TLC printed no verdict:\n%s", tail(res.Output))
	}
	if (res.Violated != "") != (v.Bad() > 0) {
		return nil, 0, fmt.Errorf("TLC verdict (%q) and the violator sets (%d) disagree:\n%s", res.Violated, v.Bad(), tail(res.Output))
	}
	return v, res.Wall, nil
}

func tail(s string) string {
	if len(s) > 3000 {
		return s[len(s)-3000:]
	}
	return s
}
