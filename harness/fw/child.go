package fw

import (
	"bufio"
	"encoding/json"
	"fmt"
	"io"
	"os"
	"os/exec"
	"sync"
	"time"
)

// Child processes: cases are executed in batches inside child processes of the check
// binary, so that an interpreter crash, a fatal runtime error or a leaked goroutine
// cannot take the checker down or poison the next case. Protocol: one JSON job per
// line on stdin, one JSON result per line on stdout.

// ChildFunc handles one job in the child.
type ChildFunc func(job json.RawMessage) any

var childFuncs = map[string]ChildFunc{}

// RegisterChild must be called from init() of the check's main package.
func RegisterChild(name string, f ChildFunc) { childFuncs[name] = f }

func runChild(name string) {
	f := childFuncs[name]
	if f == nil {
		fmt.Fprintln(os.Stderr, "unknown child", name)
		os.Exit(3)
	}
	in := bufio.NewReaderSize(os.Stdin, 1<<20)
	out := bufio.NewWriter(os.Stdout)
	// The real stdout of the child is the protocol channel; checks that need to know
	// whether a script wrote to the process's own stdout use RealStdoutGuard.
	for {
		line, err := in.ReadBytes('\n')
		if len(line) > 0 {
			res := f(json.RawMessage(line))
			b, _ := json.Marshal(res)
			out.Write(b)
			out.WriteByte('\n')
			out.Flush()
		}
		if err != nil {
			break
		}
	}
}

// ChildResult is what the parent gets per job.
type ChildResult struct {
	Index   int
	Out     json.RawMessage // nil when the child died or timed out on this job
	Crashed bool
	Timeout bool
	Stderr  string
}

// RunChildren executes jobs on `par` child processes; each job has its own timeout.
// Jobs are distributed dynamically. A child that dies or exceeds the timeout is
// replaced and the job in flight is reported as Crashed/Timeout.
func (c *Ctx) RunChildren(name string, jobs []any, par int, perJob time.Duration, env []string) []ChildResult {
	res := make([]ChildResult, len(jobs))
	next := 0
	var mu sync.Mutex
	take := func() int {
		mu.Lock()
		defer mu.Unlock()
		if next >= len(jobs) {
			return -1
		}
		next++
		return next - 1
	}
	if par > len(jobs) {
		par = len(jobs)
	}
	if par < 1 {
		par = 1
	}
	var wg sync.WaitGroup
	for w := 0; w < par; w++ {
		wg.Add(1)
		go func() {
			defer wg.Done()
			var ch *childProc
			defer func() {
				if ch != nil {
					ch.kill()
				}
			}()
			for {
				i := take()
				if i < 0 {
					return
				}
				if ch == nil {
					var err error
					ch, err = startChild(name, env)
					if err != nil {
						res[i] = ChildResult{Index: i, Crashed: true, Stderr: err.Error()}
						continue
					}
				}
				b, _ := json.Marshal(jobs[i])
				out, status := ch.do(b, perJob)
				res[i] = ChildResult{Index: i, Out: out}
				if status == "" && wantsRestart(out) {
					// the child asked to be replaced (e.g. it leaked a busy goroutine)
					ch.kill()
					ch = nil
					continue
				}
				if status != "" {
					res[i].Crashed = status == "crash"
					res[i].Timeout = status == "timeout"
					// reap the child first: Wait returns after its stderr has been copied,
					// so the message of a crash is complete when it is read
					ch.kill()
					res[i].Stderr = ch.stderrTail()
					ch = nil
				}
			}
		}()
	}
	wg.Wait()
	return res
}

type childProc struct {
	cmd    *exec.Cmd
	in     io.WriteCloser
	out    *bufio.Reader
	errBuf *tailBuf
}

// tailBuf keeps the first 2 KB and the last 6 KB of what is written to it.
type tailBuf struct {
	mu   sync.Mutex
	head []byte
	b    []byte
}

func (t *tailBuf) Write(p []byte) (int, error) {
	t.mu.Lock()
	n := len(p)
	if room := 2048 - len(t.head); room > 0 {
		k := room
		if k > len(p) {
			k = len(p)
		}
		t.head = append(t.head, p[:k]...)
		p = p[k:]
	}
	t.b = append(t.b, p...)
	if len(t.b) > 6144 {
		t.b = t.b[len(t.b)-6144:]
	}
	t.mu.Unlock()
	return n, nil
}

func startChild(name string, env []string) (*childProc, error) {
	cmd := exec.Command(os.Args[0], "--child", name)
	cmd.Env = append(os.Environ(), env...)
	in, err := cmd.StdinPipe()
	if err != nil {
		return nil, err
	}
	out, err := cmd.StdoutPipe()
	if err != nil {
		return nil, err
	}
	tb := &tailBuf{}
	cmd.Stderr = tb
	if err := cmd.Start(); err != nil {
		return nil, err
	}
	return &childProc{cmd: cmd, in: in, out: bufio.NewReaderSize(out, 1<<20), errBuf: tb}, nil
}

func (p *childProc) stderrTail() string {
	p.errBuf.mu.Lock()
	defer p.errBuf.mu.Unlock()
	return string(p.errBuf.head) + string(p.errBuf.b)
}

func (p *childProc) kill() {
	p.in.Close()
	done := make(chan struct{})
	go func() { p.cmd.Wait(); close(done) }()
	select {
	case <-done:
	case <-time.After(50 * time.Millisecond):
		p.cmd.Process.Kill()
		<-done
	}
}

func (p *childProc) do(job []byte, timeout time.Duration) (json.RawMessage, string) {
	type rd struct {
		b   []byte
		err error
	}
	if _, err := p.in.Write(append(job, '\n')); err != nil {
		return nil, "crash"
	}
	chn := make(chan rd, 1)
	go func() {
		for {
			b, err := p.out.ReadBytes('\n')
			// lines not starting with '{' or '[' are stray output of the script on the
			// child's real stdout; they are kept out of the protocol but remembered.
			if err == nil && len(b) > 0 && b[0] != '{' && b[0] != '[' {
				p.errBuf.Write(append([]byte("REAL-STDOUT: "), b...))
				continue
			}
			chn <- rd{b, err}
			return
		}
	}()
	select {
	case r := <-chn:
		if r.err != nil {
			return nil, "crash"
		}
		return json.RawMessage(r.b), ""
	case <-time.After(timeout):
		p.cmd.Process.Kill()
		return nil, "timeout"
	}
}

// wantsRestart reports whether a child result carries "_restart": true.
func wantsRestart(out json.RawMessage) bool {
	var r struct {
		Restart bool `json:"_restart"`
	}
	if len(out) == 0 || out[0] != '{' {
		return false
	}
	_ = json.Unmarshal(out, &r)
	return r.Restart
}

// Describe is a helper for error texts.
func (r ChildResult) Describe() string {
	switch {
	case r.Timeout:
		return "timeout"
	case r.Crashed:
		return fmt.Sprintf("child crashed: %.400s", r.Stderr)
	}
	return "ok"
}
