// Package fw is the shared plumbing of the verification harness: argument and
// environment handling, scratch space, evidence files, replay files, known findings,
// and the exit-code discipline (0 held, 1 VIOLATION, 2 machinery error).
package fw

import (
	"encoding/json"
	"fmt"
	"os"
	"path/filepath"
	"sort"
	"strconv"
	"strings"
	"sync"
	"time"
)

// Ctx is handed to every check.
type Ctx struct {
	ID      string // property id, e.g. "C17"
	Tier    string // "quick" | "thorough"
	Seed    int64
	Root    string // /verif
	Repo    string // /repo
	Scratch string // private temp dir, removed at exit
	Replay  string // non-empty when invoked with --replay <path>

	start time.Time
	mu    sync.Mutex

	// evidence accumulators
	Level        string
	States       int64
	Transitions  int64
	TracesVsImpl int64
	Evaluations  int64
	Rule         string
	Exhaustive   bool
	Samples      []any
	Assumptions  []string
	Extra        map[string]any
	distinct     map[string]struct{}
	DisagreeChk  int64

	violations []violation
	knownHit   map[string]string // finding id -> what
	known      []KnownFinding
	specErrors []string
}

type violation struct {
	Sig    string
	Replay string
}

// KnownFinding is one entry of /verif/known-findings.json.
type KnownFinding struct {
	Property string `json:"property"`
	ID       string `json:"id"`
	Status   string `json:"status"` // "known" | "fixed"
	// Trigger and Mode are matched exactly against the signature the check computes
	// from a failing case (never from a seed).
	Trigger string `json:"trigger"`
	Mode    string `json:"mode"`
	// Modes lists further failure modes of the same root cause on the same trigger.
	Modes []string `json:"modes,omitempty"`
	// CasesFile (relative to /verif), when set, lists the exact failing cases of this
	// finding, one "caseKey<TAB>mode" per line: only those cases are attributed to it.
	CasesFile string `json:"cases_file,omitempty"`
	cases     map[string]bool
	What      string `json:"what"`
	Witness   string `json:"witness,omitempty"`
	Commit    string `json:"commit,omitempty"`
	Note      string `json:"note,omitempty"`
}

func (k *KnownFinding) hasMode(m string) bool {
	if k.Mode == m {
		return true
	}
	for _, x := range k.Modes {
		if x == m {
			return true
		}
	}
	return false
}

// Main is the entry point of every check binary.
func Main(id string, level string, run func(*Ctx) error) {
	if len(os.Args) >= 2 && os.Args[1] == "--child" {
		// child mode is handled by the check itself through RegisterChild
		name := ""
		if len(os.Args) >= 3 {
			name = os.Args[2]
		}
		runChild(name)
		return
	}
	c := &Ctx{ID: id, Level: level, start: time.Now(), Extra: map[string]any{},
		distinct: map[string]struct{}{}, knownHit: map[string]string{}}
	c.Root = os.Getenv("VERIF_ROOT")
	if c.Root == "" {
		c.Root = "/verif"
	}
	c.Repo = "/repo"
	if r := os.Getenv("VERIF_REPO"); r != "" {
		c.Repo = r // development aid: run the checks against a scratch tree (bin/check-against)
	}
	c.Tier = "quick"
	args := os.Args[1:]
	for i := 0; i < len(args); i++ {
		switch args[i] {
		case "quick", "thorough":
			c.Tier = args[i]
		case "--replay":
			if i+1 < len(args) {
				c.Replay = args[i+1]
				i++
			}
		}
	}
	if t := os.Getenv("VERIF_TIER"); t == "quick" || t == "thorough" {
		if len(args) == 0 {
			c.Tier = t
		}
	}
	c.Seed = 1
	if s := os.Getenv("VERIF_SEED"); s != "" {
		if v, err := strconv.ParseInt(s, 10, 64); err == nil {
			c.Seed = v
		}
	}
	tmp, err := os.MkdirTemp("", "verif-"+strings.ToLower(id)+"-")
	if err != nil {
		fmt.Println("MACHINERY-ERROR: mktemp:", err)
		os.Exit(2)
	}
	c.Scratch = tmp
	c.loadKnown()
	code := 0
	func() {
		defer func() {
			if r := recover(); r != nil {
				fmt.Printf("MACHINERY-ERROR: harness panic: %v\n", r)
				code = 2
			}
		}()
		if err := run(c); err != nil {
			fmt.Printf("MACHINERY-ERROR: %v\n", err)
			code = 2
		}
	}()
	os.RemoveAll(tmp)
	if len(c.specErrors) > 0 {
		for _, s := range c.specErrors {
			fmt.Println("SPEC-ERROR:", s)
		}
		if code == 0 {
			code = 2
		}
	}
	// known findings
	ids := make([]string, 0, len(c.knownHit))
	for k := range c.knownHit {
		ids = append(ids, k)
	}
	sort.Strings(ids)
	for _, k := range ids {
		fmt.Printf("KNOWN-FINDING: property=%s %s %s\n", c.ID, k, c.knownHit[k])
	}
	if code == 0 && len(c.violations) > 0 {
		code = 1
	}
	if code != 2 && c.Replay == "" {
		c.writeEvidence()
	}
	for _, v := range c.violations {
		fmt.Printf("VIOLATION property=%s replay=%s\n", c.ID, v.Replay)
	}
	if code == 0 {
		fmt.Printf("OK property=%s tier=%s seed=%d evaluations=%d distinct=%d states=%d wall=%.1fs\n",
			c.ID, c.Tier, c.Seed, c.Evaluations, len(c.distinct), c.States, time.Since(c.start).Seconds())
	}
	os.Exit(code)
}

func (c *Ctx) loadKnown() {
	c.loadKnownFile(filepath.Join(c.Root, "known-findings.json"))
	// development fragment of the property under construction (merged by the coordinator)
	c.loadKnownFile(filepath.Join(c.Root, "dev", c.ID+"-findings.json"))
}

func (c *Ctx) loadKnownFile(path string) {
	b, err := os.ReadFile(path)
	if err != nil {
		return
	}
	var all struct {
		Findings []KnownFinding `json:"findings"`
	}
	if err := json.Unmarshal(b, &all); err != nil {
		fmt.Println("MACHINERY-ERROR:", path, err)
		os.Exit(2)
	}
	for _, k := range all.Findings {
		if k.Property == c.ID {
			c.known = append(c.known, k)
		}
	}
}

// Quick reports whether the quick tier is running.
func (c *Ctx) Quick() bool { return c.Tier != "thorough" }

// Pick returns q in the quick tier and t in the thorough one.
func (c *Ctx) Pick(q, t int) int {
	if c.Quick() {
		return q
	}
	return t
}

// Count records one evaluated case; key identifies the case for distinctness and
// nontrivial says whether it counts as non-trivial under the check's rule.
func (c *Ctx) Count(key string, nontrivial bool) {
	c.mu.Lock()
	c.Evaluations++
	if nontrivial {
		c.distinct[key] = struct{}{}
	}
	c.mu.Unlock()
}

// Sample keeps up to 5 samples for the evidence file.
func (c *Ctx) Sample(v any) {
	c.mu.Lock()
	if len(c.Samples) < 5 {
		c.Samples = append(c.Samples, v)
	}
	c.mu.Unlock()
}

// SpecError records a disagreement between the specification and the reference
// (go toolchain, go/types, go/build): machinery failure, never a verdict.
func (c *Ctx) SpecError(format string, a ...any) {
	c.mu.Lock()
	if len(c.specErrors) < 20 {
		c.specErrors = append(c.specErrors, fmt.Sprintf(format, a...))
	}
	c.mu.Unlock()
}

// FailCase is Fail for findings that enumerate their failing cases: the failure is a
// listed known finding only if (caseKey, mode) is in the finding's cases file.
func (c *Ctx) FailCase(trigger, mode, caseKey string, replay any) bool {
	c.mu.Lock()
	for i := range c.known {
		k := &c.known[i]
		if k.Status != "known" || k.Trigger != trigger || k.CasesFile == "" {
			continue
		}
		if k.cases == nil {
			k.cases = map[string]bool{}
			if b, err := os.ReadFile(filepath.Join(c.Root, k.CasesFile)); err == nil {
				for _, l := range strings.Split(string(b), "\n") {
					if l != "" {
						k.cases[l] = true
					}
				}
			}
		}
		if k.cases[caseKey+"\t"+mode] {
			c.knownHit[k.ID] = k.What
			c.mu.Unlock()
			return true
		}
	}
	c.mu.Unlock()
	return c.Fail(trigger+" ["+caseKey+"]", mode, replay)
}

// Fail records a property-level disagreement of the real code with the model.
// trigger/mode form the signature matched against known findings; replay is any
// JSON-serialisable description sufficient to reproduce the case.
// It returns true when the failure is a listed known finding.
func (c *Ctx) Fail(trigger, mode string, replay any) bool {
	c.mu.Lock()
	defer c.mu.Unlock()
	for _, k := range c.known {
		if k.Status == "known" && k.CasesFile == "" && k.Trigger == trigger && k.hasMode(mode) {
			c.knownHit[k.ID] = k.What
			if k.Witness != "" && os.Getenv("VERIF_WRITE_WITNESS") != "" {
				// development aid: materialise the pinned witness of a listed finding
				wp := filepath.Join(c.Root, k.Witness)
				if _, err := os.Stat(wp); err != nil {
					os.MkdirAll(filepath.Dir(wp), 0o755)
					b, _ := json.MarshalIndent(map[string]any{"property": c.ID, "finding": k.ID, "trigger": trigger, "mode": mode, "case": replay}, "", " ")
					os.WriteFile(wp, b, 0o644)
				}
			}
			return true
		}
	}
	sig := trigger + " / " + mode
	for _, v := range c.violations {
		if v.Sig == sig {
			return false // one replay per signature is enough
		}
	}
	dir := filepath.Join(c.Root, "replays", c.ID)
	os.MkdirAll(dir, 0o755)
	name := fmt.Sprintf("%s-%s-%d-%d.json", c.Tier, sanitize(sig), c.Seed, len(c.violations))
	p := filepath.Join(dir, name)
	b, _ := json.MarshalIndent(map[string]any{"property": c.ID, "trigger": trigger, "mode": mode, "case": replay}, "", " ")
	os.WriteFile(p, b, 0o644)
	c.violations = append(c.violations, violation{Sig: sig, Replay: p})
	return false
}

// IsKnown reports whether (trigger, mode) is the signature of a listed known finding,
// without recording anything (used to decide how much corroboration a failure needs).
func (c *Ctx) IsKnown(trigger, mode string) bool {
	c.mu.Lock()
	defer c.mu.Unlock()
	for _, k := range c.known {
		if k.Status == "known" && k.CasesFile == "" && k.Trigger == trigger && k.hasMode(mode) {
			return true
		}
	}
	return false
}

// Violations returns how many unlisted violations were recorded so far.
func (c *Ctx) Violations() int { c.mu.Lock(); defer c.mu.Unlock(); return len(c.violations) }

func sanitize(s string) string {
	var b strings.Builder
	for _, r := range s {
		switch {
		case r >= 'a' && r <= 'z', r >= 'A' && r <= 'Z', r >= '0' && r <= '9':
			b.WriteRune(r)
		default:
			b.WriteByte('_')
		}
		if b.Len() > 60 {
			break
		}
	}
	return b.String()
}

func (c *Ctx) writeEvidence() {
	cov := map[string]any{}
	for k, v := range c.Extra {
		cov[k] = v
	}
	cov["evaluations"] = c.Evaluations
	cov["distinct_nontrivial"] = len(c.distinct)
	cov["rule"] = c.Rule
	if len(c.Samples) == 0 {
		c.Samples = []any{"(no sample recorded)"}
	}
	cov["samples"] = c.Samples
	cov["states"] = c.States
	cov["transitions"] = c.Transitions
	cov["traces_validated_against_impl"] = c.TracesVsImpl
	cov["disagreements_checked"] = c.DisagreeChk
	cov["exhaustive"] = c.Exhaustive
	kf := []string{}
	for k := range c.knownHit {
		kf = append(kf, k)
	}
	sort.Strings(kf)
	cov["known_findings_printed"] = kf
	ev := map[string]any{
		"property_id": c.ID,
		"tier":        c.Tier,
		"seed":        c.Seed,
		"level":       c.Level,
		"coverage":    cov,
		"assumptions": c.Assumptions,
		"wall_s":      time.Since(c.start).Seconds(),
		"violations":  len(c.violations),
	}
	b, _ := json.MarshalIndent(ev, "", " ")
	os.MkdirAll(filepath.Join(c.Root, "evidence"), 0o755)
	os.WriteFile(filepath.Join(c.Root, "evidence", c.ID+".json"), b, 0o644)
}

// LoadReplay reads the "case" member of a replay file into v.
func (c *Ctx) LoadReplay(v any) error {
	b, err := os.ReadFile(c.Replay)
	if err != nil {
		return err
	}
	var w struct {
		Case json.RawMessage `json:"case"`
	}
	if err := json.Unmarshal(b, &w); err != nil {
		return err
	}
	return json.Unmarshal(w.Case, v)
}
