package fw

import (
	"bytes"
	"context"
	"fmt"
	"os"
	"os/exec"
	"path/filepath"
	"sync"
	"time"
)

// NativeResult is the behaviour of a program built with the installed Go toolchain:
// the reference that keeps the specification honest (DESIGN 2.2).
type NativeResult struct {
	BuildOK  bool
	BuildErr string
	Stdout   string
	Stderr   string
	Exit     int
	Timeout  bool
}

// NativeBatch builds every source as its own main package inside one scratch module
// and runs each binary. Files may hold additional files per program (name -> content)
// besides main.go; srcs[i] is main.go of program i.
func (c *Ctx) NativeBatch(srcs []string, runTimeout time.Duration) []NativeResult {
	res := make([]NativeResult, len(srcs))
	if len(srcs) == 0 {
		return res
	}
	dir, err := os.MkdirTemp(c.Scratch, "native-")
	if err != nil {
		for i := range res {
			res[i].BuildErr = err.Error()
		}
		return res
	}
	defer os.RemoveAll(dir)
	os.WriteFile(filepath.Join(dir, "go.mod"), []byte("module nat\n\ngo 1.22\n"), 0o644)
	for i, s := range srcs {
		d := filepath.Join(dir, fmt.Sprintf("p%d", i))
		os.MkdirAll(d, 0o755)
		os.WriteFile(filepath.Join(d, "main.go"), []byte(s), 0o644)
	}
	bin := filepath.Join(dir, "bin")
	os.MkdirAll(bin, 0o755)
	env := append(os.Environ(), "GOFLAGS=-mod=mod", "GOPROXY=off", "GOSUMDB=off", "GOTOOLCHAIN=local", "GOWORK=off", "CGO_ENABLED=0")
	build := func(pkgs string) (string, error) {
		cmd := exec.Command("go", "build", "-o", bin+string(os.PathSeparator), pkgs)
		cmd.Dir = dir
		cmd.Env = env
		out, err := cmd.CombinedOutput()
		return string(out), err
	}
	if len(srcs) > 1 {
		if _, err := build("./..."); err != nil {
			// at least one package failed: build one by one to attribute errors
			var wg sync.WaitGroup
			sem := make(chan struct{}, 8)
			for i := range srcs {
				wg.Add(1)
				sem <- struct{}{}
				go func(i int) {
					defer wg.Done()
					defer func() { <-sem }()
					out, err := build(fmt.Sprintf("./p%d", i))
					if err != nil {
						res[i].BuildErr = out
					}
				}(i)
			}
			wg.Wait()
		}
	} else {
		if out, err := build("./p0"); err != nil {
			res[0].BuildErr = out
		}
	}
	var wg sync.WaitGroup
	sem := make(chan struct{}, 16)
	for i := range srcs {
		exe := filepath.Join(bin, fmt.Sprintf("p%d", i))
		if _, err := os.Stat(exe); err != nil {
			if res[i].BuildErr == "" {
				res[i].BuildErr = "no binary produced"
			}
			continue
		}
		res[i].BuildOK = true
		wg.Add(1)
		sem <- struct{}{}
		go func(i int, exe string) {
			defer wg.Done()
			defer func() { <-sem }()
			ctx, cancel := context.WithTimeout(context.Background(), runTimeout)
			defer cancel()
			cmd := exec.CommandContext(ctx, exe)
			var so, se bytes.Buffer
			cmd.Stdout, cmd.Stderr = &so, &se
			cmd.Dir = dir
			err := cmd.Run()
			res[i].Stdout, res[i].Stderr = so.String(), se.String()
			if ctx.Err() != nil {
				res[i].Timeout = true
			}
			if err != nil {
				if cmd.ProcessState != nil {
					res[i].Exit = cmd.ProcessState.ExitCode()
				} else {
					res[i].Exit = -1
				}
			}
		}(i, exe)
	}
	wg.Wait()
	return res
}

// Native builds and runs one program.
func (c *Ctx) Native(src string, runTimeout time.Duration) NativeResult {
	return c.NativeBatch([]string{src}, runTimeout)[0]
}
