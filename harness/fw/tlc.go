package fw

import (
	"bufio"
	"bytes"
	"context"
	"encoding/json"
	"fmt"
	"os"
	"os/exec"
	"path/filepath"
	"regexp"
	"strconv"
	"strings"
	"time"
)

const tlaCP = "/opt/veriftools/tla/tla2tools.jar:/opt/veriftools/tla/CommunityModules-deps.jar"

// TLCOpts describes one TLC invocation. Dir is relative to /verif (e.g. "spec/env").
type TLCOpts struct {
	Dir           string
	Module        string // module name without .tla
	Cfg           string // cfg file name inside Dir
	Simulate      bool
	Num           int // behaviours (simulate)
	Depth         int // simulate depth
	Seed          int64
	Workers       int
	Timeout       time.Duration
	Coverage      bool
	Files         map[string][]byte // extra files written into the scratch copy (trace inputs, generated cfgs)
	CheckDeadlock bool              // keep TLC's deadlock check on (off by default: generating specs end in terminal states)
	DFS           bool              // StateDeque queue (useful for branching trace specs)
	HeapMB        int
	// OnBeh, when set, receives every emitted behaviour as it is printed (streaming);
	// otherwise behaviours are collected in TLCResult.Beh.
	OnBeh func(json.RawMessage)
}

// TLCResult is what was parsed from TLC's output.
type TLCResult struct {
	Generated int64
	Distinct  int64
	Depth     int64
	Beh       []json.RawMessage
	Output    string
	// Violated is non-empty when TLC reported an invariant/property violation or deadlock.
	Violated string
	ExitCode int
	Wall     time.Duration
	Cover    map[string]int64 // action -> count, when Coverage
}

var (
	reStates = regexp.MustCompile(`(\d+) states generated, (\d+) distinct states found`)
	reDepth  = regexp.MustCompile(`The depth of the complete state graph search is (\d+)`)
	reViol   = regexp.MustCompile(`(Invariant \S+ is violated|Temporal properties were violated|Deadlock reached|Action property \S+ is violated|is violated)`)
	reCover  = regexp.MustCompile(`^<(\w+) line \d+, col \d+ to line \d+, col \d+ of module \w+>: (\d+):(\d+)`)
)

// TLC runs the model checker on a scratch copy of the spec directory.
func (c *Ctx) TLC(o TLCOpts) (*TLCResult, error) {
	src := filepath.Join(c.Root, o.Dir)
	work, err := os.MkdirTemp(c.Scratch, "tlc-")
	if err != nil {
		return nil, err
	}
	defer os.RemoveAll(work)
	ents, err := os.ReadDir(src)
	if err != nil {
		return nil, err
	}
	for _, e := range ents {
		if e.IsDir() {
			continue
		}
		b, err := os.ReadFile(filepath.Join(src, e.Name()))
		if err != nil {
			return nil, err
		}
		if err := os.WriteFile(filepath.Join(work, e.Name()), b, 0o644); err != nil {
			return nil, err
		}
	}
	for n, b := range o.Files {
		if err := os.WriteFile(filepath.Join(work, n), b, 0o644); err != nil {
			return nil, err
		}
	}
	if o.Workers == 0 {
		o.Workers = 8
		if o.Simulate {
			o.Workers = 1
		}
	}
	if o.Timeout == 0 {
		o.Timeout = 10 * time.Minute
	}
	heap := o.HeapMB
	if heap == 0 {
		heap = 6000
	}
	args := []string{"-Xss512m", fmt.Sprintf("-Xmx%dm", heap), "-XX:+UseParallelGC"}
	if o.DFS {
		args = append(args, "-Dtlc2.tool.queue.IStateQueue=StateDeque")
	}
	args = append(args, "-cp", tlaCP, "tlc2.TLC", "-metadir", filepath.Join(work, "meta"),
		"-workers", strconv.Itoa(o.Workers), "-config", o.Cfg, "-noGenerateSpecTE")
	if o.Simulate {
		args = append(args, "-simulate", fmt.Sprintf("num=%d", o.Num), "-depth", strconv.Itoa(o.Depth), "-seed", strconv.FormatInt(o.Seed, 10))
	}
	if !o.CheckDeadlock {
		args = append(args, "-deadlock") // the flag switches deadlock checking OFF
	}
	if o.Coverage {
		args = append(args, "-coverage", "1")
	}
	args = append(args, o.Module)
	ctx, cancel := context.WithTimeout(context.Background(), o.Timeout)
	defer cancel()
	cmd := exec.CommandContext(ctx, "java", args...)
	cmd.Dir = work
	cmd.Env = append(os.Environ(), "JAVA_TOOL_OPTIONS=")
	stdout, err := cmd.StdoutPipe()
	if err != nil {
		return nil, err
	}
	cmd.Stderr = cmd.Stdout
	t0 := time.Now()
	if err := cmd.Start(); err != nil {
		return nil, err
	}
	res := &TLCResult{Cover: map[string]int64{}}
	var keep bytes.Buffer
	sc := bufio.NewScanner(stdout)
	sc.Buffer(make([]byte, 1<<20), 1<<28)
	for sc.Scan() {
		line := sc.Text()
		if strings.HasPrefix(line, `<<"BEH", "`) && strings.HasSuffix(line, `">>`) {
			raw := unescapeTLA(line[len(`<<"BEH", "`) : len(line)-len(`">>`)])
			if o.OnBeh != nil {
				o.OnBeh(json.RawMessage(raw))
			} else {
				res.Beh = append(res.Beh, json.RawMessage(raw))
			}
			continue
		}
		if keep.Len() < 1<<20 {
			keep.WriteString(line)
			keep.WriteByte('\n')
		}
		if m := reStates.FindStringSubmatch(line); m != nil {
			res.Generated, _ = strconv.ParseInt(m[1], 10, 64)
			res.Distinct, _ = strconv.ParseInt(m[2], 10, 64)
		}
		if m := reDepth.FindStringSubmatch(line); m != nil {
			res.Depth, _ = strconv.ParseInt(m[1], 10, 64)
		}
		if res.Violated == "" && strings.HasPrefix(line, "Error:") {
			if m := reViol.FindString(line); m != "" {
				res.Violated = line
			}
		}
		if o.Coverage {
			if m := reCover.FindStringSubmatch(line); m != nil {
				n, _ := strconv.ParseInt(m[3], 10, 64)
				res.Cover[m[1]] += n
			}
		}
	}
	werr := cmd.Wait()
	res.Wall = time.Since(t0)
	res.Output = keep.String()
	if cmd.ProcessState != nil {
		res.ExitCode = cmd.ProcessState.ExitCode()
	}
	if ctx.Err() != nil {
		return res, fmt.Errorf("tlc %s/%s timed out after %v", o.Module, o.Cfg, o.Timeout)
	}
	if res.Violated != "" {
		return res, nil
	}
	// Simulation mode ends with exit 0 after num traces; BFS ends with 0 on success.
	if werr != nil && res.ExitCode != 0 {
		// TLC exit codes: 10/11/12/13 = violations (handled above); others are errors
		if res.ExitCode >= 10 && res.ExitCode <= 13 {
			res.Violated = fmt.Sprintf("tlc exit %d", res.ExitCode)
			return res, nil
		}
		tail := res.Output
		if len(tail) > 3000 {
			tail = tail[len(tail)-3000:]
		}
		return res, fmt.Errorf("tlc %s/%s failed (exit %d):\n%s", o.Module, o.Cfg, res.ExitCode, tail)
	}
	c.mu.Lock()
	c.States += res.Distinct
	c.Transitions += res.Generated
	c.mu.Unlock()
	return res, nil
}

// unescapeTLA undoes the escaping TLC applies when printing a string value.
func unescapeTLA(s string) string {
	if !strings.Contains(s, `\`) {
		return s
	}
	var b strings.Builder
	for i := 0; i < len(s); i++ {
		if s[i] == '\\' && i+1 < len(s) {
			i++
			switch s[i] {
			case 'n':
				b.WriteByte('\n')
			case 't':
				b.WriteByte('\t')
			case 'r':
				b.WriteByte('\r')
			case 'f':
				b.WriteByte('\f')
			default:
				b.WriteByte(s[i])
			}
			continue
		}
		b.WriteByte(s[i])
	}
	return b.String()
}

// Sany parses a module (used by setup).
func Sany(dir, module string) error {
	cmd := exec.Command("java", "-cp", tlaCP, "tla2sany.SANY", module+".tla")
	cmd.Dir = dir
	out, err := cmd.CombinedOutput()
	if err != nil || bytes.Contains(out, []byte("*** Errors")) || bytes.Contains(out, []byte("Fatal errors")) {
		return fmt.Errorf("sany %s: %v\n%s", module, err, out)
	}
	return nil
}
