// Package gocore renders the abstract programs of spec/core/GoCore.tla as Go source and
// formats the observations the specification predicts for them. It is shared by the
// checks that replay GoCore programs (C01 whole, C06 defer/panic families, C11 cut
// into chunks, C12 mutated, C19 under the debugger).
package gocore

import (
	"encoding/json"
	"fmt"
	"hash/fnv"
	"os"
	"strconv"
	"strings"
	"sync"
)

// N is a node of the abstract syntax (expression or statement): the JSON form of the
// TLA+ record.
type N struct {
	K     string          `json:"k"`
	RawV  json.RawMessage `json:"v"` // literal value (int) or loop variable (string)
	RawX  json.RawMessage `json:"x"` // variable name (string) or operand of "not" (node)
	Y     string          `json:"y"`
	F     string          `json:"f"`
	Op    string          `json:"op"`
	L     *N              `json:"l"`
	R     *N              `json:"r"`
	I     *N              `json:"i"`
	E     *N              `json:"e"`
	A     *N              `json:"a"`
	B     *N              `json:"b"`
	Args  []*N            `json:"args"`
	C     json.RawMessage `json:"c"` // closure name (string) or condition (node)
	Th    []*N            `json:"th"`
	El    []*N            `json:"el"`
	Body  []*N            `json:"body"`
	N_    int             `json:"n"`
	Lab   string          `json:"lab"`
	Tag   *N              `json:"tag"`
	Cases []Case          `json:"cases"`
	Dflt  []*N            `json:"dflt"`
	Bare  bool            `json:"bare"`
	D     int             `json:"d"`
	Form  string          `json:"form"`
	How   string          `json:"how"`
	SetR  bool            `json:"setr"`
	Kind  string          `json:"kind"`
	ID    int             `json:"id"`
	P     string          `json:"p"`
	S     string          `json:"s"`
	From  string          `json:"from"`
	Ix    int             `json:"ix"`
	Es    []*N            `json:"es"`
	Ks    []int           `json:"ks"`  // literal keys of a map literal
	Src   *N              `json:"src"` // string expression
	Cs    []int           `json:"cs"`  // character codes of a string literal
	Lo    int             `json:"lo"`
	Hi    int             `json:"hi"`
	VV    string          `json:"vv"`   // value variable of a range loop
	Via   string          `json:"via"`  // "val": through a struct variable, "ptr": through a pointer to one
	Par   bool            `json:"par"`  // the function literal takes a parameter a
	Dpos  int             `json:"dpos"` // the default clause stands before case dpos+1
	DFall bool            `json:"dfall"`
	H     string          `json:"h"`     // variable holding a function
	Tys   []string        `json:"tys"`   // types that have a clause in a type switch
	Multi []string        `json:"multi"` // types that share one clause
	Bind  bool            `json:"bind"`  // switch v := e.(type)
	Rot   int             `json:"rot"`   // rotation of the clauses (the default clause among them)
	Ty    string          `json:"ty"`
	M     string          `json:"m"` // method name of an unnamed-receiver call (tag, ptag)
	Ok2   bool            `json:"ok2"` // chsel: the receive statement has the ok operand
	HB    bool            `json:"hb"`  // chsel: the clause has a body
	HD    bool            `json:"hd"`  // chsel: the select statement has a default clause
}

type Case struct {
	C    json.RawMessage `json:"c"` // condition of a tagless switch case
	V    int             `json:"v"`
	W    int             `json:"w"` // second value of the case (equal to V: none)
	Body []*N            `json:"body"`
	Fall bool            `json:"fall"`
}

// Cond is the condition of a tagless-switch case.
func (c Case) Cond() *N {
	var n N
	json.Unmarshal(c.C, &n)
	return &n
}

type Func struct {
	Named bool `json:"named"`
	Body  []*N `json:"body"`
}

type Prog struct {
	Name  string           `json:"name"` // non-empty for the pinned witness of a known finding
	Funcs map[string]*Func `json:"funcs"`
	Main  []*N             `json:"main"`
}

// Beh is one behaviour emitted by GoGen.tla: a program and its meaning.
type Beh struct {
	Prog    Prog              `json:"prog"`
	Out     []json.RawMessage `json:"out"`
	Status  string            `json:"status"`
	Pval    json.RawMessage   `json:"pval"`
	Globals []int             `json:"globals"`
	Steps   int               `json:"steps"`
}

// V is the integer literal; X the variable name.
func (n *N) V() int {
	var v int
	json.Unmarshal(n.RawV, &v)
	return v
}

func (n *N) X() string {
	var s string
	json.Unmarshal(n.RawX, &s)
	return s
}

// V_ is the loop variable of a for statement; X_ the operand of a "not" node.
func (n *N) V_() string {
	var s string
	json.Unmarshal(n.RawV, &s)
	return s
}

func (n *N) X_() *N {
	var c N
	json.Unmarshal(n.RawX, &c)
	return &c
}

func (n *N) cloName() string {
	var s string
	json.Unmarshal(n.C, &s)
	return s
}

func (n *N) cond() *N {
	var c N
	json.Unmarshal(n.C, &c)
	return &c
}

// ExpectedStdout renders the predicted output lines.
func (b *Beh) ExpectedStdout() string {
	var sb strings.Builder
	for _, raw := range b.Out {
		var items []any
		json.Unmarshal(raw, &items)
		for i, it := range items {
			if i > 0 {
				sb.WriteByte(' ')
			}
			switch v := it.(type) {
			case float64:
				fmt.Fprintf(&sb, "%d", int64(v))
			default:
				fmt.Fprint(&sb, v)
			}
		}
		sb.WriteByte('\n')
	}
	return sb.String()
}

// PanicValue returns the predicted value of the escaping panic: an int, or "fault".
func (b *Beh) PanicValue() string {
	return strings.Trim(string(b.Pval), `"`)
}

// TypeDecl is the declaration of T with its methods, as it stands in the prelude.
const TypeDecl = "type T struct{ a, b int }\n\nfunc (t *T) bump(d int) { t.a += d }\n\nfunc (t T) sum() int { return t.a*3 + t.b }\n\nfunc (T) tag(d int) int { return d*2 + 1 }\n\nfunc (*T) ptag(d int) int { return d + 7 }\n"

const Prelude = `package main

import "fmt"

type T struct{ a, b int }

func (t *T) bump(d int) { t.a += d }

func (t T) sum() int { return t.a*3 + t.b }

func (T) tag(d int) int { return d*2 + 1 }

func (*T) ptag(d int) int { return d + 7 }

var g0, g1 = 1, 2
var t = T{3, 4}
var arr = [2]int{5, 6}

func helper() interface{} { return recover() }

func vsum(xs ...int) int {
	s := len(xs) * 100
	for _, x := range xs {
		s += x
	}
	return s
}

func mkctr(start int) func() int {
	n := start
	return func() int {
		n++
		return n
	}
}

func relp(p *int) { fmt.Println("d", *p) }

func relq(q *T) { fmt.Println("d", q.a, q.b) }

func rels(s []int) { fmt.Println("d", s[0], s[1], s[2]) }

func relm(m map[int]int) { fmt.Println("d", len(m), m[0]) }

func printg() { fmt.Println("g", g0, g1, t.a, t.b, arr[0], arr[1]) }

// pv, []int and map[int]int carry the value of an explicit panic (values that cannot be compared)
type pv struct {
	n int
	s []int
}

func show(x interface{}) {
	switch v := x.(type) {
	case int:
		fmt.Println("rec", v)
	case []int:
		fmt.Println("rec", v[0])
	case pv:
		fmt.Println("rec", v.n)
	case map[int]int:
		fmt.Println("rec", v[0])
	default:
		fmt.Println("rec", "fault")
	}
}
`

// Concrete syntax. GoGen.tla generates ABSTRACT programs; where Go offers several spellings of the same
// construct (integer literal bases, x := e / var x = e / var x int = e, x++ / x += 1 / x = x + 1,
// if c / if v := c; v) the renderer picks one per occurrence from a generator seeded by the program
// itself, so that a replayed program is rendered identically. Pinned witnesses (named programs) and
// GOCORE_PLAIN=1 keep the canonical spelling. The meaning is the same by the language specification;
// the native build of the rendered source stands behind every disagreement (SPEC-ERROR otherwise).
type styler struct {
	s, n uint64
	arr  int // where the package-level array lives: 0 a variable, 1 a field of a struct variable, 2 an element of an array variable
}

func (st *styler) pick(k int) int {
	if st == nil || st.s == 0 {
		return 0
	}
	st.n++
	x := st.s + st.n*0x9E3779B97F4A7C15
	x ^= x >> 31
	x *= 0xBF58476D1CE4E5B9
	x ^= x >> 29
	return int(x % uint64(k))
}

var (
	style    *styler
	renderMu sync.Mutex
)

func (p *Prog) styler(salt uint64) *styler {
	if p.Name != "" || os.Getenv("GOCORE_PLAIN") != "" {
		return nil
	}
	b, _ := json.Marshal(p.Main)
	h := fnv.New64a()
	h.Write(b)
	for _, n := range []string{"f", "g", "two", "h"} {
		if f := p.Funcs[n]; f != nil {
			fb, _ := json.Marshal(f.Body)
			h.Write(fb)
		}
	}
	return &styler{s: h.Sum64() ^ salt | 1, arr: int((h.Sum64() >> 33) % 3)}
}

// arrNames: the spellings of the package-level array of the model. The specification knows one array
// variable; whether it is a variable of its own, a field or an element of another variable is concrete
// syntax (the operand of range, index expressions and assignments are selector or index expressions then).
var arrNames = []string{"arr", "ga.arr", "gaa[0]"}

var arrDecls = []string{"var arr = [2]int{5, 6}\n", "var ga = struct{ arr [2]int }{[2]int{5, 6}}\n", "var gaa = [1][2]int{{5, 6}}\n"}

func arrName() string {
	if style == nil {
		return "arr"
	}
	return arrNames[style.arr]
}

// ArrName is the spelling of the package-level array in this program.
func (p *Prog) ArrName() string {
	if st := p.styler(0); st != nil {
		return arrNames[st.arr]
	}
	return "arr"
}

// VarDecls is the declaration of the package-level variables of this program.
func (p *Prog) VarDecls() string {
	k := 0
	if st := p.styler(0); st != nil {
		k = st.arr
	}
	return "var g0, g1 = 1, 2\nvar t = T{3, 4}\n" + arrDecls[k]
}

// PreludeSrc is Prelude with the array declared where this program has it.
func (p *Prog) PreludeSrc() string {
	n := p.ArrName()
	s := strings.Replace(Prelude, "var g0, g1 = 1, 2\nvar t = T{3, 4}\nvar arr = [2]int{5, 6}\n", p.VarDecls(), 1)
	return strings.Replace(s, "arr[0], arr[1])", n+"[0], "+n+"[1])", 1)
}

type rend struct {
	sb   strings.Builder
	ind  int
	nlab int               // labels are function-scoped in Go: every labelled loop gets its own
	labs map[string]string // abstract label of an enclosing loop -> rendered label
}

// pushLabel emits the label of a loop when its body refers to it and returns the undo.
func (r *rend) pushLabel(s *N) (string, func()) {
	if s.Lab == "" || !usesLabel(s.Body, s.Lab) {
		return "", func() {}
	}
	r.nlab++
	if r.labs == nil {
		r.labs = map[string]string{}
	}
	old, had := r.labs[s.Lab]
	name := fmt.Sprintf("%s_%d", s.Lab, r.nlab)
	r.labs[s.Lab] = name
	r.sb.WriteString(name + ":\n")
	return name, func() {
		if had {
			r.labs[s.Lab] = old
		} else {
			delete(r.labs, s.Lab)
		}
	}
}

func (r *rend) lab(l string) string {
	if n, ok := r.labs[l]; ok {
		return n
	}
	return l
}

func (r *rend) line(format string, a ...any) {
	r.sb.WriteString(strings.Repeat("\t", r.ind))
	fmt.Fprintf(&r.sb, format, a...)
	r.sb.WriteByte('\n')
}

// Expr renders an expression.
func Expr(e *N) string {
	switch e.K {
	case "lit":
		if v := e.V(); v >= 0 {
			switch style.pick(7) {
			case 4:
				return fmt.Sprintf("0x%x", v)
			case 5:
				return fmt.Sprintf("0o%o", v)
			case 6:
				return fmt.Sprintf("0b%b", v)
			}
		}
		return fmt.Sprint(e.V())
	case "var":
		return e.X()
	case "fld":
		return "t." + e.F
	case "idx":
		return arrName() + "[" + idx(e.I) + "]"
	case "bin":
		switch e.Op {
		case "add":
			return "(" + Expr(e.L) + " + " + Expr(e.R) + ")"
		case "sub":
			return "(" + Expr(e.L) + " - " + Expr(e.R) + ")"
		case "mul":
			return "((" + Expr(e.L) + " % 97) * (" + Expr(e.R) + " % 97))"
		}
	case "div":
		return "(" + Expr(e.L) + " / " + Expr(e.R) + ")"
	case "deref":
		return "*" + e.P
	case "sl":
		return fmt.Sprintf("%s[%d]", e.S, e.Ix)
	case "call":
		var as []string
		for _, a := range e.Args {
			as = append(as, Expr(a))
		}
		return e.F + "(" + strings.Join(as, ", ") + ")"
	case "clo":
		var as []string
		for _, a := range e.Args {
			as = append(as, Expr(a))
		}
		return e.cloName() + "(" + strings.Join(as, ", ") + ")"
	case "vcall":
		var as []string
		for _, a := range e.Args {
			as = append(as, Expr(a))
		}
		return "vsum(" + strings.Join(as, ", ") + ")"
	case "vspread":
		return "vsum(" + e.S + "...)"
	case "fvcall":
		return e.H + "(" + Expr(e.Args[0]) + ")"
	case "chlen":
		return "len(" + e.S + ")"
	case "cvar":
		return e.X()
	case "ufld":
		return e.S + "." + e.F
	case "qfld":
		return e.P + "." + e.F
	case "usum":
		return e.S + ".sum()"
	case "utag":
		return e.S + "." + e.M + "(" + Expr(e.E) + ")"
	case "bvar":
		return e.S
	case "isnil":
		op := map[string]string{"eq": "==", "ne": "!="}[e.Op]
		if e.Form == "nx" {
			return "nil " + op + " " + e.S
		}
		return e.S + " " + op + " nil"
	case "ucmp":
		op := map[string]string{"eq": "==", "ne": "!="}[e.Op]
		return e.S + " " + op + " " + e.From
	case "mget":
		return e.S + "[" + key(e.I) + "]"
	case "mlen", "slen":
		return "len(" + e.S + ")"
	case "scmp":
		op := map[string]string{"lt": "<", "eq": "==", "ne": "!="}[e.Op]
		return StrExpr(e.L) + " " + op + " " + StrExpr(e.R)
	case "cmp":
		op := map[string]string{"lt": "<", "le": "<=", "eq": "==", "ne": "!="}[e.Op]
		return Expr(e.L) + " " + op + " " + Expr(e.R)
	case "and":
		return "(" + Expr(e.L) + ") && (" + Expr(e.R) + ")"
	case "or":
		return "(" + Expr(e.L) + ") || (" + Expr(e.R) + ")"
	case "not":
		return "!(" + Expr(e.X_()) + ")"
	}
	return "/*?" + e.K + "*/"
}

func ifaceVal(s *N) string {
	switch s.Form {
	case "int":
		return Expr(s.E)
	case "str":
		return StrExpr(s.Src)
	case "T":
		return s.From
	}
	return "nil"
}

// tysw renders a type switch: one clause per listed type (int and string share one when
// s.Multi is set), the default clause among them, rotated by s.Rot.
func (r *rend) tysw(s *N) {
	multi := len(s.Multi) > 0
	type clause struct{ head, body string }
	var cl []clause
	val := func(ty, conv, bound string) string {
		if s.Bind {
			return bound
		}
		return conv
	}
	for _, ty := range s.Tys {
		switch ty {
		case "int":
			if multi {
				cl = append(cl, clause{"case int, string:", fmt.Sprintf("fmt.Println(\"t\", %d, \"multi\")", s.ID)})
			} else {
				cl = append(cl, clause{"case int:", fmt.Sprintf("fmt.Println(\"t\", %d, \"int\", %s)", s.ID, val(ty, s.S+".(int)+1", "tv+1"))})
			}
		case "str":
			if !multi {
				cl = append(cl, clause{"case string:", fmt.Sprintf("fmt.Println(\"t\", %d, \"string\", %s)", s.ID, val(ty, "len("+s.S+".(string))", "len(tv)"))})
			}
		case "T":
			cl = append(cl, clause{"case T:", fmt.Sprintf("fmt.Println(\"t\", %d, \"T\", %s)", s.ID, val(ty, s.S+".(T).a", "tv.a"))})
		case "nil":
			cl = append(cl, clause{"case nil:", fmt.Sprintf("fmt.Println(\"t\", %d, \"nil\")", s.ID)})
		}
	}
	dflt := fmt.Sprintf("fmt.Println(\"t\", %d, \"other\")", s.ID)
	if s.Bind {
		dflt = "_ = tv\n" + strings.Repeat("\t", r.ind+1) + dflt
	}
	cl = append(cl, clause{"default:", dflt})
	k := s.Rot % len(cl)
	cl = append(cl[k:], cl[:k]...)
	if s.Bind {
		r.line("switch tv := %s.(type) {", s.S)
	} else {
		r.line("switch %s.(type) {", s.S)
	}
	for _, c := range cl {
		r.line("%s", c.head)
		r.line("\t%s", c.body)
	}
	r.line("}")
}

// StrExpr renders a string expression.
func StrExpr(e *N) string {
	switch e.K {
	case "slit":
		b := make([]byte, len(e.Cs))
		for i, c := range e.Cs {
			b[i] = byte(c)
		}
		return strconv.Quote(string(b))
	case "sv":
		return e.S
	case "scat":
		return "(" + StrExpr(e.L) + " + " + StrExpr(e.R) + ")"
	}
	return "/*?" + e.K + "*/"
}

// key renders a map key: the expression modulo 4.
func key(i *N) string {
	if i.K == "lit" {
		return fmt.Sprint(((i.V() % 4) + 4) % 4)
	}
	return "((" + Expr(i) + ")%4+4)%4"
}

func idx(i *N) string {
	if i.K == "lit" {
		return fmt.Sprint(((i.V() % 2) + 2) % 2)
	}
	return "((" + Expr(i) + ")%2+2)%2"
}

func usesLabel(b []*N, lab string) bool {
	for _, s := range b {
		if (s.K == "brk" || s.K == "cont") && s.Lab == lab {
			return true
		}
		if s.K == "mkclo" || s.K == "appclo" || s.K == "defer" {
			continue // labels do not cross function literals
		}
		for _, sub := range [][]*N{s.Th, s.El, s.Body, s.Dflt} {
			if usesLabel(sub, lab) {
				return true
			}
		}
		for _, c := range s.Cases {
			if usesLabel(c.Body, lab) {
				return true
			}
		}
	}
	return false
}

func usesGoto(b []*N, lab string) bool {
	for _, s := range b {
		if s.K == "goto" && s.Lab == lab {
			return true
		}
		if s.K == "mkclo" || s.K == "appclo" || s.K == "defer" {
			continue
		}
		for _, sub := range [][]*N{s.Th, s.El, s.Body, s.Dflt} {
			if usesGoto(sub, lab) {
				return true
			}
		}
		for _, c := range s.Cases {
			if usesGoto(c.Body, lab) {
				return true
			}
		}
	}
	return false
}

// scoped gives the abstract label lab a fresh rendered name and returns it with the undo.
func (r *rend) scoped(lab string) (string, func()) {
	r.nlab++
	if r.labs == nil {
		r.labs = map[string]string{}
	}
	old, had := r.labs[lab]
	name := fmt.Sprintf("%s_%d", lab, r.nlab)
	r.labs[lab] = name
	return name, func() {
		if had {
			r.labs[lab] = old
		} else {
			delete(r.labs, lab)
		}
	}
}

var faults = map[string]string{
	"nilDeref":    "var np *int; *np = 1",
	"index":       "ix := 5; xs := []int{1}; xs[ix] = 1",
	"sliceBounds": "sb := 5; ys := []int{1}; _ = ys[sb:]",
	"divZero":     "dz := 0; _ = 1 / dz",
	"nilMapWrite": "var nm map[string]int; nm[\"a\"] = 1",
	"badAssert":   "var iv interface{} = 1; _ = iv.(string)",
	"closeClosed": "cc := make(chan int); close(cc); close(cc)",
}

// faultForms: the spellings of each kind of run-time fault (the first one is the canonical form)
var faultForms = map[string][]string{
	"nilDeref":    {faults["nilDeref"], "var np *int; _ = *np", "var np *int; nv := *np; _ = nv", "var nq *T; _ = nq.a", "var nq *T; nq.a = 1"},
	"index":       {faults["index"], "ix := 5; xs := []int{1}; _ = xs[ix]", "var ar [2]int; ix := 5; _ = ar[ix]"},
	"sliceBounds": {faults["sliceBounds"]},
	"divZero":     {faults["divZero"], "dz := 0; _ = 1 % dz"},
	"nilMapWrite": {faults["nilMapWrite"], "var nm map[string]int; nm[\"a\"]++"},
	"badAssert":   {faults["badAssert"]},
	"closeClosed": {faults["closeClosed"]},
}

func (r *rend) block(b []*N) {
	for _, s := range b {
		r.stmt(s)
	}
}

func (r *rend) stmt(s *N) {
	switch s.K {
	case "asg":
		r.line("%s = %s", s.X(), Expr(s.E))
	case "def":
		switch style.pick(5) {
		case 3:
			r.line("var %s = %s", s.X(), Expr(s.E))
		case 4:
			r.line("var %s int = %s", s.X(), Expr(s.E))
		default:
			r.line("%s := %s", s.X(), Expr(s.E))
		}
		r.line("_ = %s", s.X())
	case "opasg":
		r.line("%s %s= %s", s.X(), map[string]string{"add": "+", "sub": "-"}[s.Op], Expr(s.E))
	case "inc":
		op := "+"
		if s.D <= 0 {
			op = "-"
		}
		switch style.pick(4) {
		case 2:
			r.line("%s %s= 1", s.X(), op)
		case 3:
			r.line("%s = %s %s 1", s.X(), s.X(), op)
		default:
			r.line("%s%s%s", s.X(), op, op)
		}
	case "asg2":
		r.line("%s, %s = two(%s)", s.X(), s.Y, Expr(s.E))
	case "swap":
		r.line("%s, %s = %s, %s", s.X(), s.Y, s.Y, s.X())
	case "fset":
		r.line("t.%s = %s", s.F, Expr(s.E))
	case "tlit":
		r.line("t = T{%s, %s}", Expr(s.A), Expr(s.B))
	case "iset":
		r.line("%s[%s] = %s", arrName(), idx(s.I), Expr(s.E))
	case "iop":
		r.line("%s[%s] += %s", arrName(), idx(s.I), Expr(s.E))
	case "print":
		r.line("fmt.Println(\"p\", %d, %s)", s.ID, Expr(s.E))
	case "printg":
		r.line("printg()") // a package-level function: a local may be named like a package variable
	case "discard":
		r.line("%s", Expr(s.E))
	case "blankcall":
		r.line("_ = %s", Expr(s.E))
	case "cs":
		var as []string
		for _, a := range s.Args {
			as = append(as, Expr(a))
		}
		r.line("%s(%s)", s.F, strings.Join(as, ", "))
	case "if":
		if style.pick(4) == 3 {
			r.line("if cnd := %s; cnd {", Expr(s.cond()))
		} else {
			r.line("if %s {", Expr(s.cond()))
		}
		r.ind++
		r.block(s.Th)
		r.ind--
		if len(s.El) > 0 {
			r.line("} else {")
			r.ind++
			r.block(s.El)
			r.ind--
		}
		r.line("}")
	case "for":
		var old string
		var had, set bool
		if s.Lab != "" && usesLabel(s.Body, s.Lab) {
			set = true
			r.nlab++
			if r.labs == nil {
				r.labs = map[string]string{}
			}
			old, had = r.labs[s.Lab]
			r.labs[s.Lab] = fmt.Sprintf("%s_%d", s.Lab, r.nlab)
			r.sb.WriteString(r.labs[s.Lab] + ":\n")
		}
		r.line("for %s := 0; %s < %d; %s++ {", s.V_(), s.V_(), s.N_, s.V_())
		r.ind++
		r.block(s.Body)
		r.ind--
		r.line("}")
		if set {
			if had {
				r.labs[s.Lab] = old
			} else {
				delete(r.labs, s.Lab)
			}
		}
	case "rng":
		lab, restore := r.pushLabel(s)
		_ = lab
		r.line("for %s := range %d {", s.V_(), s.N_)
		r.ind++
		r.line("_ = %s", s.V_())
		r.block(s.Body)
		r.ind--
		r.line("}")
		restore()
	case "tswitch":
		r.line("switch {")
		for _, c := range s.Cases {
			r.line("case %s:", Expr(c.Cond()))
			r.ind++
			r.block(c.Body)
			r.ind--
		}
		r.line("default:")
		r.ind++
		r.block(s.Dflt)
		r.ind--
		r.line("}")
	case "ifinit":
		r.line("if %s := %s; %s {", s.X(), Expr(s.E), Expr(s.cond()))
		r.ind++
		r.block(s.Th)
		r.ind--
		if len(s.El) > 0 {
			r.line("} else {")
			r.ind++
			r.block(s.El)
			r.ind--
		}
		r.line("}")
	case "mksl":
		r.line("%s := []int{%s, %s, %s}", s.S, Expr(s.Es[0]), Expr(s.Es[1]), Expr(s.Es[2]))
		r.line("_ = %s", s.S)
	case "slshare":
		r.line("%s := %s", s.S, s.From)
		r.line("_ = %s", s.S)
	case "slset":
		if s.Op == "set" {
			r.line("%s[%d] = %s", s.S, s.Ix, Expr(s.E))
		} else {
			r.line("%s[%d] += %s", s.S, s.Ix, Expr(s.E))
		}
	case "printsl":
		r.line("fmt.Println(\"s\", %s[0], %s[1], %s[2])", s.S, s.S, s.S)
	case "iswap":
		r.line("%[1]s[0], %[1]s[1] = %[1]s[1], %[1]s[0]", arrName())
	case "mkptr":
		r.line("%s := &%s", s.P, s.X())
		r.line("_ = %s", s.P)
	case "pset":
		r.line("*%s = %s", s.P, Expr(s.E))
	case "pop":
		r.line("*%s %s= %s", s.P, map[string]string{"add": "+", "sub": "-"}[s.Op], Expr(s.E))
	case "switch":
		r.line("switch %s {", Expr(s.Tag))
		dflt := func() {
			r.line("default:")
			r.ind++
			r.block(s.Dflt)
			if s.DFall {
				r.line("fallthrough")
			}
			r.ind--
		}
		for i, c := range s.Cases {
			if i == s.Dpos {
				dflt()
			}
			if c.W != c.V {
				r.line("case %d, %d:", c.V, c.W)
			} else {
				r.line("case %d:", c.V)
			}
			r.ind++
			r.block(c.Body)
			if c.Fall {
				r.line("fallthrough")
			}
			r.ind--
		}
		if s.Dpos >= len(s.Cases) {
			dflt()
		}
		r.line("}")
	case "brk":
		if s.Lab == "" {
			r.line("break")
		} else {
			r.line("break %s", r.lab(s.Lab))
		}
	case "cont":
		if s.Lab == "" {
			r.line("continue")
		} else {
			r.line("continue %s", r.lab(s.Lab))
		}
	case "ret":
		if s.Bare {
			r.line("return")
		} else {
			r.line("return %s", Expr(s.E))
		}
	case "ret2":
		r.line("return %s, %s", Expr(s.A), Expr(s.B))
	case "mkclo":
		if s.Par {
			r.line("%s := func(a int) int {", s.cloName())
		} else {
			r.line("%s := func() int {", s.cloName())
		}
		r.ind++
		r.block(s.Body)
		r.ind--
		r.line("}")
		r.line("_ = %s", s.cloName())
	case "appclo":
		r.line("fs = append(fs, func() int {")
		r.ind++
		r.block(s.Body)
		r.ind--
		r.line("})")
	case "mkfs":
		r.line("fs := []func() int{}")
	case "callall":
		r.line("for _, fn := range fs {")
		r.line("\tfmt.Println(\"f\", fn())")
		r.line("}")
	case "defer":
		switch s.Form {
		case "lit":
			r.line("defer func() {")
			r.ind++
			r.block(s.Body)
			r.ind--
			r.line("}()")
		case "call":
			r.line("defer %s(%s)", s.F, Expr(s.E))
		case "print":
			r.line("defer fmt.Println(\"d\", %s)", Expr(s.E))
		case "method":
			r.line("defer %s.bump(%s)", s.S, Expr(s.E))
		case "nilfn":
			// a nil function value, deferred: in a block of its own, so that several of them can stand in one function
			r.line("{")
			r.line("\tvar hn func()")
			r.line("\tdefer hn()")
			r.line("}")
		case "clo":
			r.line("defer %s()", s.S)
		case "mdel":
			r.line("defer delete(%s, %s)", s.S, key(s.E))
		case "relp", "relq", "rels", "relm":
			r.line("defer %s(%s)", s.Form, s.S)
		}
	case "panic":
		// the value travels as an int or inside a value that cannot be compared (the model's value is the int)
		switch style.pick(6) {
		case 3:
			r.line("panic([]int{%s})", Expr(s.E))
		case 4:
			r.line("panic(pv{%s, nil})", Expr(s.E))
		case 5:
			r.line("panic(map[int]int{0: %s})", Expr(s.E))
		default:
			r.line("panic(%s)", Expr(s.E))
		}
	case "fault":
		alts := faultForms[s.Kind]
		r.line("{ %s }", alts[style.pick(len(alts))])
	case "recover":
		call := "recover()"
		if s.How == "helper" {
			call = "helper()"
		}
		r.line("if rv := %s; rv != nil {", call)
		r.line("\tshow(rv)")
		if s.SetR {
			r.line("\tr = r + 100")
		}
		r.line("} else {")
		r.line("\tfmt.Println(\"norec\")")
		r.line("}")
	case "preasg":
		if s.Form == "q" {
			r.line("%s = &%s", s.P, s.S)
		} else {
			r.line("%s = &%s", s.P, s.X())
		}
	case "slreasg":
		if s.Form == "share" {
			r.line("%s = %s", s.S, s.From)
		} else {
			r.line("%s = []int{%s, %s, %s}", s.S, Expr(s.Es[0]), Expr(s.Es[1]), Expr(s.Es[2]))
		}
	case "mreasg":
		if s.Form == "share" {
			r.line("%s = %s", s.S, s.From)
		} else {
			r.line("%s = make(map[int]int)", s.S)
		}
	case "asgidx":
		dst := arrName() + "[" + idx(&N{K: "var", RawX: s.RawX}) + "]"
		if s.S != "" {
			dst = s.S + "[" + key(&N{K: "var", RawX: s.RawX}) + "]"
			if s.Bare {
				dst = s.S + "[" + s.X() + "]" // the model discards the program unless 0 <= x <= 3
			}
		}
		if s.Form == "xfirst" {
			r.line("%s, %s = %s, %s", s.X(), dst, Expr(s.A), Expr(s.B))
		} else {
			r.line("%s, %s = %s, %s", dst, s.X(), Expr(s.B), Expr(s.A))
		}
	case "asgidxc":
		dst := arrName() + "[" + idx(&N{K: "var", RawX: s.RawX}) + "]"
		if s.S != "" {
			dst = s.S + "[" + key(&N{K: "var", RawX: s.RawX}) + "]"
		}
		if s.Form == "xfirst" {
			r.line("%s, %s = two(%s)", s.X(), dst, Expr(s.E))
		} else {
			r.line("%s, %s = two(%s)", dst, s.X(), Expr(s.E))
		}
	case "slswap":
		r.line("%s[%d], %s[%d] = %s[%d], %s[%d]", s.S, s.Lo, s.S, s.Hi, s.S, s.Hi, s.S, s.Lo)
	case "mkfv":
		if s.Form == "pick" {
			r.line("%s := pick()", s.S)
		} else {
			r.line("%s := g", s.S)
		}
		r.line("_ = %s", s.S)
	case "mkgen":
		r.line("%s := mkctr(%s)", s.cloName(), Expr(s.E))
		r.line("_ = %s", s.cloName())
	case "imk":
		r.line("var %s interface{} = %s", s.S, ifaceVal(s))
		r.line("_ = %s", s.S)
	case "iasg":
		r.line("%s = %s", s.S, ifaceVal(s))
	case "tysw":
		r.tysw(s)
	case "tyas":
		ty := map[string]string{"int": "int", "str": "string", "T": "T"}[s.Ty]
		val := map[string]string{"int": "av", "str": "len(av)", "T": "av.b"}[s.Ty]
		r.line("if av, ok := %s.(%s); ok {", s.S, ty)
		r.line("\tfmt.Println(\"a\", %d, %s)", s.ID, val)
		r.line("} else {")
		r.line("\tfmt.Println(\"a\", %d, \"no\")", s.ID)
		r.line("}")
	case "tyas1":
		r.line("%s = %s.(int)", s.X(), s.S)
	case "mkch":
		r.line("%s := make(chan int, 2)", s.S)
		r.line("_ = %s", s.S)
	case "chsend":
		r.line("%s <- %s", s.S, Expr(s.E))
	case "chtrysend":
		r.line("select {")
		r.line("case %s <- %s:", s.S, Expr(s.E))
		r.line("\tfmt.Println(\"c\", %d, \"sent\")", s.ID)
		r.line("default:")
		r.line("\tfmt.Println(\"c\", %d, \"full\")", s.ID)
		r.line("}")
	case "chrecv":
		r.line("if cv, ok := <-%s; true {", s.S)
		r.line("\tfmt.Println(\"c\", %d, cv, ok)", s.ID)
		r.line("}")
	case "chtry":
		r.line("select {")
		r.line("case cv := <-%s:", s.S)
		r.line("\tfmt.Println(\"c\", %d, cv)", s.ID)
		r.line("default:")
		r.line("\tfmt.Println(\"c\", %d, \"empty\")", s.ID)
		r.line("}")
	case "chsel":
		dst := map[string]string{"var": s.X(), "fld": "t.a", "arr": arrName() + "[1]", "ptr": "*" + s.X(), "map": s.X() + "[2]"}[s.Form]
		lhs := dst
		r.line("{")
		r.ind++
		if s.Ok2 {
			r.line("okv := false")
			r.line("_ = okv")
			lhs += ", okv"
		}
		r.line("select {")
		r.line("case %s = <-%s:", lhs, s.S)
		if s.HB {
			r.line("\tfmt.Println(\"c\", %d, \"got\")", s.ID)
		}
		if s.HD {
			r.line("default:")
			r.line("\tfmt.Println(\"c\", %d, \"empty\")", s.ID)
		}
		r.line("}")
		if s.Ok2 {
			r.line("fmt.Println(\"c\", %d, %s, okv)", s.ID, dst)
		} else {
			r.line("fmt.Println(\"c\", %d, %s)", s.ID, dst)
		}
		r.ind--
		r.line("}")
	case "chclose":
		r.line("close(%s)", s.S)
	case "chrange":
		r.line("for cv := range %s {", s.S)
		r.line("\tfmt.Println(\"c\", %d, cv)", s.ID)
		r.line("}")
	case "cdef":
		r.line("const %s = %d", s.X(), s.V())
		r.line("_ = %s", s.X())
	case "bdef":
		r.line("%s := %s", s.S, Expr(s.cond()))
		r.line("_ = %s", s.S)
	case "basg":
		r.line("%s = %s", s.S, Expr(s.cond()))
	case "umk":
		if s.Form == "lit" {
			r.line("%s := T{%s, %s}", s.S, Expr(s.A), Expr(s.B))
		} else {
			r.line("%s := %s", s.S, s.From)
		}
		r.line("_ = %s", s.S)
	case "ucopy":
		r.line("%s = %s", s.S, s.From)
	case "ufset":
		if s.Op == "set" {
			r.line("%s.%s = %s", s.S, s.F, Expr(s.E))
		} else {
			r.line("%s.%s += %s", s.S, s.F, Expr(s.E))
		}
	case "ubump":
		r.line("%s.bump(%s)", s.S, Expr(s.E))
	case "uprint":
		r.line("fmt.Println(\"u\", %s.a, %s.b)", s.S, s.S)
	case "mkpu":
		r.line("%s := &%s", s.P, s.S)
		r.line("_ = %s", s.P)
	case "qfset":
		if s.Op == "set" {
			r.line("%s.%s = %s", s.P, s.F, Expr(s.E))
		} else {
			r.line("%s.%s += %s", s.P, s.F, Expr(s.E))
		}
	case "qcopy":
		if s.Form == "store" {
			r.line("*%s = %s", s.P, s.S)
		} else {
			r.line("%s = *%s", s.S, s.P)
		}
	case "mkmap":
		switch s.Form {
		case "nil":
			r.line("var %s map[int]int", s.S)
		case "make":
			r.line("%s := make(map[int]int)", s.S)
		default:
			var kv []string
			for i, k := range s.Ks {
				kv = append(kv, fmt.Sprintf("%d: %s", k, Expr(s.Es[i])))
			}
			r.line("%s := map[int]int{%s}", s.S, strings.Join(kv, ", "))
		}
		r.line("_ = %s", s.S)
	case "mshare":
		r.line("%s := %s", s.S, s.From)
		r.line("_ = %s", s.S)
	case "mset":
		if s.Op == "set" {
			r.line("%s[%s] = %s", s.S, key(s.I), Expr(s.E))
		} else {
			r.line("%s[%s] += %s", s.S, key(s.I), Expr(s.E))
		}
	case "mdel":
		r.line("delete(%s, %s)", s.S, key(s.I))
	case "mok":
		r.line("if mv, ok := %s[%s]; ok {", s.S, key(s.I))
		r.line("\tfmt.Println(\"k\", %d, mv)", s.ID)
		r.line("} else {")
		r.line("\tfmt.Println(\"k\", %d, -1)", s.ID)
		r.line("}")
	case "printm":
		r.line("fmt.Println(\"m\", len(%s), %s[0], %s[1], %s[2], %s[3])", s.S, s.S, s.S, s.S, s.S)
	case "msum":
		r.line("for mk, mv := range %s {", s.S)
		r.line("\t%s += mk*7 + mv", s.X())
		r.line("}")
	case "sdef":
		r.line("%s := %s", s.S, StrExpr(s.Src))
		r.line("_ = %s", s.S)
	case "sasg":
		if s.Op == "add" {
			r.line("%s += %s", s.S, StrExpr(s.Src))
		} else {
			r.line("%s = %s", s.S, StrExpr(s.Src))
		}
	case "sidx":
		r.line("%s = int(%s[%d])", s.X(), s.S, s.Ix)
	case "ssub":
		r.line("%s := %s[%d:%d]", s.S, s.From, s.Lo, s.Hi)
		r.line("_ = %s", s.S)
	case "prints":
		r.line("fmt.Println(\"w\", len(%s), %s+\"|\")", s.S, s.S)
	case "srng":
		r.line("for si, sc := range %s {", s.S)
		r.line("\tfmt.Println(\"r\", si, sc)")
		r.line("}")
	case "gscope":
		used := usesGoto(s.Body, s.Lab)
		name, restore := "", func() {}
		if used {
			name, restore = r.scoped(s.Lab)
		}
		r.line("{")
		r.ind++
		r.block(s.Body)
		r.ind--
		r.line("}")
		restore()
		if used {
			r.sb.WriteString(name + ":\n")
			r.line("_ = 0")
		}
	case "goto":
		r.line("goto %s", r.lab(s.Lab))
	case "gloop":
		name, restore := r.scoped(s.Lab)
		restore() // nothing inside refers to it
		r.line("%s := 0", s.X())
		r.line("_ = %s", s.X())
		r.sb.WriteString(name + ":\n")
		r.line("{")
		r.ind++
		r.block(s.Body)
		r.ind--
		r.line("}")
		r.line("if %s < %d {", s.X(), s.N_)
		r.line("\t%s++", s.X())
		r.line("\tgoto %s", name)
		r.line("}")
	case "while":
		_, restore := r.pushLabel(s)
		if s.Form == "cond" {
			r.line("for %s < %d {", s.X(), s.N_)
			r.ind++
			r.line("%s++", s.X())
		} else {
			r.line("for {")
			r.ind++
			r.line("%s++", s.X())
			r.line("if %s >= %d {", s.X(), s.N_)
			r.line("\tbreak")
			r.line("}")
		}
		r.block(s.Body)
		r.ind--
		r.line("}")
		restore()
	case "rngsl", "rngarr":
		_, restore := r.pushLabel(s)
		over := s.S
		if s.K == "rngarr" {
			over = arrName()
		}
		r.line("for %s, %s := range %s {", s.V_(), s.VV, over)
		r.ind++
		r.line("_, _ = %s, %s", s.V_(), s.VV)
		r.block(s.Body)
		r.ind--
		r.line("}")
		restore()
	case "block":
		r.line("{")
		r.ind++
		r.block(s.Body)
		r.ind--
		r.line("}")
	default:
		r.line("/* unknown statement %s */", s.K)
	}
}

// Funcs renders the declarations of f, g and two.
func (p *Prog) FuncDecls() string {
	renderMu.Lock()
	defer renderMu.Unlock()
	style = p.styler(0x5bd1e995)
	defer func() { style = nil }()
	r := &rend{}
	f := p.Funcs["f"]
	r.line("func f(p int) (r int) {")
	r.ind++
	r.block(f.Body)
	r.line("return")
	r.ind--
	r.line("}")
	r.line("")
	g := p.Funcs["g"]
	r.line("func g(p int) int {")
	r.ind++
	r.block(g.Body)
	r.ind--
	r.line("}")
	r.line("")
	r.line("func pick() func(int) int { return g }")
	r.line("")
	r.line("func two(p int) (r int, q int) {")
	r.ind++
	r.block(p.Funcs["two"].Body)
	r.line("return")
	r.ind--
	r.line("}")
	if h := p.Funcs["h"]; h != nil {
		r.line("")
		r.line("func h(p int) (r int) {")
		r.ind++
		r.block(h.Body)
		r.line("return")
		r.ind--
		r.line("}")
	}
	return r.sb.String()
}

// MainBody renders the statements of main, one top-level statement per element.
func (p *Prog) MainStmts() []string {
	renderMu.Lock()
	defer renderMu.Unlock()
	style = p.styler(0)
	defer func() { style = nil }()
	var out []string
	r := &rend{ind: 1} // one renderer: labels must be unique over the whole of main
	for _, s := range p.Main {
		r.sb.Reset()
		r.stmt(s)
		out = append(out, r.sb.String())
	}
	return out
}

// Source renders the whole program.
func (p *Prog) Source() string {
	var sb strings.Builder
	sb.WriteString(p.PreludeSrc())
	sb.WriteString("\n")
	sb.WriteString(p.FuncDecls())
	sb.WriteString("\nfunc main() {\n")
	for _, s := range p.MainStmts() {
		sb.WriteString(s)
	}
	sb.WriteString("}\n")
	return sb.String()
}
