package gocore

import "encoding/json"

// Development aid: enumerate the programs obtained by deleting one statement (at any
// nesting level) or by replacing a compound statement by one of its blocks.

func cloneProg(p *Prog) *Prog {
	b, _ := json.Marshal(p)
	var q Prog
	json.Unmarshal(b, &q)
	return &q
}

// blocks returns pointers to every statement list of the program.
func blocks(p *Prog) []*[]*N {
	var out []*[]*N
	var walk func(b *[]*N)
	walk = func(b *[]*N) {
		out = append(out, b)
		for _, s := range *b {
			for _, sub := range []*[]*N{&s.Th, &s.El, &s.Body, &s.Dflt} {
				if len(*sub) > 0 {
					walk(sub)
				}
			}
			for i := range s.Cases {
				if len(s.Cases[i].Body) > 0 {
					walk(&s.Cases[i].Body)
				}
			}
		}
	}
	for _, name := range []string{"f", "g"} {
		if f := p.Funcs[name]; f != nil {
			walk(&f.Body)
		}
	}
	walk(&p.Main)
	return out
}

// Reductions returns the one-step reductions of p.
func Reductions(p *Prog) []*Prog {
	var out []*Prog
	nb := len(blocks(cloneProg(p)))
	for bi := 0; bi < nb; bi++ {
		n := len(*blocks(cloneProg(p))[bi])
		for si := 0; si < n; si++ {
			// delete statement si of block bi
			q := cloneProg(p)
			bs := blocks(q)
			b := bs[bi]
			s := (*b)[si]
			nb2 := append(append([]*N{}, (*b)[:si]...), (*b)[si+1:]...)
			*b = nb2
			out = append(out, q)
			// replace a compound statement by its first non-empty inner block
			for _, inner := range [][]*N{s.Th, s.El, s.Body} {
				if len(inner) > 0 && s.K != "mkclo" && s.K != "appclo" && s.K != "defer" {
					q2 := cloneProg(p)
					b2 := blocks(q2)[bi]
					s2 := (*b2)[si]
					var in []*N
					switch {
					case len(s2.Th) > 0 && &inner[0] == &s.Th[0]:
						in = s2.Th
					case len(s2.El) > 0 && len(s.El) > 0 && &inner[0] == &s.El[0]:
						in = s2.El
					default:
						in = s2.Body
					}
					blk := &N{K: "block", Body: in}
					(*b2)[si] = blk
					out = append(out, q2)
				}
			}
		}
	}
	return out
}
