package gocore

import (
	"bytes"
	"fmt"
	"reflect"
	"strings"
	"time"

	"github.com/traefik/yaegi/interp"
	"github.com/traefik/yaegi/stdlib"
)

// Obs is what one evaluation of a program by the interpreter showed.
type Obs struct {
	Stdout string `json:"stdout"`
	// End: "ok", "panic" (interp.Panic returned by Eval), "error" (any other error:
	// compile error etc.), "escaped" (a Go panic came out of Eval), "timeout".
	End   string `json:"end"`
	Value string `json:"value,omitempty"` // panic value: an int, or "fault" for anything else
	Raw   string `json:"raw,omitempty"`   // the panic value as text (diagnostics only)
	Err   string `json:"err,omitempty"`
}

// PanicVal classifies a panic value the way the specification does.
func PanicVal(v any) string {
	// an explicit panic(v) of the script surfaces as a reflect.Value holding v
	if rv, ok := v.(reflect.Value); ok && rv.IsValid() && rv.CanInterface() {
		v = rv.Interface()
	}
	if n, ok := v.(int); ok {
		return fmt.Sprint(n)
	}
	if rv := reflect.ValueOf(v); rv.IsValid() {
		switch rv.Kind() {
		case reflect.Int:
			return fmt.Sprint(rv.Int())
		case reflect.Slice: // panic([]int{v})
			if rv.Len() == 1 && rv.Index(0).Kind() == reflect.Int {
				return fmt.Sprint(rv.Index(0).Int())
			}
		case reflect.Struct: // panic(pv{v, nil})
			if rv.NumField() == 2 && rv.Field(0).Kind() == reflect.Int {
				return fmt.Sprint(rv.Field(0).Int())
			}
		case reflect.Map: // panic(map[int]int{0: v})
			if e := rv.MapIndex(reflect.ValueOf(0)); e.IsValid() && e.Kind() == reflect.Int {
				return fmt.Sprint(e.Int())
			}
		}
	}
	return "fault"
}

// EvalWhole evaluates a complete program with one Eval on a fresh interpreter.
func EvalWhole(src string, timeout time.Duration) (o Obs) {
	var out, errb bytes.Buffer
	i := interp.New(interp.Options{Stdout: &out, Stderr: &errb})
	i.Use(stdlib.Symbols)
	done := make(chan struct{})
	go func() {
		defer close(done)
		defer func() {
			if r := recover(); r != nil {
				o.End, o.Err = "escaped", fmt.Sprint(r)
			}
		}()
		_, err := i.Eval(src)
		o.classify(err)
	}()
	select {
	case <-done:
	case <-time.After(timeout):
		return Obs{Stdout: out.String(), End: "timeout"}
	}
	o.Stdout = out.String()
	return o
}

// Classify turns the error returned by Eval into an observation.
func Classify(err error) Obs {
	var o Obs
	o.classify(err)
	return o
}

func (o *Obs) classify(err error) {
	switch e := err.(type) {
	case nil:
		o.End = "ok"
	case interp.Panic:
		o.End, o.Value, o.Raw = "panic", PanicVal(e.Value), firstLine(fmt.Sprintf("%T %v", e.Value, e.Value))
	default:
		o.End, o.Err = "error", firstLine(err.Error())
	}
}

func firstLine(s string) string {
	if i := strings.IndexByte(s, '\n'); i >= 0 {
		s = s[:i]
	}
	if len(s) > 160 {
		s = s[:160]
	}
	return s
}

// Agrees compares an observation with the prediction.
func (b *Beh) Agrees(o Obs) bool {
	if o.Stdout != b.ExpectedStdout() {
		return false
	}
	if b.Status == "ok" {
		return o.End == "ok"
	}
	return o.End == "panic" && o.Value == b.PanicValue()
}

// NativeAgrees compares the behaviour of the natively built program with the prediction:
// stdout, and exit status 0 / exit status 2 with a "panic:" line for the predicted value.
func (b *Beh) NativeAgrees(stdout, stderr string, exit int) (bool, string) {
	if stdout != b.ExpectedStdout() {
		return false, "stdout differs"
	}
	if b.Status == "ok" {
		if exit != 0 {
			return false, fmt.Sprintf("exit %d", exit)
		}
		return true, ""
	}
	if exit != 2 || !strings.Contains(stderr, "panic: ") {
		return false, fmt.Sprintf("exit %d, no panic", exit)
	}
	if pv := b.PanicValue(); pv != "fault" {
		if strings.Contains(stderr, "panic: ([]int)") || strings.Contains(stderr, "panic: (map[int]int)") || strings.Contains(stderr, "panic: main.pv{") || strings.Contains(stderr, "panic: (main.pv)") {
			return true, "" // the value travels in a carrier that the runtime does not print as a number
		}
		if !strings.Contains(stderr, "panic: "+pv) && !strings.Contains(stderr, "panic: main.") {
			// a re-panic prints "panic: 6 [recovered]\n\tpanic: 7": the last one counts
			return false, "panic value differs"
		}
		last := stderr[strings.LastIndex(stderr, "panic: ")+len("panic: "):]
		if !strings.HasPrefix(last, pv) {
			return false, "last panic value differs: " + firstLine(last)
		}
	} else if !strings.Contains(stderr, "runtime error") && !strings.Contains(stderr, "interface conversion") && !strings.Contains(stderr, "close of closed channel") && !strings.Contains(stderr, "send on closed channel") && !strings.Contains(stderr, "assignment to entry in nil map") {
		return false, "not a run-time fault"
	}
	return true, ""
}
