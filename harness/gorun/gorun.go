// Package gorun is the shared replay machinery of the checks that run GoCore programs:
// TLC generation (simulation or exhaustive families), evaluation by the interpreter in
// child processes, triangulation with the Go toolchain, reporting.
package gorun

import (
	"encoding/json"
	"fmt"
	"os"
	"strings"
	"sync"
	"time"

	"verif/fw"
	"verif/gocore"
)

type jobT struct {
	Src []string `json:"src"`
}

// Register installs the child-side evaluator; call it from init() of the check binary.
func Register() {
	fw.RegisterChild("gorun", func(raw json.RawMessage) any {
		var j jobT
		json.Unmarshal(raw, &j)
		out := make([]gocore.Obs, len(j.Src))
		for i, s := range j.Src {
			out[i] = gocore.EvalWhole(s, 10*time.Second)
		}
		return out
	})
}

// Generate runs TLC on GoGen with the given cfg text and collects the behaviours.
func Generate(c *fw.Ctx, cfg string, simulate bool, jvms, num, depth int) ([]gocore.Beh, error) {
	var mu sync.Mutex
	var all []gocore.Beh
	var wg sync.WaitGroup
	errs := make([]error, jvms)
	for j := 0; j < jvms; j++ {
		wg.Add(1)
		go func(j int) {
			defer wg.Done()
			workers := 1
			if !simulate {
				workers = 8
			}
			res, err := c.TLC(fw.TLCOpts{Dir: "spec/core", Module: "GoGen", Cfg: "gen.cfg", Files: map[string][]byte{"gen.cfg": []byte(cfg)},
				Simulate: simulate, Workers: workers, Num: num, Depth: depth, Seed: c.Seed*100 + int64(j), HeapMB: 2000, Timeout: 10 * time.Minute,
				OnBeh: func(r json.RawMessage) {
					var b gocore.Beh
					if json.Unmarshal(r, &b) == nil {
						mu.Lock()
						all = append(all, b)
						mu.Unlock()
					}
				}})
			if err != nil {
				errs[j] = err
				return
			}
			if res.Violated != "" {
				errs[j] = fmt.Errorf("model-level property violated: %s", res.Violated)
			}
		}(j)
	}
	wg.Wait()
	for _, e := range errs {
		if e != nil {
			return nil, e
		}
	}
	if simulate {
		c.States += int64(jvms * num * depth)
		c.Transitions += int64(jvms * num * depth)
	}
	return all, nil
}

// reduce is a development aid: shrink the failing program of a replay file by deleting
// statements while the interpreter still disagrees with the natively built program.
// Reduce is a development aid: shrink the failing program of a replay file.
func Reduce(c *fw.Ctx, path string) error {
	b, err := os.ReadFile(path)
	if err != nil {
		return err
	}
	var w struct {
		Case struct {
			Prog gocore.Prog `json:"prog"`
		} `json:"case"`
	}
	if err := json.Unmarshal(b, &w); err != nil {
		return err
	}
	cur := &w.Case.Prog
	// REDUCE_ERR=<substring>: keep a candidate while the interpreter's error or panic text
	// contains the substring (no toolchain involved: fast)
	if sub := os.Getenv("REDUCE_ERR"); sub != "" {
		has := func(o gocore.Obs) bool { return strings.Contains(o.Raw+" "+o.Err+" "+o.End+" "+o.Stdout, sub) }
		if !has(EvalAll(c, []string{cur.Source()})[0]) {
			return fmt.Errorf("the program does not show %q", sub)
		}
		for progress := true; progress; {
			progress = false
			cands := gocore.Reductions(cur)
			srcs := make([]string, len(cands))
			for i, q := range cands {
				srcs[i] = q.Source()
			}
			for i, o := range EvalAll(c, srcs) {
				if has(o) && len(srcs[i]) < len(cur.Source()) {
					cur, progress = cands[i], true
					break
				}
			}
			fmt.Fprintf(os.Stderr, "reduce: %d candidates, progress=%v, size=%d\n", len(cands), progress, len(cur.Source()))
		}
		fmt.Println(cur.Source())
		return nil
	}
	ends := func(nr fw.NativeResult) string {
		nend := "ok"
		if nr.Exit != 0 {
			nend = "panic fault"
			if i := strings.LastIndex(nr.Stderr, "panic: "); i >= 0 {
				var n int
				if _, err := fmt.Sscanf(nr.Stderr[i:], "panic: %d", &n); err == nil {
					nend = fmt.Sprint("panic ", n)
				}
			}
		}
		return nend
	}
	differs := func(src string, nr fw.NativeResult) (bool, string) {
		if !nr.BuildOK || nr.Timeout {
			return false, ""
		}
		o := gocore.EvalWhole(src, 5*time.Second)
		yend := o.End
		if o.End == "panic" {
			yend = "panic " + o.Value
		}
		if o.Stdout != nr.Stdout || yend != ends(nr) {
			return true, fmt.Sprintf("yaegi: %q %s %s %s | native: %q %s", o.Stdout, o.End, o.Value, o.Err, nr.Stdout, ends(nr))
		}
		return false, ""
	}
	ok, why := differs(cur.Source(), c.Native(cur.Source(), 5*time.Second))
	if !ok {
		return fmt.Errorf("the program does not fail")
	}
	for progress := true; progress; {
		progress = false
		cands := gocore.Reductions(cur)
		srcs := make([]string, len(cands))
		for i, q := range cands {
			srcs[i] = q.Source()
		}
		nres := c.NativeBatch(srcs, 5*time.Second)
		for i := range cands {
			if d, w2 := differs(srcs[i], nres[i]); d && len(srcs[i]) < len(cur.Source()) {
				cur, why, progress = cands[i], w2, true
				break
			}
		}
		fmt.Fprintf(os.Stderr, "reduce: %d candidates, progress=%v, size=%d\n", len(cands), progress, len(cur.Source()))
	}
	fmt.Println(cur.Source())
	fmt.Println("DIFFERENCE:", why)
	return nil
}

// stripPos removes the leading line:col of an interpreter error message.
func stripPos(s string) string {
	for i := 0; i < len(s); i++ {
		if c := s[i]; (c < '0' || c > '9') && c != ':' && c != ' ' {
			return s[i:]
		}
	}
	return s
}

func lastLines(s string) string {
	// the first line of a fatal error / panic report
	for _, l := range strings.Split(s, "\n") {
		if strings.HasPrefix(l, "fatal error:") || strings.HasPrefix(l, "panic:") || strings.HasPrefix(l, "runtime:") {
			return l
		}
	}
	if len(s) > 120 {
		s = s[:120]
	}
	return s
}

// EvalAll evaluates every source with the interpreter in child processes (batches); a
// batch whose child died or timed out is re-run one program per job, so that the failure
// is attributed to the program that causes it.
func EvalAll(c *fw.Ctx, srcs []string) []gocore.Obs {
	const chunk = 40
	out := make([]gocore.Obs, len(srcs))
	var jobs []any
	for x := 0; x < len(srcs); x += chunk {
		y := x + chunk
		if y > len(srcs) {
			y = len(srcs)
		}
		jobs = append(jobs, jobT{Src: srcs[x:y]})
	}
	results := c.RunChildren("gorun", jobs, 16, 120*time.Second, nil)
	var idx []int
	var sj []any
	for ji, r := range results {
		var os []gocore.Obs
		if r.Out != nil && json.Unmarshal(r.Out, &os) == nil && len(os) == len(jobs[ji].(jobT).Src) {
			copy(out[ji*chunk:], os)
			continue
		}
		for x := range jobs[ji].(jobT).Src {
			idx = append(idx, ji*chunk+x)
			sj = append(sj, jobT{Src: []string{srcs[ji*chunk+x]}})
		}
	}
	for k, r := range c.RunChildren("gorun", sj, 16, 30*time.Second, nil) {
		var os []gocore.Obs
		switch {
		case r.Out != nil && json.Unmarshal(r.Out, &os) == nil && len(os) == 1:
			out[idx[k]] = os[0]
		case r.Timeout:
			out[idx[k]] = gocore.Obs{End: "timeout"}
		default:
			out[idx[k]] = gocore.Obs{End: "crashed", Err: lastLines(r.Stderr)}
		}
	}
	return out
}

// Check replays behaviours and reports disagreements (after triangulation).
func Check(c *fw.Ctx, behs []gocore.Beh, nativeSample int) error {
	srcs := make([]string, len(behs))
	for i := range behs {
		srcs[i] = behs[i].Prog.Source()
	}
	obs := EvalAll(c, srcs)
	type bad struct {
		i int
		o gocore.Obs
	}
	var bads []bad
	for i := range behs {
		c.Count(srcs[i], behs[i].Steps >= 10)
		c.TracesVsImpl++
		if i%500 == 0 {
			c.Sample(map[string]any{"source": srcs[i], "expected_stdout": behs[i].ExpectedStdout(), "expected_end": behs[i].Status})
		}
		if !behs[i].Agrees(obs[i]) {
			bads = append(bads, bad{i, obs[i]})
		}
	}
	if p := os.Getenv("GORUN_DUMP"); p != "" {
		var rows []map[string]any
		for i := range behs {
			rows = append(rows, map[string]any{"prog": behs[i].Prog, "src": srcs[i], "agree": behs[i].Agrees(obs[i]), "obs": obs[i], "expected": behs[i].ExpectedStdout(), "status": behs[i].Status})
		}
		bb, _ := json.Marshal(rows)
		os.WriteFile(p, bb, 0o644)
	}
	// triangulate every disagreement with the toolchain (bounded: 200 per run)
	if len(bads) > 200 {
		bads = bads[:200]
	}
	var nsrc []string
	for _, b := range bads {
		nsrc = append(nsrc, srcs[b.i])
	}
	nres := c.NativeBatch(nsrc, 10*time.Second)
	for k, b := range bads {
		nr := nres[k]
		rep := map[string]any{"prog": behs[b.i].Prog, "out": behs[b.i].Out, "status": behs[b.i].Status, "pval": behs[b.i].Pval,
			"steps": behs[b.i].Steps, "source": srcs[b.i], "expected_stdout": behs[b.i].ExpectedStdout(), "observed": b.o,
			"native": map[string]any{"build_ok": nr.BuildOK, "build_err": nr.BuildErr, "stdout": nr.Stdout, "stderr": nr.Stderr, "exit": nr.Exit}}
		if !nr.BuildOK {
			c.SpecError("generated program rejected by the toolchain: %s\n%s", nr.BuildErr, srcs[b.i])
			continue
		}
		if ok, why := behs[b.i].NativeAgrees(nr.Stdout, nr.Stderr, nr.Exit); !ok {
			c.SpecError("specification and toolchain disagree (%s) on:\n%s\nmodel stdout:\n%snative stdout:\n%snative stderr: %.300s", why, srcs[b.i], behs[b.i].ExpectedStdout(), nr.Stdout, nr.Stderr)
			continue
		}
		c.DisagreeChk++
		mode := "wrong output"
		switch {
		case b.o.End == "error":
			mode = "rejected: " + stripPos(b.o.Err)
		case b.o.End == "escaped":
			mode = "Go panic escaped Eval"
		case b.o.End == "timeout":
			mode = "did not terminate"
		case b.o.End == "crashed":
			mode = "the process died: " + b.o.Err
		case b.o.Stdout == behs[b.i].ExpectedStdout():
			mode = "ends differently: " + b.o.End + " " + b.o.Value
		}
		trig := "program"
		if n := behs[b.i].Prog.Name; n != "" {
			trig = "witness:" + n
		}
		c.Fail(trig, mode, rep)
	}
	// thorough: the toolchain also validates the specification on agreeing programs
	if nativeSample > 0 {
		step := len(behs)/nativeSample + 1
		var idx []int
		var ss []string
		for i := 0; i < len(behs); i += step {
			idx = append(idx, i)
			ss = append(ss, srcs[i])
		}
		for k, nr := range c.NativeBatch(ss, 10*time.Second) {
			if !nr.BuildOK {
				c.SpecError("generated program rejected by the toolchain: %s\n%s", nr.BuildErr, ss[k])
				continue
			}
			if ok, why := behs[idx[k]].NativeAgrees(nr.Stdout, nr.Stderr, nr.Exit); !ok {
				c.SpecError("specification and toolchain disagree (%s) on:\n%s", why, ss[k])
			}
		}
		c.Extra["native_validated_sample"] = len(ss)
	}
	return nil
}
