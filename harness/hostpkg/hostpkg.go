// Package hostpkg is the host-declared package of the C07 check (values and calls
// crossing the host/script boundary). It is a REAL package, exported to scripts under
// its true import path "verif/hostpkg" (yaegi's getWrapper looks interface wrappers up
// under binPkg[t.PkgPath()]). The per-scenario functions and variables (Fn0, Sink,
// Var0, closures) are built with reflect and added to the export table at run time.
package hostpkg

import (
	"io"
	"strconv"
)

// HS is the host-declared struct type of Boundary.tla.
type HS struct {
	A int
	B string
}

// HI is the host-declared named integer type.
type HI int

// HL is the host-declared named slice type.
type HL []int

// Shape is the host interface that script types implement.
type Shape interface {
	Area() int
	Grow(d int) int
}

// Rect is the host's value-receiver implementation of Shape (canonical value 1).
type Rect struct{ W int }

func (r Rect) Area() int      { Ev("enter area|" + strconv.Itoa(r.W)); return r.W }
func (r Rect) Grow(d int) int { Ev("enter grow|" + strconv.Itoa(r.W)); return r.W + d }

// Disk is the host's pointer-receiver implementation of Shape (canonical value 2).
type Disk struct{ R int }

func (d *Disk) Area() int      { Ev("enter area|" + strconv.Itoa(d.R)); return d.R }
func (d *Disk) Grow(k int) int { Ev("enter grow|" + strconv.Itoa(d.R)); d.R += k; return d.R }

// HErr is the host's custom error type (canonical value 2 of type error).
type HErr struct{ Msg string }

func (e HErr) Error() string { return e.Msg }

// quiet > 0 suppresses the event lines of closures and methods while a value is being
// dumped (dumping a function value applies it to a canonical argument; dumping a Shape
// calls Area). Scripts reach it through Mute/Muted.
var quiet int

// Mute adds d to the mute counter.
func Mute(d int) { quiet += d }

// Muted reports whether event lines are suppressed.
func Muted() bool { return quiet > 0 }

// Out receives the transcript lines of the host side; the harness points it at the
// same buffer the interpreter uses as Stdout, so both sides write one ordered transcript.
var Out io.Writer

// Reset prepares the package for the next run.
func Reset(w io.Writer) { quiet = 0; Out = w }

// Emit writes one transcript line on behalf of the script (the script's print function
// when the interpreter runs without the fmt bindings).
func Emit(s string) {
	if Out != nil {
		io.WriteString(Out, s+"\n")
	}
}

// Say writes one transcript line of the host side.
func Say(s string) {
	if Out != nil {
		io.WriteString(Out, "H "+s+"\n")
	}
}

// Ev writes an event line of a host closure or method unless muted.
func Ev(s string) {
	if quiet == 0 {
		Say(s)
	}
}
