package hostpkg

import "reflect"

// Symbols is the export table of this package in the layout `yaegi extract` produces
// (compare /repo/stdlib/go1_22_sort.go): functions/variables, type definitions as nil
// pointers, interface wrappers under "_Name".
func Symbols() map[string]map[string]reflect.Value {
	return map[string]map[string]reflect.Value{
		"verif/hostpkg/hostpkg": {
			// function definitions
			"Emit":  reflect.ValueOf(Emit),
			"Mute":  reflect.ValueOf(Mute),
			"Muted": reflect.ValueOf(Muted),

			// type definitions
			"Disk":  reflect.ValueOf((*Disk)(nil)),
			"HErr":  reflect.ValueOf((*HErr)(nil)),
			"HI":    reflect.ValueOf((*HI)(nil)),
			"HL":    reflect.ValueOf((*HL)(nil)),
			"HS":    reflect.ValueOf((*HS)(nil)),
			"Rect":  reflect.ValueOf((*Rect)(nil)),
			"Shape": reflect.ValueOf((*Shape)(nil)),

			// interface wrapper definitions
			"_Shape": reflect.ValueOf((*_verif_hostpkg_Shape)(nil)),
		},
	}
}

// _verif_hostpkg_Shape is an interface wrapper for Shape type
type _verif_hostpkg_Shape struct {
	IValue interface{}
	WArea  func() int
	WGrow  func(d int) int
}

func (W _verif_hostpkg_Shape) Area() int      { return W.WArea() }
func (W _verif_hostpkg_Shape) Grow(d int) int { return W.WGrow(d) }
