------------------------------- MODULE Bindings -------------------------------
(* C14 / C18 - what a faithful symbol table and a faithful interface wrapper   *)
(* are.                                                                         *)
(*                                                                             *)
(* Fact validation (DESIGN 2.1 F): the harness extracts one FACT per entry     *)
(* Symbols[key][name] = expr of the binding files (class of the bound          *)
(* expression, the identifier it references as resolved by go/types, the       *)
(* literal of a re-materialised constant) together with a description of the   *)
(* object the bound package REALLY declares under (key path, name), one fact   *)
(* per method of every interface wrapper, one fact per type-checked unit, and  *)
(* one EXPECT fact per object that has to be bound (C14: GOROOT/api/go1*.txt;  *)
(* C18: the exported objects of the generated input package).  The facts are   *)
(* read from an ndjson file; the "behaviour" is a single state.  Everything    *)
(* that decides whether a table is faithful is stated here, over those facts.  *)
EXTENDS Integers, Sequences, FiniteSets, TLC, Json

CONSTANTS FactsFile,   \* name of the ndjson file with the facts of this shard
          Mode         \* "stdlib" (C14: shipped tables) | "gen" (C18: a freshly generated file)

VARIABLE verdict   \* the single state: per invariant, the facts that violate it

All == ndJsonDeserialize(FactsFile)
Idx == DOMAIN All
Range(s) == {s[i] : i \in DOMAIN s}

EntryIdx  == {i \in Idx : All[i].kind = "entry"}
MethodIdx == {i \in Idx : All[i].kind = "method"}
UnitIdx   == {i \in Idx : All[i].kind = "unit"}
ExpectIdx == {i \in Idx : All[i].kind = "expect"}

-------------------------------------------------------------------------------
(* The documented exceptions.                                                  *)

\* stdlib/restricted.go + extract.go `restricted`: in the default (restricted) tables
\* these names are bound to a replacement declared by package stdlib itself.
RestrictedOverrides ==
    { [key |-> "os/os",   name |-> "Exit",        by |-> "osExit",        class |-> "func"],
      [key |-> "os/os",   name |-> "FindProcess", by |-> "osFindProcess", class |-> "func"],
      [key |-> "log/log", name |-> "Fatal",       by |-> "logFatal",      class |-> "func"],
      [key |-> "log/log", name |-> "Fatalf",      by |-> "logFatalf",     class |-> "func"],
      [key |-> "log/log", name |-> "Fatalln",     by |-> "logFatalln",    class |-> "func"],
      [key |-> "log/log", name |-> "New",         by |-> "logNew",        class |-> "func"],
      \* since the repair of F-C13-1 (91b7278): every way of obtaining a *log.Logger gives the wrapper
      [key |-> "log/log", name |-> "Default",     by |-> "logDefault",    class |-> "func"],
      [key |-> "log/slog/slog", name |-> "NewLogLogger", by |-> "slogNewLogLogger", class |-> "func"],
      [key |-> "log/log", name |-> "Logger",      by |-> "logLogger",     class |-> "type"] }

Override(e) == {o \in RestrictedOverrides : o.key = e.key /\ o.name = e.name}
\* the replacement applies to the restricted tables only; stdlib/unrestricted binds the originals
IsRestricted(e) == e.table \in {"stdlib", "gen"} /\ Override(e) # {}
OverrideOf(e) == CHOOSE o \in Override(e) : TRUE

\* unsafe.Add, Sizeof, Alignof, Offsetof are builtins: they have no value that could be
\* bound, stdlib/unsafe/unsafe.go binds local implementations under their names.
BuiltinShims == {"Add", "Sizeof", "Alignof", "Offsetof"}
IsShim(e) == e.table = "unsafe" /\ e.key = "unsafe/unsafe" /\ e.name \in BuiltinShims /\ e.real.class = "builtin"

\* GOOS/GOARCH pairs for which GOROOT/api records the platform-dependent API
\* (contexts of cmd/api, go1.23).  NoExtras/Complete are judged on these only.
ApiPlatforms ==
    { "linux/386", "linux/amd64", "linux/arm", "darwin/amd64", "darwin/arm64",
      "windows/amd64", "windows/386", "freebsd/386", "freebsd/amd64", "freebsd/arm",
      "freebsd/arm64", "freebsd/riscv64", "netbsd/386", "netbsd/amd64", "netbsd/arm",
      "netbsd/arm64", "openbsd/386", "openbsd/amd64" }

\* Hand-written tables (rel = 0) must be valid for the oldest supported release.
OldestRelease == 21
RelOf(e) == IF e.rel = 0 THEN OldestRelease ELSE e.rel

-------------------------------------------------------------------------------
(* Per-entry predicates.                                                        *)

\* the key is "<import path>/<package name>" of an importable package
KeyOK(e) == /\ e.keyPath # ""
            /\ e.key = e.keyPath \o "/" \o e.keyLast
            /\ e.keyPkg # "" /\ e.keyLast = e.keyPkg

\* NameIdentity: the bound expression references the object named `name` of the package
\* the key stands for, or the pair is a documented exception and then the replacement is
\* exactly the documented one.  (Constants bound by literal are identified by ConstExact.)
NameIdentityOK(e) ==
    IF e.under THEN e.form = "type" /\ e.refLocal
    ELSE IF e.form = "lit" THEN TRUE
    ELSE IF IsRestricted(e)
      THEN e.form \in {"value", "type"} /\ e.refLocal /\ e.refName = OverrideOf(e).by
    ELSE IF IsShim(e) THEN e.refLocal \/ e.form = "other"
    ELSE /\ e.form \in {"value", "addr", "type"}
         /\ ~e.refLocal
         /\ e.refPkg = e.keyPath
         /\ e.refName = e.name

LiteralKinds == {"int", "rune", "float", "string"}   \* what fixConst re-materialises

\* the class of the bound expression the real object calls for
WantForm(r) ==
    CASE r.class = "func"  -> "value"
      [] r.class = "var"   -> "addr"
      [] r.class = "const" -> IF r.untyped /\ r.ckind \in LiteralKinds THEN "lit" ELSE "value"
      [] r.class = "type"  -> "type"
      [] OTHER             -> "none"

\* ClassAgrees: the real object exists, is exported, is not generic, and is bound in the
\* way its class calls for (function/typed constant by value, type by nil pointer, ...).
ClassAgreesOK(e) ==
    IF e.under THEN TRUE                       \* wrapper entries: WrapperEntryOK
    ELSE IF IsShim(e) THEN TRUE
    ELSE /\ e.real.exists /\ e.real.exported /\ ~e.real.generic
         /\ e.form = WantForm(e.real)
         /\ (e.real.class = "type" => e.real.iface # "constraint")
         /\ (e.form # "lit" => e.refClass = (IF IsRestricted(e) THEN OverrideOf(e).class ELSE e.real.class))

\* VarsByAddress: variables, and only variables, are bound through their address
VarsByAddressOK(e) ==
    e.under \/ IsShim(e) \/ ((e.form = "addr") <=> (e.real.class = "var"))

\* Values that legitimately differ between the release a table targets and the installed
\* GOROOT the facts are resolved against (DESIGN C14 "not covered": the go1.21 tables are
\* checked against a newer GOROOT).  Go 1.21's syscall/net_fake.go (js/wasm, wasip1/wasm)
\* declared `const ( _ = iota; IPV6_V6ONLY; SOMAXCONN; SO_ERROR )`, Go 1.22 rewrote the file
\* (SOMAXCONN = 0x80, SO_ERROR = 2).  An entry listed here must carry exactly the value of
\* its own release; under a GOROOT of that release the first clause of ConstExact holds.
ReleaseDrift ==
    { [rel |-> 21, plat |-> p, key |-> "syscall/syscall", name |-> n[1], lit |-> n[2]] :
        p \in {"js/wasm", "wasip1/wasm"}, n \in {<<"SOMAXCONN", "2">>, <<"SO_ERROR", "3">>} }
Drifted(e) == [rel |-> e.rel, plat |-> e.plat, key |-> e.key, name |-> e.name, lit |-> e.lit] \in ReleaseDrift

TokOf(k) == CASE k \in {"int", "rune"} -> "INT" [] k = "float" -> "FLOAT" [] k = "string" -> "STRING" [] OTHER -> "?"

\* ConstExact: a re-materialised constant has exactly the value of the real constant.
\* (Until the extractor was repaired - commits ece5c48, 10871dd - a second clause admitted the
\* binary rounding fixConst used to print for non-dyadic floats, reported as finding F-C14-1;
\* such constants are now emitted as exact quotients and held to the same rule as all others.)
ConstExactOK(e) ==
    e.form = "lit" =>
      /\ e.real.class = "const" /\ e.real.untyped
      /\ e.tok = TokOf(e.real.ckind)
      /\ e.bound # ""
      /\ (e.bound = e.real.exact \/ Drifted(e))

Inexact(e) == e.form = "lit" /\ ConstExactOK(e) /\ e.bound # e.real.exact /\ ~Drifted(e)

\* An untyped rune constant is re-materialised with token INT (fixConst has no case for
\* runes): the value is exactly the same, which is all the property asks for; the loss of
\* the rune kind is noted in dev/C14-NOTES.md as an observation and is not checked.

\* EmissionAgrees (C18): the entry is what the generating specification (PkgGen.tla,
\* ExpectedEmission) predicts for the declaration of that name: same class of bound
\* expression, for a literal the same token and exact value, for a wrapper the same
\* method set.  want.em = "any": no model-level expectation to compare with.
FormOfEm(em) == CASE em = "value" -> "value" [] em = "address" -> "addr" [] em = "literal" -> "lit"
                  [] em = "type" -> "type" [] em = "wrapper" -> "type" [] OTHER -> "none"
EmissionAgreesOK(e) ==
    \/ e.want.em = "any"
    \/ IF e.under THEN e.want.em = "wrapper" /\ Range(e.wrapMethods) = Range(e.want.methods)
       ELSE /\ e.form = FormOfEm(e.want.em)
            /\ (e.want.em = "literal" =>
                  /\ e.tok \in ({e.want.tok} \cup (IF e.want.tok = "CHAR" THEN {"INT"} ELSE {}))   \* a rune may come back as INT
                  /\ \/ e.bound = e.want.exact
                     \/ (e.real.ckind = "float" /\ ~e.real.dyadic /\ e.lit = e.real.rounded))      \* Inexact

-------------------------------------------------------------------------------
(* Expectations: what has to be bound.                                          *)

\* <<package path, name>> the release r declares for platform p (expect facts carry the
\* first release that records the name and "any" or "goos/goarch")
ExpectNames(r, p) == {<<All[i].keyPath, All[i].name>> :
                        i \in {j \in ExpectIdx : All[j].rel <= r /\ All[j].plat \in {"any", p}
                                                 /\ All[j].emission # "skipped"}}
\* ... and that must be bound: not generic, not withdrawn (api/except.txt)
MustBind(r, p) == {<<All[i].keyPath, All[i].name>> :
                     i \in {j \in ExpectIdx : All[j].rel <= r /\ All[j].plat \in {"any", p}
                                              /\ ~All[j].generic /\ ~All[j].excepted
                                              /\ All[j].emission # "skipped"}}

Judged(plat) == Mode = "gen" \/ plat \in ApiPlatforms

\* Tables that together must be complete form a group <<release, platform, package>>: the
\* restricted and the unrestricted syscall tables of one release and platform are
\* complementary.  Hand-written tables (rel = 0) are partial by design.
GenIdx    == {i \in EntryIdx : All[i].rel # 0}
Groups    == {<<All[i].rel, All[i].plat, All[i].keyPath>> : i \in GenIdx}
RelPlats  == {<<g[1], g[2]>> : g \in Groups}
BoundSet  == {<<All[i].rel, All[i].plat, All[i].keyPath, All[i].name>> : i \in GenIdx}

ExpectNamesF == [g \in RelPlats |-> ExpectNames(g[1], g[2])]
MustBindF    == [g \in RelPlats |-> MustBind(g[1], g[2])]
ExpectOldest == [p \in {All[i].plat : i \in {j \in EntryIdx : All[j].rel = 0}} |-> ExpectNames(OldestRelease, p)]

\* NoExtras: every bound name is a name the release declares for that package
NoExtrasOK(e) ==
    (Judged(e.plat) /\ ~IsShim(e)) =>
        <<e.keyPath, e.base>> \in (IF e.rel = 0 THEN ExpectOldest[e.plat] ELSE ExpectNamesF[<<e.rel, e.plat>>])

\* Complete: every object that must be bound is bound (by one of the tables of its group)
Missing == UNION { {[rel |-> g[1], plat |-> g[2], pkg |-> n[1], name |-> n[2]] :
                        n \in {m \in MustBindF[g] : <<g[1], g[2], m[1]>> \in Groups
                                                     /\ <<g[1], g[2], m[1], m[2]>> \notin BoundSet}} :
                   g \in {h \in RelPlats : Judged(h[2])} }

-------------------------------------------------------------------------------
(* Interface wrappers.                                                          *)

WName(m) == "W" \o m

\* exported methods of the interface that the table's release already declares (an
\* interface may grow between releases: reflect.Type got CanSeq, OverflowInt, ... in go1.23;
\* ifaceSince[k] is the first release GOROOT/api records method k for, 0 if not recorded)
IfaceNow(e) == {e.ifaceMethods[k] : k \in {j \in DOMAIN e.ifaceMethods : e.ifaceSince[j] <= RelOf(e)}}

\* the entry "_X" names a struct of the binding package that wraps interface X of the
\* bound package: first field IValue, then one field W<M> per exported method M of the
\* complete method set, and a method per such M
WrapperEntryOK(e) ==
    e.under =>
      /\ e.form = "type" /\ e.refLocal
      /\ e.real.exists /\ e.real.class = "type" /\ ~e.real.generic
      /\ e.real.iface \in {"methods", "empty"}
      /\ Len(e.fields) = 1 + Cardinality(IfaceNow(e))
      /\ e.fields[1] = "IValue"
      /\ {e.fields[k] : k \in 2..Len(e.fields)} = {WName(m) : m \in IfaceNow(e)}
      /\ Range(e.wrapMethods) = IfaceNow(e)

\* the wrapper type implements its interface (go/types' verdict; an interface with
\* unexported methods cannot be implemented outside its package)
ImplementsOK(e) == (e.under /\ e.ifaceUnexported = 0 /\ IfaceNow(e) = Range(e.ifaceMethods)) => e.implements = "yes"

\* every bound interface type has its wrapper entry in the same table, and vice versa
TypePairs == {<<All[i].file, All[i].key, All[i].name>> :
                i \in {j \in EntryIdx : ~All[j].under /\ All[j].form = "type"
                                         /\ All[j].real.iface \in {"methods", "empty"} /\ ~IsRestricted(All[j])}}
WrapPairs == {<<All[i].file, All[i].key, All[i].base>> : i \in {j \in EntryIdx : All[j].under}}
WrapperMismatch == {[file |-> t[1], key |-> t[2], name |-> t[3]] :
                       t \in (TypePairs \ WrapPairs) \cup (WrapPairs \ TypePairs)}

\* WrapperForwards: method M of the wrapper calls field W<M> of its receiver with the
\* method's parameters in order (spread iff variadic), returns the result iff there is
\* one; field, method and interface method have the same signature.
MethodOK(m) ==
  (m.inIface /\ ~m.inWrapper /\ m.since > RelOf(m)) \/    \* declared by a later release only
    /\ m.inIface /\ m.inWrapper
    /\ m.callee = WName(m.method) /\ m.onRecv
    /\ m.ifaceSig # "" /\ m.fieldSig = m.ifaceSig /\ m.methSig = m.ifaceSig
    /\ m.args = m.params
    /\ \A k \in DOMAIN m.params : m.params[k] # "" /\ m.params[k] # "_"
    /\ m.spread = m.variadic
    /\ m.hasReturn = m.hasResults
    /\ m.guard \in (IF m.method = "String" THEN {"none", "nilString"} ELSE {"none"})

UnitOK(u) == u.typeErrors = <<>>

-------------------------------------------------------------------------------
(* Violators, by invariant.  The harness reports them; an empty set everywhere  *)
(* is what the named invariants below assert.                                   *)

BadE(P(_)) == {All[i].id : i \in {j \in EntryIdx : ~P(All[j])}}

BadKey            == BadE(KeyOK)
BadNameIdentity   == BadE(NameIdentityOK)
BadClassAgrees    == BadE(ClassAgreesOK)
BadVarsByAddress  == BadE(VarsByAddressOK)
BadConstExact     == BadE(ConstExactOK)
BadNoExtras       == BadE(NoExtrasOK)
BadEmission       == BadE(EmissionAgreesOK)
BadWrapperEntry   == BadE(WrapperEntryOK)
BadImplements     == BadE(ImplementsOK)
BadMethod         == {All[i].id : i \in {j \in MethodIdx : ~MethodOK(All[j])}}
BadUnit           == {All[i].id : i \in {j \in UnitIdx : ~UnitOK(All[j])}}
InexactSet        == {All[i].id : i \in {j \in EntryIdx : Inexact(All[j])}}

Verdict ==
    [ entries |-> Cardinality(EntryIdx), methods |-> Cardinality(MethodIdx),
      units |-> Cardinality(UnitIdx), expects |-> Cardinality(ExpectIdx),
      groups |-> Cardinality(Groups), judgedGroups |-> Cardinality({h \in Groups : Judged(h[2])}),
      KeyWellFormed |-> BadKey, NameIdentity |-> BadNameIdentity, ClassAgrees |-> BadClassAgrees,
      VarsByAddress |-> BadVarsByAddress, ConstExact |-> BadConstExact, NoExtras |-> BadNoExtras, EmissionAgrees |-> BadEmission,
      Complete |-> Missing, WrapperEntry |-> BadWrapperEntry, WrapperMismatch |-> WrapperMismatch,
      WrapperForwards |-> BadMethod, WrapperImplements |-> BadImplements, Compiles |-> BadUnit, Inexact |-> InexactSet ]

\* The facts are read and evaluated once, when the single state is built.
Init == verdict = Verdict
Next == UNCHANGED verdict
Spec == Init /\ [][Next]_verdict

\* The invariants of the property, on that state.
KeyWellFormed   == verdict.KeyWellFormed = {}
NameIdentity    == verdict.NameIdentity = {}
ClassAgrees     == verdict.ClassAgrees = {}
VarsByAddress   == verdict.VarsByAddress = {}
ConstExact      == verdict.ConstExact = {}
NoExtras        == verdict.NoExtras = {}
EmissionAgrees  == verdict.EmissionAgrees = {}
Complete        == verdict.Complete = {}
WrapperPresent  == verdict.WrapperEntry = {} /\ verdict.WrapperMismatch = {}
WrapperForwards == verdict.WrapperForwards = {} /\ verdict.WrapperImplements = {}
Compiles        == verdict.Compiles = {}

Emit == PrintT(<<"BEH", ToJson(verdict)>>)
===============================================================================
