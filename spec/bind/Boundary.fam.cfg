\* all exhaustive families at constructor depth 1 (the harness generates the same cfg cut into slices: Sel, Fams)
SPECIFICATION SpecFam
CONSTANTS Crossing = "share" Depth = 1 Sel = {0, 1, 2, 3, 4} Fams = {"P", "R", "V", "C", "M", "G"}
INVARIANTS WellFormed StackDiscipline ByValueNoAlias MutationsInReach SideIndependence SmallBigAgree Emit
