\* negative control: parameter cells alias the caller's variables. TLC must report ByValueNoAlias violated.
SPECIFICATION SpecFam
CONSTANTS Crossing = "alias" Depth = 1 Sel = {1} Fams = {"P"}
INVARIANTS WellFormed StackDiscipline MutationsInReach SmallBigAgree ByValueNoAlias
