\* negative control: a boundary that deep-copies what it passes. TLC must report SideIndependence violated.
SPECIFICATION SpecFam
CONSTANTS Crossing = "copy" Depth = 1 Sel = {1} Fams = {"P"}
INVARIANTS WellFormed StackDiscipline MutationsInReach SmallBigAgree SideIndependence
