\* seeded simulation of whole signatures: tlc -simulate num=N -depth 400 -seed S -workers 1
SPECIFICATION SpecSim
CONSTANTS Crossing = "share" Depth = 2 Sel = {0} Fams = {}
INVARIANTS WellFormed StackDiscipline ByValueNoAlias MutationsInReach SideIndependence SmallBigAgree Emit
