SPECIFICATION Spec
CONSTANTS Callers = {1, 2, 3} NArgs = 2 PerCall = FALSE
INVARIANTS ArgsIntact ResultIntact
