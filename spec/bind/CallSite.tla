------------------------------ MODULE CallSite ------------------------------
(* C07 - one call site of a host function executed by several goroutines.      *)
(*                                                                             *)
(* Boundary.tla states what one call carries across the boundary.  A call site *)
(* of a script is ONE piece of generated code, executed by every goroutine     *)
(* that reaches it (goroutines started by the script with go, or by the host   *)
(* that uses a script function natively, as net/http does with an interpreted  *)
(* handler).  The property is per call: the host function receives exactly the *)
(* arguments ITS caller passed, and the caller gets the results computed from  *)
(* them, whatever the other callers do meanwhile.                               *)
(*                                                                             *)
(* A call is three kinds of steps: the argument values are read from the       *)
(* caller's frame into the argument vector one at a time (Fill), the callee is *)
(* entered with the vector (Enter: what reflect.Value.Call copies), the result *)
(* comes back (Return).  PerCall = TRUE: every execution has its own vector    *)
(* (the code as it is: in := make([]reflect.Value, l) inside the closure);     *)
(* FALSE: one vector per call site (a plausible "avoid one allocation"         *)
(* optimisation), which TLC refutes with an interleaving of two callers.       *)
(* Checked as a design; the family of scenarios the harness runs on the real   *)
(* interpreter is enumerated below (Scenarios), and verdicts come only from    *)
(* what the host functions observe (DESIGN 2.3).                               *)
EXTENDS Naturals, Sequences, FiniteSets, TLC, Json

CONSTANTS Callers,   \* goroutines executing the call site
          NArgs,     \* parameters of the host function
          PerCall    \* TRUE: one argument vector per execution; FALSE: one per call site

VARIABLES pc,        \* caller -> "idle" | "fill" | "in" | "done"
          k,         \* caller -> number of vector elements written so far
          vec,       \* owner -> argument vector (owner = caller if PerCall, "site" otherwise)
          got,       \* caller -> what the host function received for that caller's call
          res        \* caller -> result handed back (the sum of what was received)
vars == <<pc, k, vec, got, res>>

Owner(i) == IF PerCall THEN i ELSE "site"
Owners   == IF PerCall THEN Callers ELSE {"site"}
\* caller i passes i, i, ..., i (callers are distinct numbers: a mix of two calls is visible)
Passed(i) == [a \in 1..NArgs |-> i]
RECURSIVE Sum(_)
Sum(s) == IF s = <<>> THEN 0 ELSE Head(s) + Sum(Tail(s))

Init == /\ pc = [i \in Callers |-> "idle"] /\ k = [i \in Callers |-> 0]
        /\ vec = [o \in Owners |-> [a \in 1..NArgs |-> 0]]
        /\ got = [i \in Callers |-> <<>>] /\ res = [i \in Callers |-> 0]

Start(i) == /\ pc[i] = "idle" /\ pc' = [pc EXCEPT ![i] = "fill"] /\ k' = [k EXCEPT ![i] = 0]
            /\ UNCHANGED <<vec, got, res>>
Fill(i)  == /\ pc[i] = "fill" /\ k[i] < NArgs
            /\ vec' = [vec EXCEPT ![Owner(i)][k[i] + 1] = Passed(i)[k[i] + 1]]
            /\ k' = [k EXCEPT ![i] = @ + 1]
            /\ UNCHANGED <<pc, got, res>>
Enter(i) == /\ pc[i] = "fill" /\ k[i] = NArgs
            /\ got' = [got EXCEPT ![i] = vec[Owner(i)]]
            /\ pc' = [pc EXCEPT ![i] = "in"]
            /\ UNCHANGED <<k, vec, res>>
Return(i) == /\ pc[i] = "in"
             /\ res' = [res EXCEPT ![i] = Sum(got[i])]
             /\ pc' = [pc EXCEPT ![i] = "done"]
             /\ UNCHANGED <<k, vec, got>>
Next == \E i \in Callers : Start(i) \/ Fill(i) \/ Enter(i) \/ Return(i)
Spec == Init /\ [][Next]_vars

\* the host function receives exactly the arguments the script passed ...
ArgsIntact   == \A i \in Callers : pc[i] \in {"in", "done"} => got[i] = Passed(i)
\* ... and its result is seen intact by the caller
ResultIntact == \A i \in Callers : pc[i] = "done" => res[i] = NArgs * i

-------------------------------------------------------------------------------
(* The family run on the real interpreter: who the concurrent callers are, the *)
(* syntactic form of the call (each is a separate code path of callBin), the   *)
(* number of parameters, and whether the function is variadic.                 *)
Who   == {"host-goroutines", "script-goroutines"}
Forms == {"plain", "condition", "assign2", "return", "nested"}
Scenarios == [who : Who, form : Forms, nargs : 1..4, variadic : BOOLEAN]
ASSUME PrintT(<<"BEH", ToJson([scenarios |-> Scenarios])>>)
===============================================================================
