SPECIFICATION SpecAll
INVARIANTS TypeOK ExpectationWellFormed ExportedBound Emit
