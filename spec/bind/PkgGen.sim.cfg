SPECIFICATION SpecSim
INVARIANTS TypeOK ExpectationWellFormed ExportedBound Emit
