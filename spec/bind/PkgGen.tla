------------------------------- MODULE PkgGen --------------------------------
(* C18 - the packages given to extract.                                         *)
(*                                                                             *)
(* A package is a set of declaration KINDS (each kind contributes a fixed group *)
(* of declarations with names of its own, so any set of kinds is a well-formed  *)
(* package) and a package name.  For every exported or unexported name a kind   *)
(* declares, Decls states the EXPECTED EMISSION of extract:                     *)
(*   value    reflect.ValueOf(pkg.Name)            functions, typed constants,  *)
(*                                                 untyped bool/complex         *)
(*   address  reflect.ValueOf(&pkg.Name).Elem()    variables                    *)
(*   literal  constant.MakeFromLiteral(exact,tok)  untyped int/rune/float/string*)
(*   type     reflect.ValueOf of a nil *pkg.Name   non-generic types            *)
(*   wrapper  type + "_Name" wrapper with the exported methods of the complete  *)
(*            method set                           interfaces that are types    *)
(*   skipped  nothing                              generic, constraint-only,    *)
(*                                                 unexported                   *)
(* The harness renders the package (one Go source text per kind), runs the real *)
(* extract.Extractor on it and validates the generated file against            *)
(* Bindings.tla with these expectations.                                        *)
EXTENDS Integers, Sequences, FiniteSets, TLC, Json, Randomization

VARIABLES pkg,   \* [kinds : SUBSET Kinds, pname : STRING]
          n      \* step counter (simulation)

Emissions == {"value", "address", "literal", "type", "wrapper", "skipped"}

V(nm)        == [name |-> nm, em |-> "value",   tok |-> "", exact |-> "", methods |-> {}]
A(nm)        == [name |-> nm, em |-> "address", tok |-> "", exact |-> "", methods |-> {}]
T(nm)        == [name |-> nm, em |-> "type",    tok |-> "", exact |-> "", methods |-> {}]
S(nm)        == [name |-> nm, em |-> "skipped", tok |-> "", exact |-> "", methods |-> {}]
W(nm, ms)    == [name |-> nm, em |-> "wrapper", tok |-> "", exact |-> "", methods |-> ms]
\* exact is the canonical exact value: integers in decimal, floats as a reduced quotient
\* of integers, strings as their characters (the renderer quotes them)
L(nm, tk, x) == [name |-> nm, em |-> "literal", tok |-> tk, exact |-> x, methods |-> {}]

Decls ==
  [ uintSmall        |-> {L("UintSmall", "INT", "42")},
    uintHuge         |-> {L("UintHuge", "INT", "1267650600228229401496703205376")},          \* 1 << 100
    uintNeg          |-> {L("UintNeg", "INT", "-7")},
    ufloatDyadic     |-> {L("UfloatDyadic", "FLOAT", "3/8")},                                \* 0.375
    ufloatWhole      |-> {L("UfloatWhole", "FLOAT", "2")},                                   \* 2.0
    ufloatBig        |-> {L("UfloatBig", "FLOAT", "10000000000000000000000000000000000000000000000000000000000000000000000000000000000000000000000000000")},  \* 1e100
    ufloatNonDyadic  |-> {L("UfloatNonDyadic", "FLOAT", "1/10")},                            \* 0.1
    urune            |-> {L("Urune", "CHAR", "120")},                                        \* 'x'
    ustring          |-> {L("Ustring", "STRING", "a\"b\\c\td")},
    ustringLong      |-> {L("UstringLong", "STRING", "the quick brown fox jumps over the lazy dog, then does it again, and again, until \"more than\" seventy-two characters are used")},   \* longer than the 72 characters constant.Value.String() keeps
    ufloatTiny       |-> {L("UfloatTiny", "FLOAT", "1/1267650600228229401496703205376")},    \* 1.0 / (1 << 100)
    ubool            |-> {V("Ubool")},
    ucomplex         |-> {V("Ucomplex")},
    typedConst       |-> {V("TypedInt8"), V("TypedStr"), V("TypedFloat"), T("MyStr")},
    typedEnum        |-> {T("Color"), V("Red"), V("Green"), V("Blue")},
    varPlain         |-> {A("VarInt"), A("VarSlice"), A("VarStruct")},
    varFunc          |-> {A("VarFunc")},
    varIface         |-> {A("VarIface")},
    funcPlain        |-> {V("FuncPlain")},
    funcVariadic     |-> {V("FuncVariadic")},
    funcNamedRes     |-> {V("FuncNamedRes")},
    funcFuncParam    |-> {V("FuncFuncParam")},
    genericFunc      |-> {S("GenericFunc")},
    genericType      |-> {S("GenericType")},
    structType       |-> {T("Struct")},
    ifaceSimple      |-> {W("IfaceSimple", {"M"})},
    ifaceEmbed       |-> {W("IfaceEmbedBase", {"Base"}), W("IfaceEmbed", {"Base", "Extra"})},
    ifaceEmbedExt    |-> {W("IfaceEmbedExt", {"Read", "Close"})},
    \* inherited methods whose signatures mention a package the wrapped package does not import itself
    ifaceEmbedThird  |-> {W("IfaceConn", {"Read", "Write", "Close", "LocalAddr", "RemoteAddr", "SetDeadline", "SetReadDeadline", "SetWriteDeadline", "ID"})},
    ifaceEmbedInfo   |-> {W("IfaceInfo", {"Name", "Size", "Mode", "ModTime", "IsDir", "Sys", "Extra"})},
    ifaceUnexported  |-> {W("IfaceUnexp", {"Pub"})},
    ifaceVariadic    |-> {W("IfaceVariadic", {"Logf", "Sum"})},
    ifaceUnnamed     |-> {W("IfaceUnnamed", {"Do", "One"})},
    ifaceLocalType   |-> {T("LocalT"), W("IfaceLocal", {"Get", "Set", "All"})},
    ifaceExtSig      |-> {W("IfaceExtSig", {"Copy"})},
    ifaceEmpty       |-> {W("IfaceEmpty", {})},
    ifaceString      |-> {W("IfaceStringer", {"String"})},
    ifaceFuncTypes   |-> {W("IfaceFuncTypes", {"Handler", "Visit", "Multi", "Chans"})},
    constraintOnly   |-> {S("ConstraintOnly")},
    constraintMethods|-> {S("ConstraintMethods")},
    ifaceBlankParam  |-> {W("IfaceBlank", {"Do"})},
    ifaceParamW      |-> {W("IfaceParamW", {"Resize"})},
    aliasLocal       |-> {T("AliasTarget"), T("AliasLocal")},
    aliasExtIface    |-> {W("AliasExtIface", {"Write"})},
    aliasGenericInst |-> {S("GenericBox"), T("AliasInst")},
    unexported       |-> {S("unexpConst"), S("unexpVar"), S("unexpFunc"), S("unexpType"), S("unexpIface")} ]

Kinds == DOMAIN Decls
\* a fixed order of the kinds: point (x, y) of the 7 x 7 grid is KindSeq[7x + y + 1]
KindSeq == << "uintSmall", "uintHuge", "uintNeg", "ufloatDyadic", "ufloatWhole", "ufloatBig", "ufloatNonDyadic",
              "urune", "ustring", "ustringLong", "ufloatTiny", "ubool", "ucomplex", "typedConst", "typedEnum", "varPlain",
              "varFunc", "varIface", "funcPlain", "funcVariadic", "funcNamedRes", "funcFuncParam", "genericFunc",
              "genericType", "structType", "ifaceSimple", "ifaceEmbed", "ifaceEmbedExt", "ifaceEmbedThird", "ifaceEmbedInfo", "ifaceUnexported", "ifaceVariadic",
              "ifaceUnnamed", "ifaceLocalType", "ifaceExtSig", "ifaceEmpty", "ifaceString", "ifaceFuncTypes", "constraintOnly",
              "constraintMethods", "ifaceBlankParam", "ifaceParamW", "aliasLocal", "aliasExtIface", "aliasGenericInst", "unexported" >>

\* Package names.  "token" is the name of one of the packages the generated file itself
\* imports (go/token) whenever an untyped constant is re-materialised.
PkgNames == {"pg", "token"}

-------------------------------------------------------------------------------
(* Known findings: constructs that break the generated file (see               *)
(* known-findings.json).  The random tier leaves them out; the exhaustive tier  *)
(* keeps each as a pinned singleton so that the finding is still exercised.     *)
Excluded_F_C18_3 == {"constraintMethods"}   \* constraint interface that also has methods
Excluded_F_C18_4 == {"ifaceBlankParam"}     \* interface method with a blank parameter name
Excluded_F_C18_5 == {"ifaceParamW"}         \* interface method with a parameter named W
\* all three were repaired (0b1bc87, fcc3f5f): nothing is left out of the random tier any more
ExcludedKinds == {}
\* F-C18-6: package named like an import of the generated file (pname = "token")
SimPkgNames == {"pg", "token"}     \* F-C18-6 repaired (3773acb)
\* F-C18-7: a package all of whose bound declarations are re-materialised literals (the
\* generated file then imports the package without using it).  Such a set of kinds is
\* completed with a function outside the pinned singletons.
LiteralKinds == {k \in DOMAIN Decls : \A d \in Decls[k] : d.em \in {"literal", "skipped"}}
\* F-C18-8: the alias of an instantiated generic type is expected but not emitted, so it
\* does not make the generated file use the package either
NotEmitted_F_C18_8 == {"aliasGenericInst"}
Excluded_F_C18_7(ks) == ks \subseteq (LiteralKinds \cup NotEmitted_F_C18_8)
Fix(ks) == ks      \* F-C18-7 and F-C18-8 repaired (778cb68, 078e3e9): literal-only packages are generated as they are

-------------------------------------------------------------------------------
(* Pairwise-complete enumeration: the 56 lines of the affine plane of order 7   *)
(* cover every pair of grid points exactly once.                               *)
At(x, y) == LET i == 7 * x + y + 1 IN IF i <= Len(KindSeq) THEN {KindSeq[i]} ELSE {}
Line(m, b) == UNION {At(x, (m * x + b) % 7) : x \in 0..6}
Vert(c)    == UNION {At(c, y) : y \in 0..6}
Lines == {Line(m, b) : m \in 0..6, b \in 0..6} \cup {Vert(c) : c \in 0..6}

Clean(ks) == ks \ ExcludedKinds
PairPackages == {Fix(Clean(l)) : l \in Lines \ {{}}}
Singletons   == {{k} : k \in Kinds}
Everything   == Clean(Kinds)

ExhaustivePackages ==
    {[kinds |-> ks, pname |-> "pg"] : ks \in PairPackages \cup Singletons \cup {Everything}}
    \cup {[kinds |-> ks, pname |-> "token"] : ks \in {{"uintSmall", "funcPlain"}, {"funcPlain"}, {"ifaceSimple", "ustring"}}}

ASSUME KindSeqIsKinds == {KindSeq[i] : i \in DOMAIN KindSeq} = Kinds /\ Len(KindSeq) = Cardinality(Kinds)
ASSUME PairwiseComplete ==
    \A k1, k2 \in Clean(Kinds) : \E p \in PairPackages : {k1, k2} \subseteq p
ASSUME NamesDistinct ==
    \A k1, k2 \in Kinds : k1 # k2 => {d.name : d \in Decls[k1]} \cap {d.name : d \in Decls[k2]} = {}

-------------------------------------------------------------------------------
ExpectedEmission(p) == UNION {Decls[k] : k \in p.kinds}

\* what the property promises for the package, as predicted here
Bound(p)    == {d.name : d \in {e \in ExpectedEmission(p) : e.em # "skipped"}}
Wrapped(p)  == {d.name : d \in {e \in ExpectedEmission(p) : e.em = "wrapper"}}

TypeOK == /\ pkg.kinds \subseteq Kinds /\ pkg.kinds # {}
          /\ pkg.pname \in PkgNames
ExpectationWellFormed ==
    \A d \in ExpectedEmission(pkg) :
        /\ d.em \in Emissions
        /\ (d.em = "literal") <=> (d.tok \in {"INT", "CHAR", "FLOAT", "STRING"})
        /\ (d.em = "literal") <=> (d.exact # "")
        /\ (d.methods # {}) => d.em = "wrapper"
\* every exported, non-generic declaration is bound; nothing unexported is
ExportedBound ==
    \A d \in ExpectedEmission(pkg) : (d.em = "skipped") => d.name \notin Bound(pkg)

Emit == PrintT(<<"BEH", ToJson([kinds |-> pkg.kinds, pname |-> pkg.pname, expect |-> ExpectedEmission(pkg)])>>)

-------------------------------------------------------------------------------
InitAll == pkg \in ExhaustivePackages /\ n = 0
NextAll == UNCHANGED <<pkg, n>>
SpecAll == InitAll /\ [][NextAll]_<<pkg, n>>

\* seeded tier: a fresh random package per step (the dummy parameter keeps TLC from
\* caching the draw)
RandPkg(z) ==
    LET size == RandomElement(2..(12 + 0 * z))
    IN [kinds |-> Fix(RandomSubset(size, Clean(Kinds))), pname |-> RandomElement(SimPkgNames)]
InitSim == pkg = RandPkg(0) /\ n = 0
NextSim == pkg' = RandPkg(n) /\ n' = n + 1
SpecSim == InitSim /\ [][NextSim]_<<pkg, n>>
===============================================================================
