SPECIFICATION Spec
CONSTANTS K = 3 Discipline = "fresh"
INVARIANTS RetainedIntact
