SPECIFICATION Spec
CONSTANTS K = 3 Discipline = "pooled"
INVARIANTS RetainedIntact
