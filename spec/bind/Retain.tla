------------------------------- MODULE Retain -------------------------------
(* C07 - what a script function called natively hands back stays what it was.  *)
(*                                                                             *)
(* Boundary.tla states what ONE call carries across the boundary.  A function  *)
(* obtained from the interpreter is called many times by its host, and a       *)
(* result may REFER to storage of the activation that produced it: a slice of  *)
(* an array parameter (a[1:], r.Vals[:]), the address of a by-value parameter  *)
(* or receiver (&c, a method value c.get bound to the copy c).  In Go every    *)
(* activation has its own parameters: such a result keeps designating the      *)
(* values of ITS call, whatever is called afterwards - inside the script and   *)
(* through the native function value alike.                                    *)
(*                                                                             *)
(* An activation is two steps: Enter (the parameter cell is taken and the      *)
(* argument copied into it) and Leave (the result, a reference to that cell,   *)
(* is handed back).  Discipline = "fresh": every activation takes a new cell   *)
(* (the code as it is: newFrame allocates the locals of each call);            *)
(* "pooled": the cells of finished activations are reused (a plausible         *)
(* allocation optimisation of the native-call wrappers), which TLC refutes     *)
(* with two calls.  Nested activations (the function calls itself through a    *)
(* host callback before it returns) are part of the model: a pool that gives   *)
(* distinct cells to nested calls is still refuted by two calls in sequence.   *)
(* Checked as a design; the family of scenarios run on the real interpreter    *)
(* is enumerated below, and verdicts come only from the values read through    *)
(* the retained results after the last call (DESIGN 2.3).                      *)
EXTENDS Naturals, Sequences, FiniteSets, TLC, Json

CONSTANTS K,           \* native calls made by the host
          Discipline   \* "fresh" | "pooled"

VARIABLES heap,        \* cell -> value held (0: never written)
          next,        \* next cell never used so far
          free,        \* cells given back by finished activations (pooled discipline)
          stack,       \* <<cell, call number>> of the activations in progress, innermost last
          started,     \* calls entered so far
          results      \* call number -> cell its result refers to (0: not returned yet)
vars == <<heap, next, free, stack, started, results>>

Cells  == 1..(K + 1)
Arg(i) == 10 * i              \* call i passes a value no other call passes

Init == /\ heap = [c \in Cells |-> 0] /\ next = 1 /\ free = {} /\ stack = <<>>
        /\ started = 0 /\ results = [i \in 1..K |-> 0]

Enter == /\ started < K /\ Len(stack) < 2          \* at most one nested activation
         /\ \E c \in (IF Discipline = "pooled" /\ free # {} THEN free ELSE {next}) :
               /\ heap' = [heap EXCEPT ![c] = Arg(started + 1)]
               /\ free' = free \ {c}
               /\ next' = IF c = next THEN next + 1 ELSE next
               /\ stack' = Append(stack, <<c, started + 1>>)
         /\ started' = started + 1
         /\ UNCHANGED results
Leave == /\ stack # <<>>
         /\ LET c == stack[Len(stack)][1] IN
              /\ results' = [results EXCEPT ![stack[Len(stack)][2]] = c]
              /\ free' = IF Discipline = "pooled" THEN free \cup {c} ELSE free
         /\ stack' = SubSeq(stack, 1, Len(stack) - 1)
         /\ UNCHANGED <<heap, next, started>>
Next == Enter \/ Leave
Spec == Init /\ [][Next]_vars

\* every retained result designates the argument of its own call, at every moment after it was returned
RetainedIntact == \A i \in 1..K : results[i] # 0 => heap[results[i]] = Arg(i)

-------------------------------------------------------------------------------
(* The family run on the real interpreter: what the result refers to, how the  *)
(* host came by the function, and how many calls it makes before it looks.     *)
Forms == {"slice-of-array-param", "slice-of-field-array-param", "address-of-param",
          "method-value-on-param", "pointer-method-result-on-param", "closure-over-param"}
Who   == {"eval-value", "function-literal", "host-callback", "nested-callback"}
Scenarios == [form : Forms, who : Who, k : 2..3]
ASSUME PrintT(<<"BEH", ToJson([scenarios |-> Scenarios])>>)
===============================================================================
