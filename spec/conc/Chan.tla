-------------------------------- MODULE Chan --------------------------------
(* Goroutines, channels, select, sync.WaitGroup and sync.Mutex as Go           *)
(* prescribes them, as an abstract machine over small programs (C08).          *)
(*                                                                             *)
(* A PROCESS is one goroutine: a function name, a program counter and ITS OWN  *)
(* locals (`Go(f, args)` creates a process whose locals hold copies of the     *)
(* arguments and nothing else).  Processes communicate through channels whose  *)
(* identities travel as values, through named WaitGroups and Mutexes and       *)
(* through named package-level variables (per interpreter `ip`).               *)
(*                                                                             *)
(* Channels: `cap`, `buf`, `closed`.  The waiting senders / receivers of an    *)
(* unbuffered channel are DERIVED from the program counters (SendOffers,       *)
(* RecvTargets): a synchronous transfer is the joint action Rendezvous.        *)
(*                                                                             *)
(* SelMode selects how a select statement obtains its case vector:             *)
(*   "atomic"   property level: the cases are the statement's operands         *)
(*              evaluated in the executing process (what Go prescribes);       *)
(*   "private"  mechanism level: the vector is filled entry by entry and then  *)
(*              handed to the runtime; one vector per EXECUTION;               *)
(*   "shared"   mechanism level, interp/run.go _select as it is: one vector    *)
(*              per STATEMENT, shared by every goroutine executing it.         *)
EXTENDS Templates, Json

CONSTANTS SelMode, MaxProcs, MaxChans, MaxSel, MaxCases

Prog == TProg          \* [function name -> sequence of instructions]
Params == TParams      \* [function name -> sequence of parameter names]
Vars == TVars          \* every local variable name
Starts == TStarts      \* set of instances [fn |-> main function, args |-> sequence of values, ...]
HostNames == THost     \* names of WaitGroups living in the host (not in an interpreter)
IPs == TIPs
WgNames == TWg
MuNames == TMu
GlobNames == TGlob

VARIABLES inst,    \* the instance being run (constant along a behaviour)
          procs,   \* sequence of processes
          chans,   \* sequence of channels
          wgs,     \* <<ip, name>> -> counter
          mus,     \* <<ip, name>> -> holder (0 = unlocked)
          glob,    \* <<ip, name>> -> value
          out,     \* sequence of printed lines (each a sequence of integers)
          selvec,  \* key -> case vector (mechanism modes)
          fault,   \* "" or the run-time panic that stopped the program
          cells,   \* heap objects behind pointers, maps, slices (one integer each)
          round    \* simulation only: index into PickSeq of the instance being run
vars == <<inst, procs, chans, wgs, mus, glob, out, selvec, fault, cells, round>>

ChanBase == 1000
CellBase == 2000                     \* values above it are references to heap cells
IsChan(v) == v > ChanBase /\ v < CellBase
IsRef(v) == v > ChanBase             \* a channel or a reference: what Isolation tracks
Cx(v) == v - ChanBase                \* channel value -> index into chans

\* ---------------------------------------------------------------- expressions
RECURSIVE Eval(_, _)
Eval(e, l) ==
    CASE e[1] = "c"   -> e[2]
      [] e[1] = "v"   -> l[e[2]]
      [] e[1] = "add" -> Eval(e[2], l) + Eval(e[3], l)
      [] e[1] = "mul" -> Eval(e[2], l) * Eval(e[3], l)
      [] e[1] = "le"  -> IF Eval(e[2], l) <= Eval(e[3], l) THEN 1 ELSE 0
      [] e[1] = "eq"  -> IF Eval(e[2], l) = Eval(e[3], l) THEN 1 ELSE 0
      [] e[1] = "odd" -> Eval(e[2], l) % 2
      \* call of a function VALUE: the value 1 denotes x*2+1, the value 2 denotes x+50
      [] e[1] = "app" -> IF Eval(e[2], l) = 1 THEN Eval(e[3], l) * 2 + 1 ELSE Eval(e[3], l) + 50

EvalSeq(es, l) == [i \in 1..Len(es) |-> Eval(es[i], l)]

\* ------------------------------------------------------------------ processes
PIDs == 1..Len(procs)
Running(p) == p \in PIDs /\ procs[p].st = "run"
Ins(p) == Prog[procs[p].fn][procs[p].pc]
Op(p) == Ins(p)[1]
Loc(p) == procs[p].loc
NS(p, name) == <<IF name \in HostNames THEN 0 ELSE procs[p].ip, name>>

NewProc(fn, args, ip) ==
    [fn |-> fn, pc |-> 1, st |-> "run", ip |-> ip, sf |-> 0,
     loc |-> [v \in Vars |-> IF \E i \in 1..Len(Params[fn]) : Params[fn][i] = v
                             THEN args[CHOOSE i \in 1..Len(Params[fn]) : Params[fn][i] = v]
                             ELSE 0],
     \* Isolation bookkeeping: the channels the process was GIVEN (arguments, or
     \* made by itself) and the channels it actually operated on
     given |-> {args[i] : i \in {j \in 1..Len(args) : IsRef(args[j])}},
     touched |-> {},
     held |-> {}]          \* mutexes locked and not yet unlocked by this process

Goto(p, t) == [procs EXCEPT ![p].pc = t]
Step(p) == Goto(p, procs[p].pc + 1)
SetL(ps, p, x, v) == IF x = "_" THEN ps ELSE [ps EXCEPT ![p].loc[x] = v]
Touch(ps, p, c) == [ps EXCEPT ![p].touched = @ \cup {c}]

Terminal == \A p \in PIDs : procs[p].st = "done"
Stopped == fault # ""

Wgs0 == [k \in (IPs \X WgNames) |-> 0]
Mus0 == [k \in (IPs \X MuNames) |-> 0]
Glob0 == [k \in (IPs \X GlobNames) |-> 0]
Selvec0 == [k \in ((0 - MaxSel)..(0 - 1)) \cup (1..MaxProcs) |-> [i \in 1..MaxCases |-> 0]]

Init ==
    /\ inst \in Starts
    /\ procs = <<NewProc(inst.fn, inst.args, 0)>>
    /\ chans = <<>> /\ wgs = Wgs0 /\ mus = Mus0 /\ glob = Glob0
    /\ out = <<>> /\ selvec = Selvec0 /\ fault = "" /\ cells = <<>> /\ round = 0

\* ------------------------------------------------------- steps local to a process
\* set/jmp/jz/ret touch nothing but the process itself; make and go create a fresh
\* channel / process that nobody else can name yet.  They commute with every other
\* action (make and go up to a renaming of channel and process identities, which no
\* property mentions), so they are executed eagerly, lowest process first: a sound
\* partial-order reduction that keeps TLC exhaustive over all schedules of the
\* remaining (communicating, printing, locking) steps.
LocalOps == {"set", "jmp", "jz", "ret", "make", "new", "go", "goi"}
LocalSet == {p \in PIDs : Running(p) /\ Op(p) \in LocalOps}
LocalPending == LocalSet # {}
FirstLocal == CHOOSE p \in LocalSet : \A q \in LocalSet : p <= q

NewChan == ChanBase + Len(chans) + 1
NewCell == CellBase + Len(cells) + 1

Local ==
    /\ ~Stopped /\ LocalPending
    /\ LET p == FirstLocal  i == Ins(p) IN
         /\ procs' = CASE i[1] = "set" -> SetL(Step(p), p, i[2], Eval(i[3], Loc(p)))
                       [] i[1] = "jmp" -> Goto(p, i[2])
                       [] i[1] = "jz"  -> IF Eval(i[2], Loc(p)) = 0 THEN Goto(p, i[3]) ELSE Step(p)
                       [] i[1] = "ret" -> [procs EXCEPT ![p].st = "done"]
                       \* make(chan int, cap)
                       [] i[1] = "make" -> [SetL(Step(p), p, i[2], NewChan) EXCEPT ![p].given = @ \cup {NewChan}]
                       \* x := a reference to a fresh heap object holding e (new(int), map and slice literals)
                       [] i[1] = "new" -> [SetL(Step(p), p, i[2], NewCell) EXCEPT ![p].given = @ \cup {NewCell}]
                       \* go f(args): a new process with its own locals; "goi" also starts a new interpreter
                       [] i[1] \in {"go", "goi"} ->
                            Append(Step(p), NewProc(i[2], EvalSeq(i[3], Loc(p)),
                                                    IF i[1] = "goi" THEN Eval(i[4], Loc(p)) ELSE procs[p].ip))
         /\ chans' = IF i[1] = "make"
                      THEN Append(chans, [cap |-> Eval(i[3], Loc(p)), buf |-> <<>>, closed |-> FALSE])
                      ELSE chans
         /\ cells' = IF i[1] = "new" THEN Append(cells, Eval(i[3], Loc(p))) ELSE cells
         /\ i[1] = "make" => Len(chans) < MaxChans
         /\ i[1] \in {"go", "goi"} => Len(procs) < MaxProcs
    /\ UNCHANGED <<round, inst, wgs, mus, glob, out, selvec, fault>>

Ready(p) == Running(p)      \* (Next schedules these only when ~Stopped /\ ~LocalPending)

Println(p) ==
    /\ Ready(p) /\ Op(p) = "print"
    /\ out' = Append(out, EvalSeq(Ins(p)[2], Loc(p)))
    /\ procs' = Step(p)
    /\ UNCHANGED <<cells, round, inst, chans, wgs, mus, glob, selvec, fault>>

\* package-level variables
Load(p) ==
    /\ Ready(p) /\ Op(p) = "load"
    /\ procs' = SetL(Step(p), p, Ins(p)[2], glob[NS(p, Ins(p)[3])])
    /\ UNCHANGED <<cells, round, inst, chans, wgs, mus, glob, out, selvec, fault>>

Store(p) ==
    /\ Ready(p) /\ Op(p) = "store"
    /\ glob' = [glob EXCEPT ![NS(p, Ins(p)[2])] = Eval(Ins(p)[3], Loc(p))]
    /\ procs' = Step(p)
    /\ UNCHANGED <<cells, round, inst, chans, wgs, mus, out, selvec, fault>>

\* heap objects reached through a reference held in a local: x = *p, m[0], s[0]
PLoad(p) ==
    /\ Ready(p) /\ Op(p) = "pload"
    /\ LET r == Loc(p)[Ins(p)[3]] IN
         procs' = Touch(SetL(Step(p), p, Ins(p)[2], cells[r - CellBase]), p, r)
    /\ UNCHANGED <<cells, round, inst, chans, wgs, mus, glob, out, selvec, fault>>

PStore(p) ==
    /\ Ready(p) /\ Op(p) = "pstore"
    /\ LET r == Loc(p)[Ins(p)[2]] IN
         /\ cells' = [cells EXCEPT ![r - CellBase] = Eval(Ins(p)[3], Loc(p))]
         /\ procs' = Touch(Step(p), p, r)
    /\ UNCHANGED <<round, inst, chans, wgs, mus, glob, out, selvec, fault>>

\* ---------------------------------------------------------------- sync.WaitGroup
WgAdd(p) ==
    /\ Ready(p) /\ Op(p) \in {"wgadd", "wgdone"}
    /\ LET k == NS(p, Ins(p)[2])
           d == IF Op(p) = "wgdone" THEN 0 - 1 ELSE Eval(Ins(p)[3], Loc(p)) IN
         IF wgs[k] + d < 0
         THEN fault' = "negative WaitGroup counter" /\ UNCHANGED <<wgs, procs>>
         ELSE wgs' = [wgs EXCEPT ![k] = @ + d] /\ procs' = Step(p) /\ UNCHANGED fault
    /\ UNCHANGED <<cells, round, inst, chans, mus, glob, out, selvec>>

WgWait(p) ==
    /\ Ready(p) /\ Op(p) = "wgwait" /\ wgs[NS(p, Ins(p)[2])] = 0
    /\ procs' = Step(p)
    /\ UNCHANGED <<cells, round, inst, chans, wgs, mus, glob, out, selvec, fault>>

\* -------------------------------------------------------------------- sync.Mutex
Lock(p) ==
    /\ Ready(p) /\ Op(p) = "lock" /\ mus[NS(p, Ins(p)[2])] = 0
    /\ mus' = [mus EXCEPT ![NS(p, Ins(p)[2])] = p]
    /\ procs' = [Step(p) EXCEPT ![p].held = @ \cup {NS(p, Ins(p)[2])}]
    /\ UNCHANGED <<cells, round, inst, chans, wgs, glob, out, selvec, fault>>

Unlock(p) ==
    /\ Ready(p) /\ Op(p) = "unlock"
    /\ IF mus[NS(p, Ins(p)[2])] = 0
       THEN fault' = "unlock of unlocked mutex" /\ UNCHANGED <<mus, procs>>
       ELSE /\ mus' = [mus EXCEPT ![NS(p, Ins(p)[2])] = 0]
            /\ procs' = [Step(p) EXCEPT ![p].held = @ \ {NS(p, Ins(p)[2])}]
            /\ UNCHANGED fault
    /\ UNCHANGED <<cells, round, inst, chans, wgs, glob, out, selvec>>

\* ---------------------------------------------------------------------- channels
Ch(c) == chans[Cx(c)]
SetCh(c, r) == [chans EXCEPT ![Cx(c)] = r]

\* The case vector of the select statement process p is executing.
NCases(p) == Len(Ins(p)[2])
SelKey(p) == IF SelMode = "shared" THEN 0 - Ins(p)[4] ELSE p
SelFilled(p) == SelMode = "atomic" \/ procs[p].sf = NCases(p)
SelChan(p, i) == IF SelMode = "atomic" THEN Loc(p)[Ins(p)[2][i][2]] ELSE selvec[SelKey(p)][i]

\* mechanism modes: cases[i].Chan = chanValues[i](f), one entry at a time
SelFill(p) ==
    /\ Ready(p) /\ Op(p) = "select" /\ SelMode # "atomic" /\ procs[p].sf < NCases(p)
    /\ LET i == procs[p].sf + 1 IN
         /\ selvec' = [selvec EXCEPT ![SelKey(p)][i] = Loc(p)[Ins(p)[2][i][2]]]
         /\ procs' = [procs EXCEPT ![p].sf = i]
    /\ UNCHANGED <<cells, round, inst, chans, wgs, mus, glob, out, fault>>

\* <<value, next pc>> ways in which p is ready to SEND on channel c right now
SendOffers(p, c) ==
    IF ~Running(p) THEN {}
    ELSE IF Op(p) = "send" /\ Loc(p)[Ins(p)[2]] = c THEN {<<Eval(Ins(p)[3], Loc(p)), procs[p].pc + 1>>}
    ELSE IF Op(p) = "select" /\ SelFilled(p)
         THEN {<<Eval(Ins(p)[2][i][3], Loc(p)), Ins(p)[2][i][4]>> :
                  i \in {j \in 1..NCases(p) : Ins(p)[2][j][1] = "send" /\ SelChan(p, j) = c}}
    ELSE {}

\* <<variable, ok variable, next pc>> ways in which q is ready to RECEIVE from c right now
RecvTargets(q, c) ==
    IF ~Running(q) THEN {}
    ELSE IF Op(q) \in {"recv", "range"} /\ Loc(q)[Ins(q)[2]] = c THEN {<<Ins(q)[3], "_", procs[q].pc + 1>>}
    ELSE IF Op(q) = "recvok" /\ Loc(q)[Ins(q)[2]] = c THEN {<<Ins(q)[3], Ins(q)[4], procs[q].pc + 1>>}
    ELSE IF Op(q) = "select" /\ SelFilled(q)
         THEN {<<Ins(q)[2][i][3], "_", Ins(q)[2][i][4]>> :
                  i \in {j \in 1..NCases(q) : Ins(q)[2][j][1] = "recv" /\ SelChan(q, j) = c}}
    ELSE {}

WaitingSenders(c)   == {p \in PIDs : SendOffers(p, c) # {}}
WaitingReceivers(c) == {q \in PIDs : RecvTargets(q, c) # {}}

\* q takes value v (ok) through target r; p is moved to pc t
Deliver(ps, q, r, v, ok) ==
    LET a == SetL(SetL(ps, q, r[1], v), q, r[2], ok) IN [a EXCEPT ![q].pc = r[3], ![q].sf = 0]

\* synchronous transfer on an unbuffered channel c: sender p, receiver q
Rendezvous(c) ==
    /\ Ch(c).cap = 0 /\ ~Ch(c).closed
    /\ \E p \in WaitingSenders(c), q \in WaitingReceivers(c) :
         /\ p # q
         /\ \E s \in SendOffers(p, c), r \in RecvTargets(q, c) :
              procs' = Touch(Touch([Deliver(procs, q, r, s[1], 1) EXCEPT ![p].pc = s[2], ![p].sf = 0], p, c), q, c)
    /\ UNCHANGED <<cells, round, inst, chans, wgs, mus, glob, out, selvec, fault>>

\* what a send of v on c by p does by itself (buffer room, or closed channel)
SendAlone(p, c, v, t) ==
    IF Ch(c).closed
    THEN fault' = "send on closed channel" /\ procs' = Touch(procs, p, c) /\ UNCHANGED chans
    ELSE /\ Len(Ch(c).buf) < Ch(c).cap
         /\ chans' = SetCh(c, [Ch(c) EXCEPT !.buf = Append(@, v)])
         /\ procs' = Touch([procs EXCEPT ![p].pc = t, ![p].sf = 0], p, c)
         /\ UNCHANGED fault

\* what a receive from c by q does by itself (buffered value, or closed channel)
RecvAlone(q, c, r) ==
    /\ Len(Ch(c).buf) > 0 \/ Ch(c).closed
    /\ IF Len(Ch(c).buf) > 0
       THEN /\ chans' = SetCh(c, [Ch(c) EXCEPT !.buf = Tail(@)])
            /\ procs' = Touch(Deliver(procs, q, r, Head(Ch(c).buf), 1), q, c)
       ELSE /\ procs' = Touch(Deliver(procs, q, r, 0, 0), q, c)
            /\ UNCHANGED chans

Send(p) ==
    /\ Ready(p) /\ Op(p) = "send"
    /\ SendAlone(p, Loc(p)[Ins(p)[2]], Eval(Ins(p)[3], Loc(p)), procs[p].pc + 1)
    /\ UNCHANGED <<cells, round, inst, wgs, mus, glob, out, selvec>>

\* v := <-c   and   v, ok := <-c
Recv(p) ==
    /\ Ready(p) /\ Op(p) \in {"recv", "recvok"}
    /\ \E r \in RecvTargets(p, Loc(p)[Ins(p)[2]]) : RecvAlone(p, Loc(p)[Ins(p)[2]], r)
    /\ UNCHANGED <<cells, round, inst, wgs, mus, glob, out, selvec, fault>>

\* one iteration of `for v := range c`: a value, or the exit when c is closed and drained
RangeNext(p) ==
    /\ Ready(p) /\ Op(p) = "range"
    /\ LET c == Loc(p)[Ins(p)[2]] IN
         IF Len(Ch(c).buf) = 0 /\ Ch(c).closed
         THEN procs' = Touch(Goto(p, Ins(p)[4]), p, c) /\ UNCHANGED chans
         ELSE \E r \in RecvTargets(p, c) : RecvAlone(p, c, r)
    /\ UNCHANGED <<cells, round, inst, wgs, mus, glob, out, selvec, fault>>

Close(p) ==
    /\ Ready(p) /\ Op(p) = "close"
    /\ LET c == Loc(p)[Ins(p)[2]] IN
         IF Ch(c).closed
         THEN fault' = "close of closed channel" /\ UNCHANGED <<chans, procs>>
         ELSE chans' = SetCh(c, [Ch(c) EXCEPT !.closed = TRUE]) /\ procs' = Touch(Step(p), p, c) /\ UNCHANGED fault
    /\ UNCHANGED <<cells, round, inst, wgs, mus, glob, out, selvec>>

\* select: the cases that can proceed without a partner
AloneReady(p, i) ==
    LET c == SelChan(p, i) IN
      /\ IsChan(c)
      /\ IF Ins(p)[2][i][1] = "recv" THEN Len(Ch(c).buf) > 0 \/ Ch(c).closed
         ELSE Ch(c).closed \/ Len(Ch(c).buf) < Ch(c).cap

\* Select(cases, default): any case that can proceed; default only when none can
\* (a partner of a synchronous case may not have arrived yet, so default and
\* Rendezvous are both allowed then: a superset of Go's schedules)
Select(p) ==
    /\ Ready(p) /\ Op(p) = "select" /\ SelFilled(p)
    /\ \/ \E i \in 1..NCases(p) :
            /\ AloneReady(p, i)
            /\ LET cs == Ins(p)[2][i]  c == SelChan(p, i) IN
                 IF cs[1] = "recv"
                 THEN RecvAlone(p, c, <<cs[3], "_", cs[4]>>) /\ UNCHANGED fault
                 ELSE SendAlone(p, c, Eval(cs[3], Loc(p)), cs[4])
       \/ /\ Ins(p)[3] # 0
          /\ \A i \in 1..NCases(p) : ~AloneReady(p, i)
          /\ procs' = [procs EXCEPT ![p].pc = Ins(p)[3], ![p].sf = 0]
          /\ UNCHANGED <<chans, fault>>
    /\ UNCHANGED <<cells, round, inst, wgs, mus, glob, out, selvec>>

Finished == (Terminal \/ Stopped) /\ UNCHANGED vars

Comm ==
    \/ \E p \in {x \in PIDs : Running(x)} :
          \/ Println(p) \/ Load(p) \/ Store(p) \/ PLoad(p) \/ PStore(p)
          \/ WgAdd(p) \/ WgWait(p) \/ Lock(p) \/ Unlock(p)
          \/ SelFill(p) \/ Send(p) \/ Recv(p) \/ RangeNext(p) \/ Close(p) \/ Select(p)
    \/ \E c \in {ChanBase + i : i \in 1..Len(chans)} : Rendezvous(c)

Step1 == IF Stopped THEN FALSE ELSE IF LocalPending THEN Local ELSE Comm
Next == Step1 \/ Finished

Spec == Init /\ [][Next]_vars

\* ------------------------------------------------------------------- properties
\* Deadlock freedom is TLC's own check (Finished makes terminal states stutter).

\* a process operates only on the channels and heap objects it was given or made:
\* every activation sees only its own arguments (evaluated BY the go statement)
Isolation == \A p \in PIDs : procs[p].touched \subseteq procs[p].given

\* no run-time panic: send on / close of a closed channel, WaitGroup and Mutex misuse
NoFault == fault = ""

\* two processes never stand before conflicting accesses to one package-level
\* variable (the definition of a data race in interleaving semantics); with a
\* Mutex around every access this is mutual exclusion of the critical sections
GlobAccess(p) == IF ~Running(p) THEN {}
                 ELSE IF Op(p) = "load" THEN {<<NS(p, Ins(p)[3]), "r">>}
                 ELSE IF Op(p) = "store" THEN {<<NS(p, Ins(p)[2]), "w">>}
                 ELSE IF Op(p) = "pload" THEN {<<<<Loc(p)[Ins(p)[3]], "cell">>, "r">>}
                 ELSE IF Op(p) = "pstore" THEN {<<<<Loc(p)[Ins(p)[2]], "cell">>, "w">>}
                 ELSE {}
DataRaceFree ==
    LET A == {p \in PIDs : GlobAccess(p) # {}} IN
      \A p, q \in A : p # q =>
          \A a \in GlobAccess(p), b \in GlobAccess(q) : a[1] = b[1] => (a[2] = "r" /\ b[2] = "r")

\* no two processes are between Lock and Unlock of the same Mutex
MutualExclusion ==
    LET H == {p \in PIDs : procs[p].held # {}} IN
      \A p, q \in H : p # q => procs[p].held \cap procs[q].held = {}

\* the program ends when main returns: nothing observable may be left to do then
MainLast == procs[1].st = "done" => \A p \in PIDs : procs[p].st = "done" \/ Op(p) = "ret"

\* simulation (instances beyond the exhaustive bounds): one long behaviour runs the
\* instances of PickSeq one after the other, a random schedule each; no stuttering at
\* the end, deadlock freedom as an invariant
InitSim ==
    /\ inst = MkT(PickSeq[1]) /\ round = 1
    /\ procs = <<NewProc(inst.fn, inst.args, 0)>>
    /\ chans = <<>> /\ wgs = Wgs0 /\ mus = Mus0 /\ glob = Glob0
    /\ out = <<>> /\ selvec = Selvec0 /\ fault = "" /\ cells = <<>>
NextInstance ==
    /\ Terminal /\ round < Len(PickSeq)
    /\ round' = round + 1 /\ inst' = MkT(PickSeq[round + 1])
    /\ procs' = <<NewProc(inst'.fn, inst'.args, 0)>>
    /\ chans' = <<>> /\ wgs' = Wgs0 /\ mus' = Mus0 /\ glob' = Glob0
    /\ out' = <<>> /\ selvec' = Selvec0 /\ fault' = "" /\ cells' = <<>>
SpecSim == InitSim /\ [][Step1 \/ NextInstance]_vars
DeadlockFree == (~Terminal /\ ~Stopped) => ENABLED Step1

\* Every terminal state carries the output the family defines: the instance is
\* schedule-independent, and Expect is THE output the real runs are compared with.
Multiset == MultisetOf(inst)
Expect == ExpectOf(inst)
OutputDeterminism ==
    Terminal => IF Multiset THEN BagOf(out) = BagOf(Expect) ELSE out = Expect

Emit == Terminal =>
    PrintT(<<"BEH", ToJson([t |-> inst.t, n |-> inst.n, k |-> inst.k, b |-> inst.b, m |-> inst.m,
                            multiset |-> Multiset, out |-> out, expect |-> Expect])>>)
===============================================================================
