----------------------------- MODULE FrameTrace -----------------------------
(* Trace validation of frame isolation (C08, binding T).                       *)
(*                                                                             *)
(* The step hook reports, for every interpreted operation, the goroutine and    *)
(* the identity of the frame the operation EXECUTES ON (interp/run.go runCfg's  *)
(* frame argument) and whether that is the global frame.  A trace is the       *)
(* concatenation of many recorded runs; the harness sends each distinct        *)
(* (goroutine, frame) pair of a run once:                                      *)
(*                                                                             *)
(*   Start(run)        a run begins                                            *)
(*   Exec(g, f, root)  goroutine g executed an operation on frame f            *)
(*   End               the run is over                                         *)
(*                                                                             *)
(* Isolation at the level of frames: every activation (call of a named         *)
(* function, of a function literal, `go f(args)`, a call from the host) runs   *)
(* on a frame of its own, so all operations executed on one non-global frame   *)
(* belong to one goroutine.  Frames a closure CAPTURES are ancestors of the    *)
(* executing frame, never the executing frame itself, so captured variables    *)
(* shared by several goroutines do not show here and the statement is sound    *)
(* for every program.  The global frame executes package initialisation only  *)
(* and is excluded.  (Frame identity is an address: the harness switches the   *)
(* collector off during a recorded run so that an address names one frame.)    *)
EXTENDS Naturals, Sequences, FiniteSets, TLC, Json

Trace == ndJsonDeserialize("trace.ndjson")

VARIABLES l,       \* next line of the trace
          run,     \* identifier of the current run
          phase,   \* "idle" | "running"
          owner,   \* frame -> the goroutine that executed on it
          bad      \* set of <<run, reason>>
vars == <<l, run, phase, owner, bad>>

Ev == Trace[l]
IsEvent(e) == l <= Len(Trace) /\ Ev.e = e /\ l' = l + 1
Empty == [x \in {} |-> 0]

Init == l = 1 /\ run = "" /\ phase = "idle" /\ owner = Empty /\ bad = {}

Start ==
    /\ IsEvent("Start") /\ phase = "idle"
    /\ run' = Ev.run /\ phase' = "running" /\ owner' = Empty
    /\ UNCHANGED bad

Exec ==
    /\ IsEvent("Exec") /\ phase = "running"
    /\ IF Ev.root THEN UNCHANGED <<owner, bad>>
       ELSE IF Ev.f \in DOMAIN owner
            THEN /\ UNCHANGED owner
                 /\ bad' = IF owner[Ev.f] # Ev.g
                           THEN bad \cup {<<run, "two goroutines executed on the same call frame">>}
                           ELSE bad
            ELSE owner' = owner @@ (Ev.f :> Ev.g) /\ UNCHANGED bad
    /\ UNCHANGED <<run, phase>>

End ==
    /\ IsEvent("End") /\ phase = "running"
    /\ phase' = "idle"
    /\ UNCHANGED <<run, owner, bad>>

Next == Start \/ Exec \/ End
Spec == Init /\ [][Next]_vars

\* the property as a state predicate over one run
FrameIsolation == bad = {}

Done == l = Len(Trace) + 1
Emit == Done => PrintT(<<"BEH", ToJson([consumed |-> l - 1, bad |-> bad])>>)
===============================================================================
