-------------------------------- MODULE Pick --------------------------------
(* The instances a simulation run walks through, one after the other, as     *)
(* <<family, n, k, b, m>> tuples.  Empty here; harness/cmd/c08 replaces this  *)
(* module in TLC's scratch copy when it needs the model's verdict on instances *)
(* beyond the exhaustive bounds (n = 4, 8).                                   *)
PickSeq == <<>>
===============================================================================
