------------------------------ MODULE Templates ------------------------------
(* The concurrent program families of property C08 as programs of the machine  *)
(* of Chan.tla.  The programs are FIXED; an instance is a main function and its *)
(* four parameters <<n, k, b, m>> (goroutine count, second count / form, buffer *)
(* size, items per producer).  harness/cmd/c08 holds the same programs as Go    *)
(* text with the parameters as constants; the native build of every instance    *)
(* must print Expect (that validates this module and the renderer).            *)
(*                                                                             *)
(*   pipeline  gen -> k stages (v*2+id) -> main prints in order                *)
(*   pool      n workers range over jobs, closure closes results after Wait    *)
(*   drain     pool whose results are drained by select-with-default          *)
(*   privsel   n workers with PRIVATE (in, quit) channels all executing the    *)
(*             SAME select statement; n feeders with private (in, stop)        *)
(*             executing the same select-with-send statement                   *)
(*   counter   n workers increment a Mutex-protected package variable          *)
(*   nolock    NEGATIVE CONTROL: counter without the Mutex (must fail)         *)
(*   earlyclose NEGATIVE CONTROL: pool whose results channel is closed without *)
(*             waiting for the workers (send on closed channel, must fail)     *)
(*   prodcons  n producers, k consumers (range and v, ok forms), close         *)
(*   rebind    the argument variables of a go statement (pointer, map, slice,  *)
(*             function value, int) are REASSIGNED by the spawner right after  *)
(*             the statement; k = form of the callee (0 declared function,     *)
(*             1 function literal called in place, 2 closure variable,         *)
(*             3 method value).  pipeline does the same with channels (`in =   *)
(*             out`), its n = the same form.  Go: the function value and the   *)
(*             arguments are evaluated by the go statement; the machine copies *)
(*             them into the new process's locals (NewProc).                   *)
(*   iface     n workers, each OWNING an object (a counter; odd ids one dynamic  *)
(*             type, Add adds v, even ids another, Add adds 2*v), all call ONE *)
(*             shared function with ONE interface method call site             *)
(*             `x.Add(<-c)` whose argument blocks on the worker's private      *)
(*             channel; a chain of feeders releases the workers in the REVERSE *)
(*             of the order in which they were started.  k = form: 0 argument  *)
(*             `<-c`, 1 argument a call that yields and then receives, 2 the   *)
(*             callers are HOST goroutines calling one exported function.      *)
(*             Per-object state: Isolation says an object is read and written  *)
(*             by its own worker only.                                         *)
(*   host      n host goroutines call the same script function F               *)
(*   interps   n interpreters run the same program in parallel                 *)
(*                                                                             *)
(* This module is pure data (programs, instances, the output each family       *)
(* defines); Chan.tla EXTENDS it and runs the programs.  (The tables are        *)
(* referenced by name rather than passed as CONSTANTS: TLC pre-evaluates a      *)
(* constant definition once, but re-evaluates one that is substituted for a     *)
(* CONSTANT in a cfg or INSTANCE at every use -- measured: 80 times per state.) *)
EXTENDS Integers, Sequences, FiniteSets, TLC, Pick

CONSTANTS Families,   \* the families to instantiate
          NSet,       \* goroutine counts (stages for pipeline; producers AND consumers for prodcons)
          BSet,       \* buffer sizes
          PCSum,      \* prodcons: bound on producers + consumers
          MaxIP

C(x) == <<"c", x>>
V(x) == <<"v", x>>
Add(a, b) == <<"add", a, b>>
Mul(a, b) == <<"mul", a, b>>
Le(a, b) == <<"le", a, b>>
Eq(a, b) == <<"eq", a, b>>
Inc(x) == <<"set", x, Add(V(x), C(1))>>
Tag(id, j) == Add(Mul(V(id), C(10)), V(j))       \* id*10+j: a value that names its producer

MainParams == <<"n", "k", "b", "m">>

FnNames == {"main_pipeline", "main_pool", "main_drain", "main_privsel", "main_counter",
            "main_nolock", "main_rebind", "rworker", "main_iface", "oworker", "ofeeder", "main_earlyclose", "eclose", "main_prodcons", "main_host", "main_interps", "stage", "gen", "worker",
            "closer", "sworker", "feeder", "cworker", "nworker", "iworker", "imain", "producer",
            "pcloser", "consumer", "hostcall", "hgen"}

TParamsL == [f \in FnNames |->
  CASE f \in {"stage"}    -> <<"in", "out", "id">>
    [] f \in {"gen"}      -> <<"out", "m">>
    [] f \in {"worker"}   -> <<"id", "jobs", "res">>
    [] f \in {"closer", "eclose"} -> <<"res">>
    [] f \in {"sworker"}  -> <<"id", "in", "quit">>
    [] f \in {"feeder"}   -> <<"id", "in", "quit", "stop", "m">>
    [] f \in {"cworker", "nworker", "iworker", "imain", "hostcall"} -> <<"id", "m">>
    [] f \in {"producer"} -> <<"id", "ch", "m">>
    [] f \in {"oworker"}  -> <<"id", "obj", "c">>
    [] f \in {"ofeeder"}  -> <<"id", "c", "wait", "sig", "m">>
    [] f \in {"rworker"}  -> <<"id", "p", "mp", "sl", "fn", "x">>
    [] f \in {"pcloser"}  -> <<"ch">>
    [] f \in {"consumer"} -> <<"id", "ch", "res">>
    [] f \in {"hgen"}     -> <<"out", "id", "m">>
    [] OTHER -> MainParams]

TVars == {"n", "k", "b", "m", "i", "j", "v", "r", "s", "t", "ok", "acc", "sum", "tot", "id",
          "in", "out", "first", "prev", "next", "jobs", "res", "quit", "stop", "ch", "c",
          "p", "mp", "sl", "fn", "x", "a", "bb", "cc",
          "obj", "tprev", "tnext", "wait", "sig"}

\* the argument of `go` is copied when the statement executes: r changes afterwards
CounterMain(w) == <<
  (* 1*) <<"wgadd", "W", V("n")>>,
  (* 2*) <<"set", "i", C(1)>>,
  (* 3*) <<"jz", Le(V("i"), V("n")), 9>>,
  (* 4*) <<"set", "r", V("m")>>,
  (* 5*) <<"go", w, <<V("i"), V("r")>>>>,
  (* 6*) <<"set", "r", C(0)>>,
  (* 7*) Inc("i"),
  (* 8*) <<"jmp", 3>>,
  (* 9*) <<"wgwait", "W">>,
  (*10*) <<"load", "t", "cnt">>,
  (*11*) <<"print", <<V("t")>>>>,
  (*12*) <<"ret">> >>

PoolHead == <<
  (* 1*) <<"make", "jobs", V("b")>>,
  (* 2*) <<"make", "res", V("b")>>,
  (* 3*) <<"wgadd", "W", V("n")>>,
  (* 4*) <<"set", "i", C(1)>>,
  (* 5*) <<"jz", Le(V("i"), V("n")), 9>>,
  (* 6*) <<"go", "worker", <<V("i"), V("jobs"), V("res")>>>>,
  (* 7*) Inc("i"),
  (* 8*) <<"jmp", 5>>,
  (* 9*) <<"go", "gen", <<V("jobs"), V("m")>>>> >>

TProgL == [f \in FnNames |->
  CASE f = "main_pipeline" -> (<<
      (* 1*) <<"make", "first", V("b")>>,
      (* 2*) <<"set", "prev", V("first")>>,
      (* 3*) <<"set", "i", C(1)>>,
      (* 4*) <<"jz", Le(V("i"), V("k")), 10>>,
      (* 5*) <<"make", "next", V("b")>>,
      (* 6*) <<"go", "stage", <<V("prev"), V("next"), V("i")>>>>,
      (* 7*) <<"set", "prev", V("next")>>,
      (* 8*) Inc("i"),
      (* 9*) <<"jmp", 4>>,
      (*10*) <<"go", "gen", <<V("first"), V("m")>>>>,
      (*11*) <<"range", "prev", "v", 14>>,
      (*12*) <<"print", <<V("v")>>>>,
      (*13*) <<"jmp", 11>>,
      (*14*) <<"ret">> >> )
  [] f = "stage" -> (<<
      (* 1*) <<"range", "in", "v", 4>>,
      (* 2*) <<"send", "out", Add(Mul(V("v"), C(2)), V("id"))>>,
      (* 3*) <<"jmp", 1>>,
      (* 4*) <<"close", "out">>,
      (* 5*) <<"ret">> >> )
  [] f = "gen" -> (<<
      (* 1*) <<"set", "j", C(1)>>,
      (* 2*) <<"jz", Le(V("j"), V("m")), 6>>,
      (* 3*) <<"send", "out", V("j")>>,
      (* 4*) Inc("j"),
      (* 5*) <<"jmp", 2>>,
      (* 6*) <<"close", "out">>,
      (* 7*) <<"ret">> >> )
  [] f = "main_pool" -> (PoolHead \o <<
      (*10*) <<"go", "closer", <<V("res")>>>>,
      (*11*) <<"set", "sum", C(0)>>,
      (*12*) <<"range", "res", "r", 16>>,
      (*13*) <<"print", <<C(1), V("r")>>>>,
      (*14*) <<"set", "sum", Add(V("sum"), V("r"))>>,
      (*15*) <<"jmp", 12>>,
      (*16*) <<"print", <<C(2), V("sum")>>>>,
      (*17*) <<"ret">> >> )
  [] f = "worker" -> (<<
      (* 1*) <<"range", "jobs", "j", 4>>,
      (* 2*) <<"send", "res", Add(Mul(V("j"), V("j")), C(1))>>,
      (* 3*) <<"jmp", 1>>,
      (* 4*) <<"wgdone", "W">>,
      (* 5*) <<"ret">> >> )
  [] f = "main_earlyclose" -> (PoolHead \o <<
      (*10*) <<"go", "eclose", <<V("res")>>>>,
      (*11*) <<"range", "res", "r", 13>>,
      (*12*) <<"jmp", 11>>,
      (*13*) <<"ret">> >> )
  [] f = "eclose" -> (<<
      (* 1*) <<"close", "res">>,
      (* 2*) <<"ret">> >> )
  [] f = "closer" -> (<<
      (* 1*) <<"wgwait", "W">>,
      (* 2*) <<"close", "res">>,
      (* 3*) <<"ret">> >> )
  [] f = "main_drain" -> ([PoolHead EXCEPT ![2] = <<"make", "res", V("m")>>] \o <<
      (*10*) <<"wgwait", "W">>,
      (*11*) <<"set", "sum", C(0)>>,
      (*12*) <<"select", << <<"recv", "res", "r", 13>> >>, 16, 3>>,
      (*13*) <<"print", <<C(1), V("r")>>>>,
      (*14*) <<"set", "sum", Add(V("sum"), V("r"))>>,
      (*15*) <<"jmp", 12>>,
      (*16*) <<"print", <<C(2), V("sum")>>>>,
      (*17*) <<"ret">> >> )
  [] f = "main_privsel" -> (<<
      (* 1*) <<"wgadd", "W", V("n")>>,
      (* 2*) <<"set", "i", C(1)>>,
      (* 3*) <<"jz", Le(V("i"), V("n")), 11>>,
      (* 4*) <<"make", "in", C(0)>>,
      (* 5*) <<"make", "quit", V("b")>>,
      (* 6*) <<"make", "stop", C(0)>>,
      (* 7*) <<"go", "sworker", <<V("i"), V("in"), V("quit")>>>>,
      (* 8*) <<"go", "feeder", <<V("i"), V("in"), V("quit"), V("stop"), V("m")>>>>,
      (* 9*) Inc("i"),
      (*10*) <<"jmp", 3>>,
      (*11*) <<"wgwait", "W">>,
      (*12*) <<"ret">> >> )
  [] f = "sworker" -> (<<
      (* 1*) <<"set", "acc", C(0)>>,
      (* 2*) <<"select", << <<"recv", "in", "v", 3>>, <<"recv", "quit", "_", 5>> >>, 0, 1>>,
      (* 3*) <<"set", "acc", Add(V("acc"), V("v"))>>,
      (* 4*) <<"jmp", 2>>,
      (* 5*) <<"print", <<V("id"), V("acc")>>>>,
      (* 6*) <<"wgdone", "W">>,
      (* 7*) <<"ret">> >> )
  [] f = "feeder" -> (<<
      (* 1*) <<"set", "j", C(1)>>,
      (* 2*) <<"jz", Le(V("j"), V("m")), 6>>,
      (* 3*) <<"select", << <<"send", "in", Tag("id", "j"), 4>>, <<"recv", "stop", "_", 4>> >>, 0, 2>>,
      (* 4*) Inc("j"),
      (* 5*) <<"jmp", 2>>,
      (* 6*) <<"send", "quit", C(1)>>,
      (* 7*) <<"ret">> >> )
  [] f = "main_iface" -> (<<
      (* 1*) <<"wgadd", "W", V("n")>>,
      (* 2*) <<"make", "first", C(0)>>,
      (* 3*) <<"set", "tprev", V("first")>>,
      (* 4*) <<"set", "i", C(1)>>,
      (* 5*) <<"jz", Le(V("i"), V("n")), 14>>,
      (* 6*) <<"new", "obj", Mul(V("i"), C(100))>>,
      (* 7*) <<"make", "c", C(0)>>,
      (* 8*) <<"make", "tnext", C(0)>>,
      (* 9*) <<"go", "oworker", <<V("i"), V("obj"), V("c")>>>>,
      (*10*) <<"go", "ofeeder", <<V("i"), V("c"), V("tnext"), V("tprev"), V("m")>>>>,
      (*11*) <<"set", "tprev", V("tnext")>>,
      (*12*) Inc("i"),
      (*13*) <<"jmp", 5>>,
      \* release the worker started last first; the token comes back when all were fed
      (*14*) <<"send", "tprev", C(1)>>,
      (*15*) <<"recv", "first", "_">>,
      (*16*) <<"wgwait", "W">>,
      (*17*) <<"ret">> >> )
  \* apply(x, c) { x.Add(<-c) } followed by the report of the object's state
  [] f = "oworker" -> (<<
      (* 1*) <<"recv", "c", "v">>,
      (* 2*) <<"pload", "a", "obj">>,
      (* 3*) <<"pstore", "obj", Add(V("a"), Mul(V("v"), Add(C(1), Eq(<<"odd", V("id")>>, C(0)))))>>,
      (* 4*) <<"pload", "a", "obj">>,
      (* 5*) <<"print", <<V("id"), V("a")>>>>,
      (* 6*) <<"wgdone", "W">>,
      (* 7*) <<"ret">> >> )
  [] f = "ofeeder" -> (<<
      (* 1*) <<"recv", "wait", "_">>,
      (* 2*) <<"send", "c", Tag("id", "m")>>,
      (* 3*) <<"send", "sig", C(1)>>,
      (* 4*) <<"ret">> >> )
  [] f = "main_rebind" -> (<<
      (* 1*) <<"wgadd", "W", V("n")>>,
      (* 2*) <<"set", "i", C(1)>>,
      (* 3*) <<"jz", Le(V("i"), V("n")), 17>>,
      (* 4*) <<"new", "p", Mul(V("i"), C(100))>>,
      (* 5*) <<"new", "mp", Add(Mul(V("i"), C(100)), C(1))>>,
      (* 6*) <<"new", "sl", Add(Mul(V("i"), C(100)), C(2))>>,
      (* 7*) <<"set", "fn", C(1)>>,
      (* 8*) <<"set", "x", Tag("i", "m")>>,
      (* 9*) <<"go", "rworker", <<V("i"), V("p"), V("mp"), V("sl"), V("fn"), V("x")>>>>,
      \* the spawner moves on: every argument variable now denotes something else
      (*10*) <<"new", "p", C(7)>>,
      (*11*) <<"new", "mp", C(7)>>,
      (*12*) <<"new", "sl", C(7)>>,
      (*13*) <<"set", "fn", C(2)>>,
      (*14*) <<"set", "x", C(0)>>,
      (*15*) Inc("i"),
      (*16*) <<"jmp", 3>>,
      (*17*) <<"wgwait", "W">>,
      (*18*) <<"ret">> >> )
  [] f = "rworker" -> (<<
      (* 1*) <<"pload", "a", "p">>,
      (* 2*) <<"pstore", "p", Add(V("a"), V("id"))>>,
      (* 3*) <<"pload", "a", "p">>,
      (* 4*) <<"pload", "bb", "mp">>,
      (* 5*) <<"pload", "cc", "sl">>,
      (* 6*) <<"print", <<V("id"), V("a"), V("bb"), V("cc"), <<"app", V("fn"), V("x")>>>>>>,
      (* 7*) <<"wgdone", "W">>,
      (* 8*) <<"ret">> >> )
  [] f = "main_counter" -> (CounterMain("cworker") )
  [] f = "main_nolock" -> (CounterMain("nworker") )
  [] f = "cworker" -> (<<
      (* 1*) <<"set", "j", C(1)>>,
      (* 2*) <<"jz", Le(V("j"), V("m")), 9>>,
      (* 3*) <<"lock", "MU">>,
      (* 4*) <<"load", "t", "cnt">>,
      (* 5*) <<"store", "cnt", Add(V("t"), C(1))>>,
      (* 6*) <<"unlock", "MU">>,
      (* 7*) Inc("j"),
      (* 8*) <<"jmp", 2>>,
      (* 9*) <<"wgdone", "W">>,
      (*10*) <<"ret">> >> )
  [] f = "nworker" -> (<<
      (* 1*) <<"set", "j", C(1)>>,
      (* 2*) <<"jz", Le(V("j"), V("m")), 7>>,
      (* 3*) <<"load", "t", "cnt">>,
      (* 4*) <<"store", "cnt", Add(V("t"), C(1))>>,
      (* 5*) Inc("j"),
      (* 6*) <<"jmp", 2>>,
      (* 7*) <<"wgdone", "W">>,
      (* 8*) <<"ret">> >> )
  [] f = "main_prodcons" -> (<<
      (* 1*) <<"make", "ch", V("b")>>,
      (* 2*) <<"make", "res", C(0)>>,
      (* 3*) <<"wgadd", "P", V("n")>>,
      (* 4*) <<"set", "i", C(1)>>,
      (* 5*) <<"jz", Le(V("i"), V("n")), 9>>,
      (* 6*) <<"go", "producer", <<V("i"), V("ch"), V("m")>>>>,
      (* 7*) Inc("i"),
      (* 8*) <<"jmp", 5>>,
      (* 9*) <<"go", "pcloser", <<V("ch")>>>>,
      (*10*) <<"set", "i", C(1)>>,
      (*11*) <<"jz", Le(V("i"), V("k")), 15>>,
      (*12*) <<"go", "consumer", <<V("i"), V("ch"), V("res")>>>>,
      (*13*) Inc("i"),
      (*14*) <<"jmp", 11>>,
      (*15*) <<"set", "tot", C(0)>>,
      (*16*) <<"set", "i", C(1)>>,
      (*17*) <<"jz", Le(V("i"), V("k")), 22>>,
      (*18*) <<"recv", "res", "s">>,
      (*19*) <<"set", "tot", Add(V("tot"), V("s"))>>,
      (*20*) Inc("i"),
      (*21*) <<"jmp", 17>>,
      (*22*) <<"print", <<V("tot")>>>>,
      (*23*) <<"ret">> >> )
  [] f = "producer" -> (<<
      (* 1*) <<"set", "j", C(1)>>,
      (* 2*) <<"jz", Le(V("j"), V("m")), 6>>,
      (* 3*) <<"send", "ch", Tag("id", "j")>>,
      (* 4*) Inc("j"),
      (* 5*) <<"jmp", 2>>,
      (* 6*) <<"wgdone", "P">>,
      (* 7*) <<"ret">> >> )
  [] f = "pcloser" -> (<<
      (* 1*) <<"wgwait", "P">>,
      (* 2*) <<"close", "ch">>,
      (* 3*) <<"ret">> >> )
  [] f = "consumer" -> (<<
      (* 1*) <<"set", "s", C(0)>>,
      (* 2*) <<"jz", Eq(V("id"), C(1)), 7>>,
      (* 3*) <<"recvok", "ch", "v", "ok">>,
      (* 4*) <<"jz", V("ok"), 10>>,
      (* 5*) <<"set", "s", Add(V("s"), V("v"))>>,
      (* 6*) <<"jmp", 3>>,
      (* 7*) <<"range", "ch", "v", 10>>,
      (* 8*) <<"set", "s", Add(V("s"), V("v"))>>,
      (* 9*) <<"jmp", 7>>,
      (*10*) <<"send", "res", V("s")>>,
      (*11*) <<"ret">> >> )
  [] f = "main_host" -> (<<
      (* 1*) <<"wgadd", "H", V("n")>>,
      (* 2*) <<"set", "i", C(1)>>,
      (* 3*) <<"jz", Le(V("i"), V("n")), 7>>,
      (* 4*) <<"go", "hostcall", <<V("i"), V("m")>>>>,
      (* 5*) Inc("i"),
      (* 6*) <<"jmp", 3>>,
      (* 7*) <<"wgwait", "H">>,
      (* 8*) <<"load", "t", "total">>,
      (* 9*) <<"print", <<C(0), V("t")>>>>,
      (*10*) <<"ret">> >> )
  [] f = "hostcall" -> (<<
      (* 1*) <<"make", "c", C(0)>>,
      (* 2*) <<"go", "hgen", <<V("c"), V("id"), V("m")>>>>,
      (* 3*) <<"set", "s", C(0)>>,
      (* 4*) <<"range", "c", "v", 7>>,
      (* 5*) <<"set", "s", Add(V("s"), V("v"))>>,
      (* 6*) <<"jmp", 4>>,
      (* 7*) <<"lock", "MU">>,
      (* 8*) <<"load", "t", "total">>,
      (* 9*) <<"store", "total", Add(V("t"), V("s"))>>,
      (*10*) <<"unlock", "MU">>,
      (*11*) <<"print", <<V("id"), V("s")>>>>,
      (*12*) <<"wgdone", "H">>,
      (*13*) <<"ret">> >> )
  [] f = "hgen" -> (<<
      (* 1*) <<"set", "j", C(1)>>,
      (* 2*) <<"jz", Le(V("j"), V("m")), 6>>,
      (* 3*) <<"send", "out", Tag("id", "j")>>,
      (* 4*) Inc("j"),
      (* 5*) <<"jmp", 2>>,
      (* 6*) <<"close", "out">>,
      (* 7*) <<"ret">> >> )
  [] f = "main_interps" -> (<<
      (* 1*) <<"wgadd", "H", V("n")>>,
      (* 2*) <<"set", "i", C(1)>>,
      (* 3*) <<"jz", Le(V("i"), V("n")), 7>>,
      (* 4*) <<"goi", "imain", <<V("i"), V("m")>>, V("i")>>,
      (* 5*) Inc("i"),
      (* 6*) <<"jmp", 3>>,
      (* 7*) <<"wgwait", "H">>,
      (* 8*) <<"ret">> >> )
  [] f = "imain" -> (<<
      (* 1*) <<"wgadd", "W", C(1)>>,
      (* 2*) <<"go", "iworker", <<V("id"), V("m")>>>>,
      (* 3*) <<"lock", "MU">>,
      (* 4*) <<"load", "t", "cnt">>,
      (* 5*) <<"store", "cnt", Add(V("t"), V("id"))>>,
      (* 6*) <<"unlock", "MU">>,
      (* 7*) <<"wgwait", "W">>,
      (* 8*) <<"load", "t", "cnt">>,
      (* 9*) <<"print", <<V("id"), V("t")>>>>,
      (*10*) <<"wgdone", "H">>,
      (*11*) <<"ret">> >> )
  [] f = "iworker" -> (<<
      (* 1*) <<"set", "j", C(1)>>,
      (* 2*) <<"jz", Le(V("j"), V("m")), 9>>,
      (* 3*) <<"lock", "MU">>,
      (* 4*) <<"load", "t", "cnt">>,
      (* 5*) <<"store", "cnt", Add(V("t"), V("id"))>>,
      (* 6*) <<"unlock", "MU">>,
      (* 7*) Inc("j"),
      (* 8*) <<"jmp", 2>>,
      (* 9*) <<"wgdone", "W">>,
      (*10*) <<"ret">> >> )]

\* TLC keeps [x \in S |-> e] as an unevaluated function and re-evaluates e at every
\* application; combining with the empty function makes the tables explicit values,
\* computed once when TLC pre-evaluates constant definitions.
TProg == TProgL @@ <<>>
TParams == TParamsL @@ <<>>

\* ------------------------------------------------------------------ instances
Mk(f, n, k, b, m) == [t |-> f, fn |-> "main_" \o f, args |-> <<n, k, b, m>>,
                      n |-> n, k |-> k, b |-> b, m |-> m]
Many == NSet \ {1}
InstancesOf(f) ==
    CASE f = "pipeline" -> {Mk(f, n, k, b, 3) : n \in 0..3, k \in NSet, b \in BSet}      \* n: form of the stage callee
      [] f = "rebind"   -> {Mk(f, n, k, 0, 2) : n \in NSet, k \in 0..3}
      \* (form 3: form 1 whose yielding function ends with `return <-c`, one pinned instance)
      [] f = "iface"    -> {Mk(f, n, k, 0, 2) : n \in NSet, k \in 0..2} \cup {Mk(f, 1, 3, 0, 2)}
      \* pool: k = rendering form of the go statement that starts a worker (0: `go worker(i, jobs, res)`; 1: the
      \* statement stands in a function literal called on the spot, `func() { go func() { worker(i, jobs, res) }() }()`,
      \* so that the goroutine reads the per-iteration variables of the loop through two closure environments)
      [] f = "pool"     -> {Mk(f, n, k, b, 3) : n \in NSet, b \in BSet, k \in {0, 1}}
      [] f = "drain"    -> {Mk(f, n, 0, b, 3) : n \in NSet, b \in BSet}
      \* privsel: b = capacity of quit; k = rendering form of the send case (0: the value is
      \* computed before the select, 1: `case in <- id*10+j`), one pinned instance of form 1
      \* (form 2: form 0 with the two go statements of an iteration inside a function literal called on the spot)
      [] f = "privsel"  -> {Mk(f, n, 0, b, 2) : n \in NSet, b \in BSet \cap {0, 1}} \cup {Mk(f, 1, 1, 0, 2)}
                           \cup {Mk(f, n, 2, 0, 2) : n \in NSet}
      [] f = "counter"  -> {Mk(f, n, k, 0, 2) : n \in Many, k \in {1, 2}}               \* k: rendering form
      [] f = "nolock"   -> {Mk(f, 2, 0, 0, 2)}
      [] f = "earlyclose" -> {Mk(f, 2, 0, 1, 2)}
      [] f = "prodcons" -> {Mk(f, p[1], p[2], b, 2) : p \in {q \in NSet \X NSet : q[1] + q[2] <= PCSum}, b \in BSet}
      [] f = "host"     -> {Mk(f, n, 0, 0, 2) : n \in Many}
      [] f = "interps"  -> {Mk(f, n, 0, 0, 1) : n \in Many}
MkT(p) == Mk(p[1], p[2], p[3], p[4], p[5])
TStarts == IF PickSeq = <<>> THEN UNION {InstancesOf(f) : f \in Families}
           ELSE {MkT(PickSeq[i]) : i \in DOMAIN PickSeq}

THost == {"H"}
TIPs == 0..MaxIP
TWg == {"W", "P", "H"}
TMu == {"MU"}
TGlob == {"cnt", "total"}

\* ------------------------------------------------------- the output each family defines
RECURSIVE Pipe(_, _, _)
Pipe(v, i, k) == IF i > k THEN v ELSE Pipe(2 * v + i, i + 1, k)
RECURSIVE Sum(_, _)
Sum(f, hi) == IF hi = 0 THEN 0 ELSE f[hi] + Sum(f, hi - 1)      \* f[1] + ... + f[hi]
Sq(j) == j * j + 1
SqSum(m) == Sum([j \in 1..m |-> Sq(j)], m)
TagSum(id, m) == Sum([j \in 1..m |-> id * 10 + j], m)
TagSums(n, m) == Sum([i \in 1..n |-> TagSum(i, m)], n)

MultisetOf(i) == i.t \in {"pool", "drain", "privsel", "host", "interps", "rebind", "iface"}

ExpectOf(i) ==
    LET n == i.n  k == i.k  m == i.m IN
    CASE i.t = "pipeline" -> [j \in 1..m |-> <<Pipe(j, 1, k)>>]
      [] i.t \in {"pool", "drain"} -> [j \in 1..m |-> <<1, Sq(j)>>] \o << <<2, SqSum(m)>> >>
      [] i.t = "privsel"  -> [x \in 1..n |-> <<x, TagSum(x, m)>>]
      [] i.t = "iface"    -> [x \in 1..n |-> <<x, x * 100 + (IF x % 2 = 1 THEN 1 ELSE 2) * (x * 10 + m)>>]
      [] i.t = "rebind"   -> [x \in 1..n |-> <<x, x * 100 + x, x * 100 + 1, x * 100 + 2, (x * 10 + m) * 2 + 1>>]
      [] i.t \in {"counter", "nolock"} -> << <<n * m>> >>
      [] i.t = "earlyclose" -> <<>>
      [] i.t = "prodcons" -> << <<TagSums(n, m)>> >>
      [] i.t = "host"     -> [x \in 1..n |-> <<x, TagSum(x, m)>>] \o << <<0, TagSums(n, m)>> >>
      [] i.t = "interps"  -> [x \in 1..n |-> <<x, (m + 1) * x>>]

BagOf(s) == [x \in {s[i] : i \in DOMAIN s} |-> Cardinality({i \in DOMAIN s : s[i] = x})]
===============================================================================
