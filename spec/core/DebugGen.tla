------------------------------- MODULE DebugGen -------------------------------
(* C19 - the quantifier domain of the debugger property: a program of the         *)
(* sequential corpus (GoGen), a breakpoint selection and a resume policy.         *)
(* bsel picks which of the program's breakable lines carry a breakpoint           *)
(* ("none", "all", or a random subset given as a sequence of booleans applied     *)
(* cyclically to the breakable lines in source order; "func" puts a function      *)
(* breakpoint on f instead, "mixed" both in one request); policy is the cyclic sequence of requests the        *)
(* driver issues at successive stops.  The predicted observations are those of    *)
(* the program itself (output, end, and - through the identifiers of its print    *)
(* statements - the order in which breakable lines execute): running under the    *)
(* debugger must not change them (Debug.tla validates the recorded sessions).     *)
EXTENDS GoGen

VARIABLES bsel, policy, setat
dvars == <<prog, res, bsel, policy, setat>>

Kinds4 == {"continue", "into", "over", "out"}
RandPolicy(z) ==
    CASE RandomElement(1..5) = 1 -> <<"continue">>
      [] RandomElement(1..5) = 1 -> <<"into">>
      [] RandomElement(1..6) = 1 -> <<"over">>
      [] RandomElement(1..6) = 1 -> <<"continue", "out">>
      [] OTHER -> [i \in 1..RandomElement(2..6) |-> RandomElement(Kinds4)]
RandSel(z) ==
    CASE RandomElement(1..6) = 1 -> [mode |-> "none", bits |-> <<>>]
      [] RandomElement(1..3) = 1 -> [mode |-> "all", bits |-> <<>>]
      [] RandomElement(1..8) = 1 -> [mode |-> "func", bits |-> <<>>]
      \* a function breakpoint on f AND line breakpoints, set by one request
      [] RandomElement(1..4) = 1 -> [mode |-> "mixed", bits |-> [i \in 1..RandomElement(2..7) |-> RandomElement(BOOLEAN)]]
      [] OTHER -> [mode |-> "subset", bits |-> [i \in 1..RandomElement(2..7) |-> RandomElement(BOOLEAN)]]

\* how the requests reach SetBreakpoints (a call that carries requests of a kind - line, function - replaces the
\* breakpoints of THAT kind; a kind it does not mention is left as it is): all in one call; the lines in one call and
\* the functions in another, in either order (the way debug-adapter clients do it); and, after those, a call without
\* any request, or a call that asks for a function that does not exist when the selection has no function breakpoint:
\* the breakpoints in force are the same in every shape
CallShapes == {"one", "split", "split-rev", "plus-empty", "plus-unknown"}
\* when the breakpoints are installed: before the first resume, or at the entry stop
\* reached by an initial step-into (the way a debug-adapter client does it)
InitDbg == prog = Empty /\ res = Run(Empty) /\ bsel = [mode |-> "none", bits |-> <<>>, calls |-> "one"] /\ policy = <<"continue">> /\ setat = "entry"
NextDbg == /\ prog' = GenProg(prog)
           /\ res' = Run(prog')
           /\ bsel' = LET b == RandSel(prog') IN [mode |-> b.mode, bits |-> b.bits, calls |-> RandomElement(CallShapes)]
           /\ policy' = RandPolicy(prog')
           /\ setat' = IF RandomElement(1..4) = 1 THEN "before" ELSE "entry"
SpecDbg == InitDbg /\ [][NextDbg]_dvars

EmitDbg == Finished =>
    PrintT(<<"BEH", ToJson([prog |-> prog, out |-> res.out, status |-> res.status, pval |-> res.pval,
                            globals |-> res.globals, steps |-> res.steps, tr |-> res.tr, bsel |-> bsel, policy |-> policy, setat |-> setat])>>)
===============================================================================
