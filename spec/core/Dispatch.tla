------------------------------ MODULE Dispatch ------------------------------
(* C05 - method calls and interface operations dispatch as in compiled Go.     *)
(*                                                                             *)
(* A HIERARCHY is a set of struct types T1..Tn.  Ti has a private counter      *)
(* field (which also keeps the types structurally distinct), embeds some of    *)
(* the later types by value or by pointer, and declares, for each abstract     *)
(* method name in {M, N}, nothing, a value-receiver method or a pointer-       *)
(* receiver method.  Every method body records  <defining type>.<name>:<value  *)
(* of the receiver's counter>  in a log and increments the counter of its      *)
(* receiver.  The module states, from the language rules (selectors, method    *)
(* sets, addressability, interface values hold copies, assertions and type     *)
(* switches), which method every call FORM selects, which receiver object it   *)
(* sees and mutates, and which assertion succeeds / which switch clause is     *)
(* taken.  It is used as generator and oracle: a terminal state carries one    *)
(* hierarchy and the list of all legal forms on a T1 object with the predicted *)
(* observation of each; the harness renders them as one Go program.            *)
(*                                                                             *)
(* Each abstract method has several FACES in the rendered program, all         *)
(* declared together on the same type with the same receiver kind:             *)
(*    M : M(), String() string, Len() int, Less(i, j int) bool, Swap(i, j int) *)
(*    N : N(), Error() string, Write([]byte) (int, error)                      *)
(* so that the same hierarchy is seen through interpreted interfaces IM {M},   *)
(* IN {N}, IMN {IM; N} and through the host interfaces fmt.Stringer,           *)
(* sort.Interface (M) and error, io.Writer (N).                                *)
EXTENDS Integers, Sequences, FiniteSets, TLC, Json

CONSTANTS MaxN,     \* exhaustive cfgs: hierarchies of 1..MaxN types; simulation: exactly MaxN types
          Shape,    \* "chain": every type embeds at most one type; "fork": some type embeds two; "any"
          Percent,  \* seeded sub-sampling of the enumeration (100 = all of it)
          Seed,
          Lo, Hi,   \* slice of the global index space enumerated by this run
          Exclude   \* TRUE: the forms of the listed classes (Excluded_F_C05_k) are not generated

Meths == {"M", "N"}
EK    == <<"no", "val", "ptr">>      \* embedding kinds
MK    == <<"none", "val", "ptr">>    \* method declaration kinds
TName == <<"T1", "T2", "T3", "T4">>
PName == <<"PT1", "PT2", "PT3", "PT4">>

Min(S) == CHOOSE x \in S : \A y \in S : x <= y

-------------------------------------------------------------------------------
(* Hierarchies and their numbering.                                            *)
RECURSIVE Pow3(_)
Pow3(k) == IF k = 0 THEN 1 ELSE 3 * Pow3(k - 1)
Digit(x, k) == (x \div Pow3(k)) % 3
NPairs(n) == (n * (n - 1)) \div 2
PairIdx(i, j) == ((j - 1) * (j - 2)) \div 2 + (i - 1)      \* i < j
Total(n) == Pow3(NPairs(n) + 2 * n)
RECURSIVE Offset(_)
Offset(n) == IF n = 1 THEN 0 ELSE Offset(n - 1) + Total(n - 1)

Decode(n, x) ==
    [n    |-> n,
     emb  |-> [i \in 1..n |-> [j \in 1..n |-> IF i < j THEN EK[Digit(x, PairIdx(i, j)) + 1] ELSE "no"]],
     meth |-> [i \in 1..n |-> [m \in Meths |->
                 MK[Digit(x, NPairs(n) + 2 * (i - 1) + (IF m = "N" THEN 1 ELSE 0)) + 1]]]]

Embeds(H, i) == {j \in 1..H.n : H.emb[i][j] # "no"}

\* every type but T1 is embedded somewhere: the whole hierarchy hangs below T1
Connected(H)   == \A j \in 2..H.n : \E i \in 1..(j - 1) : H.emb[i][j] # "no"
SingleEmbed(H) == \A i \in 1..H.n : Cardinality(Embeds(H, i)) <= 1
AtMostTwo(H)   == \A i \in 1..H.n : Cardinality(Embeds(H, i)) <= 2

-------------------------------------------------------------------------------
(* Selectors: the method found at the shallowest depth (path formulation).     *)
Last(p) == p[Len(p)]

RECURSIVE PathSeq(_, _), PathSeqK(_, _, _)
\* all embedding paths that extend p, in depth-first order of declaration
PathSeq(H, p) == <<p>> \o PathSeqK(H, p, 1)
PathSeqK(H, p, j) ==
    IF j > H.n THEN <<>>
    ELSE (IF H.emb[Last(p)][j] # "no" THEN PathSeq(H, Append(p, j)) ELSE <<>>) \o PathSeqK(H, p, j + 1)

PathsOf(H, i) == LET s == PathSeq(H, <<i>>) IN {s[k] : k \in 1..Len(s)}
\* the object at the end of p is reached through at least one pointer: it is shared
\* by every copy of the root value, and it is addressable whatever the root is
Shared(H, p) == \E t \in 2..Len(p) : H.emb[p[t - 1]][p[t]] = "ptr"

Cands(H, i, m) == {p \in PathsOf(H, i) : H.meth[Last(p)][m] # "none"}
Shallowest(H, i, m) ==
    LET C == Cands(H, i, m) IN
    IF C = {} THEN {} ELSE LET d == Min({Len(p) : p \in C}) IN {p \in C : Len(p) = d}
Found(H, i, m)  == Cardinality(Shallowest(H, i, m)) = 1
Lookup(H, i, m) == CHOOSE p \in Shallowest(H, i, m) : TRUE
\* m is in the method set of Ti (addr = FALSE) or *Ti (addr = TRUE): the receiver
\* can be formed from a non-addressable (resp. addressable) Ti
InMS(H, i, m, addr) ==
    /\ Found(H, i, m)
    /\ LET p == Lookup(H, i, m) IN addr \/ H.meth[Last(p)][m] = "val" \/ Shared(H, p)
MethodSet(H, i, addr) == {m \in Meths : InMS(H, i, m, addr)}

-------------------------------------------------------------------------------
(* Method sets, in the wording of the language specification (recursive        *)
(* formulation, used to cross-check the path formulation above).               *)
RECURSIVE DepthOf(_, _, _), NPaths(_, _, _), MSrule(_, _, _, _)
DepthOf(H, i, m) ==      \* depth of the shallowest declaration of m below Ti; 99: none
    IF H.meth[i][m] # "none" THEN 0
    ELSE LET ds == {DepthOf(H, j, m) : j \in Embeds(H, i)} IN
         IF ds = {} \/ Min(ds \cup {99}) >= 99 THEN 99 ELSE Min(ds) + 1
RECURSIVE SumOver(_, _, _)
SumOver(H, S, m) == IF S = {} THEN 0 ELSE LET j == Min(S) IN NPaths(H, j, m) + SumOver(H, S \ {j}, m)
NPaths(H, i, m) ==       \* number of declarations of m at that depth
    IF H.meth[i][m] # "none" THEN 1
    ELSE LET d == DepthOf(H, i, m) IN
         IF d >= 99 THEN 0 ELSE SumOver(H, {j \in Embeds(H, i) : DepthOf(H, j, m) = d - 1}, m)
\* "the method set of S and *S include promoted methods with receiver T; *S also those
\* with receiver *T; if S embeds *T both include those with receiver T or *T"
MSrule(H, i, m, addr) ==
    IF H.meth[i][m] # "none" THEN (H.meth[i][m] = "val" \/ addr)
    ELSE /\ NPaths(H, i, m) = 1
         /\ LET d == DepthOf(H, i, m)
                j == CHOOSE j \in Embeds(H, i) : DepthOf(H, j, m) = d - 1
            IN MSrule(H, j, m, addr \/ H.emb[i][j] = "ptr")

\* selectors are never ambiguous (ambiguous hierarchies are not generated)
Unambiguous(H) == \A i \in 1..H.n, m \in Meths : DepthOf(H, i, m) < 99 => NPaths(H, i, m) = 1
\* some method is declared at two depths of one path (shadowing)
Shadowing(H) == \E m \in Meths, p \in PathsOf(H, 1) :
                   Cardinality({t \in 1..Len(p) : H.meth[p[t]][m] # "none"}) >= 2

-------------------------------------------------------------------------------
(* Interfaces.                                                                  *)
IFaces == {"IM", "IN", "IMN"}                          \* interpreted
HFaces == {"Stringer", "error", "Sort", "Writer"}      \* fmt.Stringer, error, sort.Interface, io.Writer
\* ("IA" {Acc(int) int} and "IB" {Bcc(int) int}: a face with an argument and a result of M resp. N,
\* used by the nested calls of family G)
XFaces == {"IA", "IB"}
IMeths(I) == CASE I \in {"IM", "Stringer", "Sort", "IA"} -> {"M"}
               [] I \in {"IN", "error", "Writer", "IB"}  -> {"N"}
               [] I = "IMN"                         -> {"M", "N"}
               [] OTHER                             -> {}          \* "E": interface{}
\* what the rendered program calls on a value of interface type I: <<abstract method, face>>
Probe(I) == CASE I = "IM"       -> << <<"M", "M">> >>
              [] I = "IN"       -> << <<"N", "N">> >>
              [] I = "IMN"      -> << <<"M", "M">>, <<"N", "N">> >>
              [] I = "Stringer" -> << <<"M", "String">> >>
              [] I = "error"    -> << <<"N", "Error">> >>
              [] I = "Sort"     -> << <<"M", "Len">>, <<"M", "Less">>, <<"M", "Swap">> >>
              [] I = "Writer"   -> << <<"N", "Write">> >>
              [] OTHER          -> <<>>

\* dynamic types of the forms: "val" = T1, "ptr" = *T1, "nil"
Implements(H, i, addr, I) == \A m \in IMeths(I) : MSrule(H, i, m, addr)

ImplD(H, d, I) == d # "nil" /\ I \in H.imp[d = "ptr"]
ImplJ(H, j, d, I) == d # "nil" /\ I \in H.impj[j][d = "ptr"]      \* dynamic type Tj / *Tj

TIdx(t) == CHOOSE j \in 1..4 : t = TName[j] \/ t = PName[j]
IsT(t)  == \E j \in 1..4 : t = TName[j]
IsPT(t) == \E j \in 1..4 : t = PName[j]
IsI(t)  == t \in IFaces \cup HFaces \cup {"E"}

\* x.(t) with x of static type S compiles: a concrete t must implement S
StaticOK(H, S, t) ==
    CASE IsI(t) \/ t = "nil" -> TRUE
      [] t = "int"           -> S = "E"
      [] IsT(t)              -> IMeths(S) \subseteq H.mst[TIdx(t)]
      [] IsPT(t)             -> IMeths(S) \subseteq H.mspt[TIdx(t)]

\* the dynamic type d passes x.(t) / matches  case t
\* (j: the dynamic type is Tj for d = "val", *Tj for d = "ptr")
AssertOkJ(H, j, d, t) ==
    CASE d = "nil" -> t = "nil"
      [] t = "nil" -> FALSE
      [] t = "int" -> FALSE
      [] IsT(t)    -> d = "val" /\ TIdx(t) = j
      [] IsPT(t)   -> d = "ptr" /\ TIdx(t) = j
      [] OTHER     -> IMeths(t) \subseteq (IF d = "ptr" THEN H.mspt[j] ELSE H.mst[j])
AssertOk(H, d, t) == AssertOkJ(H, 1, d, t)

\* index of the first clause with a matching type, 0 = default
RECURSIVE SwitchFrom(_, _, _, _, _)
SwitchFrom(H, j, d, cl, k) ==
    IF k > Len(cl) THEN 0
    ELSE IF \E u \in 1..Len(cl[k]) : AssertOkJ(H, j, d, cl[k][u]) THEN k
    ELSE SwitchFrom(H, j, d, cl, k + 1)
SwitchBranchJ(H, j, d, cl) == SwitchFrom(H, j, d, cl, 1)
SwitchBranch(H, d, cl) == SwitchBranchJ(H, 1, d, cl)

-------------------------------------------------------------------------------
(* Memory.  The T1 object under test consists of one counter per embedding     *)
(* path; F.ps lists the paths, cells are numbered, an INSTANCE maps path       *)
(* positions to cells.  Copying a T1 value copies the cells that are not       *)
(* behind a pointer and shares the others.                                     *)
\* (r: the root type of the object; the forms A-E use r = 1)
FactsR(H, r) ==
    LET ps == PathSeq(H, <<r>>)
        pos(p) == CHOOSE k \in 1..Len(ps) : ps[k] = p
    IN [ps    |-> ps,
        np    |-> Len(ps),
        sh    |-> [k \in 1..Len(ps) |-> Shared(H, ps[k])],
        found |-> [m \in Meths |-> Found(H, r, m)],
        pos   |-> [m \in Meths |-> IF Found(H, r, m) THEN pos(Lookup(H, r, m)) ELSE 0],
        def   |-> [m \in Meths |-> IF Found(H, r, m) THEN Last(Lookup(H, r, m)) ELSE 0],
        depth |-> [m \in Meths |-> IF Found(H, r, m) THEN Len(Lookup(H, r, m)) - 1 ELSE 0],
        rk    |-> [m \in Meths |-> IF Found(H, r, m) THEN H.meth[Last(Lookup(H, r, m))][m] ELSE "none"],
        \* the declaration met first when the embedded fields are searched depth-first in
        \* declaration order is not the shallowest one
        dfs   |-> [m \in Meths |->
                    /\ Found(H, r, m)
                    /\ LET first == Min({k \in 1..Len(ps) : H.meth[Last(ps[k])][m] # "none"}) IN ps[first] # Lookup(H, r, m)],
        msv   |-> MethodSet(H, r, FALSE),
        msp   |-> MethodSet(H, r, TRUE)]

Facts(H) == FactsR(H, 1)
FactsAll(H) == [j \in 1..H.n |-> FactsR(H, j)]

\* A hierarchy with its method sets tabulated (TLC re-evaluates operators at every use;
\* the forms below are computed on the tabulated hierarchy, the invariants on the plain one).
Ext(H) == [n |-> H.n, emb |-> H.emb, meth |-> H.meth,
           mst  |-> [j \in 1..H.n |-> MethodSet(H, j, FALSE)],
           mspt |-> [j \in 1..H.n |-> MethodSet(H, j, TRUE)],
           imp  |-> [a \in BOOLEAN |-> {I \in IFaces \cup HFaces \cup XFaces \cup {"E"} : Implements(H, 1, a, I)}],
           impj |-> [j \in 1..H.n |-> [a \in BOOLEAN |-> {I \in IFaces \cup HFaces \cup XFaces \cup {"E"} : Implements(H, j, a, I)}]],
           \* the facts about every root type (shared-site forms, classes)
           fj   |-> FactsAll(H),
           \* receiver kind of the method that Tj.m denotes
           rkj  |-> [j \in 1..H.n |-> [m \in Meths |->
                      IF Found(H, j, m) THEN H.meth[Last(Lookup(H, j, m))][m] ELSE "none"]]]

MSD(F, d) == IF d = "ptr" THEN F.msp ELSE IF d = "val" THEN F.msv ELSE {}

Ident(F)  == [k \in 1..F.np |-> k]                       \* the variable v
Fresh(F)  == [store |-> [k \in 1..F.np |-> 10 * k], log |-> <<>>]
\* a second, independent object (what mk() returns)
Alloc(F, st) == [st |-> [st EXCEPT !.store = st.store \o [k \in 1..F.np |-> 10 * k]],
                 inst |-> [k \in 1..F.np |-> Len(st.store) + k]]
Copy(F, st, inst) ==
    [st   |-> [st EXCEPT !.store = st.store \o [k \in 1..F.np |-> st.store[inst[k]]]],
     inst |-> [k \in 1..F.np |-> IF F.sh[k] THEN inst[k] ELSE Len(st.store) + k]]
\* mut(&v): every counter reachable from v grows by 100
Mut(F, st, inst) ==
    [st EXCEPT !.store = [c \in 1..Len(st.store) |->
        IF \E k \in 1..F.np : inst[k] = c THEN st.store[c] + 100 ELSE st.store[c]]]
Cells(F, st, inst) == [k \in 1..F.np |-> st.store[inst[k]]]

\* CallTarget: the method selected for m on a T1 object, the receiver cell, and the
\* effect of its body: it logs the counter it sees; only a pointer receiver's
\* increment lands in the object (a value receiver increments its private copy)
Entry(F, face, m, seen) == [t |-> F.def[m], f |-> face, c |-> seen]
Call(F, st, inst, mf) ==
    LET m == mf[1]
        a == inst[F.pos[m]]
    IN [store |-> IF F.rk[m] = "ptr" THEN [st.store EXCEPT ![a] = @ + 1] ELSE st.store,
        log   |-> Append(st.log, Entry(F, mf[2], m, st.store[a]))]
RECURSIVE Calls(_, _, _, _)
Calls(F, st, inst, mfs) == IF mfs = <<>> THEN st ELSE Calls(F, Call(F, st, inst, Head(mfs)), inst, Tail(mfs))

\* storing v (d = "val": a copy) or &v (d = "ptr") in an interface value
Capture(F, st, d) == IF d = "val" THEN Copy(F, st, Ident(F)) ELSE [st |-> st, inst |-> Ident(F)]

\* The object as the form sees it when it starts to use the captured value: v is made,
\* mutated (mut(&v)) and captured in an interface value.  Ordinary forms mutate first;
\* the "late" forms (kind ending in c) capture first and mutate afterwards, which tells
\* a copy from an alias.  alias = TRUE is the WRONG semantics (the interface value refers
\* to the variable), used only to decide whether a form can tell the difference.
Held(F, d, late, alias) ==
    LET v == Ident(F)
        cap(st) == IF d = "nil" \/ alias THEN [st |-> st, inst |-> v] ELSE Capture(F, st, d)
    IN IF late THEN LET c == cap(Fresh(F)) IN [st |-> Mut(F, c.st, v), inst |-> c.inst]
       ELSE cap(Mut(F, Fresh(F), v))

-------------------------------------------------------------------------------
(* Features of a form, for signatures of failures: how the methods the form    *)
(* depends on are found from T1.                                               *)
Feat(F, R, d) ==
       {"prom"    : m \in {m \in R : F.found[m] /\ F.depth[m] > 0}}
  \cup {"ptrrecv" : m \in {m \in R : F.rk[m] = "ptr"}}
  \cup {"valrecv" : m \in {m \in R : F.rk[m] = "val"}}
  \cup {"viaptr"  : m \in {m \in R : F.found[m] /\ F.sh[F.pos[m]]}}
  \cup {"ptronly" : m \in {m \in R : m \in F.msp /\ m \notin F.msv}}
  \cup {"missing" : m \in {m \in R : ~F.found[m]}}
  \cup {"both"    : m \in {m \in R : Meths \subseteq MSD(F, d)}}

Base == [k |-> "", s |-> "", d |-> "", t |-> "", m |-> "", cl |-> <<>>, lb |-> <<>>, r |-> "",
         log |-> <<>>, fin |-> <<>>, aux |-> <<>>, ft |-> {}, fs |-> {}, x |-> "",
         j |-> 1, o |-> ""]     \* j: root type of the dynamic value; o: order (shared-site forms)

Obs(F, b, r, st, aux) == [b EXCEPT !.r = r, !.log = st.log, !.fin = Cells(F, st, Ident(F)), !.aux = aux]

\* a late form is of class "copy" when the aliasing semantics would be observed differently
Late(good, bad) == [good EXCEPT !.x = IF good.log # bad.log \/ good.aux # bad.aux \/ good.fin # bad.fin
                                       THEN "copy" ELSE ""]

SeqOfSet(S, ord) == LET idx == {k \in 1..Len(ord) : ord[k] \in S} IN
                    [u \in 1..Cardinality(idx) |-> ord[CHOOSE k \in idx : Cardinality({q \in idx : q < k}) = u - 1]]
RECURSIVE Flat(_)
Flat(ss) == IF ss = <<>> THEN <<>> ELSE Head(ss) \o Flat(Tail(ss))

MOrd == <<"M", "N">>
DOrd == <<"val", "ptr">>

-------------------------------------------------------------------------------
(* A. static calls, method values, method expressions.                         *)
StaticForms(H, F) ==
    LET v  == Ident(F)
        s0 == Fresh(F)
        s1 == Mut(F, s0, v)
        one(kind, m) ==
            LET b  == [Base EXCEPT !.k = kind, !.m = m, !.ft = Feat(F, {m}, IF kind \in {"calltmp", "mexpv", "mexpvf"} THEN "val" ELSE "ptr")]
                mf == <<m, m>>
                atcall == Obs(F, b, "ok", Call(F, s1, v, mf), <<>>)
            IN CASE kind \in {"callv", "callp", "mexpp", "mexppf", "mvalv", "mvalp"} ->   \* v.m()  p.m()  (*T1).m(&v)  f := v.m; f()
                      IF F.found[m] THEN <<atcall>> ELSE <<>>
                 [] kind \in {"mvalv2", "mvalp2"} ->                            \* f := v.m; f(); f() : every call of a method value
                      \* with a value receiver works on its own copy of the bound receiver (the second call sees what the first saw)
                      IF F.found[m] THEN <<Obs(F, b, "ok", Calls(F, s1, v, <<mf, mf>>), <<>>)>> ELSE <<>>
                 [] kind = "calltmp" ->                                         \* mk().m()
                      IF m \in F.msv THEN LET a == Alloc(F, s1) IN <<Obs(F, b, "ok", Call(F, a.st, a.inst, mf), <<>>)>> ELSE <<>>
                 [] kind \in {"mvalvc", "mvalpc"} ->                            \* f := v.m; mut(&v); f()
                      IF ~F.found[m] THEN <<>>
                      ELSE IF F.rk[m] = "val"                                   \* receiver copied when the method value is made
                        THEN <<Late(Obs(F, b, "ok", [s1 EXCEPT !.log = <<Entry(F, m, m, s0.store[v[F.pos[m]]])>>], <<>>), atcall)>>
                        ELSE <<Late(atcall, atcall)>>
                 [] kind \in {"mexpv", "mexpvf"} ->                             \* T1.m(v): the argument is a copy
                      IF m \in F.msv THEN LET c == Copy(F, s1, v) IN <<Obs(F, b, "ok", Call(F, c.st, c.inst, mf), <<>>)>> ELSE <<>>
        KOrd == <<"callv", "callp", "calltmp", "mvalv", "mvalp", "mvalv2", "mvalp2", "mvalvc", "mvalpc", "mexpv", "mexpp", "mexpvf", "mexppf">>
    IN Flat([i \in 1..(2 * Len(KOrd)) |-> one(KOrd[((i - 1) \div 2) + 1], MOrd[((i - 1) % 2) + 1])])

-------------------------------------------------------------------------------
(* B. calls through interface values.                                          *)
IOrd == <<"IM", "IN", "IMN">>
HOrd == <<"Stringer", "error", "Sort", "Writer">>

\* var i I = v|&v; every method of I called on i
ThroughIface(F, b, I, d, late) ==
    LET go(alias) == LET hd == Held(F, d, late, alias) IN Obs(F, b, "ok", Calls(F, hd.st, hd.inst, Probe(I)), <<>>)
    IN IF late THEN Late(go(FALSE), go(TRUE)) ELSE go(FALSE)

IfaceForms(H, F) ==
    LET call(kind, I, d, late) ==
            IF ImplD(H, d, I)
            THEN <<ThroughIface(F, [Base EXCEPT !.k = kind, !.s = I, !.d = d, !.ft = Feat(F, IMeths(I), d)], I, d, late)>>
            ELSE <<>>
        conv(I, J, d) ==              \* var i I = ..; var j J = i; calls on j
            IF ImplD(H, d, I)
            THEN <<ThroughIface(F, [Base EXCEPT !.k = "iconv", !.s = I, !.t = J, !.d = d, !.ft = Feat(F, IMeths(J), d)], J, d, FALSE)>>
            ELSE <<>>
        nilcall(I) == <<[Base EXCEPT !.k = "inil", !.s = I, !.d = "nil", !.r = "panic"]>>
    IN    Flat([i \in 1..6  |-> call("icall", IOrd[((i - 1) \div 2) + 1], DOrd[((i - 1) % 2) + 1], FALSE)])
       \o Flat([i \in 1..6  |-> call("imval", IOrd[((i - 1) \div 2) + 1], DOrd[((i - 1) % 2) + 1], FALSE)])
       \o Flat([i \in 1..8  |-> call("hcall", HOrd[((i - 1) \div 2) + 1], DOrd[((i - 1) % 2) + 1], FALSE)])
       \o Flat([i \in 1..3  |-> call("icallc", IOrd[i], "val", TRUE)])
       \o Flat([i \in 1..3  |-> call("imvalc", IOrd[i], "val", TRUE)])
       \o Flat([i \in 1..4  |-> call("hcallc", HOrd[i], "val", TRUE)])
       \o Flat([i \in 1..2  |-> conv("IMN", "IM", DOrd[i]) \o conv("IMN", "IN", DOrd[i])])
       \o Flat([i \in 1..3  |-> nilcall(IOrd[i])])

-------------------------------------------------------------------------------
(* C. type assertions, D. type switches.                                       *)
SOrd == <<"E", "IM", "IN", "error", "Stringer">>
D3   == <<"val", "ptr", "nil">>
Targets(H) == Flat([j \in 1..H.n |-> <<TName[j], PName[j]>>]) \o IOrd \o HOrd \o <<"E", "int">>
LateTargets == <<"T1", "IM", "IN", "Stringer", "error">>

\* what the program does with the asserted value y of type t (d is its dynamic type)
ProbeAs(F, st, inst, d, t) ==
    CASE IsT(t)  -> LET c == Copy(F, st, inst) IN [st |-> st, aux |-> Cells(F, c.st, c.inst)]   \* st(&y)
      [] IsPT(t) -> [st |-> st, aux |-> Cells(F, st, inst)]                                       \* y == &v, st(y)
      [] OTHER   -> [st |-> Calls(F, st, inst, Probe(t)), aux |-> <<>>]

AssertForm(H, F, S, d, t, two, late) ==
    IF ~((d = "nil" \/ ImplD(H, d, S)) /\ StaticOK(H, S, t)) THEN <<>>
    ELSE LET b  == [Base EXCEPT !.k = (IF two THEN "assert2" ELSE "assert1") \o (IF late THEN "c" ELSE ""),
                                !.s = S, !.d = d, !.t = t,
                                !.fs = Feat(F, IMeths(S), d), !.ft = Feat(F, IMeths(t), d)]
             ok == AssertOk(H, d, t)
             go(alias) ==
                LET hd == Held(F, d, late, alias)
                    pr == IF ok THEN ProbeAs(F, hd.st, hd.inst, d, t) ELSE [st |-> hd.st, aux |-> <<>>]
                IN Obs(F, b, IF two THEN (IF ok THEN "true" ELSE "false") ELSE (IF ok THEN "ok" ELSE "panic"), pr.st, pr.aux)
         IN IF late THEN <<Late(go(FALSE), go(TRUE))>> ELSE <<go(FALSE)>>

AssertForms(H, F) ==
    LET ts == Targets(H) IN
    Flat([i \in 1..(5 * 3) |->
      LET S == SOrd[((i - 1) \div 3) + 1]
          d == D3[((i - 1) % 3) + 1]
      IN Flat([u \in 1..(2 * Len(ts)) |->
                LET t == ts[((u - 1) \div 2) + 1] IN
                \* a one-result assertion on a nil interface always panics: three targets are enough
                IF d = "nil" /\ u % 2 = 1 /\ t \notin {"T1", "IM", "Stringer"} THEN <<>>
                ELSE AssertForm(H, F, S, d, t, u % 2 = 0, FALSE)])])
    \o Flat([i \in 1..5 |-> Flat([u \in 1..Len(LateTargets) |-> AssertForm(H, F, SOrd[i], "val", LateTargets[u], TRUE, TRUE)])])

\* clause templates; impossible cases (compile errors) are dropped, clause labels kept
Templates(H) ==
    [conc  |-> Flat([j \in 1..H.n |-> << <<TName[j]>>, <<PName[j]>> >>]) \o << <<"nil">> >>,
     ifc   |-> << <<"IMN">>, <<"IM">>, <<"IN">> >>,
     ifr   |-> << <<"IN">>, <<"IM">>, <<"IMN">>, <<"E">> >>,
     host  |-> << <<"Sort">>, <<"Writer">>, <<"error">>, <<"Stringer">> >>,
     mix   |-> (IF H.n >= 2 THEN << <<TName[H.n], PName[H.n]>> >> ELSE <<>>)
               \o << <<"nil", "int">>, <<"IMN", "PT1">>, <<"Writer", "T1">>, <<"IM", "IN">> >>]
TOrd == <<"conc", "ifc", "ifr", "host", "mix">>

SwitchForm(H, F, S, d, tn) ==
    IF ~(d = "nil" \/ ImplD(H, d, S)) THEN <<>>
    ELSE LET raw  == Templates(H)[tn]
             legal(t) == StaticOK(H, S, t)
             cut  == [k \in 1..Len(raw) |-> SelectSeq(raw[k], legal)]
             keep == {k \in 1..Len(raw) : cut[k] # <<>>}
             lb   == SeqOfSet(keep, [k \in 1..Len(raw) |-> k])
             cl   == [u \in 1..Len(lb) |-> cut[lb[u]]]
             br   == SwitchBranch(H, d, cl)
             bind == tn # "mix"
             b    == [Base EXCEPT !.k = "switch", !.s = S, !.d = d, !.t = tn, !.cl = cl, !.lb = lb,
                                  !.m = IF bind THEN "bind" ELSE "",
                                  !.fs = Feat(F, IMeths(S), d),
                                  !.ft = Feat(F, UNION {UNION {IMeths(cl[u][w]) : w \in 1..Len(cl[u])} : u \in 1..Len(cl)}, d)]
             hd   == Held(F, d, FALSE, FALSE)
             pr   == IF br > 0 /\ bind /\ d # "nil" THEN ProbeAs(F, hd.st, hd.inst, d, cl[br][1]) ELSE [st |-> hd.st, aux |-> <<>>]
         IN <<Obs(F, b, IF br = 0 THEN "def" ELSE ToString(lb[br]), pr.st, pr.aux)>>

SwitchForms(H, F) ==
    Flat([i \in 1..(5 * 3) |->
      LET S == SOrd[((i - 1) \div 3) + 1]
          d == D3[((i - 1) % 3) + 1]
      IN Flat([u \in 1..5 |-> SwitchForm(H, F, S, d, TOrd[u])])])

-------------------------------------------------------------------------------
(* E. interpreted values handed to compiled code that expects an interface.    *)
\* fmt looks for error first, then for fmt.Stringer
FmtFace(F, d) == IF "N" \in MSD(F, d) THEN <<"N", "Error">> ELSE <<"M", "String">>

HostForms(H, F) ==
    LET direct(kind, d, legal, mfs) ==         \* the argument v|&v is evaluated after mut(&v)
            IF ~legal THEN <<>>
            ELSE LET a == Held(F, d, FALSE, FALSE) IN
                 <<Obs(F, [Base EXCEPT !.k = kind, !.d = d, !.ft = Feat(F, {mfs[u][1] : u \in 1..Len(mfs)}, d)],
                       "ok", Calls(F, a.st, a.inst, mfs), <<>>)>>
        viaI(I, d) ==                  \* var i I = v|&v; fmt.Sprint(i)
            IF ~ImplD(H, d, I) THEN <<>>
            ELSE LET a == Held(F, d, FALSE, FALSE)
                 IN <<Obs(F, [Base EXCEPT !.k = "sprinti", !.s = I, !.d = d, !.ft = Feat(F, {FmtFace(F, d)[1]}, d)],
                          "ok", Call(F, a.st, a.inst, FmtFace(F, d)), <<>>)>>
    IN Flat([i \in 1..2 |-> LET d == DOrd[i] IN
                direct("sprint", d, MSD(F, d) # {}, <<FmtFace(F, d)>>)
             \o direct("errorf", d, MSD(F, d) # {}, <<FmtFace(F, d)>>)
             \o direct("sort",   d, "M" \in MSD(F, d), Probe("Sort"))
             \o direct("fprint", d, "N" \in MSD(F, d), Probe("Writer"))
             \* io.Copy looks for an OPTIONAL second interface in the dynamic value it is given: io.WriterTo
             \* in the source (faces Read of M, WriteTo of N), io.ReaderFrom in the destination (faces Write
             \* of N, ReadFrom of M); the method set of the dynamic type decides, promoted methods included
             \o direct("copysrc", d, "M" \in MSD(F, d),
                       IF "N" \in MSD(F, d) THEN << <<"N", "WriteTo">> >> ELSE << <<"M", "Read">> >>)
             \o direct("copydst", d, "N" \in MSD(F, d),
                       IF "M" \in MSD(F, d) THEN << <<"M", "ReadFrom">> >> ELSE << <<"N", "Write">> >>)
             \o viaI("IM", d) \o viaI("IN", d) \o viaI("IMN", d)])

-------------------------------------------------------------------------------
(* F. shared sites.  One helper function holds the assertion (one- and two-    *)
(* result), the type switch or the call through an interface; it is called     *)
(* successively with every dynamic value of the hierarchy that its parameter   *)
(* type admits (Tj and *Tj for every j, and a nil interface), in two orders:   *)
(* matching values first (o = "1") and non-matching values first (o = "2").    *)
(* The verdict of a site is a function of the value it is given, not of the    *)
(* values it has seen before (InvSiteHistoryFree): every call is predicted by  *)
(* the same AssertOk / SwitchBranch / Call as the single-use forms.  The       *)
(* objects are fresh (mkj(), counters 10 * position, no mutation).             *)
SSrc  == <<"E", "IM", "IN">>
STgt  == <<"IM", "IN", "IMN", "Stringer", "T1", "PT1">>
STmpl == <<"conc", "ifc", "host", "mix">>

DynVals(H, S) ==       \* <<j, d>> the parameter type S admits
    SelectSeq(Flat([j \in 1..H.n |-> << <<j, "val">>, <<j, "ptr">> >>]), LAMBDA v : ImplJ(H, v[1], v[2], S))
Reverse(q) == [i \in 1..Len(q) |-> q[Len(q) + 1 - i]]
Ordered(vals, Match(_), o, withNil) ==
    LET yes == SelectSeq(vals, Match)
        no  == SelectSeq(vals, LAMBDA v : ~Match(v))
        nl  == IF withNil THEN << <<1, "nil">> >> ELSE <<>>
    IN IF o = "1" THEN yes \o no \o nl ELSE nl \o Reverse(no) \o Reverse(yes)

SObs(FJ, b, r, v, t, probe) ==         \* observation of one call of the site with the value v
    LET F  == FJ[v[1]]
        hd == IF v[2] = "nil" THEN [st |-> Fresh(F), inst |-> Ident(F)] ELSE Capture(F, Fresh(F), v[2])
        st == IF probe /\ IsI(t) THEN Calls(F, hd.st, hd.inst, Probe(t)) ELSE hd.st
    IN [b EXCEPT !.r = r, !.log = st.log, !.j = v[1], !.d = v[2]]

SharedForms(H, F1) ==
    LET FJ == H.fj
        feat(v, R) == IF v[2] = "nil" THEN {} ELSE Feat(FJ[v[1]], R, v[2])
        assertSite(S, t, two, o) ==
            IF ~StaticOK(H, S, t) THEN <<>>
            ELSE LET vs == Ordered(DynVals(H, S), LAMBDA v : AssertOkJ(H, v[1], v[2], t), o, two)
                 IN [i \in 1..Len(vs) |->
                       LET v  == vs[i]
                           ok == AssertOkJ(H, v[1], v[2], t)
                           b  == [Base EXCEPT !.k = IF two THEN "sassert2" ELSE "sassert1", !.s = S, !.t = t, !.o = o,
                                              !.fs = feat(v, IMeths(S)), !.ft = feat(v, IMeths(t))]
                       IN SObs(FJ, b, IF two THEN (IF ok THEN "true" ELSE "false") ELSE (IF ok THEN "ok" ELSE "panic"), v, t, ok)]
        switchSite(S, tn, o) ==
            LET raw  == Templates(H)[tn]
                legal(t) == StaticOK(H, S, t)
                cut  == [k \in 1..Len(raw) |-> SelectSeq(raw[k], legal)]
                keep == {k \in 1..Len(raw) : cut[k] # <<>>}
                lb   == SeqOfSet(keep, [k \in 1..Len(raw) |-> k])
                cl   == [u \in 1..Len(lb) |-> cut[lb[u]]]
                bind == tn # "mix"
                vs   == Ordered(DynVals(H, S), LAMBDA v : SwitchBranchJ(H, v[1], v[2], cl) # 0, o, TRUE)
            IN [i \in 1..Len(vs) |->
                  LET v  == vs[i]
                      br == SwitchBranchJ(H, v[1], v[2], cl)
                      b  == [Base EXCEPT !.k = "sswitch", !.s = S, !.t = tn, !.cl = cl, !.lb = lb, !.o = o,
                                         !.m = IF bind THEN "bind" ELSE "",
                                         !.fs = feat(v, IMeths(S)),
                                         !.ft = feat(v, UNION {UNION {IMeths(cl[u][w]) : w \in 1..Len(cl[u])} : u \in 1..Len(cl)})]
                  IN SObs(FJ, b, IF br = 0 THEN "def" ELSE ToString(lb[br]), v,
                          IF br > 0 THEN cl[br][1] ELSE "nil", br > 0 /\ bind /\ v[2] # "nil")]
        callSite(I, o) ==
            LET vs == Ordered(DynVals(H, I), LAMBDA v : v[2] = "val", o, FALSE)
            IN [i \in 1..Len(vs) |->
                  SObs(FJ, [Base EXCEPT !.k = "scall", !.s = I, !.o = o, !.ft = feat(vs[i], IMeths(I))], "ok", vs[i], I, TRUE)]
        O2 == <<"1", "2">>
    IN    Flat([i \in 1..(Len(SSrc) * Len(STgt)) |->
                 LET S == SSrc[((i - 1) \div Len(STgt)) + 1]
                     t == STgt[((i - 1) % Len(STgt)) + 1]
                 IN assertSite(S, t, TRUE, "1") \o assertSite(S, t, TRUE, "2") \o assertSite(S, t, FALSE, "1")])
       \o Flat([i \in 1..(Len(SSrc) * Len(STmpl)) |->
                 LET S  == SSrc[((i - 1) \div Len(STmpl)) + 1]
                     tn == STmpl[((i - 1) % Len(STmpl)) + 1]
                 IN switchSite(S, tn, "1") \o switchSite(S, tn, "2")])
       \o Flat([i \in 1..6 |-> callSite(IOrd[((i - 1) \div 2) + 1], O2[((i - 1) % 2) + 1])])

-------------------------------------------------------------------------------
(* G. one interface method bound on two receivers.  The object a is v (a T1,   *)
(* mutated: counters >= 110), the object b is a fresh w of type T1 or of any   *)
(* Tj from which the selector denotes the SAME method declaration (counters    *)
(* < 100); both are held by interface values i, j of one interface type.  The  *)
(* second binding is placed between the first binding and its call:            *)
(*   nest   : r := i.Acc(j.Acc(1))        (j's call runs first, then i's)      *)
(*   mvpair : h := i.M; k := j.M; h(); k()                                     *)
(*   mvcall : h := i.M; j.M(); h()                                             *)
(* Each call runs on the dynamic value of ITS interface value: the prediction  *)
(* is made of the per-object states (InvOwnReceiver).                          *)
TwoKinds == {"nest", "mvpair", "mvcall"}
TwoRecvForms(H, F1) ==
    LET FJ == H.fj
        one(kind, m, da, j, db) ==
            LET I    == IF kind = "nest" THEN (IF m = "M" THEN "IA" ELSE "IB") ELSE (IF m = "M" THEN "IM" ELSE "IN")
                face == IF kind = "nest" THEN (IF m = "M" THEN "Acc" ELSE "Bcc") ELSE m
            IN IF ~(ImplD(H, da, I) /\ ImplJ(H, j, db, I) /\ FJ[j].def[m] = F1.def[m]) THEN <<>>
               ELSE LET Fb == FJ[j]
                        ha == Held(F1, da, FALSE, FALSE)
                        sa == Call(F1, ha.st, ha.inst, <<m, face>>)
                        hb == Capture(Fb, Fresh(Fb), db)
                        sb == Call(Fb, hb.st, hb.inst, <<m, face>>)
                        b  == [Base EXCEPT !.k = kind, !.s = I, !.m = m, !.d = da, !.t = db, !.j = j,
                                           !.ft = Feat(F1, {m}, da) \cup Feat(Fb, {m}, db)]
                    IN <<[b EXCEPT !.r = "ok",
                                   !.log = IF kind = "mvpair" THEN <<sa.log[1], sb.log[1]>> ELSE <<sb.log[1], sa.log[1]>>,
                                   !.fin = Cells(F1, sa, Ident(F1)), !.aux = Cells(Fb, sb, Ident(Fb))]>>
        KO == <<"nest", "mvpair", "mvcall">>
    IN Flat([i \in 1..(3 * 2 * 2) |->
              LET kind == KO[((i - 1) \div 4) + 1]
                  m    == MOrd[(((i - 1) \div 2) % 2) + 1]
                  da   == DOrd[((i - 1) % 2) + 1]
              IN Flat([u \in 1..(2 * H.n) |-> one(kind, m, da, ((u - 1) \div 2) + 1, DOrd[((u - 1) % 2) + 1])])])

-------------------------------------------------------------------------------
(* Classes of forms on which the unchanged interpreter is known to deviate     *)
(* (/verif/known-findings.json, one class per root cause).  The class of a     *)
(* form is computed from the model-level case only; it is the trigger part of  *)
(* the signature of a failure.  A class may be wider than the defect (some of  *)
(* its members behave correctly); it is never narrower on the unchanged tree.  *)
(* The seeded tier does not generate the classes (operators Excluded_F_C05_k), the *)
(* exhaustive tier runs them and reports the listed findings.                  *)
NameOK(F, t) == \A m \in IMeths(t) : F.found[m]         \* every method of t exists by NAME, whatever its receiver
IsAssert(f)  == f.k \in {"assert1", "assert2", "assert2c", "sassert1", "sassert2"}
IsSwitch(f)  == f.k \in {"switch", "sswitch"}
HostSrc(f)   == f.s \in {"error", "Stringer"}
OkExpected(f) == f.r \in {"true", "ok"}

\* first clause holding a type IDENTICAL to the dynamic type (what matching by type identity gives)
RECURSIVE IdFrom(_, _, _, _)
IdFrom(j, d, cl, k) ==
    IF k > Len(cl) THEN 0
    ELSE IF \E u \in 1..Len(cl[k]) : (d = "val" /\ cl[k][u] = TName[j]) \/ (d = "ptr" /\ cl[k][u] = PName[j]) THEN k
    ELSE IdFrom(j, d, cl, k + 1)
HasCase(f, S) == \E u \in 1..Len(f.cl) : \E w \in 1..Len(f.cl[u]) : f.cl[u][w] \in S

\* F-C05-1 (DESIGN 5.11: interface targets decided from method NAMES / type identity) is REPAIRED in /repo
\* (6be2139 "type switch on interpreter values with methods, and on interfaces", fb73092 "use the Go
\* method set of the dynamic type in type switches", which also gave typeAssert dynMethods()): the
\* exclusion is lifted, its forms are generated by every tier again.
IdBranch(f) == LET b == IdFrom(f.j, f.d, f.cl, 1) IN IF b = 0 THEN "def" ELSE ToString(f.lb[b])
\* T1 (resp. *T1 for d = "ptr") declares no method of its own that the dynamic type has
NoDirect(F, d) == ~\E m \in Meths : F.found[m] /\ F.depth[m] = 0 /\ (d = "val" \/ F.rk[m] = "ptr")
\* F-C05-2: a nil value of an interpreted interface type in a two-result assertion to an interpreted
\* or empty interface type (the other nil cases were repaired: cedeaa8, 6be2139)
Excluded_F_C05_2(F, f) ==
    f.k \in {"assert2", "assert2c", "sassert2"} /\ f.d = "nil" /\ f.s \in IFaces /\ f.t \in IFaces \cup {"E"}
\* F-C05-3: interface{} source holding an interpreted struct or pointer: successful assertions to
\* an interpreted interface type; to a host or empty interface type, and interface clauses of a type
\* switch, when the dynamic type declares no method of its own
Excluded_F_C05_3(F, f) ==
    \/ /\ IsAssert(f) /\ f.s = "E" /\ f.d # "nil" /\ OkExpected(f)
       /\ \/ f.t \in IFaces
          \/ f.t \in HFaces \cup {"E"} /\ NoDirect(F, f.d)
    \/ IsSwitch(f) /\ f.s = "E" /\ f.d # "nil" /\ NoDirect(F, f.d) /\ f.r # IdBranch(f)
\* F-C05-4: source of a host interface type (error, fmt.Stringer) holding an interpreted value
Excluded_F_C05_4(F, f) ==
    \/ /\ IsAssert(f) /\ HostSrc(f) /\ f.d # "nil"
       /\ \/ OkExpected(f) /\ f.t # f.s /\ f.t # PName[f.j]
          \/ ~OkExpected(f) /\ f.d = "val" /\ (IsT(f.t) \/ IsPT(f.t)) /\ TIdx(f.t) # f.j
    \/ IsSwitch(f) /\ HostSrc(f) /\ f.d # "nil" /\ (f.d = "val" \/ f.r # IdBranch(f))
\* F-C05-5: x.(Tj) rejected as impossible although Tj has the pointer-receiver method through an embedded pointer
Excluded_F_C05_5(X, f) ==
    IsAssert(f) /\ f.s # "E" /\ IsT(f.t) /\ \E m \in IMeths(f.s) : X.rkj[TIdx(f.t)][m] = "ptr"
\* F-C05-6: a struct value held by a variable of HOST interface type is not a copy (class computed by
\* Late: the form can tell a copy from an alias).  Repaired meanwhile and no longer in the class:
\* interpreted interface values (0d506cc), method values with a value receiver (87372ef, d6a0baa)
Excluded_F_C05_6(F, f) == f.x = "copy" /\ (f.k = "hcallc" \/ (f.k = "assert2c" /\ f.t \in HFaces))
\* F-C05-7: method expressions other than a direct call of T.m declared on T itself with that receiver kind
Excluded_F_C05_7(F, f) ==
    \/ f.k \in {"mexpvf", "mexppf"}
    \/ f.k \in {"mexpv", "mexpp"} /\ (F.depth[f.m] > 0 \/ (f.k = "mexpp" /\ F.rk[f.m] = "val"))
\* F-C05-8: fmt functions choose the wrapper from {Formatter, Stringer} by method name: error is
\* ignored, the io.Writer argument of Fprint gets a Stringer wrapper, interface-typed arguments none
Excluded_F_C05_8(F, f) ==
    \/ f.k \in {"sprint", "errorf"} /\ "N" \in MSD(F, f.d)
    \/ f.k = "fprint" /\ F.found["M"]
    \/ f.k = "sprinti"

\* F-C05-9: a method is also declared deeper below an EARLIER embedded field: the depth-first
\* search of lookupMethod finds that one first
RelM(f) == ({f.m} \cap Meths) \cup IMeths(f.s) \cup IMeths(f.t)
           \cup UNION {UNION {IMeths(f.cl[u][w]) : w \in 1..Len(f.cl[u])} : u \in 1..Len(f.cl)}
           \cup (IF f.k \in {"sprint", "errorf", "sprinti", "fprint", "sort", "copysrc", "copydst"} THEN Meths ELSE {})
Excluded_F_C05_9(FJ, f) ==
    \/ \E m \in RelM(f) : FJ[f.j].dfs[m]
    \/ f.k \in TwoKinds /\ FJ[1].dfs[f.m]
    \* (the static check of x.(Tk) looks the methods of x's type up from Tk)
    \/ (IsT(f.t) \/ IsPT(f.t)) /\ \E m \in IMeths(f.s) : FJ[TIdx(f.t)].dfs[m]

\* F-C05-10: an assertion to a host interface type of an interpreted-interface value that was made
\* in ANOTHER function (the shared-site helpers take it as a parameter): the wrapper is built by
\* re-evaluating, in the current frame, the node that created the value
Excluded_F_C05_10(F, f) ==
    f.k \in {"sassert1", "sassert2"} /\ f.s \in IFaces \cup {"E"} /\ f.t \in HFaces /\ f.d # "nil" /\ OkExpected(f)

Class(X, FJ, f) ==
    LET F == FJ[f.j] IN
    \* (F-C05-2, F-C05-5, F-C05-7 and F-C05-9 are REPAIRED in /repo (00346cf, ad0bf2c, 94987eb, 2f66119): their
    \* classes are generated by every tier again; the predicates stay above as the record of what they were)
    CASE Excluded_F_C05_4(F, f) -> "F-C05-4 assertion or type switch on a value of host interface type (error, fmt.Stringer) holding an interpreted value"
      [] Excluded_F_C05_3(F, f) -> "F-C05-3 assertion to an interface type or type switch on an interface{} holding an interpreted struct or pointer"
      [] Excluded_F_C05_6(F, f) -> "F-C05-6 struct value held by an interface or method value, variable mutated afterwards"
      [] Excluded_F_C05_8(F, f) -> "F-C05-8 interpreted value with Error/String/Write methods passed to a fmt function"
      [] Excluded_F_C05_10(F, f) -> "F-C05-10 assertion to a host interface type of an interface value received as a parameter"
      [] OTHER -> ""

\* (FJ[j]: the facts about the root type of the form's dynamic value)
Classify(X, FJ, fs) == [i \in 1..Len(fs) |-> [fs[i] EXCEPT !.x = Class(X, FJ, fs[i])]]

\* (a shared-site form inherits the class of its single-use form, which the exhaustive tier runs:
\* the shared-site forms of the listed classes are never generated; F-C05-10 has its witness)
UnlistedShared(H, F) == SelectSeq(Classify(H, H.fj, SharedForms(H, F)), LAMBDA f : f.x = "")

AllForms(H) ==
    LET F == Facts(H)
        X == Ext(H) IN
    Classify(X, X.fj, StaticForms(X, F) \o IfaceForms(X, F) \o AssertForms(X, F) \o SwitchForms(X, F) \o HostForms(X, F)
                             \o UnlistedShared(X, F) \o TwoRecvForms(X, F))

-------------------------------------------------------------------------------
VARIABLES h, phase, forms
vars == <<h, phase, forms>>

Sampled(g) == Percent >= 100 \/ ((g * 7919 + (Seed % 1000) * 10477) % 10007) % 100 < Percent
ShapeOK(H) == CASE Shape = "chain" -> SingleEmbed(H)
                [] Shape = "fork"  -> ~SingleEmbed(H)
                [] OTHER           -> TRUE
Valid(H) == Connected(H) /\ Unambiguous(H) /\ ShapeOK(H)

Init ==
    /\ \E n \in 1..MaxN : \E x \in 0..(Total(n) - 1) :
          /\ Offset(n) + x >= Lo /\ Offset(n) + x <= Hi
          /\ Sampled(Offset(n) + x)
          /\ h = Decode(n, x)
          /\ Valid(h)
    /\ phase = "static"
    /\ forms = <<>>

Keep(fs) == IF Exclude THEN SelectSeq(fs, LAMBDA f : f.x = "") ELSE fs

Step(from, to, gen(_, _)) ==
    /\ phase = from
    /\ phase' = to
    /\ forms' = forms \o (LET X == Ext(h) IN Keep(Classify(X, X.fj, gen(X, X.fj[1]))))
    /\ UNCHANGED h

GenStatic == Step("static", "iface",  StaticForms)
GenIface  == Step("iface",  "assert", IfaceForms)
GenAssert == Step("assert", "switch", AssertForms)
GenSwitch == Step("switch", "host",   SwitchForms)
GenHost   == Step("host",   "shared", HostForms)
GenShared == Step("shared", "two",    UnlistedShared)
GenTwo    == Step("two",    "done",   TwoRecvForms)
Next == GenStatic \/ GenIface \/ GenAssert \/ GenSwitch \/ GenHost \/ GenShared \/ GenTwo
Spec == Init /\ [][Next]_vars

\* seeded simulation: MaxN types, at most two embedded types per struct, shadowing
RandHier(z) ==
    LET xs == {RandomElement(0..(Total(MaxN) - 1)) : k \in 1..30}
        ok == {x \in xs : LET H == Decode(MaxN, x) IN Connected(H) /\ AtMostTwo(H) /\ Unambiguous(H) /\ Shadowing(H)}
    IN IF ok = {} THEN z ELSE Decode(MaxN, RandomElement(ok))
InitSim == h = Decode(1, 0) /\ phase = "done" /\ forms = <<>>
NextSim == /\ h' = RandHier(h)
           /\ phase' = "done"
           /\ forms' = Keep(AllForms(h'))
SpecSim == InitSim /\ [][NextSim]_vars

-------------------------------------------------------------------------------
(* What TLC checks on the model itself.                                         *)
\* the method set of T is included in the method set of *T
InvSubset == \A i \in 1..h.n : MethodSet(h, i, FALSE) \subseteq MethodSet(h, i, TRUE)
\* selectors denote at most one method
InvLookupFunction == \A i \in 1..h.n, m \in Meths : Cardinality(Shallowest(h, i, m)) <= 1
\* the path formulation of method sets agrees with the wording of the language specification
InvMethodSetRule == \A i \in 1..h.n, m \in Meths, a \in BOOLEAN : InMS(h, i, m, a) = MSrule(h, i, m, a)
\* an assertion to an interface type succeeds exactly when the dynamic type implements it
InvAssertIffImpl ==
    phase = "done" =>
    \A k \in 1..Len(forms) :
       LET f == forms[k] IN
       (IsAssert(f) /\ IsI(f.t) /\ f.d # "nil") =>
           ((f.r \in {"true", "ok"}) <=> Implements(h, f.j, f.d = "ptr", f.t))
\* a value stored in an interface is a copy: whatever is then done through the interface
\* leaves the counters of v that are not behind a pointer at their mutated initial values
InvIfaceCopy ==
    phase = "done" =>
    LET F == Facts(h) IN
    \A k \in 1..Len(forms) :
       LET f == forms[k] IN
       (f.d = "val" /\ f.k \in {"icall", "imval", "hcall", "iconv", "assert1", "assert2", "switch", "sprinti",
                                  "icallc", "imvalc", "hcallc", "assert2c"}) =>
           \A q \in 1..F.np : ~F.sh[q] => f.fin[q] = 10 * q + 100
\* a switch takes the first clause whose type the dynamic type can be asserted to
InvSwitchFirst ==
    phase = "done" =>
    \A k \in 1..Len(forms) :
       LET f == forms[k] IN
       IsSwitch(f) =>
          \A u \in 1..Len(f.cl) :
             (f.r = ToString(f.lb[u])) =>
                /\ \E w \in 1..Len(f.cl[u]) : AssertOkJ(Ext(h), f.j, f.d, f.cl[u][w])
                /\ \A u2 \in 1..(u - 1) : \A w \in 1..Len(f.cl[u2]) : ~AssertOkJ(Ext(h), f.j, f.d, f.cl[u2][w])
\* the verdict of an assertion / switch / call site depends on the value it is given only, not on
\* the values the site has seen before: whatever the position of a call in whatever order, and
\* whether the site is shared or used once, the same (construct, source type, target, dynamic
\* value) has the same outcome, and the shared sites invoke the same methods
BaseKind(k) == CASE k \in {"assert1", "sassert1"} -> "a1" [] k \in {"assert2", "sassert2"} -> "a2"
                 [] k \in {"switch", "sswitch"} -> "sw" [] k \in {"icall", "scall"} -> "c" [] OTHER -> k
\* a call through an interface value, and a method value taken from one, run on the dynamic value
\* of THAT interface value whatever was bound in between: in the forms of family G the entry of the
\* mutated object a shows a counter >= 100, the entry of the fresh object b a counter < 100, in the
\* order of the calls
InvOwnReceiver ==
    phase = "done" =>
    \A k \in 1..Len(forms) :
       LET f == forms[k] IN
       f.k \in TwoKinds =>
          /\ Len(f.log) = 2
          /\ LET ia == IF f.k = "mvpair" THEN 1 ELSE 2 IN f.log[ia].c >= 100 /\ f.log[3 - ia].c < 100
InvSiteHistoryFree ==
    phase = "done" =>
    LET sh  == {k \in 1..Len(forms) : forms[k].o # ""}
        all == sh \cup {k \in 1..Len(forms) : forms[k].k \in {"assert1", "assert2", "switch", "icall"}}
        key(k) == LET f == forms[k] IN <<BaseKind(f.k), f.s, f.t, f.cl, f.j, f.d>>
    IN /\ Cardinality({key(k) : k \in all}) = Cardinality({<<key(k), forms[k].r>> : k \in all})
       /\ Cardinality({key(k) : k \in sh}) = Cardinality({<<key(k), forms[k].r, forms[k].log>> : k \in sh})

\* behaviours are handed to the harness from an always-true invariant
\* (facts: how M and N are found from T1, for the reader of a replay file)
FactsOut(H) == LET F == Facts(H) IN
    [m \in Meths |-> [found |-> F.found[m], def |-> F.def[m], depth |-> F.depth[m], rk |-> F.rk[m],
                      viaptr |-> (F.found[m] /\ F.sh[F.pos[m]]), inT |-> (m \in F.msv), inPT |-> (m \in F.msp)]]
Emit == phase = "done" /\ forms # <<>> => PrintT(<<"BEH", ToJson([h |-> h, facts |-> FactsOut(h), forms |-> forms])>>)
===============================================================================
